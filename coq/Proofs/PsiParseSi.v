(* parsePSIData on the reference encodings of SDT, NIT, EIT and TOT sections (EN 300 468 5.2), with descriptor
   loops and the MJD/BCD time fields abstracted: their inversion by parseDescriptors / parseDVBTime /
   parseDVBDurationSeconds are premises (C14's and C15's round trips). *)
From Coq Require Import ZArith List Lia Bool ZifyBool.
Require Import Base.Bits Base.Iter Base.Wr Gen.Consts Gen.Types Gen.Preds Model.Packet Model.Desc Model.Dvb Model.Psi.
Require Import Spec.CrcSpec Spec.PsiSpec Proofs.CrcProofs Proofs.PsiProofs Proofs.PsiParse.
Import ListNotations.
Open Scope Z_scope.
Open Scope iter_scope.

(* ---------- generic loop: `for i.Offset() < end { item }` over a concatenation of item encodings ---------- *)
Section Loop.
  Context {X V : Type}.
  Variable item : IM V.
  Variable enc : X -> list Z.
  Variable value : X -> V.
  Variable ok : X -> Prop.
  Hypothesis item_at : forall i x r, ok x -> at_ i (enc x ++ r) ->
    item i = Ok (value x, mk_iter (ibs i) (ioff i + Z.of_nat (length (enc x)))).
  Hypothesis enc_pos : forall x, ok x -> (0 < length (enc x))%nat.

  Lemma items_loop_at xs : forall fuel i r, Forall ok xs -> (length xs < fuel)%nat ->
    at_ i (flat_map enc xs ++ r) ->
    loop_until fuel (ioff i + Z.of_nat (length (flat_map enc xs))) item i =
      Ok (map value xs, mk_iter (ibs i) (ioff i + Z.of_nat (length (flat_map enc xs)))).
  Proof.
    induction xs as [|x xs IH]; intros fuel i r Hok Hf Hat.
    - destruct fuel as [|k]; [cbn in Hf; lia|]. cbn [loop_until flat_map length app map] in *. unfold ibind, ioffset.
      replace (ioff i + Z.of_nat 0) with (ioff i) by lia. rewrite Z.ltb_irrefl. unfold iret.
      destruct i as [B o]. reflexivity.
    - destruct fuel as [|k]; [cbn in Hf; lia|]. inversion Hok as [|? ? Hx Hxs]; subst.
      cbn [flat_map] in Hat |- *. rewrite <- app_assoc in Hat.
      pose proof (item_at i x _ Hx Hat) as E1. pose proof (at_move _ _ _ Hat) as Hat1. pose proof (enc_pos x Hx) as Lx.
      cbn [loop_until length map]. unfold ibind at 1, ioffset. rewrite app_length.
      destruct (ioff i <? ioff i + Z.of_nat (length (enc x) + length (flat_map enc xs))) eqn:El; [|lia].
      unfold ibind at 1. rewrite E1.
      specialize (IH k _ r Hxs ltac:(cbn [length] in Hf; lia) Hat1). cbn [ibs ioff] in IH.
      replace (ioff i + Z.of_nat (length (enc x) + length (flat_map enc xs)))
        with (ioff i + Z.of_nat (length (enc x)) + Z.of_nat (length (flat_map enc xs))) by lia.
      unfold ibind. rewrite IH. reflexivity.
  Qed.

  Lemma items_count xs : Forall ok xs -> (length xs <= length (flat_map enc xs))%nat.
  Proof.
    induction 1 as [|x xs Hx _ IH]; [reflexivity|]. cbn [flat_map length]. rewrite app_length.
    pose proof (enc_pos x Hx). lia.
  Qed.

  (* the fuel parsers take from the buffer length is enough *)
  Lemma items_fuel xs i r : Forall ok xs -> at_ i (flat_map enc xs ++ r) ->
    (length xs < S (Z.to_nat (ilen i)))%nat.
  Proof.
    intros Hok Hat. pose proof (items_count xs Hok). destruct Hat as [H0 Hs].
    pose proof (skipn_length (Z.to_nat (ioff i)) (ibs i)) as L. rewrite Hs, app_length in L. unfold ilen. lia.
  Qed.
End Loop.

(* ---------- sections with the long syntax (table_id_extension ... last_section_number) ---------- *)
Lemma parse_long_section_frame B o tid ssi pb ext ver cni sn lsn rb T d o' :
  0 <= tid < 256 -> shouldStopPSIParsing tid = false -> PSITableID_hasCRC32 tid = true ->
  PSITableID_hasPSISyntaxHeader tid = true ->
  0 <= ext < 2 ^ 16 -> 0 <= ver < 32 -> 0 <= sn < 256 -> 0 <= lsn < 256 ->
  bytes_ok rb -> 5 + Z.of_nat (length rb) + 4 < 4096 ->
  let body := bytes_of_fields (spec_syntax_header ext ver cni sn lsn) ++ rb in
  at_ (mk_iter B o) (spec_section tid ssi pb body ++ T) ->
  let L := Z.of_nat (length body) + 4 in
  let h := {| PSISectionHeader_PrivateBit := pb; PSISectionHeader_SectionLength := L;
              PSISectionHeader_SectionSyntaxIndicator := ssi; PSISectionHeader_TableID := tid;
              PSISectionHeader_TableType := table_type tid |} in
  let sh := {| PSISectionSyntaxHeader_CurrentNextIndicator := cni; PSISectionSyntaxHeader_LastSectionNumber := lsn;
               PSISectionSyntaxHeader_SectionNumber := sn; PSISectionSyntaxHeader_TableIDExtension := ext;
               PSISectionSyntaxHeader_VersionNumber := ver |} in
  (at_ (mk_iter B (o + 8)) (rb ++ CrcSpec.be32 (crc32_mpeg2 (spec_section_prefix tid ssi pb body)) ++ T) ->
   parse_psi_section_syntax_data h (Some sh) (o + 8 + Z.of_nat (length rb)) (mk_iter B (o + 8)) = Ok (d, mk_iter B o')) ->
  parse_psi_section (mk_iter B o) =
  Ok (({| PSISection_CRC32 := crc32_mpeg2 (spec_section_prefix tid ssi pb body);
          PSISection_Header := Some h;
          PSISection_Syntax := Some {| PSISectionSyntax_Data := Some d; PSISectionSyntax_Header := Some sh |} |}, false),
      mk_iter B (o + Z.of_nat (length (spec_section tid ssi pb body)))).
Proof.
  intros Ht Hs Hc Hsh He Hv Hsn Hlsn Hrb Hfit body Hat L h sh Hdata.
  assert (L5 : length (bytes_of_fields (spec_syntax_header ext ver cni sn lsn)) = 5%nat)
    by (apply bytes_of_bits_length; reflexivity).
  assert (Lb : length body = (5 + length rb)%nat) by (unfold body; rewrite app_length, L5; reflexivity).
  assert (Hbody : bytes_ok body) by (unfold body; apply Forall_app; split; [apply bytes_of_bits_ok|exact Hrb]).
  assert (Hat3 : at_ (mk_iter B (o + 3)) (body ++ CrcSpec.be32 (crc32_mpeg2 (spec_section_prefix tid ssi pb body)) ++ T)).
  { unfold spec_section, spec_section_prefix in Hat. cbn zeta in Hat. rewrite <- !app_assoc in Hat.
    pose proof (at_shift B o _ _ Hat) as X.
    replace (length (bytes_of_fields (spec_section_header tid ssi pb (Z.of_nat (length body) + 4)))) with 3%nat in X.
    - exact X.
    - rewrite header_bytes by exact Ht. cbn [length]. rewrite hdr_tail_length. reflexivity. }
  assert (Hsyn : parse_psi_section_syntax h (o + 3 + Z.of_nat (length body)) (mk_iter B (o + 3)) =
                 Ok ({| PSISectionSyntax_Data := Some d; PSISectionSyntax_Header := Some sh |}, mk_iter B o')).
  { unfold parse_psi_section_syntax. cbn [PSISectionHeader_TableID h]. rewrite Hsh.
    unfold body in Hat3. rewrite <- app_assoc in Hat3.
    destruct (parse_syntax_header_at _ ext ver cni sn lsn _ He Hv Hsn Hlsn Hat3) as [E1 Hat8]. cbn [ibs ioff] in E1, Hat8.
    unfold ibind at 1. unfold ibind at 1. rewrite E1. fold sh. unfold iret at 1.
    replace (o + 3 + 5) with (o + 8) in * by lia.
    replace (o + 3 + Z.of_nat (length body)) with (o + 8 + Z.of_nat (length rb)) by lia.
    unfold ibind. rewrite (Hdata Hat8). reflexivity. }
  assert (RL : Z.of_nat (length body) + 4 < 4096) by lia.
  exact (parse_section_frame B o tid ssi pb body T _ _ Ht Hs Hc Hbody RL Hat Hsyn).
Qed.

(* ---------- locality of the DVB time parsers: they read the bytes at the cursor ---------- *)
Lemma dvb_duration_at i b r rest : length b = 3%nat -> at_ i (b ++ r) ->
  parse_dvb_duration_seconds i =
  match parse_dvb_duration_seconds (new_iter (b ++ rest)) with
  | Ok (t, _) => Ok (t, mk_iter (ibs i) (ioff i + 3)) | Err c => Err c | Panic => Panic end.
Proof.
  intros Hl Hat. unfold parse_dvb_duration_seconds, ibind, next_bytes_nocopy.
  rewrite (read_bytes _ _ _ 3 Hat) by lia.
  assert (H0 : at_ (new_iter (b ++ rest)) (b ++ rest)) by (split; [cbn; lia|reflexivity]).
  rewrite (read_bytes _ _ _ 3 H0) by lia. reflexivity.
Qed.

Lemma dvb_time_at i b r rest : length b = 5%nat -> at_ i (b ++ r) ->
  parse_dvb_time i =
  match parse_dvb_time (new_iter (b ++ rest)) with
  | Ok (t, _) => Ok (t, mk_iter (ibs i) (ioff i + 5)) | Err c => Err c | Panic => Panic end.
Proof.
  intros Hl Hat. destruct b as [|b0 [|b1 [|b2 [|b3 [|b4 [|]]]]]]; try discriminate. clear Hl.
  change [b0; b1; b2; b3; b4] with ([b0; b1] ++ [b2; b3; b4]) in *. rewrite <- app_assoc in Hat.
  unfold parse_dvb_time, ibind at 1, next_bytes_nocopy. rewrite (read_bytes _ _ _ 2 Hat) by (cbn; lia).
  pose proof (at_move _ _ _ Hat) as Hat2. cbn [length] in Hat2. change (Z.of_nat 2) with 2 in Hat2.
  unfold ibind at 1. rewrite (dvb_duration_at _ [b2; b3; b4] r rest eq_refl Hat2). cbn [ibs ioff].
  assert (H0 : at_ (new_iter (([b0; b1] ++ [b2; b3; b4]) ++ rest)) ([b0; b1] ++ [b2; b3; b4] ++ rest))
    by (split; [cbn; lia|reflexivity]).
  unfold ibind at 1. rewrite (read_bytes _ _ _ 2 H0) by (cbn; lia).
  pose proof (at_move _ _ _ H0) as H2. cbn [length new_iter ibs ioff] in H2. change (0 + Z.of_nat 2) with 2 in H2.
  unfold ibind at 1. cbn [new_iter ibs ioff]. change (0 + 2) with 2.
  rewrite (dvb_duration_at _ [b2; b3; b4] rest rest eq_refl H2).
  destruct (parse_dvb_duration_seconds (new_iter ([b2; b3; b4] ++ rest))) as [[t it]| |]; try reflexivity.
  unfold iret. cbn [ibs ioff]. replace (ioff i + 2 + 3) with (ioff i + 5) by lia. reflexivity.
Qed.

(* ---------- bit-level helpers ---------- *)
Lemma bitsf_first_byte b rest off w : (off + w <= 8)%nat -> bitsf [b] off w = bitsf (b :: rest) off w.
Proof.
  intros H. unfold bitsf, field, bits_of_bytes. cbn [flat_map]. rewrite app_nil_r.
  rewrite skipn_app, bits_of_length. replace (off - 8)%nat with 0%nat by lia. cbn [skipn].
  rewrite firstn_app. rewrite skipn_length, bits_of_length. replace (w - (8 - off))%nat with 0%nat by lia.
  cbn [firstn]. rewrite app_nil_r. reflexivity.
Qed.

Lemma top4_bits rs (fca : bool) : 0 <= rs < 8 -> bits_of 4 (rs * 2 + Z.b2z fca) = bits_of 3 rs ++ [fca].
Proof.
  intros H. assert (C : rs = 0 \/ rs = 1 \/ rs = 2 \/ rs = 3 \/ rs = 4 \/ rs = 5 \/ rs = 6 \/ rs = 7) by lia.
  destruct fca; destruct C as [->|[->|[->|[->|[->|[->|[->| ->]]]]]]]; reflexivity.
Qed.

(* the two bytes that hold running_status(3) free_CA_mode(1) length(12) *)
Definition rs_hdr (rs : Z) (fca : bool) (L : Z) : list Z := bytes_of_bits (bits_of 3 rs ++ [fca] ++ bits_of 12 L).

Lemma loop16_rs rs fca bytes : 0 <= rs < 8 ->
  spec_loop16 (rs * 2 + Z.b2z fca) bytes = rs_hdr rs fca (Z.of_nat (length bytes)) ++ bytes.
Proof.
  intros H. unfold spec_loop16, rs_hdr, bytes_of_fields, bits_of_fields, field_bits. cbn [flat_map fst snd].
  rewrite app_nil_r, top4_bits by exact H. rewrite <- app_assoc. reflexivity.
Qed.

Lemma rs_hdr_fields rs fca L : 0 <= rs < 8 -> 0 <= L < 4096 ->
  exists h0 h1, rs_hdr rs fca L = [h0; h1] /\ bitsf [h0] 0 3 = rs /\ bitb [h0] 3 = fca.
Proof.
  intros Hr HL. assert (L2 : length (rs_hdr rs fca L) = 2%nat) by (apply bytes_of_bits_length; reflexivity).
  destruct (rs_hdr rs fca L) as [|h0 [|h1 [|]]] eqn:E; try discriminate. exists h0, h1. split; [reflexivity|].
  assert (Hb : bits_of_bytes [h0; h1] = bits_of 3 rs ++ [fca] ++ bits_of 12 L).
  { rewrite <- E. apply (bits_of_bytes_of_bits 2). reflexivity. }
  split.
  - rewrite (bitsf_first_byte h0 [h1]) by lia. unfold bitsf. rewrite Hb. apply field_here. exact Hr.
  - unfold bitb. rewrite (bitsf_first_byte h0 [h1]) by lia. unfold bitsf. rewrite Hb.
    rewrite (field_skip 3) by lia. cbn [Nat.sub app]. rewrite field_bit_here. apply b2z_eqb.
Qed.

Lemma loop16_length top4 bytes : length (spec_loop16 top4 bytes) = (2 + length bytes)%nat.
Proof. unfold spec_loop16. rewrite app_length. unfold bytes_of_fields. rewrite (bytes_of_bits_length 2) by reflexivity. reflexivity. Qed.

Lemma loop16_ok top4 bytes : bytes_ok bytes -> bytes_ok (spec_loop16 top4 bytes).
Proof. intros H. unfold spec_loop16. apply Forall_app. split; [apply bytes_of_bits_ok|exact H]. Qed.

Lemma u16_field v : 0 <= v < 2 ^ 16 ->
  length (bytes_of_bits (bits_of 16 v)) = 2%nat /\ bitsf (bytes_of_bits (bits_of 16 v)) 0 16 = v.
Proof.
  intros H. split; [apply bytes_of_bits_length; reflexivity|]. unfold bitsf.
  rewrite (bits_of_bytes_of_bits 2) by reflexivity. rewrite <- (app_nil_r (bits_of 16 v)). apply field_here. exact H.
Qed.

(* the 12-bit length behind four reserved bits, read by NextBytesNoCopy(2) *)
Lemma len12_field top4 L : 0 <= L < 4096 ->
  let bs := bytes_of_fields [(4%nat, top4); (12%nat, L)] in length bs = 2%nat /\ bitsf bs 4 12 = L.
Proof.
  intros H bs. split; [apply bytes_of_bits_length; reflexivity|]. unfold bitsf, bs, bytes_of_fields.
  rewrite (bits_of_bytes_of_bits 2) by reflexivity. unfold bits_of_fields, field_bits. cbn [flat_map fst snd].
  rewrite (field_skip 4) by lia. cbn [Nat.sub]. apply field_here. exact H.
Qed.

(* facts about the EIT table ids, from the regenerated predicates *)
Lemma eit_id_facts tid : 78 <= tid <= 111 ->
  shouldStopPSIParsing tid = false /\ PSITableID_hasCRC32 tid = true /\ PSITableID_hasPSISyntaxHeader tid = true /\
  is_nit_id tid = false /\ (tid =? C_PSITableIDPAT) = false /\ (tid =? C_PSITableIDPMT) = false /\
  is_sdt_id tid = false /\ (tid =? C_PSITableIDTOT) = false /\ is_eit_id tid = true /\ table_type tid = tt_EIT.
Proof.
  intros H. unfold shouldStopPSIParsing, PSITableID_isUnknown, PSITableID_hasCRC32, PSITableID_hasPSISyntaxHeader,
    table_type, is_nit_id, is_sdt_id, is_eit_id,
    C_PSITableIDPAT, C_PSITableIDPMT, C_PSITableIDTOT, C_PSITableIDNITVariant1, C_PSITableIDNITVariant2,
    C_PSITableIDSDTVariant1, C_PSITableIDSDTVariant2, C_PSITableIDEITStart, C_PSITableIDEITEnd,
    C_PSITableIDBAT, C_PSITableIDDIT, C_PSITableIDNull, C_PSITableIDRST, C_PSITableIDSIT, C_PSITableIDST, C_PSITableIDTDT.
  assert (E1 : (tid =? 74) = false) by lia.
  assert (E2 : ((tid >=? 78) && (tid <=? 111)) = true) by lia.
  rewrite E1, E2.
  repeat match goal with |- context [?a =? ?b] =>
    let E := fresh in assert (E : (a =? b) = false) by lia; rewrite E; clear E end.
  cbn. repeat split; reflexivity.
Qed.

Section SI.
  (* descriptor loops: desc_enc ds bytes = bytes is the encoding of ds (C14); a loop is four arbitrary bits,
     the 12-bit length and the bytes *)
  Variable desc_enc : list Descriptor -> list Z -> Prop.
  Hypothesis desc_enc_ok : forall ds bytes, desc_enc ds bytes -> bytes_ok bytes /\ Z.of_nat (length bytes) < 4096.
  Hypothesis desc_inv : forall top4 ds bytes i r, 0 <= top4 < 16 -> desc_enc ds bytes ->
    at_ i (spec_loop16 top4 bytes ++ r) ->
    parse_descriptors i = Ok (ds, mk_iter (ibs i) (ioff i + 2 + Z.of_nat (length bytes))).
  (* UTC time (5 bytes) and duration (3 bytes): time_enc t b = b is the MJD/BCD encoding of t (C15) *)
  Variable time_enc : Z -> list Z -> Prop.
  Hypothesis time_enc_ok : forall t b, time_enc t b -> length b = 5%nat /\ bytes_ok b.
  Hypothesis time_inv : forall t b i r, time_enc t b -> at_ i (b ++ r) ->
    parse_dvb_time i = Ok (t, mk_iter (ibs i) (ioff i + 5)).
  Variable dur_enc : Z -> list Z -> Prop.
  Hypothesis dur_enc_ok : forall t b, dur_enc t b -> length b = 3%nat /\ bytes_ok b.
  Hypothesis dur_inv : forall t b i r, dur_enc t b -> at_ i (b ++ r) ->
    parse_dvb_duration_seconds i = Ok (t, mk_iter (ibs i) (ioff i + 3)).

  (* ================= SDT ================= *)
  Record sdt_svc := mk_sdt_svc { sv_id : Z; sv_sched : bool; sv_pf : bool; sv_rs : Z; sv_fca : bool;
                                 sv_ds : list Descriptor; sv_bytes : list Z }.
  Definition sv_spec (x : sdt_svc) : Z * bool * bool * Z * bool * list Z :=
    (sv_id x, sv_sched x, sv_pf x, sv_rs x, sv_fca x, sv_bytes x).
  Definition sv_enc (x : sdt_svc) : list Z :=
    spec_sdt_service (sv_id x) (sv_sched x) (sv_pf x) (sv_rs x) (sv_fca x) (sv_bytes x).
  Definition sv_value (x : sdt_svc) : SDTDataService :=
    {| SDTDataService_Descriptors := sv_ds x; SDTDataService_HasEITPresentFollowing := sv_pf x;
       SDTDataService_HasEITSchedule := sv_sched x; SDTDataService_HasFreeCSAMode := sv_fca x;
       SDTDataService_RunningStatus := sv_rs x; SDTDataService_ServiceID := sv_id x |}.
  Definition sv_ok (x : sdt_svc) : Prop := 0 <= sv_id x < 2 ^ 16 /\ 0 <= sv_rs x < 8 /\ desc_enc (sv_ds x) (sv_bytes x).

  Definition flags_byte (sched pf : bool) : Z := Z_of_bits (bits_of 6 63 ++ [sched] ++ [pf]).

  Lemma sdt_head_bytes sid sched pf :
    bytes_of_fields [(16%nat, sid); (6%nat, 63); flag sched; flag pf] = bytes_of_bits (bits_of 16 sid) ++ [flags_byte sched pf].
  Proof.
    unfold bytes_of_fields, bits_of_fields, field_bits, flag. cbn [flat_map fst snd]. rewrite !bits_of_1_b2z, app_nil_r.
    rewrite (bytes_of_bits_app 2) by apply bits_of_length. f_equal.
  Qed.

  Lemma flags_byte_fields sched pf : bitb [flags_byte sched pf] 6 = sched /\ bitb [flags_byte sched pf] 7 = pf.
  Proof.
    unfold bitb, bitsf, bits_of_bytes, flags_byte. cbn [flat_map]. rewrite app_nil_r.
    change 8%nat with (length (bits_of 6 63 ++ [sched] ++ [pf])). rewrite bits_of_Z_of_bits. split.
    - rewrite (field_skip 6) by lia. cbn [Nat.sub app]. rewrite field_bit_here. apply b2z_eqb.
    - rewrite (field_skip 6) by lia. cbn [Nat.sub app]. rewrite field_bit_skip, field_bit_here. apply b2z_eqb.
  Qed.

  Lemma sv_enc_length x : length (sv_enc x) = (5 + length (sv_bytes x))%nat.
  Proof.
    unfold sv_enc, spec_sdt_service. rewrite app_length, loop16_length. unfold bytes_of_fields.
    rewrite (bytes_of_bits_length 3) by reflexivity. lia.
  Qed.

  Lemma parse_sdt_service_at i x r : sv_ok x -> at_ i (sv_enc x ++ r) ->
    parse_sdt_service i = Ok (sv_value x, mk_iter (ibs i) (ioff i + Z.of_nat (length (sv_enc x)))).
  Proof.
    intros (Hid & Hrs & Hd) Hat. rewrite sv_enc_length. unfold sv_enc, spec_sdt_service in Hat.
    destruct (desc_enc_ok _ _ Hd) as [Hbok Hblt].
    rewrite sdt_head_bytes, loop16_rs in Hat by exact Hrs. rewrite <- !app_assoc in Hat. cbn [app] in Hat.
    destruct (u16_field _ Hid) as [L2 F16].
    destruct (rs_hdr_fields (sv_rs x) (sv_fca x) (Z.of_nat (length (sv_bytes x))) Hrs ltac:(lia)) as (h0 & h1 & Eh & Frs & Ffca).
    destruct (flags_byte_fields (sv_sched x) (sv_pf x)) as [Fs Fp].
    unfold parse_sdt_service, ibind, next_bytes_nocopy.
    rewrite (read_bytes _ _ _ 2 Hat) by (rewrite ?L2; lia).
    pose proof (at_move _ _ _ Hat) as Hat2. rewrite L2 in Hat2. change (Z.of_nat 2) with 2 in Hat2.
    rewrite (read_byte _ _ _ Hat2). pose proof (at_move1 _ _ _ Hat2) as Hat3. cbn [ibs ioff] in Hat3 |- *.
    pose proof Hat3 as Hat3'. rewrite Eh in Hat3'. cbn [app] in Hat3'.
    rewrite (read_byte _ _ _ Hat3'). unfold iskip. cbn [ibs ioff].
    replace (ioff i + 2 + 1 + 1 + -1) with (ioff i + 2 + 1) by lia.
    assert (Hat4 : at_ (mk_iter (ibs i) (ioff i + 2 + 1))
                     (spec_loop16 (sv_rs x * 2 + Z.b2z (sv_fca x)) (sv_bytes x) ++ r)).
    { rewrite loop16_rs by exact Hrs. rewrite <- app_assoc. exact Hat3. }
    assert (Ht4 : 0 <= sv_rs x * 2 + Z.b2z (sv_fca x) < 16) by (destruct (sv_fca x); cbn; lia).
    rewrite (desc_inv _ _ _ _ _ Ht4 Hd Hat4). cbn [ibs ioff]. unfold iret. rewrite F16, Fs, Fp, Frs, Ffca.
    unfold sv_value. replace (ioff i + 2 + 1 + 2 + Z.of_nat (length (sv_bytes x)))
      with (ioff i + Z.of_nat (5 + length (sv_bytes x))) by lia. reflexivity.
  Qed.

  Definition sdt_section_value (tid : Z) (ssi pb : bool) (ext ver : Z) (cni : bool) (sn lsn onid : Z) (xs : list sdt_svc) : PSISection :=
    let body := spec_sdt_body ext ver cni sn lsn onid (map sv_spec xs) in
    {| PSISection_CRC32 := crc32_mpeg2 (spec_section_prefix tid ssi pb body);
       PSISection_Header := Some {| PSISectionHeader_PrivateBit := pb;
                                    PSISectionHeader_SectionLength := Z.of_nat (length body) + 4;
                                    PSISectionHeader_SectionSyntaxIndicator := ssi; PSISectionHeader_TableID := tid;
                                    PSISectionHeader_TableType := tt_SDT |};
       PSISection_Syntax := Some {|
         PSISectionSyntax_Data := Some (syntax_data None None None None
            (Some {| SDTData_OriginalNetworkID := onid; SDTData_Services := map sv_value xs;
                     SDTData_TransportStreamID := ext |}) None);
         PSISectionSyntax_Header := Some {| PSISectionSyntaxHeader_CurrentNextIndicator := cni;
                                            PSISectionSyntaxHeader_LastSectionNumber := lsn;
                                            PSISectionSyntaxHeader_SectionNumber := sn;
                                            PSISectionSyntaxHeader_TableIDExtension := ext;
                                            PSISectionSyntaxHeader_VersionNumber := ver |} |} |}.

  Definition sdt_wf (tid ext ver sn lsn onid : Z) (xs : list sdt_svc) : Prop :=
    (tid = 66 \/ tid = 70) /\ 0 <= ext < 2 ^ 16 /\ 0 <= ver < 32 /\ 0 <= sn < 256 /\ 0 <= lsn < 256 /\
    0 <= onid < 2 ^ 16 /\ Forall sv_ok xs /\ 8 + Z.of_nat (length (flat_map sv_enc xs)) + 4 < 4096.

  Lemma sdt_services_flat xs :
    flat_map (fun s : Z * bool * bool * Z * bool * list Z =>
                match s with (sid, sc, pf, rs, fca, ds) => spec_sdt_service sid sc pf rs fca ds end) (map sv_spec xs)
    = flat_map sv_enc xs.
  Proof. induction xs as [|x xs IH]; [reflexivity|]. cbn [map flat_map]. rewrite IH. reflexivity. Qed.

  Lemma sv_enc_ok xs : Forall sv_ok xs -> bytes_ok (flat_map sv_enc xs).
  Proof.
    induction 1 as [|x xs (_ & _ & Hd) _ IH]; cbn [flat_map]; [constructor|]. apply Forall_app. split; [|exact IH].
    unfold sv_enc, spec_sdt_service. apply Forall_app. split; [apply bytes_of_bits_ok|].
    apply loop16_ok. apply (proj1 (desc_enc_ok _ _ Hd)).
  Qed.

  Theorem sdt_sec_parses tid ssi pb ext ver cni sn lsn onid xs : sdt_wf tid ext ver sn lsn onid xs ->
    sec_parses (spec_section tid ssi pb (spec_sdt_body ext ver cni sn lsn onid (map sv_spec xs)))
               (sdt_section_value tid ssi pb ext ver cni sn lsn onid xs).
  Proof.
    intros (Htid & He & Hv & Hsn & Hlsn & Ho & Hxs & Hfit). split.
    { unfold spec_section. rewrite app_length. cbn [CrcSpec.be32 length]. lia. }
    intros B o T Hat.
    set (rb := bytes_of_bits (bits_of 16 onid) ++ [255] ++ flat_map sv_enc xs).
    assert (Ebody : spec_sdt_body ext ver cni sn lsn onid (map sv_spec xs) =
                    bytes_of_fields (spec_syntax_header ext ver cni sn lsn) ++ rb).
    { unfold spec_sdt_body, rb. rewrite sdt_services_flat. reflexivity. }
    destruct (u16_field _ Ho) as [L2 F16].
    assert (Lrb : length rb = (3 + length (flat_map sv_enc xs))%nat) by (unfold rb; rewrite !app_length, L2; reflexivity).
    assert (Hrb : bytes_ok rb).
    { unfold rb. apply Forall_app. split; [apply bytes_of_bits_ok|]. apply Forall_app. split; [repeat constructor; lia|].
      apply sv_enc_ok. exact Hxs. }
    assert (Tf : 0 <= tid < 256 /\ shouldStopPSIParsing tid = false /\ PSITableID_hasCRC32 tid = true /\
                 PSITableID_hasPSISyntaxHeader tid = true /\ table_type tid = tt_SDT /\
                 is_nit_id tid = false /\ (tid =? C_PSITableIDPAT) = false /\ (tid =? C_PSITableIDPMT) = false /\
                 is_sdt_id tid = true /\ is_eit_id tid = false).
    { destruct Htid as [-> | ->]; repeat split; try lia; reflexivity. }
    destruct Tf as (T0 & T1 & T2 & T3 & T4 & T5 & T6 & T7 & T8 & T9).
    rewrite Ebody in Hat |- *.
    pose proof (parse_long_section_frame B o tid ssi pb ext ver cni sn lsn rb T
                  (syntax_data None None None None
                     (Some {| SDTData_OriginalNetworkID := onid; SDTData_Services := map sv_value xs;
                              SDTData_TransportStreamID := ext |}) None)
                  (o + 8 + Z.of_nat (length rb)) T0 T1 T2 T3 He Hv Hsn Hlsn Hrb ltac:(lia) Hat) as F.
    cbn zeta in F. unfold sdt_section_value. rewrite Ebody. rewrite T4 in F. apply F. clear F.
    intros Hat8. unfold parse_psi_section_syntax_data. cbn [PSISectionHeader_TableID]. rewrite T5, T6, T7, T8, T9.
    unfold sh_ext, ilift, need, res_map, parse_sdt_section, loop_fuel, ilength, ibind, iret, next_bytes_nocopy, iskip.
    cbn [ibs ioff PSISectionSyntaxHeader_TableIDExtension].
    unfold rb in Hat8. rewrite <- !app_assoc in Hat8.
    rewrite (read_bytes _ _ _ 2 Hat8) by (rewrite ?L2; lia). cbn [ibs ioff].
    pose proof (at_move _ _ _ Hat8) as Hat10. rewrite L2 in Hat10. cbn [ibs ioff] in Hat10. change (Z.of_nat 2) with 2 in Hat10.
    pose proof (at_move1 _ _ _ Hat10) as Hat11. cbn [ibs ioff] in Hat11.
    assert (Hpos : forall x, sv_ok x -> (0 < length (sv_enc x))%nat) by (intros x _; rewrite sv_enc_length; lia).
    pose proof (items_fuel parse_sdt_service sv_enc sv_value sv_ok parse_sdt_service_at Hpos xs _ _ Hxs Hat11) as Hfuel.
    pose proof (items_loop_at parse_sdt_service sv_enc sv_value sv_ok parse_sdt_service_at Hpos xs _ _ _ Hxs Hfuel Hat11) as E2.
    cbn [ibs ioff] in E2.
    replace (o + 8 + Z.of_nat (length rb)) with (o + 8 + 2 + 1 + Z.of_nat (length (flat_map sv_enc xs))) by (rewrite Lrb; lia).
    rewrite E2. rewrite F16. reflexivity.
  Qed.

  (* ================= EIT ================= *)
  Record eit_ev := mk_eit_ev { ev_id : Z; ev_t : Z; ev_tb : list Z; ev_d : Z; ev_db : list Z; ev_rs : Z; ev_fca : bool;
                               ev_ds : list Descriptor; ev_bytes : list Z }.
  Definition ev_spec (x : eit_ev) : Z * list Z * list Z * Z * bool * list Z :=
    (ev_id x, ev_tb x, ev_db x, ev_rs x, ev_fca x, ev_bytes x).
  Definition ev_enc (x : eit_ev) : list Z :=
    spec_eit_event (ev_id x) (ev_tb x) (ev_db x) (ev_rs x) (ev_fca x) (ev_bytes x).
  Definition ev_value (x : eit_ev) : EITDataEvent :=
    {| EITDataEvent_Descriptors := ev_ds x; EITDataEvent_Duration := ev_d x; EITDataEvent_EventID := ev_id x;
       EITDataEvent_HasFreeCSAMode := ev_fca x; EITDataEvent_RunningStatus := ev_rs x; EITDataEvent_StartTime := ev_t x |}.
  Definition ev_ok (x : eit_ev) : Prop :=
    0 <= ev_id x < 2 ^ 16 /\ 0 <= ev_rs x < 8 /\ time_enc (ev_t x) (ev_tb x) /\ dur_enc (ev_d x) (ev_db x) /\
    desc_enc (ev_ds x) (ev_bytes x).

  Lemma ev_enc_length x : ev_ok x -> length (ev_enc x) = (12 + length (ev_bytes x))%nat.
  Proof.
    intros (_ & _ & Ht & Hd & _). unfold ev_enc, spec_eit_event. rewrite !app_length, loop16_length.
    rewrite (proj1 (time_enc_ok _ _ Ht)), (proj1 (dur_enc_ok _ _ Hd)). unfold bytes_of_fields.
    rewrite (bytes_of_bits_length 2) by reflexivity. lia.
  Qed.

  Lemma parse_eit_event_at i x r : ev_ok x -> at_ i (ev_enc x ++ r) ->
    parse_eit_event i = Ok (ev_value x, mk_iter (ibs i) (ioff i + Z.of_nat (length (ev_enc x)))).
  Proof.
    intros Hok Hat. rewrite (ev_enc_length x Hok). destruct Hok as (Hid & Hrs & Ht & Hdu & Hd).
    unfold ev_enc, spec_eit_event in Hat.
    destruct (desc_enc_ok _ _ Hd) as [Hbok Hblt]. destruct (time_enc_ok _ _ Ht) as [Lt _]. destruct (dur_enc_ok _ _ Hdu) as [Ld _].
    assert (E16 : bytes_of_fields [(16%nat, ev_id x)] = bytes_of_bits (bits_of 16 (ev_id x))).
    { unfold bytes_of_fields, bits_of_fields, field_bits. cbn [flat_map fst snd]. rewrite app_nil_r. reflexivity. }
    rewrite E16, loop16_rs in Hat by exact Hrs. rewrite <- !app_assoc in Hat.
    destruct (u16_field _ Hid) as [L2 F16].
    destruct (rs_hdr_fields (ev_rs x) (ev_fca x) (Z.of_nat (length (ev_bytes x))) Hrs ltac:(lia)) as (h0 & h1 & Eh & Frs & Ffca).
    unfold parse_eit_event, ibind, next_bytes_nocopy.
    rewrite (read_bytes _ _ _ 2 Hat) by (rewrite ?L2; lia).
    pose proof (at_move _ _ _ Hat) as Hat2. rewrite L2 in Hat2. change (Z.of_nat 2) with 2 in Hat2.
    rewrite (time_inv _ _ _ _ Ht Hat2). cbn [ibs ioff].
    pose proof (at_move _ _ _ Hat2) as Hat7. rewrite Lt in Hat7. cbn [ibs ioff] in Hat7. change (Z.of_nat 5) with 5 in Hat7.
    rewrite (dur_inv _ _ _ _ Hdu Hat7). cbn [ibs ioff].
    pose proof (at_move _ _ _ Hat7) as Hat10. rewrite Ld in Hat10. cbn [ibs ioff] in Hat10. change (Z.of_nat 3) with 3 in Hat10.
    pose proof Hat10 as Hat10'. rewrite Eh in Hat10'. cbn [app] in Hat10'.
    rewrite (read_byte _ _ _ Hat10'). unfold iskip. cbn [ibs ioff].
    replace (ioff i + 2 + 5 + 3 + 1 + -1) with (ioff i + 2 + 5 + 3) by lia.
    assert (Hat11 : at_ (mk_iter (ibs i) (ioff i + 2 + 5 + 3))
                      (spec_loop16 (ev_rs x * 2 + Z.b2z (ev_fca x)) (ev_bytes x) ++ r)).
    { rewrite loop16_rs by exact Hrs. rewrite <- app_assoc. exact Hat10. }
    assert (Ht4 : 0 <= ev_rs x * 2 + Z.b2z (ev_fca x) < 16) by (destruct (ev_fca x); cbn; lia).
    rewrite (desc_inv _ _ _ _ _ Ht4 Hd Hat11). cbn [ibs ioff]. unfold iret. rewrite F16, Frs, Ffca.
    unfold ev_value. replace (ioff i + 2 + 5 + 3 + 2 + Z.of_nat (length (ev_bytes x)))
      with (ioff i + Z.of_nat (12 + length (ev_bytes x))) by lia. reflexivity.
  Qed.

  Definition eit_section_value (tid : Z) (ssi pb : bool) (ext ver : Z) (cni : bool) (sn lsn tsid onid slsn ltid : Z)
             (xs : list eit_ev) : PSISection :=
    let body := spec_eit_body ext ver cni sn lsn tsid onid slsn ltid (map ev_spec xs) in
    {| PSISection_CRC32 := crc32_mpeg2 (spec_section_prefix tid ssi pb body);
       PSISection_Header := Some {| PSISectionHeader_PrivateBit := pb;
                                    PSISectionHeader_SectionLength := Z.of_nat (length body) + 4;
                                    PSISectionHeader_SectionSyntaxIndicator := ssi; PSISectionHeader_TableID := tid;
                                    PSISectionHeader_TableType := tt_EIT |};
       PSISection_Syntax := Some {|
         PSISectionSyntax_Data := Some (syntax_data
            (Some {| EITData_Events := map ev_value xs; EITData_LastTableID := ltid; EITData_OriginalNetworkID := onid;
                     EITData_SegmentLastSectionNumber := slsn; EITData_ServiceID := ext;
                     EITData_TransportStreamID := tsid |}) None None None None None);
         PSISectionSyntax_Header := Some {| PSISectionSyntaxHeader_CurrentNextIndicator := cni;
                                            PSISectionSyntaxHeader_LastSectionNumber := lsn;
                                            PSISectionSyntaxHeader_SectionNumber := sn;
                                            PSISectionSyntaxHeader_TableIDExtension := ext;
                                            PSISectionSyntaxHeader_VersionNumber := ver |} |} |}.

  Definition eit_wf (tid ext ver sn lsn tsid onid slsn ltid : Z) (xs : list eit_ev) : Prop :=
    78 <= tid <= 111 /\ 0 <= ext < 2 ^ 16 /\ 0 <= ver < 32 /\ 0 <= sn < 256 /\ 0 <= lsn < 256 /\
    0 <= tsid < 2 ^ 16 /\ 0 <= onid < 2 ^ 16 /\ 0 <= slsn < 256 /\ 0 <= ltid < 256 /\
    Forall ev_ok xs /\ 11 + Z.of_nat (length (flat_map ev_enc xs)) + 4 < 4096.

  Lemma eit_events_flat xs :
    flat_map (fun e : Z * list Z * list Z * Z * bool * list Z =>
                match e with (eid, st, du, rs, fca, ds) => spec_eit_event eid st du rs fca ds end) (map ev_spec xs)
    = flat_map ev_enc xs.
  Proof. induction xs as [|x xs IH]; [reflexivity|]. cbn [map flat_map]. rewrite IH. reflexivity. Qed.

  Lemma ev_enc_bytes_ok xs : Forall ev_ok xs -> bytes_ok (flat_map ev_enc xs).
  Proof.
    induction 1 as [|x xs (_ & _ & Ht & Hdu & Hd) _ IH]; cbn [flat_map]; [constructor|]. apply Forall_app. split; [|exact IH].
    unfold ev_enc, spec_eit_event. apply Forall_app. split; [apply bytes_of_bits_ok|].
    apply Forall_app. split; [apply (proj2 (time_enc_ok _ _ Ht))|].
    apply Forall_app. split; [apply (proj2 (dur_enc_ok _ _ Hdu))|].
    apply loop16_ok. apply (proj1 (desc_enc_ok _ _ Hd)).
  Qed.

  Theorem eit_sec_parses tid ssi pb ext ver cni sn lsn tsid onid slsn ltid xs :
    eit_wf tid ext ver sn lsn tsid onid slsn ltid xs ->
    sec_parses (spec_section tid ssi pb (spec_eit_body ext ver cni sn lsn tsid onid slsn ltid (map ev_spec xs)))
               (eit_section_value tid ssi pb ext ver cni sn lsn tsid onid slsn ltid xs).
  Proof.
    intros (Htid & He & Hv & Hsn & Hlsn & Hts & Ho & Hsl & Hlt & Hxs & Hfit). split.
    { unfold spec_section. rewrite app_length. cbn [CrcSpec.be32 length]. lia. }
    intros B o T Hat.
    set (rb := bytes_of_bits (bits_of 16 tsid) ++ bytes_of_bits (bits_of 16 onid) ++ [slsn; ltid] ++ flat_map ev_enc xs).
    assert (Ebody : spec_eit_body ext ver cni sn lsn tsid onid slsn ltid (map ev_spec xs) =
                    bytes_of_fields (spec_syntax_header ext ver cni sn lsn) ++ rb).
    { unfold spec_eit_body, rb. rewrite eit_events_flat. f_equal. rewrite !app_assoc. f_equal.
      unfold bytes_of_fields, bits_of_fields, field_bits. cbn [flat_map fst snd]. rewrite app_nil_r.
      rewrite (bytes_of_bits_app 2) by apply bits_of_length. rewrite (bytes_of_bits_app 2) by apply bits_of_length.
      rewrite (bytes_of_bits_app 1) by apply bits_of_length. rewrite !bytes_of_bits_bits_of_8.
      rewrite (Z.mod_small slsn), (Z.mod_small ltid) by lia. rewrite <- !app_assoc. reflexivity. }
    destruct (u16_field _ Hts) as [L2a F16a]. destruct (u16_field _ Ho) as [L2b F16b].
    assert (Lrb : length rb = (6 + length (flat_map ev_enc xs))%nat) by (unfold rb; rewrite !app_length, L2a, L2b; reflexivity).
    assert (Hrb : bytes_ok rb).
    { unfold rb. apply Forall_app. split; [apply bytes_of_bits_ok|]. apply Forall_app. split; [apply bytes_of_bits_ok|].
      apply Forall_app. split; [repeat constructor; lia|]. apply ev_enc_bytes_ok. exact Hxs. }
    destruct (eit_id_facts tid Htid) as (T1 & T2 & T3 & T5 & T6 & T7 & T8 & T8' & T9 & T4).
    assert (T0 : 0 <= tid < 256) by lia.
    rewrite Ebody in Hat |- *.
    pose proof (parse_long_section_frame B o tid ssi pb ext ver cni sn lsn rb T
                  (syntax_data
                     (Some {| EITData_Events := map ev_value xs; EITData_LastTableID := ltid; EITData_OriginalNetworkID := onid;
                              EITData_SegmentLastSectionNumber := slsn; EITData_ServiceID := ext;
                              EITData_TransportStreamID := tsid |}) None None None None None)
                  (o + 8 + Z.of_nat (length rb)) T0 T1 T2 T3 He Hv Hsn Hlsn Hrb ltac:(lia) Hat) as F.
    cbn zeta in F. unfold eit_section_value. rewrite Ebody. rewrite T4 in F. apply F. clear F.
    intros Hat8. unfold parse_psi_section_syntax_data. cbn [PSISectionHeader_TableID]. rewrite T5, T6, T7, T8, T8', T9.
    unfold sh_ext, ilift, need, res_map, parse_eit_section, loop_fuel, ilength, ibind, iret, next_bytes_nocopy.
    cbn [ibs ioff PSISectionSyntaxHeader_TableIDExtension].
    unfold rb in Hat8. rewrite <- !app_assoc in Hat8.
    rewrite (read_bytes _ _ _ 2 Hat8) by (rewrite ?L2a; lia). cbn [ibs ioff].
    pose proof (at_move _ _ _ Hat8) as Hat10. rewrite L2a in Hat10. cbn [ibs ioff] in Hat10. change (Z.of_nat 2) with 2 in Hat10.
    rewrite (read_bytes _ _ _ 2 Hat10) by (rewrite ?L2b; lia). cbn [ibs ioff].
    pose proof (at_move _ _ _ Hat10) as Hat12. rewrite L2b in Hat12. cbn [ibs ioff app] in Hat12. change (Z.of_nat 2) with 2 in Hat12.
    rewrite (read_byte _ _ _ Hat12). cbn [ibs ioff]. pose proof (at_move1 _ _ _ Hat12) as Hat13. cbn [ibs ioff] in Hat13.
    rewrite (read_byte _ _ _ Hat13). cbn [ibs ioff]. pose proof (at_move1 _ _ _ Hat13) as Hat14. cbn [ibs ioff] in Hat14.
    assert (Hpos : forall x, ev_ok x -> (0 < length (ev_enc x))%nat) by (intros x Hx; rewrite (ev_enc_length x Hx); lia).
    pose proof (items_fuel parse_eit_event ev_enc ev_value ev_ok parse_eit_event_at Hpos xs _ _ Hxs Hat14) as Hfuel.
    pose proof (items_loop_at parse_eit_event ev_enc ev_value ev_ok parse_eit_event_at Hpos xs _ _ _ Hxs Hfuel Hat14) as E2.
    cbn [ibs ioff] in E2.
    replace (o + 8 + Z.of_nat (length rb)) with (o + 8 + 2 + 2 + 1 + 1 + Z.of_nat (length (flat_map ev_enc xs))) by (rewrite Lrb; lia).
    rewrite E2. rewrite F16a, F16b. reflexivity.
  Qed.

  (* ================= NIT ================= *)
  Record nit_ts := mk_nit_ts { ts_id : Z; ts_onid : Z; ts_ds : list Descriptor; ts_bytes : list Z }.
  Definition ts_spec (x : nit_ts) : Z * Z * list Z := (ts_id x, ts_onid x, ts_bytes x).
  Definition ts_enc (x : nit_ts) : list Z := spec_nit_ts (ts_id x) (ts_onid x) (ts_bytes x).
  Definition ts_value (x : nit_ts) : NITDataTransportStream :=
    {| NITDataTransportStream_OriginalNetworkID := ts_onid x; NITDataTransportStream_TransportDescriptors := ts_ds x;
       NITDataTransportStream_TransportStreamID := ts_id x |}.
  Definition ts_ok (x : nit_ts) : Prop :=
    0 <= ts_id x < 2 ^ 16 /\ 0 <= ts_onid x < 2 ^ 16 /\ desc_enc (ts_ds x) (ts_bytes x).

  Lemma ts_enc_length x : length (ts_enc x) = (6 + length (ts_bytes x))%nat.
  Proof.
    unfold ts_enc, spec_nit_ts. rewrite app_length, loop16_length. unfold bytes_of_fields.
    rewrite (bytes_of_bits_length 4) by reflexivity. lia.
  Qed.

  Lemma two_u16_bytes a b : bytes_of_fields [(16%nat, a); (16%nat, b)] = bytes_of_bits (bits_of 16 a) ++ bytes_of_bits (bits_of 16 b).
  Proof.
    unfold bytes_of_fields, bits_of_fields, field_bits. cbn [flat_map fst snd]. rewrite app_nil_r.
    apply (bytes_of_bits_app 2). apply bits_of_length.
  Qed.

  Lemma parse_nit_ts_at i x r : ts_ok x -> at_ i (ts_enc x ++ r) ->
    parse_nit_ts i = Ok (ts_value x, mk_iter (ibs i) (ioff i + Z.of_nat (length (ts_enc x)))).
  Proof.
    intros (Hid & Ho & Hd) Hat. rewrite ts_enc_length. unfold ts_enc, spec_nit_ts in Hat.
    rewrite two_u16_bytes in Hat. rewrite <- !app_assoc in Hat.
    destruct (u16_field _ Hid) as [L2a Fa]. destruct (u16_field _ Ho) as [L2b Fb].
    unfold parse_nit_ts, ibind, next_bytes_nocopy.
    rewrite (read_bytes _ _ _ 2 Hat) by (rewrite ?L2a; lia).
    pose proof (at_move _ _ _ Hat) as Hat2. rewrite L2a in Hat2. change (Z.of_nat 2) with 2 in Hat2.
    rewrite (read_bytes _ _ _ 2 Hat2) by (rewrite ?L2b; lia). cbn [ibs ioff].
    pose proof (at_move _ _ _ Hat2) as Hat4. rewrite L2b in Hat4. cbn [ibs ioff] in Hat4. change (Z.of_nat 2) with 2 in Hat4.
    rewrite (desc_inv 15 _ _ _ _ ltac:(lia) Hd Hat4). cbn [ibs ioff]. unfold iret. rewrite Fa, Fb.
    unfold ts_value. replace (ioff i + 2 + 2 + 2 + Z.of_nat (length (ts_bytes x)))
      with (ioff i + Z.of_nat (6 + length (ts_bytes x))) by lia. reflexivity.
  Qed.

  Definition nit_section_value (tid : Z) (ssi pb : bool) (ext ver : Z) (cni : bool) (sn lsn : Z)
             (nds : list Descriptor) (nbytes : list Z) (xs : list nit_ts) : PSISection :=
    let body := spec_nit_body ext ver cni sn lsn nbytes (map ts_spec xs) in
    {| PSISection_CRC32 := crc32_mpeg2 (spec_section_prefix tid ssi pb body);
       PSISection_Header := Some {| PSISectionHeader_PrivateBit := pb;
                                    PSISectionHeader_SectionLength := Z.of_nat (length body) + 4;
                                    PSISectionHeader_SectionSyntaxIndicator := ssi; PSISectionHeader_TableID := tid;
                                    PSISectionHeader_TableType := tt_NIT |};
       PSISection_Syntax := Some {|
         PSISectionSyntax_Data := Some (syntax_data None
            (Some {| NITData_NetworkDescriptors := nds; NITData_NetworkID := ext;
                     NITData_TransportStreams := map ts_value xs |}) None None None None);
         PSISectionSyntax_Header := Some {| PSISectionSyntaxHeader_CurrentNextIndicator := cni;
                                            PSISectionSyntaxHeader_LastSectionNumber := lsn;
                                            PSISectionSyntaxHeader_SectionNumber := sn;
                                            PSISectionSyntaxHeader_TableIDExtension := ext;
                                            PSISectionSyntaxHeader_VersionNumber := ver |} |} |}.

  Definition nit_wf (tid ext ver sn lsn : Z) (nds : list Descriptor) (nbytes : list Z) (xs : list nit_ts) : Prop :=
    (tid = 64 \/ tid = 65) /\ 0 <= ext < 2 ^ 16 /\ 0 <= ver < 32 /\ 0 <= sn < 256 /\ 0 <= lsn < 256 /\
    desc_enc nds nbytes /\ Forall ts_ok xs /\
    9 + Z.of_nat (length nbytes) + Z.of_nat (length (flat_map ts_enc xs)) + 4 < 4096.

  Lemma nit_streams_flat xs :
    flat_map (fun t : Z * Z * list Z => spec_nit_ts (fst (fst t)) (snd (fst t)) (snd t)) (map ts_spec xs) = flat_map ts_enc xs.
  Proof. induction xs as [|x xs IH]; [reflexivity|]. cbn [map flat_map]. rewrite IH. reflexivity. Qed.

  Lemma ts_enc_bytes_ok xs : Forall ts_ok xs -> bytes_ok (flat_map ts_enc xs).
  Proof.
    induction 1 as [|x xs (_ & _ & Hd) _ IH]; cbn [flat_map]; [constructor|]. apply Forall_app. split; [|exact IH].
    unfold ts_enc, spec_nit_ts. apply Forall_app. split; [apply bytes_of_bits_ok|].
    apply loop16_ok. apply (proj1 (desc_enc_ok _ _ Hd)).
  Qed.

  Theorem nit_sec_parses tid ssi pb ext ver cni sn lsn nds nbytes xs : nit_wf tid ext ver sn lsn nds nbytes xs ->
    sec_parses (spec_section tid ssi pb (spec_nit_body ext ver cni sn lsn nbytes (map ts_spec xs)))
               (nit_section_value tid ssi pb ext ver cni sn lsn nds nbytes xs).
  Proof.
    intros (Htid & He & Hv & Hsn & Hlsn & Hnd & Hxs & Hfit). split.
    { unfold spec_section. rewrite app_length. cbn [CrcSpec.be32 length]. lia. }
    intros B o T Hat.
    set (flat := flat_map ts_enc xs) in *.
    set (rb := spec_loop16 15 nbytes ++ spec_loop16 15 flat).
    assert (Ebody : spec_nit_body ext ver cni sn lsn nbytes (map ts_spec xs) =
                    bytes_of_fields (spec_syntax_header ext ver cni sn lsn) ++ rb).
    { unfold spec_nit_body, rb. rewrite nit_streams_flat. reflexivity. }
    destruct (desc_enc_ok _ _ Hnd) as [Hnok Hnlt].
    assert (Lrb : length rb = (4 + length nbytes + length flat)%nat) by (unfold rb; rewrite app_length, !loop16_length; lia).
    assert (Hrb : bytes_ok rb).
    { unfold rb. apply Forall_app. split; apply loop16_ok; [exact Hnok|apply ts_enc_bytes_ok; exact Hxs]. }
    assert (Tf : 0 <= tid < 256 /\ shouldStopPSIParsing tid = false /\ PSITableID_hasCRC32 tid = true /\
                 PSITableID_hasPSISyntaxHeader tid = true /\ table_type tid = tt_NIT /\
                 is_nit_id tid = true /\ is_eit_id tid = false).
    { destruct Htid as [-> | ->]; repeat split; try lia; reflexivity. }
    destruct Tf as (T0 & T1 & T2 & T3 & T4 & T5 & T9).
    rewrite Ebody in Hat |- *.
    pose proof (parse_long_section_frame B o tid ssi pb ext ver cni sn lsn rb T
                  (syntax_data None
                     (Some {| NITData_NetworkDescriptors := nds; NITData_NetworkID := ext;
                              NITData_TransportStreams := map ts_value xs |}) None None None None)
                  (o + 8 + Z.of_nat (length rb)) T0 T1 T2 T3 He Hv Hsn Hlsn Hrb ltac:(lia) Hat) as F.
    cbn zeta in F. unfold nit_section_value. rewrite Ebody. rewrite T4 in F. apply F. clear F.
    intros Hat8. unfold parse_psi_section_syntax_data. cbn [PSISectionHeader_TableID]. rewrite T5, T9.
    unfold sh_ext, ilift, need, res_map, parse_nit_section, loop_fuel, ilength, ibind, iret, next_bytes_nocopy, ioffset.
    cbn [ibs ioff PSISectionSyntaxHeader_TableIDExtension].
    unfold rb in Hat8. rewrite <- !app_assoc in Hat8.
    rewrite (desc_inv 15 _ _ _ _ ltac:(lia) Hnd Hat8). cbn [ibs ioff].
    pose proof (at_move _ _ _ Hat8) as Hat10. rewrite loop16_length in Hat10. cbn [ibs ioff] in Hat10.
    replace (o + 8 + Z.of_nat (2 + length nbytes)) with (o + 8 + 2 + Z.of_nat (length nbytes)) in Hat10 by lia.
    unfold spec_loop16 at 1 in Hat10. rewrite <- app_assoc in Hat10.
    destruct (len12_field 15 (Z.of_nat (length flat)) ltac:(lia)) as [L2 F12]. cbn zeta in L2, F12.
    rewrite (read_bytes _ _ _ 2 Hat10) by (rewrite ?L2; lia). cbn [ibs ioff]. rewrite F12.
    pose proof (at_move _ _ _ Hat10) as Hat12. rewrite L2 in Hat12. cbn [ibs ioff] in Hat12. change (Z.of_nat 2) with 2 in Hat12.
    assert (Hpos : forall x, ts_ok x -> (0 < length (ts_enc x))%nat) by (intros x _; rewrite ts_enc_length; lia).
    pose proof (items_fuel parse_nit_ts ts_enc ts_value ts_ok parse_nit_ts_at Hpos xs _ _ Hxs Hat12) as Hfuel.
    pose proof (items_loop_at parse_nit_ts ts_enc ts_value ts_ok parse_nit_ts_at Hpos xs _ _ _ Hxs Hfuel Hat12) as E2.
    cbn [ibs ioff] in E2. fold flat in E2. rewrite E2.
    replace (o + 8 + Z.of_nat (length rb)) with (o + 8 + 2 + Z.of_nat (length nbytes) + 2 + Z.of_nat (length flat)) by (rewrite Lrb; lia).
    reflexivity.
  Qed.

  (* ================= TOT (short syntax: no table_id_extension part) ================= *)
  Definition tot_section_value (ssi pb : bool) (t : Z) (tb : list Z) (ds : list Descriptor) (bytes : list Z) : PSISection :=
    let body := spec_tot_body tb bytes in
    {| PSISection_CRC32 := crc32_mpeg2 (spec_section_prefix 115 ssi pb body);
       PSISection_Header := Some {| PSISectionHeader_PrivateBit := pb;
                                    PSISectionHeader_SectionLength := Z.of_nat (length body) + 4;
                                    PSISectionHeader_SectionSyntaxIndicator := ssi; PSISectionHeader_TableID := 115;
                                    PSISectionHeader_TableType := tt_TOT |};
       PSISection_Syntax := Some {|
         PSISectionSyntax_Data := Some (syntax_data None None None None None
            (Some {| TOTData_Descriptors := ds; TOTData_UTCTime := t |}));
         PSISectionSyntax_Header := None |} |}.

  Theorem tot_sec_parses ssi pb t tb ds bytes : time_enc t tb -> desc_enc ds bytes ->
    7 + Z.of_nat (length bytes) + 4 < 4096 ->
    sec_parses (spec_section 115 ssi pb (spec_tot_body tb bytes)) (tot_section_value ssi pb t tb ds bytes).
  Proof.
    intros Ht Hd Hfit. destruct (time_enc_ok _ _ Ht) as [Lt Htok]. destruct (desc_enc_ok _ _ Hd) as [Hbok Hblt]. split.
    { unfold spec_section. rewrite app_length. cbn [CrcSpec.be32 length]. lia. }
    intros B o T Hat.
    set (body := spec_tot_body tb bytes) in *.
    assert (Lb : length body = (7 + length bytes)%nat) by (unfold body, spec_tot_body; rewrite app_length, loop16_length, Lt; lia).
    assert (Hbody : bytes_ok body) by (unfold body, spec_tot_body; apply Forall_app; split; [exact Htok|apply loop16_ok; exact Hbok]).
    assert (Hat3 : at_ (mk_iter B (o + 3)) (body ++ CrcSpec.be32 (crc32_mpeg2 (spec_section_prefix 115 ssi pb body)) ++ T)).
    { unfold spec_section, spec_section_prefix in Hat. cbn zeta in Hat. rewrite <- !app_assoc in Hat.
      pose proof (at_shift B o _ _ Hat) as X.
      replace (length (bytes_of_fields (spec_section_header 115 ssi pb (Z.of_nat (length body) + 4)))) with 3%nat in X
        by (symmetry; apply bytes_of_bits_length; reflexivity).
      exact X. }
    set (syn := {| PSISectionSyntax_Data := Some (syntax_data None None None None None
                     (Some {| TOTData_Descriptors := ds; TOTData_UTCTime := t |}));
                   PSISectionSyntax_Header := None |}).
    assert (Hsyn : parse_psi_section_syntax
              {| PSISectionHeader_PrivateBit := pb; PSISectionHeader_SectionLength := Z.of_nat (length body) + 4;
                 PSISectionHeader_SectionSyntaxIndicator := ssi; PSISectionHeader_TableID := 115;
                 PSISectionHeader_TableType := table_type 115 |}
              (o + 3 + Z.of_nat (length body)) (mk_iter B (o + 3)) =
            Ok (syn, mk_iter B (o + 3 + Z.of_nat (length body)))).
    { unfold parse_psi_section_syntax. cbn [PSISectionHeader_TableID].
      change (PSITableID_hasPSISyntaxHeader 115) with false. cbv iota.
      unfold ibind at 1. unfold iret at 1.
      unfold parse_psi_section_syntax_data. cbn [PSISectionHeader_TableID].
      change (is_nit_id 115) with false. change (115 =? C_PSITableIDPAT) with false. change (115 =? C_PSITableIDPMT) with false.
      change (is_sdt_id 115) with false. change (115 =? C_PSITableIDTOT) with true. change (is_eit_id 115) with false. cbv iota.
      unfold parse_tot_section, ibind, iret.
      unfold body, spec_tot_body in Hat3. rewrite <- !app_assoc in Hat3.
      rewrite (time_inv _ _ _ _ Ht Hat3). cbn [ibs ioff].
      pose proof (at_move _ _ _ Hat3) as Hat8. rewrite Lt in Hat8. cbn [ibs ioff] in Hat8. change (Z.of_nat 5) with 5 in Hat8.
      rewrite (desc_inv 15 _ _ _ _ ltac:(lia) Hd Hat8). cbn [ibs ioff].
      replace (o + 3 + 5 + 2 + Z.of_nat (length bytes)) with (o + 3 + Z.of_nat (length body)) by lia. reflexivity. }
    assert (R0 : 0 <= 115 < 256) by lia.
    assert (RL : Z.of_nat (length body) + 4 < 4096) by lia.
    pose proof (parse_section_frame B o 115 ssi pb body T syn _ R0 eq_refl eq_refl Hbody RL Hat Hsyn) as F.
    rewrite F. unfold tot_section_value. fold body. change (table_type 115) with tt_TOT. reflexivity.
  Qed.
End SI.
