(* parsePESData (writePESHeader v ++ payload) = observed v for every writable header v:
   piece by piece (one lemma per optional part, flags kept symbolic), then chained. *)
From Coq Require Import ZArith List Lia Bool ZifyBool.
Require Import Base.Bits Base.Iter Base.Wr Gen.Consts Gen.Types Gen.Preds Model.Clock Model.Pes
  Spec.PesSpec Proofs.ClockProofs Proofs.PesProofs.
Import ListNotations.
Open Scope Z_scope.

(* ---------------- generic: iterator positioned inside a concatenation ---------------- *)

Lemma ibind_ok {A B} (m : IM A) (f : A -> IM B) i a i' : m i = Ok (a, i') -> ibind m f i = f a i'.
Proof. intros H. unfold ibind. rewrite H. reflexivity. Qed.

(* the byte string a sits at offset k of bs *)
Definition located (bs : list Z) (k : Z) (a : list Z) : Prop :=
  exists pre rest, bs = pre ++ a ++ rest /\ k = Z.of_nat (length pre).

Lemma located_app bs k a b : located bs k (a ++ b) ->
  located bs k a /\ located bs (k + Z.of_nat (length a)) b.
Proof.
  intros (pre & rest & E & Hk). split.
  - exists pre, (b ++ rest). rewrite E, <- app_assoc. auto.
  - exists (pre ++ a), rest. rewrite E, <- !app_assoc. split; [reflexivity|]. rewrite app_length. lia.
Qed.

Lemma located_nonneg bs k a : located bs k a -> 0 <= k.
Proof. intros (pre & rest & _ & ->). lia. Qed.

Lemma next_bytes_located bs k a n : n = Z.of_nat (length a) -> located bs k a ->
  next_bytes n (mk_iter bs k) = Ok (a, mk_iter bs (k + n)).
Proof.
  intros Hn (pre & rest & E & Hk). unfold next_bytes, ilen; cbn [ibs ioff].
  assert (Hl : Z.of_nat (length bs) = k + n + Z.of_nat (length rest)).
  { rewrite E, !app_length. lia. }
  destruct (Z.of_nat (length bs) <? k + n) eqn:E1; [lia|].
  destruct (n <? 0) eqn:E2; [lia|]. destruct (k <? 0) eqn:E3; [lia|].
  f_equal. f_equal. unfold slice. replace (k + n - k) with n by lia.
  rewrite E, Hk, Hn, !Nat2Z.id.
  rewrite skipn_app, skipn_all, Nat.sub_diag. cbn [skipn app].
  rewrite firstn_app, Nat.sub_diag, firstn_O, app_nil_r. apply firstn_all.
Qed.

Lemma next_byte_located bs k b : located bs k [b] ->
  next_byte (mk_iter bs k) = Ok (b, mk_iter bs (k + 1)).
Proof.
  intros (pre & rest & E & Hk). unfold next_byte, ilen; cbn [ibs ioff].
  assert (Hl : Z.of_nat (length bs) = k + 1 + Z.of_nat (length rest)).
  { rewrite E, !app_length. cbn [length]. lia. }
  destruct (Z.of_nat (length bs) <? k + 1) eqn:E1; [lia|]. destruct (k <? 0) eqn:E3; [lia|].
  f_equal. f_equal. rewrite E, Hk, Nat2Z.id. rewrite app_nth2, Nat.sub_diag by lia. reflexivity.
Qed.

(* ---------------- generic: byte-aligned item lists ---------------- *)

Definition aligned (its : list witem) (n : nat) : Prop :=
  length (items_bits its) = (8 * n)%nat /\ items_bytes_ok its.

Lemma aligned_nil : aligned [] 0.
Proof. split; [reflexivity|constructor]. Qed.

Lemma aligned_app a b n m : aligned a n -> aligned b m -> aligned (a ++ b) (n + m).
Proof.
  intros [La Oa] [Lb Ob]. split.
  - rewrite items_bits_app, app_length, La, Lb. lia.
  - apply items_bytes_ok_app; assumption.
Qed.

Lemma aligned_bytes its n : aligned its n ->
  length (bytes_of_items its) = n /\ bits_of_bytes (bytes_of_items its) = items_bits its.
Proof. intros [L O]. apply items_bits_length_8; assumption. Qed.

Lemma bytes_of_items_app a b n : aligned a n -> items_bytes_ok b ->
  bytes_of_items (a ++ b) = bytes_of_items a ++ bytes_of_items b.
Proof.
  intros [La Oa] Ob.
  rewrite (chunks_concat (a ++ b)) by (apply items_bytes_ok_app; assumption).
  rewrite (chunks_concat a Oa), (chunks_concat b Ob), items_bits_app.
  apply (bytes_of_bits_app n). exact La.
Qed.

Lemma located_items bs k p q n : aligned p n -> items_bytes_ok q ->
  located bs k (bytes_of_items (p ++ q)) ->
  located bs k (bytes_of_items p) /\ located bs (k + Z.of_nat n) (bytes_of_items q).
Proof.
  intros Hp Hq H. rewrite (bytes_of_items_app p q n Hp Hq) in H.
  apply located_app in H. destruct (aligned_bytes p n Hp) as [Hl _]. rewrite Hl in H. exact H.
Qed.

(* one byte from eight bits of items *)
Lemma aligned_one its : aligned its 1 ->
  exists b, bytes_of_items its = [b] /\ bits_of 8 b = items_bits its.
Proof.
  intros H. destruct (aligned_bytes its 1 H) as [Hl Hb].
  destruct (bytes_of_items its) as [|b [|c r]]; try discriminate.
  exists b. split; [reflexivity|]. rewrite <- Hb. unfold bits_of_bytes. cbn [flat_map]. apply eq_sym, app_nil_r.
Qed.

Lemma bitsf_one b off w : bitsf [b] off w = field (bits_of 8 b) off w.
Proof. unfold bitsf, bits_of_bytes. cbn [flat_map]. rewrite app_nil_r. reflexivity. Qed.
Lemma bitb_one b off : bitb [b] off = (field (bits_of 8 b) off 1 =? 1).
Proof. unfold bitb. rewrite bitsf_one. reflexivity. Qed.

(* field extraction over an explicit layout *)
Lemma field_bit_here' (b : bool) rest : (field (b :: rest) 0 1 =? 1) = b.
Proof. rewrite field_bit_here. apply b2z_eqb. Qed.

Ltac fld :=
  repeat first
    [ rewrite field_bit_here'
    | rewrite field_bit_here
    | progress (cbn [Nat.sub])
    | rewrite field_bit_skip
    | rewrite field_here by (cbn [Z.of_nat Pos.of_succ_nat Pos.succ]; lia)
    | match goal with
      | |- context [field (bits_of ?w ?v ++ ?rest) ?off ?w'] =>
          rewrite (field_skip w v rest off w') by (cbn; lia)
      end ].
