(* parsePESData (writePESHeader v ++ payload) = observed v for every writable header v:
   piece by piece (one lemma per optional part, flags kept symbolic), then chained. *)
From Coq Require Import ZArith List Lia Bool ZifyBool.
Require Import Base.Bits Base.Iter Base.Wr Gen.Consts Gen.Types Gen.Preds Model.Clock Model.Pes
  Spec.PesSpec Proofs.ClockProofs Proofs.PesProofs.
Import ListNotations.
Open Scope Z_scope.

(* ---------------- generic: iterator positioned inside a concatenation ---------------- *)

Lemma ibind_ok {A B} (m : IM A) (f : A -> IM B) i a i' : m i = Ok (a, i') -> ibind m f i = f a i'.
Proof. intros H. unfold ibind. rewrite H. reflexivity. Qed.

(* the byte string a sits at offset k of bs *)
Definition located (bs : list Z) (k : Z) (a : list Z) : Prop :=
  exists pre rest, bs = pre ++ a ++ rest /\ k = Z.of_nat (length pre).

Lemma located_app bs k a b : located bs k (a ++ b) ->
  located bs k a /\ located bs (k + Z.of_nat (length a)) b.
Proof.
  intros (pre & rest & E & Hk). split.
  - exists pre, (b ++ rest). rewrite E, <- app_assoc. auto.
  - exists (pre ++ a), rest. rewrite E, <- !app_assoc. split; [reflexivity|]. rewrite app_length. lia.
Qed.

Lemma located_nonneg bs k a : located bs k a -> 0 <= k.
Proof. intros (pre & rest & _ & ->). lia. Qed.

Lemma next_bytes_located bs k a n : n = Z.of_nat (length a) -> located bs k a ->
  next_bytes n (mk_iter bs k) = Ok (a, mk_iter bs (k + n)).
Proof.
  intros Hn (pre & rest & E & Hk). unfold next_bytes, ilen; cbn [ibs ioff].
  assert (Hl : Z.of_nat (length bs) = k + n + Z.of_nat (length rest)).
  { rewrite E, !app_length. lia. }
  destruct (Z.of_nat (length bs) <? k + n) eqn:E1; [lia|].
  destruct (n <? 0) eqn:E2; [lia|]. destruct (k <? 0) eqn:E3; [lia|].
  f_equal. f_equal. unfold slice. replace (k + n - k) with n by lia.
  rewrite E, Hk, Hn, !Nat2Z.id.
  rewrite skipn_app, skipn_all, Nat.sub_diag. cbn [skipn app].
  rewrite firstn_app, Nat.sub_diag, firstn_O, app_nil_r. apply firstn_all.
Qed.

Lemma next_byte_located bs k b : located bs k [b] ->
  next_byte (mk_iter bs k) = Ok (b, mk_iter bs (k + 1)).
Proof.
  intros (pre & rest & E & Hk). unfold next_byte, ilen; cbn [ibs ioff].
  assert (Hl : Z.of_nat (length bs) = k + 1 + Z.of_nat (length rest)).
  { rewrite E, !app_length. cbn [length]. lia. }
  destruct (Z.of_nat (length bs) <? k + 1) eqn:E1; [lia|]. destruct (k <? 0) eqn:E3; [lia|].
  f_equal. f_equal. rewrite E, Hk, Nat2Z.id. rewrite app_nth2, Nat.sub_diag by lia. reflexivity.
Qed.

(* ---------------- generic: byte-aligned item lists ---------------- *)

Definition aligned (its : list witem) (n : nat) : Prop :=
  length (items_bits its) = (8 * n)%nat /\ items_bytes_ok its.

Lemma aligned_nil : aligned [] 0.
Proof. split; [reflexivity|constructor]. Qed.

Lemma aligned_app a b n m : aligned a n -> aligned b m -> aligned (a ++ b) (n + m).
Proof.
  intros [La Oa] [Lb Ob]. split.
  - rewrite items_bits_app, app_length, La, Lb. lia.
  - apply items_bytes_ok_app; assumption.
Qed.

Lemma aligned_bytes its n : aligned its n ->
  length (bytes_of_items its) = n /\ bits_of_bytes (bytes_of_items its) = items_bits its.
Proof. intros [L O]. apply items_bits_length_8; assumption. Qed.

Lemma bytes_of_items_app a b n : aligned a n -> items_bytes_ok b ->
  bytes_of_items (a ++ b) = bytes_of_items a ++ bytes_of_items b.
Proof.
  intros [La Oa] Ob.
  rewrite (chunks_concat (a ++ b)) by (apply items_bytes_ok_app; assumption).
  rewrite (chunks_concat a Oa), (chunks_concat b Ob), items_bits_app.
  apply (bytes_of_bits_app n). exact La.
Qed.

Lemma located_items bs k p q n : aligned p n -> items_bytes_ok q ->
  located bs k (bytes_of_items (p ++ q)) ->
  located bs k (bytes_of_items p) /\ located bs (k + Z.of_nat n) (bytes_of_items q).
Proof.
  intros Hp Hq H. rewrite (bytes_of_items_app p q n Hp Hq) in H.
  apply located_app in H. destruct (aligned_bytes p n Hp) as [Hl _]. rewrite Hl in H. exact H.
Qed.

(* one byte from eight bits of items *)
Lemma aligned_one its : aligned its 1 ->
  exists b, bytes_of_items its = [b] /\ bits_of 8 b = items_bits its.
Proof.
  intros H. destruct (aligned_bytes its 1 H) as [Hl Hb].
  destruct (bytes_of_items its) as [|b [|c r]]; try discriminate.
  exists b. split; [reflexivity|]. rewrite <- Hb. unfold bits_of_bytes. cbn [flat_map]. apply eq_sym, app_nil_r.
Qed.

Lemma bitsf_one b off w : bitsf [b] off w = field (bits_of 8 b) off w.
Proof. unfold bitsf, bits_of_bytes. cbn [flat_map]. rewrite app_nil_r. reflexivity. Qed.
Lemma bitb_one b off : bitb [b] off = (field (bits_of 8 b) off 1 =? 1).
Proof. unfold bitb. rewrite bitsf_one. reflexivity. Qed.

(* field extraction over an explicit layout *)
Lemma field_bit_here' (b : bool) rest : (field (b :: rest) 0 1 =? 1) = b.
Proof. rewrite field_bit_here. apply b2z_eqb. Qed.

Ltac fld :=
  repeat first
    [ rewrite field_bit_here'
    | rewrite field_bit_here
    | progress (cbn [Nat.sub])
    | rewrite field_bit_skip
    | rewrite field_here by (cbn [Z.of_nat Pos.of_succ_nat Pos.succ]; lia)
    | match goal with
      | |- context [field (bits_of ?w ?v ++ ?rest) ?off ?w'] =>
          rewrite (field_skip w v rest off w') by (cbn; lia)
      end ].

(* ---------------- time stamps at an arbitrary offset ---------------- *)

Lemma ok_pair_inj {A} (x y : A) (i j : iter) : Ok (x, i) = Ok (y, j) -> x = y.
Proof. intros H; inversion H; reflexivity. Qed.

Lemma enc_pts_aligned flag c : aligned (enc_pts_or_dts flag c) 5.
Proof. split; [reflexivity | items_ok]. Qed.
Lemma enc_escr_aligned c : aligned (enc_escr c) 6.
Proof. split; [reflexivity | items_ok]. Qed.

Lemma pts_located bs k flag base : 0 <= base < 2 ^ 33 ->
  located bs k (bytes_of_items (enc_pts_or_dts flag (mk_cr base 0))) ->
  parse_pts_or_dts (mk_iter bs k) = Ok (mk_cr base 0, mk_iter bs (k + 5)).
Proof.
  intros Hb Hl. pose proof (pts_roundtrip flag base [] Hb) as R.
  destruct (aligned_bytes _ _ (enc_pts_aligned flag (mk_cr base 0))) as [Hlen _].
  unfold parse_pts_or_dts, ibind, next_bytes_nocopy in *.
  rewrite next_bytes_app in R by (rewrite Hlen; reflexivity).
  rewrite (next_bytes_located bs k _ 5 ltac:(rewrite Hlen; reflexivity) Hl).
  unfold iret in *. apply ok_pair_inj in R. rewrite R. reflexivity.
Qed.

Lemma escr_located bs k base ext : 0 <= base < 2 ^ 33 -> 0 <= ext < 2 ^ 9 ->
  located bs k (bytes_of_items (enc_escr (mk_cr base ext))) ->
  parse_escr (mk_iter bs k) = Ok (mk_cr base ext, mk_iter bs (k + 6)).
Proof.
  intros Hb He Hl. pose proof (escr_roundtrip base ext [] Hb He) as R.
  destruct (aligned_bytes _ _ (enc_escr_aligned (mk_cr base ext))) as [Hlen _].
  unfold parse_escr, ibind, next_bytes_nocopy in *.
  rewrite next_bytes_app in R by (rewrite Hlen; reflexivity).
  rewrite (next_bytes_located bs k _ 6 ltac:(rewrite Hlen; reflexivity) Hl).
  unfold iret in *. apply ok_pair_inj in R. rewrite R. reflexivity.
Qed.

(* ---------------- trick mode byte ---------------- *)

Lemma b2z_eqb1 v : 0 <= v < 2 -> Z.b2z (v =? 1) = v.
Proof. intros H. destruct (v =? 1) eqn:E; cbn [Z.b2z]; lia. Qed.

Lemma dsm_byte m b : wf_dsm m -> bits_of 8 b = items_bits (enc_dsm_trick_mode m) ->
  parse_dsm_trick_mode b = m.
Proof.
  destruct m as [fid ft isr rc c]. unfold wf_dsm, enc_dsm_trick_mode, parse_dsm_trick_mode.
  cbn [DSMTrickMode_FieldID DSMTrickMode_FrequencyTruncation DSMTrickMode_IntraSliceRefresh
       DSMTrickMode_RepeatControl DSMTrickMode_TrickModeControl].
  unfold C_TrickModeControlFastForward, C_TrickModeControlFastReverse, C_TrickModeControlFreezeFrame,
    C_TrickModeControlSlowMotion, C_TrickModeControlSlowReverse.
  intros [Hc Hf] Hbits. rewrite !bitsf_one, Hbits. clear Hbits.
  assert (Hc' : c = 0 \/ c = 1 \/ c = 2 \/ c = 3 \/ c = 4 \/ c = 5 \/ c = 6 \/ c = 7) by lia.
  destruct Hc' as [E|[E|[E|[E|[E|[E|[E|E]]]]]]]; subst c;
    cbn [Z.eqb Pos.eqb orb] in *; cbn [items_bits flat_map item_bits app];
    fld; cbn [Z.eqb Pos.eqb orb]; fld.
  all: destruct Hf as (? & ? & ? & ?); subst; try rewrite b2z_eqb1 by lia; reflexivity.
Qed.

Lemma enc_dsm_aligned m : aligned (enc_dsm_trick_mode m) 1.
Proof.
  unfold enc_dsm_trick_mode. split.
  - destruct (orb _ _); [reflexivity|]. destruct (_ =? _); [reflexivity|]. destruct (orb _ _); reflexivity.
  - destruct (orb _ _); [items_ok|]. destruct (_ =? _); [items_ok|]. destruct (orb _ _); items_ok.
Qed.

(* ---------------- the parts of the optional header ---------------- *)

Section Parts.
Context (h : PESOptionalHeader) (W : wf_opt h).

(* PTS / DTS *)
Definition ts_items : list witem :=
  if PESOptionalHeader_PTSDTSIndicator h =? 2 then
    enc_pts_or_dts 2 (odflt zero_ClockReference (PESOptionalHeader_PTS h))
  else if PESOptionalHeader_PTSDTSIndicator h =? 3 then
    enc_pts_or_dts 3 (odflt zero_ClockReference (PESOptionalHeader_PTS h)) ++
    enc_pts_or_dts 1 (odflt zero_ClockReference (PESOptionalHeader_DTS h))
  else [].
Definition ts_len : Z :=
  if PESOptionalHeader_PTSDTSIndicator h =? 2 then 5
  else if PESOptionalHeader_PTSDTSIndicator h =? 3 then 10 else 0.

Lemma ind_cases : PESOptionalHeader_PTSDTSIndicator h = 0 \/ PESOptionalHeader_PTSDTSIndicator h = 1 \/
  PESOptionalHeader_PTSDTSIndicator h = 2 \/ PESOptionalHeader_PTSDTSIndicator h = 3.
Proof. pose proof (wf_ind h W). lia. Qed.

Lemma enc_ptsdts_ok : enc_ptsdts h = Ok (ts_items, ts_len).
Proof.
  unfold enc_ptsdts, ts_items, ts_len, C_PTSDTSIndicatorOnlyPTS, C_PTSDTSIndicatorBothPresent, C_ptsOrDTSByteLength.
  pose proof (wf_pts h W) as P. pose proof (wf_dts h W) as D.
  destruct ind_cases as [E|[E|[E|E]]]; rewrite E in *; cbn [Z.eqb Z.leb Z.compare Pos.eqb Pos.compare Pos.compare_cont] in *.
  - reflexivity.
  - reflexivity.
  - destruct P as (b & _ & ->). reflexivity.
  - destruct P as (b & _ & ->). destruct D as (d & _ & ->). reflexivity.
Qed.

Lemma ts_aligned : aligned ts_items (Z.to_nat ts_len).
Proof.
  unfold ts_items, ts_len.
  destruct ind_cases as [E|[E|[E|E]]]; rewrite E; cbn [Z.eqb Pos.eqb].
  - apply aligned_nil.
  - apply aligned_nil.
  - apply enc_pts_aligned.
  - apply (aligned_app _ _ 5 5); apply enc_pts_aligned.
Qed.

Lemma ts_piece bs k : located bs k (bytes_of_items ts_items) ->
  parse_ptsdts (PESOptionalHeader_PTSDTSIndicator h) (mk_iter bs k) =
  Ok ((PESOptionalHeader_PTS h, PESOptionalHeader_DTS h), mk_iter bs (k + ts_len)).
Proof.
  unfold parse_ptsdts, ts_items, ts_len, C_PTSDTSIndicatorOnlyPTS, C_PTSDTSIndicatorBothPresent.
  pose proof (wf_pts h W) as P. pose proof (wf_dts h W) as D.
  destruct ind_cases as [E|[E|[E|E]]]; rewrite E in *; cbn [Z.eqb Z.leb Z.compare Pos.eqb Pos.compare Pos.compare_cont] in *; intros Hl.
  - rewrite P, D. unfold iret. do 3 f_equal. lia.
  - rewrite P, D. unfold iret. do 3 f_equal. lia.
  - destruct P as (b & Hb & EP). rewrite EP in *. rewrite D. cbn [odflt] in Hl. unfold cr in *.
    erewrite ibind_ok by (apply (pts_located bs k 2 b Hb Hl)). reflexivity.
  - destruct P as (b & Hb & EP). destruct D as (d & Hd & ED). rewrite EP, ED in *. cbn [odflt] in Hl. unfold cr in *.
    apply (located_items bs k _ _ 5 (enc_pts_aligned _ _)) in Hl; [|apply enc_pts_aligned].
    destruct Hl as [L1 L2].
    erewrite ibind_ok by (apply (pts_located bs k 3 b Hb L1)).
    erewrite ibind_ok by (apply (pts_located bs _ 1 d Hd L2)).
    unfold iret. do 3 f_equal. lia.
Qed.

(* ESCR *)
Definition escr_items : list witem :=
  if PESOptionalHeader_HasESCR h then enc_escr (odflt zero_ClockReference (PESOptionalHeader_ESCR h)) else [].
Definition escr_len : Z := if PESOptionalHeader_HasESCR h then 6 else 0.

Lemma enc_escr_opt_ok : enc_escr_opt h = Ok (escr_items, escr_len).
Proof.
  unfold enc_escr_opt, escr_items, escr_len. pose proof (wf_es h W) as P.
  destruct (PESOptionalHeader_HasESCR h); [|reflexivity]. destruct P as (b & e & _ & _ & ->). reflexivity.
Qed.
Lemma escr_aligned : aligned escr_items (Z.to_nat escr_len).
Proof. unfold escr_items, escr_len. destruct (PESOptionalHeader_HasESCR h); [apply enc_escr_aligned | apply aligned_nil]. Qed.
Lemma escr_piece bs k : located bs k (bytes_of_items escr_items) ->
  parse_escr_opt (PESOptionalHeader_HasESCR h) (mk_iter bs k) = Ok (PESOptionalHeader_ESCR h, mk_iter bs (k + escr_len)).
Proof.
  unfold parse_escr_opt, escr_items, escr_len. pose proof (wf_es h W) as P.
  destruct (PESOptionalHeader_HasESCR h); intros Hl.
  - destruct P as (b & e & Hb & He & EP). rewrite EP in *. cbn [odflt] in Hl. unfold cr in *.
    erewrite ibind_ok by (apply (escr_located bs k b e Hb He Hl)). reflexivity.
  - rewrite P. unfold iret. do 3 f_equal. lia.
Qed.

(* ES_rate *)
Lemma es_rate_aligned : aligned (fst (enc_es_rate h)) (Z.to_nat (snd (enc_es_rate h))).
Proof.
  unfold enc_es_rate. destruct (PESOptionalHeader_HasESRate h); cbn [fst snd]; [|apply aligned_nil].
  split; [reflexivity | items_ok].
Qed.
Lemma es_rate_piece bs k : located bs k (bytes_of_items (fst (enc_es_rate h))) ->
  parse_es_rate (PESOptionalHeader_HasESRate h) (mk_iter bs k) =
  Ok (PESOptionalHeader_ESRate h, mk_iter bs (k + snd (enc_es_rate h))).
Proof.
  pose proof es_rate_aligned as A. revert A.
  unfold parse_es_rate, enc_es_rate. pose proof (wf_rate h W) as P.
  destruct (PESOptionalHeader_HasESRate h); cbn [fst snd]; intros A Hl.
  - destruct (aligned_bytes _ _ A) as [Hlen Hbits].
    unfold next_bytes_nocopy. erewrite ibind_ok by (apply (next_bytes_located bs k _ 3); [rewrite Hlen; reflexivity | exact Hl]).
    unfold iret, bitsf. rewrite Hbits. cbn [items_bits flat_map item_bits app].
    fld. reflexivity.
  - rewrite P. unfold iret. do 3 f_equal. lia.
Qed.

(* additional_copy_info *)
Lemma aci_aligned : aligned (fst (enc_aci h)) (Z.to_nat (snd (enc_aci h))).
Proof.
  unfold enc_aci. destruct (PESOptionalHeader_HasAdditionalCopyInfo h); cbn [fst snd]; [|apply aligned_nil].
  split; [reflexivity | items_ok].
Qed.
Lemma aci_piece bs k : located bs k (bytes_of_items (fst (enc_aci h))) ->
  parse_aci (PESOptionalHeader_HasAdditionalCopyInfo h) (mk_iter bs k) =
  Ok (PESOptionalHeader_AdditionalCopyInfo h, mk_iter bs (k + snd (enc_aci h))).
Proof.
  pose proof aci_aligned as A. revert A.
  unfold parse_aci, enc_aci. pose proof (wf_aci h W) as P.
  destruct (PESOptionalHeader_HasAdditionalCopyInfo h); cbn [fst snd]; intros A Hl.
  - destruct (aligned_one _ A) as (b & Eb & Hbits). rewrite Eb in Hl.
    erewrite ibind_ok by (apply (next_byte_located bs k b Hl)).
    unfold iret. rewrite bitsf_one, Hbits. cbn [items_bits flat_map item_bits app].
    fld. reflexivity.
  - rewrite P. unfold iret. do 3 f_equal. lia.
Qed.

(* DSM trick mode *)
Definition dsm_items : list witem :=
  if PESOptionalHeader_HasDSMTrickMode h
  then enc_dsm_trick_mode (odflt zero_DSMTrickMode (PESOptionalHeader_DSMTrickMode h)) else [].
Definition dsm_len : Z := if PESOptionalHeader_HasDSMTrickMode h then 1 else 0.

Lemma enc_dsm_opt_ok : enc_dsm_opt h = Ok (dsm_items, dsm_len).
Proof.
  unfold enc_dsm_opt, dsm_items, dsm_len. pose proof (wf_tm h W) as P.
  destruct (PESOptionalHeader_HasDSMTrickMode h); [|reflexivity]. destruct P as (m & -> & _). reflexivity.
Qed.
Lemma dsm_aligned : aligned dsm_items (Z.to_nat dsm_len).
Proof. unfold dsm_items, dsm_len. destruct (PESOptionalHeader_HasDSMTrickMode h); [apply enc_dsm_aligned | apply aligned_nil]. Qed.
Lemma dsm_piece bs k : located bs k (bytes_of_items dsm_items) ->
  parse_dsm_opt (PESOptionalHeader_HasDSMTrickMode h) (mk_iter bs k) =
  Ok (PESOptionalHeader_DSMTrickMode h, mk_iter bs (k + dsm_len)).
Proof.
  unfold parse_dsm_opt, dsm_items, dsm_len. pose proof (wf_tm h W) as P.
  destruct (PESOptionalHeader_HasDSMTrickMode h); intros Hl.
  - destruct P as (m & EP & Hm). rewrite EP in *. cbn [odflt] in Hl.
    destruct (aligned_one _ (enc_dsm_aligned m)) as (b & Eb & Hbits). rewrite Eb in Hl.
    erewrite ibind_ok by (apply (next_byte_located bs k b Hl)).
    unfold iret. rewrite (dsm_byte m b Hm Hbits). reflexivity.
  - rewrite P. unfold iret. do 3 f_equal. lia.
Qed.

End Parts.

(* ---------------- the PES extension ---------------- *)

Lemma wbytes_aligned bs : bytes_ok bs -> aligned [WBytes bs] (length bs).
Proof.
  intros H. split.
  - unfold items_bits. cbn [flat_map item_bits]. rewrite app_nil_r. apply bits_of_bytes_length.
  - constructor; [exact H|constructor].
Qed.
Lemma wbytes_bytes bs : bytes_ok bs -> bytes_of_items [WBytes bs] = bs.
Proof.
  intros H. rewrite chunks_concat by (constructor; [exact H|constructor]).
  unfold items_bits. cbn [flat_map item_bits]. rewrite app_nil_r. apply bytes_of_bits_of_bytes. exact H.
Qed.

Section Ext.
Context (h : PESOptionalHeader) (W : wf_opt h).

(* private data *)
Definition pd_items : list witem :=
  if PESOptionalHeader_HasPrivateData h then enc_private_data (PESOptionalHeader_PrivateData h) else [].
Definition pd_len : Z := if PESOptionalHeader_HasPrivateData h then 16 else 0.
Lemma pd_items_eq : pd_items = if PESOptionalHeader_HasPrivateData h then [WBytes (PESOptionalHeader_PrivateData h)] else [].
Proof.
  unfold pd_items, enc_private_data. pose proof (wf_pd h W) as P.
  destruct (PESOptionalHeader_HasPrivateData h); [|reflexivity]. destruct P as [L _].
  rewrite L. cbn [Z.of_nat Pos.of_succ_nat Pos.succ Z.leb Z.compare Pos.compare Pos.compare_cont].
  rewrite <- L at 1. rewrite firstn_all. reflexivity.
Qed.
Lemma pd_aligned : aligned pd_items (Z.to_nat pd_len).
Proof.
  rewrite pd_items_eq. unfold pd_len. pose proof (wf_pd h W) as P.
  destruct (PESOptionalHeader_HasPrivateData h); [|apply aligned_nil]. destruct P as [L O].
  change (Z.to_nat 16) with 16%nat. rewrite <- L. apply wbytes_aligned. exact O.
Qed.
Lemma pd_piece bs k : located bs k (bytes_of_items pd_items) ->
  parse_private_data (PESOptionalHeader_HasPrivateData h) (mk_iter bs k) =
  Ok (PESOptionalHeader_PrivateData h, mk_iter bs (k + pd_len)).
Proof.
  rewrite pd_items_eq. unfold parse_private_data, pd_len. pose proof (wf_pd h W) as P.
  destruct (PESOptionalHeader_HasPrivateData h); intros Hl.
  - destruct P as [L O]. rewrite wbytes_bytes in Hl by exact O.
    apply next_bytes_located; [rewrite L; reflexivity | exact Hl].
  - rewrite P. unfold iret. do 3 f_equal. lia.
Qed.

(* program packet sequence counter *)
Definition psc_items : list witem :=
  if PESOptionalHeader_HasProgramPacketSequenceCounter h
  then [WBool true; WBits 7 (PESOptionalHeader_PacketSequenceCounter h); WBool true;
        WBits 1 (PESOptionalHeader_MPEG1OrMPEG2ID h); WBits 6 (PESOptionalHeader_OriginalStuffingLength h)] else [].
Definition psc_len : Z := if PESOptionalHeader_HasProgramPacketSequenceCounter h then 2 else 0.
Lemma psc_aligned : aligned psc_items (Z.to_nat psc_len).
Proof.
  unfold psc_items, psc_len. destruct (PESOptionalHeader_HasProgramPacketSequenceCounter h); [|apply aligned_nil].
  split; [reflexivity | items_ok].
Qed.
Lemma psc_piece bs k : located bs k (bytes_of_items psc_items) ->
  parse_psc (PESOptionalHeader_HasProgramPacketSequenceCounter h) (mk_iter bs k) =
  Ok ((PESOptionalHeader_PacketSequenceCounter h, PESOptionalHeader_MPEG1OrMPEG2ID h,
       PESOptionalHeader_OriginalStuffingLength h), mk_iter bs (k + psc_len)).
Proof.
  pose proof psc_aligned as A. revert A.
  unfold parse_psc, psc_items, psc_len. pose proof (wf_psc h W) as P.
  destruct (PESOptionalHeader_HasProgramPacketSequenceCounter h); intros A Hl.
  - destruct (aligned_bytes _ _ A) as [Hlen Hbits]. destruct P as (P1 & P2 & P3).
    unfold next_bytes_nocopy. erewrite ibind_ok by (apply (next_bytes_located bs k _ 2); [rewrite Hlen; reflexivity | exact Hl]).
    unfold iret, bitsf. rewrite Hbits. cbn [items_bits flat_map item_bits app].
    fld. reflexivity.
  - destruct P as (-> & -> & ->). unfold iret. do 3 f_equal. lia.
Qed.

(* P-STD buffer *)
Definition pstd_items : list witem :=
  if PESOptionalHeader_HasPSTDBuffer h
  then [WBits 2 1; WBits 1 (PESOptionalHeader_PSTDBufferScale h); WBits 13 (PESOptionalHeader_PSTDBufferSize h)] else [].
Definition pstd_len : Z := if PESOptionalHeader_HasPSTDBuffer h then 2 else 0.
Lemma pstd_aligned : aligned pstd_items (Z.to_nat pstd_len).
Proof.
  unfold pstd_items, pstd_len. destruct (PESOptionalHeader_HasPSTDBuffer h); [|apply aligned_nil].
  split; [reflexivity | items_ok].
Qed.
Lemma pstd_piece bs k : located bs k (bytes_of_items pstd_items) ->
  parse_pstd (PESOptionalHeader_HasPSTDBuffer h) (mk_iter bs k) =
  Ok ((PESOptionalHeader_PSTDBufferScale h, PESOptionalHeader_PSTDBufferSize h), mk_iter bs (k + pstd_len)).
Proof.
  pose proof pstd_aligned as A. revert A.
  unfold parse_pstd, pstd_items, pstd_len. pose proof (wf_pstd h W) as P.
  destruct (PESOptionalHeader_HasPSTDBuffer h); intros A Hl.
  - destruct (aligned_bytes _ _ A) as [Hlen Hbits]. destruct P as (P1 & P2).
    unfold next_bytes_nocopy. erewrite ibind_ok by (apply (next_bytes_located bs k _ 2); [rewrite Hlen; reflexivity | exact Hl]).
    unfold iret, bitsf. rewrite Hbits. cbn [items_bits flat_map item_bits app].
    fld. reflexivity.
  - destruct P as (-> & ->). unfold iret. do 3 f_equal. lia.
Qed.

(* extension 2 *)
Definition e2n : Z := Z.of_nat (length (PESOptionalHeader_Extension2Data h)).
Definition e2_items : list witem :=
  if PESOptionalHeader_HasExtension2 h
  then [WBool true; WBits 7 (e2n mod 256)] ++ [WBytes (PESOptionalHeader_Extension2Data h)] else [].
Definition e2_len : Z := if PESOptionalHeader_HasExtension2 h then 1 + e2n else 0.
Lemma e2_aligned : aligned e2_items (Z.to_nat e2_len).
Proof.
  unfold e2_items, e2_len, e2n. pose proof (wf_e2 h W) as P.
  destruct (PESOptionalHeader_HasExtension2 h); [|apply aligned_nil]. destruct P as [L O].
  replace (Z.to_nat (1 + Z.of_nat (length (PESOptionalHeader_Extension2Data h))))
    with (1 + length (PESOptionalHeader_Extension2Data h))%nat by lia.
  apply aligned_app; [split; [reflexivity | items_ok] | apply wbytes_aligned; exact O].
Qed.
Lemma e2_piece bs k : located bs k (bytes_of_items e2_items) ->
  parse_ext2 (PESOptionalHeader_HasExtension2 h) (mk_iter bs k) =
  Ok ((e2n, PESOptionalHeader_Extension2Data h), mk_iter bs (k + e2_len)).
Proof.
  unfold parse_ext2, e2_items, e2_len, e2n. pose proof (wf_e2 h W) as P.
  destruct (PESOptionalHeader_HasExtension2 h); intros Hl.
  - destruct P as [L O].
    set (n := Z.of_nat (length (PESOptionalHeader_Extension2Data h))) in *.
    assert (A : aligned [WBool true; WBits 7 (n mod 256)] 1) by (split; [reflexivity | items_ok]).
    apply (located_items bs k _ _ 1 A) in Hl; [|constructor; [exact O|constructor]].
    destruct Hl as [L1 L2]. rewrite wbytes_bytes in L2 by exact O.
    destruct (aligned_one _ A) as (b & Eb & Hbits). rewrite Eb in L1.
    erewrite ibind_ok by (apply (next_byte_located bs k b L1)).
    rewrite bitsf_one, Hbits. cbn [items_bits flat_map item_bits app].
    assert (Hn : n mod 256 = n) by (apply Z.mod_small; lia).
    rewrite Hn. fld.
    erewrite ibind_ok by (apply (next_bytes_located bs (k + 1) _ n eq_refl L2)).
    unfold iret. do 3 f_equal. lia.
  - rewrite P. unfold iret. cbn [length Z.of_nat]. do 3 f_equal. lia.
Qed.

(* the extension as a whole *)
Definition ext_flags : list witem :=
  [WBool (PESOptionalHeader_HasPrivateData h); WBool false;
   WBool (PESOptionalHeader_HasProgramPacketSequenceCounter h); WBool (PESOptionalHeader_HasPSTDBuffer h);
   WBits 3 255; WBool (PESOptionalHeader_HasExtension2 h)].
Definition ext_of : PesExt :=
  mk_PesExt (PESOptionalHeader_HasPrivateData h) false (PESOptionalHeader_HasProgramPacketSequenceCounter h)
    (PESOptionalHeader_HasPSTDBuffer h) (PESOptionalHeader_HasExtension2 h)
    (PESOptionalHeader_PrivateData h) 0
    (PESOptionalHeader_PacketSequenceCounter h) (PESOptionalHeader_MPEG1OrMPEG2ID h) (PESOptionalHeader_OriginalStuffingLength h)
    (PESOptionalHeader_PSTDBufferScale h) (PESOptionalHeader_PSTDBufferSize h)
    e2n (PESOptionalHeader_Extension2Data h).

Lemma ext_items_eq : fst (enc_pes_extension h) =
  if PESOptionalHeader_HasExtension h then ext_flags ++ pd_items ++ psc_items ++ pstd_items ++ e2_items else [].
Proof.
  unfold enc_pes_extension, ext_flags, pd_items, psc_items, pstd_items, e2_items, e2n.
  destruct (PESOptionalHeader_HasExtension h); [|reflexivity].
  destruct (PESOptionalHeader_HasPrivateData h), (PESOptionalHeader_HasProgramPacketSequenceCounter h),
    (PESOptionalHeader_HasPSTDBuffer h), (PESOptionalHeader_HasExtension2 h); reflexivity.
Qed.
Lemma ext_len_eq : snd (enc_pes_extension h) =
  if PESOptionalHeader_HasExtension h then 1 + pd_len + psc_len + pstd_len + e2_len else 0.
Proof.
  unfold enc_pes_extension, pd_len, psc_len, pstd_len, e2_len, e2n.
  destruct (PESOptionalHeader_HasExtension h); [|reflexivity].
  destruct (PESOptionalHeader_HasPrivateData h), (PESOptionalHeader_HasProgramPacketSequenceCounter h),
    (PESOptionalHeader_HasPSTDBuffer h), (PESOptionalHeader_HasExtension2 h); reflexivity.
Qed.

Lemma ext_flags_aligned : aligned ext_flags 1.
Proof. split; [reflexivity | items_ok]. Qed.

Lemma part_lens_nonneg : 0 <= pd_len /\ 0 <= psc_len /\ 0 <= pstd_len /\ 0 <= e2_len.
Proof.
  unfold pd_len, psc_len, pstd_len, e2_len, e2n.
  destruct (PESOptionalHeader_HasPrivateData h), (PESOptionalHeader_HasProgramPacketSequenceCounter h),
    (PESOptionalHeader_HasPSTDBuffer h), (PESOptionalHeader_HasExtension2 h); lia.
Qed.

Lemma ext_aligned : aligned (fst (enc_pes_extension h)) (Z.to_nat (snd (enc_pes_extension h))).
Proof.
  rewrite ext_items_eq, ext_len_eq. destruct (PESOptionalHeader_HasExtension h); [|apply aligned_nil].
  destruct part_lens_nonneg as (N1 & N2 & N3 & N4).
  replace (Z.to_nat (1 + pd_len + psc_len + pstd_len + e2_len))
    with (1 + (Z.to_nat pd_len + (Z.to_nat psc_len + (Z.to_nat pstd_len + Z.to_nat e2_len))))%nat by lia.
  repeat apply aligned_app.
  - apply ext_flags_aligned.
  - apply pd_aligned.
  - apply psc_aligned.
  - apply pstd_aligned.
  - apply e2_aligned.
Qed.

Lemma ext_piece bs k : located bs k (bytes_of_items (fst (enc_pes_extension h))) ->
  parse_pes_extension (PESOptionalHeader_HasExtension h) (mk_iter bs k) =
  Ok (ext_of, mk_iter bs (k + snd (enc_pes_extension h))).
Proof.
  rewrite ext_items_eq, ext_len_eq. unfold parse_pes_extension.
  pose proof (wf_ext h W) as X. pose proof (wf_pack h W) as [K1 K2].
  destruct (PESOptionalHeader_HasExtension h); intros Hl.
  - destruct part_lens_nonneg as (N1 & N2 & N3 & N4).
    pose proof pd_aligned as A1. pose proof psc_aligned as A2. pose proof pstd_aligned as A3. pose proof e2_aligned as A4.
    apply (located_items bs k _ _ 1 ext_flags_aligned) in Hl;
      [|repeat apply items_bytes_ok_app; [apply A1|apply A2|apply A3|apply A4]].
    destruct Hl as [L0 Hl].
    apply (located_items bs _ _ _ _ A1) in Hl; [|repeat apply items_bytes_ok_app; [apply A2|apply A3|apply A4]].
    destruct Hl as [L1 Hl].
    apply (located_items bs _ _ _ _ A2) in Hl; [|repeat apply items_bytes_ok_app; [apply A3|apply A4]].
    destruct Hl as [L2 Hl].
    apply (located_items bs _ _ _ _ A3) in Hl; [|apply A4].
    destruct Hl as [L3 L4].
    rewrite !Z2Nat.id in * by lia.
    destruct (aligned_one _ ext_flags_aligned) as (b & Eb & Hbits). rewrite Eb in L0.
    erewrite ibind_ok by (apply (next_byte_located bs k b L0)).
    rewrite !bitb_one, Hbits. unfold ext_flags. cbn [items_bits flat_map item_bits app].
    fld.
    erewrite ibind_ok by (apply (pd_piece bs _ L1)).
    unfold parse_pack_field. erewrite ibind_ok by reflexivity.
    erewrite ibind_ok by (apply (psc_piece bs _ L2)). cbv beta iota.
    erewrite ibind_ok by (apply (pstd_piece bs _ L3)). cbv beta iota.
    erewrite ibind_ok by (apply (e2_piece bs _ L4)). cbv beta iota.
    unfold iret, ext_of. do 3 f_equal. lia.
  - destruct (X eq_refl) as (F1 & F2 & F3 & F4).
    pose proof (wf_pd h W) as P1. pose proof (wf_psc h W) as P2. pose proof (wf_pstd h W) as P3. pose proof (wf_e2 h W) as P4.
    unfold ext_of, e2n. rewrite F1 in *. rewrite F2 in *. rewrite F3 in *. rewrite F4 in *.
    destruct P2 as (-> & -> & ->). destruct P3 as (-> & ->). rewrite P1, P4.
    unfold iret, zero_PesExt. cbn [length Z.of_nat]. do 3 f_equal. lia.
Qed.

End Ext.

(* ---------------- PES_header_data_length ---------------- *)

(* the regenerated calcPESOptionalHeaderDataLength (uint8 arithmetic) is the sum of the sizes of the parts present *)
Lemma calc_len_eq h : wf_opt h -> calcPESOptionalHeaderDataLength h = ref_header_data_length h.
Proof.
  intros W. pose proof (wf_e2 h W) as P4. pose proof (ind_cases h W) as I.
  unfold calcPESOptionalHeaderDataLength, ref_header_data_length,
    C_PTSDTSIndicatorOnlyPTS, C_PTSDTSIndicatorBothPresent, C_ptsOrDTSByteLength, C_escrLength, C_dsmTrickModeLength.
  set (n := Z.of_nat (length (PESOptionalHeader_Extension2Data h))).
  destruct (PESOptionalHeader_HasExtension2 h).
  - assert (Hn : 0 <= n <= 127) by (subst n; lia). clearbody n. clear P4.
    rewrite (Z.mod_small n 256) by lia. rewrite (Z.mod_small (1 + n) 256) by lia.
    set (e := 1 + n). assert (He : 1 <= e <= 128) by (subst e; lia). clearbody e. clear Hn n.
    destruct I as [E|[E|[E|E]]]; rewrite E; cbn [Z.eqb Pos.eqb];
    destruct (PESOptionalHeader_HasESCR h), (PESOptionalHeader_HasESRate h), (PESOptionalHeader_HasDSMTrickMode h),
      (PESOptionalHeader_HasAdditionalCopyInfo h), (PESOptionalHeader_HasExtension h); try reflexivity;
    destruct (PESOptionalHeader_HasPrivateData h), (PESOptionalHeader_HasProgramPacketSequenceCounter h),
      (PESOptionalHeader_HasPSTDBuffer h);
    match goal with
    | |- (?X + e) mod 256 = _ => let x := eval vm_compute in X in change X with x
    end; rewrite Z.mod_small by lia; lia.
  - destruct I as [E|[E|[E|E]]]; rewrite E; cbn [Z.eqb Pos.eqb];
    destruct (PESOptionalHeader_HasESCR h), (PESOptionalHeader_HasESRate h), (PESOptionalHeader_HasDSMTrickMode h),
      (PESOptionalHeader_HasAdditionalCopyInfo h), (PESOptionalHeader_HasExtension h); try reflexivity;
    destruct (PESOptionalHeader_HasPrivateData h), (PESOptionalHeader_HasProgramPacketSequenceCounter h),
      (PESOptionalHeader_HasPSTDBuffer h); reflexivity.
Qed.

Lemma ref_len_range h : wf_opt h -> 0 <= ref_header_data_length h <= 170.
Proof.
  intros W. pose proof (wf_e2 h W) as P4. pose proof (ind_cases h W) as I. unfold ref_header_data_length.
  set (n := Z.of_nat (length (PESOptionalHeader_Extension2Data h))).
  assert (Hn : PESOptionalHeader_HasExtension2 h = true -> 0 <= n <= 127).
  { intros E. rewrite E in P4. subst n. lia. }
  clearbody n.
  destruct I as [E|[E|[E|E]]]; rewrite E; cbn [Z.eqb Pos.eqb];
  destruct (PESOptionalHeader_HasESCR h), (PESOptionalHeader_HasESRate h), (PESOptionalHeader_HasDSMTrickMode h),
    (PESOptionalHeader_HasAdditionalCopyInfo h), (PESOptionalHeader_HasExtension h); try lia;
  destruct (PESOptionalHeader_HasPrivateData h), (PESOptionalHeader_HasProgramPacketSequenceCounter h),
    (PESOptionalHeader_HasPSTDBuffer h), (PESOptionalHeader_HasExtension2 h); try specialize (Hn eq_refl); lia.
Qed.

Lemma wu8_bytes v : bytes_of_items [wu8 v] = [v mod 256].
Proof.
  rewrite chunks_concat by items_ok. unfold items_bits, wu8. cbn [flat_map item_bits]. rewrite app_nil_r.
  apply bytes_of_bits_bits_of_8.
Qed.
Lemma wu8_aligned v : aligned [wu8 v] 1.
Proof. split; [reflexivity | items_ok]. Qed.

(* ---------------- the optional header as a whole ---------------- *)

Section Opt.
Context (h : PESOptionalHeader) (W : wf_opt h).

Definition fixed0 : list witem :=
  [WBits 2 2; WBits 2 (PESOptionalHeader_ScramblingControl h); WBool (PESOptionalHeader_Priority h);
   WBool (PESOptionalHeader_DataAlignmentIndicator h); WBool (PESOptionalHeader_IsCopyrighted h);
   WBool (PESOptionalHeader_IsOriginal h)].
Definition fixed1 : list witem :=
  [WBits 2 (PESOptionalHeader_PTSDTSIndicator h); WBool (PESOptionalHeader_HasESCR h); WBool (PESOptionalHeader_HasESRate h);
   WBool (PESOptionalHeader_HasDSMTrickMode h); WBool (PESOptionalHeader_HasAdditionalCopyInfo h); WBool false;
   WBool (PESOptionalHeader_HasExtension h)].
Definition fixed2 : list witem := [wu8 (calcPESOptionalHeaderDataLength h)].

Definition opt_items : list witem :=
  fixed0 ++ fixed1 ++ fixed2 ++ ts_items h ++ escr_items h ++ fst (enc_es_rate h) ++ dsm_items h ++
  fst (enc_aci h) ++ fst (enc_pes_extension h).
Definition opt_len : Z :=
  3 + ts_len h + escr_len h + snd (enc_es_rate h) + dsm_len h + snd (enc_aci h) + snd (enc_pes_extension h).

Lemma enc_opt_ok : enc_pes_optional_header h = Ok (opt_items, opt_len).
Proof.
  unfold enc_pes_optional_header.
  rewrite (enc_ptsdts_ok h W); cbn [res_bind]. rewrite (enc_escr_opt_ok h W); cbn [res_bind].
  rewrite (surjective_pairing (enc_es_rate h)). rewrite (enc_dsm_opt_ok h W); cbn [res_bind].
  rewrite (surjective_pairing (enc_aci h)). rewrite (surjective_pairing (enc_pes_extension h)).
  reflexivity.
Qed.

Lemma data_len_eq : opt_len = 3 + ref_header_data_length h.
Proof.
  unfold opt_len, ref_header_data_length. rewrite (ext_len_eq h).
  unfold ts_len, escr_len, enc_es_rate, dsm_len, enc_aci, pd_len, psc_len, pstd_len, e2_len, e2n.
  destruct (PESOptionalHeader_HasESCR h), (PESOptionalHeader_HasESRate h), (PESOptionalHeader_HasDSMTrickMode h),
    (PESOptionalHeader_HasAdditionalCopyInfo h); cbn [fst snd]; lia.
Qed.

Lemma fixed0_aligned : aligned fixed0 1. Proof. split; [reflexivity | items_ok]. Qed.
Lemma fixed1_aligned : aligned fixed1 1. Proof. split; [reflexivity | items_ok]. Qed.

Lemma part_lens_nonneg' : 0 <= ts_len h /\ 0 <= escr_len h /\ 0 <= snd (enc_es_rate h) /\ 0 <= dsm_len h /\
  0 <= snd (enc_aci h) /\ 0 <= snd (enc_pes_extension h).
Proof.
  destruct (part_lens_nonneg h) as (N1 & N2 & N3 & N4). rewrite (ext_len_eq h).
  unfold ts_len, escr_len, enc_es_rate, dsm_len, enc_aci.
  destruct (ind_cases h W) as [E|[E|[E|E]]]; rewrite E; cbn [Z.eqb Pos.eqb];
  destruct (PESOptionalHeader_HasESCR h), (PESOptionalHeader_HasESRate h), (PESOptionalHeader_HasDSMTrickMode h),
    (PESOptionalHeader_HasAdditionalCopyInfo h), (PESOptionalHeader_HasExtension h); cbn [fst snd]; lia.
Qed.

Lemma opt_aligned : aligned opt_items (Z.to_nat opt_len).
Proof.
  destruct part_lens_nonneg' as (N1 & N2 & N3 & N4 & N5 & N6). unfold opt_items, opt_len.
  replace (Z.to_nat (3 + ts_len h + escr_len h + snd (enc_es_rate h) + dsm_len h + snd (enc_aci h) + snd (enc_pes_extension h)))
    with (1 + (1 + (1 + (Z.to_nat (ts_len h) + (Z.to_nat (escr_len h) + (Z.to_nat (snd (enc_es_rate h)) +
          (Z.to_nat (dsm_len h) + (Z.to_nat (snd (enc_aci h)) + Z.to_nat (snd (enc_pes_extension h))))))))))%nat by lia.
  repeat apply aligned_app.
  - apply fixed0_aligned.
  - apply fixed1_aligned.
  - apply wu8_aligned.
  - apply (ts_aligned h W).
  - apply (escr_aligned h).
  - apply (es_rate_aligned h).
  - apply (dsm_aligned h).
  - apply (aci_aligned h).
  - apply (ext_aligned h W).
Qed.

End Opt.

Section Opt2.
Context (h : PESOptionalHeader) (W : wf_opt h).

Lemma parse_opt_located bs k : located bs k (bytes_of_items (opt_items h)) ->
  parse_pes_optional_header (mk_iter bs k) =
  Ok ((observed_opt h, k + 3 + ref_header_data_length h), mk_iter bs (k + opt_len h)).
Proof.
  intros Hl.
  destruct (part_lens_nonneg' h W) as (N1 & N2 & N3 & N4 & N5 & N6).
  pose proof (ts_aligned h W) as A1. pose proof (escr_aligned h) as A2. pose proof (es_rate_aligned h) as A3.
  pose proof (dsm_aligned h) as A4. pose proof (aci_aligned h) as A5. pose proof (ext_aligned h W) as A6.
  pose proof (fixed1_aligned h) as B1. pose proof (wu8_aligned (calcPESOptionalHeaderDataLength h)) as B2.
  unfold opt_items in Hl.
  apply (located_items bs k _ _ 1 (fixed0_aligned h)) in Hl;
    [|repeat apply items_bytes_ok_app; [apply B1|apply B2|apply A1|apply A2|apply A3|apply A4|apply A5|apply A6]].
  destruct Hl as [L0 Hl].
  apply (located_items bs _ _ _ 1 B1) in Hl;
    [|repeat apply items_bytes_ok_app; [apply B2|apply A1|apply A2|apply A3|apply A4|apply A5|apply A6]].
  destruct Hl as [L1 Hl].
  apply (located_items bs _ _ _ 1 B2) in Hl;
    [|repeat apply items_bytes_ok_app; [apply A1|apply A2|apply A3|apply A4|apply A5|apply A6]].
  destruct Hl as [L2 Hl].
  apply (located_items bs _ _ _ _ A1) in Hl; [|repeat apply items_bytes_ok_app; [apply A2|apply A3|apply A4|apply A5|apply A6]].
  destruct Hl as [P1 Hl].
  apply (located_items bs _ _ _ _ A2) in Hl; [|repeat apply items_bytes_ok_app; [apply A3|apply A4|apply A5|apply A6]].
  destruct Hl as [P2 Hl].
  apply (located_items bs _ _ _ _ A3) in Hl; [|repeat apply items_bytes_ok_app; [apply A4|apply A5|apply A6]].
  destruct Hl as [P3 Hl].
  apply (located_items bs _ _ _ _ A4) in Hl; [|repeat apply items_bytes_ok_app; [apply A5|apply A6]].
  destruct Hl as [P4 Hl].
  apply (located_items bs _ _ _ _ A5) in Hl; [|apply A6].
  destruct Hl as [P5 P6].
  rewrite !Z2Nat.id in * by lia.
  destruct (aligned_one _ (fixed0_aligned h)) as (b0 & E0 & H0). rewrite E0 in L0.
  destruct (aligned_one _ B1) as (b1 & E1 & H1). rewrite E1 in L1.
  unfold fixed2 in L2. rewrite wu8_bytes in L2.
  pose proof (ref_len_range h W) as R. rewrite (calc_len_eq h W) in L2. rewrite Z.mod_small in L2 by lia.
  unfold parse_pes_optional_header.
  erewrite ibind_ok by (apply (next_byte_located bs k b0 L0)).
  erewrite ibind_ok by (apply (next_byte_located bs _ b1 L1)).
  erewrite ibind_ok by (apply (next_byte_located bs _ _ L2)).
  erewrite ibind_ok by reflexivity. cbn [ioff]. cbv zeta.
  rewrite !bitb_one, !bitsf_one, H0, H1. unfold fixed0, fixed1. cbn [items_bits flat_map item_bits app].
  pose proof (wf_sc h W) as S1. pose proof (wf_ind h W) as S2.
  fld. change (Z.of_nat 1) with 1 in *.
  erewrite ibind_ok by (apply (ts_piece h W bs _ P1)). cbv beta iota.
  erewrite ibind_ok by (apply (escr_piece h W bs _ P2)).
  erewrite ibind_ok by (apply (es_rate_piece h W bs _ P3)).
  erewrite ibind_ok by (apply (dsm_piece h W bs _ P4)).
  erewrite ibind_ok by (apply (aci_piece h W bs _ P5)).
  unfold parse_crc. erewrite ibind_ok by reflexivity.
  erewrite ibind_ok by (apply (ext_piece h W bs _ P6)).
  unfold iret. f_equal. f_equal; [|unfold opt_len; f_equal; lia].
  f_equal; [|lia].
  unfold observed_opt, ext_of. cbn [pe_hasPD pe_hasPack pe_hasPSC pe_hasPSTD pe_hasExt2 pe_pd pe_pack pe_psc pe_mpeg pe_osl
    pe_scale pe_size pe_e2len pe_e2data].
  destruct (wf_crc h W) as [C1 C2]. destruct (wf_pack h W) as [K1 K2]. rewrite C1, C2, K1, K2, (wf_of h W).
  reflexivity.
Qed.

End Opt2.

(* ---------------- the whole PES packet ---------------- *)

(* the six fixed bytes *)
Definition head_items (sid L : Z) : list witem := [WBits 24 1; wu8 sid; wu16 L].

Lemma head_aligned sid L : aligned (head_items sid L) 6.
Proof. split; [reflexivity | items_ok]. Qed.

Lemma head_bytes sid L : 0 <= sid < 256 -> 0 <= L < 65536 ->
  exists B, bytes_of_items (head_items sid L) = [0; 0; 1; sid] ++ B /\ length B = 2%nat /\ bitsf B 0 16 = L.
Proof.
  intros Hs HL. unfold head_items.
  change [WBits 24 1; wu8 sid; wu16 L] with ([WBits 24 1] ++ [wu8 sid] ++ [wu16 L]).
  assert (A1 : aligned [WBits 24 1] 3) by (split; [reflexivity | items_ok]).
  assert (A3 : aligned [wu16 L] 2) by (split; [reflexivity | items_ok]).
  rewrite (bytes_of_items_app _ _ 3 A1) by items_ok.
  rewrite (bytes_of_items_app _ _ 1 (wu8_aligned sid)) by items_ok.
  rewrite wu8_bytes, Z.mod_small by lia.
  destruct (aligned_bytes _ _ A3) as [Hlen Hbits].
  exists (bytes_of_items [wu16 L]). split; [|split].
  - replace (bytes_of_items [WBits 24 1]) with [0; 0; 1] by (vm_compute; reflexivity). reflexivity.
  - exact Hlen.
  - unfold bitsf. rewrite Hbits. unfold items_bits, wu16. cbn [flat_map item_bits]. apply field_here.
    change (2 ^ Z.of_nat 16) with 65536. exact HL.
Qed.

Lemma located_self_prefix a rest : located (a ++ rest) 0 a.
Proof. exists [], rest. split; reflexivity. Qed.

Lemma slice_tail a b : slice (a ++ b) (Z.of_nat (length a)) (Z.of_nat (length (a ++ b))) = b.
Proof.
  unfold slice. rewrite Nat2Z.id, skipn_app, skipn_all, Nat.sub_diag. cbn [skipn app].
  apply firstn_all2. rewrite app_length. lia.
Qed.

(* the generated predicates against the literal stream ids of the specification *)
Lemma has_opt_lib sid : hasPESOptionalHeader sid = lib_has_optional_header sid.
Proof.
  unfold hasPESOptionalHeader, lib_has_optional_header, C_StreamIDPaddingStream, C_StreamIDPrivateStream2.
  destruct (sid =? 190), (sid =? 191); reflexivity.
Qed.

Lemma packet_length_ref h n : wf_header h ->
  pes_packet_length h n = ref_packet_length (PESHeader_StreamID h) (ref_opt_len h) n.
Proof.
  intros [Hs Ho]. rewrite length_rule. unfold ref_packet_length, opt_len_of, ref_opt_len, lib_has_optional_header in *.
  assert (E : (if orb (PESHeader_StreamID h =? 190) (PESHeader_StreamID h =? 191) then 0
               else calcPESOptionalHeaderLength (PESHeader_OptionalHeader h)) =
              (if negb (orb (PESHeader_StreamID h =? 190) (PESHeader_StreamID h =? 191))
               then match PESHeader_OptionalHeader h with Some oh => 3 + ref_header_data_length oh | None => 0 end
               else 0)).
  { destruct (orb _ _); cbn [negb] in *; [reflexivity|].
    destruct (Ho eq_refl) as (oh & -> & W). unfold calcPESOptionalHeaderLength. cbn [odflt].
    rewrite (calc_len_eq oh W). pose proof (ref_len_range oh W). apply Z.mod_small. lia. }
  rewrite E. set (o := if negb _ then _ else 0).
  replace (n + o) with (o + n) by lia. reflexivity.
Qed.

Theorem parse_write_header h payload : wf_header h -> bytes_ok payload ->
  exists its n, enc_pes_header h (Z.of_nat (length payload)) = Ok (its, n) /\
    n = Z.of_nat (length (bytes_of_items its)) /\
    parse_pes_data_bytes (bytes_of_items its ++ payload) =
      Ok {| PESData_Data := payload;
            PESData_Header := Some (observed_header h (Z.of_nat (length payload))) |}.
Proof.
  intros Wh Hp. pose proof (packet_length_ref h (Z.of_nat (length payload)) Wh) as HL.
  destruct Wh as [Hs Ho].
  remember (Z.of_nat (length payload)) as n eqn:En. remember (PESHeader_StreamID h) as sid eqn:Esid.
  remember (pes_packet_length h n) as L eqn:EL.
  assert (HLr : 0 <= L < 65536).
  { rewrite HL. unfold ref_packet_length, ref_opt_len. rewrite <- Esid.
    destruct (orb _ _); [lia|].
    destruct (lib_has_optional_header sid) eqn:El.
    - destruct (Ho eq_refl) as (oh & -> & W). pose proof (ref_len_range oh W).
      destruct (_ >? _) eqn:E; lia.
    - destruct (_ >? _) eqn:E; lia. }
  destruct (head_bytes sid L Hs HLr) as (B & EB & HB2 & HBf).
  unfold enc_pes_header. rewrite <- Esid, <- EL. fold (head_items sid L). rewrite has_opt_lib.
  destruct (lib_has_optional_header sid) eqn:El.
  - (* with optional header *)
    destruct (Ho eq_refl) as (oh & Eo & W). rewrite Eo. rewrite (enc_opt_ok oh W). cbn [res_bind].
    pose proof (opt_aligned oh W) as Ao. pose proof (data_len_eq oh) as Hol. pose proof (ref_len_range oh W) as Rr.
    eexists _, _. split; [reflexivity|].
    rewrite (bytes_of_items_app _ _ 6 (head_aligned sid L)) by apply Ao.
    destruct (aligned_bytes _ _ Ao) as [Hlo _]. destruct (aligned_bytes _ _ (head_aligned sid L)) as [Hlh _].
    split.
    { rewrite app_length, Hlh, Hlo. unfold C_pesHeaderLength. lia. }
    set (hb := bytes_of_items (head_items sid L)) in *. set (ob := bytes_of_items (opt_items oh)) in *.
    set (bs := (hb ++ ob) ++ payload).
    assert (Lh : located bs 0 hb) by (unfold bs; rewrite <- app_assoc; apply located_self_prefix).
    assert (Lo : located bs 6 ob).
    { exists hb, payload. unfold bs. rewrite <- app_assoc. split; [reflexivity|]. rewrite Hlh. reflexivity. }
    rewrite EB in Lh. apply located_app in Lh. destruct Lh as [_ Lh].
    change ([0; 0; 1; sid]) with ([0; 0; 1] ++ [sid]) in EB.
    assert (Ls : located bs 3 [sid] /\ located bs 4 B).
    { assert (Lh' : located bs 0 (([0; 0; 1] ++ [sid]) ++ B)).
      { unfold bs. rewrite <- EB, <- app_assoc. apply located_self_prefix. }
      apply located_app in Lh'. destruct Lh' as [Lx Ly]. apply located_app in Lx. destruct Lx as [_ Lx]. split; [exact Lx|exact Ly]. }
    destruct Ls as [Ls Lb].
    assert (Hlen : Z.of_nat (length bs) = 6 + opt_len oh + n).
    { unfold bs. rewrite !app_length, Hlh, Hlo. lia. }
    assert (Hhdr : parse_pes_header (mk_iter bs 3) =
              Ok (({| PESHeader_OptionalHeader := Some (observed_opt oh); PESHeader_PacketLength := L; PESHeader_StreamID := sid |},
                   9 + ref_header_data_length oh, if L >? 0 then 6 + L else Z.of_nat (length bs)), mk_iter bs (6 + opt_len oh))).
    { unfold parse_pes_header.
      erewrite ibind_ok by (apply (next_byte_located bs 3 sid Ls)).
      unfold next_bytes_nocopy. erewrite ibind_ok by (apply (next_bytes_located bs 4 B 2); [rewrite HB2; reflexivity | exact Lb]).
      rewrite HBf. erewrite ibind_ok by reflexivity. erewrite ibind_ok by reflexivity.
      cbn [ioff ibs]. rewrite has_opt_lib, El. change (3 + 1 + 2) with 6.
      erewrite ibind_ok by (apply (parse_opt_located oh W bs 6 Lo)). cbv beta iota.
      unfold iret, ilen; cbn [ibs]. repeat f_equal; lia. }
    rewrite (parse_data_after_header _ _ _ _ _ Hhdr eq_refl).
    assert (Hde : (if L >? 0 then 6 + L else Z.of_nat (length bs)) = Z.of_nat (length bs)).
    { destruct (L >? 0) eqn:E; [|reflexivity]. rewrite HL in *. unfold ref_packet_length in *.
      destruct (orb _ _); [lia|]. destruct (_ >? 65535); [lia|].
      unfold ref_opt_len. rewrite <- Esid, El, Eo. lia. }
    rewrite Hde.
    destruct (Z.of_nat (length bs) <? 9 + ref_header_data_length oh) eqn:E1; [lia|].
    rewrite Z.ltb_irrefl. destruct (9 + ref_header_data_length oh <? 0) eqn:E2; [lia|].
    f_equal. f_equal.
    + replace (9 + ref_header_data_length oh) with (Z.of_nat (length (hb ++ ob))) by (rewrite app_length, Hlh, Hlo; lia).
      apply slice_tail.
    + f_equal. unfold observed_header. rewrite <- Esid, El, Eo. cbn [option_map]. rewrite <- HL. reflexivity.
  - (* stream ids without optional header *)
    eexists _, _. split; [reflexivity|].
    destruct (aligned_bytes _ _ (head_aligned sid L)) as [Hlh _].
    split. { rewrite Hlh. reflexivity. }
    set (hb := bytes_of_items (head_items sid L)) in *.
    set (bs := hb ++ payload).
    change ([0; 0; 1; sid]) with ([0; 0; 1] ++ [sid]) in EB.
    assert (Ls : located bs 3 [sid] /\ located bs 4 B).
    { assert (Lh' : located bs 0 (([0; 0; 1] ++ [sid]) ++ B)).
      { unfold bs. rewrite <- EB. apply located_self_prefix. }
      apply located_app in Lh'. destruct Lh' as [Lx Ly]. apply located_app in Lx. destruct Lx as [_ Lx]. split; [exact Lx|exact Ly]. }
    destruct Ls as [Ls Lb].
    assert (Hlen : Z.of_nat (length bs) = 6 + n).
    { unfold bs. rewrite !app_length, Hlh. lia. }
    assert (Hhdr : parse_pes_header (mk_iter bs 3) =
              Ok (({| PESHeader_OptionalHeader := None; PESHeader_PacketLength := L; PESHeader_StreamID := sid |},
                   6, if L >? 0 then 6 + L else Z.of_nat (length bs)), mk_iter bs 6)).
    { unfold parse_pes_header.
      erewrite ibind_ok by (apply (next_byte_located bs 3 sid Ls)).
      unfold next_bytes_nocopy. erewrite ibind_ok by (apply (next_bytes_located bs 4 B 2); [rewrite HB2; reflexivity | exact Lb]).
      rewrite HBf. erewrite ibind_ok by reflexivity. erewrite ibind_ok by reflexivity.
      cbn [ioff ibs]. rewrite has_opt_lib, El. change (3 + 1 + 2) with 6.
      erewrite ibind_ok by reflexivity. reflexivity. }
    rewrite (parse_data_after_header _ _ _ _ _ Hhdr eq_refl).
    assert (Hde : (if L >? 0 then 6 + L else Z.of_nat (length bs)) = Z.of_nat (length bs)).
    { destruct (L >? 0) eqn:E; [|reflexivity]. rewrite HL in *. unfold ref_packet_length in *.
      destruct (orb _ _); [lia|]. destruct (_ >? 65535); [lia|].
      unfold ref_opt_len. rewrite <- Esid, El. lia. }
    rewrite Hde.
    destruct (Z.of_nat (length bs) <? 6) eqn:E1; [lia|].
    rewrite Z.ltb_irrefl. cbn [Z.ltb Z.compare].
    f_equal. f_equal.
    + replace 6 with (Z.of_nat (length hb)) by (rewrite Hlh; reflexivity). apply slice_tail.
    + f_equal. unfold observed_header. rewrite <- Esid, El. rewrite <- HL. reflexivity.
Qed.

(* the domain is inhabited by a header that uses every writable part *)
Definition example_opt : PESOptionalHeader :=
  {| PESOptionalHeader_AdditionalCopyInfo := 85;
     PESOptionalHeader_CRC := 0;
     PESOptionalHeader_DataAlignmentIndicator := true;
     PESOptionalHeader_DSMTrickMode := Some {| DSMTrickMode_FieldID := 2; DSMTrickMode_FrequencyTruncation := 3;
                                               DSMTrickMode_IntraSliceRefresh := 1; DSMTrickMode_RepeatControl := 0;
                                               DSMTrickMode_TrickModeControl := 3 |};
     PESOptionalHeader_DTS := Some (cr 8589934591 0);
     PESOptionalHeader_ESCR := Some (cr 5726623061 341);
     PESOptionalHeader_ESRate := 4194303;
     PESOptionalHeader_Extension2Data := [1; 2; 255];
     PESOptionalHeader_Extension2Length := 0;
     PESOptionalHeader_HasAdditionalCopyInfo := true;
     PESOptionalHeader_HasCRC := false;
     PESOptionalHeader_HasDSMTrickMode := true;
     PESOptionalHeader_HasESCR := true;
     PESOptionalHeader_HasESRate := true;
     PESOptionalHeader_HasExtension := true;
     PESOptionalHeader_HasExtension2 := true;
     PESOptionalHeader_HasOptionalFields := false;
     PESOptionalHeader_HasPackHeaderField := false;
     PESOptionalHeader_HasPrivateData := true;
     PESOptionalHeader_HasProgramPacketSequenceCounter := true;
     PESOptionalHeader_HasPSTDBuffer := true;
     PESOptionalHeader_HeaderLength := 0;
     PESOptionalHeader_IsCopyrighted := false;
     PESOptionalHeader_IsOriginal := true;
     PESOptionalHeader_MarkerBits := 0;
     PESOptionalHeader_MPEG1OrMPEG2ID := 1;
     PESOptionalHeader_OriginalStuffingLength := 63;
     PESOptionalHeader_PacketSequenceCounter := 127;
     PESOptionalHeader_PackField := 0;
     PESOptionalHeader_Priority := true;
     PESOptionalHeader_PrivateData := [0; 1; 2; 3; 4; 5; 6; 7; 8; 9; 10; 11; 12; 13; 14; 255];
     PESOptionalHeader_PSTDBufferScale := 1;
     PESOptionalHeader_PSTDBufferSize := 8191;
     PESOptionalHeader_PTS := Some (cr 4294967296 0);
     PESOptionalHeader_PTSDTSIndicator := 3;
     PESOptionalHeader_ScramblingControl := 2 |}.
Definition example_header : PESHeader :=
  {| PESHeader_OptionalHeader := Some example_opt; PESHeader_PacketLength := 0; PESHeader_StreamID := 192 |}.

Ltac bytes_ok_tac := unfold bytes_ok; repeat constructor; unfold byte_ok; lia.

Example example_wf : wf_header example_header.
Proof.
  split; [cbn; lia|]. intros _. exists example_opt. split; [reflexivity|].
  constructor; cbn -[Z.pow]; try lia; try tauto; try reflexivity.
  - eexists. split; [|reflexivity]. change (2 ^ 33) with 8589934592. lia.
  - eexists. split; [|reflexivity]. change (2 ^ 33) with 8589934592. lia.
  - eexists _, _. split; [|split; [|reflexivity]]; [change (2 ^ 33) with 8589934592 | change (2 ^ 9) with 512]; lia.
  - eexists. split; [reflexivity|]. unfold wf_dsm. cbn. lia.
  - split; [reflexivity | bytes_ok_tac].
  - split; [lia | bytes_ok_tac].
Qed.
Example example_roundtrip :
  match enc_pes_header example_header 4 with
  | Ok (its, n) => n = 55 /\ parse_pes_data_bytes (bytes_of_items its ++ [222; 173; 190; 239]) =
                   Ok {| PESData_Data := [222; 173; 190; 239]; PESData_Header := Some (observed_header example_header 4) |}
  | _ => False
  end.
Proof. vm_compute. split; reflexivity. Qed.
