(* The two descriptor parsers psigen.go leaves out, as regenerated (Gen/RestDesc.v: go/gen/restgen.go through the
   statement translator of demuxgen.go, outcome monad) against new_descriptor_iso639 / new_descriptor_extension of
   Model/Desc.v (iterator monad of Base/Iter.v).

   im_rel relates the two result shapes: Done (i', Some v, nil error) with Ok (v, i') — same descriptor, same iterator;
   Done with an error with Err (the iterator monad keeps only the error class); Panicked with Panic.  In particular the
   run-time panic of newDescriptorISO639LanguageAndAudioType on an empty body (bs[0 : len(bs)-1] with len(bs) = 0) is in
   the regenerated function as a bounds test and in the model as ipanic, and the lemma says they coincide.  An off-by-one
   in the slice bounds or the index, a different tag constant, or an Unknown that is not the bytes read breaks these
   proofs. *)
From Coq Require Import ZArith List Bool Lia.
Require Import Base.Iter Gen.Consts Gen.Types Gen.Preds Gen.DemuxGen Gen.RestDesc Model.Desc.
Import ListNotations.
Open Scope Z_scope.

Section Rel.
Variable W : Type.

Definition im_rel {A} (o : outcome (iter * option A * option gerr * W)) (r : res (A * iter)) (w : W) : Prop :=
  match o, r with
  | Done (i', Some a, None, w'), Ok (a', i'') => a = a' /\ i' = i'' /\ w' = w
  | Done (_, _, Some _, w'), Err _ => w' = w
  | Panicked, Panic => True
  | _, _ => False
  end.

Lemma removelast_firstn (l : list Z) : firstn (Z.to_nat (Z.of_nat (length l) - 1 - 0)) (skipn (Z.to_nat 0) l) = removelast l.
Proof.
  cbn [Z.to_nat skipn]. replace (Z.to_nat (Z.of_nat (length l) - 1 - 0)) with (pred (length l)) by lia.
  symmetry. apply removelast_firstn_len.
Qed.

Lemma nth_last_Z (l : list Z) : nth (Z.to_nat (Z.of_nat (length l) - 1)) l 0 = last l 0.
Proof.
  replace (Z.to_nat (Z.of_nat (length l) - 1)) with (pred (length l)) by lia.
  induction l as [|a r IH]; [reflexivity|]. destruct r as [|b r']; [reflexivity|].
  change (nth (pred (length (a :: b :: r'))) (a :: b :: r') 0) with (nth (pred (length (b :: r'))) (b :: r') 0).
  change (last (a :: b :: r') 0) with (last (b :: r') 0). exact IH.
Qed.

Lemma iso639_is_generated i offsetEnd (w : W) :
  im_rel (newDescriptorISO639LanguageAndAudioType W i offsetEnd w) (new_descriptor_iso639 offsetEnd i) w.
Proof.
  unfold newDescriptorISO639LanguageAndAudioType, new_descriptor_iso639, bytes_to, ibind, ioffset, it_NextBytes.
  destruct (next_bytes (offsetEnd - ioff i) i) as [[bs i']|c|]; cbn [obind is_some im_rel ewrap]; [|reflexivity|exact I].
  destruct bs as [|b r].
  - cbn. exact I.
  - set (l := b :: r).
    assert (Hl : 0 <= Z.of_nat (length l) - 1 < Z.of_nat (length l)) by (unfold l; cbn [length]; lia).
    assert (G : (0 <=? 0) && (0 <=? Z.of_nat (length l) - 1) && (Z.of_nat (length l) - 1 <=? Z.of_nat (length l)) &&
                ((0 <=? Z.of_nat (length l) - 1) && (Z.of_nat (length l) - 1 <? Z.of_nat (length l))) = true).
    { rewrite !andb_true_iff. repeat split; try apply Z.leb_le; try apply Z.ltb_lt; lia. }
    rewrite G. unfold iret, im_rel. rewrite removelast_firstn, nth_last_Z. repeat split.
Qed.

(* newDescriptorExtensionSupplementaryAudio by its model *)
Definition sa_m (w : W) (i : iter) (offsetEnd : Z) : outcome (iter * option DescriptorExtensionSupplementaryAudio * option gerr * W) :=
  match new_descriptor_extension_supplementary_audio offsetEnd i with
  | Ok (a, i') => Done (i', Some a, None, w)
  | Err _ => Done (i, None, Some ENew, w)
  | Panic => Panicked
  end.

Lemma extension_is_generated i offsetEnd (w : W) :
  im_rel (newDescriptorExtension W sa_m i offsetEnd w) (new_descriptor_extension offsetEnd i) w.
Proof.
  unfold newDescriptorExtension, new_descriptor_extension, ibind, it_NextByte.
  destruct (next_byte i) as [[tag i1]|c|]; cbn [obind is_some im_rel ewrap odflt DescriptorExtension_Tag
    DescriptorExtension_SupplementaryAudio DescriptorExtension_Unknown]; [|reflexivity|exact I].
  destruct (tag =? C_DescriptorTagExtensionSupplementaryAudio).
  - unfold sa_m. destruct (new_descriptor_extension_supplementary_audio offsetEnd i1) as [[sa i2]|c|];
      cbn [obind is_some im_rel ewrap iret]; [repeat split|reflexivity|exact I].
  - unfold bytes_to, ibind, ioffset, it_NextBytes.
    destruct (next_bytes (offsetEnd - ioff i1) i1) as [[bs i2]|c|]; cbn [obind is_some im_rel ewrap iret];
      [repeat split|reflexivity|exact I].
Qed.

End Rel.

(* "eng" + audio type 3; an empty body panics in both; an extension descriptor with an unknown tag keeps its bytes *)
Example descriptor_leftovers_run :
  newDescriptorISO639LanguageAndAudioType unit (new_iter [101; 110; 103; 3]) 4 tt =
    Done (mk_iter [101; 110; 103; 3] 4,
          Some {| DescriptorISO639LanguageAndAudioType_Language := [101; 110; 103]; DescriptorISO639LanguageAndAudioType_Type := 3 |},
          None, tt) /\
  newDescriptorISO639LanguageAndAudioType unit (new_iter [1; 2]) 0 tt = Panicked /\
  new_descriptor_iso639 0 (new_iter [1; 2]) = Panic /\
  newDescriptorExtension unit (sa_m unit) (new_iter [9; 7; 8]) 3 tt =
    Done (mk_iter [9; 7; 8] 3,
          Some {| DescriptorExtension_SupplementaryAudio := None; DescriptorExtension_Tag := 9; DescriptorExtension_Unknown := Some [7; 8] |},
          None, tt).
Proof. vm_compute. repeat split. Qed.
