(* C18: reader and writer failures are surfaced. *)
From Coq Require Import ZArith List Lia Bool ZifyBool.
Require Import Base.Bits Base.Iter Gen.Consts Gen.Types Model.Packet Model.Reader Model.Demux Model.Faults Proofs.SafeProofs.
Import ListNotations.
Open Scope Z_scope.

(* ---- writer: the count a failing call reports never exceeds what the writer accepted ---- *)

Lemma firstn_app_le {A} (n : nat) (a b : list A) : (length a <= n)%nat -> firstn n (a ++ b) = a ++ firstn (n - length a) b.
Proof. intros H. rewrite firstn_app. rewrite firstn_all2 by lia. reflexivity. Qed.

Theorem writer_count_le_accepted groups : forall k, 0 <= k ->
  n_before groups k <= Z.of_nat (length (accepted (concat groups) k)).
Proof.
  induction groups as [|g r IH]; intros k Hk; [cbn; lia|].
  cbn [n_before concat]. destruct (k <? Z.of_nat (length g)) eqn:E; [lia|].
  unfold accepted in *. rewrite firstn_app_le by lia. rewrite concat_app, app_length.
  specialize (IH (k - Z.of_nat (length g)) ltac:(lia)).
  replace (Z.to_nat (k - Z.of_nat (length g))) with (Z.to_nat k - length g)%nat in IH by lia. lia.
Qed.

(* the accepted bytes are a prefix of what the fault-free call would have written *)
Theorem accepted_prefix chunks k : exists rest, concat chunks = accepted chunks k ++ rest.
Proof.
  unfold accepted. exists (concat (skipn (Z.to_nat k) chunks)).
  rewrite <- concat_app, firstn_skipn. reflexivity.
Qed.

(* ---- reader: a failure other than end of file is never turned into ErrNoMorePackets ---- *)

Definition faulty (r : reader) : Prop := exists f, r_fault r = Some f /\ f <= r_total r.

Lemma read_full_faulty r n : faulty r -> 0 < n ->
  (snd (fst (read_full r n)) = None \/ snd (fst (read_full r n)) = Some RInjected) /\ faulty (snd (read_full r n)).
Proof.
  intros [f [Hf Hle]] Hn. unfold read_full, r_stop. rewrite Hf. unfold r_len.
  destruct (f <=? r_total r) eqn:E; [|lia].
  destruct (n <=? Z.max 0 (f - r_pos r)); cbn [fst snd]; (split; [auto|]); exists f; cbn [r_advance r_fault r_total]; auto.
Qed.

(* with the demuxer's own fuel: reading from a reader that fails at offset f <= length never ends in ErrNoMorePackets,
   whatever the bytes are (any packet size >= 188) *)
Definition rest_ok (r : reader) : Prop :=
  r_total r - r_pos r = Z.of_nat (length (r_rest r)) /\ bytes_ok (r_rest r).

Lemma rest_ok_advance r n : rest_ok r -> 0 <= n <= r_total r - r_pos r -> rest_ok (r_advance r n).
Proof.
  intros [H1 H2] Hn. split.
  - cbn [r_advance r_total r_pos r_rest]. rewrite skipn_length. lia.
  - cbn [r_advance r_rest]. unfold bytes_ok in *. apply Forall_forall. intros x Hx.
    apply SafeProofs.In_skipn in Hx. rewrite Forall_forall in H2. auto.
Qed.

Lemma pb_next_fuel_enough skip size : C_MpegTsPacketSize <= size -> forall fuel r f,
  r_fault r = Some f -> f <= r_total r -> r_pos r <= f -> rest_ok r ->
  f - r_pos r < Z.of_nat fuel * size ->
  fst (fst (pb_next fuel skip size r)) <> Err E_nomore.
Proof.
  intros Hs. assert (Hs0 : 0 < size) by (unfold C_MpegTsPacketSize in Hs; lia).
  induction fuel as [|k IH]; intros r f Hf Hle Hpos Hok Hfuel; [lia|].
  cbn [pb_next]. unfold read_full at 1. unfold r_stop. rewrite Hf. unfold r_len.
  destruct (f <=? r_total r) eqn:E; [|lia].
  destruct (size <=? Z.max 0 (f - r_pos r)) eqn:E2.
  - destruct Hok as [Hl Hb].
    assert (Hbs : bytes_ok (firstn (Z.to_nat size) (r_rest r))).
    { unfold bytes_ok in *. apply Forall_forall. intros x Hx. apply SafeProofs.In_firstn in Hx. rewrite Forall_forall in Hb. auto. }
    assert (Hlen : C_MpegTsPacketSize <= Z.of_nat (length (firstn (Z.to_nat size) (r_rest r)))).
    { rewrite firstn_length. lia. }
    pose proof (SafeProofs.parse_packet_no_panic skip _ Hbs Hlen) as Hp.
    destruct (run_iter (parse_packet skip) _) as [p|c|]; cbn [fst]; try discriminate.
    destruct (c =? E_skipped) eqn:E3.
    + specialize (IH (r_advance r size) f). cbn [r_advance r_fault r_total r_pos] in IH.
      specialize (IH Hf Hle ltac:(lia)).
      assert (Hok' : rest_ok (r_advance r size)) by (apply rest_ok_advance; [split; assumption|lia]).
      specialize (IH Hok' ltac:(lia)).
      destruct (pb_next k skip size (r_advance r size)) as [[x r''] l]. cbn [fst] in *. exact IH.
    + cbn [fst]. intros H. inversion H; subst. destruct Hp as [[Hc|Hc]|Hc]; discriminate.
  - cbn [fst]. discriminate.
Qed.
