(* C01: the descriptor-domain premises of the history theorem, discharged for loops of user-defined (private)
   descriptors -- tags 0x80..0xFE, bodies of 0..255 bytes, given in the form a parser returns them (Length = body
   size): the writer side (the parse side is C13_user_desc_premises). *)
From Coq Require Import ZArith List Lia Bool ZifyBool.
Require Import Base.Bits Base.Iter Base.Wr Gen.Consts Gen.Types Gen.Preds Model.Packet Model.Desc Model.Dvb Model.Psi Model.Muxer.
Require Import Spec.DescSpec Spec.PsiSpec Proofs.DescProofs Proofs.PesRoundTrip Proofs.PsiProofs Proofs.PsiParse Proofs.PsiDescLink
  Proofs.PsiSiLink Proofs.PsiUserDesc Proofs.RoundTripRun.
Import ListNotations.
Open Scope Z_scope.

Lemma ud_tag e : ud_ok e -> Descriptor_Tag (ud_value e) = fst e /\ Descriptor_UserDefined (ud_value e) = snd e.
Proof. intros _. unfold ud_value. destruct (snd e) eqn:E; split; reflexivity. Qed.

Lemma ud_calc e : ud_ok e -> calc_descriptor_length (ud_value e) = Z.of_nat (length (snd e)) /\
                           desc_size (ud_value e) = Z.of_nat (length (snd e)).
Proof.
  intros Hok. destruct (ud_tag e Hok) as [Ht Hu]. destruct Hok as (Htag & Hl & _).
  unfold calc_descriptor_length, desc_size. rewrite Ht, Hu. unfold is_user_defined, spec_is_user_defined.
  destruct (128 <=? fst e) eqn:E1; [|lia]. destruct (fst e <=? 254) eqn:E2; [|lia]. cbn [andb].
  unfold calc_user_defined_length, blen, zlen. split; [apply Z.mod_small; lia|reflexivity].
Qed.

(* one descriptor: the items, whole bytes, exactly tag, length, body *)
Lemma ud_enc_items e : ud_ok e ->
  exists its, enc_descriptor (ud_value e) = Ok its /\ aligned its (length (ud_enc e)) /\ bytes_of_items its = ud_enc e.
Proof.
  intros Hok. destruct (ud_tag e Hok) as [Ht Hu]. destruct (ud_calc e Hok) as [Hc _]. pose proof Hok as (Htag & Hl & Hb).
  unfold enc_descriptor. rewrite Hc, Ht. unfold ud_enc.
  assert (Hh : aligned [wu8 (fst e); wu8 (Z.of_nat (length (snd e)))] 2) by (split; [reflexivity|repeat constructor]).
  assert (Hhb : bytes_of_items [wu8 (fst e); wu8 (Z.of_nat (length (snd e)))] = [fst e; Z.of_nat (length (snd e))]).
  { change [wu8 (fst e); wu8 (Z.of_nat (length (snd e)))] with ([wu8 (fst e)] ++ [wu8 (Z.of_nat (length (snd e)))]).
    rewrite (PesRoundTrip.bytes_of_items_app _ _ 1 (wu8_aligned _)) by repeat constructor.
    rewrite !wu8_bytes, !Z.mod_small by lia. reflexivity. }
  destruct (Z.of_nat (length (snd e)) =? 0) eqn:E0.
  - assert (snd e = []) as Hnil by (destruct (snd e); [reflexivity|cbn [length] in E0; lia]).
    eexists. split; [reflexivity|]. rewrite Hnil in Hh, Hhb |- *. cbn [length] in *. split; [exact Hh|exact Hhb].
  - unfold enc_descriptor_body. rewrite Ht. unfold is_user_defined.
    destruct (128 <=? fst e) eqn:E1; [|lia]. destruct (fst e <=? 254) eqn:E2; [|lia]. cbn [andb res_map]. rewrite Hu.
    eexists. split; [reflexivity|]. split.
    + cbn [length]. change (S (S (length (snd e)))) with (2 + length (snd e))%nat. apply aligned_app; [exact Hh|apply wbytes_aligned, Hb].
    + rewrite (PesRoundTrip.bytes_of_items_app _ _ 2 Hh) by (constructor; [exact Hb|constructor]).
      rewrite Hhb, (wbytes_bytes _ Hb). reflexivity.
Qed.

Lemma ud_enc_list es : Forall ud_ok es ->
  exists its, enc_descriptors (map ud_value es) = Ok its /\ aligned its (length (flat_map ud_enc es)) /\
              bytes_of_items its = flat_map ud_enc es /\
              loop_size (map ud_value es) = Z.of_nat (length (flat_map ud_enc es)) /\
              Forall (fun d => desc_size d < 256) (map ud_value es) /\
              fold_left (fun k d => k + (2 + calc_descriptor_length d)) (map ud_value es) 0 = Z.of_nat (length (flat_map ud_enc es)).
Proof.
  induction 1 as [|e es He _ (its & E & Ha & Hb & Hl & Hs & Hf)].
  - exists []. cbn. repeat split; try reflexivity; constructor.
  - destruct (ud_enc_items e He) as (ie & Ee & Hae & Hbe). destruct (ud_calc e He) as [Hc Hd]. pose proof He as (_ & Hlen & _).
    exists (ie ++ its). cbn [map enc_descriptors flat_map]. rewrite Ee. cbn [res_bind]. rewrite E. cbn [res_map].
    split; [reflexivity|]. rewrite app_length. split; [apply aligned_app; assumption|]. split.
    + rewrite (PesRoundTrip.bytes_of_items_app _ _ _ Hae (proj2 Ha)), Hbe, Hb. reflexivity.
    + split; [|split].
      * unfold loop_size in *. cbn [sumZ fold_right]. unfold sumZ in Hl. rewrite Hl, Hd. unfold ud_enc. cbn [length]. lia.
      * constructor; [rewrite Hd; exact Hlen|exact Hs].
      * cbn [fold_left]. rewrite (RoundTripTables.fold_add_acc no_desc16), Hf, Hc. unfold ud_enc. cbn [length]. lia.
Qed.

Theorem ud_desc_write ds bytes : ud_desc ds bytes -> desc_bytes ds bytes.
Proof.
  intros (es & Hes & -> & -> & Hlt). destruct (ud_enc_list es Hes) as (its & E & Ha & Hb & Hl & Hs & _).
  split.
  - split; [exact Hs|]. split; [rewrite Hl; exact Hlt|]. exists its. split; [exact E|apply Ha].
  - exists its. split; [exact E|symmetry; exact Hb].
Qed.

Theorem ud_desc_size ds bytes : ud_desc ds bytes ->
  fold_left (fun k d => k + (2 + calc_descriptor_length d)) ds 0 = Z.of_nat (length bytes).
Proof. intros (es & Hes & -> & -> & _). destruct (ud_enc_list es Hes) as (its & _ & _ & _ & _ & _ & Hf). exact Hf. Qed.

Lemma ud_desc_nil : ud_desc [] [].
Proof. exists []. split; [constructor|]. split; [reflexivity|]. split; [reflexivity|]. cbn. lia. Qed.

(* C01 for streams whose descriptors are user-defined (or absent): no premise left *)
Theorem roundtrip_history_ud period ops :
  history_ok ud_desc (new_muxer period) ops ->
  demux_all (concat (map mout_bytes (snd (mux_run (new_muxer period) ops)))) = map Ok (expect (new_muxer period) [] ops).
Proof. apply (roundtrip_history ud_desc ud_desc_premises ud_desc_write ud_desc_nil ud_desc_size). Qed.
