(* Bridge between the two ways a parser reads a bit field: the hand-written models use
   [bitsf bs off w] / [bitb bs off] (Base/Bits.v: bit offset from the MSB of the first byte), the Go
   source -- and therefore Gen/ParseGen.v -- uses shifts, masks and ors on the bytes.  Both are
   brought to div / mod arithmetic on the big-endian value of the byte string:
     bitsf bs off w = (be bs / 2^(8*|bs| - off - w)) mod 2^w              (bytes in 0..255)
     Z.shiftl a n = a * 2^n,  Z.shiftr a n = a / 2^n,  Z.land a (2^n-1) = a mod 2^n,
     Z.land a (2^n) = ((a / 2^n) mod 2) * 2^n,  Z.lor a b = a + b  when a is a multiple of 2^n > b >= 0
   and the remaining goal is linear arithmetic with division by constants ([lia] after
   [Z.div_mod_to_equations]).  Single-byte facts can also be closed by a sweep over the 256 values. *)
From Coq Require Import ZArith List Lia Bool ZifyBool.
Require Import Base.Bits Base.Iter.
Import ListNotations.
Open Scope Z_scope.

(* ---------- big-endian value of a byte string ---------- *)

Definition be (bs : list Z) : Z := fold_left (fun a b => a * 256 + b) bs 0.

Lemma Z_of_bits_acc_lin l acc : Z_of_bits_acc l acc = acc * 2 ^ Z.of_nat (length l) + Z_of_bits l.
Proof.
  unfold Z_of_bits. revert acc. induction l as [|b l IH]; intros acc.
  - cbn. lia.
  - cbn [Z_of_bits_acc length]. rewrite IH, (IH (2 * 0 + Z.b2z b)).
    rewrite Nat2Z.inj_succ, Z.pow_succ_r by lia. ring.
Qed.

Lemma Z_of_bits_app a b : Z_of_bits (a ++ b) = Z_of_bits a * 2 ^ Z.of_nat (length b) + Z_of_bits b.
Proof. unfold Z_of_bits at 1. rewrite Z_of_bits_acc_app. fold (Z_of_bits a). apply Z_of_bits_acc_lin. Qed.

Lemma fold_be_acc bs acc : fold_left (fun a b => a * 256 + b) bs acc = acc * 256 ^ Z.of_nat (length bs) + be bs.
Proof.
  unfold be. revert acc. induction bs as [|b bs IH]; intros acc.
  - cbn. lia.
  - cbn [fold_left length]. rewrite IH, (IH (0 * 256 + b)).
    rewrite Nat2Z.inj_succ, Z.pow_succ_r by lia. ring.
Qed.

Lemma Z_of_bits_bytes bs : bytes_ok bs -> Z_of_bits (bits_of_bytes bs) = be bs.
Proof.
  induction 1 as [|b bs Hb _ IH]; [reflexivity|].
  unfold bits_of_bytes in *. cbn [flat_map]. rewrite Z_of_bits_app, IH.
  rewrite Z_of_bits_of by exact Hb.
  unfold be at 2. cbn [fold_left]. rewrite fold_be_acc.
  fold (bits_of_bytes bs). rewrite bits_of_bytes_length.
  replace (Z.of_nat (8 * length bs)) with (8 * Z.of_nat (length bs)) by lia.
  rewrite Z.pow_mul_r by lia. change (2 ^ 8) with 256. ring.
Qed.

Lemma be_range bs : bytes_ok bs -> 0 <= be bs < 256 ^ Z.of_nat (length bs).
Proof.
  intros H. rewrite <- Z_of_bits_bytes by exact H.
  pose proof (Z_of_bits_range (bits_of_bytes bs)) as R. rewrite bits_of_bytes_length in R.
  replace (Z.of_nat (8 * length bs)) with (8 * Z.of_nat (length bs)) in R by lia.
  rewrite Z.pow_mul_r in R by lia. exact R.
Qed.

(* a field of a bit list, arithmetically *)
Lemma field_arith l off w : (off + w <= length l)%nat ->
  field l off w = (Z_of_bits l / 2 ^ Z.of_nat (length l - off - w)) mod 2 ^ Z.of_nat w.
Proof.
  intros H. unfold field.
  rewrite <- (firstn_skipn off l) at 2.
  rewrite <- (firstn_skipn w (skipn off l)) at 2.
  rewrite !Z_of_bits_app.
  set (A := Z_of_bits (firstn off l)).
  set (M := firstn w (skipn off l)).
  set (C := skipn w (skipn off l)).
  assert (HM : length M = w) by (unfold M; rewrite firstn_length, skipn_length; lia).
  assert (HC : length C = (length l - off - w)%nat) by (unfold C; rewrite !skipn_length; lia).
  rewrite app_length, HM, HC.
  pose proof (Z_of_bits_range M) as RM. rewrite HM in RM.
  pose proof (Z_of_bits_range C) as RC. rewrite HC in RC.
  set (k := Z.of_nat (length l - off - w)) in *. set (W := Z.of_nat w) in *.
  replace (Z.of_nat (w + (length l - off - w))) with (W + k) by lia.
  rewrite Z.pow_add_r by lia.
  assert (Hk : 0 < 2 ^ k) by (apply Z.pow_pos_nonneg; lia).
  assert (HW : 0 < 2 ^ W) by (apply Z.pow_pos_nonneg; lia).
  replace (A * (2 ^ W * 2 ^ k) + (Z_of_bits M * 2 ^ k + Z_of_bits C))
    with ((A * 2 ^ W + Z_of_bits M) * 2 ^ k + Z_of_bits C) by ring.
  rewrite Z.div_add_l by lia. rewrite (Z.div_small (Z_of_bits C)) by lia.
  rewrite Z.add_0_r, Z.add_comm, Z.mod_add by lia. symmetry. apply Z.mod_small. lia.
Qed.

Lemma bitsf_be bs off w : bytes_ok bs -> (off + w <= 8 * length bs)%nat ->
  bitsf bs off w = (be bs / 2 ^ Z.of_nat (8 * length bs - off - w)) mod 2 ^ Z.of_nat w.
Proof.
  intros Hb H. unfold bitsf. rewrite field_arith by (rewrite bits_of_bytes_length; exact H).
  rewrite bits_of_bytes_length, Z_of_bits_bytes by exact Hb. reflexivity.
Qed.

Lemma bitb_be bs off : bytes_ok bs -> (off + 1 <= 8 * length bs)%nat ->
  bitb bs off = ((be bs / 2 ^ Z.of_nat (8 * length bs - off - 1)) mod 2 =? 1).
Proof. intros Hb H. unfold bitb. rewrite bitsf_be by assumption. reflexivity. Qed.

(* ---------- a field of a byte string, byte by byte ---------- *)

Lemma bits_of_bytes_cons b bs : bits_of_bytes (b :: bs) = bits_of 8 b ++ bits_of_bytes bs.
Proof. reflexivity. Qed.

Lemma bitsf_cons_skip b bs off w : (8 <= off)%nat -> bitsf (b :: bs) off w = bitsf bs (off - 8) w.
Proof. intros H. unfold bitsf. rewrite bits_of_bytes_cons. apply field_skip. exact H. Qed.

Lemma bitsf_cons_in b bs off w : (off + w <= 8)%nat -> bitsf (b :: bs) off w = bitsf [b] off w.
Proof.
  intros H. unfold bitsf, field. rewrite bits_of_bytes_cons. f_equal.
  change (bits_of_bytes [b]) with (bits_of 8 b ++ []). rewrite app_nil_r.
  rewrite skipn_app, firstn_app, skipn_length, bits_of_length.
  replace (w - (8 - off))%nat with 0%nat by lia. rewrite firstn_O, app_nil_r. reflexivity.
Qed.

Lemma bitsf_cons_split b bs off w : (off < 8)%nat -> (8 < off + w)%nat -> (off + w <= 8 + 8 * length bs)%nat ->
  bitsf (b :: bs) off w = bitsf [b] off (8 - off) * 2 ^ Z.of_nat (w - (8 - off)) + bitsf bs 0 (w - (8 - off)).
Proof.
  intros H1 H2 H3. unfold bitsf, field. rewrite bits_of_bytes_cons.
  change (bits_of_bytes [b]) with (bits_of 8 b ++ []). rewrite app_nil_r.
  rewrite skipn_app, firstn_app, skipn_length, !bits_of_length.
  replace (off - 8)%nat with 0%nat by lia. cbn [skipn].
  rewrite (firstn_all2 (n := w)) by (rewrite skipn_length, bits_of_length; lia).
  rewrite (firstn_all2 (n := (8 - off)%nat)) by (rewrite skipn_length, bits_of_length; lia).
  rewrite Z_of_bits_app. rewrite firstn_length, bits_of_bytes_length.
  rewrite Nat.min_l by lia. reflexivity.
Qed.

Lemma bitsf_byte b off w : byte_ok b -> (off + w <= 8)%nat ->
  bitsf [b] off w = (b / 2 ^ Z.of_nat (8 - off - w)) mod 2 ^ Z.of_nat w.
Proof.
  intros Hb H. rewrite bitsf_be; [|constructor; [exact Hb|constructor]|cbn [length]; lia].
  cbn [length Nat.mul Nat.add be fold_left]. rewrite Z.mul_0_l, Z.add_0_l. reflexivity.
Qed.

(* bring every bitsf / bitb of a literal byte list to div / mod on single bytes *)
Ltac bitsf_bytes :=
  unfold bitb;
  repeat match goal with
  | |- context [bitsf (?b :: ?b' :: ?bs) ?off ?w] =>
      let skip := eval compute in (Nat.leb 8 off) in
      lazymatch skip with
      | true => let off' := eval compute in (off - 8)%nat in
                rewrite (bitsf_cons_skip b (b' :: bs) off w) by (cbn; lia); change (off - 8)%nat with off'
      | false =>
          let inb := eval compute in (Nat.leb (off + w) 8) in
          lazymatch inb with
          | true => rewrite (bitsf_cons_in b (b' :: bs) off w) by (cbn; lia)
          | false => let w1 := eval compute in (8 - off)%nat in
                     let w2 := eval compute in (w - (8 - off))%nat in
                     rewrite (bitsf_cons_split b (b' :: bs) off w) by (cbn; lia);
                     change (8 - off)%nat with w1; change (w - w1)%nat with w2
          end
      end
  end;
  repeat match goal with
  | |- context [bitsf [?b] ?off ?w] =>
      let k := eval compute in (Z.of_nat (8 - off - w)) in
      let ww := eval compute in (Z.of_nat w) in
      rewrite (bitsf_byte b off w) by (first [assumption | (unfold byte_ok; lia) | (cbn; lia)]);
      change (Z.of_nat (8 - off - w)) with k; change (Z.of_nat w) with ww
  end.

(* ---------- shifts, masks, ors ---------- *)

Lemma land_ones_lit a m n : Z.ones n = m -> 0 <= n -> Z.land a m = a mod 2 ^ n.
Proof. intros <- Hn. apply Z.land_ones. exact Hn. Qed.

(* mask with w ones shifted left by s *)
Lemma land_mask_lit a m s w : Z.shiftl (Z.ones w) s = m -> 0 <= s -> 0 <= w ->
  Z.land a m = ((a / 2 ^ s) mod 2 ^ w) * 2 ^ s.
Proof.
  intros <- Hs Hw. rewrite <- Z.shiftr_div_pow2, <- Z.land_ones, <- Z.shiftl_mul_pow2 by lia.
  apply Z.bits_inj'. intros n Hn.
  rewrite Z.land_spec. destruct (Z.ltb_spec n s) as [L|L].
  - rewrite !Z.shiftl_spec_low by lia. apply andb_false_r.
  - rewrite !Z.shiftl_spec_high by lia. rewrite Z.land_spec, Z.shiftr_spec by lia.
    replace (n - s + s) with n by lia. reflexivity.
Qed.

Lemma lor_add a b n : 0 <= n -> 0 <= b < 2 ^ n -> a mod 2 ^ n = 0 -> Z.lor a b = a + b.
Proof.
  intros Hn Hb Ha.
  assert (L : Z.land a b = 0).
  { apply Z.bits_inj'. intros k Hk. rewrite Z.land_spec, Z.bits_0.
    destruct (Z.ltb_spec k n) as [L|L].
    - rewrite <- (Z.mod_pow2_bits_low a n k) by lia. rewrite Ha, Z.bits_0. reflexivity.
    - destruct (Z.eq_dec b 0) as [->|Hz]; [rewrite Z.bits_0; apply andb_false_r|].
      rewrite (Z.bits_above_log2 b k); [apply andb_false_r|lia|].
      apply Z.log2_lt_pow2; [lia|]. apply Z.lt_le_trans with (2 ^ n); [lia|]. apply Z.pow_le_mono_r; lia. }
  rewrite Z.add_nocarry_lxor by exact L. symmetry. apply Z.lxor_lor. exact L.
Qed.

(* ---------- sweeps over one byte ---------- *)

Fixpoint all_below (n : nat) (P : Z -> bool) : bool :=
  match n with O => true | S k => P (Z.of_nat k) && all_below k P end.

Lemma all_below_spec n P : all_below n P = true -> forall b, 0 <= b < Z.of_nat n -> P b = true.
Proof.
  induction n as [|n IH]; intros H b Hb; [lia|].
  cbn [all_below] in H. apply andb_true_iff in H. destruct H as [H1 H2].
  destruct (Z.eq_dec b (Z.of_nat n)) as [->|Hne]; [exact H1|]. apply IH; [exact H2|lia].
Qed.

Lemma byte_sweep (P : Z -> bool) : all_below 256 P = true -> forall b, byte_ok b -> P b = true.
Proof. intros H b Hb. apply (all_below_spec 256 P H). exact Hb. Qed.

Lemma byte_sweep_Z (f g : Z -> Z) : all_below 256 (fun b => f b =? g b) = true -> forall b, byte_ok b -> f b = g b.
Proof. intros H b Hb. apply Z.eqb_eq. exact (byte_sweep _ H b Hb). Qed.

Lemma byte_sweep_bool (f g : Z -> bool) : all_below 256 (fun b => Bool.eqb (f b) (g b)) = true ->
  forall b, byte_ok b -> f b = g b.
Proof. intros H b Hb. apply eqb_prop. exact (byte_sweep _ H b Hb). Qed.

(* ---------- the normalising tactic ---------- *)

Ltac land_to_mod :=
  repeat match goal with
  | |- context [Z.land ?a ?m] =>
      let n := eval compute in (Z.log2 (m + 1)) in
      rewrite (land_ones_lit a m n eq_refl) by lia
  | |- context [Z.land ?a ?m] =>
      let s := eval compute in (Z.log2 (Z.land m (- m))) in
      let w := eval compute in (Z.log2 (Z.shiftr m s + 1)) in
      rewrite (land_mask_lit a m s w eq_refl) by lia
  end.

Ltac shifts_to_arith :=
  rewrite ?Z.shiftl_mul_pow2, ?Z.shiftr_div_pow2 by lia.

(* the least k among the summands x * 2^k of a sum (0 for a summand of another shape) *)
Ltac min_shift a :=
  lazymatch a with
  | ?x + ?y => let p := min_shift x in let q := min_shift y in let r := eval compute in (Z.min p q) in r
  | _ * 2 ^ ?k => k
  | _ => constr:(0)
  end.

(* innermost first: Z.lor a b with a a sum of multiples of 2^n and 0 <= b < 2^n becomes a + b *)
Ltac lor_to_add_step :=
  match goal with
  | |- context [Z.lor ?a ?b] =>
      lazymatch a with context [Z.lor _ _] => fail | _ => idtac end;
      lazymatch b with context [Z.lor _ _] => fail | _ => idtac end;
      let n := min_shift a in
      rewrite (lor_add a b n) by (lia || (Z.div_mod_to_equations; lia))
  end.
Ltac lors_to_adds := repeat lor_to_add_step.

Ltac divmod_lia := Z.div_mod_to_equations; lia.

(* the wrap of a fixed-width operation whose value stays below the width *)
Ltac drop_wraps :=
  repeat match goal with
  | |- context [?x mod ?m] =>
      lazymatch m with
      | 18446744073709551616 => idtac | 4294967296 => idtac | 65536 => idtac | 256 => idtac
      end;
      rewrite (Z.mod_small x m) by (Z.div_mod_to_equations; lia)
  end.

(* goals  (expression over bitsf / bitb of literal byte lists) = (shift / mask expression over the same bytes),
   with [byte_ok b] for every byte in the context *)
Ltac bridge :=
  bitsf_bytes;
  repeat match goal with |- context [Z.of_nat ?n] => let k := eval compute in (Z.of_nat n) in change (Z.of_nat n) with k end;
  unfold byte_ok in *;
  land_to_mod; shifts_to_arith; drop_wraps; lors_to_adds; divmod_lia.

(* ---------- the eight single-bit masks of a flag byte ---------- *)

Lemma flag128 b : byte_ok b -> (Z.land b 128 >? 0) = bitb [b] 0.
Proof. revert b. apply byte_sweep_bool. vm_compute. reflexivity. Qed.
Lemma flag64 b : byte_ok b -> (Z.land b 64 >? 0) = bitb [b] 1.
Proof. revert b. apply byte_sweep_bool. vm_compute. reflexivity. Qed.
Lemma flag32 b : byte_ok b -> (Z.land b 32 >? 0) = bitb [b] 2.
Proof. revert b. apply byte_sweep_bool. vm_compute. reflexivity. Qed.
Lemma flag16 b : byte_ok b -> (Z.land b 16 >? 0) = bitb [b] 3.
Proof. revert b. apply byte_sweep_bool. vm_compute. reflexivity. Qed.
Lemma flag8 b : byte_ok b -> (Z.land b 8 >? 0) = bitb [b] 4.
Proof. revert b. apply byte_sweep_bool. vm_compute. reflexivity. Qed.
Lemma flag4 b : byte_ok b -> (Z.land b 4 >? 0) = bitb [b] 5.
Proof. revert b. apply byte_sweep_bool. vm_compute. reflexivity. Qed.
Lemma flag2 b : byte_ok b -> (Z.land b 2 >? 0) = bitb [b] 6.
Proof. revert b. apply byte_sweep_bool. vm_compute. reflexivity. Qed.
Lemma flag1 b : byte_ok b -> (Z.land b 1 >? 0) = bitb [b] 7.
Proof. revert b. apply byte_sweep_bool. vm_compute. reflexivity. Qed.

Ltac flags b H := rewrite ?(flag128 b H), ?(flag64 b H), ?(flag32 b H), ?(flag16 b H), ?(flag8 b H), ?(flag4 b H), ?(flag2 b H), ?(flag1 b H).


(* ---------- other single-byte fields ---------- *)

Lemma byte_shr6 b : byte_ok b -> Z.shiftr b 6 = bitsf [b] 0 2.
Proof. revert b. apply byte_sweep_Z. vm_compute. reflexivity. Qed.
Lemma byte_shr6_and3 b : byte_ok b -> Z.land (Z.shiftr b 6) 3 = bitsf [b] 0 2.
Proof. revert b. apply byte_sweep_Z. vm_compute. reflexivity. Qed.
Lemma byte_shr4_and3 b : byte_ok b -> Z.land (Z.shiftr b 4) 3 = bitsf [b] 2 2.
Proof. revert b. apply byte_sweep_Z. vm_compute. reflexivity. Qed.
Lemma byte_and127 b : byte_ok b -> Z.land b 127 = bitsf [b] 1 7.
Proof. revert b. apply byte_sweep_Z. vm_compute. reflexivity. Qed.

(* decidable form of bytes_ok, for concrete byte strings *)
Definition bytes_okb (bs : list Z) : bool := forallb (fun b => (0 <=? b) && (b <? 256)) bs.
Lemma bytes_okb_ok bs : bytes_okb bs = true -> bytes_ok bs.
Proof.
  unfold bytes_okb. intros H. apply Forall_forall. intros x Hx.
  rewrite forallb_forall in H. specialize (H x Hx). unfold byte_ok. lia.
Qed.
