(* The packets of one WriteData (for the composed round-trip theorem C01): shape of the unit WriteData emits, as ghost
   Packet records; their serialisation is C05_packets_are_bytes / step_part_tied. *)
From Coq Require Import ZArith List Lia Bool ZifyBool.
Require Import Base.Bits Base.Iter Base.Wr Gen.Consts Gen.Types Gen.Preds
  Model.Clock Model.Packet Model.Pes Model.Desc Model.Psi Model.Muxer Spec.MuxSpec Proofs.MuxerProofs.
Import ListNotations.
Open Scope Z_scope.

(* ---------------- vocabulary ---------------- *)

Definition pkt_pusi (q : Packet) : bool := PacketHeader_PayloadUnitStartIndicator (Packet_Header q).
Definition pkt_has_af (q : Packet) : bool := PacketHeader_HasAdaptationField (Packet_Header q).

(* header fields WriteData never sets *)
Definition hdr_plain (pid : Z) (q : Packet) : Prop :=
  pkt_pid q = pid /\ PacketHeader_TransportErrorIndicator (Packet_Header q) = false /\
  PacketHeader_TransportPriority (Packet_Header q) = false /\ PacketHeader_TransportScramblingControl (Packet_Header q) = 0 /\
  0 <= PacketHeader_ContinuityCounter (Packet_Header q) < 256.

(* a packet without the caller's adaptation field: none, or pure stuffing *)
Definition tail_ok (q : Packet) : Prop :=
  match Packet_AdaptationField q with
  | None => pkt_has_af q = false
  | Some a => pkt_has_af q = true /\ exists k, 1 <= k /\ a = newStuffingAdaptationField k
  end.
Definition mid_ok (q : Packet) : Prop := Packet_AdaptationField q = None /\ pkt_has_af q = false.

(* the first packet: the caller's adaptation field, possibly with stuffing added *)
Definition first_ok (af : option PacketAdaptationField) (q : Packet) : Prop :=
  match af with
  | None => tail_ok q
  | Some a => pkt_has_af q = true /\
              (Packet_AdaptationField q = Some a \/ exists x, Packet_AdaptationField q = Some (with_stuffing a x))
  end.

Fixpoint all_but_last {A} (P : A -> Prop) (l : list A) : Prop :=
  match l with
  | [] => True
  | x :: r => match r with [] => True | _ => P x /\ all_but_last P r end
  end.

Definition unit_shape (af : option PacketAdaptationField) (pkts : list Packet) : Prop :=
  match pkts with
  | [] => True
  | q1 :: tl => first_ok af q1 /\ Forall tail_ok tl /\ all_but_last mid_ok tl /\ (af = None -> tl <> [] -> mid_ok q1)
  end.

(* the bytes of the PES header writePESHeader produces *)
Definition pes_header_bytes (h : PESHeader) (payloadSize : Z) : list Z :=
  match enc_pes_header h payloadSize with Ok (its, _) => bytes_of_items its | _ => [] end.

(* ---------------- small facts ---------------- *)

Lemma bytes_of_items_wbytes bs : bytes_of_items [WBytes bs] = bs.
Proof. unfold bytes_of_items, chunks_of, run_items. cbn. destruct bs; cbn; [reflexivity|]. rewrite app_nil_r. reflexivity. Qed.

Lemma tail_ok_no_discontinuity q a : tail_ok q -> Packet_AdaptationField q = Some a ->
  PacketAdaptationField_DiscontinuityIndicator a = false /\ PacketAdaptationField_RandomAccessIndicator a = false /\
  PacketAdaptationField_HasPCR a = false.
Proof.
  unfold tail_ok. intros H E. rewrite E in H. destruct H as (_ & k & _ & ->).
  unfold newStuffingAdaptationField. destruct (k =? 1); repeat split; reflexivity.
Qed.

(* a PES header that does not fit an empty packet: the loop never finishes *)
Lemma wd_loop_diverges fuel : forall pid h cc b0 left,
  (C_MpegTsPacketSize - (1 + C_mpegTsPacketHeaderSize + 0) <? C_pesHeaderLength + calcPESOptionalHeaderLength (PESHeader_OptionalHeader h)) = true ->
  pa_res (lo_part (wd_loop fuel pid h cc None true (b0 :: left))) <> Ok tt.
Proof.
  induction fuel as [|fuel IH]; intros pid h cc b0 left Hbig; cbn [wd_loop]; [cbn; discriminate|].
  rewrite Hbig. cbn [andb].
  match goal with |- context [emit_packet ?p] => destruct (po_res (emit_packet p)) end; cbn [lo_cons lo_stop lo_part pa_res]; try discriminate.
  apply IH, Hbig.
Qed.

(* ---------------- the loop ---------------- *)

Record unit_facts (pid : Z) (h : PESHeader) (af : option PacketAdaptationField) (ps : bool)
       (left : list Z) (pkts : list Packet) : Prop := {
  uf_hdr : Forall (hdr_plain pid) pkts;
  uf_nopayload : Forall (fun q => pkt_has_payload q = false -> pkt_pusi q = false /\ Packet_Payload q = []) pkts;
  uf_pusi : left <> [] -> exists p1 rest, filter pkt_has_payload pkts = p1 :: rest /\ pkt_pusi p1 = ps /\
                                          Forall (fun q => pkt_pusi q = false) rest;
  uf_empty : left = [] -> pkts = [];
  uf_payload : left <> [] -> concat (map Packet_Payload (filter pkt_has_payload pkts)) =
               (if ps then pes_header_bytes h (Z.of_nat (length left)) else []) ++ left;
  uf_shape : unit_shape af pkts;
  uf_all_payload : (ps && (C_MpegTsPacketSize - (1 + C_mpegTsPacketHeaderSize + af_size_opt af) <?
                           C_pesHeaderLength + calcPESOptionalHeaderLength (PESHeader_OptionalHeader h))) = false ->
                   Forall (fun q => pkt_has_payload q = true) pkts
}.

Lemma unit_facts_nil pid h af ps : unit_facts pid h af ps [] [].
Proof. constructor; try constructor; try congruence; try tauto; exact I. Qed.

Lemma write_pes_data_items h left ps avail its ntot np : write_pes_data h left ps avail = Ok (its, ntot, np) ->
  exists hi, its = hi ++ [WBytes (firstn (Z.to_nat np) left)] /\ (exists n, ibz hi = 8 * n) /\
             bytes_of_items hi = (if ps then pes_header_bytes h (Z.of_nat (length left)) else []).
Proof.
  unfold write_pes_data, pes_header_bytes. destruct ps.
  - destruct (enc_pes_header h (Z.of_nat (length left))) as [[hi n]| |] eqn:E; cbn [res_bind]; try discriminate.
    destruct (enc_pes_header_bits _ _ _ _ E) as [Hb _].
    destruct (_ <? 0); [discriminate|]. intros H. apply ok_inj in H. inversion H; subst.
    exists hi. split; [reflexivity|]. split; [exists n; exact Hb|reflexivity].
  - cbn [res_bind]. destruct (_ <? 0); [discriminate|]. intros H. apply ok_inj in H. inversion H; subst.
    exists []. split; [reflexivity|]. split; [exists 0; reflexivity|reflexivity].
Qed.

Lemma shape_tail pkts : unit_shape None pkts -> Forall tail_ok pkts /\ all_but_last mid_ok pkts.
Proof.
  destruct pkts as [|q1 tl]; [split; [constructor|exact I]|]. cbn [unit_shape first_ok].
  intros (H1 & H2 & H3 & H4). split; [constructor; assumption|].
  cbn [all_but_last]. destruct tl as [|q2 tl']; [exact I|]. split; [apply H4; [reflexivity|discriminate]|exact H3].
Qed.

Lemma wd_loop_unit fuel : forall pid h cc af ps left,
  pa_res (lo_part (wd_loop fuel pid h cc af ps left)) = Ok tt ->
  unit_facts pid h af ps left (pa_pkts (lo_part (wd_loop fuel pid h cc af ps left))).
Proof.
  induction fuel as [|fuel IH]; intros pid h cc af ps left Hok.
  - destruct left; cbn [wd_loop lo_stop lo_part pa_res pa_pkts] in *; [apply unit_facts_nil|discriminate].
  - destruct left as [|b0 left']; [apply unit_facts_nil|]. cbn [wd_loop] in *. set (left := b0 :: left') in *.
    change (match af with Some a => packetAdaptationFieldSize a | None => 0 end) with (af_size_opt af) in *.
    set (avail := C_MpegTsPacketSize - (1 + C_mpegTsPacketHeaderSize + af_size_opt af)) in *.
    destruct (ps && (avail <? C_pesHeaderLength + calcPESOptionalHeaderLength (PESHeader_OptionalHeader h))) eqn:Ebranch.
    + (* adaptation field only *)
      apply andb_true_iff in Ebranch. destruct Ebranch as [Eps Ebig]. subst ps.
      match type of Hok with context [emit_packet ?p] => set (q := p) in *; pose proof (emit_packet_tied q) as W; destruct (po_res (emit_packet q)) end;
        cbn [lo_cons lo_stop lo_part pa_res pa_pkts] in *; try discriminate.
      destruct W as (Wp & _ & _). rewrite Wp. cbn [app].
      destruct af as [af0|]; [|exfalso; revert Hok; apply wd_loop_diverges; exact Ebig].
      specialize (IH pid h cc None true left Hok). destruct IH as [I1 I2 I3 I4 I5 I6 I7].
      destruct (shape_tail _ I6) as [T1 T2].
      constructor.
      * constructor; [|exact I1]. unfold hdr_plain, pkt_pid, q. cbn. repeat split; try reflexivity; apply Z.mod_pos_bound; lia.
      * constructor; [|exact I2]. intros _. split; reflexivity.
      * intros Hne. cbn [filter]. change (pkt_has_payload q) with false. cbn iota. apply I3, Hne.
      * intros Hne. discriminate.
      * intros Hne. cbn [filter]. change (pkt_has_payload q) with false. cbn iota. apply I5, Hne.
      * cbn [unit_shape first_ok]. split; [split; [reflexivity|right; eexists; reflexivity]|]. split; [exact T1|]. split; [exact T2|]. intros Hx; discriminate.
      * intros Hx. cbn [andb] in Hx. subst avail. cbn [af_size_opt] in *. congruence.
    + (* payload packet *)
      destruct (write_pes_data h left ps avail) as [[[items ntot] npayload]|c|] eqn:Ew;
        [|cbn [lo_stop lo_part pa_res] in Hok; discriminate|cbn [lo_stop lo_part pa_res] in Hok; discriminate].
      destruct (write_pes_data_ok _ _ _ _ _ _ _ Ew) as (Hbits & Hnp & Hnt & _ & _ & Hfull).
      destruct (write_pes_data_items _ _ _ _ _ _ _ Ew) as (hi & Hits & (nh & Hhi) & Hhb).
      match type of Hok with context [emit_packet ?p] => set (q := p) in *; pose proof (emit_packet_tied q) as W; destruct (po_res (emit_packet q)) end;
        cbn [lo_cons lo_stop lo_part pa_res pa_pkts] in *; try discriminate.
      destruct W as (Wp & _ & _). rewrite Wp. cbn [app].
      specialize (IH pid h (wrappingCounter_inc_st cc) None false (skipn (Z.to_nat npayload) left) Hok).
      destruct IH as [I1 I2 I3 I4 I5 I6 I7]. destruct (shape_tail _ I6) as [T1 T2].
      set (rec := pa_pkts (lo_part (wd_loop fuel pid h (wrappingCounter_inc_st cc) None false (skipn (Z.to_nat npayload) left)))) in *.
      assert (Hqpl : Packet_Payload q = (if ps then pes_header_bytes h (Z.of_nat (length left)) else []) ++ firstn (Z.to_nat npayload) left).
      { unfold q. cbn [Packet_Payload]. rewrite Hits, (bytes_of_items_app hi _ nh Hhi), bytes_of_items_wbytes, Hhb. reflexivity. }
      assert (Hrec_nil : skipn (Z.to_nat npayload) left = [] -> rec = []) by exact I4.
      constructor.
      * constructor; [|exact I1]. unfold hdr_plain, pkt_pid, q. cbn. repeat split; try reflexivity; apply Z.mod_pos_bound; lia.
      * constructor; [|exact I2]. unfold q, pkt_has_payload. cbn. discriminate.
      * intros _. cbn [filter]. change (pkt_has_payload q) with true. cbn iota. exists q, (filter pkt_has_payload rec).
        split; [reflexivity|]. split; [reflexivity|].
        destruct (skipn (Z.to_nat npayload) left) as [|x xs] eqn:Esk.
        -- rewrite (Hrec_nil eq_refl). constructor.
        -- destruct (I3 ltac:(discriminate)) as (p1 & rest & -> & Hp1 & Hrest). constructor; assumption.
      * intros Hx. subst left. discriminate.
      * intros _. cbn [filter]. change (pkt_has_payload q) with true. cbn iota. cbn [map concat]. rewrite Hqpl, <- app_assoc. f_equal.
        destruct (skipn (Z.to_nat npayload) left) as [|x xs] eqn:Esk.
        -- rewrite (Hrec_nil eq_refl). cbn [filter map concat]. rewrite app_nil_r.
           rewrite <- (firstn_skipn (Z.to_nat npayload) left) at 2. rewrite Esk, app_nil_r. reflexivity.
        -- rewrite (I5 ltac:(discriminate)). cbn [app]. rewrite <- Esk. apply firstn_skipn.
      * cbn [unit_shape]. split; [|split; [exact T1|split; [exact T2|]]].
        -- unfold q. destruct af as [af0|]; cbn [first_ok tail_ok Packet_AdaptationField pkt_has_af Packet_Header mk_header PacketHeader_HasAdaptationField stuffed orb].
           ++ split; [reflexivity|]. destruct (avail - ntot >? 0); [right; eexists; reflexivity|left; reflexivity].
           ++ destruct (avail - ntot >? 0) eqn:Er; cbn [orb]; [|reflexivity]. split; [reflexivity|]. exists (avail - ntot). split; [lia|reflexivity].
        -- intros -> Hne. assert (Hsk : skipn (Z.to_nat npayload) left <> []) by (intros E; apply Hne, Hrec_nil, E).
           assert (Hlt : npayload < Z.of_nat (length left)).
           { destruct (Z.lt_ge_cases npayload (Z.of_nat (length left))) as [Hl|Hg]; [exact Hl|]. exfalso. apply Hsk. apply skipn_all2. lia. }
           assert (Hrest0 : avail - ntot = 0) by (destruct Hfull; lia).
           unfold mid_ok, q. cbn [Packet_AdaptationField pkt_has_af Packet_Header mk_header PacketHeader_HasAdaptationField orb].
           rewrite Hrest0. cbn. split; reflexivity.
      * intros _. constructor; [reflexivity|]. apply I7. reflexivity.
Qed.

(* ---------------- one WriteData ---------------- *)

Lemma payload_ccs_same_pid pid pkts : Forall (fun q => pkt_pid q = pid) pkts ->
  payload_ccs pid pkts = map pkt_cc (filter pkt_has_payload pkts).
Proof.
  unfold payload_ccs. induction 1 as [|q l Hq _ IH]; [reflexivity|]. cbn [filter]. rewrite Hq, Z.eqb_refl, andb_true_r.
  destruct (pkt_has_payload q); cbn [map]; rewrite IH; reflexivity.
Qed.

Lemma ccs_from_length c k : length (ccs_from c k) = k.
Proof. revert c. induction k as [|k IH]; intros c; [reflexivity|]. cbn [ccs_from length]. rewrite IH. reflexivity. Qed.

(* The packets a successful WriteData emits on an added PID, for data = d.PES.Data <> [] and h = the header with its
   stream id filled in:  the table pair if it was due, then the unit:
     - every packet on d.PID with transport_error / priority / scrambling clear (uf_hdr);
     - the payload-carrying packets p1 .. pn: payload_unit_start only on p1 (uf_pusi), counters the next n values of the
       stream's counter, which ends n steps further; their payloads concatenate to the PES header bytes followed by the
       data (uf_payload);
     - packets without payload (only when the first-packet adaptation field leaves no room for the PES header:
       uf_all_payload) carry no payload_unit_start and an empty payload (uf_nopayload);
     - the first packet carries the caller's adaptation field, possibly with stuffing added; the others none, except
       pure stuffing (newStuffingAdaptationField) on the last (uf_shape);
     - the groups of Write calls are the serialisations of these packets, in order. *)
Theorem write_data_unit s d s' p ctx pes h0 :
  ms_inv s -> af_entry_ok (MuxerData_AdaptationField d) ->
  es_find (MuxerData_PID d) (ms_es s) = Some ctx -> MuxerData_PES d = Some pes -> PESData_Header pes = Some h0 ->
  PESData_Data pes <> [] -> write_data s d = (s', p) -> pa_res p = Ok tt ->
  let pid := MuxerData_PID d in
  let h := filled_header h0 (ec_es ctx) in
  exists sr tables unit,
    pa_pkts p = tables ++ unit /\ tables_effect s sr tables /\
    (tables = [] \/ starts_with_tables tables = true) /\
    unit_facts pid h (MuxerData_AdaptationField d) true (PESData_Data pes) unit /\
    (let n := length (filter pkt_has_payload unit) in
     map pkt_cc (filter pkt_has_payload unit) = ccs_from (ec_cc ctx) n /\
     es_cc pid s' = Some (iter_inc n (ec_cc ctx))) /\
    map (@concat Z) (pa_groups p) = map pkt_bytes (pa_pkts p).
Proof.
  intros Hinv Haf Hfind Hpes Hhdr Hdata Hwd Hok pid h. subst pid. set (pid := MuxerData_PID d) in *.
  pose proof (step_part_tied s (MWriteData d)) as [Htied _]. cbn [mux_step_part] in Htied. rewrite Hwd in Htied. cbn [snd] in Htied.
  unfold write_data in Hwd. fold pid in Hwd. rewrite Hfind in Hwd.
  change (af_rai (MuxerData_AdaptationField d) && (pid =? ms_pcr_pid s)) with (data_forced s d) in Hwd.
  destruct (retransmit_tables s (data_forced s d)) as [sr pt] eqn:Ert.
  destruct pt as [rt nt gt pkt]. destruct rt as [u|c|]; [|pinj Hwd; cbn in Hok; discriminate|pinj Hwd; cbn in Hok; discriminate].
  destruct u. rewrite Hpes in Hwd. destruct (PESData_Data pes) as [|b0 data'] eqn:Edata; [congruence|]. rewrite Hhdr in Hwd.
  pinj Hwd. fold h in Hok, Htied |- *.
  set (r := wd_loop (length (b0 :: data') + 3) pid h (ec_cc ctx) (MuxerData_AdaptationField d) true (b0 :: data')) in *.
  rewrite part_app_res in Hok.
  assert (Hpt : pa_res (mk_part (Ok tt) nt gt pkt) <> Panic) by (cbn; congruence).
  pose proof (retransmit_effect _ _ _ _ Ert Hpt) as Heff. cbn [pa_pkts] in Heff.
  assert (Hnp : pa_res (lo_part r) <> Panic) by (rewrite Hok; discriminate).
  destruct (wd_loop_spec (length (b0 :: data') + 3) pid h (ec_cc ctx) (MuxerData_AdaptationField d) true (b0 :: data')
              (inv_es_wf _ Hinv _ _ Hfind) Haf Hnp) as (k & Hk1 & Hk2 & Hk3). fold r in Hk1, Hk2, Hk3.
  pose proof (wd_loop_unit _ pid h (ec_cc ctx) (MuxerData_AdaptationField d) true (b0 :: data') Hok) as Hunit. fold r in Hunit.
  exists sr, pkt, (pa_pkts (lo_part r)). cbn [part_app pa_pkts pa_groups].
  split; [reflexivity|]. split; [exact Heff|]. split.
  { destruct Heff as [(-> & _)|(ppay & mpay & -> & _)]; [left; reflexivity|right; reflexivity]. }
  split; [exact Hunit|]. split; [|exact Htied].
  rewrite (payload_ccs_same_pid pid _ Hk3) in Hk1.
  assert (Hlen : length (filter pkt_has_payload (pa_pkts (lo_part r))) = k).
  { rewrite <- (map_length pkt_cc), Hk1. apply ccs_from_length. }
  cbn zeta. rewrite Hlen. split; [exact Hk1|].
  unfold es_cc. cbn [set_es ms_es]. rewrite es_find_put, Z.eqb_refl. cbn [option_map ec_cc]. rewrite Hk2. reflexivity.
Qed.

(* ---------------- start code and pointer field ---------------- *)

(* the PES header begins with the start code prefix 00 00 01 *)
Lemma pes_header_start_code h n its k : enc_pes_header h n = Ok (its, k) ->
  exists tail, bytes_of_items its = 0 :: 0 :: 1 :: tail.
Proof.
  unfold enc_pes_header. intros H.
  assert (Hshape : exists rest, its = [WBits 24 1] ++ rest).
  { destruct (hasPESOptionalHeader (PESHeader_StreamID h)).
    - destruct (match PESHeader_OptionalHeader h with Some oh => enc_pes_optional_header oh | None => Ok ([], 0) end) as [[oi m]| |];
        cbn [res_bind] in H; try discriminate. okinj H. eexists; reflexivity.
    - okinj H. eexists; reflexivity. }
  destruct Hshape as [rest ->]. rewrite (bytes_of_items_app [WBits 24 1] rest 3) by reflexivity.
  exists (bytes_of_items rest). reflexivity.
Qed.

(* a table packet's payload begins with pointer_field = 0 *)
Lemma table_payload_pointer sec pay : write_psi_data (psi_of_section sec) = Ok pay -> exists tail, pay = 0 :: tail.
Proof.
  unfold write_psi_data, enc_psi_data, psi_of_section. cbn [PSIData_Sections PSIData_PointerField].
  destruct (enc_psi_sections [sec]) as [ss|c|]; cbn [res_bind res_map]; try discriminate.
  intros H. apply ok_inj in H. subst pay.
  rewrite (bytes_of_items_app [wu8 0] _ 1) by reflexivity. eexists; reflexivity.
Qed.
