(* C01, history level: for every history of AddElementaryStream / RemoveElementaryStream / SetPCRPID / WriteTables /
   WriteData inside the property's domain, demultiplexing what the Muxer wrote yields exactly:
     - for each table emission the PAT and the PMT (listing the streams configured at that moment, with the PCR PID),
     - for each successful WriteData the PES that was written, delivered when the next unit of that PID starts,
     - at end of stream the last PES of every PID, in increasing PID order,
   in this order, nothing else, no error.  The invariant relates the Muxer's state and the data still pending to the
   demuxer's pool and program map after all bytes so far have been consumed. *)
From Coq Require Import ZArith List Lia Bool ZifyBool Sorted.
Require Import Base.Bits Base.Iter Base.Wr Gen.Consts Gen.Types Gen.Preds
  Model.Clock Model.Packet Model.Pes Model.Desc Model.Psi Model.Pool Model.PoolRun Model.Reader Model.Demux Model.DemuxFull Model.Muxer
  Spec.MuxSpec Spec.PesSpec Spec.PacketSpec
  Proofs.MuxerProofs Proofs.MuxerPackets Proofs.PsiParsePmt Proofs.PsiDescLink Proofs.PsiSiLink
  Proofs.PoolProofs Proofs.LossProofs Proofs.DemuxProofs
  Proofs.RoundTripPkt Proofs.RoundTripDemux Proofs.RoundTripUnit Proofs.RoundTripPool Proofs.RoundTripL1
  Proofs.RoundTripTables Proofs.RoundTripMux.
Import ListNotations.
Open Scope Z_scope.

Notation pendl := (list (Z * DemuxerData)).

(* ---------------- small facts ---------------- *)

Lemma pm_mem_add pm x y : pm_mem (pm_add pm x) y = pm_mem pm y || (y =? x).
Proof.
  unfold pm_add. destruct (pm_mem pm x) eqn:E.
  - destruct (y =? x) eqn:E2; [|rewrite orb_false_r; reflexivity]. assert (y = x) by lia. subst. rewrite E. reflexivity.
  - unfold pm_mem. rewrite existsb_app. cbn [existsb]. rewrite orb_false_r. reflexivity.
Qed.

Lemma aset_length (l : pendl) x a : StronglySorted Z.lt (map fst l) ->
  length (aset l x a) = match aget l x with Some _ => length l | None => S (length l) end.
Proof.
  induction l as [|[k b] r IH]; intros Hs; cbn [aset aget length]; [reflexivity|].
  cbn [map fst] in Hs. inversion Hs as [|? ? Hr Hall]; subst.
  destruct (k =? x) eqn:E; [reflexivity|].
  destruct (x <? k) eqn:E2; cbn [length].
  - destruct (aget r x) eqn:Eg; [|reflexivity]. exfalso.
    assert (Hin : In x (map fst r)) by (apply aget_in; congruence).
    pose proof (proj1 (Forall_forall _ _) Hall x Hin). lia.
  - rewrite (IH Hr). destruct (aget r x); reflexivity.
Qed.

Lemma pkts_seen pkts : Forall mux_wf pkts ->
  Forall (buf_ok 188) (map pkt_bytes pkts) /\ Forall2 (fun b p => parse_packet_bytes b = Ok p) (map pkt_bytes pkts) (map obs_pkt pkts).
Proof.
  induction 1 as [|q l Hq _ [IH1 IH2]]; [split; constructor|]. destruct (parse_mux_pkt q Hq) as (Hl & Hb & Hp).
  cbn [map]. split; constructor; try assumption. split; [rewrite Hl; reflexivity|exact Hb].
Qed.

Lemma run_parts_tied ops : forall s, Forall part_tied (snd (mux_run_parts s ops)).
Proof.
  induction ops as [|o r IH]; intros s; [constructor|].
  rewrite mux_run_parts_cons. cbn [snd]. constructor; [apply step_part_tied|apply IH].
Qed.

(* ---------------- what is expected ---------------- *)

Definition tables_out (s : mstate) (pkts : list Packet) : list DemuxerData :=
  match pkts with
  | a :: b :: _ =>
      if starts_with_tables pkts
      then [pat_datum (first_packet_of (obs_pkt a)); pmt_datum (first_packet_of (obs_pkt b)) (ms_streams s) (ms_pcr_pid s)]
      else []
  | _ => []
  end.

Definition unit_filter (x : Z) (q : Packet) : bool := pkt_has_payload q && (pkt_pid q =? x).

(* the PES a successful WriteData will come back as *)
Definition data_out (s : mstate) (d : MuxerData) (pkts : list Packet) : option DemuxerData :=
  match es_find (MuxerData_PID d) (ms_es s), MuxerData_PES d with
  | Some ctx, Some pes =>
      match PESData_Header pes, filter (unit_filter (MuxerData_PID d)) pkts with
      | Some h0, p1 :: _ =>
          Some (pes_datum (MuxerData_PID d) (obs_pkt p1) (filled_header h0 (ec_es ctx)) (PESData_Data pes))
      | _, _ => None
      end
  | _, _ => None
  end.

(* what one call makes the demuxer deliver, and what is pending afterwards *)
Definition step_out (s : mstate) (pend : pendl) (o : mop) (p : part) : list DemuxerData * pendl :=
  let tabs := tables_out s (pa_pkts p) in
  match o with
  | MWriteData d =>
      match data_out s d (pa_pkts p) with
      | Some dat => (tabs ++ match aget pend (MuxerData_PID d) with Some prev => [prev] | None => [] end,
                     aset pend (MuxerData_PID d) dat)
      | None => (tabs, pend)
      end
  | _ => (tabs, pend)
  end.

Fixpoint expect (s : mstate) (pend : pendl) (ops : list mop) : list DemuxerData :=
  match ops with
  | [] => map snd pend
  | o :: r => let '(s', p) := mux_step_part s o in
              let '(out, pend') := step_out s pend o p in out ++ expect s' pend' r
  end.

Lemma es_pid_not_tables y : es_pid y -> y <> C_PIDPAT /\ y <> C_pmtStartPID.
Proof. unfold es_pid, C_PIDPAT. intros [H1 H2]. split; [lia|exact H2]. Qed.

Lemma es_cc_none y s : es_cc y s = None <-> es_find y (ms_es s) = None.
Proof. unfold es_cc. destruct (es_find y (ms_es s)); cbn; split; congruence. Qed.

(* the counter the next payload packet on y will follow: the stream's, or the one a removed stream carries on with *)
Definition next_cc (y : Z) (s : mstate) : option wrappingCounter :=
  match es_cc y s with Some c => Some c | None => rm_cc y s end.

(* a call that emits no payload packet on y leaves the counter y carries on with where it was (removal and
   re-addition included: removedCCs) *)
Lemma next_cc_keep s o s' p y : ms_inv s -> mux_step_part s o = (s', p) -> pa_res p <> Panic -> op_entry_ok o ->
  y <> C_PIDPAT -> y <> C_pmtStartPID -> payload_ccs y (muxer_pkts o p) = [] ->
  next_cc y s <> None -> next_cc y s' = next_cc y s.
Proof.
  intros Hinv Hstep Hnp Hen H1 H2 Hcc Hnn. unfold next_cc in *.
  destruct (es_cc y s) as [c0|] eqn:E0.
  - destruct (step_es_effect s o s' p y c0 Hinv Hstep Hnp Hen H1 H2 E0) as [(_ & _ & Hn & Hr)|(_ & k & Hk & Hs')].
    + rewrite Hn, Hr. reflexivity.
    + rewrite Hcc in Hk. symmetry in Hk. apply ccs_from_nil in Hk. subst k. cbn [iter_inc] in Hs'. rewrite Hs'. reflexivity.
  - destruct (step_es_none s o s' p y Hinv Hstep Hnp Hen H1 H2 E0) as (_ & _ & [(Hn & Hr)|Hs']).
    + rewrite Hn, Hr. reflexivity.
    + rewrite Hs'. destruct (rm_cc y s); [reflexivity|congruence].
Qed.

(* ---------------- small facts about what a call emits ---------------- *)

Lemma unit_filter_same x unit : Forall (fun q => pkt_pid q = x) unit -> filter (unit_filter x) unit = filter pkt_has_payload unit.
Proof.
  induction 1 as [|q l Hq _ IH]; [reflexivity|]. cbn [filter]. unfold unit_filter at 1. rewrite Hq, Z.eqb_refl, andb_true_r, IH. reflexivity.
Qed.

Lemma unit_filter_tables x s sr tables : tables_effect s sr tables -> x <> C_PIDPAT -> x <> C_pmtStartPID ->
  filter (unit_filter x) tables = [].
Proof.
  intros [(-> & _)|(ppay & mpay & -> & _)] H1 H2; [reflexivity|].
  destruct (C_PIDPAT =? x) eqn:E1; [lia|]. destruct (C_pmtStartPID =? x) eqn:E2; [lia|].
  cbn [filter]. unfold unit_filter, pkt_pid, pkt_has_payload.
  cbn [table_packet Packet_Header mk_header PacketHeader_PID PacketHeader_HasPayload]. rewrite E1, E2. reflexivity.
Qed.

Lemma hdr_plain_pid x unit : Forall (hdr_plain x) unit -> Forall (fun q => pkt_pid q = x) unit.
Proof. intros H. eapply Forall_impl; [|exact H]. intros q Hq. apply Hq. Qed.

Lemma tables_out_unit s x unit : Forall (fun q => pkt_pid q = x) unit -> tables_out s unit = [].
Proof.
  intros H. unfold tables_out. destruct unit as [|a [|b r]]; try reflexivity. rewrite (starts_with_tables_unit x _ H). reflexivity.
Qed.

Lemma tables_out_some s pkts a b rest : pkts = a :: b :: rest -> starts_with_tables pkts = true ->
  tables_out s pkts = [pat_datum (first_packet_of (obs_pkt a)); pmt_datum (first_packet_of (obs_pkt b)) (ms_streams s) (ms_pcr_pid s)].
Proof. intros -> H. unfold tables_out. rewrite H. reflexivity. Qed.

Lemma tables_out_len s pkts : (length (tables_out s pkts) <= 2)%nat.
Proof. unfold tables_out. destruct pkts as [|a [|b r]]; cbn [length]; try lia. destruct (starts_with_tables _); cbn [length]; lia. Qed.

Lemma data_out_nil s d : data_out s d [] = None.
Proof.
  unfold data_out. destruct (es_find _ _); [|reflexivity]. destruct (MuxerData_PES d) as [pes|]; [|reflexivity].
  destruct (PESData_Header pes); reflexivity.
Qed.

(* the program map after a table pair *)
Lemma pm_after_tables pm : (forall y, pm_mem pm y = true -> y = C_pmtStartPID) ->
  forall y, pm_mem (pm_add pm C_pmtStartPID) y = true -> y = C_pmtStartPID.
Proof. intros H y. rewrite pm_mem_add. intros Hy. apply orb_true_iff in Hy. destruct Hy as [Hy|Hy]; [apply H, Hy|lia]. Qed.

Lemma payload_ccs_pair y cca ccb pa pb rest : y <> C_PIDPAT -> y <> C_pmtStartPID ->
  payload_ccs y (table_packet C_PIDPAT cca pa :: table_packet C_pmtStartPID ccb pb :: rest) = payload_ccs y rest.
Proof.
  intros H1 H2. destruct (C_PIDPAT =? y) eqn:E1; [lia|]. destruct (C_pmtStartPID =? y) eqn:E2; [lia|].
  unfold payload_ccs. cbn [filter].
  change (pkt_pid (table_packet C_PIDPAT cca pa)) with C_PIDPAT. change (pkt_pid (table_packet C_pmtStartPID ccb pb)) with C_pmtStartPID.
  rewrite E1, E2, !andb_false_r. reflexivity.
Qed.

Section Run.
Variable D : list Descriptor -> list Z -> Prop.
Hypothesis D_parse : desc_premises D.
Hypothesis D_write : forall ds bytes, D ds bytes -> desc_bytes ds bytes.
Hypothesis D_nil : D [] [].
Hypothesis D_size : forall ds bytes, D ds bytes ->
  fold_left (fun k d => k + (2 + calc_descriptor_length d)) ds 0 = Z.of_nat (length bytes).

(* ---------------- the domain ---------------- *)

Definition streams_dom (s : mstate) : Prop :=
  Forall (fun e => stream_in_dom D e /\ es_pid (spid e)) (ms_streams s).

Definition op_ok (s : mstate) (o : mop) (s' : mstate) (p : part) : Prop :=
  pa_res p <> Panic /\ streams_dom s' /\
  match o with
  | MWritePacket _ => False
  | MWriteData d =>
      af_entry_ok (MuxerData_AdaptationField d) /\
      ((pa_res p = Ok tt /\ exists ctx h0 data, data_in_domain s d ctx h0 data) \/ (pa_res p <> Ok tt /\ pa_pkts p = []))
  | _ => True
  end.

Fixpoint history_ok (s : mstate) (ops : list mop) : Prop :=
  match ops with
  | [] => True
  | o :: r => op_ok s o (fst (mux_step_part s o)) (snd (mux_step_part s o)) /\ history_ok (fst (mux_step_part s o)) r
  end.

(* ---------------- the invariant ---------------- *)

Definition pid_ok (s : mstate) (pl : pool) (y : Z) (o : option DemuxerData) : Prop :=
  match o with
  | None => qof pl y = []
  | Some dat =>
      es_pid y /\
      exists q' pe, qof pl y = q' ++ [pe] /\ has_payload pe = true /\ (no_disc_flag pe \/ pusi pe = true) /\
        (forall pm', pm_mem pm' y = false ->
           parse_data full_parsers None pm' (qof pl y) = Ok [dat] /\ pm_after pm' [dat] = pm') /\
        (exists c, next_cc y s = Some c /\ cc_of pe = cc_val c /\ cc_val c <= 15)
  end.

Record inv (s : mstate) (pend : pendl) (pl : pool) (pm : pmap) : Prop := {
  iv_ms : ms_inv s;
  iv_streams : streams_dom s;
  iv_sorted : sorted pl;
  iv_keys : StronglySorted Z.lt (map fst pend);
  iv_pm : forall y, pm_mem pm y = true -> y = C_pmtStartPID;
  iv_tab : qof pl C_PIDPAT = [] /\ qof pl C_pmtStartPID = [];
  iv_pids : forall y, pid_ok s pl y (aget pend y)
}.

Lemma pid_ok_keep s pl s' pl' y o :
  pid_ok s pl y o -> qof pl' y = qof pl y -> (next_cc y s <> None -> next_cc y s' = next_cc y s) -> pid_ok s' pl' y o.
Proof.
  intros H Hq Hc. destruct o as [dat|]; cbn [pid_ok] in *; [|rewrite Hq; exact H].
  destruct H as (Hy & q' & pe & E & Hh & Hd & Hp & c & Hl & Hl'). split; [exact Hy|]. exists q', pe. rewrite Hq.
  split; [exact E|]. split; [exact Hh|]. split; [exact Hd|]. split; [exact Hp|].
  exists c. split; [rewrite Hc; [exact Hl|congruence]|exact Hl'].
Qed.

(* ---------------- the tables through the pool ---------------- *)

Lemma feed_tables pl pm cca ccb va vb pcr xs ia ib :
  sorted pl -> qof pl C_PIDPAT = [] -> qof pl C_pmtStartPID = [] ->
  0 <= va < 32 -> 0 <= vb < 32 -> 0 <= pcr < 2 ^ 13 -> Forall (stream_ok D) xs ->
  9 + Z.of_nat (length (flat_map stream_bytes xs)) + 4 < 4096 ->
  let a := table_packet C_PIDPAT cca (0 :: pat_sec va) in
  let b := table_packet C_pmtStartPID ccb (0 :: pmt_sec pcr vb xs) in
  enc_packet a 188 = Ok ia -> enc_packet b 188 = Ok ib ->
  mux_wf a /\ mux_wf b /\
  exists pl2, sorted pl2 /\ (forall y, qof pl2 y = qof pl y) /\
    forall r, feed full_parsers pl pm (obs_pkt a :: obs_pkt b :: r) =
      match feed full_parsers pl2 (pm_add pm C_pmtStartPID) r with
      | Some (pl3, pm3, out) =>
          Some (pl3, pm3, [pat_datum (first_packet_of (obs_pkt a)); pmt_datum (first_packet_of (obs_pkt b)) (map stream_value xs) pcr] ++ out)
      | None => None
      end.
Proof using D_parse D_nil.
  intros Hs Hq0 Hq1 Hva Hvb Hpcr Hxs Hfit a b Ea Eb.
  destruct (pat_packet_demuxed pm cca va ia Hva Ea) as (Wa & Hona & Hca & Hpa & Hpma). fold a in Wa, Hona, Hca, Hpa, Hpma.
  set (pm1 := pm_add pm C_pmtStartPID) in *.
  assert (Hm1 : pm_mem pm1 C_pmtStartPID = true) by (unfold pm1; rewrite pm_mem_add, Z.eqb_refl; apply orb_true_r).
  destruct (pmt_packet_demuxed D D_parse D_nil pm1 ccb pcr vb xs ib Hvb Hpcr Hxs Hfit Hm1 Eb) as (Wb & Honb & Hcb & Hpb & Hpmb).
  fold b in Wb, Honb, Hcb, Hpb, Hpmb.
  split; [exact Wa|]. split; [exact Wb|].
  destruct (feed_table_packet pm pl (obs_pkt a) C_PIDPAT _ Hs Hq0 Hona ltac:(reflexivity) Hca Hpa) as (pl1 & Hs1 & Hq1' & Hf1).
  rewrite Hpma in Hf1. fold pm1 in Hf1.
  destruct (feed_table_packet pm1 pl1 (obs_pkt b) C_pmtStartPID _ Hs1 ltac:(rewrite Hq1'; exact Hq1) Honb
              ltac:(rewrite Hm1; apply orb_true_r) Hcb Hpb) as (pl2 & Hs2 & Hq2' & Hf2).
  rewrite Hpmb in Hf2.
  exists pl2. split; [exact Hs2|]. split; [intros y; rewrite Hq2', Hq1'; reflexivity|].
  intros r. rewrite Hf1, Hf2. destruct (feed full_parsers pl2 pm1 r) as [[[pl3 pm3] out]|]; reflexivity.
Qed.


(* ---------------- calls that emit nothing ---------------- *)

Lemma inv_quiet s pend pl pm o s' p :
  inv s pend pl pm -> mux_step_part s o = (s', p) -> op_ok s o s' p -> op_entry_ok o -> pa_pkts p = [] ->
  inv s' pend pl pm.
Proof using.
  intros [Hms Hst Hso Hk Hpm Htab Hpids] Hstep (Hnp & Hst' & Hop) Hen Hnil.
  constructor; try assumption.
  - apply (step_inv s o s' p Hms Hstep Hnp Hen).
  - intros y. specialize (Hpids y). destruct (aget pend y) as [dat|] eqn:Eg; [|exact Hpids].
    apply (pid_ok_keep s pl s' pl y (Some dat) Hpids eq_refl).
    destruct Hpids as (Hy & _). destruct (es_pid_not_tables y Hy) as [H1 H2].
    apply (next_cc_keep s o s' p y Hms Hstep Hnp Hen H1 H2).
    destruct o; cbn [muxer_pkts]; try reflexivity; rewrite Hnil; reflexivity.
Qed.

(* ---------------- the tables of a call ---------------- *)

(* a successful call whose packets start with PAT;PMT: the pair in the form the demuxer-side lemmas take *)
Lemma tables_seen s pend pl pm o s' p :
  inv s pend pl pm -> mux_step_part s o = (s', p) -> op_entry_ok o -> pa_res p = Ok tt ->
  (match o with MWritePacket _ => False | _ => True end) ->
  starts_with_tables (pa_pkts p) = true ->
  exists xs cca ccb va vb rest,
    map stream_value xs = ms_streams s /\
    pa_pkts p = table_packet C_PIDPAT cca (0 :: pat_sec va) ::
                table_packet C_pmtStartPID ccb (0 :: pmt_sec (ms_pcr_pid s) vb xs) :: rest /\
    mux_wf (table_packet C_PIDPAT cca (0 :: pat_sec va)) /\
    mux_wf (table_packet C_pmtStartPID ccb (0 :: pmt_sec (ms_pcr_pid s) vb xs)) /\
    exists pl2, sorted pl2 /\ (forall y, qof pl2 y = qof pl y) /\
      forall r, feed full_parsers pl pm (obs_pkt (table_packet C_PIDPAT cca (0 :: pat_sec va)) ::
                                         obs_pkt (table_packet C_pmtStartPID ccb (0 :: pmt_sec (ms_pcr_pid s) vb xs)) :: r) =
        match feed full_parsers pl2 (pm_add pm C_pmtStartPID) r with
        | Some (pl3, pm3, out) => Some (pl3, pm3, tables_out s (pa_pkts p) ++ out)
        | None => None
        end.
Proof using D_parse D_write D_nil D_size.
  intros [Hms Hst Hso Hk Hpm [Ht0 Ht1] Hpids] Hstep Hen Hok Hnp Hsw.
  assert (Hnpan : pa_res p <> Panic) by (rewrite Hok; discriminate).
  assert (Hmp : muxer_pkts o p = pa_pkts p) by (destruct o; try reflexivity; contradiction).
  pose proof (step_starts_with_tables s o s' p Hms Hstep Hnpan Hen ltac:(rewrite Hmp; exact Hsw)) as Hem. rewrite Hmp in Hem.
  pose proof (step_tables_size s o s' p Hms Hen Hstep Hok ltac:(rewrite Hmp; exact Hsw)) as Hsize.
  assert (Hdom : Forall (stream_in_dom D) (ms_streams s)) by (eapply Forall_impl; [|exact Hst]; intros e He; apply He).
  destruct (emission_seen D D_write D_nil D_size s s' (pa_pkts p) Hdom Hsize Hem)
    as (xs & cca & ccb & va & vb & rest & Hxs & Hok' & Hfit & Hva & Hvb & Hpcr & Hp).
  pose proof (step_part_tied s o) as [_ Henc]. rewrite Hstep in Henc. cbn [snd] in Henc. rewrite Hp in Henc.
  inversion Henc as [|? ? (ia & Ea) Henc']; subst. inversion Henc' as [|? ? (ib & Eb) _]; subst.
  change C_MpegTsPacketSize with 188 in Ea, Eb.
  destruct (feed_tables pl pm cca ccb va vb (ms_pcr_pid s) xs ia ib Hso Ht0 Ht1 Hva Hvb Hpcr Hok' Hfit Ea Eb)
    as (Wa & Wb & pl2 & Hs2 & Hq2 & Hf).
  exists xs, cca, ccb, va, vb, rest. split; [exact Hxs|]. split; [exact Hp|]. split; [exact Wa|]. split; [exact Wb|].
  exists pl2. split; [exact Hs2|]. split; [exact Hq2|]. intros r. rewrite Hf.
  rewrite (tables_out_some s (pa_pkts p) _ _ rest Hp Hsw), Hxs. reflexivity.
Qed.

(* ---------------- one call ---------------- *)

Theorem step_feed s pend pl pm o s' p :
  inv s pend pl pm -> mux_step_part s o = (s', p) -> op_ok s o s' p ->
  exists pl' pm',
    feed full_parsers pl pm (map obs_pkt (pa_pkts p)) = Some (pl', pm', fst (step_out s pend o p)) /\
    inv s' (snd (step_out s pend o p)) pl' pm' /\
    Forall mux_wf (pa_pkts p) /\
    (length (fst (step_out s pend o p)) + length (snd (step_out s pend o p)) <= length pend + length (pa_pkts p))%nat.
Proof using D_parse D_write D_nil D_size.
  intros Hinv Hstep Hop. pose proof Hop as (Hnp & Hst' & Hcase).
  assert (Hen : op_entry_ok o) by (destruct o; try exact I; apply Hcase).
  assert (Hnwp : match o with MWritePacket _ => False | _ => True end) by (destruct o; try exact I; exact Hcase).
  pose proof Hinv as [Hms Hst Hso Hk Hpm [Ht0 Ht1] Hpids].
  pose proof (step_inv s o s' p Hms Hstep Hnp Hen) as Hms'.
  (* calls that emit nothing *)
  assert (Hquiet : pa_pkts p = [] ->
    exists pl' pm', feed full_parsers pl pm (map obs_pkt (pa_pkts p)) = Some (pl', pm', fst (step_out s pend o p)) /\
      inv s' (snd (step_out s pend o p)) pl' pm' /\ Forall mux_wf (pa_pkts p) /\
      (length (fst (step_out s pend o p)) + length (snd (step_out s pend o p)) <= length pend + length (pa_pkts p))%nat).
  { intros Hnil. assert (Hso' : step_out s pend o p = ([], pend)).
    { unfold step_out. rewrite Hnil. cbn [tables_out]. destruct o; try reflexivity. rewrite data_out_nil. reflexivity. }
    rewrite Hso', Hnil. cbn [map feed fst snd length]. exists pl, pm. split; [reflexivity|].
    split; [apply (inv_quiet s pend pl pm o s' p Hinv Hstep Hop Hen Hnil)|]. split; [constructor|lia]. }
  destruct o as [es|q|q| |d|pk]; try contradiction.
  - (* Add *) apply Hquiet. cbn [mux_step_part] in Hstep. unfold add_es in Hstep.
    destruct (negb _); [destruct (stream_pid_in _ _)|destruct (next_free_pid _ _ _)]; pinj Hstep; reflexivity.
  - (* Remove *) apply Hquiet. cbn [mux_step_part] in Hstep. unfold remove_es in Hstep.
    destruct (stream_pid_in _ _); pinj Hstep; reflexivity.
  - (* SetPCRPID *) apply Hquiet. cbn [mux_step_part] in Hstep. pinj Hstep. reflexivity.
  - (* WriteTables *)
    cbn [mux_step_part] in Hstep.
    destruct (write_tables_spec _ _ _ Hstep Hnp) as [(c & _ & _ & Hp0 & _)|Htok]; [apply Hquiet, Hp0|].
    destruct Htok as (ppay & mpay & bpat & bpmt & Hres & Hpk & _).
    assert (Hsw : starts_with_tables (pa_pkts p) = true) by (rewrite Hpk; reflexivity).
    destruct (tables_seen s pend pl pm MWriteTables s' p Hinv Hstep I Hres I Hsw)
      as (xs & cca & ccb & va & vb & rest & Hxs & Hp & Wa & Wb & pl2 & Hs2 & Hq2 & Hf).
    assert (rest = []) as ->.
    { pose proof (f_equal (@length Packet) Hp) as Hl. rewrite Hpk in Hl. cbn [length] in Hl. destruct rest; [reflexivity|cbn [length] in Hl; lia]. }
    unfold step_out. cbn [fst snd].
    replace (map obs_pkt (pa_pkts p)) with
      (obs_pkt (table_packet C_PIDPAT cca (0 :: pat_sec va)) :: obs_pkt (table_packet C_pmtStartPID ccb (0 :: pmt_sec (ms_pcr_pid s) vb xs)) :: [])
      by (rewrite Hp; reflexivity).
    rewrite Hf. cbn [feed]. rewrite app_nil_r.
    exists pl2, (pm_add pm C_pmtStartPID). split; [reflexivity|]. split; [|split].
    + constructor; try assumption.
      * apply pm_after_tables, Hpm.
      * rewrite !Hq2. split; assumption.
      * intros y. specialize (Hpids y). destruct (aget pend y) as [dat|] eqn:Eg; [|cbn [pid_ok] in *; rewrite Hq2; exact Hpids].
        apply (pid_ok_keep s pl s' pl2 y (Some dat) Hpids (Hq2 y)).
        destruct Hpids as (Hy & _). destruct (es_pid_not_tables y Hy) as [H1 H2].
        apply (next_cc_keep s MWriteTables s' p y Hms Hstep Hnp I H1 H2).
        cbn [muxer_pkts]. rewrite Hp, payload_ccs_pair by assumption. reflexivity.
    + rewrite Hp. constructor; [exact Wa|constructor; [exact Wb|constructor]].
    + rewrite (tables_out_some s (pa_pkts p) _ _ [] Hp Hsw), Hp. cbn [length]. lia.
  - (* WriteData *)
    destruct Hcase as (Haf & [(Hres & ctx & h0 & data & Hdom)|(_ & Hp0)]); [|apply Hquiet, Hp0].
    cbn [mux_step_part] in Hstep.
    destruct (write_data_unit_ok s d s' p ctx h0 data Hms Hdom Hstep Hres)
      as (sr & tables & unit & Hpk & Heff & Htab & Huf & (Hccs & Hcc') & _ & Hpok).
    pose proof Hdom as [Hxpid _ _ Hfind (pes & Hpes & Hhdr & Hdat) [Hne Hbytes] Hwh].
    set (x := MuxerData_PID d) in *. set (h := filled_header h0 (ec_es ctx)) in *. set (c0 := ec_cc ctx) in *.
    destruct (es_pid_not_tables x Hxpid) as [Hx0 Hx1].
    destruct (unit_is_seen x h _ data c0 unit Hne Huf Hpok Hccs) as (p1 & rest & [U1 U2 U3 U4 U5 [U6 U6'] U7 U8 U9]).
    pose proof (hdr_plain_pid x unit (uf_hdr _ _ _ _ _ _ Huf)) as Hupid.
    set (dat := pes_datum x (obs_pkt p1) h data).
    assert (Hdo : data_out s d (pa_pkts p) = Some dat).
    { unfold data_out. fold x. rewrite Hfind, Hpes, Hhdr, Hpk, filter_app, (unit_filter_tables x s sr tables Heff Hx0 Hx1).
      cbn [app]. rewrite (unit_filter_same x unit Hupid), U1, Hdat. reflexivity. }
    assert (Hcwf : cc_wf c0) by (apply (inv_es_wf _ Hms _ _ Hfind)).
    (* the unit through a pool pl0 that agrees with pl, under a program map that does not hold x *)
    assert (Hunit : forall pl0 pm0, sorted pl0 -> (forall y, qof pl0 y = qof pl y) -> (forall y, pm_mem pm0 y = true -> y = C_pmtStartPID) ->
      exists pl', feed full_parsers pl0 pm0 (map obs_pkt unit) =
                  Some (pl', pm0, match aget pend x with Some prev => [prev] | None => [] end) /\
                  sorted pl' /\ qof pl' x = obs_pkt p1 :: map obs_pkt rest /\ (forall y, y <> x -> qof pl' y = qof pl y)).
    { intros pl0 pm0 Hs0 Hq0 Hpm0.
      assert (Hpmx : pm_mem pm0 x = false) by (destruct (pm_mem pm0 x) eqn:E; [apply Hpm0 in E; congruence|reflexivity]).
      destruct (es_pid_not_psi x pm0 Hxpid Hpmx) as (_ & _ & Hnpsi).
      rewrite (feed_filter_payload full_parsers _ _ _ U4), U5.
      assert (Hpend : pending_ok full_parsers pm0 x c0 (qof pl0 x) (match aget pend x with Some prev => [prev] | None => [] end)).
      { specialize (Hpids x). rewrite Hq0. destruct (aget pend x) as [prev|]; cbn [pid_ok] in Hpids.
        - right. destruct Hpids as (_ & q' & pe & Hq & Hh & Hd & Hp & c & Hl & Hl1 & Hl2).
          assert (c = c0) as ->.
          { unfold next_cc, es_cc in Hl. fold x in Hfind. rewrite Hfind in Hl. cbn [option_map] in Hl. injection Hl as <-. reflexivity. }
          destruct (Hp pm0 Hpmx) as [Hp1 Hp2].
          exists q', pe. repeat split; assumption.
        - left. split; [exact Hpids|reflexivity]. }
      destruct (feed_unit_payload full_parsers x pm0 (obs_pkt p1) (map obs_pkt rest) pl0 c0 _ Hnpsi Hs0 U6 U6' U7 U8 Hcwf Hpend)
        as (pl' & Hf & Hs' & Hq' & Hfr').
      exists pl'. split; [exact Hf|]. split; [exact Hs'|]. split; [exact Hq'|]. intros y Hy. rewrite (Hfr' y Hy). apply Hq0. }
    (* the invariant afterwards, for a pool pl' as above *)
    assert (Hinv' : forall pl' pm', sorted pl' -> qof pl' x = obs_pkt p1 :: map obs_pkt rest -> (forall y, y <> x -> qof pl' y = qof pl y) ->
      (forall y, pm_mem pm' y = true -> y = C_pmtStartPID) -> inv s' (aset pend x dat) pl' pm').
    { intros pl' pm' Hs' Hq' Hfr' Hpm'. constructor; try assumption.
      - apply aset_sorted, Hk.
      - rewrite !Hfr' by congruence. split; assumption.
      - intros y. destruct (Z.eq_dec y x) as [->|Hy].
        + rewrite aget_aset_same. cbn [pid_ok]. split; [exact Hxpid|].
          destruct (exists_last (l := obs_pkt p1 :: map obs_pkt rest) ltac:(discriminate)) as (q' & pe & Hlast).
          exists q', pe. rewrite Hq'. split; [exact Hlast|].
          assert (Hpe : In pe (obs_pkt p1 :: map obs_pkt rest)) by (rewrite Hlast; apply in_or_app; right; left; reflexivity).
          assert (Hpe' : has_payload pe = true /\ (no_disc_flag pe \/ pusi pe = true)).
          { destruct Hpe as [<-|Hin]; [split; [apply U6|right; exact U6']|].
            pose proof (proj1 (Forall_forall _ _) U7 pe Hin) as ((_ & _ & Hh) & _ & Hnd). split; [exact Hh|left; exact Hnd]. }
          split; [apply Hpe'|]. split; [apply Hpe'|]. split.
          * intros pm0 Hpm0.
            apply (parse_unit_group x pm0 (obs_pkt p1) (map obs_pkt rest) h data Hxpid Hpm0 (proj1 U6) Hwh Hbytes U9).
          * cbn zeta in Hcc'. fold x in Hcc'. rewrite U1 in *. cbn [length] in *.
            exists (iter_inc (S (length rest)) c0). split; [unfold next_cc; rewrite Hcc'; reflexivity|].
            assert (Hl : last (map cc_of (obs_pkt p1 :: map obs_pkt rest)) 0 = cc_of pe).
            { rewrite Hlast, map_app. cbn [map]. apply last_app_single. }
            rewrite U8 in Hl. rewrite map_length in Hl. rewrite last_ccs_from in Hl by discriminate.
            split; [symmetry; exact Hl|]. apply (iter_inc_range (S (length rest)) c0 Hcwf). discriminate.
        + rewrite (aget_aset_other pend x dat y Hy). specialize (Hpids y).
          destruct (aget pend y) as [dy|] eqn:Eg; [|cbn [pid_ok] in *; rewrite (Hfr' y Hy); exact Hpids].
          apply (pid_ok_keep s pl s' pl' y (Some dy) Hpids (Hfr' y Hy)).
          destruct Hpids as (Hyp & _). destruct (es_pid_not_tables y Hyp) as [H1 H2].
          apply (next_cc_keep s (MWriteData d) s' p y Hms Hstep Hnp Haf H1 H2).
          cbn [muxer_pkts]. rewrite Hpk, payload_ccs_app.
          rewrite (tables_effect_other s sr tables y Heff (inv_pat_wf _ Hms) (inv_pmt_wf _ Hms) H1 H2).
          cbn [app]. apply (payload_ccs_other y x unit Hupid Hy). }
    assert (Hunit_wf : Forall mux_wf unit) by (eapply Forall_impl; [|exact Hpok]; intros q Hq; apply Hq).
    assert (Hunit_len : (1 <= length unit)%nat).
    { destruct unit; [discriminate U1|cbn; lia]. }
    assert (Hpl : (length (aset pend x dat) + length (match aget pend x with Some prev => [prev] | None => @nil DemuxerData end) = S (length pend))%nat).
    { rewrite (aset_length pend x dat Hk). destruct (aget pend x); cbn [length]; lia. }
    unfold step_out. rewrite Hdo. cbn [fst snd]. fold x.
    destruct Htab as [->|Hsw].
    + (* no tables in this call *)
      cbn [app] in Hpk. rewrite Hpk, (tables_out_unit s x unit Hupid). cbn [app].
      destruct (Hunit pl pm Hso (fun y => eq_refl) Hpm) as (pl' & Hf & Hs' & Hq' & Hfr').
      exists pl', pm. split; [exact Hf|]. split; [apply Hinv'; assumption|]. split; [exact Hunit_wf|]. lia.
    + (* the tables first *)
      assert (Hsw' : starts_with_tables (pa_pkts p) = true).
      { rewrite Hpk. destruct Heff as [(-> & _)|(ppay & mpay & -> & _)]; [discriminate Hsw|reflexivity]. }
      destruct (tables_seen s pend pl pm (MWriteData d) s' p Hinv Hstep Haf Hres I Hsw')
        as (xs & cca & ccb & va & vb & rest' & Hxs & Hp & Wa & Wb & pl2 & Hs2 & Hq2 & Hf).
      assert (Hrest' : rest' = unit /\ length tables = 2%nat).
      { destruct Heff as [(-> & _)|(ppay & mpay & -> & _)]; [discriminate Hsw|]. rewrite Hpk in Hp. cbn [app] in Hp.
        split; [|reflexivity]. injection Hp as _. assumption || (symmetry; assumption) || idtac. }
      destruct Hrest' as [-> Htl].
      replace (map obs_pkt (pa_pkts p)) with
        (obs_pkt (table_packet C_PIDPAT cca (0 :: pat_sec va)) :: obs_pkt (table_packet C_pmtStartPID ccb (0 :: pmt_sec (ms_pcr_pid s) vb xs)) :: map obs_pkt unit)
        by (rewrite Hp; reflexivity).
      rewrite Hf.
      destruct (Hunit pl2 (pm_add pm C_pmtStartPID) Hs2 Hq2 (pm_after_tables pm Hpm)) as (pl' & Hfu & Hs' & Hq' & Hfr').
      rewrite Hfu.
      exists pl', (pm_add pm C_pmtStartPID). split; [reflexivity|]. split; [apply Hinv'; try assumption; apply pm_after_tables, Hpm|].
      split; [rewrite Hp; constructor; [exact Wa|constructor; [exact Wb|exact Hunit_wf]]|].
      rewrite app_length. pose proof (tables_out_len s (pa_pkts p)) as Htol.
      assert (Hlp : length (pa_pkts p) = (2 + length unit)%nat) by (rewrite Hpk, app_length, Htl; reflexivity). lia.
Qed.


(* ---------------- end of stream ---------------- *)

Lemma drain_pending s pend pl pm : inv s pend pl pm -> drain_data full_parsers pm pl = Some (map snd pend).
Proof using.
  intros [Hms Hst Hso Hk Hpm Htab Hpids].
  set (D' := fun y => match aget pend y with Some d => [d] | None => [] end).
  assert (Hmem : forall y, qof pl y <> [] <-> aget pend y <> None).
  { intros y. specialize (Hpids y). destruct (aget pend y) as [dat|]; cbn [pid_ok] in Hpids.
    - destruct Hpids as (_ & q' & pe & -> & _). split; [discriminate|]. intros _. destruct q'; discriminate.
    - rewrite Hpids. split; congruence. }
  rewrite (drain_data_by_qof full_parsers pm D' pl Hso).
  - f_equal. assert (Hp : pool_pids pl = map fst pend).
    { apply sorted_same_members; [apply pool_pids_sorted, Hso|exact Hk|].
      intros y. rewrite (pool_pids_in pl Hso y), Hmem. apply aget_in. }
    rewrite Hp, flat_map_concat_map.
    replace (map D' (map fst pend)) with (map (fun e : Z * DemuxerData => [snd e]) pend).
    + clear. induction pend as [|e l IH]; [reflexivity|]. cbn [map concat app]. rewrite IH. reflexivity.
    + unfold D'. rewrite <- (map_map (aget pend) (fun o => match o with Some d => [d] | None => []  end)).
      rewrite (aget_map_snd pend Hk), map_map. reflexivity.
  - intros k Hk0. specialize (Hpids k). unfold D'. apply Hmem in Hk0. destruct (aget pend k) as [dat|]; [|congruence].
    destruct Hpids as (Hy & q' & pe & _ & _ & _ & Hp & _). apply Hp.
    destruct (pm_mem pm k) eqn:E; [|reflexivity]. apply Hpm in E. destruct (es_pid_not_tables k Hy). congruence.
Qed.

(* ---------------- the whole history ---------------- *)

Definition run_pkts (s : mstate) (ops : list mop) : list Packet := concat (map pa_pkts (snd (mux_run_parts s ops))).

Theorem run_feed : forall ops s pend pl pm, inv s pend pl pm -> history_ok s ops ->
  exists pl' pm' out (pend' : pendl),
    feed full_parsers pl pm (map obs_pkt (run_pkts s ops)) = Some (pl', pm', out) /\
    drain_data full_parsers pm' pl' = Some (map snd pend') /\
    out ++ map snd pend' = expect s pend ops /\
    Forall mux_wf (run_pkts s ops) /\
    (length out + length pend' <= length pend + length (run_pkts s ops))%nat.
Proof using D_parse D_write D_nil D_size.
  induction ops as [|o r IH]; intros s pend pl pm Hinv Hok.
  - exists pl, pm, [], pend. unfold run_pkts. cbn [mux_run_parts snd map concat feed expect app length].
    split; [reflexivity|]. split; [apply (drain_pending s pend pl pm Hinv)|]. split; [reflexivity|]. split; [constructor|lia].
  - cbn [history_ok] in Hok. unfold run_pkts. rewrite mux_run_parts_cons. cbn [snd map concat expect].
    destruct (mux_step_part s o) as [s1 p] eqn:Estep. cbn [fst snd] in *. destruct Hok as [Hop Hok].
    destruct (step_feed s pend pl pm o s1 p Hinv Estep Hop) as (pl1 & pm1 & Hf1 & Hinv1 & Hw1 & Hl1).
    destruct (step_out s pend o p) as [out1 pend1] eqn:Eso. cbn [fst snd] in *.
    destruct (IH s1 pend1 pl1 pm1 Hinv1 Hok) as (pl' & pm' & out2 & pend' & Hf2 & Hd & He & Hw2 & Hl2).
    fold (run_pkts s1 r) in *.
    exists pl', pm', (out1 ++ out2), pend'.
    split; [rewrite map_app, (feed_app full_parsers _ _ _ _ _ _ _ Hf1), Hf2; reflexivity|].
    split; [exact Hd|]. split; [rewrite <- app_assoc, He; reflexivity|].
    split; [apply Forall_app; split; assumption|]. rewrite !app_length. lia.
Qed.

End Run.

(* ---------------- NextData until ErrNoMorePackets on the bytes the Muxer wrote ---------------- *)

(* the results of the successive NextData calls (packet size 188 given, seekable reader) up to ErrNoMorePackets *)
Definition demux_all (bytes : list Z) : list (res DemuxerData) :=
  nd_all full_parsers (3 * length bytes + 8) (init_dstate (new_reader bytes None Seekable) 188).

Lemma run_bytes ops : forall s,
  concat (map mout_bytes (snd (mux_run s ops))) = concat (map pkt_bytes (run_pkts s ops)).
Proof.
  intros s. destruct (mux_run_parts_out ops s) as [_ ->]. unfold run_pkts.
  pose proof (run_parts_tied ops s) as Ht. induction (snd (mux_run_parts s ops)) as [|p l IH]; [reflexivity|].
  inversion Ht as [|? ? [Hp _] Hl]; subst. cbn [map concat]. rewrite map_app, concat_app, <- (IH Hl). f_equal.
  unfold mout_bytes, mout_of_part. cbn [mo_groups]. rewrite concat_concat_map, Hp. reflexivity.
Qed.

Section Top.
Variable D : list Descriptor -> list Z -> Prop.
Hypothesis D_parse : desc_premises D.
Hypothesis D_write : forall ds bytes, D ds bytes -> desc_bytes ds bytes.
Hypothesis D_nil : D [] [].
Hypothesis D_size : forall ds bytes, D ds bytes ->
  fold_left (fun k d => k + (2 + calc_descriptor_length d)) ds 0 = Z.of_nat (length bytes).

Lemma inv_init period : inv D (new_muxer period) [] [] [].
Proof using.
  constructor.
  - apply new_muxer_inv.
  - constructor.
  - exact I.
  - constructor.
  - intros y Hy. discriminate Hy.
  - split; reflexivity.
  - intros y. reflexivity.
Qed.

(* C01: demultiplexing what the Muxer wrote over a whole history yields exactly the expected data, all Ok *)
Theorem roundtrip_history period ops :
  history_ok D (new_muxer period) ops ->
  demux_all (concat (map mout_bytes (snd (mux_run (new_muxer period) ops)))) = map Ok (expect (new_muxer period) [] ops).
Proof using D_parse D_write D_nil D_size.
  intros Hok.
  destruct (run_feed D D_parse D_write D_nil D_size ops (new_muxer period) [] [] [] (inv_init period) Hok)
    as (pl' & pm' & out & pend' & Hf & Hd & He & Hw & Hl).
  set (pkts := run_pkts (new_muxer period) ops) in *.
  destruct (pkts_seen pkts Hw) as [Hb Hp].
  rewrite run_bytes. fold pkts. set (bufs := map pkt_bytes pkts) in *.
  assert (Hy : yields full_parsers (init_dstate (new_reader (concat bufs) None Seekable) 188) (out ++ map snd pend')).
  { exists bufs, (map obs_pkt pkts), pl', pm', out, (map snd pend').
    split; [apply init_at_bufs, Hb|]. split; [exact Hp|]. split; [exact Hf|]. split; [exact Hd|reflexivity]. }
  unfold demux_all. rewrite (nd_all_yields full_parsers _ _ _ Hy).
  - rewrite He. reflexivity.
  - rewrite app_length, map_length. pose proof (concat_length_188 bufs Hb) as Hlen. unfold bufs in Hlen at 2. rewrite map_length in Hlen.
    cbn [length] in Hl. lia.
Qed.

End Top.

(* ---------------- the descriptor domain: streams without descriptors ---------------- *)

Lemma no_desc_write ds bytes : no_desc16 ds bytes -> desc_bytes ds bytes.
Proof.
  intros [-> ->]. split.
  - split; [constructor|]. split; [reflexivity|]. exists []. split; [reflexivity|constructor].
  - exists []. split; reflexivity.
Qed.

Lemma no_desc_size ds bytes : no_desc16 ds bytes ->
  fold_left (fun k d => k + (2 + calc_descriptor_length d)) ds 0 = Z.of_nat (length bytes).
Proof. intros [-> ->]. reflexivity. Qed.

Theorem roundtrip_history_nodesc period ops :
  history_ok no_desc16 (new_muxer period) ops ->
  demux_all (concat (map mout_bytes (snd (mux_run (new_muxer period) ops)))) = map Ok (expect (new_muxer period) [] ops).
Proof. apply (roundtrip_history no_desc16 no_desc_premises no_desc_write (conj eq_refl eq_refl) no_desc_size). Qed.

(* ---------------- per PID: exactly one PES per successful WriteData, in order ---------------- *)

(* the PES data the successful WriteData calls on PID x must come back as, in call order *)
Fixpoint written_on (x : Z) (s : mstate) (ops : list mop) : list DemuxerData :=
  match ops with
  | [] => []
  | o :: r =>
      (match o with
       | MWriteData d => if MuxerData_PID d =? x
                         then match data_out s d (pa_pkts (snd (mux_step_part s o))) with Some dat => [dat] | None => [] end
                         else []
       | _ => []
       end) ++ written_on x (fst (mux_step_part s o)) r
  end.

Definition on_x (x : Z) (d : DemuxerData) : bool := DemuxerData_PID d =? x.

Definition pend_keyed (pend : pendl) : Prop := Forall (fun e => DemuxerData_PID (snd e) = fst e) pend.

Lemma pend_keyed_aset pend x dat : pend_keyed pend -> DemuxerData_PID dat = x -> pend_keyed (aset pend x dat).
Proof.
  intros H Hd. induction H as [|[k b] r Hk Hr IH]; cbn [aset]; [repeat constructor; exact Hd|].
  destruct (k =? x) eqn:E; [constructor; [cbn [fst snd] in *; lia|exact Hr]|].
  destruct (x <? k).
  - constructor; [exact Hd|]. constructor; assumption.
  - constructor; [exact Hk|exact IH].
Qed.

Lemma pend_keyed_get pend x d : pend_keyed pend -> aget pend x = Some d -> DemuxerData_PID d = x.
Proof.
  intros H. induction H as [|[k b] r Hk _ IH]; cbn [aget]; [discriminate|].
  destruct (k =? x) eqn:E; [intros Hd; injection Hd as <-; cbn [fst snd] in Hk; lia|exact IH].
Qed.

Lemma filter_pend x pend : pend_keyed pend -> StronglySorted Z.lt (map fst pend) ->
  filter (on_x x) (map snd pend) = match aget pend x with Some d => [d] | None => [] end.
Proof.
  intros H Hs. induction H as [|[k b] r Hkb _ IH]; [reflexivity|]. cbn [map fst snd filter aget] in *.
  apply StronglySorted_inv in Hs. destruct Hs as [Hr Hall]. unfold on_x at 1. rewrite Hkb.
  destruct (k =? x) eqn:E.
  - f_equal. rewrite (IH Hr). destruct (aget r x) eqn:Eg; [|reflexivity]. exfalso.
    assert (Hin : In x (map fst r)) by (apply aget_in; congruence). pose proof (proj1 (Forall_forall _ _) Hall x Hin). lia.
  - apply (IH Hr).
Qed.

Lemma tables_out_other s pkts x : x <> C_PIDPAT -> x <> C_pmtStartPID -> filter (on_x x) (tables_out s pkts) = [].
Proof.
  intros H1 H2. unfold tables_out. destruct pkts as [|a [|b r]]; try reflexivity.
  destruct (starts_with_tables _); [|reflexivity]. cbn [filter]. unfold on_x, pat_datum, pmt_datum, Psi.demuxer_data. cbn [DemuxerData_PID].
  destruct (C_PIDPAT =? x) eqn:E1; [lia|]. destruct (C_pmtStartPID =? x) eqn:E2; [lia|]. reflexivity.
Qed.

Lemma data_out_pid s d pkts dat : data_out s d pkts = Some dat -> DemuxerData_PID dat = MuxerData_PID d.
Proof.
  unfold data_out. destruct (es_find _ _); [|discriminate]. destruct (MuxerData_PES d) as [pes|]; [|discriminate].
  destruct (PESData_Header pes); [|discriminate]. destruct (filter _ pkts); [discriminate|].
  intros H. injection H as <-. reflexivity.
Qed.

Theorem expect_per_pid x : x <> C_PIDPAT -> x <> C_pmtStartPID -> forall ops s pend,
  pend_keyed pend -> StronglySorted Z.lt (map fst pend) ->
  filter (on_x x) (expect s pend ops) = (match aget pend x with Some d => [d] | None => [] end) ++ written_on x s ops.
Proof.
  intros H1 H2. induction ops as [|o r IH]; intros s pend Hk Hs.
  - cbn [expect written_on]. rewrite app_nil_r. apply filter_pend; assumption.
  - cbn [expect written_on]. destruct (mux_step_part s o) as [s' p] eqn:Estep. cbn [fst snd].
    destruct (step_out s pend o p) as [out pend'] eqn:Eso. rewrite filter_app.
    assert (Hplain : out = tables_out s (pa_pkts p) -> pend' = pend ->
              filter (on_x x) out ++ filter (on_x x) (expect s' pend' r) =
              (match aget pend x with Some d => [d] | None => [] end) ++ written_on x s' r).
    { intros -> ->. rewrite (tables_out_other s _ x H1 H2). cbn [app]. apply IH; assumption. }
    destruct o as [es|q|q| |d|pk].
    1,2,3,4,6: (unfold step_out in Eso; injection Eso as <- <-; cbn [app]; apply Hplain; reflexivity).
    unfold step_out in Eso. destruct (data_out s d (pa_pkts p)) as [dat|] eqn:Edo.
    + injection Eso as <- <-. pose proof (data_out_pid s d _ dat Edo) as Hpid.
      rewrite filter_app, (tables_out_other s _ x H1 H2). cbn [app].
      rewrite (IH s' _ (pend_keyed_aset pend _ dat Hk Hpid) (aset_sorted pend _ dat Hs)).
      destruct (MuxerData_PID d =? x) eqn:E.
      * assert (MuxerData_PID d = x) by lia. subst x. rewrite aget_aset_same.
        destruct (aget pend (MuxerData_PID d)) as [prev|] eqn:Eg; cbn [filter app].
        -- unfold on_x at 1. rewrite (pend_keyed_get pend _ prev Hk Eg), Z.eqb_refl. reflexivity.
        -- reflexivity.
      * rewrite (aget_aset_other pend _ dat x) by lia.
        destruct (aget pend (MuxerData_PID d)) as [prev|] eqn:Eg; cbn [filter app]; [|reflexivity].
        unfold on_x at 1. rewrite (pend_keyed_get pend _ prev Hk Eg), E. reflexivity.
    + injection Eso as <- <-. destruct (MuxerData_PID d =? x); cbn [app]; apply Hplain; reflexivity.
Qed.

(* the round trip read per PID: the PES data delivered on a stream PID are exactly those written on it, one per
   successful WriteData, in order; and nothing is an error *)
Corollary roundtrip_per_pid D :
  desc_premises D -> (forall ds bytes, D ds bytes -> desc_bytes ds bytes) -> D [] [] ->
  (forall ds bytes, D ds bytes -> fold_left (fun k d => k + (2 + calc_descriptor_length d)) ds 0 = Z.of_nat (length bytes)) ->
  forall period ops, history_ok D (new_muxer period) ops ->
  exists L, demux_all (concat (map mout_bytes (snd (mux_run (new_muxer period) ops)))) = map Ok L /\
    forall x, x <> C_PIDPAT -> x <> C_pmtStartPID -> filter (on_x x) L = written_on x (new_muxer period) ops.
Proof.
  intros P1 P2 P3 P4 period ops Hok. exists (expect (new_muxer period) [] ops).
  split; [apply (roundtrip_history D P1 P2 P3 P4 period ops Hok)|].
  intros x H1 H2. rewrite (expect_per_pid x H1 H2 ops (new_muxer period) []); [reflexivity|constructor|constructor].
Qed.

(* ---------------- what the expected PES datum is, in terms of the call's arguments ---------------- *)

(* For a successful WriteData inside the domain: the datum [expect] lists for it carries the PID, exactly the payload
   written, the header written with the stream id filled in and the derived fields a parser computes, and as
   FirstPacket the header and adaptation field (no payload) of the unit's first payload packet p1; when the caller's
   adaptation field leaves room for the PES header in the first packet (always when there is none), p1 is the first
   packet of the call's unit and its adaptation field is the caller's, at most with stuffing added (first_ok). *)
Theorem data_out_spec s d s' p ctx h0 data :
  ms_inv s -> data_in_domain s d ctx h0 data -> write_data s d = (s', p) -> pa_res p = Ok tt ->
  let x := MuxerData_PID d in
  let h := filled_header h0 (ec_es ctx) in
  exists p1 rest,
    filter (unit_filter x) (pa_pkts p) = p1 :: rest /\
    data_out s d (pa_pkts p) = Some (pes_datum x (obs_pkt p1) h data) /\
    DemuxerData_PID (pes_datum x (obs_pkt p1) h data) = x /\
    DemuxerData_PES (pes_datum x (obs_pkt p1) h data) =
      Some {| PESData_Data := data; PESData_Header := Some (observed_header h (Z.of_nat (length data))) |} /\
    DemuxerData_FirstPacket (pes_datum x (obs_pkt p1) h data) = Some (first_packet_of (obs_pkt p1)) /\
    Packet_AdaptationField (first_packet_of (obs_pkt p1)) = option_map observed_af (Packet_AdaptationField p1) /\
    ((C_MpegTsPacketSize - (1 + C_mpegTsPacketHeaderSize + af_size_opt (MuxerData_AdaptationField d)) <?
        C_pesHeaderLength + calcPESOptionalHeaderLength (PESHeader_OptionalHeader h)) = false ->
     first_ok (MuxerData_AdaptationField d) p1).
Proof.
  intros Hms Hdom Hwd Hres x h.
  destruct (write_data_unit_ok s d s' p ctx h0 data Hms Hdom Hwd Hres)
    as (sr & tables & unit & Hpk & Heff & Htab & Huf & (Hccs & _) & _ & Hpok).
  pose proof Hdom as [Hxpid _ _ Hfind (pes & Hpes & Hhdr & Hdat) [Hne Hbytes] Hwh]. fold x in Hxpid, Hfind, Huf. fold h in Huf, Hwh.
  destruct (es_pid_not_tables x Hxpid) as [Hx0 Hx1].
  destruct (unit_is_seen x h _ data (ec_cc ctx) unit Hne Huf Hpok Hccs) as (p1 & rest & [U1 _ _ _ _ _ _ _ _]).
  pose proof (hdr_plain_pid x unit (uf_hdr _ _ _ _ _ _ Huf)) as Hupid.
  assert (Hfil : filter (unit_filter x) (pa_pkts p) = p1 :: rest).
  { rewrite Hpk, filter_app, (unit_filter_tables x s sr tables Heff Hx0 Hx1). cbn [app].
    rewrite (unit_filter_same x unit Hupid). exact U1. }
  exists p1, rest. split; [exact Hfil|]. split.
  { unfold data_out. fold x. rewrite Hfind, Hpes, Hhdr, Hfil, Hdat. reflexivity. }
  split; [reflexivity|]. split; [reflexivity|]. split; [reflexivity|]. split; [reflexivity|].
  intros Hroom. apply (first_packet_af x h _ data unit p1 rest Huf Hne U1 Hroom).
Qed.
