(* Lemmas for C14: sizes of the descriptor writers (C14_len), the TLV framing of parseDescriptors (C14_tlv),
   per-tag round trips. *)
From Coq Require Import ZArith List Lia Bool ZifyBool.
Require Import Base.Bits Base.Iter Base.Wr Gen.Consts Gen.Types Gen.Preds Model.Dvb Model.Desc Spec.DescSpec.
Import ListNotations.
Open Scope Z_scope.

(* ================= part A: sizes ================= *)

(* number of bits an item list hands to the BitsWriter *)
Definition bitlen (l : list witem) : Z := Z.of_nat (length (items_bits l)).

Lemma bitlen_nil : bitlen [] = 0. Proof. reflexivity. Qed.
Lemma bitlen_app a b : bitlen (a ++ b) = bitlen a + bitlen b.
Proof. unfold bitlen. rewrite items_bits_app, app_length. lia. Qed.
Lemma bitlen_cons it l : bitlen (it :: l) = bitlen [it] + bitlen l.
Proof. change (it :: l) with ([it] ++ l). apply bitlen_app. Qed.
Lemma bitlen_bits w v : bitlen [WBits w v] = Z.of_nat w.
Proof. unfold bitlen, items_bits; cbn [flat_map item_bits]. rewrite app_nil_r, bits_of_length. reflexivity. Qed.
Lemma bitlen_bool b : bitlen [WBool b] = 1. Proof. reflexivity. Qed.
Lemma bitlen_bytes bs : bitlen [WBytes bs] = 8 * zlen bs.
Proof. unfold bitlen, items_bits, zlen; cbn [flat_map item_bits]. rewrite app_nil_r, bits_of_bytes_length. lia. Qed.
Lemma bitlen_repeat it n : bitlen (repeat it n) = Z.of_nat n * bitlen [it].
Proof. induction n as [|n IH]; [reflexivity|]. cbn [repeat]. rewrite bitlen_cons, IH. lia. Qed.

Lemma bitlen_wbytesn bs n pad : bitlen (wbytesn bs n pad) = 8 * Z.of_nat n.
Proof.
  unfold wbytesn. destruct (n =? 0)%nat eqn:E0; [apply Nat.eqb_eq in E0; subst; reflexivity|].
  destruct (n <=? length bs)%nat eqn:E1.
  - apply Nat.leb_le in E1. rewrite bitlen_bytes. unfold zlen. rewrite firstn_length. lia.
  - apply Nat.leb_gt in E1. rewrite bitlen_cons, bitlen_bytes, bitlen_repeat. unfold wu8. rewrite bitlen_bits. unfold zlen. lia.
Qed.

Lemma bitlen_wif c l : bitlen (wif c l) = if c then bitlen l else 0.
Proof. destruct c; reflexivity. Qed.

Lemma bitlen_flat_map {A} (f : A -> list witem) (g : A -> Z) (l : list A) :
  (forall x, bitlen (f x) = g x) -> bitlen (flat_map f l) = sumZ g l.
Proof.
  intros H. induction l as [|x l IH]; [reflexivity|]. cbn [flat_map sumZ fold_right]. rewrite bitlen_app, H, IH. reflexivity.
Qed.

Lemma sumZ_const {A} (l : list A) k : sumZ (fun _ => k) l = k * zlen l.
Proof. unfold zlen. induction l as [|x l IH]; [cbn; lia|]. cbn [sumZ fold_right length]. unfold sumZ in IH. rewrite IH. lia. Qed.

Lemma sumZ_ext {A} (f g : A -> Z) l : (forall x, f x = g x) -> sumZ f l = sumZ g l.
Proof. intros H. induction l as [|x l IH]; [reflexivity|]. cbn [sumZ fold_right]. unfold sumZ in IH. rewrite H, IH. reflexivity. Qed.

Lemma blen_zlen bs : blen bs = zlen bs. Proof. reflexivity. Qed.

Ltac bl := unfold wu8, wu16, wu32;
  repeat first [ rewrite bitlen_app | rewrite bitlen_wbytesn | rewrite bitlen_wif | rewrite bitlen_bits
               | rewrite bitlen_bool | rewrite bitlen_bytes | rewrite bitlen_nil
               | rewrite (bitlen_cons _ (_ :: _)) ].

(* the DVB time writers behind the local time offset descriptor, through the interface of Model/Dvb.v *)
Lemma bitlen_enc_dvb_duration_minutes ns : bitlen (enc_dvb_duration_minutes ns) = 16.
Proof. unfold enc_dvb_duration_minutes. bl. reflexivity. Qed.
Lemma bitlen_enc_dvb_time t : bitlen (enc_dvb_time t) = 40.
Proof.
  unfold enc_dvb_time, enc_dvb_duration_seconds.
  repeat match goal with |- context [let '(_, _) := ?x in _] => destruct x end.
  bl. reflexivity.
Qed.

(* ---- L1: every body writer emits 8 * size bits ---- *)

Lemma bitlen_enc_ac3 v : bitlen (enc_ac3 v) = 8 * size_ac3 v.
Proof.
  unfold enc_ac3, size_ac3. bl.
  destruct (DescriptorAC3_HasComponentType v), (DescriptorAC3_HasBSID v), (DescriptorAC3_HasMainID v), (DescriptorAC3_HasASVC v);
    cbn [Z.b2z]; bl; lia.
Qed.

Lemma bitlen_enc_avc_video v : bitlen (enc_avc_video v) = 8 * size_avc_video v.
Proof. unfold enc_avc_video, size_avc_video. bl. reflexivity. Qed.

Lemma bitlen_enc_component v : bitlen (enc_component v) = 8 * size_component v.
Proof. unfold enc_component, size_component. bl. lia. Qed.

Lemma bitlen_enc_content v : bitlen (enc_content v) = 8 * size_content v.
Proof.
  unfold enc_content, size_content. rewrite (bitlen_flat_map _ (fun _ => 16)).
  - rewrite sumZ_const. lia.
  - intros x. unfold enc_content_item. bl. reflexivity.
Qed.

Lemma bitlen_enc_data_stream_alignment v : bitlen (enc_data_stream_alignment v) = 8 * size_data_stream_alignment v.
Proof. unfold enc_data_stream_alignment. bl. reflexivity. Qed.

Lemma bitlen_enc_enhanced_ac3 v : bitlen (enc_enhanced_ac3 v) = 8 * size_enhanced_ac3 v.
Proof.
  unfold enc_enhanced_ac3, size_enhanced_ac3. bl.
  destruct (DescriptorEnhancedAC3_HasComponentType v), (DescriptorEnhancedAC3_HasBSID v), (DescriptorEnhancedAC3_HasMainID v),
    (DescriptorEnhancedAC3_HasASVC v), (DescriptorEnhancedAC3_HasSubStream1 v), (DescriptorEnhancedAC3_HasSubStream2 v),
    (DescriptorEnhancedAC3_HasSubStream3 v); cbn [Z.b2z]; bl; lia.
Qed.

Lemma bitlen_enc_extended_event v : bitlen (enc_extended_event v) = 8 * size_extended_event v.
Proof.
  unfold enc_extended_event, size_extended_event, size_extended_event_items. bl.
  rewrite (bitlen_flat_map _ (fun it => 8 * size_extended_event_item it)).
  - assert (E : forall l, sumZ (fun it => 8 * size_extended_event_item it) l = 8 * sumZ size_extended_event_item l).
    { induction l as [|x l IH]; [reflexivity|]. cbn [sumZ fold_right]. unfold sumZ in IH. rewrite IH. lia. }
    rewrite E. lia.
  - intros it. unfold enc_extended_event_item, size_extended_event_item. bl. lia.
Qed.

Lemma bitlen_enc_supplementary_audio v :
  bitlen (enc_extension_supplementary_audio v) = 8 * size_supplementary_audio v.
Proof.
  unfold enc_extension_supplementary_audio, size_supplementary_audio. bl.
  destruct (DescriptorExtensionSupplementaryAudio_HasLanguageCode v); bl; lia.
Qed.

Lemma bitlen_enc_extension v its : enc_extension v = Ok its -> bitlen its = 8 * size_extension v.
Proof.
  unfold enc_extension, size_extension.
  destruct (DescriptorExtension_Tag v =? C_DescriptorTagExtensionSupplementaryAudio).
  - destruct (DescriptorExtension_SupplementaryAudio v) as [s|]; cbn [dneed res_map]; [|discriminate].
    intros H; inversion H; subst. rewrite bitlen_cons, bitlen_enc_supplementary_audio. bl. lia.
  - intros H; inversion H; subst. destruct (DescriptorExtension_Unknown v); bl; lia.
Qed.

Lemma bitlen_enc_iso639 v : bitlen (enc_iso639 v) = 8 * size_iso639 v.
Proof. unfold enc_iso639, size_iso639. bl. reflexivity. Qed.

Lemma bitlen_enc_local_time_offset v : bitlen (enc_local_time_offset v) = 8 * size_local_time_offset v.
Proof.
  unfold enc_local_time_offset, size_local_time_offset. rewrite (bitlen_flat_map _ (fun _ => 104)).
  - rewrite sumZ_const. lia.
  - intros x. unfold enc_local_time_offset_item. bl.
    rewrite !bitlen_enc_dvb_duration_minutes, bitlen_enc_dvb_time. reflexivity.
Qed.

Lemma bitlen_enc_maximum_bitrate v : bitlen (enc_maximum_bitrate v) = 8 * size_maximum_bitrate v.
Proof. unfold enc_maximum_bitrate. bl. reflexivity. Qed.

Lemma bitlen_enc_network_name v : bitlen (enc_network_name v) = 8 * size_network_name v.
Proof. unfold enc_network_name, size_network_name. bl. reflexivity. Qed.

Lemma bitlen_enc_parental_rating v : bitlen (enc_parental_rating v) = 8 * size_parental_rating v.
Proof.
  unfold enc_parental_rating, size_parental_rating. rewrite (bitlen_flat_map _ (fun _ => 32)).
  - rewrite sumZ_const. lia.
  - intros x. unfold enc_parental_rating_item. bl. reflexivity.
Qed.

Lemma bitlen_enc_private_data_indicator v : bitlen (enc_private_data_indicator v) = 8 * size_private_data_indicator v.
Proof. unfold enc_private_data_indicator. bl. reflexivity. Qed.
Lemma bitlen_enc_private_data_specifier v : bitlen (enc_private_data_specifier v) = 8 * size_private_data_specifier v.
Proof. unfold enc_private_data_specifier. bl. reflexivity. Qed.

Lemma bitlen_enc_registration v : bitlen (enc_registration v) = 8 * size_registration v.
Proof. unfold enc_registration, size_registration. bl. lia. Qed.

Lemma bitlen_enc_service v : bitlen (enc_service v) = 8 * size_service v.
Proof. unfold enc_service, size_service. bl. lia. Qed.

Lemma bitlen_enc_short_event v : bitlen (enc_short_event v) = 8 * size_short_event v.
Proof. unfold enc_short_event, size_short_event. bl. lia. Qed.

Lemma bitlen_enc_stream_identifier v : bitlen (enc_stream_identifier v) = 8 * size_stream_identifier v.
Proof. unfold enc_stream_identifier. bl. reflexivity. Qed.

Lemma bitlen_enc_subtitling v : bitlen (enc_subtitling v) = 8 * size_subtitling v.
Proof.
  unfold enc_subtitling, size_subtitling. rewrite (bitlen_flat_map _ (fun _ => 64)).
  - rewrite sumZ_const. lia.
  - intros x. unfold enc_subtitling_item. bl. reflexivity.
Qed.

Lemma bitlen_enc_teletext v : bitlen (enc_teletext v) = 8 * size_teletext v.
Proof.
  unfold enc_teletext, size_teletext. rewrite (bitlen_flat_map _ (fun _ => 40)).
  - rewrite sumZ_const. lia.
  - intros x. unfold enc_teletext_item. bl. reflexivity.
Qed.

(* the six line-based VBI services of the code are those of EN 300 468 table 105 *)
Lemma is_vbi_line_service_spec id : is_vbi_line_service id = spec_is_vbi_line_service id.
Proof.
  unfold is_vbi_line_service, spec_is_vbi_line_service.
  unfold C_VBIDataServiceIDClosedCaptioning, C_VBIDataServiceIDEBUTeletext, C_VBIDataServiceIDInvertedTeletext,
    C_VBIDataServiceIDMonochrome442Samples, C_VBIDataServiceIDVPS, C_VBIDataServiceIDWSS.
  destruct (id =? 1) eqn:?, (id =? 2) eqn:?, (id =? 4) eqn:?, (id =? 5) eqn:?, (id =? 6) eqn:?, (id =? 7) eqn:?; reflexivity.
Qed.

Lemma bitlen_enc_vbi_data v : bitlen (enc_vbi_data v) = 8 * size_vbi_data v.
Proof.
  unfold enc_vbi_data, size_vbi_data.
  rewrite (bitlen_flat_map _ (fun s => 8 * size_vbi_data_service s)).
  - induction (DescriptorVBIData_Services v) as [|x l IH]; [reflexivity|]. cbn [sumZ fold_right]. unfold sumZ in IH. rewrite IH. lia.
  - intros s. unfold enc_vbi_data_service, size_vbi_data_service. rewrite is_vbi_line_service_spec.
    destruct (spec_is_vbi_line_service _).
    + rewrite bitlen_cons, (bitlen_cons _ (flat_map _ _)). rewrite (bitlen_flat_map _ (fun _ => 8)).
      * rewrite sumZ_const. bl. unfold zlen. lia.
      * intros l. unfold enc_vbi_line. bl. reflexivity.
    + bl. reflexivity.
Qed.

Lemma bitlen_enc_unknown v : bitlen (enc_unknown v) = 8 * size_unknown v.
Proof. unfold enc_unknown, size_unknown. bl. reflexivity. Qed.

(* ---- L2: the length calculators (re-translated from descriptor.go) are the sizes modulo 256 ---- *)

Lemma b2z_if (b : bool) (x : Z) : (if b then x + 1 else x) = x + Z.b2z b.
Proof. destruct b; cbn [Z.b2z]; lia. Qed.

Lemma calc_ac3_size v : calcDescriptorAC3Length (Some v) = size_ac3 v mod 256.
Proof. unfold calcDescriptorAC3Length, size_ac3, zlen. cbn [odflt]. rewrite !b2z_if. f_equal. Qed.
Lemma calc_avc_video_size v : calcDescriptorAVCVideoLength (Some v) = size_avc_video v mod 256.
Proof. reflexivity. Qed.
Lemma calc_component_size v : calcDescriptorComponentLength (Some v) = size_component v mod 256.
Proof. reflexivity. Qed.
Lemma calc_content_size v : calcDescriptorContentLength (Some v) = size_content v mod 256.
Proof. reflexivity. Qed.
Lemma calc_data_stream_alignment_size v : calcDescriptorDataStreamAlignmentLength (Some v) = size_data_stream_alignment v mod 256.
Proof. reflexivity. Qed.
Lemma calc_enhanced_ac3_size v : calcDescriptorEnhancedAC3Length (Some v) = size_enhanced_ac3 v mod 256.
Proof. unfold calcDescriptorEnhancedAC3Length, size_enhanced_ac3, zlen. cbn [odflt]. rewrite !b2z_if. f_equal. Qed.

Lemma extended_event_loop l a :
  fold_left calcDescriptorExtendedEventLength_loop1 l a = a + sumZ size_extended_event_item l.
Proof.
  revert a. induction l as [|x l IH]; intros a; [cbn; lia|].
  cbn [fold_left sumZ fold_right]. rewrite IH. unfold calcDescriptorExtendedEventLength_loop1, size_extended_event_item, zlen, sumZ. lia.
Qed.
Lemma calc_extended_event_size v :
  calcDescriptorExtendedEventLength (Some v) = (size_extended_event v mod 256, size_extended_event_items v mod 256).
Proof.
  unfold calcDescriptorExtendedEventLength, size_extended_event, size_extended_event_items. cbn [odflt].
  rewrite extended_event_loop. unfold zlen. f_equal; f_equal; lia.
Qed.

Lemma calc_supplementary_audio_size v :
  calcDescriptorExtensionSupplementaryAudioLength (Some v) = size_supplementary_audio v.
Proof.
  unfold calcDescriptorExtensionSupplementaryAudioLength, size_supplementary_audio, zlen. cbn [odflt].
  destruct (DescriptorExtensionSupplementaryAudio_HasLanguageCode v); lia.
Qed.
Lemma calc_extension_size v : calc_extension_length (Some v) = size_extension v mod 256.
Proof.
  unfold calc_extension_length, size_extension.
  destruct (DescriptorExtension_Tag v =? C_DescriptorTagExtensionSupplementaryAudio).
  - destruct (DescriptorExtension_SupplementaryAudio v) as [s|]; [rewrite calc_supplementary_audio_size|]; reflexivity.
  - destruct (DescriptorExtension_Unknown v); f_equal; unfold blen, zlen; lia.
Qed.
Lemma calc_iso639_size v : calcDescriptorISO639LanguageAndAudioTypeLength (Some v) = size_iso639 v mod 256.
Proof. reflexivity. Qed.
Lemma calc_local_time_offset_size v : calcDescriptorLocalTimeOffsetLength (Some v) = size_local_time_offset v mod 256.
Proof. reflexivity. Qed.
Lemma calc_maximum_bitrate_size v : calcDescriptorMaximumBitrateLength (Some v) = size_maximum_bitrate v mod 256.
Proof. reflexivity. Qed.
Lemma calc_network_name_size v : calcDescriptorNetworkNameLength (Some v) = size_network_name v mod 256.
Proof. reflexivity. Qed.
Lemma calc_parental_rating_size v : calcDescriptorParentalRatingLength (Some v) = size_parental_rating v mod 256.
Proof. reflexivity. Qed.
Lemma calc_private_data_indicator_size v : calcDescriptorPrivateDataIndicatorLength (Some v) = size_private_data_indicator v mod 256.
Proof. reflexivity. Qed.
Lemma calc_private_data_specifier_size v : calcDescriptorPrivateDataSpecifierLength (Some v) = size_private_data_specifier v mod 256.
Proof. reflexivity. Qed.
Lemma calc_registration_size v : calcDescriptorRegistrationLength (Some v) = size_registration v mod 256.
Proof. reflexivity. Qed.
Lemma calc_service_size v : calcDescriptorServiceLength (Some v) = size_service v mod 256.
Proof. unfold calcDescriptorServiceLength, size_service, zlen. cbn [odflt]. f_equal. lia. Qed.
Lemma calc_short_event_size v : calcDescriptorShortEventLength (Some v) = size_short_event v mod 256.
Proof. unfold calcDescriptorShortEventLength, size_short_event, zlen. cbn [odflt]. f_equal. Qed.
Lemma calc_stream_identifier_size v : calcDescriptorStreamIdentifierLength (Some v) = size_stream_identifier v mod 256.
Proof. reflexivity. Qed.
Lemma calc_subtitling_size v : calcDescriptorSubtitlingLength (Some v) = size_subtitling v mod 256.
Proof. reflexivity. Qed.
Lemma calc_teletext_size v : calcDescriptorTeletextLength (Some v) = size_teletext v mod 256.
Proof. reflexivity. Qed.

Lemma vbi_data_loop l a : fold_left calcDescriptorVBIDataLength_loop1 l a = a + sumZ size_vbi_data_service l.
Proof.
  revert a. induction l as [|x l IH]; intros a; [cbn; lia|].
  cbn [fold_left sumZ fold_right]. rewrite IH. unfold calcDescriptorVBIDataLength_loop1, size_vbi_data_service, sumZ.
  fold (is_vbi_line_service (DescriptorVBIDataService_DataServiceID x)). rewrite is_vbi_line_service_spec.
  destruct (spec_is_vbi_line_service _); unfold zlen; lia.
Qed.
Lemma calc_vbi_data_size v : calcDescriptorVBIDataLength (Some v) = size_vbi_data v mod 256.
Proof. unfold calcDescriptorVBIDataLength, size_vbi_data. cbn [odflt]. rewrite vbi_data_loop. f_equal. Qed.
Lemma calc_unknown_size v : calcDescriptorUnknownLength (Some v) = size_unknown v mod 256.
Proof. reflexivity. Qed.

(* ---- the tag dispatch ---- *)

Ltac unfold_tags := unfold C_DescriptorTagAC3, C_DescriptorTagAVCVideo, C_DescriptorTagComponent, C_DescriptorTagContent,
  C_DescriptorTagDataStreamAlignment, C_DescriptorTagEnhancedAC3, C_DescriptorTagExtendedEvent, C_DescriptorTagExtension,
  C_DescriptorTagISO639LanguageAndAudioType, C_DescriptorTagLocalTimeOffset, C_DescriptorTagMaximumBitrate,
  C_DescriptorTagNetworkName, C_DescriptorTagParentalRating, C_DescriptorTagPrivateDataIndicator,
  C_DescriptorTagPrivateDataSpecifier, C_DescriptorTagRegistration, C_DescriptorTagService, C_DescriptorTagShortEvent,
  C_DescriptorTagStreamIdentifier, C_DescriptorTagSubtitling, C_DescriptorTagTeletext, C_DescriptorTagVBIData,
  C_DescriptorTagVBITeletext in *.

Lemma is_user_defined_spec tag : is_user_defined tag = spec_is_user_defined tag.
Proof. reflexivity. Qed.

Lemma calc_none_0 :
  calcDescriptorAC3Length None = 0 /\ calcDescriptorAVCVideoLength None = 0 /\ calcDescriptorComponentLength None = 0 /\
  calcDescriptorContentLength None = 0 /\ calcDescriptorDataStreamAlignmentLength None = 0 /\
  calcDescriptorEnhancedAC3Length None = 0 /\ fst (calcDescriptorExtendedEventLength None) = 0 /\
  calc_extension_length None = 0 /\ calcDescriptorISO639LanguageAndAudioTypeLength None = 0 /\
  calcDescriptorLocalTimeOffsetLength None = 0 /\ calcDescriptorMaximumBitrateLength None = 0 /\
  calcDescriptorNetworkNameLength None = 0 /\ calcDescriptorParentalRatingLength None = 0 /\
  calcDescriptorPrivateDataIndicatorLength None = 0 /\ calcDescriptorPrivateDataSpecifierLength None = 0 /\
  calcDescriptorRegistrationLength None = 0 /\ calcDescriptorServiceLength None = 0 /\ calcDescriptorShortEventLength None = 0 /\
  calcDescriptorStreamIdentifierLength None = 0 /\ calcDescriptorSubtitlingLength None = 0 /\
  calcDescriptorTeletextLength None = 0 /\ calcDescriptorVBIDataLength None = 0 /\ calcDescriptorUnknownLength None = 0.
Proof. repeat split; reflexivity. Qed.

(* calcDescriptorLength is the size of the body the tag selects, modulo 256 *)
Ltac calc_case L :=
  match goal with
  | |- (if ?c then _ else _) = _ => destruct c;
      [ match goal with
        | |- fst (_ ?o) = _ => destruct o as [v|]; [cbn [osize]; rewrite L; reflexivity|reflexivity]
        | |- _ ?o = _ => destruct o as [v|]; [exact (L v)|reflexivity]
        end | ]
  end.

Lemma calc_descriptor_length_size d : calc_descriptor_length d = desc_size d mod 256.
Proof.
  unfold calc_descriptor_length, desc_size. rewrite is_user_defined_spec. unfold_tags.
  destruct (spec_is_user_defined (Descriptor_Tag d)); [reflexivity|].
  calc_case calc_ac3_size. calc_case calc_avc_video_size. calc_case calc_component_size. calc_case calc_content_size.
  calc_case calc_data_stream_alignment_size. calc_case calc_enhanced_ac3_size. calc_case calc_extended_event_size.
  calc_case calc_extension_size. calc_case calc_iso639_size. calc_case calc_local_time_offset_size.
  calc_case calc_maximum_bitrate_size. calc_case calc_network_name_size. calc_case calc_parental_rating_size.
  calc_case calc_private_data_indicator_size. calc_case calc_private_data_specifier_size. calc_case calc_registration_size.
  calc_case calc_service_size. calc_case calc_short_event_size. calc_case calc_stream_identifier_size.
  calc_case calc_subtitling_size. calc_case calc_teletext_size. calc_case calc_vbi_data_size. calc_case calc_teletext_size.
  destruct (Descriptor_Unknown d) as [v|]; [exact (calc_unknown_size v)|reflexivity].
Qed.

(* the body writer emits 8 * desc_size bits whenever it returns *)
Ltac body_case L :=
  match goal with
  | |- (if ?c then _ else _) = _ -> _ => destruct c;
      [ match goal with
        | |- res_map _ (dneed ?o) = _ -> _ => destruct o as [v|]; cbn [dneed res_map osize]; [|discriminate];
             let H := fresh "H" in intros H; inversion H; subst; clear H; exact (L v)
        end | ]
  end.

Lemma enc_descriptor_body_size d its : enc_descriptor_body d = Ok its -> bitlen its = 8 * desc_size d.
Proof.
  unfold enc_descriptor_body, desc_size. rewrite is_user_defined_spec. unfold_tags.
  destruct (spec_is_user_defined (Descriptor_Tag d)).
  { intros H; inversion H; subst. bl. reflexivity. }
  body_case bitlen_enc_ac3. body_case bitlen_enc_avc_video. body_case bitlen_enc_component. body_case bitlen_enc_content.
  body_case bitlen_enc_data_stream_alignment. body_case bitlen_enc_enhanced_ac3. body_case bitlen_enc_extended_event.
  destruct (Descriptor_Tag d =? 127).
  { destruct (Descriptor_Extension d) as [v|]; cbn [dneed res_bind osize]; [|discriminate]. apply bitlen_enc_extension. }
  body_case bitlen_enc_iso639. body_case bitlen_enc_local_time_offset. body_case bitlen_enc_maximum_bitrate.
  body_case bitlen_enc_network_name. body_case bitlen_enc_parental_rating. body_case bitlen_enc_private_data_indicator.
  body_case bitlen_enc_private_data_specifier. body_case bitlen_enc_registration. body_case bitlen_enc_service.
  body_case bitlen_enc_short_event. body_case bitlen_enc_stream_identifier. body_case bitlen_enc_subtitling.
  body_case bitlen_enc_teletext. body_case bitlen_enc_vbi_data. body_case bitlen_enc_teletext.
  destruct (Descriptor_Unknown d) as [v|]; cbn [dneed res_map osize]; [|discriminate].
  intros H; inversion H; subst. exact (bitlen_enc_unknown v).
Qed.

(* ---- sizes are non-negative ---- *)

Lemma zlen_nonneg {A} (l : list A) : 0 <= zlen l. Proof. unfold zlen. lia. Qed.
Lemma sumZ_nonneg {A} (f : A -> Z) l : (forall x, 0 <= f x) -> 0 <= sumZ f l.
Proof. intros H. induction l as [|x l IH]; [cbn; lia|]. cbn [sumZ fold_right]. unfold sumZ in IH. specialize (H x). lia. Qed.
Lemma b2z_nonneg b : 0 <= Z.b2z b. Proof. destruct b; cbn; lia. Qed.

Lemma desc_size_nonneg d : 0 <= desc_size d.
Proof.
  unfold desc_size.
  assert (Hs : forall l, 0 <= sumZ size_extended_event_item l).
  { intros l. apply sumZ_nonneg. intros x. unfold size_extended_event_item. pose proof (zlen_nonneg (DescriptorExtendedEventItem_Description x)).
    pose proof (zlen_nonneg (DescriptorExtendedEventItem_Content x)). lia. }
  assert (Hv : forall l, 0 <= sumZ size_vbi_data_service l).
  { intros l. apply sumZ_nonneg. intros x. unfold size_vbi_data_service. pose proof (zlen_nonneg (DescriptorVBIDataService_Descriptors x)).
    destruct (spec_is_vbi_line_service _); lia. }
  repeat match goal with
  | |- 0 <= (if ?c then _ else _) => destruct c
  | |- 0 <= zlen _ => apply zlen_nonneg
  | |- 0 <= osize _ ?o => destruct o as [v|]; cbn [osize]; [|lia]
  end;
  unfold size_ac3, size_avc_video, size_component, size_content, size_data_stream_alignment, size_enhanced_ac3,
    size_extended_event, size_extended_event_items, size_extension, size_supplementary_audio, size_iso639, size_local_time_offset,
    size_maximum_bitrate, size_network_name, size_parental_rating, size_private_data_indicator, size_private_data_specifier,
    size_registration, size_service, size_short_event, size_stream_identifier, size_subtitling, size_teletext, size_vbi_data, size_unknown;
  repeat match goal with
  | |- context [Z.b2z ?b] => pose proof (b2z_nonneg b); generalize dependent (Z.b2z b); intros
  | |- context [zlen ?l] => pose proof (zlen_nonneg l); generalize dependent (zlen l); intros
  | |- context [sumZ size_extended_event_item ?l] => pose proof (Hs l); generalize dependent (sumZ size_extended_event_item l); intros
  | |- context [sumZ size_vbi_data_service ?l] => pose proof (Hv l); generalize dependent (sumZ size_vbi_data_service l); intros
  | |- context [match ?o with Some _ => _ | None => _ end] => destruct o
  | |- context [if ?c then _ else _] => destruct c
  end; try lia.
Qed.

(* ---- from bits to bytes ---- *)

Lemma bytes_of_items_zlen a n : items_bytes_ok a -> bitlen a = 8 * n -> zlen (bytes_of_items a) = n.
Proof.
  intros Hok Hb. rewrite (chunks_concat a Hok). unfold zlen, bitlen in *.
  rewrite (bytes_of_bits_length (Z.to_nat n)); lia.
Qed.

Lemma bytes_of_items_app a b n : items_bytes_ok a -> items_bytes_ok b -> bitlen a = 8 * n ->
  bytes_of_items (a ++ b) = bytes_of_items a ++ bytes_of_items b.
Proof.
  intros Ha Hb Hn. rewrite (chunks_concat _ (items_bytes_ok_app _ _ Ha Hb)), (chunks_concat a Ha), (chunks_concat b Hb).
  rewrite items_bits_app. apply (bytes_of_bits_app (Z.to_nat n)). unfold bitlen in Hn. lia.
Qed.

Lemma bits_of_bytes_of_items a n : items_bytes_ok a -> bitlen a = 8 * n -> bits_of_bytes (bytes_of_items a) = items_bits a.
Proof.
  intros Hok Hb. rewrite (chunks_concat a Hok). apply (bits_of_bytes_of_bits (Z.to_nat n)). unfold bitlen in Hb. lia.
Qed.

Lemma items_bytes_ok_app_inv a b : items_bytes_ok (a ++ b) -> items_bytes_ok a /\ items_bytes_ok b.
Proof. unfold items_bytes_ok. apply Forall_app. Qed.

Lemma bytes_of_two_u8 t c : bytes_of_items [wu8 t; wu8 c] = [t mod 256; c mod 256].
Proof.
  rewrite chunks_concat by (repeat constructor). unfold wu8, items_bits. cbn [flat_map item_bits]. rewrite app_nil_r.
  rewrite bytes_of_bits_8 by apply bits_of_length. rewrite bytes_of_bits_bits_of_8, Z_of_bits_of_mod. reflexivity.
Qed.

(* ---- one descriptor ---- *)

(* bytes emitted behind the length byte: nothing when the computed length is 0, the whole body otherwise *)
Definition emitted (d : Descriptor) : Z := if calc_descriptor_length d =? 0 then 0 else desc_size d.

Lemma enc_descriptor_shape d its : enc_descriptor d = Ok its ->
  exists body, its = [wu8 (Descriptor_Tag d); wu8 (calc_descriptor_length d)] ++ body /\ bitlen body = 8 * emitted d.
Proof.
  unfold enc_descriptor, emitted. destruct (calc_descriptor_length d =? 0).
  - intros H; inversion H; subst. exists []. split; reflexivity.
  - destruct (enc_descriptor_body d) as [body| |] eqn:E; cbn [res_map]; try discriminate.
    intros H; inversion H; subst. exists body. split; [reflexivity|]. apply enc_descriptor_body_size. exact E.
Qed.

(* without uint8 wrap the length byte is the number of body bytes, whatever Descriptor_Length holds *)
Lemma emitted_nowrap d : desc_size d < 256 -> emitted d = desc_size d /\ calc_descriptor_length d = desc_size d.
Proof.
  intros H. pose proof (desc_size_nonneg d). unfold emitted. rewrite calc_descriptor_length_size, Z.mod_small by lia.
  split; [|reflexivity]. destruct (desc_size d =? 0) eqn:E; lia.
Qed.

(* with wrap: the length byte is the size modulo 256 and the body is still written in full, except that a
   size that is a multiple of 256 writes no body at all *)
Lemma emitted_wrap d : calc_descriptor_length d = desc_size d mod 256 /\
  emitted d = if desc_size d mod 256 =? 0 then 0 else desc_size d.
Proof. unfold emitted. rewrite calc_descriptor_length_size. split; reflexivity. Qed.

(* the bytes of one descriptor: tag, length byte, body *)
Lemma enc_descriptor_bytes d its : enc_descriptor d = Ok its -> items_bytes_ok its ->
  exists body, bytes_of_items its = [Descriptor_Tag d mod 256; calc_descriptor_length d mod 256] ++ body /\
               zlen body = emitted d /\ bitlen its = 8 * (2 + emitted d).
Proof.
  intros H Hok. destruct (enc_descriptor_shape d its H) as (body & -> & Hb).
  apply items_bytes_ok_app_inv in Hok. destruct Hok as [Hh Hbody].
  exists (bytes_of_items body). split; [|split].
  - rewrite (bytes_of_items_app _ _ 2) by (auto; reflexivity). rewrite bytes_of_two_u8. reflexivity.
  - apply bytes_of_items_zlen; assumption.
  - rewrite bitlen_app, Hb. unfold wu8. bl. lia.
Qed.

(* ---- a loop ---- *)

Definition entry_bytes (d : Descriptor) (body : list Z) : list Z :=
  [Descriptor_Tag d mod 256; calc_descriptor_length d mod 256] ++ body.

Fixpoint loop_bytes (ds : list Descriptor) (bodies : list (list Z)) : list Z :=
  match ds, bodies with
  | d :: ds', b :: bodies' => entry_bytes d b ++ loop_bytes ds' bodies'
  | _, _ => []
  end.

Lemma enc_descriptors_bytes ds : forall its, enc_descriptors ds = Ok its -> items_bytes_ok its ->
  exists bodies, bytes_of_items its = loop_bytes ds bodies /\
                 Forall2 (fun d b => zlen b = emitted d) ds bodies /\
                 bitlen its = 8 * sumZ (fun d => 2 + emitted d) ds.
Proof.
  induction ds as [|d ds IH]; intros its H Hok.
  - inversion H; subst. exists []. repeat split; constructor.
  - cbn [enc_descriptors] in H. destruct (enc_descriptor d) as [a| |] eqn:Ea; cbn [res_bind] in H; try discriminate.
    destruct (enc_descriptors ds) as [r| |] eqn:Er; cbn [res_map] in H; try discriminate.
    inversion H; subst. apply items_bytes_ok_app_inv in Hok. destruct Hok as [Hoa Hor].
    destruct (enc_descriptor_bytes d a Ea Hoa) as (body & Eb & Hl & Hbits).
    destruct (IH r eq_refl Hor) as (bodies & Ebs & HF & Hbits').
    exists (body :: bodies). split; [|split].
    + rewrite (bytes_of_items_app _ _ (2 + emitted d)) by assumption. rewrite Eb, Ebs. reflexivity.
    + constructor; assumption.
    + rewrite bitlen_app, Hbits, Hbits'. cbn [sumZ fold_right]. unfold sumZ. lia.
Qed.

(* calcDescriptorsLength without wrap *)
Lemma calc_descriptors_length_nowrap ds : Forall (fun d => desc_size d < 256) ds -> loop_size ds < 65536 ->
  calc_descriptors_length ds = loop_size ds.
Proof.
  unfold calc_descriptors_length, loop_size.
  assert (G : forall ds a, Forall (fun d => desc_size d < 256) ds -> 0 <= a -> a + sumZ (fun d => 2 + desc_size d) ds < 65536 ->
     fold_left (fun length d => ((length + 2) mod 65536 + calc_descriptor_length d) mod 65536) ds a = a + sumZ (fun d => 2 + desc_size d) ds).
  { clear. induction ds as [|d ds IH]; intros a HF Ha Hs; [cbn; lia|].
    inversion HF; subst. cbn [fold_left sumZ fold_right] in *. fold (sumZ (fun d => 2 + desc_size d) ds) in *.
    pose proof (desc_size_nonneg d). assert (0 <= sumZ (fun d => 2 + desc_size d) ds).
    { apply sumZ_nonneg. intros x. pose proof (desc_size_nonneg x). lia. }
    destruct (emitted_nowrap d H1) as [_ Ec]. rewrite Ec.
    rewrite (Z.mod_small (a + 2)) by lia. rewrite Z.mod_small by lia. rewrite IH by (auto; lia). lia. }
  intros HF Hs. rewrite G by (auto; lia). lia.
Qed.

(* C14_len: the loop length and every length byte equal the bytes actually emitted, for arbitrary
   Descriptor_Length fields, provided no body exceeds 255 bytes and the loop 4095 *)
Theorem descriptors_with_length_exact ds out :
  enc_descriptors_with_length ds = Ok out -> items_bytes_ok out ->
  Forall (fun d => desc_size d < 256) ds -> loop_size ds < 4096 ->
  let bytes := bytes_of_items out in
  exists hdr bodies,
    bytes = hdr ++ loop_bytes ds bodies /\ zlen hdr = 2 /\
    Forall2 (fun d b => zlen b = calc_descriptor_length d /\ zlen b = desc_size d) ds bodies /\
    bitsf bytes 4 12 = zlen bytes - 2 /\
    zlen bytes = 2 + loop_size ds.
Proof.
  intros H Hok HF Hs bytes. unfold enc_descriptors_with_length in H.
  destruct (enc_descriptors ds) as [its| |] eqn:E; cbn [res_map] in H; try discriminate.
  assert (Eo : out = [WBits 4 255; WBits 12 (calc_descriptors_length ds)] ++ its) by (inversion H; reflexivity).
  subst out; clear H.
  apply items_bytes_ok_app_inv in Hok. destruct Hok as [Hoh Hoi].
  destruct (enc_descriptors_bytes ds its E Hoi) as (bodies & Eb & HF2 & Hbits).
  assert (Esum : sumZ (fun d => 2 + emitted d) ds = loop_size ds).
  { unfold loop_size. clear -HF. induction HF as [|d ds Hd _ IH]; [reflexivity|]. cbn [sumZ fold_right]. unfold sumZ in IH. rewrite IH.
    destruct (emitted_nowrap d Hd) as [-> _]. reflexivity. }
  assert (Hh : bitlen [WBits 4 255; WBits 12 (calc_descriptors_length ds)] = 8 * 2) by (bl; reflexivity).
  assert (Hlen : zlen bytes = 2 + loop_size ds).
  { unfold bytes. apply bytes_of_items_zlen; [apply items_bytes_ok_app; assumption|]. rewrite bitlen_app, Hh, Hbits, Esum. lia. }
  exists (bytes_of_items [WBits 4 255; WBits 12 (calc_descriptors_length ds)]), bodies.
  split; [|split; [|split; [|split]]].
  - unfold bytes. rewrite (bytes_of_items_app _ _ 2) by assumption. rewrite Eb. reflexivity.
  - apply bytes_of_items_zlen; assumption.
  - clear -HF HF2. induction HF2 as [|d b ds bodies Hb _ IH]; [constructor|]. inversion HF; subst.
    constructor; [|apply IH; assumption]. destruct (emitted_nowrap d H1) as [E1 E2]. rewrite E2. lia.
  - rewrite Hlen. unfold bytes, bitsf.
    rewrite (bits_of_bytes_of_items _ (2 + loop_size ds)).
    2:{ apply items_bytes_ok_app; assumption. }
    2:{ rewrite bitlen_app, Hh, Hbits, Esum. lia. }
    rewrite items_bits_app. unfold items_bits at 1. cbn [flat_map item_bits]. rewrite app_nil_r, <- app_assoc.
    rewrite (field_skip 4) by lia. change (4 - 4)%nat with 0%nat. rewrite field_here_mod.
    pose proof (sumZ_nonneg (fun d => 2 + desc_size d) ds) as Hnn. unfold loop_size in *.
    rewrite calc_descriptors_length_nowrap by (auto; unfold loop_size; lia). unfold loop_size.
    rewrite Z.mod_small; [lia|]. split; [apply Hnn; intros x; pose proof (desc_size_nonneg x); lia|]. change (2 ^ Z.of_nat 12) with 4096. lia.
  - exact Hlen.
Qed.

(* ================= part B: TLV framing of parseDescriptors ================= *)

(* a parser that never touches the byte slice of the iterator *)
Definition pres {A} (m : IM A) : Prop := forall i a i', m i = Ok (a, i') -> ibs i' = ibs i.
Definition body_pres (body : Z -> Z -> Z -> IM Descriptor) : Prop := forall t l e, pres (body t l e).
(* a body parser that reports the tag and length it was given *)
Definition body_hdr (body : Z -> Z -> Z -> IM Descriptor) : Prop :=
  forall t l e i d i', body t l e i = Ok (d, i') -> Descriptor_Tag d = t /\ Descriptor_Length d = l.

Lemma pres_ret {A} (a : A) : pres (iret a).
Proof. intros i x i' H. inversion H; reflexivity. Qed.
Lemma pres_err {A} c : pres (@ierr A c). Proof. intros i x i' H. discriminate. Qed.
Lemma pres_panic {A} : pres (@ipanic A). Proof. intros i x i' H. discriminate. Qed.
Lemma pres_bind {A B} (m : IM A) (f : A -> IM B) : pres m -> (forall a, pres (f a)) -> pres (ibind m f).
Proof.
  intros Hm Hf i b i' H. unfold ibind in H. destruct (m i) as [[a i1]| |] eqn:E; try discriminate.
  rewrite (Hf a i1 b i' H). apply (Hm i a i1 E).
Qed.
Lemma pres_next_byte : pres next_byte.
Proof. intros i b i' H. apply next_byte_ok in H. tauto. Qed.
Lemma pres_next_bytes n : pres (next_bytes n).
Proof. intros i b i' H. apply next_bytes_ok in H. tauto. Qed.
Lemma pres_next_bytes_nocopy n : pres (next_bytes_nocopy n).
Proof. apply pres_next_bytes. Qed.
Lemma pres_ioffset : pres ioffset. Proof. intros i b i' H. inversion H; reflexivity. Qed.
Lemma pres_iseek n : pres (iseek n). Proof. intros i b i' H. inversion H; reflexivity. Qed.
Lemma pres_iloop_fuel {A} (item : IM A) e : pres item -> forall k, pres (iloop_fuel k e item).
Proof.
  intros Hi k. induction k as [|k IH]; cbn [iloop_fuel]; [apply pres_err|].
  apply pres_bind; [apply pres_ioffset|]. intros off. destruct (off <? e); [|apply pres_ret].
  apply pres_bind; [exact Hi|]. intros a. apply pres_bind; [exact IH|]. intros r. apply pres_ret.
Qed.
Lemma pres_iloop {A} (item : IM A) e : pres item -> pres (iloop e item).
Proof. intros Hi. unfold iloop. apply pres_bind; [apply pres_ioffset|]. intros off. apply pres_iloop_fuel. exact Hi. Qed.

Ltac pres_step :=
  match goal with
  | |- pres (ibind _ _) => apply pres_bind; [|intros ?]
  | |- pres (iret _) => apply pres_ret
  | |- pres (ierr _) => apply pres_err
  | |- pres ipanic => apply pres_panic
  | |- pres next_byte => apply pres_next_byte
  | |- pres (next_bytes _) => apply pres_next_bytes
  | |- pres (next_bytes_nocopy _) => apply pres_next_bytes_nocopy
  | |- pres ioffset => apply pres_ioffset
  | |- pres (iseek _) => apply pres_iseek
  | |- pres (iloop _ _) => apply pres_iloop
  | |- pres (if ?c then _ else _) => destruct c
  | |- pres (match ?l with [] => _ | _ :: _ => _ end) => destruct l
  end.
Ltac pres_tac := repeat pres_step.

(* the DVB parsers behind the interface of Model/Dvb.v *)
Lemma pres_parse_dvb_duration_minutes : pres parse_dvb_duration_minutes.
Proof. unfold parse_dvb_duration_minutes. pres_tac. Qed.
Lemma pres_parse_dvb_duration_seconds : pres parse_dvb_duration_seconds.
Proof. unfold parse_dvb_duration_seconds. pres_tac. Qed.
Lemma pres_parse_dvb_time : pres parse_dvb_time.
Proof. unfold parse_dvb_time. pres_tac. apply pres_parse_dvb_duration_seconds. Qed.

Lemma pres_parse_descriptor_body : body_pres parse_descriptor_body.
Proof.
  intros t l e. unfold parse_descriptor_body.
  repeat match goal with |- pres (if ?c then _ else _) => destruct c end;
  unfold new_descriptor_ac3, new_descriptor_avc_video, new_descriptor_component, new_descriptor_content, content_item,
    new_descriptor_data_stream_alignment, new_descriptor_enhanced_ac3, new_descriptor_extended_event,
    new_descriptor_extended_event_item, new_descriptor_extension, new_descriptor_extension_supplementary_audio,
    new_descriptor_iso639, new_descriptor_local_time_offset, local_time_offset_item, new_descriptor_maximum_bitrate,
    new_descriptor_network_name, new_descriptor_parental_rating, parental_rating_item, new_descriptor_private_data_indicator,
    new_descriptor_private_data_specifier, new_descriptor_registration, new_descriptor_service, new_descriptor_short_event,
    new_descriptor_stream_identifier, new_descriptor_subtitling, subtitling_item, new_descriptor_teletext, teletext_item,
    new_descriptor_unknown, new_descriptor_vbi_data, vbi_data_service, opt_byte, rest_bytes, bytes_to;
  pres_tac;
  first [ apply pres_parse_dvb_duration_minutes | apply pres_parse_dvb_time ].
Qed.

Lemma hdr_parse_descriptor_body : body_hdr parse_descriptor_body.
Proof.
  intros t l e i d i'. unfold parse_descriptor_body.
  repeat match goal with |- (if ?c then _ else _) _ = _ -> _ => destruct c end;
  unfold ibind;
  match goal with |- match ?m i with _ => _ end = _ -> _ => destruct (m i) as [[v i1]| |]; try discriminate end;
  unfold iret; intros H; inversion H; subst; split; reflexivity.
Qed.

(* ---- reading the two header bytes ---- *)

Lemma nth_skipn {A} (l : list A) n k d : nth k (skipn n l) d = nth (n + k) l d.
Proof. revert l. induction n as [|n IH]; intros l; [reflexivity|]. destruct l; [destruct k; reflexivity|]. cbn [skipn]. rewrite IH. reflexivity. Qed.

Lemma next_two bs pos r i' : next_bytes_nocopy 2 (mk_iter bs pos) = Ok (r, i') ->
  0 <= pos /\ pos + 2 <= zlen bs /\ i' = mk_iter bs (pos + 2) /\
  byte_at r 0 = byte_of bs pos /\ byte_at r 1 = byte_of bs (pos + 1) /\ length r = 2%nat.
Proof.
  intros H. apply next_bytes_ok in H. cbn [ibs ioff] in H. destruct H as (_ & Hp & Hl & Hbs & Hoff & Hr).
  unfold ilen in Hl; cbn [ibs] in Hl. split; [lia|]. split; [exact Hl|]. split.
  { destruct i'; cbn in *; subst; reflexivity. }
  subst r. unfold byte_at, byte_of, slice. replace (pos + 2 - pos) with 2 by lia.
  assert (Hlen : (2 <= length (skipn (Z.to_nat pos) bs))%nat) by (rewrite skipn_length; unfold zlen in Hl; lia).
  destruct (skipn (Z.to_nat pos) bs) as [|x [|y l]] eqn:E; cbn [length] in Hlen; try lia.
  cbn [Z.to_nat Pos.to_nat Pos.iter_op firstn nth length]. 
  pose proof (nth_skipn bs (Z.to_nat pos) 0 0) as N0. pose proof (nth_skipn bs (Z.to_nat pos) 1 0) as N1.
  rewrite E in N0, N1. cbn [nth] in N0, N1. rewrite Nat.add_0_r in N0.
  replace (Z.to_nat (pos + 1)) with (Z.to_nat pos + 1)%nat by lia. auto.
Qed.

(* ---- one round ---- *)

Lemma parse_descriptor_with_spec body bs pos d i' : body_pres body ->
  parse_descriptor_with body (mk_iter bs pos) = Ok (d, i') ->
  0 <= pos /\ pos + 2 <= zlen bs /\ ibs i' = bs /\
  ((byte_of bs (pos + 1) <= 0 /\ d = desc_hdr (byte_of bs pos) (byte_of bs (pos + 1)) /\ ioff i' = pos + 2) \/
   (0 < byte_of bs (pos + 1) /\ ioff i' = pos + 2 + byte_of bs (pos + 1) /\
    exists i1, body (byte_of bs pos) (byte_of bs (pos + 1)) (pos + 2 + byte_of bs (pos + 1)) (mk_iter bs (pos + 2)) = Ok (d, i1))).
Proof.
  intros Hp H. unfold parse_descriptor_with, ibind in H.
  destruct (next_bytes_nocopy 2 (mk_iter bs pos)) as [[r i1]| |] eqn:E; try discriminate.
  apply next_two in E. destruct E as (H0 & H2 & -> & Et & El & _). rewrite Et, El in H.
  split; [exact H0|]. split; [exact H2|].
  destruct (byte_of bs (pos + 1) >? 0) eqn:Eg.
  - unfold ioffset in H. cbn [ioff] in H.
    destruct (body _ _ _ (mk_iter bs (pos + 2))) as [[d1 i2]| |] eqn:Eb; try discriminate.
    unfold iseek, iret in H. inversion H; subst. cbn [ibs ioff].
    split; [apply (Hp _ _ _ _ _ _ Eb)|]. right. split; [lia|]. split; [reflexivity|]. eexists; reflexivity.
  - unfold iret in H. inversion H; subst. cbn [ibs ioff]. split; [reflexivity|]. left. split; [lia|]. auto.
Qed.

(* ---- the loop ---- *)

Lemma descriptor_loop_spec body bs endp : body_pres body -> forall k pos ds i',
  iloop_fuel k endp (parse_descriptor_with body) (mk_iter bs pos) = Ok (ds, i') ->
  ibs i' = bs /\ tlv_parse desc_hdr body bs endp pos ds (ioff i').
Proof.
  intros Hp. induction k as [|k IH]; intros pos ds i' H; [discriminate|].
  cbn [iloop_fuel] in H. unfold ibind at 1 in H. unfold ioffset at 1 in H. cbn [ioff] in H.
  destruct (pos <? endp) eqn:El.
  - unfold ibind at 1 in H.
    destruct (parse_descriptor_with body (mk_iter bs pos)) as [[d i1]| |] eqn:Ed; try discriminate.
    unfold ibind at 1 in H. destruct i1 as [bs1 off1].
    destruct (parse_descriptor_with_spec body bs pos d _ Hp Ed) as (H0 & H2 & Hbs & Hcase). cbn [ibs ioff] in Hbs, Hcase. subst bs1.
    destruct (iloop_fuel k endp (parse_descriptor_with body) (mk_iter bs off1)) as [[r i2]| |] eqn:Er; try discriminate.
    unfold iret in H. inversion H; subst. destruct (IH _ _ _ Er) as [Hb Ht]. split; [exact Hb|].
    destruct Hcase as [(Hz & -> & Ho)|(Hz & Ho & i3 & Eb)]; subst off1.
    + apply tlv_parse_empty; try assumption; lia.
    + eapply tlv_parse_body; try eassumption; lia.
  - unfold iret in H. inversion H; subst. cbn [ibs ioff]. split; [reflexivity|]. apply tlv_parse_done. lia.
Qed.

(* the 12 bits of the loop length *)
Lemma bits_of_split a b v : bits_of (a + b) v = bits_of a (v / 2 ^ Z.of_nat b) ++ bits_of b v.
Proof.
  induction a as [|a IH]; [reflexivity|]. cbn [Nat.add bits_of app]. rewrite IH. f_equal.
  rewrite Z.div_pow2_bits by lia. f_equal. lia.
Qed.

Lemma Z_of_bits_app l1 l2 : Z_of_bits (l1 ++ l2) = Z_of_bits l1 * 2 ^ Z.of_nat (length l2) + Z_of_bits l2.
Proof.
  unfold Z_of_bits. rewrite Z_of_bits_acc_app. generalize (Z_of_bits_acc l1 0) as acc. intros acc.
  rewrite <- (bits_of_Z_of_bits l2) at 1. rewrite Z_of_bits_acc_bits_of.
  pose proof (Z_of_bits_range l2). fold (Z_of_bits l2). rewrite Z.mod_small by exact H. reflexivity.
Qed.

Lemma loop_length_bits r b0 b1 : length r = 2%nat -> byte_at r 0 = b0 -> byte_at r 1 = b1 ->
  bitsf r 4 12 = (b0 mod 16) * 256 + b1 mod 256.
Proof.
  intros Hl E0 E1. destruct r as [|x [|y [|z r]]]; try discriminate. unfold byte_at in *. cbn [nth] in *. subst.
  unfold bitsf, bits_of_bytes. cbn [flat_map]. rewrite app_nil_r.
  change 8%nat with (4 + 4)%nat at 1. rewrite bits_of_split, <- app_assoc.
  rewrite (field_skip 4) by lia. change (4 - 4)%nat with 0%nat.
  unfold field. cbn [skipn]. rewrite firstn_all2 by (rewrite app_length, !bits_of_length; lia).
  rewrite Z_of_bits_app, !Z_of_bits_of_mod, bits_of_length. reflexivity.
Qed.

(* parseDescriptors with any body parser that leaves the byte slice alone: on success the descriptors are the
   results of the body parser on the TLV entries of the loop, each started at its own entry, and the iterator
   is left where the entries end *)
Theorem parse_descriptors_tlv body bs pos ds i' : body_pres body ->
  parse_descriptors_with body (mk_iter bs pos) = Ok (ds, i') ->
  0 <= pos /\ pos + 2 <= zlen bs /\ ibs i' = bs /\
  tlv_parse desc_hdr body bs (pos + 2 + loop_length_at bs pos) (pos + 2) ds (ioff i').
Proof.
  intros Hp H. unfold parse_descriptors_with in H. unfold ibind at 1 in H.
  destruct (next_bytes_nocopy 2 (mk_iter bs pos)) as [[r i1]| |] eqn:E; try discriminate.
  apply next_two in E. destruct E as (H0 & H2 & -> & Et & El & Hr).
  rewrite (loop_length_bits r _ _ Hr Et El) in H. fold (loop_length_at bs pos) in H.
  split; [exact H0|]. split; [exact H2|].
  destruct (loop_length_at bs pos >? 0) eqn:Eg.
  - unfold ibind at 1 in H. unfold ioffset at 1 in H. cbn [ioff] in H. unfold iloop, ibind at 1, ioffset at 1 in H. cbn [ioff] in H.
    apply (descriptor_loop_spec body bs _ Hp) in H. exact H.
  - unfold iret in H. inversion H; subst. cbn [ibs ioff]. split; [reflexivity|]. apply tlv_parse_done. lia.
Qed.

(* the entries are a function of the bytes alone *)
Lemma tlv_chain_det bs endp pos es fin : tlv_chain bs endp pos es fin ->
  forall es' fin', tlv_chain bs endp pos es' fin' -> es' = es /\ fin' = fin.
Proof.
  induction 1 as [pos Hge|pos es fin Hlt H0 H2 _ IH]; intros es' fin' H'; inversion H'; subst; try lia.
  - split; reflexivity.
  - match goal with Hc : tlv_chain _ _ _ _ fin' |- _ => destruct (IH _ _ Hc) as [-> ->] end. split; reflexivity.
Qed.

(* the walk stops at the first entry boundary that is not before the declared end of the loop *)
Lemma tlv_chain_fin bs endp pos es fin : tlv_chain bs endp pos es fin -> endp <= fin.
Proof. induction 1; lia. Qed.

Lemma byte_of_range bs p : bytes_ok bs -> 0 <= byte_of bs p < 256.
Proof.
  intros H. unfold byte_of. destruct (nth_in_or_default (Z.to_nat p) bs 0) as [Hin|Hd]; [|lia].
  unfold bytes_ok in H. rewrite Forall_forall in H. apply H in Hin. exact Hin.
Qed.

(* tags and lengths returned = tags and lengths of the entries (for byte strings: every element in 0..255) *)
Lemma tlv_parse_chain body bs endp pos ds fin : body_hdr body -> bytes_ok bs ->
  tlv_parse desc_hdr body bs endp pos ds fin ->
  exists es, tlv_chain bs endp pos es fin /\
             map (fun d => (Descriptor_Tag d, Descriptor_Length d)) ds = map (fun e => (snd (fst e), snd e)) es.
Proof.
  intros Hh Hok. induction 1 as [pos Hge|pos ds fin Hlt H0 H2 Hz _ IH|pos d i' ds fin Hlt H0 H2 Hz Eb _ IH].
  - exists []. split; [constructor; exact Hge|reflexivity].
  - destruct IH as (es & Hc & Hm). exists ((pos, byte_of bs pos, byte_of bs (pos + 1)) :: es).
    pose proof (byte_of_range bs (pos + 1) Hok) as Hr. assert (Ez : byte_of bs (pos + 1) = 0) by lia. split.
    + constructor; try assumption. rewrite Ez. replace (pos + 2 + 0) with (pos + 2) by lia. exact Hc.
    + cbn [map fst snd]. rewrite Hm. reflexivity.
  - destruct IH as (es & Hc & Hm). destruct (Hh _ _ _ _ _ _ Eb) as [Et El].
    exists ((pos, byte_of bs pos, byte_of bs (pos + 1)) :: es). split; [constructor; assumption|].
    cbn [map fst snd]. rewrite Hm, Et, El. reflexivity.
Qed.

(* C14_tlv for the concrete parser *)
Theorem parse_descriptors_framing bs pos ds i' : bytes_ok bs ->
  parse_descriptors (mk_iter bs pos) = Ok (ds, i') ->
  let endp := pos + 2 + loop_length_at bs pos in
  ibs i' = bs /\
  tlv_parse desc_hdr parse_descriptor_body bs endp (pos + 2) ds (ioff i') /\
  exists es, tlv_chain bs endp (pos + 2) es (ioff i') /\
             map (fun d => (Descriptor_Tag d, Descriptor_Length d)) ds = map (fun e => (snd (fst e), snd e)) es /\
             endp <= ioff i'.
Proof.
  intros Hok H endp. destruct (parse_descriptors_tlv _ _ _ _ _ pres_parse_descriptor_body H) as (H0 & H2 & Hbs & Ht).
  split; [exact Hbs|]. split; [exact Ht|].
  destruct (tlv_parse_chain _ _ _ _ _ _ hdr_parse_descriptor_body Hok Ht) as (es & Hc & Hm).
  exists es. split; [exact Hc|]. split; [exact Hm|]. apply (tlv_chain_fin _ _ _ _ _ Hc).
Qed.

(* when the entries tile the loop exactly (the last one ends at the declared end), parseDescriptors consumes
   exactly 2 + loop length bytes *)
Lemma tlv_chain_exact bs endp pos es fin : tlv_chain bs endp pos es fin ->
  (es = [] /\ fin = pos) \/ (es <> [] /\ exists p t l, last es (0, 0, 0) = (p, t, l) /\ fin = p + 2 + l).
Proof.
  induction 1 as [pos Hge|pos es fin Hlt H0 H2 Hc IH]; [left; auto|right]. split; [discriminate|].
  destruct IH as [[-> ->]|(Hne & p & t & l & El & Ef)].
  - do 3 eexists. split; reflexivity.
  - exists p, t, l. split; [|exact Ef]. destruct es; [contradiction|exact El].
Qed.
