From Coq Require Import ZArith List.
