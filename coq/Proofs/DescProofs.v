(* Lemmas for C14: sizes of the descriptor writers (C14_len), the TLV framing of parseDescriptors (C14_tlv),
   per-tag round trips. *)
From Coq Require Import ZArith List Lia Bool ZifyBool.
Require Import Base.Bits Base.Iter Base.Wr Gen.Consts Gen.Types Gen.Preds Model.Dvb Model.Desc Spec.DescSpec.
Import ListNotations.
Open Scope Z_scope.

(* ================= part A: sizes ================= *)

(* number of bits an item list hands to the BitsWriter *)
Definition bitlen (l : list witem) : Z := Z.of_nat (length (items_bits l)).

Lemma bitlen_nil : bitlen [] = 0. Proof. reflexivity. Qed.
Lemma bitlen_app a b : bitlen (a ++ b) = bitlen a + bitlen b.
Proof. unfold bitlen. rewrite items_bits_app, app_length. lia. Qed.
Lemma bitlen_cons it l : bitlen (it :: l) = bitlen [it] + bitlen l.
Proof. change (it :: l) with ([it] ++ l). apply bitlen_app. Qed.
Lemma bitlen_bits w v : bitlen [WBits w v] = Z.of_nat w.
Proof. unfold bitlen, items_bits; cbn [flat_map item_bits]. rewrite app_nil_r, bits_of_length. reflexivity. Qed.
Lemma bitlen_bool b : bitlen [WBool b] = 1. Proof. reflexivity. Qed.
Lemma bitlen_bytes bs : bitlen [WBytes bs] = 8 * zlen bs.
Proof. unfold bitlen, items_bits, zlen; cbn [flat_map item_bits]. rewrite app_nil_r, bits_of_bytes_length. lia. Qed.
Lemma bitlen_repeat it n : bitlen (repeat it n) = Z.of_nat n * bitlen [it].
Proof. induction n as [|n IH]; [reflexivity|]. cbn [repeat]. rewrite bitlen_cons, IH. lia. Qed.

Lemma bitlen_wbytesn bs n pad : bitlen (wbytesn bs n pad) = 8 * Z.of_nat n.
Proof.
  unfold wbytesn. destruct (n =? 0)%nat eqn:E0; [apply Nat.eqb_eq in E0; subst; reflexivity|].
  destruct (n <=? length bs)%nat eqn:E1.
  - apply Nat.leb_le in E1. rewrite bitlen_bytes. unfold zlen. rewrite firstn_length. lia.
  - apply Nat.leb_gt in E1. rewrite bitlen_cons, bitlen_bytes, bitlen_repeat. unfold wu8. rewrite bitlen_bits. unfold zlen. lia.
Qed.

Lemma bitlen_wif c l : bitlen (wif c l) = if c then bitlen l else 0.
Proof. destruct c; reflexivity. Qed.

Lemma bitlen_flat_map {A} (f : A -> list witem) (g : A -> Z) (l : list A) :
  (forall x, bitlen (f x) = g x) -> bitlen (flat_map f l) = sumZ g l.
Proof.
  intros H. induction l as [|x l IH]; [reflexivity|]. cbn [flat_map sumZ fold_right]. rewrite bitlen_app, H, IH. reflexivity.
Qed.

Lemma sumZ_const {A} (l : list A) k : sumZ (fun _ => k) l = k * zlen l.
Proof. unfold zlen. induction l as [|x l IH]; [cbn; lia|]. cbn [sumZ fold_right length]. unfold sumZ in IH. rewrite IH. lia. Qed.

Lemma sumZ_ext {A} (f g : A -> Z) l : (forall x, f x = g x) -> sumZ f l = sumZ g l.
Proof. intros H. induction l as [|x l IH]; [reflexivity|]. cbn [sumZ fold_right]. unfold sumZ in IH. rewrite H, IH. reflexivity. Qed.

Lemma blen_zlen bs : blen bs = zlen bs. Proof. reflexivity. Qed.

Ltac bl := unfold wu8, wu16, wu32;
  repeat first [ rewrite bitlen_app | rewrite bitlen_wbytesn | rewrite bitlen_wif | rewrite bitlen_bits
               | rewrite bitlen_bool | rewrite bitlen_bytes | rewrite bitlen_nil
               | rewrite (bitlen_cons _ (_ :: _)) ].

(* the DVB time writers behind the local time offset descriptor, through the interface of Model/Dvb.v *)
Lemma bitlen_enc_dvb_duration_minutes ns : bitlen (enc_dvb_duration_minutes ns) = 16.
Proof. unfold enc_dvb_duration_minutes. bl. reflexivity. Qed.
Lemma bitlen_enc_dvb_time t : bitlen (enc_dvb_time t) = 40.
Proof.
  unfold enc_dvb_time, enc_dvb_duration_seconds.
  repeat match goal with |- context [let '(_, _) := ?x in _] => destruct x end.
  bl. reflexivity.
Qed.

(* ---- L1: every body writer emits 8 * size bits ---- *)

Lemma bitlen_enc_ac3 v : bitlen (enc_ac3 v) = 8 * size_ac3 v.
Proof.
  unfold enc_ac3, size_ac3. bl.
  destruct (DescriptorAC3_HasComponentType v), (DescriptorAC3_HasBSID v), (DescriptorAC3_HasMainID v), (DescriptorAC3_HasASVC v);
    cbn [Z.b2z]; bl; lia.
Qed.

Lemma bitlen_enc_avc_video v : bitlen (enc_avc_video v) = 8 * size_avc_video v.
Proof. unfold enc_avc_video, size_avc_video. bl. reflexivity. Qed.

Lemma bitlen_enc_component v : bitlen (enc_component v) = 8 * size_component v.
Proof. unfold enc_component, size_component. bl. lia. Qed.

Lemma bitlen_enc_content v : bitlen (enc_content v) = 8 * size_content v.
Proof.
  unfold enc_content, size_content. rewrite (bitlen_flat_map _ (fun _ => 16)).
  - rewrite sumZ_const. lia.
  - intros x. unfold enc_content_item. bl. reflexivity.
Qed.

Lemma bitlen_enc_data_stream_alignment v : bitlen (enc_data_stream_alignment v) = 8 * size_data_stream_alignment v.
Proof. unfold enc_data_stream_alignment. bl. reflexivity. Qed.

Lemma bitlen_enc_enhanced_ac3 v : bitlen (enc_enhanced_ac3 v) = 8 * size_enhanced_ac3 v.
Proof.
  unfold enc_enhanced_ac3, size_enhanced_ac3. bl.
  destruct (DescriptorEnhancedAC3_HasComponentType v), (DescriptorEnhancedAC3_HasBSID v), (DescriptorEnhancedAC3_HasMainID v),
    (DescriptorEnhancedAC3_HasASVC v), (DescriptorEnhancedAC3_HasSubStream1 v), (DescriptorEnhancedAC3_HasSubStream2 v),
    (DescriptorEnhancedAC3_HasSubStream3 v); cbn [Z.b2z]; bl; lia.
Qed.

Lemma bitlen_enc_extended_event v : bitlen (enc_extended_event v) = 8 * size_extended_event v.
Proof.
  unfold enc_extended_event, size_extended_event, size_extended_event_items. bl.
  rewrite (bitlen_flat_map _ (fun it => 8 * size_extended_event_item it)).
  - assert (E : forall l, sumZ (fun it => 8 * size_extended_event_item it) l = 8 * sumZ size_extended_event_item l).
    { induction l as [|x l IH]; [reflexivity|]. cbn [sumZ fold_right]. unfold sumZ in IH. rewrite IH. lia. }
    rewrite E. lia.
  - intros it. unfold enc_extended_event_item, size_extended_event_item. bl. lia.
Qed.

Lemma bitlen_enc_supplementary_audio v :
  bitlen (enc_extension_supplementary_audio v) = 8 * size_supplementary_audio v.
Proof.
  unfold enc_extension_supplementary_audio, size_supplementary_audio. bl.
  destruct (DescriptorExtensionSupplementaryAudio_HasLanguageCode v); bl; lia.
Qed.

Lemma bitlen_enc_extension v its : enc_extension v = Ok its -> bitlen its = 8 * size_extension v.
Proof.
  unfold enc_extension, size_extension.
  destruct (DescriptorExtension_Tag v =? C_DescriptorTagExtensionSupplementaryAudio).
  - destruct (DescriptorExtension_SupplementaryAudio v) as [s|]; cbn [dneed res_map]; [|discriminate].
    intros H; inversion H; subst. rewrite bitlen_cons, bitlen_enc_supplementary_audio. bl. lia.
  - intros H; inversion H; subst. destruct (DescriptorExtension_Unknown v); bl; lia.
Qed.

Lemma bitlen_enc_iso639 v : bitlen (enc_iso639 v) = 8 * size_iso639 v.
Proof. unfold enc_iso639, size_iso639. bl. reflexivity. Qed.

Lemma bitlen_enc_local_time_offset v : bitlen (enc_local_time_offset v) = 8 * size_local_time_offset v.
Proof.
  unfold enc_local_time_offset, size_local_time_offset. rewrite (bitlen_flat_map _ (fun _ => 104)).
  - rewrite sumZ_const. lia.
  - intros x. unfold enc_local_time_offset_item. bl.
    rewrite !bitlen_enc_dvb_duration_minutes, bitlen_enc_dvb_time. reflexivity.
Qed.

Lemma bitlen_enc_maximum_bitrate v : bitlen (enc_maximum_bitrate v) = 8 * size_maximum_bitrate v.
Proof. unfold enc_maximum_bitrate. bl. reflexivity. Qed.

Lemma bitlen_enc_network_name v : bitlen (enc_network_name v) = 8 * size_network_name v.
Proof. unfold enc_network_name, size_network_name. bl. reflexivity. Qed.

Lemma bitlen_enc_parental_rating v : bitlen (enc_parental_rating v) = 8 * size_parental_rating v.
Proof.
  unfold enc_parental_rating, size_parental_rating. rewrite (bitlen_flat_map _ (fun _ => 32)).
  - rewrite sumZ_const. lia.
  - intros x. unfold enc_parental_rating_item. bl. reflexivity.
Qed.

Lemma bitlen_enc_private_data_indicator v : bitlen (enc_private_data_indicator v) = 8 * size_private_data_indicator v.
Proof. unfold enc_private_data_indicator. bl. reflexivity. Qed.
Lemma bitlen_enc_private_data_specifier v : bitlen (enc_private_data_specifier v) = 8 * size_private_data_specifier v.
Proof. unfold enc_private_data_specifier. bl. reflexivity. Qed.

Lemma bitlen_enc_registration v : bitlen (enc_registration v) = 8 * size_registration v.
Proof. unfold enc_registration, size_registration. bl. lia. Qed.

Lemma bitlen_enc_service v : bitlen (enc_service v) = 8 * size_service v.
Proof. unfold enc_service, size_service. bl. lia. Qed.

Lemma bitlen_enc_short_event v : bitlen (enc_short_event v) = 8 * size_short_event v.
Proof. unfold enc_short_event, size_short_event. bl. lia. Qed.

Lemma bitlen_enc_stream_identifier v : bitlen (enc_stream_identifier v) = 8 * size_stream_identifier v.
Proof. unfold enc_stream_identifier. bl. reflexivity. Qed.

Lemma bitlen_enc_subtitling v : bitlen (enc_subtitling v) = 8 * size_subtitling v.
Proof.
  unfold enc_subtitling, size_subtitling. rewrite (bitlen_flat_map _ (fun _ => 64)).
  - rewrite sumZ_const. lia.
  - intros x. unfold enc_subtitling_item. bl. reflexivity.
Qed.

Lemma bitlen_enc_teletext v : bitlen (enc_teletext v) = 8 * size_teletext v.
Proof.
  unfold enc_teletext, size_teletext. rewrite (bitlen_flat_map _ (fun _ => 40)).
  - rewrite sumZ_const. lia.
  - intros x. unfold enc_teletext_item. bl. reflexivity.
Qed.

(* the six line-based VBI services of the code are those of EN 300 468 table 105 *)
Lemma is_vbi_line_service_spec id : is_vbi_line_service id = spec_is_vbi_line_service id.
Proof.
  unfold is_vbi_line_service, spec_is_vbi_line_service.
  unfold C_VBIDataServiceIDClosedCaptioning, C_VBIDataServiceIDEBUTeletext, C_VBIDataServiceIDInvertedTeletext,
    C_VBIDataServiceIDMonochrome442Samples, C_VBIDataServiceIDVPS, C_VBIDataServiceIDWSS.
  destruct (id =? 1) eqn:?, (id =? 2) eqn:?, (id =? 4) eqn:?, (id =? 5) eqn:?, (id =? 6) eqn:?, (id =? 7) eqn:?; reflexivity.
Qed.

Lemma bitlen_enc_vbi_data v : bitlen (enc_vbi_data v) = 8 * size_vbi_data v.
Proof.
  unfold enc_vbi_data, size_vbi_data.
  rewrite (bitlen_flat_map _ (fun s => 8 * size_vbi_data_service s)).
  - induction (DescriptorVBIData_Services v) as [|x l IH]; [reflexivity|]. cbn [sumZ fold_right]. unfold sumZ in IH. rewrite IH. lia.
  - intros s. unfold enc_vbi_data_service, size_vbi_data_service. rewrite is_vbi_line_service_spec.
    destruct (spec_is_vbi_line_service _).
    + rewrite bitlen_cons, (bitlen_cons _ (flat_map _ _)). rewrite (bitlen_flat_map _ (fun _ => 8)).
      * rewrite sumZ_const. bl. unfold zlen. lia.
      * intros l. unfold enc_vbi_line. bl. reflexivity.
    + bl. reflexivity.
Qed.

Lemma bitlen_enc_unknown v : bitlen (enc_unknown v) = 8 * size_unknown v.
Proof. unfold enc_unknown, size_unknown. bl. reflexivity. Qed.

(* ---- L2: the length calculators (re-translated from descriptor.go) are the sizes modulo 256 ---- *)

Lemma b2z_if (b : bool) (x : Z) : (if b then x + 1 else x) = x + Z.b2z b.
Proof. destruct b; cbn [Z.b2z]; lia. Qed.

Lemma calc_ac3_size v : calcDescriptorAC3Length (Some v) = size_ac3 v mod 256.
Proof. unfold calcDescriptorAC3Length, size_ac3, zlen. cbn [odflt]. rewrite !b2z_if. f_equal. Qed.
Lemma calc_avc_video_size v : calcDescriptorAVCVideoLength (Some v) = size_avc_video v mod 256.
Proof. reflexivity. Qed.
Lemma calc_component_size v : calcDescriptorComponentLength (Some v) = size_component v mod 256.
Proof. reflexivity. Qed.
Lemma calc_content_size v : calcDescriptorContentLength (Some v) = size_content v mod 256.
Proof. reflexivity. Qed.
Lemma calc_data_stream_alignment_size v : calcDescriptorDataStreamAlignmentLength (Some v) = size_data_stream_alignment v mod 256.
Proof. reflexivity. Qed.
Lemma calc_enhanced_ac3_size v : calcDescriptorEnhancedAC3Length (Some v) = size_enhanced_ac3 v mod 256.
Proof. unfold calcDescriptorEnhancedAC3Length, size_enhanced_ac3, zlen. cbn [odflt]. rewrite !b2z_if. f_equal. Qed.

Lemma extended_event_loop l a :
  fold_left calcDescriptorExtendedEventLength_loop1 l a = a + sumZ size_extended_event_item l.
Proof.
  revert a. induction l as [|x l IH]; intros a; [cbn; lia|].
  cbn [fold_left sumZ fold_right]. rewrite IH. unfold calcDescriptorExtendedEventLength_loop1, size_extended_event_item, zlen, sumZ. lia.
Qed.
Lemma calc_extended_event_size v :
  calcDescriptorExtendedEventLength (Some v) = (size_extended_event v mod 256, size_extended_event_items v mod 256).
Proof.
  unfold calcDescriptorExtendedEventLength, size_extended_event, size_extended_event_items. cbn [odflt].
  rewrite extended_event_loop. unfold zlen. f_equal; f_equal; lia.
Qed.

Lemma calc_supplementary_audio_size v :
  calcDescriptorExtensionSupplementaryAudioLength (Some v) = size_supplementary_audio v.
Proof.
  unfold calcDescriptorExtensionSupplementaryAudioLength, size_supplementary_audio, zlen. cbn [odflt].
  destruct (DescriptorExtensionSupplementaryAudio_HasLanguageCode v); lia.
Qed.
Lemma calc_extension_size v : calc_extension_length (Some v) = size_extension v mod 256.
Proof.
  unfold calc_extension_length, size_extension.
  destruct (DescriptorExtension_Tag v =? C_DescriptorTagExtensionSupplementaryAudio).
  - destruct (DescriptorExtension_SupplementaryAudio v) as [s|]; [rewrite calc_supplementary_audio_size|]; reflexivity.
  - destruct (DescriptorExtension_Unknown v); f_equal; unfold blen, zlen; lia.
Qed.
Lemma calc_iso639_size v : calcDescriptorISO639LanguageAndAudioTypeLength (Some v) = size_iso639 v mod 256.
Proof. reflexivity. Qed.
Lemma calc_local_time_offset_size v : calcDescriptorLocalTimeOffsetLength (Some v) = size_local_time_offset v mod 256.
Proof. reflexivity. Qed.
Lemma calc_maximum_bitrate_size v : calcDescriptorMaximumBitrateLength (Some v) = size_maximum_bitrate v mod 256.
Proof. reflexivity. Qed.
Lemma calc_network_name_size v : calcDescriptorNetworkNameLength (Some v) = size_network_name v mod 256.
Proof. reflexivity. Qed.
Lemma calc_parental_rating_size v : calcDescriptorParentalRatingLength (Some v) = size_parental_rating v mod 256.
Proof. reflexivity. Qed.
Lemma calc_private_data_indicator_size v : calcDescriptorPrivateDataIndicatorLength (Some v) = size_private_data_indicator v mod 256.
Proof. reflexivity. Qed.
Lemma calc_private_data_specifier_size v : calcDescriptorPrivateDataSpecifierLength (Some v) = size_private_data_specifier v mod 256.
Proof. reflexivity. Qed.
Lemma calc_registration_size v : calcDescriptorRegistrationLength (Some v) = size_registration v mod 256.
Proof. reflexivity. Qed.
Lemma calc_service_size v : calcDescriptorServiceLength (Some v) = size_service v mod 256.
Proof. unfold calcDescriptorServiceLength, size_service, zlen. cbn [odflt]. f_equal. lia. Qed.
Lemma calc_short_event_size v : calcDescriptorShortEventLength (Some v) = size_short_event v mod 256.
Proof. unfold calcDescriptorShortEventLength, size_short_event, zlen. cbn [odflt]. f_equal. Qed.
Lemma calc_stream_identifier_size v : calcDescriptorStreamIdentifierLength (Some v) = size_stream_identifier v mod 256.
Proof. reflexivity. Qed.
Lemma calc_subtitling_size v : calcDescriptorSubtitlingLength (Some v) = size_subtitling v mod 256.
Proof. reflexivity. Qed.
Lemma calc_teletext_size v : calcDescriptorTeletextLength (Some v) = size_teletext v mod 256.
Proof. reflexivity. Qed.

Lemma vbi_data_loop l a : fold_left calcDescriptorVBIDataLength_loop1 l a = a + sumZ size_vbi_data_service l.
Proof.
  revert a. induction l as [|x l IH]; intros a; [cbn; lia|].
  cbn [fold_left sumZ fold_right]. rewrite IH. unfold calcDescriptorVBIDataLength_loop1, size_vbi_data_service, sumZ.
  fold (is_vbi_line_service (DescriptorVBIDataService_DataServiceID x)). rewrite is_vbi_line_service_spec.
  destruct (spec_is_vbi_line_service _); unfold zlen; lia.
Qed.
Lemma calc_vbi_data_size v : calcDescriptorVBIDataLength (Some v) = size_vbi_data v mod 256.
Proof. unfold calcDescriptorVBIDataLength, size_vbi_data. cbn [odflt]. rewrite vbi_data_loop. f_equal. Qed.
Lemma calc_unknown_size v : calcDescriptorUnknownLength (Some v) = size_unknown v mod 256.
Proof. reflexivity. Qed.

(* ---- the tag dispatch ---- *)

Ltac unfold_tags := unfold C_DescriptorTagAC3, C_DescriptorTagAVCVideo, C_DescriptorTagComponent, C_DescriptorTagContent,
  C_DescriptorTagDataStreamAlignment, C_DescriptorTagEnhancedAC3, C_DescriptorTagExtendedEvent, C_DescriptorTagExtension,
  C_DescriptorTagISO639LanguageAndAudioType, C_DescriptorTagLocalTimeOffset, C_DescriptorTagMaximumBitrate,
  C_DescriptorTagNetworkName, C_DescriptorTagParentalRating, C_DescriptorTagPrivateDataIndicator,
  C_DescriptorTagPrivateDataSpecifier, C_DescriptorTagRegistration, C_DescriptorTagService, C_DescriptorTagShortEvent,
  C_DescriptorTagStreamIdentifier, C_DescriptorTagSubtitling, C_DescriptorTagTeletext, C_DescriptorTagVBIData,
  C_DescriptorTagVBITeletext in *.

Lemma is_user_defined_spec tag : is_user_defined tag = spec_is_user_defined tag.
Proof. reflexivity. Qed.

Lemma calc_none_0 :
  calcDescriptorAC3Length None = 0 /\ calcDescriptorAVCVideoLength None = 0 /\ calcDescriptorComponentLength None = 0 /\
  calcDescriptorContentLength None = 0 /\ calcDescriptorDataStreamAlignmentLength None = 0 /\
  calcDescriptorEnhancedAC3Length None = 0 /\ fst (calcDescriptorExtendedEventLength None) = 0 /\
  calc_extension_length None = 0 /\ calcDescriptorISO639LanguageAndAudioTypeLength None = 0 /\
  calcDescriptorLocalTimeOffsetLength None = 0 /\ calcDescriptorMaximumBitrateLength None = 0 /\
  calcDescriptorNetworkNameLength None = 0 /\ calcDescriptorParentalRatingLength None = 0 /\
  calcDescriptorPrivateDataIndicatorLength None = 0 /\ calcDescriptorPrivateDataSpecifierLength None = 0 /\
  calcDescriptorRegistrationLength None = 0 /\ calcDescriptorServiceLength None = 0 /\ calcDescriptorShortEventLength None = 0 /\
  calcDescriptorStreamIdentifierLength None = 0 /\ calcDescriptorSubtitlingLength None = 0 /\
  calcDescriptorTeletextLength None = 0 /\ calcDescriptorVBIDataLength None = 0 /\ calcDescriptorUnknownLength None = 0.
Proof. repeat split; reflexivity. Qed.

(* calcDescriptorLength is the size of the body the tag selects, modulo 256 *)
Ltac calc_case L :=
  match goal with
  | |- (if ?c then _ else _) = _ => destruct c;
      [ match goal with
        | |- fst (_ ?o) = _ => destruct o as [v|]; [cbn [osize]; rewrite L; reflexivity|reflexivity]
        | |- _ ?o = _ => destruct o as [v|]; [exact (L v)|reflexivity]
        end | ]
  end.

Lemma calc_descriptor_length_size d : calc_descriptor_length d = desc_size d mod 256.
Proof.
  unfold calc_descriptor_length, desc_size. rewrite is_user_defined_spec. unfold_tags.
  destruct (spec_is_user_defined (Descriptor_Tag d)); [reflexivity|].
  calc_case calc_ac3_size. calc_case calc_avc_video_size. calc_case calc_component_size. calc_case calc_content_size.
  calc_case calc_data_stream_alignment_size. calc_case calc_enhanced_ac3_size. calc_case calc_extended_event_size.
  calc_case calc_extension_size. calc_case calc_iso639_size. calc_case calc_local_time_offset_size.
  calc_case calc_maximum_bitrate_size. calc_case calc_network_name_size. calc_case calc_parental_rating_size.
  calc_case calc_private_data_indicator_size. calc_case calc_private_data_specifier_size. calc_case calc_registration_size.
  calc_case calc_service_size. calc_case calc_short_event_size. calc_case calc_stream_identifier_size.
  calc_case calc_subtitling_size. calc_case calc_teletext_size. calc_case calc_vbi_data_size. calc_case calc_teletext_size.
  destruct (Descriptor_Unknown d) as [v|]; [exact (calc_unknown_size v)|reflexivity].
Qed.

(* the body writer emits 8 * desc_size bits whenever it returns *)
Ltac body_case L :=
  match goal with
  | |- (if ?c then _ else _) = _ -> _ => destruct c;
      [ match goal with
        | |- res_map _ (dneed ?o) = _ -> _ => destruct o as [v|]; cbn [dneed res_map osize]; [|discriminate];
             let H := fresh "H" in intros H; inversion H; subst; clear H; exact (L v)
        end | ]
  end.

Lemma enc_descriptor_body_size d its : enc_descriptor_body d = Ok its -> bitlen its = 8 * desc_size d.
Proof.
  unfold enc_descriptor_body, desc_size. rewrite is_user_defined_spec. unfold_tags.
  destruct (spec_is_user_defined (Descriptor_Tag d)).
  { intros H; inversion H; subst. bl. reflexivity. }
  body_case bitlen_enc_ac3. body_case bitlen_enc_avc_video. body_case bitlen_enc_component. body_case bitlen_enc_content.
  body_case bitlen_enc_data_stream_alignment. body_case bitlen_enc_enhanced_ac3. body_case bitlen_enc_extended_event.
  destruct (Descriptor_Tag d =? 127).
  { destruct (Descriptor_Extension d) as [v|]; cbn [dneed res_bind osize]; [|discriminate]. apply bitlen_enc_extension. }
  body_case bitlen_enc_iso639. body_case bitlen_enc_local_time_offset. body_case bitlen_enc_maximum_bitrate.
  body_case bitlen_enc_network_name. body_case bitlen_enc_parental_rating. body_case bitlen_enc_private_data_indicator.
  body_case bitlen_enc_private_data_specifier. body_case bitlen_enc_registration. body_case bitlen_enc_service.
  body_case bitlen_enc_short_event. body_case bitlen_enc_stream_identifier. body_case bitlen_enc_subtitling.
  body_case bitlen_enc_teletext. body_case bitlen_enc_vbi_data. body_case bitlen_enc_teletext.
  destruct (Descriptor_Unknown d) as [v|]; cbn [dneed res_map osize]; [|discriminate].
  intros H; inversion H; subst. exact (bitlen_enc_unknown v).
Qed.

(* ---- sizes are non-negative ---- *)

Lemma zlen_nonneg {A} (l : list A) : 0 <= zlen l. Proof. unfold zlen. lia. Qed.
Lemma sumZ_nonneg {A} (f : A -> Z) l : (forall x, 0 <= f x) -> 0 <= sumZ f l.
Proof. intros H. induction l as [|x l IH]; [cbn; lia|]. cbn [sumZ fold_right]. unfold sumZ in IH. specialize (H x). lia. Qed.
Lemma b2z_nonneg b : 0 <= Z.b2z b. Proof. destruct b; cbn; lia. Qed.

Lemma desc_size_nonneg d : 0 <= desc_size d.
Proof.
  unfold desc_size.
  assert (Hs : forall l, 0 <= sumZ size_extended_event_item l).
  { intros l. apply sumZ_nonneg. intros x. unfold size_extended_event_item. pose proof (zlen_nonneg (DescriptorExtendedEventItem_Description x)).
    pose proof (zlen_nonneg (DescriptorExtendedEventItem_Content x)). lia. }
  assert (Hv : forall l, 0 <= sumZ size_vbi_data_service l).
  { intros l. apply sumZ_nonneg. intros x. unfold size_vbi_data_service. pose proof (zlen_nonneg (DescriptorVBIDataService_Descriptors x)).
    destruct (spec_is_vbi_line_service _); lia. }
  repeat match goal with
  | |- 0 <= (if ?c then _ else _) => destruct c
  | |- 0 <= zlen _ => apply zlen_nonneg
  | |- 0 <= osize _ ?o => destruct o as [v|]; cbn [osize]; [|lia]
  end;
  unfold size_ac3, size_avc_video, size_component, size_content, size_data_stream_alignment, size_enhanced_ac3,
    size_extended_event, size_extended_event_items, size_extension, size_supplementary_audio, size_iso639, size_local_time_offset,
    size_maximum_bitrate, size_network_name, size_parental_rating, size_private_data_indicator, size_private_data_specifier,
    size_registration, size_service, size_short_event, size_stream_identifier, size_subtitling, size_teletext, size_vbi_data, size_unknown;
  repeat match goal with
  | |- context [Z.b2z ?b] => pose proof (b2z_nonneg b); generalize dependent (Z.b2z b); intros
  | |- context [zlen ?l] => pose proof (zlen_nonneg l); generalize dependent (zlen l); intros
  | |- context [sumZ size_extended_event_item ?l] => pose proof (Hs l); generalize dependent (sumZ size_extended_event_item l); intros
  | |- context [sumZ size_vbi_data_service ?l] => pose proof (Hv l); generalize dependent (sumZ size_vbi_data_service l); intros
  | |- context [match ?o with Some _ => _ | None => _ end] => destruct o
  | |- context [if ?c then _ else _] => destruct c
  end; try lia.
Qed.

(* ---- from bits to bytes ---- *)

Lemma bytes_of_items_zlen a n : items_bytes_ok a -> bitlen a = 8 * n -> zlen (bytes_of_items a) = n.
Proof.
  intros Hok Hb. rewrite (chunks_concat a Hok). unfold zlen, bitlen in *.
  rewrite (bytes_of_bits_length (Z.to_nat n)); lia.
Qed.

Lemma bytes_of_items_app a b n : items_bytes_ok a -> items_bytes_ok b -> bitlen a = 8 * n ->
  bytes_of_items (a ++ b) = bytes_of_items a ++ bytes_of_items b.
Proof.
  intros Ha Hb Hn. rewrite (chunks_concat _ (items_bytes_ok_app _ _ Ha Hb)), (chunks_concat a Ha), (chunks_concat b Hb).
  rewrite items_bits_app. apply (bytes_of_bits_app (Z.to_nat n)). unfold bitlen in Hn. lia.
Qed.

Lemma bits_of_bytes_of_items a n : items_bytes_ok a -> bitlen a = 8 * n -> bits_of_bytes (bytes_of_items a) = items_bits a.
Proof.
  intros Hok Hb. rewrite (chunks_concat a Hok). apply (bits_of_bytes_of_bits (Z.to_nat n)). unfold bitlen in Hb. lia.
Qed.

Lemma items_bytes_ok_app_inv a b : items_bytes_ok (a ++ b) -> items_bytes_ok a /\ items_bytes_ok b.
Proof. unfold items_bytes_ok. apply Forall_app. Qed.

Lemma bytes_of_two_u8 t c : bytes_of_items [wu8 t; wu8 c] = [t mod 256; c mod 256].
Proof.
  rewrite chunks_concat by (repeat constructor). unfold wu8, items_bits. cbn [flat_map item_bits]. rewrite app_nil_r.
  rewrite bytes_of_bits_8 by apply bits_of_length. rewrite bytes_of_bits_bits_of_8, Z_of_bits_of_mod. reflexivity.
Qed.

(* ---- one descriptor ---- *)

(* bytes emitted behind the length byte: nothing when the computed length is 0, the whole body otherwise *)
Definition emitted (d : Descriptor) : Z := if calc_descriptor_length d =? 0 then 0 else desc_size d.

Lemma enc_descriptor_shape d its : enc_descriptor d = Ok its ->
  exists body, its = [wu8 (Descriptor_Tag d); wu8 (calc_descriptor_length d)] ++ body /\ bitlen body = 8 * emitted d.
Proof.
  unfold enc_descriptor, emitted. destruct (calc_descriptor_length d =? 0).
  - intros H; inversion H; subst. exists []. split; reflexivity.
  - destruct (enc_descriptor_body d) as [body| |] eqn:E; cbn [res_map]; try discriminate.
    intros H; inversion H; subst. exists body. split; [reflexivity|]. apply enc_descriptor_body_size. exact E.
Qed.

(* without uint8 wrap the length byte is the number of body bytes, whatever Descriptor_Length holds *)
Lemma emitted_nowrap d : desc_size d < 256 -> emitted d = desc_size d /\ calc_descriptor_length d = desc_size d.
Proof.
  intros H. pose proof (desc_size_nonneg d). unfold emitted. rewrite calc_descriptor_length_size, Z.mod_small by lia.
  split; [|reflexivity]. destruct (desc_size d =? 0) eqn:E; lia.
Qed.

(* with wrap: the length byte is the size modulo 256 and the body is still written in full, except that a
   size that is a multiple of 256 writes no body at all *)
Lemma emitted_wrap d : calc_descriptor_length d = desc_size d mod 256 /\
  emitted d = if desc_size d mod 256 =? 0 then 0 else desc_size d.
Proof. unfold emitted. rewrite calc_descriptor_length_size. split; reflexivity. Qed.

(* the bytes of one descriptor: tag, length byte, body *)
Lemma enc_descriptor_bytes d its : enc_descriptor d = Ok its -> items_bytes_ok its ->
  exists body, bytes_of_items its = [Descriptor_Tag d mod 256; calc_descriptor_length d mod 256] ++ body /\
               zlen body = emitted d /\ bitlen its = 8 * (2 + emitted d).
Proof.
  intros H Hok. destruct (enc_descriptor_shape d its H) as (body & -> & Hb).
  apply items_bytes_ok_app_inv in Hok. destruct Hok as [Hh Hbody].
  exists (bytes_of_items body). split; [|split].
  - rewrite (bytes_of_items_app _ _ 2) by (auto; reflexivity). rewrite bytes_of_two_u8. reflexivity.
  - apply bytes_of_items_zlen; assumption.
  - rewrite bitlen_app, Hb. unfold wu8. bl. lia.
Qed.

(* ---- a loop ---- *)

Definition entry_bytes (d : Descriptor) (body : list Z) : list Z :=
  [Descriptor_Tag d mod 256; calc_descriptor_length d mod 256] ++ body.

Fixpoint loop_bytes (ds : list Descriptor) (bodies : list (list Z)) : list Z :=
  match ds, bodies with
  | d :: ds', b :: bodies' => entry_bytes d b ++ loop_bytes ds' bodies'
  | _, _ => []
  end.

Lemma enc_descriptors_bytes ds : forall its, enc_descriptors ds = Ok its -> items_bytes_ok its ->
  exists bodies, bytes_of_items its = loop_bytes ds bodies /\
                 Forall2 (fun d b => zlen b = emitted d) ds bodies /\
                 bitlen its = 8 * sumZ (fun d => 2 + emitted d) ds.
Proof.
  induction ds as [|d ds IH]; intros its H Hok.
  - inversion H; subst. exists []. repeat split; constructor.
  - cbn [enc_descriptors] in H. destruct (enc_descriptor d) as [a| |] eqn:Ea; cbn [res_bind] in H; try discriminate.
    destruct (enc_descriptors ds) as [r| |] eqn:Er; cbn [res_map] in H; try discriminate.
    inversion H; subst. apply items_bytes_ok_app_inv in Hok. destruct Hok as [Hoa Hor].
    destruct (enc_descriptor_bytes d a Ea Hoa) as (body & Eb & Hl & Hbits).
    destruct (IH r eq_refl Hor) as (bodies & Ebs & HF & Hbits').
    exists (body :: bodies). split; [|split].
    + rewrite (bytes_of_items_app _ _ (2 + emitted d)) by assumption. rewrite Eb, Ebs. reflexivity.
    + constructor; assumption.
    + rewrite bitlen_app, Hbits, Hbits'. cbn [sumZ fold_right]. unfold sumZ. lia.
Qed.

(* calcDescriptorsLength without wrap *)
Lemma calc_descriptors_length_nowrap ds : Forall (fun d => desc_size d < 256) ds -> loop_size ds < 65536 ->
  calc_descriptors_length ds = loop_size ds.
Proof.
  unfold calc_descriptors_length, loop_size.
  assert (G : forall ds a, Forall (fun d => desc_size d < 256) ds -> 0 <= a -> a + sumZ (fun d => 2 + desc_size d) ds < 65536 ->
     fold_left (fun length d => ((length + 2) mod 65536 + calc_descriptor_length d) mod 65536) ds a = a + sumZ (fun d => 2 + desc_size d) ds).
  { clear. induction ds as [|d ds IH]; intros a HF Ha Hs; [cbn; lia|].
    inversion HF; subst. cbn [fold_left sumZ fold_right] in *. fold (sumZ (fun d => 2 + desc_size d) ds) in *.
    pose proof (desc_size_nonneg d). assert (0 <= sumZ (fun d => 2 + desc_size d) ds).
    { apply sumZ_nonneg. intros x. pose proof (desc_size_nonneg x). lia. }
    destruct (emitted_nowrap d H1) as [_ Ec]. rewrite Ec.
    rewrite (Z.mod_small (a + 2)) by lia. rewrite Z.mod_small by lia. rewrite IH by (auto; lia). lia. }
  intros HF Hs. rewrite G by (auto; lia). lia.
Qed.

(* C14_len: the loop length and every length byte equal the bytes actually emitted, for arbitrary
   Descriptor_Length fields, provided no body exceeds 255 bytes and the loop 4095 *)
Theorem descriptors_with_length_exact ds out :
  enc_descriptors_with_length ds = Ok out -> items_bytes_ok out ->
  Forall (fun d => desc_size d < 256) ds -> loop_size ds < 4096 ->
  let bytes := bytes_of_items out in
  exists hdr bodies,
    bytes = hdr ++ loop_bytes ds bodies /\ zlen hdr = 2 /\
    Forall2 (fun d b => zlen b = calc_descriptor_length d /\ zlen b = desc_size d) ds bodies /\
    bitsf bytes 4 12 = zlen bytes - 2 /\
    zlen bytes = 2 + loop_size ds.
Proof.
  intros H Hok HF Hs bytes. unfold enc_descriptors_with_length in H.
  destruct (enc_descriptors ds) as [its| |] eqn:E; cbn [res_map] in H; try discriminate.
  assert (Eo : out = [WBits 4 255; WBits 12 (calc_descriptors_length ds)] ++ its) by (inversion H; reflexivity).
  subst out; clear H.
  apply items_bytes_ok_app_inv in Hok. destruct Hok as [Hoh Hoi].
  destruct (enc_descriptors_bytes ds its E Hoi) as (bodies & Eb & HF2 & Hbits).
  assert (Esum : sumZ (fun d => 2 + emitted d) ds = loop_size ds).
  { unfold loop_size. clear -HF. induction HF as [|d ds Hd _ IH]; [reflexivity|]. cbn [sumZ fold_right]. unfold sumZ in IH. rewrite IH.
    destruct (emitted_nowrap d Hd) as [-> _]. reflexivity. }
  assert (Hh : bitlen [WBits 4 255; WBits 12 (calc_descriptors_length ds)] = 8 * 2) by (bl; reflexivity).
  assert (Hlen : zlen bytes = 2 + loop_size ds).
  { unfold bytes. apply bytes_of_items_zlen; [apply items_bytes_ok_app; assumption|]. rewrite bitlen_app, Hh, Hbits, Esum. lia. }
  exists (bytes_of_items [WBits 4 255; WBits 12 (calc_descriptors_length ds)]), bodies.
  split; [|split; [|split; [|split]]].
  - unfold bytes. rewrite (bytes_of_items_app _ _ 2) by assumption. rewrite Eb. reflexivity.
  - apply bytes_of_items_zlen; assumption.
  - clear -HF HF2. induction HF2 as [|d b ds bodies Hb _ IH]; [constructor|]. inversion HF; subst.
    constructor; [|apply IH; assumption]. destruct (emitted_nowrap d H1) as [E1 E2]. rewrite E2. lia.
  - rewrite Hlen. unfold bytes, bitsf.
    rewrite (bits_of_bytes_of_items _ (2 + loop_size ds)).
    2:{ apply items_bytes_ok_app; assumption. }
    2:{ rewrite bitlen_app, Hh, Hbits, Esum. lia. }
    rewrite items_bits_app. unfold items_bits at 1. cbn [flat_map item_bits]. rewrite app_nil_r, <- app_assoc.
    rewrite (field_skip 4) by lia. change (4 - 4)%nat with 0%nat. rewrite field_here_mod.
    pose proof (sumZ_nonneg (fun d => 2 + desc_size d) ds) as Hnn. unfold loop_size in *.
    rewrite calc_descriptors_length_nowrap by (auto; unfold loop_size; lia). unfold loop_size.
    rewrite Z.mod_small; [lia|]. split; [apply Hnn; intros x; pose proof (desc_size_nonneg x); lia|]. change (2 ^ Z.of_nat 12) with 4096. lia.
  - exact Hlen.
Qed.

(* ================= part B: TLV framing of parseDescriptors ================= *)

(* a parser that never touches the byte slice of the iterator *)
Definition pres {A} (m : IM A) : Prop := forall i a i', m i = Ok (a, i') -> ibs i' = ibs i.
Definition body_pres (body : Z -> Z -> Z -> IM Descriptor) : Prop := forall t l e, pres (body t l e).
(* a body parser that reports the tag and length it was given *)
Definition body_hdr (body : Z -> Z -> Z -> IM Descriptor) : Prop :=
  forall t l e i d i', body t l e i = Ok (d, i') -> Descriptor_Tag d = t /\ Descriptor_Length d = l.

Lemma pres_ret {A} (a : A) : pres (iret a).
Proof. intros i x i' H. inversion H; reflexivity. Qed.
Lemma pres_err {A} c : pres (@ierr A c). Proof. intros i x i' H. discriminate. Qed.
Lemma pres_panic {A} : pres (@ipanic A). Proof. intros i x i' H. discriminate. Qed.
Lemma pres_bind {A B} (m : IM A) (f : A -> IM B) : pres m -> (forall a, pres (f a)) -> pres (ibind m f).
Proof.
  intros Hm Hf i b i' H. unfold ibind in H. destruct (m i) as [[a i1]| |] eqn:E; try discriminate.
  rewrite (Hf a i1 b i' H). apply (Hm i a i1 E).
Qed.
Lemma pres_next_byte : pres next_byte.
Proof. intros i b i' H. apply next_byte_ok in H. tauto. Qed.
Lemma pres_next_bytes n : pres (next_bytes n).
Proof. intros i b i' H. apply next_bytes_ok in H. tauto. Qed.
Lemma pres_next_bytes_nocopy n : pres (next_bytes_nocopy n).
Proof. apply pres_next_bytes. Qed.
Lemma pres_ioffset : pres ioffset. Proof. intros i b i' H. inversion H; reflexivity. Qed.
Lemma pres_iseek n : pres (iseek n). Proof. intros i b i' H. inversion H; reflexivity. Qed.
Lemma pres_iloop_fuel {A} (item : IM A) e : pres item -> forall k, pres (iloop_fuel k e item).
Proof.
  intros Hi k. induction k as [|k IH]; cbn [iloop_fuel]; [apply pres_err|].
  apply pres_bind; [apply pres_ioffset|]. intros off. destruct (off <? e); [|apply pres_ret].
  apply pres_bind; [exact Hi|]. intros a. apply pres_bind; [exact IH|]. intros r. apply pres_ret.
Qed.
Lemma pres_iloop {A} (item : IM A) e : pres item -> pres (iloop e item).
Proof. intros Hi. unfold iloop. apply pres_bind; [apply pres_ioffset|]. intros off. apply pres_iloop_fuel. exact Hi. Qed.

Ltac pres_step :=
  match goal with
  | |- pres (ibind _ _) => apply pres_bind; [|intros ?]
  | |- pres (iret _) => apply pres_ret
  | |- pres (ierr _) => apply pres_err
  | |- pres ipanic => apply pres_panic
  | |- pres next_byte => apply pres_next_byte
  | |- pres (next_bytes _) => apply pres_next_bytes
  | |- pres (next_bytes_nocopy _) => apply pres_next_bytes_nocopy
  | |- pres ioffset => apply pres_ioffset
  | |- pres (iseek _) => apply pres_iseek
  | |- pres (iloop _ _) => apply pres_iloop
  | |- pres (if ?c then _ else _) => destruct c
  | |- pres (match ?l with [] => _ | _ :: _ => _ end) => destruct l
  end.
Ltac pres_tac := repeat pres_step.

(* the DVB parsers behind the interface of Model/Dvb.v *)
Lemma pres_parse_dvb_duration_minutes : pres parse_dvb_duration_minutes.
Proof. unfold parse_dvb_duration_minutes. pres_tac. Qed.
Lemma pres_parse_dvb_duration_seconds : pres parse_dvb_duration_seconds.
Proof. unfold parse_dvb_duration_seconds. pres_tac. Qed.
Lemma pres_parse_dvb_time : pres parse_dvb_time.
Proof. unfold parse_dvb_time. pres_tac. apply pres_parse_dvb_duration_seconds. Qed.

Lemma pres_parse_descriptor_body : body_pres parse_descriptor_body.
Proof.
  intros t l e. unfold parse_descriptor_body.
  repeat match goal with |- pres (if ?c then _ else _) => destruct c end;
  unfold new_descriptor_ac3, new_descriptor_avc_video, new_descriptor_component, new_descriptor_content, content_item,
    new_descriptor_data_stream_alignment, new_descriptor_enhanced_ac3, new_descriptor_extended_event,
    new_descriptor_extended_event_item, new_descriptor_extension, new_descriptor_extension_supplementary_audio,
    new_descriptor_iso639, new_descriptor_local_time_offset, local_time_offset_item, new_descriptor_maximum_bitrate,
    new_descriptor_network_name, new_descriptor_parental_rating, parental_rating_item, new_descriptor_private_data_indicator,
    new_descriptor_private_data_specifier, new_descriptor_registration, new_descriptor_service, new_descriptor_short_event,
    new_descriptor_stream_identifier, new_descriptor_subtitling, subtitling_item, new_descriptor_teletext, teletext_item,
    new_descriptor_unknown, new_descriptor_vbi_data, vbi_data_service, opt_byte, rest_bytes, bytes_to;
  pres_tac;
  first [ apply pres_parse_dvb_duration_minutes | apply pres_parse_dvb_time ].
Qed.

Lemma hdr_parse_descriptor_body : body_hdr parse_descriptor_body.
Proof.
  intros t l e i d i'. unfold parse_descriptor_body.
  repeat match goal with |- (if ?c then _ else _) _ = _ -> _ => destruct c end;
  unfold ibind;
  match goal with |- match ?m i with _ => _ end = _ -> _ => destruct (m i) as [[v i1]| |]; try discriminate end;
  unfold iret; intros H; inversion H; subst; split; reflexivity.
Qed.

(* ---- reading the two header bytes ---- *)

Lemma nth_skipn {A} (l : list A) n k d : nth k (skipn n l) d = nth (n + k) l d.
Proof. revert l. induction n as [|n IH]; intros l; [reflexivity|]. destruct l; [destruct k; reflexivity|]. cbn [skipn]. rewrite IH. reflexivity. Qed.

Lemma next_two bs pos r i' : next_bytes_nocopy 2 (mk_iter bs pos) = Ok (r, i') ->
  0 <= pos /\ pos + 2 <= zlen bs /\ i' = mk_iter bs (pos + 2) /\
  byte_at r 0 = byte_of bs pos /\ byte_at r 1 = byte_of bs (pos + 1) /\ length r = 2%nat.
Proof.
  intros H. apply next_bytes_ok in H. cbn [ibs ioff] in H. destruct H as (_ & Hp & Hl & Hbs & Hoff & Hr).
  unfold ilen in Hl; cbn [ibs] in Hl. split; [lia|]. split; [exact Hl|]. split.
  { destruct i'; cbn in *; subst; reflexivity. }
  subst r. unfold byte_at, byte_of, slice. replace (pos + 2 - pos) with 2 by lia.
  assert (Hlen : (2 <= length (skipn (Z.to_nat pos) bs))%nat) by (rewrite skipn_length; unfold zlen in Hl; lia).
  destruct (skipn (Z.to_nat pos) bs) as [|x [|y l]] eqn:E; cbn [length] in Hlen; try lia.
  cbn [Z.to_nat Pos.to_nat Pos.iter_op firstn nth length]. 
  pose proof (nth_skipn bs (Z.to_nat pos) 0 0) as N0. pose proof (nth_skipn bs (Z.to_nat pos) 1 0) as N1.
  rewrite E in N0, N1. cbn [nth] in N0, N1. rewrite Nat.add_0_r in N0.
  replace (Z.to_nat (pos + 1)) with (Z.to_nat pos + 1)%nat by lia. auto.
Qed.

(* ---- one round ---- *)

Lemma parse_descriptor_with_spec body bs pos d i' : body_pres body ->
  parse_descriptor_with body (mk_iter bs pos) = Ok (d, i') ->
  0 <= pos /\ pos + 2 <= zlen bs /\ ibs i' = bs /\
  ((byte_of bs (pos + 1) <= 0 /\ d = desc_hdr (byte_of bs pos) (byte_of bs (pos + 1)) /\ ioff i' = pos + 2) \/
   (0 < byte_of bs (pos + 1) /\ ioff i' = pos + 2 + byte_of bs (pos + 1) /\
    exists i1, body (byte_of bs pos) (byte_of bs (pos + 1)) (pos + 2 + byte_of bs (pos + 1)) (mk_iter bs (pos + 2)) = Ok (d, i1))).
Proof.
  intros Hp H. unfold parse_descriptor_with, ibind in H.
  destruct (next_bytes_nocopy 2 (mk_iter bs pos)) as [[r i1]| |] eqn:E; try discriminate.
  apply next_two in E. destruct E as (H0 & H2 & -> & Et & El & _). rewrite Et, El in H.
  split; [exact H0|]. split; [exact H2|].
  destruct (byte_of bs (pos + 1) >? 0) eqn:Eg.
  - unfold ioffset in H. cbn [ioff] in H.
    destruct (body _ _ _ (mk_iter bs (pos + 2))) as [[d1 i2]| |] eqn:Eb; try discriminate.
    unfold iseek, iret in H. inversion H; subst. cbn [ibs ioff].
    split; [apply (Hp _ _ _ _ _ _ Eb)|]. right. split; [lia|]. split; [reflexivity|]. eexists; reflexivity.
  - unfold iret in H. inversion H; subst. cbn [ibs ioff]. split; [reflexivity|]. left. split; [lia|]. auto.
Qed.

(* ---- the loop ---- *)

Lemma descriptor_loop_spec body bs endp : body_pres body -> forall k pos ds i',
  iloop_fuel k endp (parse_descriptor_with body) (mk_iter bs pos) = Ok (ds, i') ->
  ibs i' = bs /\ tlv_parse desc_hdr body bs endp pos ds (ioff i').
Proof.
  intros Hp. induction k as [|k IH]; intros pos ds i' H; [discriminate|].
  cbn [iloop_fuel] in H. unfold ibind at 1 in H. unfold ioffset at 1 in H. cbn [ioff] in H.
  destruct (pos <? endp) eqn:El.
  - unfold ibind at 1 in H.
    destruct (parse_descriptor_with body (mk_iter bs pos)) as [[d i1]| |] eqn:Ed; try discriminate.
    unfold ibind at 1 in H. destruct i1 as [bs1 off1].
    destruct (parse_descriptor_with_spec body bs pos d _ Hp Ed) as (H0 & H2 & Hbs & Hcase). cbn [ibs ioff] in Hbs, Hcase. subst bs1.
    destruct (iloop_fuel k endp (parse_descriptor_with body) (mk_iter bs off1)) as [[r i2]| |] eqn:Er; try discriminate.
    unfold iret in H. inversion H; subst. destruct (IH _ _ _ Er) as [Hb Ht]. split; [exact Hb|].
    destruct Hcase as [(Hz & -> & Ho)|(Hz & Ho & i3 & Eb)]; subst off1.
    + apply tlv_parse_empty; try assumption; lia.
    + eapply tlv_parse_body; try eassumption; lia.
  - unfold iret in H. inversion H; subst. cbn [ibs ioff]. split; [reflexivity|]. apply tlv_parse_done. lia.
Qed.

(* the 12 bits of the loop length *)
Lemma bits_of_split a b v : bits_of (a + b) v = bits_of a (v / 2 ^ Z.of_nat b) ++ bits_of b v.
Proof.
  induction a as [|a IH]; [reflexivity|]. cbn [Nat.add bits_of app]. rewrite IH. f_equal.
  rewrite Z.div_pow2_bits by lia. f_equal. lia.
Qed.

Lemma Z_of_bits_app l1 l2 : Z_of_bits (l1 ++ l2) = Z_of_bits l1 * 2 ^ Z.of_nat (length l2) + Z_of_bits l2.
Proof.
  unfold Z_of_bits. rewrite Z_of_bits_acc_app. generalize (Z_of_bits_acc l1 0) as acc. intros acc.
  rewrite <- (bits_of_Z_of_bits l2) at 1. rewrite Z_of_bits_acc_bits_of.
  pose proof (Z_of_bits_range l2). fold (Z_of_bits l2). rewrite Z.mod_small by exact H. reflexivity.
Qed.

Lemma loop_length_bits r b0 b1 : length r = 2%nat -> byte_at r 0 = b0 -> byte_at r 1 = b1 ->
  bitsf r 4 12 = (b0 mod 16) * 256 + b1 mod 256.
Proof.
  intros Hl E0 E1. destruct r as [|x [|y [|z r]]]; try discriminate. unfold byte_at in *. cbn [nth] in *. subst.
  unfold bitsf, bits_of_bytes. cbn [flat_map]. rewrite app_nil_r.
  change 8%nat with (4 + 4)%nat at 1. rewrite bits_of_split, <- app_assoc.
  rewrite (field_skip 4) by lia. change (4 - 4)%nat with 0%nat.
  unfold field. cbn [skipn]. rewrite firstn_all2 by (rewrite app_length, !bits_of_length; lia).
  rewrite Z_of_bits_app, !Z_of_bits_of_mod, bits_of_length. reflexivity.
Qed.

(* parseDescriptors with any body parser that leaves the byte slice alone: on success the descriptors are the
   results of the body parser on the TLV entries of the loop, each started at its own entry, and the iterator
   is left where the entries end *)
Theorem parse_descriptors_tlv body bs pos ds i' : body_pres body ->
  parse_descriptors_with body (mk_iter bs pos) = Ok (ds, i') ->
  0 <= pos /\ pos + 2 <= zlen bs /\ ibs i' = bs /\
  tlv_parse desc_hdr body bs (pos + 2 + loop_length_at bs pos) (pos + 2) ds (ioff i').
Proof.
  intros Hp H. unfold parse_descriptors_with in H. unfold ibind at 1 in H.
  destruct (next_bytes_nocopy 2 (mk_iter bs pos)) as [[r i1]| |] eqn:E; try discriminate.
  apply next_two in E. destruct E as (H0 & H2 & -> & Et & El & Hr).
  rewrite (loop_length_bits r _ _ Hr Et El) in H. fold (loop_length_at bs pos) in H.
  split; [exact H0|]. split; [exact H2|].
  destruct (loop_length_at bs pos >? 0) eqn:Eg.
  - unfold ibind at 1 in H. unfold ioffset at 1 in H. cbn [ioff] in H. unfold iloop, ibind at 1, ioffset at 1 in H. cbn [ioff] in H.
    apply (descriptor_loop_spec body bs _ Hp) in H. exact H.
  - unfold iret in H. inversion H; subst. cbn [ibs ioff]. split; [reflexivity|]. apply tlv_parse_done. lia.
Qed.

(* the entries are a function of the bytes alone *)
Lemma tlv_chain_det bs endp pos es fin : tlv_chain bs endp pos es fin ->
  forall es' fin', tlv_chain bs endp pos es' fin' -> es' = es /\ fin' = fin.
Proof.
  induction 1 as [pos Hge|pos es fin Hlt H0 H2 _ IH]; intros es' fin' H'; inversion H'; subst; try lia.
  - split; reflexivity.
  - match goal with Hc : tlv_chain _ _ _ _ fin' |- _ => destruct (IH _ _ Hc) as [-> ->] end. split; reflexivity.
Qed.

(* the walk stops at the first entry boundary that is not before the declared end of the loop *)
Lemma tlv_chain_fin bs endp pos es fin : tlv_chain bs endp pos es fin -> endp <= fin.
Proof. induction 1; lia. Qed.

Lemma byte_of_range bs p : bytes_ok bs -> 0 <= byte_of bs p < 256.
Proof.
  intros H. unfold byte_of. destruct (nth_in_or_default (Z.to_nat p) bs 0) as [Hin|Hd]; [|lia].
  unfold bytes_ok in H. rewrite Forall_forall in H. apply H in Hin. exact Hin.
Qed.

(* tags and lengths returned = tags and lengths of the entries (for byte strings: every element in 0..255) *)
Lemma tlv_parse_chain body bs endp pos ds fin : body_hdr body -> bytes_ok bs ->
  tlv_parse desc_hdr body bs endp pos ds fin ->
  exists es, tlv_chain bs endp pos es fin /\
             map (fun d => (Descriptor_Tag d, Descriptor_Length d)) ds = map (fun e => (snd (fst e), snd e)) es.
Proof.
  intros Hh Hok. induction 1 as [pos Hge|pos ds fin Hlt H0 H2 Hz _ IH|pos d i' ds fin Hlt H0 H2 Hz Eb _ IH].
  - exists []. split; [constructor; exact Hge|reflexivity].
  - destruct IH as (es & Hc & Hm). exists ((pos, byte_of bs pos, byte_of bs (pos + 1)) :: es).
    pose proof (byte_of_range bs (pos + 1) Hok) as Hr. assert (Ez : byte_of bs (pos + 1) = 0) by lia. split.
    + constructor; try assumption. rewrite Ez. replace (pos + 2 + 0) with (pos + 2) by lia. exact Hc.
    + cbn [map fst snd]. rewrite Hm. reflexivity.
  - destruct IH as (es & Hc & Hm). destruct (Hh _ _ _ _ _ _ Eb) as [Et El].
    exists ((pos, byte_of bs pos, byte_of bs (pos + 1)) :: es). split; [constructor; assumption|].
    cbn [map fst snd]. rewrite Hm, Et, El. reflexivity.
Qed.

(* C14_tlv for the concrete parser *)
Theorem parse_descriptors_framing bs pos ds i' : bytes_ok bs ->
  parse_descriptors (mk_iter bs pos) = Ok (ds, i') ->
  let endp := pos + 2 + loop_length_at bs pos in
  ibs i' = bs /\
  tlv_parse desc_hdr parse_descriptor_body bs endp (pos + 2) ds (ioff i') /\
  exists es, tlv_chain bs endp (pos + 2) es (ioff i') /\
             map (fun d => (Descriptor_Tag d, Descriptor_Length d)) ds = map (fun e => (snd (fst e), snd e)) es /\
             endp <= ioff i'.
Proof.
  intros Hok H endp. destruct (parse_descriptors_tlv _ _ _ _ _ pres_parse_descriptor_body H) as (H0 & H2 & Hbs & Ht).
  split; [exact Hbs|]. split; [exact Ht|].
  destruct (tlv_parse_chain _ _ _ _ _ _ hdr_parse_descriptor_body Hok Ht) as (es & Hc & Hm).
  exists es. split; [exact Hc|]. split; [exact Hm|]. apply (tlv_chain_fin _ _ _ _ _ Hc).
Qed.

(* when the entries tile the loop exactly (the last one ends at the declared end), parseDescriptors consumes
   exactly 2 + loop length bytes *)
Lemma tlv_chain_exact bs endp pos es fin : tlv_chain bs endp pos es fin ->
  (es = [] /\ fin = pos) \/ (es <> [] /\ exists p t l, last es (0, 0, 0) = (p, t, l) /\ fin = p + 2 + l).
Proof.
  induction 1 as [pos Hge|pos es fin Hlt H0 H2 Hc IH]; [left; auto|right]. split; [discriminate|].
  destruct IH as [[-> ->]|(Hne & p & t & l & El & Ef)].
  - do 3 eexists. split; reflexivity.
  - exists p, t, l. split; [|exact Ef]. destruct es; [contradiction|exact El].
Qed.

(* ================= part C: round trips ================= *)

Lemma zlen_app {A} (a b : list A) : zlen (a ++ b) = zlen a + zlen b.
Proof. unfold zlen. rewrite app_length. lia. Qed.
Lemma zlen_cons {A} (x : A) l : zlen (x :: l) = 1 + zlen l.
Proof. unfold zlen. cbn [length]. lia. Qed.
Lemma zlen_nil {A} : zlen (@nil A) = 0. Proof. reflexivity. Qed.

(* symbolic execution of the iterator on a buffer split as consumed ++ remaining *)
Lemma next_byte_step pre b rest :
  next_byte (mk_iter (pre ++ b :: rest) (zlen pre)) = Ok (b, mk_iter ((pre ++ [b]) ++ rest) (zlen (pre ++ [b]))).
Proof.
  unfold next_byte, ilen. cbn [ibs ioff]. unfold zlen. rewrite !app_length. cbn [length].
  destruct (_ <? _) eqn:E1; [lia|]. destruct (Z.of_nat (length pre) <? 0) eqn:E2; [lia|].
  rewrite Nat2Z.id, app_nth2, Nat.sub_diag by lia. cbn [nth]. rewrite <- app_assoc. cbn [app]. do 3 f_equal. lia.
Qed.

Lemma slice_mid pre a rest : slice (pre ++ a ++ rest) (zlen pre) (zlen pre + zlen a) = a.
Proof.
  unfold slice, zlen. replace (Z.of_nat (length pre) + Z.of_nat (length a) - Z.of_nat (length pre)) with (Z.of_nat (length a)) by lia.
  rewrite !Nat2Z.id. rewrite skipn_app, skipn_all, Nat.sub_diag. cbn [skipn app].
  rewrite firstn_app, Nat.sub_diag, firstn_O, app_nil_r. apply firstn_all.
Qed.

Lemma next_bytes_step pre a rest n : zlen a = n ->
  next_bytes n (mk_iter (pre ++ a ++ rest) (zlen pre)) = Ok (a, mk_iter ((pre ++ a) ++ rest) (zlen (pre ++ a))).
Proof.
  intros Hn. unfold next_bytes, ilen. cbn [ibs ioff]. pose proof (zlen_nonneg a). pose proof (zlen_nonneg pre). pose proof (zlen_nonneg rest).
  replace (Z.of_nat (length (pre ++ a ++ rest))) with (zlen pre + zlen a + zlen rest) by (unfold zlen; rewrite !app_length; lia).
  destruct (_ <? _) eqn:E1; [lia|]. destruct (n <? 0) eqn:E2; [lia|]. destruct (zlen pre <? 0) eqn:E3; [lia|].
  subst n. rewrite slice_mid, zlen_app, <- app_assoc. reflexivity.
Qed.

Lemma next_bytes_nocopy_step pre a rest n : zlen a = n ->
  next_bytes_nocopy n (mk_iter (pre ++ a ++ rest) (zlen pre)) = Ok (a, mk_iter ((pre ++ a) ++ rest) (zlen (pre ++ a))).
Proof. apply next_bytes_step. Qed.

Lemma ioffset_step bs off : ioffset (mk_iter bs off) = Ok (off, mk_iter bs off).
Proof. reflexivity. Qed.

(* bytes of item lists *)
Lemma bytes_of_items_cons_u8 x l : items_bytes_ok l -> bytes_of_items (wu8 x :: l) = (x mod 256) :: bytes_of_items l.
Proof.
  intros Hl. change (wu8 x :: l) with ([wu8 x] ++ l). rewrite (bytes_of_items_app _ _ 1); [|repeat constructor|exact Hl|unfold wu8; bl; reflexivity].
  rewrite chunks_concat by (repeat constructor). unfold wu8, items_bits. cbn [flat_map item_bits]. rewrite app_nil_r, bytes_of_bits_bits_of_8. reflexivity.
Qed.

Lemma bytes_of_items_cons_bytes a l : bytes_ok a -> items_bytes_ok l -> bytes_of_items (WBytes a :: l) = a ++ bytes_of_items l.
Proof.
  intros Ha Hl. change (WBytes a :: l) with ([WBytes a] ++ l).
  rewrite (bytes_of_items_app _ _ (zlen a)); [|repeat constructor; exact Ha|exact Hl|bl; reflexivity].
  f_equal. rewrite chunks_concat by (repeat constructor; exact Ha). unfold items_bits. cbn [flat_map item_bits]. rewrite app_nil_r.
  apply bytes_of_bits_of_bytes. exact Ha.
Qed.

Lemma bytes_of_items_nil : bytes_of_items [] = []. Proof. reflexivity. Qed.

(* a group of items that fills n whole bytes: its bytes read back as its bits *)
Lemma bytes_of_group g n : items_bytes_ok g -> bitlen g = 8 * n ->
  zlen (bytes_of_items g) = n /\ bits_of_bytes (bytes_of_items g) = items_bits g.
Proof. intros Hok Hb. split; [apply bytes_of_items_zlen; assumption|apply (bits_of_bytes_of_items _ n); assumption]. Qed.

Lemma items_ok_cons_bits w v l : items_bytes_ok l -> items_bytes_ok (WBits w v :: l).
Proof. intros. constructor; [exact I|assumption]. Qed.
Lemma items_ok_cons_bool b l : items_bytes_ok l -> items_bytes_ok (WBool b :: l).
Proof. intros. constructor; [exact I|assumption]. Qed.
Lemma items_ok_cons_bytes a l : bytes_ok a -> items_bytes_ok l -> items_bytes_ok (WBytes a :: l).
Proof. intros. constructor; assumption. Qed.
Lemma items_ok_nil : items_bytes_ok []. Proof. constructor. Qed.
Ltac iok := unfold wu8, wu16, wu32; repeat first [ apply items_ok_nil | apply items_ok_cons_bits | apply items_ok_cons_bool
  | apply items_ok_cons_bytes; [assumption|] | apply items_bytes_ok_app ]; try assumption.

Lemma bitsf_prefix2 a b l : bitsf (a :: b :: l) 4 12 = bitsf [a; b] 4 12.
Proof. unfold bitsf, bits_of_bytes, field. cbn [flat_map bits_of app skipn firstn]. reflexivity. Qed.

Lemma iloop_fuel_done {A} k e (item : IM A) bs off : e <= off ->
  iloop_fuel (S k) e item (mk_iter bs off) = Ok ([], mk_iter bs off).
Proof. intros H. cbn [iloop_fuel]. unfold ibind, ioffset. cbn [ioff]. destruct (off <? e) eqn:E; [lia|reflexivity]. Qed.

(* ---- completeness of the TLV characterisation: whenever the entries can be walked and every body parser
   succeeds at its own entry, parseDescriptors succeeds with exactly those results ---- *)

Lemma next_two_run bs pos : 0 <= pos -> pos + 2 <= zlen bs ->
  exists r, next_bytes_nocopy 2 (mk_iter bs pos) = Ok (r, mk_iter bs (pos + 2)) /\
            byte_at r 0 = byte_of bs pos /\ byte_at r 1 = byte_of bs (pos + 1) /\ length r = 2%nat.
Proof.
  intros H0 H2. destruct (next_bytes_nocopy 2 (mk_iter bs pos)) as [[r i1]| |] eqn:E.
  - destruct (next_two _ _ _ _ E) as (_ & _ & -> & Ha & Hb & Hc). exists r. auto.
  - exfalso. unfold next_bytes_nocopy, next_bytes, ilen in E. cbn [ibs ioff] in E. fold (zlen bs) in E.
    destruct (zlen bs <? pos + 2) eqn:E1; [lia|]. cbn [Z.ltb Z.compare] in E. destruct (pos <? 0) eqn:E3; [lia|discriminate].
  - exfalso. unfold next_bytes_nocopy, next_bytes, ilen in E. cbn [ibs ioff] in E. fold (zlen bs) in E.
    destruct (zlen bs <? pos + 2) eqn:E1; [lia|]. cbn [Z.ltb Z.compare] in E. destruct (pos <? 0) eqn:E3; [lia|discriminate].
Qed.

Lemma tlv_parse_count body bs endp pos ds fin : tlv_parse desc_hdr body bs endp pos ds fin ->
  zlen ds <= Z.max 0 (endp - pos).
Proof. induction 1; rewrite ?zlen_cons, ?zlen_nil; lia. Qed.

Lemma descriptor_loop_complete body bs endp : body_pres body -> forall pos ds fin,
  tlv_parse desc_hdr body bs endp pos ds fin -> forall k, (length ds < k)%nat ->
  iloop_fuel k endp (parse_descriptor_with body) (mk_iter bs pos) = Ok (ds, mk_iter bs fin).
Proof.
  intros Hp. induction 1 as [pos Hge|pos ds fin Hlt H0 H2 Hz _ IH|pos d i' ds fin Hlt H0 H2 Hz Eb _ IH]; intros k Hk.
  - destruct k; [lia|]. apply iloop_fuel_done. exact Hge.
  - destruct k; [lia|]. cbn [iloop_fuel]. unfold ibind at 1. rewrite ioffset_step. destruct (pos <? endp) eqn:E; [|lia].
    unfold ibind at 1. unfold parse_descriptor_with, ibind at 1.
    destruct (next_two_run bs pos H0 H2) as (r & -> & -> & -> & _).
    destruct (byte_of bs (pos + 1) >? 0) eqn:Eg; [lia|]. unfold iret at 1. unfold ibind at 1.
    rewrite IH by (cbn [length] in Hk; lia). reflexivity.
  - destruct k; [lia|]. cbn [iloop_fuel]. unfold ibind at 1. rewrite ioffset_step. destruct (pos <? endp) eqn:E; [|lia].
    unfold ibind at 1. unfold parse_descriptor_with, ibind at 1.
    destruct (next_two_run bs pos H0 H2) as (r & -> & -> & -> & _).
    destruct (byte_of bs (pos + 1) >? 0) eqn:Eg; [|lia]. unfold ibind at 1. rewrite ioffset_step.
    unfold ibind at 1. rewrite Eb. unfold ibind at 1, iseek at 1, iret at 1. cbn [ibs].
    rewrite (Hp _ _ _ _ _ _ Eb). cbn [ibs]. unfold ibind at 1.
    rewrite IH by (cbn [length] in Hk; lia). reflexivity.
Qed.

Theorem parse_descriptors_complete body bs pos ds fin : body_pres body -> 0 <= pos -> pos + 2 <= zlen bs ->
  tlv_parse desc_hdr body bs (pos + 2 + loop_length_at bs pos) (pos + 2) ds fin ->
  parse_descriptors_with body (mk_iter bs pos) = Ok (ds, mk_iter bs fin).
Proof.
  intros Hp H0 H2 Ht. unfold parse_descriptors_with. unfold ibind at 1.
  destruct (next_two_run bs pos H0 H2) as (r & -> & Ea & Eb & Hr).
  rewrite (loop_length_bits r _ _ Hr Ea Eb). fold (loop_length_at bs pos).
  destruct (loop_length_at bs pos >? 0) eqn:Eg.
  - unfold ibind at 1. rewrite ioffset_step. unfold iloop, ibind at 1. rewrite ioffset_step.
    apply (descriptor_loop_complete body bs _ Hp _ _ _ Ht).
    pose proof (tlv_parse_count _ _ _ _ _ _ Ht) as Hc. unfold zlen in Hc. lia.
  - inversion Ht; subst; try lia. reflexivity.
Qed.

(* ---- lifting a body-level round trip to a loop that holds one descriptor ---- *)


Lemma app_eq_len {A} (a a' b b' : list A) : length a = length a' -> a ++ b = a' ++ b' -> a = a' /\ b = b'.
Proof.
  revert a'. induction a as [|x a IH]; intros [|y a'] Hl H; try discriminate; [auto|].
  cbn [app] in H. inversion H; subst. destruct (IH a' ltac:(cbn in Hl; lia) H2) as [-> ->]. auto.
Qed.

Theorem single_descriptor_loop d out rest d' :
  enc_descriptors_with_length [d] = Ok out -> items_bytes_ok out ->
  0 <= Descriptor_Tag d < 256 -> 0 < desc_size d < 256 ->
  (forall pre body rest', zlen pre = 4 -> (exists bi, enc_descriptor_body d = Ok bi /\ items_bytes_ok bi /\ body = bytes_of_items bi) ->
     exists i1, parse_descriptor_body (Descriptor_Tag d) (desc_size d) (zlen pre + desc_size d) (mk_iter (pre ++ body ++ rest') (zlen pre)) = Ok (d', i1)) ->
  parse_descriptors (new_iter (bytes_of_items out ++ rest)) =
    Ok ([d'], mk_iter (bytes_of_items out ++ rest) (4 + desc_size d)) /\
  zlen (bytes_of_items out) = 4 + desc_size d.
Proof.
  intros H Hok Htag Hsz Hbody.
  destruct (descriptors_with_length_exact [d] out H Hok) as (hdr & bodies & Eb & Hh & HF & Hbits & Hlen).
  { constructor; [lia|constructor]. } { unfold loop_size. cbn [sumZ fold_right]. lia. }
  unfold loop_size in Hlen. cbn [sumZ fold_right] in Hlen.
  inversion HF as [|? body ? bs' [Hb1 Hb2] HF' E1 E2]; subst. inversion HF'; subst. clear HF HF'.
  cbn [loop_bytes] in Eb. rewrite app_nil_r in Eb. unfold entry_bytes in Eb.
  (* the body is what the body writer emitted *)
  assert (Hbi : exists bi, enc_descriptor_body d = Ok bi /\ items_bytes_ok bi /\ body = bytes_of_items bi).
  { unfold enc_descriptors_with_length in H. cbn [enc_descriptors] in H. unfold enc_descriptor in H.
    destruct (calc_descriptor_length d =? 0) eqn:Ez; [lia|].
    destruct (enc_descriptor_body d) as [bi| |] eqn:Ebi; cbn [res_map res_bind] in H; try discriminate.
    exists bi. split; [reflexivity|].
    cut (items_bytes_ok bi /\ body = bytes_of_items bi); [tauto|].
    assert (Eo : out = [WBits 4 255; WBits 12 (calc_descriptors_length [d])] ++ ([wu8 (Descriptor_Tag d); wu8 (calc_descriptor_length d)] ++ bi) ++ [])
      by (inversion H; reflexivity).
    rewrite app_nil_r in Eo. subst out.
    apply items_bytes_ok_app_inv in Hok. destruct Hok as [Ho1 Ho2]. apply items_bytes_ok_app_inv in Ho2. destruct Ho2 as [Ho2 Ho3].
    rewrite (bytes_of_items_app _ _ 2) in Eb; [|assumption|apply items_bytes_ok_app; assumption|bl; reflexivity].
    rewrite (bytes_of_items_app _ _ 2) in Eb; [|assumption|assumption|unfold wu8; bl; reflexivity].
    rewrite bytes_of_two_u8 in Eb.
    assert (Hl2 : zlen (bytes_of_items [WBits 4 255; WBits 12 (calc_descriptors_length [d])]) = 2)
      by (apply bytes_of_items_zlen; [assumption|bl; reflexivity]).
    assert (El : length hdr = length (bytes_of_items [WBits 4 255; WBits 12 (calc_descriptors_length [d])])) by (unfold zlen in *; lia).
    apply (app_eq_len _ _ _ _ (eq_sym El)) in Eb.
    destruct Eb as [_ Eb]. cbn [app] in Eb. inversion Eb. split; [assumption|reflexivity]. }
  remember (bytes_of_items out) as bytes eqn:Ebytes.
  assert (Hh0 : exists h0 h1, hdr = [h0; h1]).
  { destruct hdr as [|h0 [|h1 [|h2 hdr]]]; unfold zlen in Hh; cbn [length] in Hh; try lia. eauto. }
  destruct Hh0 as (h0 & h1 & ->).
  rewrite (Z.mod_small (Descriptor_Tag d)) in Eb by lia. rewrite (Z.mod_small (calc_descriptor_length d)) in Eb by lia.
  split; [|lia].
  (* the TLV walk of the encoded loop has the one entry, whose body parser succeeds by hypothesis *)
  set (buf := bytes ++ rest).
  assert (Ebuf : buf = h0 :: h1 :: Descriptor_Tag d :: calc_descriptor_length d :: body ++ rest).
  { unfold buf. rewrite Eb. reflexivity. }
  assert (Hll : bitsf [h0; h1] 4 12 = 2 + desc_size d).
  { rewrite Hlen in Hbits. rewrite Eb in Hbits. cbn [app] in Hbits. rewrite bitsf_prefix2 in Hbits. lia. }
  assert (Hl0 : loop_length_at buf 0 = 2 + desc_size d).
  { rewrite <- Hll. symmetry. rewrite Ebuf. apply loop_length_bits; reflexivity. }
  assert (Hzb : zlen buf = 4 + desc_size d + zlen rest).
  { rewrite Ebuf. rewrite !zlen_cons, zlen_app. lia. }
  pose proof (zlen_nonneg rest) as Hrn.
  unfold parse_descriptors, new_iter. fold buf.
  apply parse_descriptors_complete; [apply pres_parse_descriptor_body|lia|lia|].
  rewrite Hl0.
  assert (Hcd : calc_descriptor_length d = desc_size d) by lia.
  assert (Ea : 0 + 2 + 2 + desc_size d = 4 + desc_size d) by lia.
  destruct (Hbody [h0; h1; Descriptor_Tag d; calc_descriptor_length d] body rest eq_refl Hbi) as (i1 & Ei1).
  assert (Et : byte_of buf (0 + 2) = Descriptor_Tag d) by (rewrite Ebuf; reflexivity).
  assert (El : byte_of buf (0 + 2 + 1) = desc_size d) by (rewrite Ebuf; change (calc_descriptor_length d = desc_size d); lia).
  replace (4 + desc_size d) with (0 + 2 + 2 + byte_of buf (0 + 2 + 1)) by lia.
  eapply tlv_parse_body with (i' := i1); try lia.
  - rewrite Et, El, Ebuf, Ea, Hcd. cbn [app] in Ei1. rewrite Hcd in Ei1. exact Ei1.
  - apply tlv_parse_done. lia.
Qed.

(* body-level round trip: the body parser of d's tag, started on the bytes the body writer emitted for d (at any
   position of any buffer, with the declared end right behind them), returns d' *)
Definition body_rt (d d' : Descriptor) : Prop :=
  forall pre body rest', (exists bi, enc_descriptor_body d = Ok bi /\ items_bytes_ok bi /\ body = bytes_of_items bi) ->
    exists i1, parse_descriptor_body (Descriptor_Tag d) (desc_size d) (zlen pre + desc_size d)
                 (mk_iter (pre ++ body ++ rest') (zlen pre)) = Ok (d', i1).

(* ---- per-tag round trips (body level, then lifted through single_descriptor_loop) ---- *)

Definition byte_range (x : Z) : Prop := 0 <= x < 256.

(* stream identifier (EN 300 468 6.2.39) *)
Lemma brt_stream_identifier d v :
  Descriptor_Tag d = 82 -> Descriptor_StreamIdentifier d = Some v ->
  byte_range (DescriptorStreamIdentifier_ComponentTag v) ->
  body_rt d (set_StreamIdentifier (desc_hdr 82 1) v).
Proof.
  intros Ht Hv Hr.
  assert (Hs : desc_size d = 1) by (unfold desc_size; rewrite Ht, Hv; reflexivity).
  intros pre body rest' (bi & Ebi & Hbok & ->). rewrite Ht, Hs.
  assert (bi = enc_stream_identifier v) by (unfold enc_descriptor_body in Ebi; rewrite Ht, Hv in Ebi; inversion Ebi; reflexivity). subst bi.
  change (parse_descriptor_body 82 1 (zlen pre + 1)) with (v0 <- new_descriptor_stream_identifier ;; iret (set_StreamIdentifier (desc_hdr 82 1) v0)).
  unfold enc_stream_identifier. rewrite bytes_of_items_cons_u8, bytes_of_items_nil by iok.
  rewrite Z.mod_small by exact Hr.
  unfold new_descriptor_stream_identifier, ibind. cbn [app]. rewrite next_byte_step. unfold iret. destruct v. eexists. reflexivity.
Qed.

Theorem rt_stream_identifier d v out rest :
  Descriptor_Tag d = 82 -> Descriptor_StreamIdentifier d = Some v ->
  byte_range (DescriptorStreamIdentifier_ComponentTag v) ->
  enc_descriptors_with_length [d] = Ok out -> items_bytes_ok out ->
  parse_descriptors (new_iter (bytes_of_items out ++ rest)) =
    Ok ([set_StreamIdentifier (desc_hdr 82 1) v], mk_iter (bytes_of_items out ++ rest) 5).
Proof.
  intros Ht Hv Hr H Hok.
  assert (Hbrt : body_rt d (set_StreamIdentifier (desc_hdr 82 1) v)) by (apply (brt_stream_identifier d v); assumption).
  assert (Hs : desc_size d = 1) by (unfold desc_size; rewrite Ht, Hv; reflexivity).
  destruct (single_descriptor_loop d out rest (set_StreamIdentifier (desc_hdr 82 1) v) H Hok) as [E _]; [rewrite Ht; lia|lia| |rewrite Hs in E; exact E].
  intros pre body rest' _ Hex. apply Hbrt. exact Hex.
Qed.

(* data stream alignment (ISO/IEC 13818-1 2.6.10) *)
Lemma brt_data_stream_alignment d v :
  Descriptor_Tag d = 6 -> Descriptor_DataStreamAlignment d = Some v ->
  byte_range (DescriptorDataStreamAlignment_Type v) ->
  body_rt d (set_DataStreamAlignment (desc_hdr 6 1) v).
Proof.
  intros Ht Hv Hr.
  assert (Hs : desc_size d = 1) by (unfold desc_size; rewrite Ht, Hv; reflexivity).
  intros pre body rest' (bi & Ebi & Hbok & ->). rewrite Ht, Hs.
  assert (bi = enc_data_stream_alignment v) by (unfold enc_descriptor_body in Ebi; rewrite Ht, Hv in Ebi; inversion Ebi; reflexivity). subst bi.
  change (parse_descriptor_body 6 1 (zlen pre + 1)) with (v0 <- new_descriptor_data_stream_alignment ;; iret (set_DataStreamAlignment (desc_hdr 6 1) v0)).
  unfold enc_data_stream_alignment. rewrite bytes_of_items_cons_u8, bytes_of_items_nil by iok.
  rewrite Z.mod_small by exact Hr.
  unfold new_descriptor_data_stream_alignment, ibind. cbn [app]. rewrite next_byte_step. unfold iret. destruct v. eexists. reflexivity.
Qed.

Theorem rt_data_stream_alignment d v out rest :
  Descriptor_Tag d = 6 -> Descriptor_DataStreamAlignment d = Some v ->
  byte_range (DescriptorDataStreamAlignment_Type v) ->
  enc_descriptors_with_length [d] = Ok out -> items_bytes_ok out ->
  parse_descriptors (new_iter (bytes_of_items out ++ rest)) =
    Ok ([set_DataStreamAlignment (desc_hdr 6 1) v], mk_iter (bytes_of_items out ++ rest) 5).
Proof.
  intros Ht Hv Hr H Hok.
  assert (Hbrt : body_rt d (set_DataStreamAlignment (desc_hdr 6 1) v)) by (apply (brt_data_stream_alignment d v); assumption).
  assert (Hs : desc_size d = 1) by (unfold desc_size; rewrite Ht, Hv; reflexivity).
  destruct (single_descriptor_loop d out rest (set_DataStreamAlignment (desc_hdr 6 1) v) H Hok) as [E _]; [rewrite Ht; lia|lia| |rewrite Hs in E; exact E].
  intros pre body rest' _ Hex. apply Hbrt. exact Hex.
Qed.

Lemma ok_single_bytes a : items_bytes_ok [WBytes a] -> bytes_ok a.
Proof. intros H. inversion H; assumption. Qed.

(* user-defined tags 0x80..0xFE: the bytes as they are *)
Lemma brt_user_defined d :
  128 <= Descriptor_Tag d <= 254 -> 0 < zlen (Descriptor_UserDefined d) < 256 ->
  body_rt d (set_UserDefined (desc_hdr (Descriptor_Tag d) (zlen (Descriptor_UserDefined d))) (Descriptor_UserDefined d)).
Proof.
  intros Ht Hl.
  assert (Hu : is_user_defined (Descriptor_Tag d) = true) by (unfold is_user_defined; lia).
  assert (Hs : desc_size d = zlen (Descriptor_UserDefined d)) by (unfold desc_size; rewrite <- is_user_defined_spec, Hu; reflexivity).
  intros pre body rest' (bi & Ebi & Hbok & ->). rewrite Hs.
  assert (bi = [WBytes (Descriptor_UserDefined d)]) by (unfold enc_descriptor_body in Ebi; rewrite Hu in Ebi; inversion Ebi; reflexivity). subst bi.
  unfold parse_descriptor_body. rewrite Hu.
  rewrite bytes_of_items_cons_bytes, bytes_of_items_nil, app_nil_r by (try apply ok_single_bytes; iok).
  unfold ibind. rewrite next_bytes_step by reflexivity. unfold iret. eexists. reflexivity.
Qed.

Theorem rt_user_defined d out rest :
  128 <= Descriptor_Tag d <= 254 -> 0 < zlen (Descriptor_UserDefined d) < 256 ->
  enc_descriptors_with_length [d] = Ok out -> items_bytes_ok out ->
  parse_descriptors (new_iter (bytes_of_items out ++ rest)) =
    Ok ([set_UserDefined (desc_hdr (Descriptor_Tag d) (zlen (Descriptor_UserDefined d))) (Descriptor_UserDefined d)],
        mk_iter (bytes_of_items out ++ rest) (4 + zlen (Descriptor_UserDefined d))).
Proof.
  intros Ht Hl H Hok.
  assert (Hbrt : body_rt d (set_UserDefined (desc_hdr (Descriptor_Tag d) (zlen (Descriptor_UserDefined d))) (Descriptor_UserDefined d))) by (apply (brt_user_defined d); assumption).
  assert (Hu : is_user_defined (Descriptor_Tag d) = true) by (unfold is_user_defined; lia).
  assert (Hs : desc_size d = zlen (Descriptor_UserDefined d)) by (unfold desc_size; rewrite <- is_user_defined_spec, Hu; reflexivity).
  destruct (single_descriptor_loop d out rest
    (set_UserDefined (desc_hdr (Descriptor_Tag d) (zlen (Descriptor_UserDefined d))) (Descriptor_UserDefined d)) H Hok) as [E _];
    [lia|lia| |rewrite Hs in E; exact E].
  intros pre body rest' _ Hex. apply Hbrt. exact Hex.
Qed.

(* network name (EN 300 468 6.2.27) *)
Lemma brt_network_name d v :
  Descriptor_Tag d = 64 -> Descriptor_NetworkName d = Some v -> 0 < zlen (DescriptorNetworkName_Name v) < 256 ->
  body_rt d (set_NetworkName (desc_hdr 64 (zlen (DescriptorNetworkName_Name v))) v).
Proof.
  intros Ht Hv Hl.
  assert (Hs : desc_size d = zlen (DescriptorNetworkName_Name v)) by (unfold desc_size; rewrite Ht, Hv; reflexivity).
  intros pre body rest' (bi & Ebi & Hbok & ->). rewrite Ht, Hs.
  assert (bi = enc_network_name v) by (unfold enc_descriptor_body in Ebi; rewrite Ht, Hv in Ebi; inversion Ebi; reflexivity). subst bi.
  set (n := zlen (DescriptorNetworkName_Name v)) in *.
  change (parse_descriptor_body 64 n (zlen pre + n)) with (v0 <- new_descriptor_network_name (zlen pre + n) ;; iret (set_NetworkName (desc_hdr 64 n) v0)).
  unfold enc_network_name in *. rewrite bytes_of_items_cons_bytes, bytes_of_items_nil, app_nil_r by (try apply ok_single_bytes; iok).
  unfold new_descriptor_network_name, bytes_to, ibind. rewrite ioffset_step.
  replace (zlen pre + n - zlen pre) with n by lia. rewrite next_bytes_step by reflexivity. unfold iret. destruct v. eexists. reflexivity.
Qed.

Theorem rt_network_name d v out rest :
  Descriptor_Tag d = 64 -> Descriptor_NetworkName d = Some v -> 0 < zlen (DescriptorNetworkName_Name v) < 256 ->
  enc_descriptors_with_length [d] = Ok out -> items_bytes_ok out ->
  parse_descriptors (new_iter (bytes_of_items out ++ rest)) =
    Ok ([set_NetworkName (desc_hdr 64 (zlen (DescriptorNetworkName_Name v))) v],
        mk_iter (bytes_of_items out ++ rest) (4 + zlen (DescriptorNetworkName_Name v))).
Proof.
  intros Ht Hv Hl H Hok.
  assert (Hbrt : body_rt d (set_NetworkName (desc_hdr 64 (zlen (DescriptorNetworkName_Name v))) v)) by (apply (brt_network_name d v); assumption).
  assert (Hs : desc_size d = zlen (DescriptorNetworkName_Name v)) by (unfold desc_size; rewrite Ht, Hv; reflexivity).
  destruct (single_descriptor_loop d out rest (set_NetworkName (desc_hdr 64 (zlen (DescriptorNetworkName_Name v))) v) H Hok) as [E _];
    [rewrite Ht; lia|lia| |rewrite Hs in E; exact E].
  intros pre body rest' _ Hex. apply Hbrt. exact Hex.
Qed.

(* unknown tags: everything below 0x80 (and 0xFF) that is not one of the 23 typed tags *)
Definition typed_tags : list Z := [106; 40; 80; 84; 6; 122; 78; 127; 10; 88; 14; 64; 85; 15; 95; 5; 72; 77; 82; 89; 86; 69; 70].

Ltac not_typed Hn :=
  repeat match goal with
  | |- context [if ?t =? ?n then _ else _] =>
      let E := fresh "E" in destruct (t =? n) eqn:E;
      [exfalso; apply Hn; apply Z.eqb_eq in E; rewrite E; unfold typed_tags; cbn [In]; tauto|]
  | H : context [if ?t =? ?n then _ else _] |- _ =>
      let E := fresh "E" in destruct (t =? n) eqn:E;
      [exfalso; apply Hn; apply Z.eqb_eq in E; rewrite E; unfold typed_tags; cbn [In]; tauto|]
  end.

Lemma brt_unknown d v :
  0 <= Descriptor_Tag d < 256 -> is_user_defined (Descriptor_Tag d) = false -> ~ In (Descriptor_Tag d) typed_tags ->
  Descriptor_Unknown d = Some v -> DescriptorUnknown_Tag v = Descriptor_Tag d -> 0 < zlen (DescriptorUnknown_Content v) < 256 ->
  body_rt d (set_Unknown (desc_hdr (Descriptor_Tag d) (zlen (DescriptorUnknown_Content v))) v).
Proof.
  intros Hr Hu Hn Hv Htag Hl.
  assert (Hs : desc_size d = zlen (DescriptorUnknown_Content v)).
  { unfold desc_size. rewrite <- is_user_defined_spec, Hu. not_typed Hn. rewrite Hv. reflexivity. }
  intros pre body rest' (bi & Ebi & Hbok & ->). rewrite Hs.
  assert (bi = enc_unknown v).
  { unfold enc_descriptor_body in Ebi. rewrite Hu in Ebi. unfold_tags. not_typed Hn. rewrite Hv in Ebi. inversion Ebi; reflexivity. }
  subst bi. set (n := zlen (DescriptorUnknown_Content v)) in *.
  unfold parse_descriptor_body. rewrite Hu. unfold_tags. not_typed Hn.
  unfold enc_unknown in *. rewrite bytes_of_items_cons_bytes, bytes_of_items_nil, app_nil_r by (try apply ok_single_bytes; iok).
  unfold new_descriptor_unknown, ibind. rewrite next_bytes_step by reflexivity. unfold iret.
  destruct v as [c t]. cbn [DescriptorUnknown_Tag DescriptorUnknown_Content] in *. subst t. eexists. reflexivity.
Qed.

Theorem rt_unknown d v out rest :
  0 <= Descriptor_Tag d < 256 -> is_user_defined (Descriptor_Tag d) = false -> ~ In (Descriptor_Tag d) typed_tags ->
  Descriptor_Unknown d = Some v -> DescriptorUnknown_Tag v = Descriptor_Tag d -> 0 < zlen (DescriptorUnknown_Content v) < 256 ->
  enc_descriptors_with_length [d] = Ok out -> items_bytes_ok out ->
  parse_descriptors (new_iter (bytes_of_items out ++ rest)) =
    Ok ([set_Unknown (desc_hdr (Descriptor_Tag d) (zlen (DescriptorUnknown_Content v))) v],
        mk_iter (bytes_of_items out ++ rest) (4 + zlen (DescriptorUnknown_Content v))).
Proof.
  intros Hr Hu Hn Hv Htag Hl H Hok.
  assert (Hbrt : body_rt d (set_Unknown (desc_hdr (Descriptor_Tag d) (zlen (DescriptorUnknown_Content v))) v)) by (apply (brt_unknown d v); assumption).
  assert (Hs : desc_size d = zlen (DescriptorUnknown_Content v)).
  { unfold desc_size. rewrite <- is_user_defined_spec, Hu. not_typed Hn. rewrite Hv. reflexivity. }
  destruct (single_descriptor_loop d out rest (set_Unknown (desc_hdr (Descriptor_Tag d) (zlen (DescriptorUnknown_Content v))) v) H Hok) as [E _];
    [lia|lia| |rewrite Hs in E; exact E].
  intros pre body rest' _ Hex. apply Hbrt. exact Hex.
Qed.

(* 32-bit word read back *)
Lemma u32_group x : 0 <= x < 2 ^ 32 ->
  zlen (bytes_of_items [wu32 x]) = 4 /\ bitsf (bytes_of_items [wu32 x]) 0 32 = x.
Proof.
  intros Hx. destruct (bytes_of_group [wu32 x] 4) as [Hl Hb]; [iok|unfold wu32; bl; reflexivity|].
  split; [exact Hl|]. unfold bitsf. rewrite Hb. unfold wu32, items_bits. cbn [flat_map item_bits].
  apply field_here. exact Hx.
Qed.

(* private data indicator (ISO/IEC 13818-1 2.6.28) *)
Lemma brt_private_data_indicator d v :
  Descriptor_Tag d = 15 -> Descriptor_PrivateDataIndicator d = Some v ->
  0 <= DescriptorPrivateDataIndicator_Indicator v < 2 ^ 32 ->
  body_rt d (set_PrivateDataIndicator (desc_hdr 15 4) v).
Proof.
  intros Ht Hv Hr.
  assert (Hs : desc_size d = 4) by (unfold desc_size; rewrite Ht, Hv; reflexivity).
  intros pre body rest' (bi & Ebi & Hbok & ->). rewrite Ht, Hs.
  assert (bi = enc_private_data_indicator v) by (unfold enc_descriptor_body in Ebi; rewrite Ht, Hv in Ebi; inversion Ebi; reflexivity). subst bi.
  change (parse_descriptor_body 15 4 (zlen pre + 4)) with (v0 <- new_descriptor_private_data_indicator ;; iret (set_PrivateDataIndicator (desc_hdr 15 4) v0)).
  unfold enc_private_data_indicator. destruct (u32_group _ Hr) as [Hl Hb].
  unfold new_descriptor_private_data_indicator, ibind. rewrite next_bytes_nocopy_step by exact Hl.
  unfold iret. rewrite Hb. destruct v. eexists. reflexivity.
Qed.

Theorem rt_private_data_indicator d v out rest :
  Descriptor_Tag d = 15 -> Descriptor_PrivateDataIndicator d = Some v ->
  0 <= DescriptorPrivateDataIndicator_Indicator v < 2 ^ 32 ->
  enc_descriptors_with_length [d] = Ok out -> items_bytes_ok out ->
  parse_descriptors (new_iter (bytes_of_items out ++ rest)) =
    Ok ([set_PrivateDataIndicator (desc_hdr 15 4) v], mk_iter (bytes_of_items out ++ rest) 8).
Proof.
  intros Ht Hv Hr H Hok.
  assert (Hbrt : body_rt d (set_PrivateDataIndicator (desc_hdr 15 4) v)) by (apply (brt_private_data_indicator d v); assumption).
  assert (Hs : desc_size d = 4) by (unfold desc_size; rewrite Ht, Hv; reflexivity).
  destruct (single_descriptor_loop d out rest (set_PrivateDataIndicator (desc_hdr 15 4) v) H Hok) as [E _]; [rewrite Ht; lia|lia| |rewrite Hs in E; exact E].
  intros pre body rest' _ Hex. apply Hbrt. exact Hex.
Qed.

(* private data specifier (EN 300 468 6.2.31) *)
Lemma brt_private_data_specifier d v :
  Descriptor_Tag d = 95 -> Descriptor_PrivateDataSpecifier d = Some v ->
  0 <= DescriptorPrivateDataSpecifier_Specifier v < 2 ^ 32 ->
  body_rt d (set_PrivateDataSpecifier (desc_hdr 95 4) v).
Proof.
  intros Ht Hv Hr.
  assert (Hs : desc_size d = 4) by (unfold desc_size; rewrite Ht, Hv; reflexivity).
  intros pre body rest' (bi & Ebi & Hbok & ->). rewrite Ht, Hs.
  assert (bi = enc_private_data_specifier v) by (unfold enc_descriptor_body in Ebi; rewrite Ht, Hv in Ebi; inversion Ebi; reflexivity). subst bi.
  change (parse_descriptor_body 95 4 (zlen pre + 4)) with (v0 <- new_descriptor_private_data_specifier ;; iret (set_PrivateDataSpecifier (desc_hdr 95 4) v0)).
  unfold enc_private_data_specifier. destruct (u32_group _ Hr) as [Hl Hb].
  unfold new_descriptor_private_data_specifier, ibind. rewrite next_bytes_nocopy_step by exact Hl.
  unfold iret. rewrite Hb. destruct v. eexists. reflexivity.
Qed.

Theorem rt_private_data_specifier d v out rest :
  Descriptor_Tag d = 95 -> Descriptor_PrivateDataSpecifier d = Some v ->
  0 <= DescriptorPrivateDataSpecifier_Specifier v < 2 ^ 32 ->
  enc_descriptors_with_length [d] = Ok out -> items_bytes_ok out ->
  parse_descriptors (new_iter (bytes_of_items out ++ rest)) =
    Ok ([set_PrivateDataSpecifier (desc_hdr 95 4) v], mk_iter (bytes_of_items out ++ rest) 8).
Proof.
  intros Ht Hv Hr H Hok.
  assert (Hbrt : body_rt d (set_PrivateDataSpecifier (desc_hdr 95 4) v)) by (apply (brt_private_data_specifier d v); assumption).
  assert (Hs : desc_size d = 4) by (unfold desc_size; rewrite Ht, Hv; reflexivity).
  destruct (single_descriptor_loop d out rest (set_PrivateDataSpecifier (desc_hdr 95 4) v) H Hok) as [E _]; [rewrite Ht; lia|lia| |rewrite Hs in E; exact E].
  intros pre body rest' _ Hex. apply Hbrt. exact Hex.
Qed.

(* maximum bitrate (ISO/IEC 13818-1 2.6.26): 2 reserved bits, 22 bits in units of 50 bytes/second *)
Lemma brt_maximum_bitrate d v k :
  Descriptor_Tag d = 14 -> Descriptor_MaximumBitrate d = Some v ->
  DescriptorMaximumBitrate_Bitrate v = k * 50 -> 0 <= k < 2 ^ 22 ->
  body_rt d (set_MaximumBitrate (desc_hdr 14 3) v).
Proof.
  intros Ht Hv Hk Hr.
  assert (Hs : desc_size d = 3) by (unfold desc_size; rewrite Ht, Hv; reflexivity).
  intros pre body rest' (bi & Ebi & Hbok & ->). rewrite Ht, Hs.
  assert (bi = enc_maximum_bitrate v) by (unfold enc_descriptor_body in Ebi; rewrite Ht, Hv in Ebi; inversion Ebi; reflexivity). subst bi.
  change (parse_descriptor_body 14 3 (zlen pre + 3)) with (v0 <- new_descriptor_maximum_bitrate ;; iret (set_MaximumBitrate (desc_hdr 14 3) v0)).
  destruct (bytes_of_group (enc_maximum_bitrate v) 3) as [Hl Hb]; [exact Hbok|unfold enc_maximum_bitrate; bl; reflexivity|].
  unfold new_descriptor_maximum_bitrate, ibind. rewrite next_bytes_nocopy_step by exact Hl.
  unfold iret, bitsf. rewrite Hb. unfold enc_maximum_bitrate, items_bits. cbn [flat_map item_bits]. rewrite app_nil_r.
  rewrite (field_skip 2) by lia. change (2 - 2)%nat with 0%nat. rewrite Hk, Z.div_mul by lia.
  rewrite <- (app_nil_r (bits_of 22 k)), field_here by exact Hr.
  destruct v as [b]. cbn [DescriptorMaximumBitrate_Bitrate] in Hk. subst b. eexists. reflexivity.
Qed.

Theorem rt_maximum_bitrate d v k out rest :
  Descriptor_Tag d = 14 -> Descriptor_MaximumBitrate d = Some v ->
  DescriptorMaximumBitrate_Bitrate v = k * 50 -> 0 <= k < 2 ^ 22 ->
  enc_descriptors_with_length [d] = Ok out -> items_bytes_ok out ->
  parse_descriptors (new_iter (bytes_of_items out ++ rest)) =
    Ok ([set_MaximumBitrate (desc_hdr 14 3) v], mk_iter (bytes_of_items out ++ rest) 7).
Proof.
  intros Ht Hv Hk Hr H Hok.
  assert (Hbrt : body_rt d (set_MaximumBitrate (desc_hdr 14 3) v)) by (apply (brt_maximum_bitrate d v k); assumption).
  assert (Hs : desc_size d = 3) by (unfold desc_size; rewrite Ht, Hv; reflexivity).
  destruct (single_descriptor_loop d out rest (set_MaximumBitrate (desc_hdr 14 3) v) H Hok) as [E _]; [rewrite Ht; lia|lia| |rewrite Hs in E; exact E].
  intros pre body rest' _ Hex. apply Hbrt. exact Hex.
Qed.

Lemma bytes_of_single_bytes a : bytes_ok a -> bytes_of_items [WBytes a] = a.
Proof. intros H. rewrite bytes_of_items_cons_bytes, bytes_of_items_nil, app_nil_r by (auto; iok). reflexivity. Qed.

Lemma items_ok_tail it l : items_bytes_ok (it :: l) -> items_bytes_ok l.
Proof. intros H. inversion H; assumption. Qed.
Lemma items_ok_head_bytes a l : items_bytes_ok (WBytes a :: l) -> bytes_ok a.
Proof. intros H. inversion H; assumption. Qed.

(* registration (ISO/IEC 13818-1 2.6.8) *)
Lemma brt_registration d v :
  Descriptor_Tag d = 5 -> Descriptor_Registration d = Some v ->
  0 <= DescriptorRegistration_FormatIdentifier v < 2 ^ 32 ->
  zlen (DescriptorRegistration_AdditionalIdentificationInfo v) < 252 ->
  body_rt d (set_Registration (desc_hdr 5 (4 + zlen (DescriptorRegistration_AdditionalIdentificationInfo v))) v).
Proof.
  intros Ht Hv Hr Hl. set (ai := DescriptorRegistration_AdditionalIdentificationInfo v) in *.
  pose proof (zlen_nonneg ai) as Hnn.
  assert (Hs : desc_size d = 4 + zlen ai) by (unfold desc_size; rewrite Ht, Hv; reflexivity).
  intros pre body rest' (bi & Ebi & Hbok & ->). rewrite Ht, Hs.
  assert (bi = enc_registration v) by (unfold enc_descriptor_body in Ebi; rewrite Ht, Hv in Ebi; inversion Ebi; reflexivity). subst bi.
  change (parse_descriptor_body 5 (4 + zlen ai) (zlen pre + (4 + zlen ai))) with
    (v0 <- new_descriptor_registration (zlen pre + (4 + zlen ai)) ;; iret (set_Registration (desc_hdr 5 (4 + zlen ai)) v0)).
  unfold enc_registration in *. fold ai in Hbok |- *.
  assert (Hai : bytes_ok ai) by (apply items_ok_tail in Hbok; apply items_ok_head_bytes in Hbok; exact Hbok).
  destruct (u32_group _ Hr) as [Hl4 Hb4].
  change [wu32 (DescriptorRegistration_FormatIdentifier v); WBytes ai] with ([wu32 (DescriptorRegistration_FormatIdentifier v)] ++ [WBytes ai]).
  rewrite (bytes_of_items_app _ _ 4) by (try (unfold wu32; bl; reflexivity); iok). rewrite bytes_of_single_bytes by exact Hai.
  set (g := bytes_of_items [wu32 (DescriptorRegistration_FormatIdentifier v)]) in *.
  rewrite <- app_assoc. unfold new_descriptor_registration, ibind. rewrite next_bytes_nocopy_step by exact Hl4.
  unfold rest_bytes, ibind. rewrite ioffset_step.
  assert (Ez : zlen (pre ++ g) = zlen pre + 4) by (rewrite zlen_app; lia).
  destruct (zlen (pre ++ g) <? zlen pre + (4 + zlen ai)) eqn:Ec.
  - replace (zlen pre + (4 + zlen ai) - zlen (pre ++ g)) with (zlen ai) by lia.
    rewrite next_bytes_step by reflexivity.
    unfold iret. rewrite Hb4. destruct v. eexists. reflexivity.
  - assert (Hz : zlen ai = 0) by lia.
    assert (Eai : ai = []) by (apply length_zero_iff_nil; unfold zlen in Hz; lia).
    unfold iret. rewrite Hb4. destruct v as [a f]. unfold ai in Eai. cbn [DescriptorRegistration_AdditionalIdentificationInfo] in Eai.
    rewrite Eai. eexists. reflexivity.
Qed.

Theorem rt_registration d v out rest :
  Descriptor_Tag d = 5 -> Descriptor_Registration d = Some v ->
  0 <= DescriptorRegistration_FormatIdentifier v < 2 ^ 32 ->
  zlen (DescriptorRegistration_AdditionalIdentificationInfo v) < 252 ->
  enc_descriptors_with_length [d] = Ok out -> items_bytes_ok out ->
  parse_descriptors (new_iter (bytes_of_items out ++ rest)) =
    Ok ([set_Registration (desc_hdr 5 (4 + zlen (DescriptorRegistration_AdditionalIdentificationInfo v))) v],
        mk_iter (bytes_of_items out ++ rest) (8 + zlen (DescriptorRegistration_AdditionalIdentificationInfo v))).
Proof.
  intros Ht Hv Hr Hl H Hok.
  assert (Hbrt : body_rt d (set_Registration (desc_hdr 5 (4 + zlen (DescriptorRegistration_AdditionalIdentificationInfo v))) v)) by (apply (brt_registration d v); assumption).
  set (ai := DescriptorRegistration_AdditionalIdentificationInfo v) in *.
  pose proof (zlen_nonneg ai) as Hnn.
  assert (Hs : desc_size d = 4 + zlen ai) by (unfold desc_size; rewrite Ht, Hv; reflexivity).
  destruct (single_descriptor_loop d out rest (set_Registration (desc_hdr 5 (4 + zlen ai)) v) H Hok) as [E _];
    [rewrite Ht; lia|lia| |rewrite Hs in E; replace (8 + zlen ai) with (4 + (4 + zlen ai)) by lia; exact E].
  intros pre body rest' _ Hex. apply Hbrt. exact Hex.
Qed.

(* ISO 639 language and audio type (ISO/IEC 13818-1 2.6.18, one entry): 3-byte language code *)
Lemma brt_iso639 d v :
  Descriptor_Tag d = 10 -> Descriptor_ISO639LanguageAndAudioType d = Some v ->
  length (DescriptorISO639LanguageAndAudioType_Language v) = 3%nat ->
  byte_range (DescriptorISO639LanguageAndAudioType_Type v) ->
  body_rt d (set_ISO639LanguageAndAudioType (desc_hdr 10 4) v).
Proof.
  intros Ht Hv Hl3 Hr.
  assert (Hs : desc_size d = 4) by (unfold desc_size; rewrite Ht, Hv; reflexivity).
  intros pre body rest' (bi & Ebi & Hbok & ->). rewrite Ht, Hs.
  assert (bi = enc_iso639 v) by (unfold enc_descriptor_body in Ebi; rewrite Ht, Hv in Ebi; inversion Ebi; reflexivity). subst bi.
  change (parse_descriptor_body 10 4 (zlen pre + 4)) with
    (v0 <- new_descriptor_iso639 (zlen pre + 4) ;; iret (set_ISO639LanguageAndAudioType (desc_hdr 10 4) v0)).
  destruct v as [lang ty]. cbn [DescriptorISO639LanguageAndAudioType_Language DescriptorISO639LanguageAndAudioType_Type] in *.
  unfold enc_iso639, wbytesn in *. cbn [DescriptorISO639LanguageAndAudioType_Language DescriptorISO639LanguageAndAudioType_Type] in *.
  rewrite Hl3 in *. cbn [Nat.eqb Nat.leb] in *. rewrite <- Hl3, firstn_all in *. cbn [app] in *.
  assert (Hlang : bytes_ok lang) by (apply items_ok_head_bytes in Hbok; exact Hbok).
  rewrite bytes_of_items_cons_bytes, bytes_of_items_cons_u8, bytes_of_items_nil by iok. rewrite Z.mod_small by exact Hr.
  unfold new_descriptor_iso639, bytes_to, ibind. rewrite ioffset_step. replace (zlen pre + 4 - zlen pre) with 4 by lia.
  rewrite next_bytes_step by (rewrite zlen_app; unfold zlen; rewrite Hl3; reflexivity).
  destruct (lang ++ [ty]) as [|x l] eqn:El; [destruct lang; discriminate|]. rewrite <- El.
  unfold iret. rewrite removelast_last, last_last. eexists. reflexivity.
Qed.

Theorem rt_iso639 d v out rest :
  Descriptor_Tag d = 10 -> Descriptor_ISO639LanguageAndAudioType d = Some v ->
  length (DescriptorISO639LanguageAndAudioType_Language v) = 3%nat ->
  byte_range (DescriptorISO639LanguageAndAudioType_Type v) ->
  enc_descriptors_with_length [d] = Ok out -> items_bytes_ok out ->
  parse_descriptors (new_iter (bytes_of_items out ++ rest)) =
    Ok ([set_ISO639LanguageAndAudioType (desc_hdr 10 4) v], mk_iter (bytes_of_items out ++ rest) 8).
Proof.
  intros Ht Hv Hl3 Hr H Hok.
  assert (Hbrt : body_rt d (set_ISO639LanguageAndAudioType (desc_hdr 10 4) v)) by (apply (brt_iso639 d v); assumption).
  assert (Hs : desc_size d = 4) by (unfold desc_size; rewrite Ht, Hv; reflexivity).
  destruct (single_descriptor_loop d out rest (set_ISO639LanguageAndAudioType (desc_hdr 10 4) v) H Hok) as [E _]; [rewrite Ht; lia|lia| |rewrite Hs in E; exact E].
  intros pre body rest' _ Hex. apply Hbrt. exact Hex.
Qed.

(* service (EN 300 468 6.2.33) *)
Lemma brt_service d v :
  Descriptor_Tag d = 72 -> Descriptor_Service d = Some v -> byte_range (DescriptorService_Type v) ->
  3 + zlen (DescriptorService_Provider v) + zlen (DescriptorService_Name v) < 256 ->
  body_rt d (set_Service (desc_hdr 72 (3 + zlen (DescriptorService_Provider v) + zlen (DescriptorService_Name v))) v).
Proof.
  intros Ht Hv Hr Hl. destruct v as [name prov ty]. cbn [DescriptorService_Name DescriptorService_Provider DescriptorService_Type] in *.
  pose proof (zlen_nonneg name). pose proof (zlen_nonneg prov).
  assert (Hs : desc_size d = 3 + zlen prov + zlen name) by (unfold desc_size; rewrite Ht, Hv; reflexivity).
  intros pre body rest' (bi & Ebi & Hbok & ->). rewrite Ht, Hs.
  assert (bi = enc_service {| DescriptorService_Name := name; DescriptorService_Provider := prov; DescriptorService_Type := ty |})
    by (unfold enc_descriptor_body in Ebi; rewrite Ht, Hv in Ebi; inversion Ebi; reflexivity). subst bi.
  set (n := 3 + zlen prov + zlen name).
  change (parse_descriptor_body 72 n (zlen pre + n)) with (v0 <- new_descriptor_service ;; iret (set_Service (desc_hdr 72 n) v0)).
  unfold enc_service in *. cbn [DescriptorService_Name DescriptorService_Provider DescriptorService_Type] in *.
  assert (Hp : bytes_ok prov) by (do 2 apply items_ok_tail in Hbok; apply items_ok_head_bytes in Hbok; exact Hbok).
  assert (Hn : bytes_ok name) by (do 4 apply items_ok_tail in Hbok; apply items_ok_head_bytes in Hbok; exact Hbok).
  rewrite !bytes_of_items_cons_u8, bytes_of_items_cons_bytes, !bytes_of_items_cons_u8, bytes_of_items_cons_bytes, bytes_of_items_nil, app_nil_r by iok.
  unfold blen. fold (zlen prov) (zlen name). rewrite !Z.mod_small by (unfold byte_range in *; lia).
  replace ((ty :: zlen prov :: prov ++ zlen name :: name) ++ rest') with (ty :: zlen prov :: prov ++ zlen name :: name ++ rest')
    by (cbn [app]; rewrite <- app_assoc; reflexivity).
  unfold new_descriptor_service, ibind. rewrite next_byte_step. rewrite next_byte_step.
  rewrite next_bytes_step by reflexivity. rewrite next_byte_step. rewrite next_bytes_step by reflexivity.
  unfold iret. eexists. reflexivity.
Qed.

Theorem rt_service d v out rest :
  Descriptor_Tag d = 72 -> Descriptor_Service d = Some v -> byte_range (DescriptorService_Type v) ->
  3 + zlen (DescriptorService_Provider v) + zlen (DescriptorService_Name v) < 256 ->
  enc_descriptors_with_length [d] = Ok out -> items_bytes_ok out ->
  parse_descriptors (new_iter (bytes_of_items out ++ rest)) =
    Ok ([set_Service (desc_hdr 72 (3 + zlen (DescriptorService_Provider v) + zlen (DescriptorService_Name v))) v],
        mk_iter (bytes_of_items out ++ rest) (4 + (3 + zlen (DescriptorService_Provider v) + zlen (DescriptorService_Name v)))).
Proof.
  intros Ht Hv Hr Hl H Hok.
  assert (Hbrt : body_rt d (set_Service (desc_hdr 72 (3 + zlen (DescriptorService_Provider v) + zlen (DescriptorService_Name v))) v)) by (apply (brt_service d v); assumption).
  destruct v as [name prov ty]. cbn [DescriptorService_Name DescriptorService_Provider DescriptorService_Type] in *.
  pose proof (zlen_nonneg name). pose proof (zlen_nonneg prov).
  assert (Hs : desc_size d = 3 + zlen prov + zlen name) by (unfold desc_size; rewrite Ht, Hv; reflexivity).
  destruct (single_descriptor_loop d out rest
     (set_Service (desc_hdr 72 (3 + zlen prov + zlen name)) {| DescriptorService_Name := name; DescriptorService_Provider := prov; DescriptorService_Type := ty |}) H Hok) as [E _];
    [rewrite Ht; lia|lia| |rewrite Hs in E; exact E].
  intros pre body rest' _ Hex. apply Hbrt. exact Hex.
Qed.

Lemma one_byte_group g : items_bytes_ok g -> bitlen g = 8 ->
  exists b, bytes_of_items g = [b] /\ bits_of_bytes [b] = items_bits g.
Proof.
  intros Hok Hb. destruct (bytes_of_group g 1 Hok) as [Hl Hbits]; [lia|].
  destruct (bytes_of_items g) as [|b [|c l]] eqn:E; unfold zlen in Hl; cbn [length] in Hl; try lia.
  exists b. split; [reflexivity|exact Hbits].
Qed.

(* AVC video (ISO/IEC 13818-1 2.6.64) *)
Lemma brt_avc_video d v :
  Descriptor_Tag d = 40 -> Descriptor_AVCVideo d = Some v ->
  byte_range (DescriptorAVCVideo_ProfileIDC v) -> byte_range (DescriptorAVCVideo_LevelIDC v) ->
  0 <= DescriptorAVCVideo_CompatibleFlags v < 32 ->
  body_rt d (set_AVCVideo (desc_hdr 40 4) v).
Proof.
  intros Ht Hv Hp Hlv Hcf.
  assert (Hs : desc_size d = 4) by (unfold desc_size; rewrite Ht, Hv; reflexivity).
  intros pre body rest' (bi & Ebi & Hbok & ->). rewrite Ht, Hs.
  assert (bi = enc_avc_video v) by (unfold enc_descriptor_body in Ebi; rewrite Ht, Hv in Ebi; inversion Ebi; reflexivity). subst bi.
  change (parse_descriptor_body 40 4 (zlen pre + 4)) with (v0 <- new_descriptor_avc_video ;; iret (set_AVCVideo (desc_hdr 40 4) v0)).
  destruct v as [h24 still cf c0 c1 c2 lv pr].
  cbn [DescriptorAVCVideo_ProfileIDC DescriptorAVCVideo_LevelIDC DescriptorAVCVideo_CompatibleFlags] in *.
  unfold enc_avc_video. cbn [DescriptorAVCVideo_AVC24HourPictureFlag DescriptorAVCVideo_AVCStillPresent DescriptorAVCVideo_CompatibleFlags
    DescriptorAVCVideo_ConstraintSet0Flag DescriptorAVCVideo_ConstraintSet1Flag DescriptorAVCVideo_ConstraintSet2Flag
    DescriptorAVCVideo_LevelIDC DescriptorAVCVideo_ProfileIDC].
  set (g1 := [WBool c0; WBool c1; WBool c2; WBits 5 cf]). set (g3 := [WBool still; WBool h24; WBits 6 255]).
  change [wu8 pr; WBool c0; WBool c1; WBool c2; WBits 5 cf; wu8 lv; WBool still; WBool h24; WBits 6 255] with (wu8 pr :: (g1 ++ wu8 lv :: g3)).
  destruct (one_byte_group g1) as (b1 & Eb1 & Hb1); [unfold g1; iok|unfold g1; bl; reflexivity|].
  destruct (one_byte_group g3) as (b3 & Eb3 & Hb3); [unfold g3; iok|unfold g3; bl; reflexivity|].
  rewrite bytes_of_items_cons_u8 by (unfold g1, g3; iok).
  change (WBool c0 :: WBool c1 :: WBool c2 :: WBits 5 cf :: wu8 lv :: g3) with (g1 ++ wu8 lv :: g3).
  rewrite (bytes_of_items_app g1 _ 1) by (try (unfold g1; bl; reflexivity); unfold g1, g3; iok).
  rewrite bytes_of_items_cons_u8 by (unfold g3; iok). rewrite Eb1, Eb3. rewrite !Z.mod_small by assumption. cbn [app].
  unfold new_descriptor_avc_video, ibind. rewrite next_byte_step. rewrite next_byte_step. rewrite next_byte_step. rewrite next_byte_step.
  unfold iret, bitb, bitsf. rewrite Hb1, Hb3. unfold g1, g3, items_bits. cbn [flat_map item_bits app].
  rewrite !field_bit_skip, !field_bit_here, !b2z_eqb, field_here by exact Hcf.
  eexists. reflexivity.
Qed.

Theorem rt_avc_video d v out rest :
  Descriptor_Tag d = 40 -> Descriptor_AVCVideo d = Some v ->
  byte_range (DescriptorAVCVideo_ProfileIDC v) -> byte_range (DescriptorAVCVideo_LevelIDC v) ->
  0 <= DescriptorAVCVideo_CompatibleFlags v < 32 ->
  enc_descriptors_with_length [d] = Ok out -> items_bytes_ok out ->
  parse_descriptors (new_iter (bytes_of_items out ++ rest)) =
    Ok ([set_AVCVideo (desc_hdr 40 4) v], mk_iter (bytes_of_items out ++ rest) 8).
Proof.
  intros Ht Hv Hp Hlv Hcf H Hok.
  assert (Hbrt : body_rt d (set_AVCVideo (desc_hdr 40 4) v)) by (apply (brt_avc_video d v); assumption).
  assert (Hs : desc_size d = 4) by (unfold desc_size; rewrite Ht, Hv; reflexivity).
  destruct (single_descriptor_loop d out rest (set_AVCVideo (desc_hdr 40 4) v) H Hok) as [E _]; [rewrite Ht; lia|lia| |rewrite Hs in E; exact E].
  intros pre body rest' _ Hex. apply Hbrt. exact Hex.
Qed.

(* ================= part D: the writers emit the reference layouts ================= *)

Lemma bytes_of_bits_word n x : bytes_of_bits (bits_of (8 + n) x) = ((x / 2 ^ Z.of_nat n) mod 256) :: bytes_of_bits (bits_of n x).
Proof. rewrite bits_of_split, bytes_of_bits_8 by apply bits_of_length. rewrite Z_of_bits_of_mod. reflexivity. Qed.

Lemma bytes_of_u16 x : bytes_of_items [wu16 x] = be16_bytes x.
Proof.
  rewrite chunks_concat by iok. unfold wu16, items_bits. cbn [flat_map item_bits]. rewrite app_nil_r.
  change 16%nat with (8 + 8)%nat. rewrite bytes_of_bits_word, bytes_of_bits_bits_of_8. reflexivity.
Qed.

Lemma bytes_of_u32 x : bytes_of_items [wu32 x] = be32_bytes x.
Proof.
  rewrite chunks_concat by iok. unfold wu32, items_bits. cbn [flat_map item_bits]. rewrite app_nil_r.
  change 32%nat with (8 + 24)%nat. rewrite bytes_of_bits_word. change 24%nat with (8 + 16)%nat. rewrite bytes_of_bits_word.
  change 16%nat with (8 + 8)%nat. rewrite bytes_of_bits_word, bytes_of_bits_bits_of_8. reflexivity.
Qed.

Lemma bytes_of_items_cons_u16 x l : items_bytes_ok l -> bytes_of_items (wu16 x :: l) = be16_bytes x ++ bytes_of_items l.
Proof.
  intros Hl. change (wu16 x :: l) with ([wu16 x] ++ l). rewrite (bytes_of_items_app _ _ 2) by (try (unfold wu16; bl; reflexivity); iok).
  rewrite bytes_of_u16. reflexivity.
Qed.
Lemma bytes_of_items_cons_u32 x l : items_bytes_ok l -> bytes_of_items (wu32 x :: l) = be32_bytes x ++ bytes_of_items l.
Proof.
  intros Hl. change (wu32 x :: l) with ([wu32 x] ++ l). rewrite (bytes_of_items_app _ _ 4) by (try (unfold wu32; bl; reflexivity); iok).
  rewrite bytes_of_u32. reflexivity.
Qed.

(* two nibbles make a byte *)
Lemma bytes_of_items_cons_nibbles a b l : items_bytes_ok l -> 0 <= a < 16 -> 0 <= b < 16 ->
  bytes_of_items (WBits 4 a :: WBits 4 b :: l) = (a * 16 + b) :: bytes_of_items l.
Proof.
  intros Hl Ha Hb. change (WBits 4 a :: WBits 4 b :: l) with ([WBits 4 a; WBits 4 b] ++ l).
  rewrite (bytes_of_items_app _ _ 1) by (try (bl; reflexivity); iok). f_equal.
  rewrite chunks_concat by iok. unfold items_bits. cbn [flat_map item_bits]. rewrite app_nil_r.
  rewrite <- (app_nil_r (bits_of 4 a ++ bits_of 4 b)), bytes_of_bits_8 by (rewrite app_length, !bits_of_length; reflexivity).
  rewrite Z_of_bits_app, bits_of_length, !Z_of_bits_of by (cbn; lia). reflexivity.
Qed.

(* a 3-byte code goes out as it is *)
Lemma wbytesn_3 bs : length bs = 3%nat -> wbytesn bs 3 0 = [WBytes bs].
Proof. intros H. unfold wbytesn. rewrite H. cbn [Nat.eqb Nat.leb]. rewrite <- H, firstn_all. reflexivity. Qed.

Lemma write_stream_identifier v : byte_range (DescriptorStreamIdentifier_ComponentTag v) ->
  bytes_of_items (enc_stream_identifier v) = ref_stream_identifier v.
Proof. intros H. unfold enc_stream_identifier, ref_stream_identifier. rewrite bytes_of_items_cons_u8, Z.mod_small by (auto; iok). reflexivity. Qed.

Lemma write_data_stream_alignment v : byte_range (DescriptorDataStreamAlignment_Type v) ->
  bytes_of_items (enc_data_stream_alignment v) = ref_data_stream_alignment v.
Proof. intros H. unfold enc_data_stream_alignment, ref_data_stream_alignment. rewrite bytes_of_items_cons_u8, Z.mod_small by (auto; iok). reflexivity. Qed.

Lemma write_registration v : bytes_ok (DescriptorRegistration_AdditionalIdentificationInfo v) ->
  bytes_of_items (enc_registration v) = ref_registration v.
Proof. intros H. unfold enc_registration, ref_registration. rewrite bytes_of_items_cons_u32, bytes_of_single_bytes by (auto; iok). reflexivity. Qed.

Lemma write_private_data_indicator v : bytes_of_items (enc_private_data_indicator v) = ref_private_data_indicator v.
Proof. apply bytes_of_u32. Qed.
Lemma write_private_data_specifier v : bytes_of_items (enc_private_data_specifier v) = ref_private_data_specifier v.
Proof. apply bytes_of_u32. Qed.

Lemma write_iso639 v : length (DescriptorISO639LanguageAndAudioType_Language v) = 3%nat ->
  bytes_ok (DescriptorISO639LanguageAndAudioType_Language v) -> byte_range (DescriptorISO639LanguageAndAudioType_Type v) ->
  bytes_of_items (enc_iso639 v) = ref_iso639 v.
Proof.
  intros H3 Hb Hr. unfold enc_iso639, ref_iso639. rewrite wbytesn_3 by exact H3. cbn [app].
  rewrite bytes_of_items_cons_bytes, bytes_of_items_cons_u8, Z.mod_small by (auto; iok). reflexivity.
Qed.

Lemma write_network_name v : bytes_ok (DescriptorNetworkName_Name v) -> bytes_of_items (enc_network_name v) = ref_network_name v.
Proof. intros H. apply bytes_of_single_bytes. exact H. Qed.

Lemma write_unknown v : bytes_ok (DescriptorUnknown_Content v) -> bytes_of_items (enc_unknown v) = ref_unknown v.
Proof. intros H. apply bytes_of_single_bytes. exact H. Qed.

Lemma write_service v : byte_range (DescriptorService_Type v) ->
  bytes_ok (DescriptorService_Provider v) -> bytes_ok (DescriptorService_Name v) ->
  zlen (DescriptorService_Provider v) < 256 -> zlen (DescriptorService_Name v) < 256 ->
  bytes_of_items (enc_service v) = ref_service v.
Proof.
  intros Hr Hp Hn Hlp Hln. pose proof (zlen_nonneg (DescriptorService_Provider v)). pose proof (zlen_nonneg (DescriptorService_Name v)).
  unfold enc_service, ref_service, blen. fold (zlen (DescriptorService_Provider v)) (zlen (DescriptorService_Name v)).
  rewrite !bytes_of_items_cons_u8, bytes_of_items_cons_bytes, bytes_of_items_cons_u8, bytes_of_single_bytes by (auto; iok).
  rewrite !Z.mod_small by (unfold byte_range in *; lia). reflexivity.
Qed.

Lemma write_short_event v : length (DescriptorShortEvent_Language v) = 3%nat -> bytes_ok (DescriptorShortEvent_Language v) ->
  bytes_ok (DescriptorShortEvent_EventName v) -> bytes_ok (DescriptorShortEvent_Text v) ->
  zlen (DescriptorShortEvent_EventName v) < 256 -> zlen (DescriptorShortEvent_Text v) < 256 ->
  bytes_of_items (enc_short_event v) = ref_short_event v.
Proof.
  intros H3 Hl He Ht Hle Hlt. pose proof (zlen_nonneg (DescriptorShortEvent_EventName v)). pose proof (zlen_nonneg (DescriptorShortEvent_Text v)).
  unfold enc_short_event, ref_short_event, blen. fold (zlen (DescriptorShortEvent_EventName v)) (zlen (DescriptorShortEvent_Text v)).
  rewrite wbytesn_3 by exact H3. cbn [app].
  rewrite bytes_of_items_cons_bytes, bytes_of_items_cons_u8, bytes_of_items_cons_bytes, bytes_of_items_cons_u8, bytes_of_single_bytes by (auto; iok).
  rewrite !Z.mod_small by lia. reflexivity.
Qed.

(* list-valued bodies, by induction over the items *)
Lemma bytes_of_items_flat_map {A} (f : A -> list witem) (g : A -> list Z) (n : A -> Z) (P : A -> Prop) (l : list A) :
  (forall x, P x -> items_bytes_ok (f x) /\ bitlen (f x) = 8 * n x /\ bytes_of_items (f x) = g x) ->
  Forall P l -> items_bytes_ok (flat_map f l) /\ bytes_of_items (flat_map f l) = flat_map g l.
Proof.
  intros H HF. induction HF as [|x l Hx _ [IHok IH]]; [split; [constructor|reflexivity]|].
  destruct (H x Hx) as (Hok & Hb & Hg). cbn [flat_map]. split; [apply items_bytes_ok_app; assumption|].
  rewrite (bytes_of_items_app _ _ (n x)) by assumption. rewrite Hg, IH. reflexivity.
Qed.

Lemma write_parental_rating v :
  Forall (fun it => length (DescriptorParentalRatingItem_CountryCode it) = 3%nat /\ bytes_ok (DescriptorParentalRatingItem_CountryCode it) /\
                    byte_range (DescriptorParentalRatingItem_Rating it)) (DescriptorParentalRating_Items v) ->
  bytes_of_items (enc_parental_rating v) = ref_parental_rating v.
Proof.
  intros HF. unfold enc_parental_rating, ref_parental_rating.
  apply (bytes_of_items_flat_map _ _ (fun _ => 4) _ _ ) with (2 := HF). intros it (H3 & Hb & Hr).
  unfold enc_parental_rating_item. rewrite wbytesn_3 by exact H3. cbn [app]. split; [iok|]. split; [bl; unfold zlen; rewrite H3; reflexivity|].
  rewrite bytes_of_items_cons_bytes, bytes_of_items_cons_u8, Z.mod_small by (auto; iok). reflexivity.
Qed.

Lemma write_subtitling v :
  Forall (fun it => length (DescriptorSubtitlingItem_Language it) = 3%nat /\ bytes_ok (DescriptorSubtitlingItem_Language it) /\
                    byte_range (DescriptorSubtitlingItem_Type it)) (DescriptorSubtitling_Items v) ->
  bytes_of_items (enc_subtitling v) = ref_subtitling v.
Proof.
  intros HF. unfold enc_subtitling, ref_subtitling.
  apply (bytes_of_items_flat_map _ _ (fun _ => 8) _ _ ) with (2 := HF). intros it (H3 & Hb & Hr).
  unfold enc_subtitling_item. rewrite wbytesn_3 by exact H3. cbn [app]. split; [iok|]. split; [bl; unfold zlen; rewrite H3; reflexivity|].
  rewrite bytes_of_items_cons_bytes, bytes_of_items_cons_u8, bytes_of_items_cons_u16, bytes_of_items_cons_u16, Z.mod_small by (auto; iok).
  rewrite bytes_of_items_nil, app_nil_r. reflexivity.
Qed.

Lemma write_content v :
  Forall (fun it => 0 <= DescriptorContentItem_ContentNibbleLevel1 it < 16 /\ 0 <= DescriptorContentItem_ContentNibbleLevel2 it < 16 /\
                    byte_range (DescriptorContentItem_UserByte it)) (DescriptorContent_Items v) ->
  bytes_of_items (enc_content v) = ref_content v.
Proof.
  intros HF. unfold enc_content, ref_content.
  apply (bytes_of_items_flat_map _ _ (fun _ => 2) _ _ ) with (2 := HF). intros it (H1 & H2 & Hr).
  unfold enc_content_item. split; [iok|]. split; [bl; reflexivity|].
  rewrite bytes_of_items_cons_nibbles, bytes_of_items_cons_u8, Z.mod_small by (auto; iok). reflexivity.
Qed.

(* writeDescriptor: tag, size, body — with the body lemmas above this is the reference encoding of the descriptor *)
Theorem write_descriptor_bytes d bi : enc_descriptor_body d = Ok bi -> items_bytes_ok bi ->
  0 <= Descriptor_Tag d < 256 -> 0 < desc_size d < 256 ->
  res_map bytes_of_items (enc_descriptor d) = Ok ([Descriptor_Tag d; desc_size d] ++ bytes_of_items bi).
Proof.
  intros Ebi Hok Ht Hs. unfold enc_descriptor. destruct (emitted_nowrap d ltac:(lia)) as [_ Ec]. rewrite Ec.
  destruct (desc_size d =? 0) eqn:E; [lia|]. rewrite Ebi. cbn [res_map]. f_equal.
  rewrite (bytes_of_items_app _ _ 2) by (try (unfold wu8; bl; reflexivity); iok). rewrite bytes_of_two_u8, !Z.mod_small by lia. reflexivity.
Qed.

(* one descriptor, no guard: what is emitted when the size wraps *)
Theorem descriptor_any_len d its : enc_descriptor d = Ok its -> items_bytes_ok its ->
  exists body,
    bytes_of_items its = [Descriptor_Tag d mod 256; calc_descriptor_length d mod 256] ++ body /\
    calc_descriptor_length d = desc_size d mod 256 /\
    zlen body = (if desc_size d mod 256 =? 0 then 0 else desc_size d).
Proof.
  intros H Hok. destruct (enc_descriptor_bytes d its H Hok) as (body & E & Hl & _).
  destruct (emitted_wrap d) as [Ec Ee]. exists body. rewrite <- Ee. auto.
Qed.

(* ================= part E: loops of several descriptors of mixed tags ================= *)

(* what one entry of a loop parses back to: a descriptor whose body is empty (an empty list, an empty name: S7)
   comes back as the bare header; otherwise the body-level round trip of its tag applies *)
Definition entry_rt (d d' : Descriptor) : Prop :=
  0 <= Descriptor_Tag d < 256 /\ desc_size d < 256 /\
  ((desc_size d = 0 /\ d' = desc_hdr (Descriptor_Tag d) 0) \/ (0 < desc_size d /\ body_rt d d')).

Definition body_facts (d : Descriptor) (b : list Z) : Prop :=
  zlen b = desc_size d /\
  (desc_size d = 0 -> b = []) /\
  (0 < desc_size d -> exists bi, enc_descriptor_body d = Ok bi /\ items_bytes_ok bi /\ b = bytes_of_items bi).

Lemma enc_descriptor_body_facts d its : enc_descriptor d = Ok its -> items_bytes_ok its -> desc_size d < 256 ->
  exists b, bytes_of_items its = entry_bytes d b /\ body_facts d b /\ bitlen its = 8 * (2 + desc_size d).
Proof.
  intros H Hok Hs. pose proof (desc_size_nonneg d) as Hnn. destruct (emitted_nowrap d Hs) as [Ee Ec].
  unfold enc_descriptor in H. rewrite Ec in H. destruct (desc_size d =? 0) eqn:Ez.
  - inversion H; subst its. exists []. split; [|split].
    + unfold entry_bytes. rewrite app_nil_r, Ec. apply bytes_of_two_u8.
    + split; [unfold zlen; cbn; lia|]. split; [reflexivity|lia].
    + unfold wu8. bl. lia.
  - destruct (enc_descriptor_body d) as [bi| |] eqn:Ebi; cbn [res_map] in H; try discriminate H.
    assert (Ei : its = [wu8 (Descriptor_Tag d); wu8 (desc_size d)] ++ bi) by (inversion H; reflexivity). subst its.
    apply items_bytes_ok_app_inv in Hok. destruct Hok as [Hoh Hob].
    pose proof (enc_descriptor_body_size d bi Ebi) as Hbl.
    exists (bytes_of_items bi). split; [|split].
    + rewrite (bytes_of_items_app _ _ 2) by (auto; unfold wu8; bl; reflexivity). rewrite bytes_of_two_u8. unfold entry_bytes. rewrite Ec. reflexivity.
    + split; [apply bytes_of_items_zlen; assumption|]. split; [lia|]. intros _. exists bi. auto.
    + rewrite bitlen_app, Hbl. unfold wu8. bl. lia.
Qed.

Lemma enc_descriptors_bodies ds : forall its, enc_descriptors ds = Ok its -> items_bytes_ok its ->
  Forall (fun d => desc_size d < 256) ds ->
  exists bodies, bytes_of_items its = loop_bytes ds bodies /\ Forall2 body_facts ds bodies.
Proof.
  induction ds as [|d ds IH]; intros its H Hok HF.
  - inversion H; subst. exists []. split; [reflexivity|constructor].
  - cbn [enc_descriptors] in H. destruct (enc_descriptor d) as [a| |] eqn:Ea; cbn [res_bind] in H; try discriminate H.
    destruct (enc_descriptors ds) as [r| |] eqn:Er; cbn [res_map] in H; try discriminate H.
    inversion H; subst. inversion HF; subst. apply items_bytes_ok_app_inv in Hok. destruct Hok as [Hoa Hor].
    destruct (enc_descriptor_body_facts d a Ea Hoa ltac:(assumption)) as (b & Eb & Hf & Hbits).
    destruct (IH r eq_refl Hor ltac:(assumption)) as (bodies & Ebs & HF2).
    exists (b :: bodies). split; [|constructor; assumption].
    rewrite (bytes_of_items_app _ _ (2 + desc_size d)) by assumption. rewrite Eb, Ebs. reflexivity.
Qed.

Lemma byte_of_mid0 pre x l : byte_of (pre ++ x :: l) (zlen pre) = x.
Proof. unfold byte_of, zlen. rewrite Nat2Z.id, app_nth2, Nat.sub_diag by lia. reflexivity. Qed.
Lemma byte_of_mid1 pre x y l : byte_of (pre ++ x :: y :: l) (zlen pre + 1) = y.
Proof.
  unfold byte_of, zlen. replace (Z.to_nat (Z.of_nat (length pre) + 1)) with (length pre + 1)%nat by lia.
  rewrite app_nth2 by lia. replace (length pre + 1 - length pre)%nat with 1%nat by lia. reflexivity.
Qed.

Lemma loop_size_cons d ds : loop_size (d :: ds) = 2 + desc_size d + loop_size ds.
Proof. reflexivity. Qed.
Lemma loop_size_nonneg ds : 0 <= loop_size ds.
Proof. apply sumZ_nonneg. intros x. pose proof (desc_size_nonneg x). lia. Qed.

Lemma tlv_parse_empty' hdr body bs endp pos tag ds fin :
  pos < endp -> 0 <= pos -> pos + 2 <= zlen bs -> byte_of bs pos = tag -> byte_of bs (pos + 1) = 0 ->
  tlv_parse hdr body bs endp (pos + 2) ds fin -> tlv_parse hdr body bs endp pos (hdr tag 0 :: ds) fin.
Proof.
  intros H1 H2 H3 <- E0 Ht. replace (hdr (byte_of bs pos) 0) with (hdr (byte_of bs pos) (byte_of bs (pos + 1))) by (rewrite E0; reflexivity).
  apply tlv_parse_empty; try assumption. lia.
Qed.

Lemma tlv_parse_body' hdr body bs endp pos tag len d i' ds fin :
  pos < endp -> 0 <= pos -> pos + 2 <= zlen bs -> byte_of bs pos = tag -> byte_of bs (pos + 1) = len -> 0 < len ->
  body tag len (pos + 2 + len) (mk_iter bs (pos + 2)) = Ok (d, i') ->
  tlv_parse hdr body bs endp (pos + 2 + len) ds fin -> tlv_parse hdr body bs endp pos (d :: ds) fin.
Proof. intros H1 H2 H3 <- <- Hl Eb Ht. eapply tlv_parse_body; eassumption. Qed.

Lemma loop_tlv ds ds' : Forall2 entry_rt ds ds' -> forall bodies, Forall2 body_facts ds bodies ->
  forall pre rest endp, endp = zlen pre + loop_size ds ->
  tlv_parse desc_hdr parse_descriptor_body (pre ++ loop_bytes ds bodies ++ rest) endp (zlen pre) ds' endp.
Proof.
  induction 1 as [|d d' ds ds' (Htag & Hlt & Hcase) _ IH]; intros bodies HB pre rest endp He.
  - inversion HB; subst. replace (zlen pre + loop_size []) with (zlen pre) by (unfold loop_size; cbn; lia).
    apply tlv_parse_done. lia.
  - inversion HB as [|? b ? bodies' (Hzl & Hb0 & Hbi) HB']; subst. cbn [loop_bytes]. unfold entry_bytes.
    pose proof (desc_size_nonneg d) as Hnn. pose proof (loop_size_nonneg ds) as Hln. pose proof (zlen_nonneg pre) as Hpn.
    destruct (emitted_nowrap d Hlt) as [_ Ec]. rewrite Ec, !Z.mod_small by lia.
    rewrite loop_size_cons.
    set (tail := loop_bytes ds bodies').
    set (tg := Descriptor_Tag d) in *. set (sz := desc_size d) in *.
    set (buf := pre ++ (([tg; sz] ++ b) ++ tail) ++ rest).
    assert (Ebuf : buf = pre ++ tg :: sz :: b ++ tail ++ rest) by (unfold buf; cbn [app]; rewrite <- app_assoc; reflexivity).
    assert (Hz : zlen buf = zlen pre + 2 + sz + zlen tail + zlen rest).
    { rewrite Ebuf, zlen_app, !zlen_cons, !zlen_app. lia. }
    pose proof (zlen_nonneg tail). pose proof (zlen_nonneg rest).
    assert (Et : byte_of buf (zlen pre) = tg) by (rewrite Ebuf; apply byte_of_mid0).
    assert (El : byte_of buf (zlen pre + 1) = sz) by (rewrite Ebuf; apply byte_of_mid1).
    destruct Hcase as [(Hs0 & ->)|(Hpos & Hrt)].
    + assert (Eb0 : b = []) by (apply Hb0; exact Hs0).
      apply tlv_parse_empty'; try lia; try assumption.
      assert (Eb2 : buf = (pre ++ [tg; sz]) ++ tail ++ rest) by (rewrite Ebuf, Eb0; cbn [app]; rewrite <- app_assoc; reflexivity).
      rewrite Eb2. replace (zlen pre + 2) with (zlen (pre ++ [tg; sz])) by (rewrite zlen_app; reflexivity).
      apply IH; [exact HB'|]. rewrite zlen_app. change (zlen [tg; sz]) with 2. lia.
    + destruct (Hbi Hpos) as (bi & Ebi & Hbok & Ebb).
      destruct (Hrt (pre ++ [tg; sz]) b (tail ++ rest) (ex_intro _ bi (conj Ebi (conj Hbok Ebb)))) as (i1 & Ei1).
      assert (Eb2 : (pre ++ [tg; sz]) ++ b ++ tail ++ rest = buf) by (rewrite Ebuf, <- app_assoc; reflexivity).
      assert (Ez2 : zlen (pre ++ [tg; sz]) = zlen pre + 2) by (rewrite zlen_app; reflexivity).
      rewrite Eb2, Ez2 in Ei1.
      apply (tlv_parse_body' _ _ _ _ _ tg sz d' i1); try lia; try assumption.
      assert (Eb3 : buf = (pre ++ [tg; sz] ++ b) ++ tail ++ rest) by (rewrite Ebuf, <- !app_assoc; reflexivity).
      rewrite Eb3. replace (zlen pre + 2 + sz) with (zlen (pre ++ [tg; sz] ++ b)) by (rewrite !zlen_app; change (zlen [tg; sz]) with 2; lia).
      apply IH; [exact HB'|]. rewrite !zlen_app. change (zlen [tg; sz]) with 2. lia.
Qed.

(* a loop of any number of descriptors of mixed tags: parsing what writeDescriptorsWithLength emits yields the
   entry-wise results and stops right behind the loop *)
Theorem loop_roundtrip ds ds' out rest :
  enc_descriptors_with_length ds = Ok out -> items_bytes_ok out -> loop_size ds < 4096 ->
  Forall2 entry_rt ds ds' ->
  parse_descriptors (new_iter (bytes_of_items out ++ rest)) = Ok (ds', mk_iter (bytes_of_items out ++ rest) (2 + loop_size ds)).
Proof.
  intros H Hok Hl HR.
  assert (HF : Forall (fun d => desc_size d < 256) ds).
  { clear -HR. induction HR as [|d d' ds ds' (_ & Hlt & _) _ IH]; constructor; assumption. }
  destruct (descriptors_with_length_exact ds out H Hok HF Hl) as (hdr0 & bodies0 & _ & _ & _ & Hbits & Hlen).
  unfold enc_descriptors_with_length in H.
  destruct (enc_descriptors ds) as [its| |] eqn:E; cbn [res_map] in H; try discriminate H.
  assert (Eo : out = [WBits 4 255; WBits 12 (calc_descriptors_length ds)] ++ its) by (inversion H; reflexivity).
  subst out; clear H. apply items_bytes_ok_app_inv in Hok. destruct Hok as [Hoh Hoi].
  destruct (enc_descriptors_bodies ds its E Hoi HF) as (bodies & Eb & HB).
  set (hd := [WBits 4 255; WBits 12 (calc_descriptors_length ds)]) in *.
  assert (Hh2 : zlen (bytes_of_items hd) = 2) by (apply bytes_of_items_zlen; [assumption|unfold hd; bl; reflexivity]).
  destruct (bytes_of_items hd) as [|h0 [|h1 [|h2 hl]]] eqn:Ehd; unfold zlen in Hh2; cbn [length] in Hh2; try lia.
  rewrite (bytes_of_items_app hd its 2) in * by (auto; unfold hd; bl; reflexivity). rewrite Ehd, Eb in *.
  set (buf := ([h0; h1] ++ loop_bytes ds bodies) ++ rest).
  assert (Ebuf : buf = [h0; h1] ++ loop_bytes ds bodies ++ rest) by (unfold buf; rewrite <- app_assoc; reflexivity).
  assert (Hl0 : loop_length_at buf 0 = loop_size ds).
  { rewrite Hlen in Hbits. cbn [app] in Hbits. rewrite bitsf_prefix2 in Hbits.
    replace (loop_size ds) with (bitsf [h0; h1] 4 12) by lia. symmetry. rewrite Ebuf. apply loop_length_bits; reflexivity. }
  pose proof (loop_size_nonneg ds) as Hnn.
  unfold parse_descriptors, new_iter. fold buf.
  apply parse_descriptors_complete; [apply pres_parse_descriptor_body|lia| |].
  - unfold buf. rewrite zlen_app, Hlen. pose proof (zlen_nonneg rest). lia.
  - rewrite Hl0, Ebuf. change (0 + 2) with (zlen [h0; h1]).
    replace (2 + loop_size ds) with (zlen [h0; h1] + loop_size ds) by reflexivity.
    apply loop_tlv; [exact HR|exact HB|reflexivity].
Qed.
