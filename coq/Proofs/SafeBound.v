(* C03_progress / C03_bound: with a reader that does not fail, every NextPacket / NextData call that does not return
   ErrNoMorePackets strictly decreases a non-negative potential, so ErrNoMorePackets is reached after at most
   potential(initial state) = 2 * length input calls.

   potential s = bytes the reader has left
               + (length of the input, while no packet buffer exists: a successful auto-detection on a seekable reader
                  seeks back to the start of the stream, possibly after earlier failed detections consumed their windows)
               + number of buffered data
               + for every pool entry 1 + (1 + payload length) for each packet it holds.
   Reading a packet removes packetSize >= 188 bytes and adds at most 1 + 1 + 184 to the pool; a flushed group of weight
   w yields at most w data (a PSI unit of L bytes has at most L - 1 sections, each section yields at most one table; a
   PES unit yields one), one of which is returned; the end-of-stream drain removes an entry per round. *)
From Coq Require Import ZArith List Lia Bool ZifyBool.
Require Import Base.Bits Base.Iter Gen.Consts Gen.Types Gen.Preds Model.Packet Model.Pool Model.Reader Model.Demux
  Model.Pes Model.Psi Model.DemuxFull.
Require Import Proofs.SafeProofs Proofs.SafeUnits Proofs.SafePsi Proofs.SafeDemux Proofs.ReaderProofs Proofs.PoolProofs
  Proofs.DemuxProofs.
Import ListNotations.
Open Scope Z_scope.

(* ---------------- a packet's payload has at most 184 bytes ---------------- *)

Definition plen (p : Packet) : Z := Z.of_nat (length (Packet_Payload p)).

Lemma osafe_idump_len L o : 0 <= o -> osafe idump L o (fun bs _ => Z.of_nat (length bs) = Z.max 0 (L - o)).
Proof.
  intros H0 i Ho Hl Hb. unfold idump. destruct (negb (ioff i <? ilen i)) eqn:E; [cbn; split; [lia|reflexivity]|].
  destruct (ioff i <? 0) eqn:E2; [lia|]. cbn [ibs ioff]. split; [|reflexivity].
  rewrite skipn_length. unfold ilen in *. lia.
Qed.

Lemma osafe_parse_packet_head L : C_MpegTsPacketSize <= L ->
  osafe parse_packet_head L 0 (fun x o' => snd x = L - C_MpegTsPacketSize + 1 /\
     match Packet_AdaptationField (fst x) with Some a => 0 <= PacketAdaptationField_Length a | None => True end /\
     Packet_Payload (fst x) = []).
Proof.
  intros HL. unfold parse_packet_head. unfold C_MpegTsPacketSize in *.
  eapply osafe_bind; [apply osafe_next_byte; lia|]. cbv beta. intros b o1 (Hb & -> & _).
  destruct (negb (b =? syncByte)); [apply osafe_ierr; right; reflexivity|].
  eapply osafe_bind; [apply osafe_ilength|]. cbv beta. intros len o1 [-> ->].
  eapply osafe_bind; [apply osafe_iseek|]. cbv beta. intros _ o1 ->.
  eapply osafe_bind; [apply osafe_ioffset|]. cbv beta. intros off o1 [-> ->].
  eapply osafe_bind; [apply osafe_of_safe; [apply safe_parse_packet_header|lia]|]. cbv beta. intros h o1 [_ Ho1].
  destruct (PacketHeader_HasAdaptationField h).
  - apply osafe_assoc. eapply osafe_bind; [apply osafe_of_safe; [apply safe_parse_af|lia]|]. cbv beta. intros a o2 [Ha Ho2].
    apply osafe_ret_bind. apply osafe_iret. cbn [fst snd Packet_AdaptationField Packet_Payload]. auto.
  - apply osafe_ret_bind. apply osafe_iret. cbn [fst snd Packet_AdaptationField Packet_Payload]. auto.
Qed.

Lemma osafe_parse_packet_tail p0 off L o : C_MpegTsPacketSize <= L -> off = L - C_MpegTsPacketSize + 1 ->
  match Packet_AdaptationField p0 with Some a => 0 <= PacketAdaptationField_Length a | None => True end ->
  Packet_Payload p0 = [] ->
  osafe (parse_packet_tail p0 off) L o (fun p _ => plen p <= 184).
Proof.
  intros HL Hoff Haf Hpl. unfold parse_packet_tail. cbv zeta. unfold C_MpegTsPacketSize in *.
  destruct (PacketHeader_HasPayload (Packet_Header p0)).
  - assert (Hpo : off + 3 <= payloadOffset off (Packet_Header p0) (odflt zero_PacketAdaptationField (Packet_AdaptationField p0))).
    { unfold payloadOffset. destruct (PacketHeader_HasAdaptationField (Packet_Header p0)); [|lia].
      destruct (Packet_AdaptationField p0); cbn [odflt]; [lia|cbn; lia]. }
    eapply osafe_bind; [apply osafe_iseek|]. cbv beta. intros _ o1 ->.
    eapply osafe_bind; [apply osafe_idump_len; lia|]. cbv beta. intros pl o2 Hlen.
    apply osafe_iret. unfold plen. cbn [Packet_Payload]. lia.
  - apply osafe_iret. unfold plen. rewrite Hpl. cbn [length]. lia.
Qed.

Lemma parse_packet_plen skip bs p : bytes_ok bs -> C_MpegTsPacketSize <= Z.of_nat (length bs) ->
  run_iter (parse_packet skip) bs = Ok p -> plen p <= 184.
Proof.
  intros Hb HL E. unfold run_iter, parse_packet, ibind in E.
  pose proof (osafe_parse_packet_head _ HL (new_iter bs) eq_refl eq_refl Hb) as H.
  destruct (parse_packet_head (new_iter bs)) as [[[p0 off] i']|c|]; cbn [res_map] in E; try discriminate.
  cbn [fst snd] in H. destruct H as [(H1 & H2 & H3) Hbs].
  destruct (skip p0); [discriminate|].
  assert (Hl' : ilen i' = Z.of_nat (length bs)) by (unfold ilen; rewrite Hbs; reflexivity).
  pose proof (osafe_parse_packet_tail p0 off _ (ioff i') HL H1 H2 H3 i' eq_refl Hl' ltac:(rewrite Hbs; exact Hb)) as Ht.
  destruct (parse_packet_tail p0 off i') as [[p' i'']|c|]; cbn in E; try discriminate. inversion E; subst. tauto.
Qed.

(* the error codes of parsePacket (never ErrNoMorePackets) *)
Lemma parse_packet_err skip bs c : bytes_ok bs -> C_MpegTsPacketSize <= Z.of_nat (length bs) ->
  run_iter (parse_packet skip) bs = Err c -> c <> E_nomore.
Proof.
  intros Hb HL E. pose proof (parse_packet_no_panic skip bs Hb HL) as H. rewrite E in H.
  destruct H as [[->| ->]| ->]; discriminate.
Qed.

(* ---------------- how many data a unit yields ---------------- *)

Lemma section_to_data_le1 s fp pid : (length (section_to_data s fp pid) <= 1)%nat.
Proof.
  unfold section_to_data. destruct (PSISection_Syntax s) as [syn|]; [|cbn; repeat constructor].
  destruct (PSISection_Header s) as [h|]; [|destruct (PSISectionSyntax_Data syn); cbn; repeat constructor].
  destruct (PSISectionSyntax_Data syn) as [d|]; [|cbn; repeat constructor].
  cbv zeta. set (tid := PSISectionHeader_TableID h). rewrite app_length.
  destruct (is_eit_id tid) eqn:Ee.
  - assert (H : is_nit_id tid = false /\ (tid =? C_PSITableIDPAT) = false /\ (tid =? C_PSITableIDPMT) = false /\
                is_sdt_id tid = false /\ (tid =? C_PSITableIDTOT) = false).
    { clearbody tid. clear - Ee.
      unfold is_eit_id, is_nit_id, is_sdt_id, C_PSITableIDEITStart, C_PSITableIDEITEnd, C_PSITableIDNITVariant1,
        C_PSITableIDNITVariant2, C_PSITableIDSDTVariant1, C_PSITableIDSDTVariant2, C_PSITableIDPAT, C_PSITableIDPMT,
        C_PSITableIDTOT in *. lia. }
    destruct H as (-> & -> & -> & -> & ->). cbn. repeat constructor.
  - repeat match goal with |- context [if ?c then _ else _] => destruct c end; cbn; repeat constructor.
Qed.

Lemma psi_to_data_length d fp pid : (length (psi_to_data d fp pid) <= length (PSIData_Sections d))%nat.
Proof.
  unfold psi_to_data. induction (PSIData_Sections d) as [|s r IH]; cbn [flat_map length]; [clear; lia|].
  rewrite app_length. pose proof (section_to_data_le1 s fp pid) as H1. clear - IH H1. lia.
Qed.

(* ---------------- weights ---------------- *)

Fixpoint gw (q : list Packet) : Z := match q with [] => 0 | p :: r => 1 + plen p + gw r end.
Fixpoint pool_w (pl : pool) : Z := match pl with [] => 0 | (_, q) :: r => 1 + gw q + pool_w r end.

Lemma plen_nonneg p : 0 <= plen p. Proof. unfold plen. lia. Qed.
Lemma gw_nonneg q : 0 <= gw q.
Proof. induction q as [|p r IH]; cbn [gw]; [lia|]. pose proof (plen_nonneg p). lia. Qed.
Lemma pool_w_nonneg pl : 0 <= pool_w pl.
Proof. induction pl as [|[k q] r IH]; cbn [pool_w]; [lia|]. pose proof (gw_nonneg q). lia. Qed.
Lemma gw_app a b : gw (a ++ b) = gw a + gw b.
Proof. induction a as [|p r IH]; cbn [gw app]; [lia|]. rewrite IH. lia. Qed.
Lemma gw_payload ps : Z.of_nat (length (concat_payload ps)) <= gw ps.
Proof.
  unfold concat_payload. induction ps as [|p r IH]; cbn [flat_map gw length]; [lia|].
  rewrite app_length. unfold plen. lia.
Qed.
Lemma gw_ge_1 p r : 1 <= gw (p :: r).
Proof. cbn [gw]. pose proof (plen_nonneg p). pose proof (gw_nonneg r). lia. Qed.

(* packetAccumulator.add neither creates nor duplicates packets *)
Lemma acc_add_gw pm pid q p : gw (fst (acc_add pm pid q p)) + gw (snd (acc_add pm pid q p)) <= gw q + 1 + plen p.
Proof.
  pose proof (gw_nonneg q) as Hq. pose proof (plen_nonneg p) as Hp.
  unfold acc_add. destruct (isSameAsPrevious q p); [cbn [fst snd gw]; lia|].
  set (q1 := if resets q p then [] else q).
  assert (Hq1 : 0 <= gw q1 <= gw q) by (unfold q1; destruct (resets q p); cbn [gw]; lia).
  destruct (pusi p); cbv beta iota zeta.
  - cbn [app]. destruct (_ && _); cbn [fst snd gw]; lia.
  - destruct (_ && _); cbn [fst snd]; rewrite gw_app; cbn [gw]; lia.
Qed.

Lemma pool_set_w k pl pid q' : keys_above k pl ->
  pool_w (pool_set pl pid q') + gw (qof pl pid) <= pool_w pl + gw q' + 1.
Proof.
  revert k. induction pl as [|[a q0] r IH]; intros k Hk.
  - cbn [pool_set pool_w]. unfold qof. cbn [pool_lookup gw]. lia.
  - cbn [keys_above] in Hk. destruct Hk as [Hka Hkr]. cbn [pool_set]. unfold qof. cbn [pool_lookup].
    destruct (a =? pid) eqn:E1.
    + cbn [pool_w]. lia.
    + destruct (pid <? a) eqn:E2.
      * rewrite (keys_above_lookup a r pid Hkr ltac:(lia)). cbn [pool_w gw]. lia.
      * cbn [pool_w]. specialize (IH a Hkr). unfold qof in IH. lia.
Qed.

Lemma sorted_keys_above pl : sorted pl -> exists k, keys_above k pl.
Proof.
  destruct pl as [|[a q] r]; cbn; [exists 0; exact I|]. intros H. exists (a - 1). split; [lia|exact H].
Qed.

Lemma pool_add_w pm pl p : sorted pl ->
  pool_w (fst (pool_add pm pl p)) + gw (snd (pool_add pm pl p)) <= pool_w pl + 2 + plen p.
Proof.
  intros Hs. pose proof (plen_nonneg p) as Hp. unfold pool_add.
  destruct (tei p); [cbn [fst snd gw]; lia|]. destruct (negb (has_payload p)); [cbn [fst snd gw]; lia|].
  fold (qof pl (pid_of p)).
  pose proof (acc_add_gw pm (pid_of p) (qof pl (pid_of p)) p) as Ha.
  destruct (acc_add pm (pid_of p) (qof pl (pid_of p)) p) as [q' ps]. cbn [fst snd] in *.
  destruct (sorted_keys_above pl Hs) as [k Hk].
  pose proof (pool_set_w k pl (pid_of p) q' Hk). lia.
Qed.

Lemma keys_above_sorted k pl : keys_above k pl -> sorted pl.
Proof. destruct pl as [|[a q] r]; cbn; [auto|]. intros [_ H]. exact H. Qed.

Lemma pool_dump_w pl : sorted pl ->
  sorted (fst (pool_dump pl)) /\
  pool_w (fst (pool_dump pl)) + match snd (pool_dump pl) with [] => 0 | ps => 1 + gw ps end <= pool_w pl /\
  (snd (pool_dump pl) = [] -> fst (pool_dump pl) = []).
Proof.
  induction pl as [|[k q] r IH]; intros Hs; cbn [pool_dump]; [cbn; auto with zarith|].
  assert (Hr : sorted r) by (cbn [sorted] in Hs; eapply keys_above_sorted; exact Hs).
  destruct q as [|p q].
  - destruct (IH Hr) as (I1 & I2 & I3). cbn [pool_w]. change (gw []) with 0. repeat split; auto. lia.
  - cbn [fst snd pool_w]. repeat split; [exact Hr|lia|discriminate].
Qed.

(* ---------------- the reader without faults ---------------- *)

Definition rem (r : reader) : Z := r_total r - r_pos r.

Lemma rem_nonneg r : reader_wf r -> 0 <= rem r.
Proof. intros (H1 & _). unfold rem. lia. Qed.
Lemma rem_le_total r : reader_wf r -> rem r <= r_total r.
Proof. intros (_ & _ & _ & _ & H). unfold rem. lia. Qed.

(* io.ReadFull on a reader that does not fail: all n bytes, or everything that is left and an EOF error *)
Lemma read_full_nofault r n : reader_wf r -> r_fault r = None -> 0 <= n ->
  r_fault (snd (read_full r n)) = None /\ r_total (snd (read_full r n)) = r_total r /\
  match snd (fst (read_full r n)) with
  | None => n <= rem r /\ rem (snd (read_full r n)) = rem r - n
  | Some e => rem r < n /\ rem (snd (read_full r n)) = 0 /\ e <> RInjected /\ (e = REOF <-> rem r = 0)
  end.
Proof.
  intros Hwf Hf Hn. pose proof (rem_nonneg r Hwf) as Hr. unfold read_full, r_stop, r_len. rewrite Hf. unfold rem in *.
  destruct (n <=? Z.max 0 (r_total r - r_pos r)) eqn:E; cbn [fst snd r_advance r_fault r_total r_pos].
  - repeat split; try assumption; lia.
  - destruct (Z.max 0 (r_total r - r_pos r) =? 0) eqn:E0; repeat split; try assumption; try lia; try discriminate; intros; try lia.
Qed.

(* autoDetectPacketSize on a reader that does not fail *)
Lemma auto_detect_nofault r : reader_wf r -> r_fault r = None ->
  r_fault (snd (auto_detect r)) = None /\ r_total (snd (auto_detect r)) = r_total r /\
  match fst (auto_detect r) with
  | Ok ps => C_MpegTsPacketSize <= ps /\ 0 < rem r
  | Err c => rem (snd (auto_detect r)) <= rem r /\ (c <> E_nomore -> rem (snd (auto_detect r)) < rem r)
  | Panic => False
  end.
Proof.
  intros Hwf Hf. unfold auto_detect.
  pose proof (read_full_wf r detect_window Hwf ltac:(unfold detect_window; lia)) as (W1 & _ & _).
  pose proof (read_full_nofault r detect_window Hwf Hf ltac:(unfold detect_window; lia)) as (F1 & T1 & R1).
  pose proof (rem_nonneg r Hwf) as Hr.
  destruct (r_kind r) eqn:Ek.
  - (* Plain *)
    destruct (read_full r detect_window) as [[bs e] r1]. cbn [fst snd] in *.
    assert (Hpos : match e with Some REOF => True | _ => 0 < rem r /\ rem r1 < rem r end).
    { destruct e as [[| |]|]; auto; unfold detect_window in *.
      - destruct R1 as (_ & _ & R & _). exfalso; apply R; reflexivity.
      - destruct R1 as (A & B & _ & D). assert (rem r <> 0) by (intros Z; apply D in Z; discriminate). lia.
      - lia. }
    destruct e as [[| |]|]; cbn [fst snd]; try (destruct R1 as (_ & _ & R & _); contradiction).
    + split; [exact F1|split; [exact T1|]]. split; [lia|intros H; exfalso; apply H; reflexivity].
    + destruct (negb (nth 0 (pad_to bs detect_window) 0 =? syncByte)); [cbn [fst snd]; repeat split; auto; lia|].
      destruct (find_sync (pad_to bs detect_window) 0) as [ps|] eqn:Ef; [|cbn [fst snd]; repeat split; auto; lia].
      destruct (find_sync_spec _ _ _ Ef) as (_ & Hps & _).
      assert (Hn : 0 <= ps - (detect_window - ps)) by (unfold detect_window, C_MpegTsPacketSize in *; lia).
      pose proof (read_full_nofault r1 _ W1 F1 Hn) as (F2 & T2 & R2).
      pose proof (read_full_wf r1 _ W1 Hn) as (W2 & _ & _). pose proof (rem_nonneg _ W2) as Hr2.
      destruct (read_full r1 (ps - (detect_window - ps))) as [[bs2 e2] r2]. cbn [fst snd] in *.
      destruct e2 as [[| |]|]; cbn [fst snd]; (split; [exact F2|split; [lia|]]); try (split; [assumption|lia]); split; intros; lia.
    + destruct (negb (nth 0 (pad_to bs detect_window) 0 =? syncByte)); [cbn [fst snd]; repeat split; auto; lia|].
      destruct (find_sync (pad_to bs detect_window) 0) as [ps|] eqn:Ef; [|cbn [fst snd]; repeat split; auto; lia].
      destruct (find_sync_spec _ _ _ Ef) as (_ & Hps & _).
      assert (Hn : 0 <= ps - (detect_window - ps)) by (unfold detect_window, C_MpegTsPacketSize in *; lia).
      pose proof (read_full_nofault r1 _ W1 F1 Hn) as (F2 & T2 & R2).
      pose proof (read_full_wf r1 _ W1 Hn) as (W2 & _ & _). pose proof (rem_nonneg _ W2) as Hr2.
      destruct (read_full r1 (ps - (detect_window - ps))) as [[bs2 e2] r2]. cbn [fst snd] in *.
      destruct e2 as [[| |]|]; cbn [fst snd]; (split; [exact F2|split; [lia|]]); try (split; [assumption|lia]); split; intros; lia.
  - (* Seekable *)
    destruct (read_full r detect_window) as [[bs e] r1]. cbn [fst snd] in *.
    assert (Hpos : match e with Some REOF => True | _ => 0 < rem r /\ rem r1 < rem r end).
    { destruct e as [[| |]|]; auto; unfold detect_window in *.
      - destruct R1 as (_ & _ & R & _). exfalso; apply R; reflexivity.
      - destruct R1 as (A & B & _ & D). assert (rem r <> 0) by (intros Z; apply D in Z; discriminate). lia.
      - lia. }
    destruct e as [[| |]|]; cbn [fst snd]; try (destruct R1 as (_ & _ & R & _); contradiction).
    + split; [exact F1|split; [exact T1|]]. split; [lia|intros H; exfalso; apply H; reflexivity].
    + destruct (negb (nth 0 (pad_to bs detect_window) 0 =? syncByte)); [cbn [fst snd]; repeat split; auto; lia|].
      destruct (find_sync (pad_to bs detect_window) 0) as [ps|] eqn:Ef; [|cbn [fst snd]; repeat split; auto; lia].
      destruct (find_sync_spec _ _ _ Ef) as (_ & Hps & _). cbn [fst snd r_seek0 r_fault r_total]. repeat split; auto; lia.
    + destruct (negb (nth 0 (pad_to bs detect_window) 0 =? syncByte)); [cbn [fst snd]; repeat split; auto; lia|].
      destruct (find_sync (pad_to bs detect_window) 0) as [ps|] eqn:Ef; [|cbn [fst snd]; repeat split; auto; lia].
      destruct (find_sync_spec _ _ _ Ef) as (_ & Hps & _). cbn [fst snd r_seek0 r_fault r_total]. repeat split; auto; lia.
  - (* Bufio: Peek consumes nothing; Discard(193) on failure *)
    destruct (read_full r detect_window) as [[bs e] r1] eqn:Er. cbn [fst snd] in *.
    assert (Hpos : match e with Some REOF => True | _ => 0 < rem r /\ rem r1 < rem r end).
    { destruct e as [[| |]|]; auto; unfold detect_window in *.
      - destruct R1 as (_ & _ & R & _). exfalso; apply R; reflexivity.
      - destruct R1 as (A & B & _ & D). assert (rem r <> 0) by (intros Z; apply D in Z; discriminate). lia.
      - lia. }
    destruct e as [[| |]|]; cbn [fst snd]; try (destruct R1 as (_ & _ & R & _); contradiction).
    + split; [exact Hf|split; [reflexivity|]]. split; [lia|intros H; exfalso; apply H; reflexivity].
    + destruct (negb (nth 0 (pad_to bs detect_window) 0 =? syncByte)); [cbn [fst snd]; repeat split; auto; lia|].
      destruct (find_sync (pad_to bs detect_window) 0) as [ps|] eqn:Ef; [|cbn [fst snd]; repeat split; auto; lia].
      destruct (find_sync_spec _ _ _ Ef) as (_ & Hps & _). cbn [fst snd]. repeat split; auto; lia.
    + destruct (negb (nth 0 (pad_to bs detect_window) 0 =? syncByte)); [cbn [fst snd]; repeat split; auto; lia|].
      destruct (find_sync (pad_to bs detect_window) 0) as [ps|] eqn:Ef; [|cbn [fst snd]; repeat split; auto; lia].
      destruct (find_sync_spec _ _ _ Ef) as (_ & Hps & _). cbn [fst snd]. repeat split; auto; lia.
Qed.

(* packetBuffer.next: a packet or an error other than ErrNoMorePackets costs at least packetSize bytes *)
Lemma pb_next_nofault skip size : C_MpegTsPacketSize <= size -> forall fuel r, reader_wf r -> r_fault r = None ->
  r_fault (snd (fst (pb_next fuel skip size r))) = None /\
  r_total (snd (fst (pb_next fuel skip size r))) = r_total r /\
  rem (snd (fst (pb_next fuel skip size r))) <= rem r /\
  match fst (fst (pb_next fuel skip size r)) with
  | Ok p => rem (snd (fst (pb_next fuel skip size r))) + size <= rem r /\ plen p <= 184
  | Err c => c <> E_nomore -> rem (snd (fst (pb_next fuel skip size r))) + size <= rem r
  | Panic => True
  end.
Proof.
  intros Hsz. assert (Hsz0 : 0 <= size) by (unfold C_MpegTsPacketSize in *; lia).
  induction fuel as [|k IH]; intros r Hwf Hf; cbn [pb_next].
  - cbn [fst snd]. repeat split; auto; try lia; try (intros H; exfalso; apply H; reflexivity).
  - pose proof (read_full_wf r size Hwf Hsz0) as (W1 & Wb & Wl). pose proof (rem_nonneg r Hwf) as Hrem.
    pose proof (read_full_nofault r size Hwf Hf Hsz0) as (F1 & T1 & R1).
    destruct (read_full r size) as [[bs e] r1]. cbn [fst snd] in *.
    destruct e as [[| |]|]; cbn [fst snd]; cbv beta iota in R1.
    + destruct R1 as (_ & _ & R & _). exfalso; apply R; reflexivity.
    + repeat split; auto; try lia; try (intros H; exfalso; apply H; reflexivity).
    + repeat split; auto; try lia; try (intros H; exfalso; apply H; reflexivity).
    + assert (Hlen : C_MpegTsPacketSize <= Z.of_nat (length bs)) by (rewrite (Wl eq_refl); exact Hsz).
      destruct (run_iter (parse_packet skip) bs) as [p|c|] eqn:Ep; cbn [fst snd].
      * pose proof (parse_packet_plen skip bs p Wb Hlen Ep). repeat split; auto; lia.
      * destruct (c =? E_skipped) eqn:Ec.
        -- specialize (IH r1 W1 F1). destruct (pb_next k skip size r1) as [[x r''] l]. cbn [fst snd] in *.
           destruct IH as (I1 & I2 & I3 & I4). repeat split; auto; try lia.
           destruct x as [p|c'|]; [lia|intros H; specialize (I4 H); lia|exact I].
        -- cbn [fst snd]. repeat split; auto; try lia; try (intros _; lia).
      * repeat split; auto; lia.
Qed.

(* ---------------- the potential ---------------- *)

Definition bonus (s : dstate) : Z := match d_pb s with None => r_total (d_reader s) | Some _ => 0 end.
Definition reader_part (s : dstate) : Z := rem (d_reader s) + bonus s.
Definition potential (s : dstate) : Z :=
  reader_part s + Z.of_nat (length (d_buffer s)) + pool_w (d_pool s).

(* the invariant of Proofs/SafeDemux.v, a reader that does not fail, the pool sorted by PID *)
Definition dinv2 (s : dstate) : Prop := dinv s /\ r_fault (d_reader s) = None /\ sorted (d_pool s).

Lemma potential_nonneg s : dinv2 s -> 0 <= potential s.
Proof.
  intros [(Hr & _) _]. unfold potential, reader_part, bonus.
  pose proof (rem_nonneg _ Hr). pose proof (pool_w_nonneg (d_pool s)).
  assert (0 <= r_total (d_reader s)) by (destruct Hr as (_ & _ & _ & -> & _); lia).
  destruct (d_pb s); lia.
Qed.

Lemma packet_buffer_next_nofault skip pb r : C_MpegTsPacketSize <= pb_size pb -> reader_wf r -> r_fault r = None ->
  r_fault (snd (fst (packet_buffer_next skip pb r))) = None /\
  r_total (snd (fst (packet_buffer_next skip pb r))) = r_total r /\
  rem (snd (fst (packet_buffer_next skip pb r))) <= rem r /\
  match fst (fst (packet_buffer_next skip pb r)) with
  | Ok p => rem (snd (fst (packet_buffer_next skip pb r))) + C_MpegTsPacketSize <= rem r /\ plen p <= 184
  | Err c => c <> E_nomore -> rem (snd (fst (packet_buffer_next skip pb r))) + C_MpegTsPacketSize <= rem r
  | Panic => True
  end.
Proof.
  intros Hsz Hwf Hf. unfold packet_buffer_next.
  destruct (pb_size pb <? 0) eqn:E1; [unfold C_MpegTsPacketSize in *; lia|].
  destruct (pb_size pb =? 0) eqn:E2; [unfold C_MpegTsPacketSize in *; lia|].
  pose proof (pb_next_nofault skip (pb_size pb) Hsz (packets_left r (pb_size pb)) r Hwf Hf) as (H1 & H2 & H3 & H4).
  repeat split; auto. destruct (fst (fst (pb_next _ skip (pb_size pb) r))) as [p|c|]; [lia|intros H; specialize (H4 H); lia|exact I].
Qed.

(* NextPacket: buffer and pool untouched; a packet costs at least 188, an error other than ErrNoMorePackets at least 1 *)
Lemma next_packet_potential skip s : dinv2 s ->
  dinv2 (snd (next_packet skip s)) /\
  d_buffer (snd (next_packet skip s)) = d_buffer s /\ d_pool (snd (next_packet skip s)) = d_pool s /\
  reader_part (snd (next_packet skip s)) <= reader_part s /\
  match fst (next_packet skip s) with
  | Ok p => reader_part (snd (next_packet skip s)) + C_MpegTsPacketSize <= reader_part s /\ plen p <= 184
  | Err c => c <> E_nomore -> reader_part (snd (next_packet skip s)) < reader_part s
  | Panic => True
  end.
Proof.
  intros (Hinv & Hf & Hsorted). pose proof (next_packet_inv skip s Hinv) as [Hinv' _].
  pose proof Hinv as (Hr & Hpb & Hpl & Hopt). pose proof (rem_nonneg _ Hr) as Hrem. pose proof (rem_le_total _ Hr) as Hrt.
  unfold dinv2. revert Hinv'. unfold next_packet, reader_part, bonus.
  destruct (d_pb s) as [pb|] eqn:Epb.
  - pose proof (packet_buffer_next_nofault skip pb (d_reader s) Hpb Hr Hf) as (H1 & H2 & H3 & H4).
    destruct (packet_buffer_next skip pb (d_reader s)) as [[rp r'] l]. cbn [fst snd] in *.
    cbn [log_consulted set_reader d_reader d_pb d_pool d_buffer]. rewrite Epb. intros Hinv'.
    split; [split; [exact Hinv'|split; [exact H1|exact Hsorted]]|].
    split; [reflexivity|]. split; [reflexivity|]. split; [lia|].
    destruct rp as [p|c|]; [lia|intros H; specialize (H4 H); unfold C_MpegTsPacketSize in *; lia|exact I].
  - unfold new_packet_buffer. destruct (d_opt_size s =? 0) eqn:E0.
    + pose proof (auto_detect_wf (d_reader s) Hr) as [W _].
      pose proof (auto_detect_nofault (d_reader s) Hr Hf) as (F & T & A).
      destruct (auto_detect (d_reader s)) as [[ps|c|] r']; cbn [fst snd] in *; [| |contradiction].
      * destruct A as [Hps Hpos].
        pose proof (packet_buffer_next_nofault skip (mk_pbuf ps) r' Hps W F) as (H1 & H2 & H3 & H4).
        pose proof (rem_le_total _ W) as Hrt'.
        cbn [set_pb set_reader d_reader].
        destruct (packet_buffer_next skip (mk_pbuf ps) r') as [[rp r''] l]. cbn [fst snd] in *.
        cbn [log_consulted set_reader set_pb d_reader d_pb d_pool d_buffer]. intros Hinv'.
        split; [split; [exact Hinv'|split; [exact H1|exact Hsorted]]|].
        split; [reflexivity|]. split; [reflexivity|]. split; [lia|].
        destruct rp as [p|c|]; [unfold C_MpegTsPacketSize in *; lia|intros H; specialize (H4 H); unfold C_MpegTsPacketSize in *; lia|exact I].
      * cbn [set_reader d_reader d_pb d_pool d_buffer]. rewrite Epb. intros Hinv'.
        split; [split; [exact Hinv'|split; [exact F|exact Hsorted]]|].
        split; [reflexivity|]. split; [reflexivity|]. split; [lia|].
        intros H. destruct A as [A1 A2]. specialize (A2 H). lia.
    + assert (Hsz : C_MpegTsPacketSize <= d_opt_size s) by (destruct Hopt; [lia|assumption]).
      pose proof (packet_buffer_next_nofault skip (mk_pbuf (d_opt_size s)) (d_reader s) Hsz Hr Hf) as (H1 & H2 & H3 & H4).
      cbn [set_pb set_reader d_reader].
      destruct (packet_buffer_next skip (mk_pbuf (d_opt_size s)) (d_reader s)) as [[rp r''] l]. cbn [fst snd] in *.
      cbn [log_consulted set_reader set_pb d_reader d_pb d_pool d_buffer]. intros Hinv'.
      assert (0 <= r_total (d_reader s)) by (destruct Hr as (_ & _ & _ & -> & _); lia).
      split; [split; [exact Hinv'|split; [exact H1|exact Hsorted]]|].
      split; [reflexivity|]. split; [reflexivity|]. split; [lia|].
      destruct rp as [p|c|]; [unfold C_MpegTsPacketSize in *; lia|intros H'; specialize (H4 H'); unfold C_MpegTsPacketSize in *; lia|exact I].
Qed.

(* ---------------- parseData: at most gw(group) data ---------------- *)

(* a PacketsParser that returns at most as many data as the weight of the group it is given (e.g. at most one per
   packet); without such a condition the number of buffered data, hence of NextData calls, is not bounded by the input *)
Definition parser_bounded (prs : option custom_parser) : Prop :=
  match prs with
  | Some f => forall ps ds b, f ps = Ok (ds, b) -> Z.of_nat (length ds) <= gw ps
  | None => True
  end.

Lemma parse_data_count prs pm ps ds : parser_bounded prs -> queue_ok ps ->
  parse_data full_parsers prs pm ps = Ok ds -> Z.of_nat (length ds) <= gw ps.
Proof.
  intros Hprs Hok. unfold parse_data.
  assert (Hdef : forall ds0, Z.of_nat (length ds0) <= gw ps ->
    match ps with
    | [] => Panic
    | p0 :: _ =>
        if pid_of p0 =? C_PIDCAT then Ok ds0
        else if isPSIPayload (pid_of p0) (pm_mem pm)
             then dp_psi full_parsers (concat_payload ps)
                    {| Packet_AdaptationField := Packet_AdaptationField p0; Packet_Header := Packet_Header p0; Packet_Payload := [] |}
                    (pid_of p0)
             else if isPESPayload (concat_payload ps)
                  then res_map (fun pes => [pes_data {| Packet_AdaptationField := Packet_AdaptationField p0; Packet_Header := Packet_Header p0; Packet_Payload := [] |} pes (pid_of p0)])
                         (dp_pes full_parsers (concat_payload ps))
                  else Ok ds0
    end = Ok ds -> Z.of_nat (length ds) <= gw ps).
  { intros ds0 H0. destruct ps as [|p0 r]; [discriminate|].
    pose proof (concat_payload_ok _ Hok) as Hb. pose proof (gw_payload (p0 :: r)) as Hg.
    destruct (pid_of p0 =? C_PIDCAT); [intros E; inversion E; subst; exact H0|].
    destruct (isPSIPayload (pid_of p0) (pm_mem pm)).
    - cbn [full_parsers dp_psi]. destruct (parse_psi_data_bytes (concat_payload (p0 :: r))) as [d|c|] eqn:Ed; cbn [res_map]; try discriminate.
      intros E; inversion E; subst. pose proof (parse_psi_data_sections _ d Hb Ed) as Hs.
      pose proof (psi_to_data_length d {| Packet_AdaptationField := Packet_AdaptationField p0; Packet_Header := Packet_Header p0; Packet_Payload := [] |} (pid_of p0)) as Hl.
      lia.
    - destruct (isPESPayload (concat_payload (p0 :: r))); [|intros E; inversion E; subst; exact H0].
      cbn [full_parsers dp_pes]. destruct (parse_pes_data_bytes (concat_payload (p0 :: r))); cbn [res_map]; try discriminate.
      intros E; inversion E; subst. cbn [length]. pose proof (gw_ge_1 p0 r). lia. }
  destruct prs as [f|].
  - cbn [parser_bounded] in Hprs. destruct (f ps) as [[ds' [|]]|c|] eqn:Ef; try discriminate.
    + intros E; inversion E; subst. eapply Hprs; exact Ef.
    + apply Hdef. eapply Hprs; exact Ef.
  - apply Hdef. cbn [length]. apply gw_nonneg.
Qed.

(* ---------------- updateData ---------------- *)

Lemma update_data_potential s ds :
  match fst (update_data s ds) with
  | Some _ => potential (snd (update_data s ds)) = potential s + Z.of_nat (length ds) - 1
  | None => snd (update_data s ds) = s /\ ds = []
  end.
Proof.
  unfold update_data. destruct ds as [|d rest]; cbn [fst snd]; [auto|].
  unfold potential, reader_part, bonus. cbn [d_buffer d_pb d_pool d_reader length]. rewrite app_length. lia.
Qed.

Lemma update_data_inv2 s ds : dinv2 s -> dinv2 (snd (update_data s ds)).
Proof.
  intros (H1 & H2 & H3). split; [apply update_data_inv; exact H1|]. unfold update_data. destruct ds; cbn [snd]; auto.
Qed.

Lemma set_pool_inv2 s pl : dinv2 s -> pool_ok pl -> sorted pl -> dinv2 (set_pool s pl).
Proof. intros (H1 & H2 & H3) Hp Hs. split; [apply set_pool_inv; assumption|]. cbn [set_pool d_reader d_pool]. auto. Qed.

Lemma set_pool_potential s pl : potential (set_pool s pl) = potential s - pool_w (d_pool s) + pool_w pl.
Proof. unfold potential, reader_part, bonus. cbn [set_pool d_buffer d_pb d_pool d_reader]. lia. Qed.

Lemma log_group_potential s g : potential (log_group s g) = potential s.
Proof. reflexivity. Qed.

(* ---------------- the end-of-stream drain ---------------- *)

Lemma drain_potential prs : parser_no_panic prs -> parser_bounded prs -> forall fuel s, dinv2 s ->
  dinv2 (snd (drain full_parsers prs fuel s)) /\
  potential (snd (drain full_parsers prs fuel s)) <= potential s /\
  (fst (drain full_parsers prs fuel s) <> Err E_nomore -> potential (snd (drain full_parsers prs fuel s)) < potential s).
Proof.
  intros Hnp Hb. induction fuel as [|k IH]; intros s Hs; cbn [drain].
  - cbn [fst snd]. split; [exact Hs|]. split; [lia|]. intros H; exfalso; apply H; reflexivity.
  - pose proof Hs as ((_ & _ & Hpl & _) & _ & Hsorted).
    pose proof (pool_dump_ok _ Hpl) as [D1 D2]. pose proof (pool_dump_w _ Hsorted) as (S1 & S2 & S3).
    destruct (pool_dump (d_pool s)) as [pl' ps]. cbn [fst snd] in *.
    pose proof (set_pool_inv2 s pl' Hs D1 S1) as Hs0. pose proof (set_pool_potential s pl') as P0.
    destruct ps as [|p ps].
    + cbn [fst snd]. split; [exact Hs0|]. split; [lia|]. intros H; exfalso; apply H; reflexivity.
    + set (g := p :: ps) in *. assert (Hg : 0 <= gw g) by apply gw_nonneg.
      assert (Hs1 : dinv2 (log_group (set_pool s pl') g)) by exact Hs0.
      destruct (parse_data full_parsers prs (d_pm (log_group (set_pool s pl') g)) g) as [ds|c|] eqn:Epd.
      * pose proof (parse_data_count prs _ g ds Hb D2 Epd) as Hc.
        pose proof (update_data_potential (log_group (set_pool s pl') g) ds) as Hu.
        pose proof (update_data_inv2 (log_group (set_pool s pl') g) ds Hs1) as Hi.
        destruct (update_data (log_group (set_pool s pl') g) ds) as [[d|] s2]; cbn [fst snd] in *.
        -- rewrite log_group_potential in Hu. split; [exact Hi|]. split; [lia|]. intros _. lia.
        -- destruct Hu as [-> _]. specialize (IH _ Hs1). rewrite log_group_potential in IH.
           destruct IH as (I1 & I2 & I3). split; [exact I1|]. split; [lia|]. intros _. lia.
      * specialize (IH _ Hs1). rewrite log_group_potential in IH.
        destruct IH as (I1 & I2 & I3). split; [exact I1|]. split; [lia|]. intros _. lia.
      * cbn [fst snd]. rewrite log_group_potential. split; [exact Hs1|]. split; [lia|]. intros _. lia.
Qed.

(* ---------------- the NextData loop ---------------- *)

Lemma next_data_loop_potential prs skip : parser_no_panic prs -> parser_bounded prs -> forall fuel s, dinv2 s ->
  dinv2 (snd (next_data_loop full_parsers prs skip fuel s)) /\
  potential (snd (next_data_loop full_parsers prs skip fuel s)) <= potential s /\
  (fuel <> O -> fst (next_data_loop full_parsers prs skip fuel s) <> Err E_nomore ->
   potential (snd (next_data_loop full_parsers prs skip fuel s)) < potential s).
Proof.
  intros Hnp Hb. induction fuel as [|k IH]; intros s Hs; cbn [next_data_loop].
  - cbn [fst snd]. split; [exact Hs|]. split; [lia|]. intros H; exfalso; apply H; reflexivity.
  - pose proof (next_packet_potential skip s Hs) as (Hs1 & Eb & Ep & Hle & Hres).
    pose proof (next_packet_inv skip s (proj1 Hs)) as [_ Hpk].
    assert (P1 : potential (snd (next_packet skip s)) - reader_part (snd (next_packet skip s)) = potential s - reader_part s)
      by (unfold potential; rewrite Eb, Ep; lia).
    destruct (next_packet skip s) as [[p|c|] s1]; cbn [fst snd] in *.
    + destruct Hres as [Hcost Hplen]. unfold C_MpegTsPacketSize in Hcost.
      pose proof Hs1 as ((_ & _ & Hpl & _) & _ & Hsorted).
      pose proof (pool_add_ok (d_pm s1) (d_pool s1) p Hpl Hpk) as [A1 A2].
      pose proof (pool_add_w (d_pm s1) (d_pool s1) p Hsorted) as Aw.
      pose proof (pool_add_sorted (d_pm s1) (d_pool s1) p Hsorted) as As.
      destruct (pool_add (d_pm s1) (d_pool s1) p) as [pl' ps]. cbn [fst snd] in *.
      pose proof (set_pool_inv2 s1 pl' Hs1 A1 As) as Hs2. pose proof (set_pool_potential s1 pl') as P2.
      assert (Hg : 0 <= gw ps) by apply gw_nonneg.
      destruct ps as [|q ps].
      * specialize (IH _ Hs2). destruct IH as (I1 & I2 & I3). cbn [gw] in Aw.
        split; [exact I1|]. split; [lia|]. intros _ _. lia.
      * set (g := q :: ps) in *.
        assert (Hs2' : dinv2 (log_group (set_pool s1 pl') g)) by exact Hs2.
        destruct (parse_data full_parsers prs (d_pm (log_group (set_pool s1 pl') g)) g) as [ds|c|] eqn:Epd.
        -- pose proof (parse_data_count prs _ g ds Hb A2 Epd) as Hc.
           pose proof (update_data_potential (log_group (set_pool s1 pl') g) ds) as Hu.
           pose proof (update_data_inv2 (log_group (set_pool s1 pl') g) ds Hs2') as Hi.
           destruct (update_data (log_group (set_pool s1 pl') g) ds) as [[d|] s3]; cbn [fst snd] in *.
           ++ rewrite log_group_potential in Hu. split; [exact Hi|]. split; [lia|]. intros _ _. lia.
           ++ destruct Hu as [-> _]. specialize (IH _ Hs2'). rewrite log_group_potential in IH.
              destruct IH as (I1 & I2 & I3). split; [exact I1|]. split; [lia|]. intros _ _. lia.
        -- cbn [fst snd]. rewrite log_group_potential. split; [exact Hs2'|]. split; [lia|]. intros _ _. lia.
        -- cbn [fst snd]. rewrite log_group_potential. split; [exact Hs2'|]. split; [lia|]. intros _ _. lia.
    + destruct (c =? E_nomore) eqn:Ec.
      * pose proof (drain_potential prs Hnp Hb (S (length (d_pool s1))) s1 Hs1) as (D1 & D2 & D3).
        split; [exact D1|]. split; [lia|]. intros _ H. specialize (D3 H). lia.
      * cbn [fst snd]. split; [exact Hs1|]. split; [lia|]. intros _ _.
        assert (c <> E_nomore) by (intros ->; discriminate). specialize (Hres H). lia.
    + cbn [fst snd]. contradiction.
Qed.

(* NextData *)
Lemma next_data_potential prs skip s : parser_no_panic prs -> parser_bounded prs -> dinv2 s ->
  dinv2 (snd (next_data full_parsers prs skip s)) /\
  potential (snd (next_data full_parsers prs skip s)) <= potential s /\
  (fst (next_data full_parsers prs skip s) <> Err E_nomore ->
   potential (snd (next_data full_parsers prs skip s)) < potential s).
Proof.
  intros Hnp Hb Hs. unfold next_data. destruct (d_buffer s) as [|d rest] eqn:Ebuf.
  - pose proof (next_data_loop_potential prs skip Hnp Hb (nd_fuel s) s Hs) as (H1 & H2 & H3).
    split; [exact H1|]. split; [exact H2|]. apply H3. unfold nd_fuel. discriminate.
  - cbn [fst snd]. destruct Hs as (Hi & Hf & Hsrt).
    split; [split; [exact Hi|split; [exact Hf|exact Hsrt]]|].
    unfold potential, reader_part, bonus. cbn [d_buffer d_pb d_pool d_reader]. rewrite Ebuf. cbn [length].
    split; [lia|intros _; lia].
Qed.

(* NextPacket in the same form *)
Lemma next_packet_potential' skip s : dinv2 s ->
  dinv2 (snd (next_packet skip s)) /\
  potential (snd (next_packet skip s)) <= potential s /\
  (fst (next_packet skip s) <> Err E_nomore -> potential (snd (next_packet skip s)) < potential s).
Proof.
  intros Hs. pose proof (next_packet_potential skip s Hs) as (Hs1 & Eb & Ep & Hle & Hres).
  pose proof (next_packet_inv skip s (proj1 Hs)) as [_ Hpk].
  split; [exact Hs1|]. unfold potential. rewrite Eb, Ep. split; [lia|].
  destruct (fst (next_packet skip s)) as [p|c|]; [|intros H; assert (c <> E_nomore) by congruence; specialize (Hres H0); lia|contradiction].
  intros _. unfold C_MpegTsPacketSize in Hres. lia.
Qed.

(* ---------------- sequences of calls ---------------- *)

Lemma call_potential prs skip c s : parser_no_panic prs -> parser_bounded prs -> dinv2 s ->
  dinv2 (snd (call full_parsers prs skip c s)) /\
  potential (snd (call full_parsers prs skip c s)) <= potential s /\
  (fst (call full_parsers prs skip c s) <> Err E_nomore -> potential (snd (call full_parsers prs skip c s)) < potential s).
Proof.
  intros Hnp Hb Hs. destruct c; cbn [call].
  - pose proof (next_packet_potential' skip s Hs) as (H1 & H2 & H3).
    destruct (next_packet skip s) as [r s']. cbn [fst snd] in *. split; [exact H1|]. split; [exact H2|].
    intros H. apply H3. intros ->. apply H. reflexivity.
  - pose proof (next_data_potential prs skip s Hnp Hb Hs) as (H1 & H2 & H3).
    destruct (next_data full_parsers prs skip s) as [r s']. cbn [fst snd] in *. split; [exact H1|]. split; [exact H2|].
    intros H. apply H3. intros ->. apply H. reflexivity.
Qed.

(* any sequence of more than potential(s) calls contains one that returns ErrNoMorePackets *)
Theorem calls_reach_nomore prs skip : parser_no_panic prs -> parser_bounded prs -> forall cs s, dinv2 s ->
  potential s < Z.of_nat (length cs) -> In (Err E_nomore) (calls full_parsers prs skip cs s).
Proof.
  intros Hnp Hb. induction cs as [|c cs IH]; intros s Hs Hlen.
  - pose proof (potential_nonneg s Hs). cbn [length] in Hlen. lia.
  - cbn [calls]. pose proof (call_potential prs skip c s Hnp Hb Hs) as (H1 & H2 & H3).
    destruct (call full_parsers prs skip c s) as [x s']. cbn [fst snd] in *.
    destruct x as [v|e|]; try (right; apply IH; [exact H1|assert (potential s' < potential s) by (apply H3; discriminate); cbn [length] in Hlen; lia]).
    destruct (Z.eq_dec e E_nomore) as [->|Hne]; [left; reflexivity|].
    right. apply IH; [exact H1|]. assert (potential s' < potential s) by (apply H3; congruence). cbn [length] in Hlen. lia.
Qed.

(* a fresh Demuxer over a reader that does not fail *)
Lemma init_inv2 data k opt : bytes_ok data -> (opt = 0 \/ C_MpegTsPacketSize <= opt) ->
  dinv2 (init_dstate (new_reader data None k) opt).
Proof. intros Hb Ho. split; [apply init_inv; assumption|]. cbn. auto. Qed.

Lemma init_potential data k opt : potential (init_dstate (new_reader data None k) opt) = 2 * Z.of_nat (length data).
Proof.
  unfold potential, reader_part, bonus, rem, init_dstate, new_reader.
  cbn [d_reader d_pb d_buffer d_pool r_total r_pos length pool_w]. lia.
Qed.

Theorem bound_from_start prs skip data k opt cs : parser_no_panic prs -> parser_bounded prs -> bytes_ok data ->
  (opt = 0 \/ C_MpegTsPacketSize <= opt) -> 2 * Z.of_nat (length data) < Z.of_nat (length cs) ->
  In (Err E_nomore) (calls full_parsers prs skip cs (init_dstate (new_reader data None k) opt)).
Proof.
  intros Hnp Hb Hd Ho Hlen. apply calls_reach_nomore; try assumption; [apply init_inv2; assumption|].
  rewrite init_potential. exact Hlen.
Qed.

(* the bound as the property states it *)
Corollary bound_from_start_3 prs skip data k opt cs : parser_no_panic prs -> parser_bounded prs -> bytes_ok data ->
  (opt = 0 \/ C_MpegTsPacketSize <= opt) -> 3 * Z.of_nat (length data) + 3 <= Z.of_nat (length cs) ->
  In (Err E_nomore) (calls full_parsers prs skip cs (init_dstate (new_reader data None k) opt)).
Proof. intros Hnp Hb Hd Ho Hlen. apply bound_from_start; try assumption. lia. Qed.
