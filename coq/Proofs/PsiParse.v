(* parsePSIData on reference encodings: the cursor view of the iterator, the generic section frame
   (header, CRC gate, seek) and the program association section. *)
From Coq Require Import ZArith List Lia Bool ZifyBool.
Require Import Base.Bits Base.Iter Base.Wr Gen.Consts Gen.Types Gen.Preds Model.Packet Model.Desc Model.Dvb Model.Psi.
Require Import Spec.CrcSpec Spec.PsiSpec Proofs.CrcProofs Proofs.PsiProofs.
Import ListNotations.
Open Scope Z_scope.
Open Scope iter_scope.

(* ---------- the cursor view: what lies at the iterator's offset ---------- *)
Definition at_ (i : iter) (r : list Z) : Prop :=
  0 <= ioff i /\ skipn (Z.to_nat (ioff i)) (ibs i) = r.

Lemma skipn_add {A} (n m : nat) (l : list A) : skipn n (skipn m l) = skipn (n + m) l.
Proof.
  revert l. induction m as [|m IH]; intros l; [rewrite Nat.add_0_r; reflexivity|].
  destruct l as [|x l]; [rewrite !skipn_nil; reflexivity|].
  rewrite Nat.add_succ_r. cbn [skipn]. apply IH.
Qed.

Lemma at_bound i a r : at_ i (a ++ r) -> (0 < length a)%nat -> ioff i + Z.of_nat (length a) <= ilen i.
Proof.
  intros [H0 H] Ha. unfold ilen. pose proof (skipn_length (Z.to_nat (ioff i)) (ibs i)) as L.
  rewrite H, app_length in L. lia.
Qed.

Lemma at_move i a r : at_ i (a ++ r) -> at_ (mk_iter (ibs i) (ioff i + Z.of_nat (length a))) r.
Proof.
  intros [H0 H]. split; cbn [ioff ibs]; [lia|].
  replace (Z.to_nat (ioff i + Z.of_nat (length a))) with (length a + Z.to_nat (ioff i))%nat by lia.
  rewrite <- skipn_add, H. rewrite skipn_app, Nat.sub_diag, skipn_all. reflexivity.
Qed.

Lemma at_slice i a r : at_ i (a ++ r) -> slice (ibs i) (ioff i) (ioff i + Z.of_nat (length a)) = a.
Proof.
  intros [H0 H]. unfold slice. rewrite H.
  replace (Z.to_nat (ioff i + Z.of_nat (length a) - ioff i)) with (length a) by lia.
  rewrite firstn_app, Nat.sub_diag, firstn_O, app_nil_r. apply firstn_all.
Qed.

Lemma read_bytes i a r n : at_ i (a ++ r) -> Z.of_nat (length a) = n -> 0 < n ->
  next_bytes n i = Ok (a, mk_iter (ibs i) (ioff i + n)).
Proof.
  intros Hat Hn Hp. pose proof (at_bound i a r Hat ltac:(lia)) as Hb. pose proof (at_slice i a r Hat) as Hs.
  destruct Hat as [H0 _]. unfold next_bytes.
  destruct (ilen i <? ioff i + n) eqn:E1; [lia|]. destruct (n <? 0) eqn:E2; [lia|].
  destruct (ioff i <? 0) eqn:E3; [lia|]. rewrite <- Hn, Hs. reflexivity.
Qed.

Lemma read_byte i b r : at_ i (b :: r) -> next_byte i = Ok (b, mk_iter (ibs i) (ioff i + 1)).
Proof.
  intros Hat. pose proof (at_bound i [b] r Hat ltac:(cbn; lia)) as Hb. destruct Hat as [H0 H].
  unfold next_byte. cbn [length] in Hb.
  destruct (ilen i <? ioff i + 1) eqn:E1; [lia|]. destruct (ioff i <? 0) eqn:E3; [lia|].
  f_equal. f_equal.
  rewrite <- (firstn_skipn (Z.to_nat (ioff i)) (ibs i)) at 1. rewrite H.
  rewrite app_nth2 by (rewrite firstn_length; lia).
  rewrite firstn_length, Nat.min_l by (unfold ilen in *; lia). rewrite Nat.sub_diag. reflexivity.
Qed.

Lemma at_move1 i b r : at_ i (b :: r) -> at_ (mk_iter (ibs i) (ioff i + 1)) r.
Proof. intros H. apply (at_move i [b] r H). Qed.

(* the view at a later offset of the same buffer *)
Lemma at_shift B o a r : at_ (mk_iter B o) (a ++ r) -> at_ (mk_iter B (o + Z.of_nat (length a))) r.
Proof. intros H. apply (at_move _ a r H). Qed.

(* ---------- the section header ---------- *)
Definition hdr_tail_bits (ssi pb : bool) (L : Z) : list bool := [ssi; pb] ++ bits_of 2 3 ++ bits_of 12 L.

Lemma header_bytes tid ssi pb L : 0 <= tid < 256 ->
  bytes_of_fields (spec_section_header tid ssi pb L) = tid :: bytes_of_bits (hdr_tail_bits ssi pb L).
Proof.
  intros Ht. unfold bytes_of_fields, spec_section_header, bits_of_fields, flag, field_bits.
  cbn [flat_map fst snd]. rewrite !bits_of_1_b2z.
  rewrite (bytes_of_bits_app 1) by apply bits_of_length. rewrite bytes_of_bits_bits_of_8, (Z.mod_small tid) by lia.
  cbn [app]. rewrite app_nil_r. reflexivity.
Qed.

Lemma hdr_tail_length ssi pb L : length (bytes_of_bits (hdr_tail_bits ssi pb L)) = 2%nat.
Proof. apply bytes_of_bits_length. reflexivity. Qed.

Lemma hdr_tail_fields ssi pb L : 0 <= L < 4096 ->
  let bs := bytes_of_bits (hdr_tail_bits ssi pb L) in
  bitb bs 0 = ssi /\ bitb bs 1 = pb /\ bitsf bs 4 12 = L.
Proof.
  intros HL bs. unfold bitb, bitsf, bs. rewrite (bits_of_bytes_of_bits 2) by reflexivity.
  unfold hdr_tail_bits. cbn [app]. repeat split.
  - rewrite field_bit_here. apply b2z_eqb.
  - rewrite field_bit_skip, field_bit_here. apply b2z_eqb.
  - rewrite !field_bit_skip. rewrite (field_skip 2) by lia. cbn [Nat.sub].
    rewrite <- (app_nil_r (bits_of 12 L)). apply field_here. exact HL.
Qed.

Lemma parse_header_at i tid ssi pb L r : 0 <= tid < 256 -> 0 <= L < 4096 ->
  shouldStopPSIParsing tid = false ->
  at_ i (bytes_of_fields (spec_section_header tid ssi pb L) ++ r) ->
  parse_psi_section_header i =
  Ok (({| PSISectionHeader_PrivateBit := pb; PSISectionHeader_SectionLength := L;
           PSISectionHeader_SectionSyntaxIndicator := ssi; PSISectionHeader_TableID := tid;
           PSISectionHeader_TableType := table_type tid |},
       mk_psi_offsets (ioff i) (ioff i + 3)
         (if PSITableID_hasCRC32 tid then ioff i + 3 + L - 4 else ioff i + 3 + L) (ioff i + 3 + L)),
      mk_iter (ibs i) (ioff i + 3)).
Proof.
  intros Ht HL Hs Hat. rewrite header_bytes in Hat by exact Ht. cbn [app] in Hat.
  unfold parse_psi_section_header, ibind, ioffset, next_bytes_nocopy.
  rewrite (read_byte i tid _ Hat). rewrite Hs.
  pose proof (at_move1 _ _ _ Hat) as Hat1.
  rewrite (read_bytes _ _ _ 2 Hat1) by (try rewrite hdr_tail_length; lia).
  cbn [ibs ioff]. destruct (hdr_tail_fields ssi pb L HL) as (F1 & F2 & F3). cbn zeta in F1, F2, F3.
  unfold iret. rewrite F1, F2, F3.
  replace (ioff i + 1 + 2) with (ioff i + 3) by lia. reflexivity.
Qed.

(* ---------- the CRC_32 field ---------- *)
Lemma be32_inv v : 0 <= v < 2 ^ 32 -> Iter.be32 (CrcSpec.be32 v) = v.
Proof.
  intros Hv. unfold Iter.be32, CrcSpec.be32, byte_at. cbn [nth].
  change (2 ^ 24) with 16777216. change (2 ^ 16) with 65536. change (2 ^ 8) with 256. change (2 ^ 32) with 4294967296 in Hv.
  Ltac Zify.zify_post_hook ::= Z.div_mod_to_equations. lia.
Qed.

Lemma crc32_mpeg2_range msg : 0 <= crc32_mpeg2 msg < 2 ^ 32.
Proof. apply crc_update_range. unfold reg_ok, crc_init. lia. Qed.

Lemma check_crc32_at B o o' pre T offs : bytes_ok pre -> (0 < length pre)%nat ->
  at_ (mk_iter B o) (pre ++ CrcSpec.be32 (crc32_mpeg2 pre) ++ T) ->
  po_start offs = o -> po_sections_end offs = o + Z.of_nat (length pre) ->
  check_crc32 offs (mk_iter B o') = Ok (crc32_mpeg2 pre, mk_iter B (o + Z.of_nat (length pre))).
Proof.
  intros Hb Hl Hat Hs He. unfold check_crc32, parse_crc32, ibind, iseek, next_bytes_nocopy. cbn [ibs ioff].
  rewrite He, Hs.
  pose proof (at_shift B o pre _ Hat) as Hat2.
  rewrite (read_bytes _ _ _ 4 Hat2) by (cbn [CrcSpec.be32 length]; lia).
  cbn [ibs ioff]. unfold iret.
  replace (o + Z.of_nat (length pre) - o) with (Z.of_nat (length pre)) by lia.
  cbn [ibs ioff]. rewrite (read_bytes _ _ _ _ Hat eq_refl) by lia. cbn [ibs ioff].
  rewrite be32_inv by apply crc32_mpeg2_range.
  rewrite compute_eq by exact Hb. rewrite Z.eqb_refl. reflexivity.
Qed.

(* ---------- the generic frame of a section with CRC_32 ---------- *)
(* at offset o of buffer B lies spec_section tid ssi pb body followed by T; if the syntax parser run after the
   header returns syn (leaving the iterator anywhere in the same buffer), parsePSISection returns the section
   with every header field, the CRC_32 and syn, positioned after the section *)
Lemma parse_section_frame B o tid ssi pb body T syn o' :
  0 <= tid < 256 -> shouldStopPSIParsing tid = false -> PSITableID_hasCRC32 tid = true ->
  bytes_ok body -> Z.of_nat (length body) + 4 < 4096 ->
  at_ (mk_iter B o) (spec_section tid ssi pb body ++ T) ->
  let L := Z.of_nat (length body) + 4 in
  let h := {| PSISectionHeader_PrivateBit := pb; PSISectionHeader_SectionLength := L;
              PSISectionHeader_SectionSyntaxIndicator := ssi; PSISectionHeader_TableID := tid;
              PSISectionHeader_TableType := table_type tid |} in
  parse_psi_section_syntax h (o + 3 + Z.of_nat (length body)) (mk_iter B (o + 3)) = Ok (syn, mk_iter B o') ->
  parse_psi_section (mk_iter B o) =
  Ok (({| PSISection_CRC32 := crc32_mpeg2 (spec_section_prefix tid ssi pb body);
          PSISection_Header := Some h; PSISection_Syntax := Some syn |}, false),
      mk_iter B (o + Z.of_nat (length (spec_section tid ssi pb body)))).
Proof.
  intros Ht Hs Hc Hb HL Hat L h Hsyn.
  unfold spec_section, spec_section_prefix in *. cbn zeta in *. fold L in Hat |- *.
  set (H := bytes_of_fields (spec_section_header tid ssi pb L)) in *.
  assert (H3 : length H = 3%nat).
  { unfold H. rewrite header_bytes by exact Ht. cbn [length]. rewrite hdr_tail_length. reflexivity. }
  assert (Hat1 : at_ (mk_iter B o) (H ++ (body ++ CrcSpec.be32 (crc32_mpeg2 (H ++ body)) ++ T))).
  { rewrite <- !app_assoc in Hat. exact Hat. }
  unfold parse_psi_section, ibind.
  rewrite (parse_header_at _ tid ssi pb L _ Ht ltac:(unfold L; lia) Hs Hat1). cbn [ibs ioff].
  cbn [PSISectionHeader_TableID PSISectionHeader_SectionLength]. rewrite Hs, Hc.
  destruct (L >? 0) eqn:EL; [|unfold L in EL; lia].
  replace (o + 3 + L - 4) with (o + 3 + Z.of_nat (length body)) by (unfold L; lia).
  fold h. cbn [po_sections_end po_end po_start]. rewrite Hsyn.
  assert (Hpre : bytes_ok (H ++ body)).
  { apply Forall_app. split; [apply bytes_of_bits_ok|exact Hb]. }
  assert (Hat2 : at_ (mk_iter B o) ((H ++ body) ++ CrcSpec.be32 (crc32_mpeg2 (H ++ body)) ++ T)).
  { rewrite <- app_assoc in Hat. exact Hat. }
  rewrite (check_crc32_at B o o' (H ++ body) T (mk_psi_offsets o (o + 3) (o + 3 + Z.of_nat (length body)) (o + 3 + L))
             Hpre ltac:(rewrite app_length; lia) Hat2 eq_refl)
    by (cbn [po_sections_end]; rewrite app_length, H3; lia).
  unfold iret, iseek. cbn [ibs ioff].
  replace (o + Z.of_nat (length ((H ++ body) ++ CrcSpec.be32 (crc32_mpeg2 (H ++ body))))) with (o + 3 + L); [reflexivity|].
  rewrite !app_length, H3. cbn [CrcSpec.be32 length]. unfold L. lia.
Qed.

(* ---------- the section syntax header ---------- *)
Definition ver_bits (ver : Z) (cni : bool) : list bool := bits_of 2 3 ++ bits_of 5 ver ++ [cni].

Lemma syntax_header_bytes ext ver cni sn lsn : 0 <= sn < 256 -> 0 <= lsn < 256 ->
  bytes_of_fields (spec_syntax_header ext ver cni sn lsn) =
  bytes_of_bits (bits_of 16 ext) ++ [Z_of_bits (ver_bits ver cni); sn; lsn].
Proof.
  intros Hsn Hlsn. unfold bytes_of_fields, spec_syntax_header, bits_of_fields, flag, field_bits.
  cbn [flat_map fst snd]. rewrite bits_of_1_b2z, app_nil_r.
  rewrite (bytes_of_bits_app 2) by apply bits_of_length. f_equal.
  change (bits_of 2 3 ++ bits_of 5 ver ++ [cni] ++ bits_of 8 sn ++ bits_of 8 lsn)
    with ((bits_of 2 3 ++ bits_of 5 ver ++ [cni]) ++ bits_of 8 sn ++ bits_of 8 lsn).
  rewrite bytes_of_bits_8 by reflexivity.
  rewrite (bytes_of_bits_app 1) by apply bits_of_length. rewrite !bytes_of_bits_bits_of_8.
  rewrite (Z.mod_small sn), (Z.mod_small lsn) by lia. reflexivity.
Qed.

Lemma ver_byte_fields ver cni : 0 <= ver < 32 ->
  bitb [Z_of_bits (ver_bits ver cni)] 7 = cni /\ bitsf [Z_of_bits (ver_bits ver cni)] 2 5 = ver.
Proof.
  intros Hv. unfold bitb, bitsf, bits_of_bytes. cbn [flat_map]. rewrite app_nil_r.
  change 8%nat with (length (ver_bits ver cni)). rewrite bits_of_Z_of_bits. unfold ver_bits. split.
  - rewrite (field_skip 2) by lia. rewrite (field_skip 5) by lia. cbn [Nat.sub]. rewrite field_bit_here. apply b2z_eqb.
  - rewrite (field_skip 2) by lia. cbn [Nat.sub]. apply field_here. exact Hv.
Qed.

Lemma parse_syntax_header_at i ext ver cni sn lsn r :
  0 <= ext < 2 ^ 16 -> 0 <= ver < 32 -> 0 <= sn < 256 -> 0 <= lsn < 256 ->
  at_ i (bytes_of_fields (spec_syntax_header ext ver cni sn lsn) ++ r) ->
  parse_psi_section_syntax_header i =
  Ok ({| PSISectionSyntaxHeader_CurrentNextIndicator := cni; PSISectionSyntaxHeader_LastSectionNumber := lsn;
         PSISectionSyntaxHeader_SectionNumber := sn; PSISectionSyntaxHeader_TableIDExtension := ext;
         PSISectionSyntaxHeader_VersionNumber := ver |}, mk_iter (ibs i) (ioff i + 5)) /\
  at_ (mk_iter (ibs i) (ioff i + 5)) r.
Proof.
  intros He Hv Hsn Hlsn Hat. rewrite syntax_header_bytes in Hat by assumption. rewrite <- app_assoc in Hat.
  assert (L2 : length (bytes_of_bits (bits_of 16 ext)) = 2%nat) by (apply bytes_of_bits_length; reflexivity).
  unfold parse_psi_section_syntax_header, ibind, next_bytes_nocopy.
  rewrite (read_bytes _ _ _ 2 Hat) by (rewrite ?L2; lia).
  pose proof (at_move _ _ _ Hat) as Hat1. rewrite L2 in Hat1. cbn [app] in Hat1. change (Z.of_nat 2) with 2 in Hat1.
  rewrite (read_byte _ _ _ Hat1). pose proof (at_move1 _ _ _ Hat1) as Hat2. cbn [ibs ioff] in Hat2 |- *.
  rewrite (read_byte _ _ _ Hat2). pose proof (at_move1 _ _ _ Hat2) as Hat3. cbn [ibs ioff] in Hat3 |- *.
  rewrite (read_byte _ _ _ Hat3). pose proof (at_move1 _ _ _ Hat3) as Hat4. cbn [ibs ioff] in Hat4 |- *.
  destruct (ver_byte_fields ver cni Hv) as [F1 F2]. unfold iret. rewrite F1, F2.
  assert (Fe : bitsf (bytes_of_bits (bits_of 16 ext)) 0 16 = ext).
  { unfold bitsf. rewrite (bits_of_bytes_of_bits 2) by reflexivity. rewrite <- (app_nil_r (bits_of 16 ext)).
    apply field_here. exact He. }
  rewrite Fe. replace (ioff i + 2 + 1 + 1 + 1) with (ioff i + 5) in * by lia.
  split; [reflexivity|exact Hat4].
Qed.

(* ---------- the program loop of the PAT ---------- *)
Definition pat_program_of (p : Z * Z) : PATProgram :=
  {| PATProgram_ProgramMapID := snd p; PATProgram_ProgramNumber := fst p |}.
Definition pat_entry_ok (p : Z * Z) : Prop := 0 <= fst p < 2 ^ 16 /\ 0 <= snd p < 2 ^ 13.
Definition pat_entry_bytes (p : Z * Z) : list Z := bytes_of_fields (spec_pat_entry (fst p) (snd p)).

Lemma parse_pat_program_at i p r : pat_entry_ok p -> at_ i (pat_entry_bytes p ++ r) ->
  parse_pat_program i = Ok (pat_program_of p, mk_iter (ibs i) (ioff i + 4)) /\
  at_ (mk_iter (ibs i) (ioff i + 4)) r.
Proof.
  intros [Hn Hp] Hat. unfold pat_entry_bytes in Hat.
  assert (L4 : length (bytes_of_fields (spec_pat_entry (fst p) (snd p))) = 4%nat)
    by (apply bytes_of_bits_length; reflexivity).
  unfold parse_pat_program, ibind, next_bytes_nocopy. rewrite (read_bytes _ _ _ 4 Hat) by (rewrite ?L4; lia).
  pose proof (at_move _ _ _ Hat) as Hat1. rewrite L4 in Hat1. change (Z.of_nat 4) with 4 in Hat1.
  split; [|exact Hat1]. unfold iret, bitsf, bytes_of_fields. rewrite (bits_of_bytes_of_bits 4) by reflexivity.
  unfold spec_pat_entry, bits_of_fields, field_bits. cbn [flat_map fst snd]. rewrite app_nil_r.
  rewrite field_here by exact Hn.
  rewrite (field_skip 16) by lia. rewrite (field_skip 3) by lia. cbn [Nat.sub].
  rewrite <- (app_nil_r (bits_of 13 (snd p))). rewrite field_here by exact Hp. reflexivity.
Qed.

Lemma pat_loop_at progs : forall fuel i r, Forall pat_entry_ok progs -> (length progs < fuel)%nat ->
  at_ i (flat_map pat_entry_bytes progs ++ r) ->
  loop_until fuel (ioff i + 4 * Z.of_nat (length progs)) parse_pat_program i =
    Ok (map pat_program_of progs, mk_iter (ibs i) (ioff i + 4 * Z.of_nat (length progs))) /\
  at_ (mk_iter (ibs i) (ioff i + 4 * Z.of_nat (length progs))) r.
Proof.
  induction progs as [|p progs IH]; intros fuel i r Hok Hf Hat.
  - destruct fuel as [|k]; [cbn in Hf; lia|]. cbn [loop_until flat_map length app map] in *. unfold ibind, ioffset.
    replace (ioff i + 4 * Z.of_nat 0) with (ioff i) by lia. rewrite Z.ltb_irrefl. unfold iret.
    destruct i as [B o]. cbn [ibs ioff] in *. split; [reflexivity|exact Hat].
  - destruct fuel as [|k]; [cbn in Hf; lia|]. inversion Hok as [|? ? Hp Hps]; subst.
    cbn [flat_map] in Hat. rewrite <- app_assoc in Hat.
    destruct (parse_pat_program_at i p _ Hp Hat) as [E1 Hat1].
    cbn [loop_until length map]. unfold ibind at 1, ioffset.
    destruct (ioff i <? ioff i + 4 * Z.of_nat (S (length progs))) eqn:El; [|lia].
    unfold ibind at 1. rewrite E1.
    specialize (IH k (mk_iter (ibs i) (ioff i + 4)) r Hps ltac:(cbn [length] in Hf; lia) Hat1).
    cbn [ibs ioff] in IH.
    replace (ioff i + 4 * Z.of_nat (S (length progs))) with (ioff i + 4 + 4 * Z.of_nat (length progs)) by lia.
    destruct IH as [IH1 IH2]. unfold ibind. rewrite IH1. unfold iret. split; [reflexivity|exact IH2].
Qed.

(* ---------- a whole PAT section ---------- *)
Definition pat_section_value (ssi pb : bool) (ext ver : Z) (cni : bool) (sn lsn : Z) (progs : list (Z * Z)) : PSISection :=
  {| PSISection_CRC32 := crc32_mpeg2 (spec_section_prefix 0 ssi pb (spec_pat_body ext ver cni sn lsn progs));
     PSISection_Header := Some {| PSISectionHeader_PrivateBit := pb;
                                  PSISectionHeader_SectionLength := 4 * Z.of_nat (length progs) + 9;
                                  PSISectionHeader_SectionSyntaxIndicator := ssi; PSISectionHeader_TableID := 0;
                                  PSISectionHeader_TableType := tt_PAT |};
     PSISection_Syntax := Some {|
       PSISectionSyntax_Data := Some (syntax_data None None
          (Some {| PATData_Programs := map pat_program_of progs; PATData_TransportStreamID := ext |}) None None None);
       PSISectionSyntax_Header := Some {| PSISectionSyntaxHeader_CurrentNextIndicator := cni;
                                          PSISectionSyntaxHeader_LastSectionNumber := lsn;
                                          PSISectionSyntaxHeader_SectionNumber := sn;
                                          PSISectionSyntaxHeader_TableIDExtension := ext;
                                          PSISectionSyntaxHeader_VersionNumber := ver |} |} |}.

Definition pat_wf (ext ver sn lsn : Z) (progs : list (Z * Z)) : Prop :=
  0 <= ext < 2 ^ 16 /\ 0 <= ver < 32 /\ 0 <= sn < 256 /\ 0 <= lsn < 256 /\
  Forall pat_entry_ok progs /\ (length progs <= 253)%nat.

Lemma pat_body_length ext ver cni sn lsn progs :
  length (spec_pat_body ext ver cni sn lsn progs) = (5 + 4 * length progs)%nat.
Proof.
  unfold spec_pat_body. rewrite app_length, pat_entries_bytes_length.
  unfold bytes_of_fields. rewrite (bytes_of_bits_length 5) by reflexivity. reflexivity.
Qed.

Lemma pat_body_ok ext ver cni sn lsn progs : bytes_ok (spec_pat_body ext ver cni sn lsn progs).
Proof.
  unfold spec_pat_body. apply Forall_app. split; [apply bytes_of_bits_ok|].
  induction progs as [|p l IH]; cbn [flat_map]; [constructor|]. apply Forall_app. split; [apply bytes_of_bits_ok|exact IH].
Qed.

Lemma parse_pat_section_at B o T ssi pb ext ver cni sn lsn progs : pat_wf ext ver sn lsn progs ->
  at_ (mk_iter B o) (spec_pat_section ssi pb ext ver cni sn lsn progs ++ T) ->
  parse_psi_section (mk_iter B o) =
  Ok ((pat_section_value ssi pb ext ver cni sn lsn progs, false),
      mk_iter B (o + Z.of_nat (length (spec_pat_section ssi pb ext ver cni sn lsn progs)))).
Proof.
  intros (He & Hv & Hsn & Hlsn & Hps & Hn) Hat. unfold spec_pat_section in *.
  set (body := spec_pat_body ext ver cni sn lsn progs) in *.
  assert (Lb : length body = (5 + 4 * length progs)%nat) by apply pat_body_length.
  assert (Hbody : bytes_ok body) by apply pat_body_ok.
  pose proof Hat as [Ho _]. cbn [ioff] in Ho.
  (* the view after the 3 header bytes *)
  assert (Hat3 : at_ (mk_iter B (o + 3)) (body ++ CrcSpec.be32 (crc32_mpeg2 (spec_section_prefix 0 ssi pb body)) ++ T)).
  { unfold spec_section, spec_section_prefix in Hat. cbn zeta in Hat. rewrite <- !app_assoc in Hat.
    pose proof (at_shift B o _ _ Hat) as X.
    replace (length (bytes_of_fields (spec_section_header 0 ssi pb (Z.of_nat (length body) + 4)))) with 3%nat in X
      by (symmetry; apply bytes_of_bits_length; reflexivity).
    exact X. }
  assert (Hlen : Z.of_nat (length B) >= o + 3 + Z.of_nat (length body)).
  { pose proof (at_bound _ _ _ Hat3 ltac:(lia)) as X. unfold ilen in X. cbn [ibs ioff] in X. lia. }
  set (sh := {| PSISectionSyntaxHeader_CurrentNextIndicator := cni; PSISectionSyntaxHeader_LastSectionNumber := lsn;
                PSISectionSyntaxHeader_SectionNumber := sn; PSISectionSyntaxHeader_TableIDExtension := ext;
                PSISectionSyntaxHeader_VersionNumber := ver |}).
  set (syn := {| PSISectionSyntax_Data := Some (syntax_data None None
                   (Some {| PATData_Programs := map pat_program_of progs; PATData_TransportStreamID := ext |}) None None None);
                 PSISectionSyntax_Header := Some sh |}).
  assert (Hsyn : parse_psi_section_syntax
            {| PSISectionHeader_PrivateBit := pb; PSISectionHeader_SectionLength := Z.of_nat (length body) + 4;
               PSISectionHeader_SectionSyntaxIndicator := ssi; PSISectionHeader_TableID := 0;
               PSISectionHeader_TableType := table_type 0 |}
            (o + 3 + Z.of_nat (length body)) (mk_iter B (o + 3)) =
          Ok (syn, mk_iter B (o + 3 + Z.of_nat (length body)))).
  { unfold parse_psi_section_syntax. cbn [PSISectionHeader_TableID].
    change (PSITableID_hasPSISyntaxHeader 0) with true. cbv iota.
    unfold body, spec_pat_body in Hat3. rewrite <- app_assoc in Hat3.
    destruct (parse_syntax_header_at _ ext ver cni sn lsn _ He Hv Hsn Hlsn Hat3) as [E1 Hat8]. cbn [ibs ioff] in E1, Hat8.
    unfold ibind at 1. unfold ibind at 1. rewrite E1. fold sh. unfold iret at 1.
    unfold parse_psi_section_syntax_data. cbn [PSISectionHeader_TableID].
    change (is_nit_id 0) with false. change (0 =? C_PSITableIDPAT) with true. change (is_eit_id 0) with false. cbv iota.
    unfold sh_ext, ilift, need, res_map, parse_pat_section, loop_fuel, ilength, ibind, iret. cbn [ibs ioff ilen].
    fold (pat_entry_bytes) in Hat8.
    destruct (pat_loop_at progs (S (Z.to_nat (ilen (mk_iter B (o + 3 + 5))))) (mk_iter B (o + 3 + 5)) _ Hps
                ltac:(unfold ilen; cbn [ibs]; lia) Hat8) as [E2 _].
    cbn [ibs ioff] in E2.
    replace (o + 3 + Z.of_nat (length body)) with (o + 3 + 5 + 4 * Z.of_nat (length progs)) by lia.
    cbn [PSISectionSyntaxHeader_TableIDExtension sh]. rewrite E2. reflexivity. }
  assert (R0 : 0 <= 0 < 256) by lia.
  assert (RL : Z.of_nat (length body) + 4 < 4096) by lia.
  pose proof (parse_section_frame B o 0 ssi pb body T syn _ R0 eq_refl eq_refl Hbody RL Hat Hsyn) as F.
  rewrite F. unfold pat_section_value. fold body.
  replace (Z.of_nat (length body) + 4) with (4 * Z.of_nat (length progs) + 9) by lia.
  change (table_type 0) with tt_PAT. reflexivity.
Qed.

(* ---------- units: pointer_field, filler, several sections, stuffing ---------- *)

(* a byte string that parsePSISection decodes to s wherever it lies in a buffer *)
Definition sec_parses (bytes : list Z) (s : PSISection) : Prop :=
  (0 < length bytes)%nat /\
  forall B o T, at_ (mk_iter B o) (bytes ++ T) ->
    parse_psi_section (mk_iter B o) = Ok ((s, false), mk_iter B (o + Z.of_nat (length bytes))).

Lemma pat_sec_parses ssi pb ext ver cni sn lsn progs : pat_wf ext ver sn lsn progs ->
  sec_parses (spec_pat_section ssi pb ext ver cni sn lsn progs) (pat_section_value ssi pb ext ver cni sn lsn progs).
Proof.
  intros Hwf. split.
  - unfold spec_pat_section, spec_section. rewrite app_length. cbn [CrcSpec.be32 length]. lia.
  - intros B o T Hat. apply (parse_pat_section_at B o T); assumption.
Qed.

Definition stop_section (tid : Z) : PSISection :=
  {| PSISection_CRC32 := 0;
     PSISection_Header := Some {| PSISectionHeader_PrivateBit := false; PSISectionHeader_SectionLength := 0;
                                  PSISectionHeader_SectionSyntaxIndicator := false; PSISectionHeader_TableID := tid;
                                  PSISectionHeader_TableType := table_type tid |};
     PSISection_Syntax := None |}.

(* what follows the last section: nothing, or a byte that stops the parsing (stuffing 0xff or an unassigned
   table id) followed by anything *)
Inductive unit_tail : list Z -> list PSISection -> Prop :=
| tail_end : unit_tail [] []
| tail_stop tid rest : 0 <= tid < 256 -> shouldStopPSIParsing tid = true -> unit_tail (tid :: rest) [stop_section tid].

Lemma parse_stop_at B o tid rest : shouldStopPSIParsing tid = true -> at_ (mk_iter B o) (tid :: rest) ->
  parse_psi_section (mk_iter B o) = Ok ((stop_section tid, true), mk_iter B (o + 1)).
Proof.
  intros Hs Hat. unfold parse_psi_section, parse_psi_section_header, ibind, ioffset.
  rewrite (read_byte _ _ _ Hat). rewrite Hs. unfold iret. cbn [PSISectionHeader_TableID ibs ioff]. rewrite Hs. reflexivity.
Qed.

Lemma psi_sections_at bss ss : Forall2 sec_parses bss ss -> forall fuel B o T ts, (length bss + 1 < fuel)%nat ->
  unit_tail T ts -> at_ (mk_iter B o) (concat bss ++ T) ->
  exists o', psi_sections fuel (mk_iter B o) = Ok (ss ++ ts, mk_iter B o').
Proof.
  induction 1 as [|b s bss ss [Hb Hs] _ IH]; intros fuel B o T ts Hf Ht Hat.
  - cbn [concat app] in *. destruct fuel as [|k]; [cbn in Hf; lia|]. cbn [psi_sections].
    unfold ibind, has_bytes_left, ilen. cbn [ibs ioff]. destruct Ht as [|tid rest Hr Hstop].
    + destruct Hat as [Ho Hsk]. cbn [ibs ioff] in *.
      assert (o >= Z.of_nat (length B)).
      { pose proof (skipn_length (Z.to_nat o) B) as L. rewrite Hsk in L. cbn [length] in L. lia. }
      destruct (o <? Z.of_nat (length B)) eqn:E; [lia|]. unfold iret. eexists; reflexivity.
    + pose proof (at_bound _ [tid] rest Hat ltac:(cbn; lia)) as Hb. unfold ilen in *. cbn [ibs ioff length] in Hb.
      destruct (o <? Z.of_nat (length B)) eqn:E; [|lia].
      rewrite (parse_stop_at B o tid rest Hstop Hat). unfold iret. eexists; reflexivity.
  - cbn [concat] in Hat. rewrite <- app_assoc in Hat.
    destruct fuel as [|k]; [cbn in Hf; lia|]. cbn [psi_sections]. unfold ibind, has_bytes_left, ilen. cbn [ibs ioff].
    pose proof (at_bound _ b _ Hat Hb) as Hbd. unfold ilen in *. cbn [ibs ioff] in Hbd.
    destruct (o <? Z.of_nat (length B)) eqn:E; [|lia].
    rewrite (Hs B o _ Hat).
    destruct (IH k B (o + Z.of_nat (length b)) T ts ltac:(cbn [length] in Hf; lia) Ht (at_shift B o b _ Hat)) as [o' E'].
    rewrite E'. unfold iret. eexists. cbn [app]. reflexivity.
Qed.

Lemma concat_length_ge bss ss : Forall2 sec_parses bss ss -> (length bss <= length (concat bss))%nat.
Proof.
  induction 1 as [|b s bss ss [Hb _] _ IH]; [reflexivity|]. cbn [concat length]. rewrite app_length. lia.
Qed.

(* parsePSIData on pointer_field, filler, the sections one after the other, and an optional stop byte with
   anything behind it: the sections, in order, then the stop marker if there is one *)
Theorem parse_unit p filler bss ss T ts : 0 <= p < 256 -> Z.of_nat (length filler) = p ->
  Forall2 sec_parses bss ss -> unit_tail T ts ->
  parse_psi_data_bytes (p :: filler ++ concat bss ++ T) =
  Ok {| PSIData_PointerField := p; PSIData_Sections := ss ++ ts |}.
Proof.
  intros Hp Hf Hss Ht. set (B := p :: filler ++ concat bss ++ T).
  unfold parse_psi_data_bytes, run_iter, parse_psi_data, ibind, new_iter.
  assert (Hat0 : at_ (mk_iter B 0) (p :: filler ++ concat bss ++ T)) by (split; [cbn; lia|reflexivity]).
  rewrite (read_byte _ _ _ Hat0). unfold iskip, loop_fuel, ibind, ilength, iret. cbn [ibs ioff ilen].
  assert (Hat1 : at_ (mk_iter B (0 + 1 + p)) (concat bss ++ T)).
  { pose proof (at_shift B 0 (p :: filler) (concat bss ++ T) Hat0) as X. cbn [length] in X.
    replace (0 + Z.of_nat (S (length filler))) with (0 + 1 + p) in X by lia. exact X. }
  assert (Hfuel : (length bss + 1 < S (Z.to_nat (ilen (mk_iter B (0 + 1 + p)))))%nat).
  { pose proof (concat_length_ge _ _ Hss). unfold ilen, B. cbn [ibs length]. rewrite !app_length. lia. }
  destruct (psi_sections_at bss ss Hss _ B (0 + 1 + p) T ts Hfuel Ht Hat1) as [o' E].
  rewrite E. reflexivity.
Qed.

(* ---------- toData ---------- *)
Lemma psi_to_data_app p s1 s2 fp pid :
  psi_to_data {| PSIData_PointerField := p; PSIData_Sections := s1 ++ s2 |} fp pid =
  psi_to_data {| PSIData_PointerField := p; PSIData_Sections := s1 |} fp pid ++
  psi_to_data {| PSIData_PointerField := p; PSIData_Sections := s2 |} fp pid.
Proof. unfold psi_to_data. cbn [PSIData_Sections]. apply flat_map_app. Qed.

Lemma psi_to_data_cons p s ss fp pid :
  psi_to_data {| PSIData_PointerField := p; PSIData_Sections := s :: ss |} fp pid =
  section_to_data s fp pid ++ psi_to_data {| PSIData_PointerField := p; PSIData_Sections := ss |} fp pid.
Proof. reflexivity. Qed.

Lemma to_data_stop tid fp pid : section_to_data (stop_section tid) fp pid = [].
Proof. reflexivity. Qed.

Ltac tid_cases :=
  unfold is_nit_id, is_sdt_id, is_eit_id,
    C_PSITableIDPAT, C_PSITableIDPMT, C_PSITableIDTOT, C_PSITableIDNITVariant1, C_PSITableIDNITVariant2,
    C_PSITableIDSDTVariant1, C_PSITableIDSDTVariant2, C_PSITableIDEITStart, C_PSITableIDEITEnd in *.

(* one table per section, of the kind its table id says, carrying the section's content, the PID and the
   first packet *)
Lemma to_data_kinds s h syn d fp pid : PSISection_Header s = Some h -> PSISection_Syntax s = Some syn ->
  PSISectionSyntax_Data syn = Some d ->
  let tid := PSISectionHeader_TableID h in
  (tid = 0 -> section_to_data s fp pid = [demuxer_data fp pid None None (PSISectionSyntaxData_PAT d) None None None]) /\
  (tid = 2 -> section_to_data s fp pid = [demuxer_data fp pid None None None (PSISectionSyntaxData_PMT d) None None]) /\
  (tid = 64 \/ tid = 65 -> section_to_data s fp pid = [demuxer_data fp pid None (PSISectionSyntaxData_NIT d) None None None None]) /\
  (tid = 66 \/ tid = 70 -> section_to_data s fp pid = [demuxer_data fp pid None None None None (PSISectionSyntaxData_SDT d) None]) /\
  (78 <= tid <= 111 -> section_to_data s fp pid = [demuxer_data fp pid (PSISectionSyntaxData_EIT d) None None None None None]) /\
  (tid = 115 -> section_to_data s fp pid = [demuxer_data fp pid None None None None None (PSISectionSyntaxData_TOT d)]).
Proof.
  intros Hh Hs Hd tid. unfold section_to_data. rewrite Hs, Hd, Hh. fold tid.
  repeat split; intros Ht; tid_cases;
    repeat match goal with |- context [if ?c then _ else _] => let E := fresh in destruct c eqn:E; try lia end;
    reflexivity.
Qed.

(* ---------- the PAT, end to end ---------- *)
Theorem parse_pat_unit p filler ssi pb ext ver cni sn lsn progs :
  0 <= p < 256 -> Z.of_nat (length filler) = p -> pat_wf ext ver sn lsn progs ->
  parse_psi_data_bytes (p :: filler ++ spec_pat_section ssi pb ext ver cni sn lsn progs) =
  Ok {| PSIData_PointerField := p;
        PSIData_Sections := [pat_section_value ssi pb ext ver cni sn lsn progs] |}.
Proof.
  intros Hp Hf Hwf.
  pose proof (parse_unit p filler [spec_pat_section ssi pb ext ver cni sn lsn progs]
                [pat_section_value ssi pb ext ver cni sn lsn progs] [] [] Hp Hf
                (Forall2_cons _ _ (pat_sec_parses ssi pb ext ver cni sn lsn progs Hwf) (Forall2_nil _)) tail_end) as H.
  cbn [concat app] in H. rewrite !app_nil_r in H. exact H.
Qed.

Theorem pat_delivered p filler ssi pb ext ver cni sn lsn progs fp pid :
  0 <= p < 256 -> Z.of_nat (length filler) = p -> pat_wf ext ver sn lsn progs ->
  res_map (fun d => psi_to_data d fp pid)
    (parse_psi_data_bytes (p :: filler ++ spec_pat_section ssi pb ext ver cni sn lsn progs)) =
  Ok [demuxer_data fp pid None None
        (Some {| PATData_Programs := map pat_program_of progs; PATData_TransportStreamID := ext |}) None None None].
Proof. intros. rewrite parse_pat_unit by assumption. reflexivity. Qed.
