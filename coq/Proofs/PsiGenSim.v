(* Additions to the lock-step simulation of Proofs/ParseGenSim.v for the constructs that Gen/PsiGen.v has and
   Gen/ParseGen.v has not: `ideref` (a pointer parameter), `imaperr` (a replaced error), the fuel-driven loops, and the
   arguments about fuel: two loops that read at least one byte per round return the same result for every sufficient
   amount of fuel. *)
From Coq Require Import ZArith List Lia Bool ZifyBool.
Require Import Base.Bits Base.Iter Gen.Consts Gen.Types Gen.Preds Gen.PsiGen.
Require Import Model.Packet Model.Desc Proofs.ParseGenBits Proofs.ParseGenSim.
Import ListNotations.
Open Scope Z_scope.

Definition same_on_bytes {A} (m1 m2 : IM A) : Prop := forall i : iter, bytes_ok (ibs i) -> m1 i = m2 i.

(* the bytes of the iterator are never changed *)
Definition pres {A} (m : IM A) : Prop := forall i a i', m i = Ok (a, i') -> ibs i' = ibs i.

Lemma sim_self {A} (m : IM A) : pres m -> sim eq m m.
Proof.
  intros Hp i Hi. destruct (m i) as [[a i']|c|] eqn:E; auto. repeat split. exact (Hp i a i' E).
Qed.

Lemma sim_pres_l {A1 A2} (R : A1 -> A2 -> Prop) m1 m2 : sim R m1 m2 -> forall i, okI i -> forall a i', m1 i = Ok (a, i') -> ibs i' = ibs i.
Proof.
  intros H i Hi a i' E. specialize (H i Hi). rewrite E in H. destruct (m2 i) as [[a2 i2]|c|]; try contradiction. tauto.
Qed.

Lemma sim_sym {A1 A2} (R : A1 -> A2 -> Prop) m1 m2 : sim R m1 m2 -> sim (fun a b => R b a) m2 m1.
Proof.
  intros H i Hi. specialize (H i Hi).
  destruct (m1 i) as [[a1 i1]|c1|], (m2 i) as [[a2 i2]|c2|]; auto.
  destruct H as (H1 & H2 & H3). subst. auto.
Qed.

Lemma sim_eq_point {A} (m1 m2 : IM A) : sim eq m1 m2 -> same_on_bytes m1 m2.
Proof. intros H i Hi. exact (sim_point _ _ H i Hi). Qed.

Lemma sim_trans_eq_r {A1 A2} (R : A1 -> A2 -> Prop) m1 m2 m2' :
  sim R m1 m2 -> (forall i, okI i -> m2 i = m2' i) -> sim R m1 m2'.
Proof. intros H E i Hi. rewrite <- (E i Hi). exact (H i Hi). Qed.

Lemma sim_trans_eq_l {A1 A2} (R : A1 -> A2 -> Prop) m1 m1' m2 :
  sim R m1 m2 -> (forall i, okI i -> m1 i = m1' i) -> sim R m1' m2.
Proof. intros H E i Hi. rewrite <- (E i Hi). exact (H i Hi). Qed.

(* ---------- the new primitives ---------- *)

Lemma sim_has_bytes_left : sim eq has_bytes_left has_bytes_left.
Proof. intros i Hi. cbn. auto. Qed.

Lemma sim_panic_l {A1 A2 B} (R : A1 -> A2 -> Prop) (f : B -> IM A1) (m2 : IM A2) :
  (forall i, m2 i = Panic) -> sim R (ibind (ilift (need (@None B))) f) m2.
Proof. intros H i Hi. rewrite H. reflexivity. Qed.

(* sh.TableIDExtension through a possibly nil pointer, both ways of writing it *)
Lemma sim_deref {T A1 A2} (R : A1 -> A2 -> Prop) (o : option T) (f : T -> IM A1) (g : T -> IM A2) :
  (forall x, o = Some x -> sim R (f x) (g x)) ->
  sim R (ibind (ilift (need o)) f) (ibind (ideref o) g).
Proof.
  intros H. destruct o as [x|].
  - intros i Hi. exact (H x eq_refl i Hi).
  - intros i Hi. reflexivity.
Qed.

Lemma sim_deref_some_r {T A1 A2} (R : A1 -> A2 -> Prop) (x : T) m1 (g : T -> IM A2) :
  sim R m1 (g x) -> sim R m1 (ibind (ideref (Some x)) g).
Proof. intros H i Hi. exact (H i Hi). Qed.

(* a callee whose error is replaced, against a callee whose only error is that one *)
Definition errs_only {A} (c : Z) (m : IM A) : Prop := forall i, match m i with Err c' => c' = c | _ => True end.

Lemma imaperr_id {A} c (m : IM A) : errs_only c m -> forall i, imaperr c m i = m i.
Proof. intros H i. unfold imaperr. specialize (H i). destruct (m i); congruence. Qed.

Lemma sim_imaperr_r {A1 A2} (R : A1 -> A2 -> Prop) c m1 m2 : errs_only c m2 -> sim R m1 m2 -> sim R m1 (imaperr c m2).
Proof. intros He H i Hi. rewrite imaperr_id by exact He. exact (H i Hi). Qed.

(* ---------- inversion of a bind ---------- *)

Lemma ibind_ok {A B} (m : IM A) (f : A -> IM B) i b i' :
  ibind m f i = Ok (b, i') -> exists a i1, m i = Ok (a, i1) /\ f a i1 = Ok (b, i').
Proof. unfold ibind. destruct (m i) as [[a i1]|c|]; try discriminate. intros H. eauto. Qed.

(* ---------- reading a byte string of known length ---------- *)

Lemma sim_ret_bind_l' {A2 B C} (R : C -> A2 -> Prop) m2 (a : B) (g : B -> IM C) :
  sim R (g a) m2 -> sim R (ibind (iret a) g) m2.
Proof. intros H i Hi. exact (H i Hi). Qed.

Lemma sim_if_push_l' {A2 B C} (R : C -> A2 -> Prop) m2 (c : bool) (m n : IM B) (g : B -> IM C) :
  sim R (if c then ibind m g else ibind n g) m2 -> sim R (ibind (if c then m else n) g) m2.
Proof. destruct c; auto. Qed.

Lemma sim_err_bind_l' {A2 B C} (R : C -> A2 -> Prop) c (g : B -> IM C) : sim R (ibind (ierr c) g) (ierr c).
Proof. intros i Hi. reflexivity. Qed.

Lemma sim_bind_ret_l {A2 B} (R : B -> A2 -> Prop) (m1 : IM B) m2 :
  sim R m1 m2 -> sim R (ibind m1 (fun x => iret x)) m2.
Proof.
  intros H i Hi. specialize (H i Hi). unfold ibind, iret.
  destruct (m1 i) as [[a1 i1]|c1|], (m2 i) as [[a2 i2]|c2|]; auto.
Qed.

(* ---------- progress: what lets two amounts of fuel be compared ---------- *)

(* a successful run starts inside the input, ends further on, and keeps the bytes *)
Definition progress {A} (m : IM A) : Prop :=
  forall i a i', m i = Ok (a, i') -> 0 <= ioff i < ilen i /\ ioff i < ioff i' /\ ibs i' = ibs i.

Lemma progress_bind_first {A B} (m : IM A) (f : A -> IM B) :
  progress m -> (forall a i b i', f a i = Ok (b, i') -> ioff i <= ioff i' /\ ibs i' = ibs i) -> progress (ibind m f).
Proof.
  intros Hm Hf i b i' E. apply ibind_ok in E. destruct E as (a & i1 & E1 & E2).
  destruct (Hm _ _ _ E1) as (H1 & H2 & H3). destruct (Hf _ _ _ _ E2) as (H4 & H5).
  repeat split; try lia. congruence.
Qed.

Lemma progress_next_byte : progress next_byte.
Proof. intros i a i' E. apply next_byte_ok in E. destruct E as (H1 & H2 & H3 & H4). repeat split; try lia. exact H2. Qed.

Lemma progress_next_bytes n : 0 < n -> progress (next_bytes n).
Proof.
  intros Hn i a i' E. apply next_bytes_ok in E. destruct E as (H1 & H2 & H3 & H4 & H5 & H6).
  repeat split; try lia. exact H4.
Qed.

(* the fuel a loop needs from iterator i when every round makes progress and the loop stops at offset e at the latest *)
Definition enough (k : nat) (e : Z) (i : iter) : Prop :=
  (1 <= k)%nat /\ (0 <= ioff i -> (Z.to_nat (Z.min e (ilen i) - ioff i) < k)%nat).

(* `for i.Offset() < e { item }` of Model/Desc.v: every sufficient amount of fuel gives the same result *)
Lemma iloop_fuel_unfold {A} (item : IM A) e k i :
  Model.Desc.iloop_fuel (S k) e item i =
  if ioff i <? e then
    match item i with
    | Ok (a, i1) => match Model.Desc.iloop_fuel k e item i1 with Ok (r, i2) => Ok (a :: r, i2) | Err c => Err c | Panic => Panic end
    | Err c => Err c
    | Panic => Panic
    end
  else Ok ([], i).
Proof.
  cbn [Model.Desc.iloop_fuel]. unfold ibind, ioffset, iret. destruct (ioff i <? e); [|reflexivity].
  destruct (item i) as [[a i1]|c|]; reflexivity.
Qed.

Lemma iloop_fuel_enough {A} (item : IM A) e : progress item ->
  forall k1 k2 i, enough k1 e i -> enough k2 e i -> Model.Desc.iloop_fuel k1 e item i = Model.Desc.iloop_fuel k2 e item i.
Proof.
  intros Hp. induction k1 as [|k1 IH]; intros k2 i [H1 H2] [H3 H4]; [lia|]. destruct k2 as [|k2]; [lia|].
  rewrite !iloop_fuel_unfold. destruct (ioff i <? e) eqn:E; [|reflexivity].
  destruct (item i) as [[a i1]|c|] eqn:Ei; try reflexivity.
  destruct (Hp _ _ _ Ei) as (P1 & P2 & P3).
  assert (Hl : ilen i1 = ilen i) by (unfold ilen; rewrite P3; reflexivity).
  rewrite (IH k2 i1); [reflexivity| |]; unfold enough; rewrite Hl; (split; [lia|]); intros _.
  - specialize (H2 ltac:(lia)). lia.
  - specialize (H4 ltac:(lia)). lia.
Qed.

Lemma enough_len e i : enough (S (Z.to_nat (ilen i))) e i.
Proof. split; [lia|]. intros H. lia. Qed.

Lemma enough_end e i : enough (S (Z.to_nat (e - ioff i))) e i.
Proof. split; [lia|]. intros H. lia. Qed.

Lemma enough_step k e i i' : enough (S k) e i -> 0 <= ioff i < ilen i -> ioff i < e -> ioff i < ioff i' -> ilen i' = ilen i ->
  enough k e i'.
Proof. unfold enough. intros [H1 H2] Hi He Hp Hl. rewrite Hl. split; [lia|]. intros H. specialize (H2 ltac:(lia)). lia. Qed.

Lemma ilen_same i i' : ibs i' = ibs i -> ilen i' = ilen i.
Proof. unfold ilen. intros ->. reflexivity. Qed.

(* the first computation maps its result *)
Lemma sim_map_l {A1 A2 B} (R0 : A1 -> A2 -> Prop) (R : B -> A2 -> Prop) m1 m2 (F : A1 -> B) :
  sim R0 m1 m2 -> (forall x y, R0 x y -> R (F x) y) -> sim R (ibind m1 (fun x => iret (F x))) m2.
Proof.
  intros H HF i Hi. specialize (H i Hi). unfold ibind, iret.
  destruct (m1 i) as [[a1 i1]|c1|], (m2 i) as [[a2 i2]|c2|]; auto.
  destruct H as (H1 & H2 & H3). auto.
Qed.

(* ---------- which errors a computation can return ---------- *)

Lemma errs_only_bind {A B} c (m : IM A) (f : A -> IM B) : errs_only c m -> (forall a, errs_only c (f a)) -> errs_only c (ibind m f).
Proof.
  intros Hm Hf i. unfold ibind. specialize (Hm i). destruct (m i) as [[a i']|c'|]; auto. exact (Hf a i').
Qed.
Lemma errs_only_ret {A} c (a : A) : errs_only c (iret a).
Proof. intros i. exact I. Qed.
Lemma errs_only_next_bytes n : errs_only E_generic (next_bytes n).
Proof. intros i. unfold next_bytes. destruct (_ <? _); [reflexivity|]. destruct (n <? 0); [exact I|]. destruct (_ <? _); exact I. Qed.
Lemma errs_only_next_bytes_nocopy n : errs_only E_generic (next_bytes_nocopy n).
Proof. exact (errs_only_next_bytes n). Qed.
Lemma errs_only_next_byte : errs_only E_generic next_byte.
Proof. intros i. unfold next_byte. destruct (_ <? _); [reflexivity|]. destruct (_ <? _); exact I. Qed.

(* ---------- the offset never goes back, the bytes stay ---------- *)

Definition mono {A} (m : IM A) : Prop := forall i a i', m i = Ok (a, i') -> ioff i <= ioff i' /\ ibs i' = ibs i.

Lemma mono_bind {A B} (m : IM A) (f : A -> IM B) : mono m -> (forall a, mono (f a)) -> mono (ibind m f).
Proof.
  intros Hm Hf i b i' E. apply ibind_ok in E. destruct E as (a & i1 & E1 & E2).
  destruct (Hm _ _ _ E1) as (H1 & H2). destruct (Hf _ _ _ _ E2) as (H3 & H4). split; [lia|congruence].
Qed.
Lemma mono_ret {A} (a : A) : mono (iret a).
Proof. intros i b i' E. inversion E; subst. split; [lia|reflexivity]. Qed.
Lemma mono_err {A} c : mono (@ierr A c).
Proof. intros i b i' E. discriminate. Qed.
Lemma mono_if {A} (c : bool) (m n : IM A) : mono m -> mono n -> mono (if c then m else n).
Proof. destruct c; auto. Qed.
Lemma mono_next_byte : mono next_byte.
Proof. intros i b i' E. apply next_byte_ok in E. destruct E as (H1 & H2 & H3 & H4). split; [lia|exact H2]. Qed.
Lemma mono_next_bytes n : mono (next_bytes n).
Proof. intros i b i' E. apply next_bytes_ok in E. destruct E as (H1 & H2 & H3 & H4 & H5 & H6). split; [lia|exact H4]. Qed.
Lemma mono_next_bytes_nocopy n : mono (next_bytes_nocopy n).
Proof. exact (mono_next_bytes n). Qed.
Lemma mono_ioffset : mono ioffset.
Proof. intros i b i' E. inversion E; subst. split; [lia|reflexivity]. Qed.
Lemma mono_progress {A} (m : IM A) : progress m -> mono m.
Proof. intros H i a i' E. destruct (H _ _ _ E) as (H1 & H2 & H3). split; [lia|exact H3]. Qed.

Lemma progress_bind_mono {A B} (m : IM A) (f : A -> IM B) : progress m -> (forall a, mono (f a)) -> progress (ibind m f).
Proof. intros Hm Hf. apply progress_bind_first; [exact Hm|]. intros a i b i' E. exact (Hf a i b i' E). Qed.

Lemma mono_iloop_fuel {A} (item : IM A) e : mono item -> forall k, mono (Model.Desc.iloop_fuel k e item).
Proof.
  intros Hi. induction k as [|k IH]; cbn [Model.Desc.iloop_fuel]; [apply mono_err|].
  apply mono_bind; [apply mono_ioffset|]. intros off. apply mono_if; [|apply mono_ret].
  apply mono_bind; [exact Hi|]. intros a. apply mono_bind; [exact IH|]. intros r. apply mono_ret.
Qed.
Lemma mono_iloop {A} (item : IM A) e : mono item -> mono (Model.Desc.iloop e item).
Proof. intros Hi. unfold Model.Desc.iloop. apply mono_bind; [apply mono_ioffset|]. intros off. apply mono_iloop_fuel. exact Hi. Qed.

Ltac mono_tac :=
  repeat match goal with
  | |- mono (ibind _ _) => apply mono_bind; [|intros ?]
  | |- mono (iret _) => apply mono_ret
  | |- mono (ierr _) => apply mono_err
  | |- mono next_byte => apply mono_next_byte
  | |- mono (next_bytes _) => apply mono_next_bytes
  | |- mono (next_bytes_nocopy _) => apply mono_next_bytes_nocopy
  | |- mono ioffset => apply mono_ioffset
  | |- mono (if _ then _ else _) => apply mono_if
  | |- mono (Model.Desc.iloop _ _) => apply mono_iloop
  end.

