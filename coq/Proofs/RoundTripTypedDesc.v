(* C01: the descriptor-domain premises of the history theorem discharged for streams whose descriptor loops hold
   typed descriptors (the 23 typed tags, unknown and user-defined tags, in any mix; Proofs/PsiTypedDesc.v), given in
   the form a parser returns them.  No premise about descriptors is left. *)
From Coq Require Import ZArith List Lia Bool ZifyBool.
Require Import Base.Bits Base.Iter Base.Wr Gen.Consts Gen.Types Gen.Preds Model.Packet Model.Desc Model.Dvb Model.Psi Model.Muxer.
Require Import Spec.DescSpec Spec.PsiSpec Proofs.DescProofs Proofs.DescRoundTripAll Proofs.DescOffset Proofs.PsiDescLink
  Proofs.PsiSiLink Proofs.PsiTypedDesc Proofs.RoundTripRun.
Import ListNotations.
Open Scope Z_scope.

Theorem roundtrip_history_typed period ops :
  history_ok typed_desc (new_muxer period) ops ->
  demux_all (concat (map mout_bytes (snd (mux_run (new_muxer period) ops)))) = map Ok (expect (new_muxer period) [] ops).
Proof. apply (roundtrip_history typed_desc typed_desc_premises typed_desc_bytes typed_desc_nil typed_desc_size). Qed.

Theorem roundtrip_per_pid_typed period ops :
  history_ok typed_desc (new_muxer period) ops ->
  exists L, demux_all (concat (map mout_bytes (snd (mux_run (new_muxer period) ops)))) = map Ok L /\
    forall x, x <> C_PIDPAT -> x <> C_pmtStartPID -> filter (on_x x) L = written_on x (new_muxer period) ops.
Proof. apply (roundtrip_per_pid typed_desc typed_desc_premises typed_desc_bytes typed_desc_nil typed_desc_size). Qed.
