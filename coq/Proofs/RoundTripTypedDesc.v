(* C01: the descriptor-domain premises of the history theorem discharged for streams whose descriptor loops hold
   typed descriptors (the 23 typed tags, unknown and user-defined tags, in any mix; Proofs/PsiTypedDesc.v), given in
   the form a parser returns them.  No premise about descriptors is left. *)
From Coq Require Import ZArith List Lia Bool ZifyBool.
Require Import Base.Bits Base.Iter Base.Wr Gen.Consts Gen.Types Gen.Preds Model.Packet Model.Desc Model.Dvb Model.Psi Model.Muxer.
Require Import Spec.DescSpec Spec.PsiSpec Proofs.DescProofs Proofs.DescRoundTripAll Proofs.DescOffset Proofs.PsiDescLink
  Proofs.PsiSiLink Proofs.PsiTypedDesc Proofs.RoundTripRun.
Import ListNotations.
Open Scope Z_scope.

Theorem roundtrip_history_typed period ops :
  history_ok typed_desc (new_muxer period) ops ->
  demux_all (concat (map mout_bytes (snd (mux_run (new_muxer period) ops)))) = map Ok (expect (new_muxer period) [] ops).
Proof. apply (roundtrip_history typed_desc typed_desc_premises typed_desc_bytes typed_desc_nil typed_desc_size). Qed.

Theorem roundtrip_per_pid_typed period ops :
  history_ok typed_desc (new_muxer period) ops ->
  exists L, demux_all (concat (map mout_bytes (snd (mux_run (new_muxer period) ops)))) = map Ok L /\
    forall x, x <> C_PIDPAT -> x <> C_pmtStartPID -> filter (on_x x) L = written_on x (new_muxer period) ops.
Proof. apply (roundtrip_per_pid typed_desc typed_desc_premises typed_desc_bytes typed_desc_nil typed_desc_size). Qed.

(* ---------------- the hypotheses are satisfiable: the history of Proofs/RoundTripExamples.v with a stream that carries
   the six descriptors of PsiTypedDesc.ex_typed_loop (five different classes) ---------------- *)
Require Import Spec.MuxSpec Spec.PesSpec Spec.PacketSpec Proofs.MuxerProofs Proofs.RoundTripPkt Proofs.RoundTripUnit Proofs.RoundTripL1
  Proofs.RoundTripTables Proofs.RoundTripMux Proofs.RoundTripExamples.

Definition rtt_es : PMTElementaryStream :=
  {| PMTElementaryStream_ElementaryPID := 257;
     PMTElementaryStream_ElementaryStreamDescriptors := ex_typed_loop;
     PMTElementaryStream_StreamType := C_StreamTypeH264Video |}.

Definition rtt_hist : list mop :=
  [MAdd rtt_es; MSetPCR 257; MWriteData (rt_data 90000 300); MWriteData (rt_data 93600 500); MWriteTables].

Lemma rtt_domain_gen s pts n ctx : es_find 257 (ms_es s) = Some ctx -> ec_es ctx = rtt_es -> 0 <= pts < 2 ^ 33 -> n <> O ->
  data_in_domain s (rt_data pts n) ctx (rt_h0 pts) (rt_payload n).
Proof.
  intros Hf He Hp Hn. constructor.
  - unfold es_pid. cbn. unfold C_pmtStartPID. lia.
  - exact I.
  - exact I.
  - exact Hf.
  - eexists. split; [reflexivity|]. split; reflexivity.
  - split; [destruct n; [congruence|discriminate]|apply rt_payload_ok].
  - rewrite He.
    assert (E : filled_header (rt_h0 pts) rtt_es =
               {| PESHeader_OptionalHeader := Some (rt_opt pts); PESHeader_PacketLength := 0; PESHeader_StreamID := 224 |}) by reflexivity.
    rewrite E. split; [cbn; lia|]. intros _. exists (rt_opt pts). split; [reflexivity|apply rt_opt_wf; exact Hp].
Qed.

Lemma rtt_streams_dom s : ms_streams s = [rtt_es] -> streams_dom typed_desc s.
Proof.
  intros E. unfold streams_dom. rewrite E. constructor; [|constructor]. split.
  - unfold stream_in_dom, rtt_es, spid. split; [cbn; unfold C_StreamTypeH264Video; lia|]. split; [cbn; lia|].
    exists ex_typed_bytes. apply ex_typed_ok.
  - unfold es_pid, rtt_es, spid. cbn. unfold C_pmtStartPID. lia.
Qed.

Definition rtt_s1 : mstate := fst (mux_step_part (new_muxer 40) (MAdd rtt_es)).
Definition rtt_s2 : mstate := fst (mux_step_part rtt_s1 (MSetPCR 257)).
Definition rtt_s3 : mstate := fst (mux_step_part rtt_s2 rt_o3).
Definition rtt_s4 : mstate := fst (mux_step_part rtt_s3 rt_o4).
Definition rtt_s5 : mstate := fst (mux_step_part rtt_s4 MWriteTables).

Lemma rtt_ctx_of s : option_map ec_es (es_find 257 (ms_es s)) = Some rtt_es ->
  exists ctx, es_find 257 (ms_es s) = Some ctx /\ ec_es ctx = rtt_es.
Proof. destruct (es_find 257 (ms_es s)) as [ctx|]; [|discriminate]. cbn. intros H. exists ctx. split; [reflexivity|congruence]. Qed.

Lemma rtt_history_ok : history_ok typed_desc (new_muxer 40) rtt_hist.
Proof.
  unfold rtt_hist. cbn [history_ok]. fold rtt_s1. fold rtt_s2. fold rt_o3 rt_o4. fold rtt_s3. fold rtt_s4. fold rtt_s5.
  assert (St : ms_streams rtt_s1 = [rtt_es] /\ ms_streams rtt_s2 = [rtt_es] /\ ms_streams rtt_s3 = [rtt_es] /\
               ms_streams rtt_s4 = [rtt_es] /\ ms_streams rtt_s5 = [rtt_es]) by (vm_compute; repeat split; reflexivity).
  destruct St as (S1 & S2 & S3 & S4 & S5).
  assert (Rs : pa_res (snd (mux_step_part (new_muxer 40) (MAdd rtt_es))) = Ok tt /\
               pa_res (snd (mux_step_part rtt_s1 (MSetPCR 257))) = Ok tt /\
               pa_res (snd (mux_step_part rtt_s2 rt_o3)) = Ok tt /\ pa_res (snd (mux_step_part rtt_s3 rt_o4)) = Ok tt /\
               pa_res (snd (mux_step_part rtt_s4 MWriteTables)) = Ok tt) by (vm_compute; repeat split; reflexivity).
  destruct Rs as (R1 & R2 & R3 & R4 & R5).
  destruct (rtt_ctx_of rtt_s2 ltac:(vm_compute; reflexivity)) as (c2 & F2 & E2).
  destruct (rtt_ctx_of rtt_s3 ltac:(vm_compute; reflexivity)) as (c3 & F3 & E3).
  split; [split; [rewrite R1; discriminate|split; [apply rtt_streams_dom, S1|exact I]]|].
  split; [split; [rewrite R2; discriminate|split; [apply rtt_streams_dom, S2|exact I]]|].
  split; [split; [rewrite R3; discriminate|split; [apply rtt_streams_dom, S3|]]|].
  { split; [exact I|]. left. split; [exact R3|]. exists c2, (rt_h0 90000), (rt_payload 300).
    apply rtt_domain_gen; [exact F2|exact E2|lia|discriminate]. }
  split; [split; [rewrite R4; discriminate|split; [apply rtt_streams_dom, S4|]]|].
  { split; [exact I|]. left. split; [exact R4|]. exists c3, (rt_h0 93600), (rt_payload 500).
    apply rtt_domain_gen; [exact F3|exact E3|lia|discriminate]. }
  split; [split; [rewrite R5; discriminate|split; [apply rtt_streams_dom, S5|exact I]]|exact I].
Qed.

(* what comes out: PAT, PMT (listing the stream with its six descriptors); the first PES when the second starts; PAT,
   PMT of the explicit WriteTables; the second PES at end of stream *)
Lemma rtt_expect_shape :
  map DemuxerData_PID (expect (new_muxer 40) [] rtt_hist) = [0; 4096; 257; 0; 4096; 257] /\
  map (fun d => match DemuxerData_PMT d with
                | Some pmt => map PMTElementaryStream_ElementaryStreamDescriptors (PMTData_ElementaryStreams pmt)
                | None => []
                end) (expect (new_muxer 40) [] rtt_hist) = [[]; [ex_typed_loop]; []; []; [ex_typed_loop]; []].
Proof. vm_compute. split; reflexivity. Qed.

(* ---------------- descriptors as the caller writes them ----------------
   op_parsed o on: the same call, except that the descriptors handed to AddElementaryStream are any list of C14's
   domain (ops) and its parsed form (opsn).  The Muxer emits the same bytes for both histories (Proofs/RoundTripNorm.v),
   so what the demultiplexer delivers for the history as written is [expect] of the history in parsed form: the PMTs
   carry the descriptors as parseDescriptors returns them. *)
Require Import Proofs.RoundTripNorm.

Definition es_parsed (e en : PMTElementaryStream) : Prop :=
  PMTElementaryStream_ElementaryPID en = PMTElementaryStream_ElementaryPID e /\
  PMTElementaryStream_StreamType en = PMTElementaryStream_StreamType e /\
  Forall2 wf_entry (PMTElementaryStream_ElementaryStreamDescriptors e) (PMTElementaryStream_ElementaryStreamDescriptors en).

Definition op_parsed (o on : mop) : Prop :=
  match o, on with
  | MAdd e, MAdd en => es_parsed e en
  | MAdd _, _ | _, MAdd _ => False
  | _, _ => on = o
  end.

Lemma es_parsed_same e en : es_parsed e en -> es_same e en.
Proof.
  intros (Hp & Ht & HR). destruct (wf_entries_same _ _ HR) as (E1 & _ & E3 & E4 & _).
  split; [exact Hp|]. split; [exact Ht|]. split; [exact E1|]. split; [exact E3|exact E4].
Qed.

Lemma op_parsed_same o on : op_parsed o on -> op_same o on.
Proof. destruct o, on; cbn; try tauto. apply es_parsed_same. Qed.

Theorem mux_written_bytes period ops opsn : Forall2 op_parsed ops opsn ->
  snd (mux_run (new_muxer period) opsn) = snd (mux_run (new_muxer period) ops).
Proof.
  intros HF. apply (run_same ops opsn _ _ (srel_refl _)).
  clear -HF. induction HF; constructor; [apply op_parsed_same; assumption|assumption].
Qed.

Theorem roundtrip_history_written period ops opsn :
  Forall2 op_parsed ops opsn -> history_ok typed_desc (new_muxer period) opsn ->
  demux_all (concat (map mout_bytes (snd (mux_run (new_muxer period) ops)))) = map Ok (expect (new_muxer period) [] opsn).
Proof. intros HF Hok. rewrite <- (mux_written_bytes period ops opsn HF). apply roundtrip_history_typed. exact Hok. Qed.

(* the example history with the descriptors as a caller may write them (wrong Length fields, a stray body) *)
Definition rtt_es_written : PMTElementaryStream :=
  {| PMTElementaryStream_ElementaryPID := 257;
     PMTElementaryStream_ElementaryStreamDescriptors := ex_typed_written;
     PMTElementaryStream_StreamType := C_StreamTypeH264Video |}.
Definition rtt_hist_written : list mop :=
  [MAdd rtt_es_written; MSetPCR 257; MWriteData (rt_data 90000 300); MWriteData (rt_data 93600 500); MWriteTables].

Lemma rtt_hist_parsed : Forall2 op_parsed rtt_hist_written rtt_hist.
Proof.
  unfold rtt_hist_written, rtt_hist. repeat (apply Forall2_cons; [try reflexivity|]); [|apply Forall2_nil].
  split; [reflexivity|]. split; [reflexivity|exact ex_typed_entries].
Qed.
