(* A concrete conformant packet (PCR + OPCR + splice countdown + private data + extension with all three parts +
   stuffing + payload) showing that the hypotheses of the C11 theorems are satisfiable. *)
From Coq Require Import ZArith List Lia Bool.
Require Import Base.Bits Base.Iter Base.Wr Gen.Consts Gen.Types Model.Clock Model.Packet Spec.PesSpec Spec.PacketSpec.
Import ListNotations.
Open Scope Z_scope.

Definition ex_header : PacketHeader :=
  {| PacketHeader_ContinuityCounter := 9;
     PacketHeader_HasAdaptationField := true;
     PacketHeader_HasPayload := true;
     PacketHeader_PayloadUnitStartIndicator := true;
     PacketHeader_PID := 6844;
     PacketHeader_TransportErrorIndicator := false;
     PacketHeader_TransportPriority := true;
     PacketHeader_TransportScramblingControl := 2 |}.

Definition ex_afe : PacketAdaptationExtensionField :=
  {| PacketAdaptationExtensionField_DTSNextAccessUnit := Some (cr 8589934591 0);
     PacketAdaptationExtensionField_HasLegalTimeWindow := true;
     PacketAdaptationExtensionField_HasPiecewiseRate := true;
     PacketAdaptationExtensionField_HasSeamlessSplice := true;
     PacketAdaptationExtensionField_LegalTimeWindowIsValid := true;
     PacketAdaptationExtensionField_LegalTimeWindowOffset := 12345;
     PacketAdaptationExtensionField_Length := 0;
     PacketAdaptationExtensionField_PiecewiseRate := 2800606;
     PacketAdaptationExtensionField_SpliceType := 9 |}.

Definition ex_af : PacketAdaptationField :=
  {| PacketAdaptationField_AdaptationExtensionField := Some ex_afe;
     PacketAdaptationField_OPCR := Some (cr 1 511);
     PacketAdaptationField_PCR := Some (cr 4294967301 300);
     PacketAdaptationField_TransportPrivateData := [1; 2; 3; 255];
     PacketAdaptationField_TransportPrivateDataLength := 0;
     PacketAdaptationField_Length := 0;
     PacketAdaptationField_StuffingLength := 3;
     PacketAdaptationField_SpliceCountdown := 200;
     PacketAdaptationField_IsOneByteStuffing := false;
     PacketAdaptationField_RandomAccessIndicator := true;
     PacketAdaptationField_DiscontinuityIndicator := false;
     PacketAdaptationField_ElementaryStreamPriorityIndicator := true;
     PacketAdaptationField_HasAdaptationExtensionField := true;
     PacketAdaptationField_HasOPCR := true;
     PacketAdaptationField_HasPCR := true;
     PacketAdaptationField_HasTransportPrivateData := true;
     PacketAdaptationField_HasSplicingCountdown := true |}.

Definition ex_payload : list Z := map Z.of_nat (seq 100 149).

Definition ex_packet : Packet :=
  {| Packet_AdaptationField := Some ex_af; Packet_Header := ex_header; Packet_Payload := ex_payload |}.

Example ex_header_wf : wf_packet_header ex_header.
Proof. constructor; cbn; lia. Qed.

Example ex_afe_wf : wf_afe ex_afe.
Proof.
  constructor; cbn -[Z.pow]; try lia.
  split; [lia|]. eexists. split; [|reflexivity]. change (2 ^ 33) with 8589934592. lia.
Qed.

Example ex_payload_ok : bytes_ok ex_payload.
Proof.
  unfold bytes_ok, ex_payload. apply Forall_forall. intros x Hx. apply in_map_iff in Hx.
  destruct Hx as (n & <- & Hn). apply in_seq in Hn. unfold byte_ok. lia.
Qed.

Example ex_af_wf : wf_af ex_af.
Proof.
  unfold wf_af. cbn [ex_af PacketAdaptationField_IsOneByteStuffing].
  constructor; cbn -[Z.pow]; try lia.
  - eexists _, _. split; [|split; [|reflexivity]]; [change (2 ^ 33) with 8589934592 | change (2 ^ 9) with 512]; lia.
  - eexists _, _. split; [|split; [|reflexivity]]; [change (2 ^ 33) with 8589934592 | change (2 ^ 9) with 512]; lia.
  - unfold bytes_ok; repeat constructor; unfold byte_ok; lia.
  - exists ex_afe. split; [reflexivity | exact ex_afe_wf].
Qed.

Example ex_packet_wf : wf_packet ex_packet.
Proof.
  constructor.
  - exact ex_header_wf.
  - cbn. exists ex_af. split; [reflexivity | exact ex_af_wf].
  - cbn [ex_packet ex_header Packet_Header PacketHeader_HasPayload Packet_Payload]. exact ex_payload_ok.
  - reflexivity.
Qed.

(* the writer accepts it, emits 188 bytes, and the parser reads it back with the derived fields filled in *)
Example ex_packet_roundtrip :
  match write_packet ex_packet 188 with
  | Ok bs => length bs = 188%nat /\ parse_packet_bytes bs = Ok (observed ex_packet) /\ bs = ref_packet_bytes ex_packet
  | _ => False
  end.
Proof. vm_compute. repeat split; reflexivity. Qed.
