(* A concrete conformant packet (PCR + OPCR + splice countdown + private data + extension with all three parts +
   stuffing + payload) showing that the hypotheses of the C11 theorems are satisfiable. *)
From Coq Require Import ZArith List Lia Bool.
Require Import Base.Bits Base.Iter Base.Wr Gen.Consts Gen.Types Model.Clock Model.Packet Spec.PesSpec Spec.PacketSpec.
Import ListNotations.
Open Scope Z_scope.

Definition ex_header : PacketHeader :=
  {| PacketHeader_ContinuityCounter := 9;
     PacketHeader_HasAdaptationField := true;
     PacketHeader_HasPayload := true;
     PacketHeader_PayloadUnitStartIndicator := true;
     PacketHeader_PID := 6844;
     PacketHeader_TransportErrorIndicator := false;
     PacketHeader_TransportPriority := true;
     PacketHeader_TransportScramblingControl := 2 |}.

Definition ex_afe : PacketAdaptationExtensionField :=
  {| PacketAdaptationExtensionField_DTSNextAccessUnit := Some (cr 8589934591 0);
     PacketAdaptationExtensionField_HasLegalTimeWindow := true;
     PacketAdaptationExtensionField_HasPiecewiseRate := true;
     PacketAdaptationExtensionField_HasSeamlessSplice := true;
     PacketAdaptationExtensionField_LegalTimeWindowIsValid := true;
     PacketAdaptationExtensionField_LegalTimeWindowOffset := 12345;
     PacketAdaptationExtensionField_Length := 0;
     PacketAdaptationExtensionField_PiecewiseRate := 2800606;
     PacketAdaptationExtensionField_SpliceType := 9 |}.

Definition ex_af : PacketAdaptationField :=
  {| PacketAdaptationField_AdaptationExtensionField := Some ex_afe;
     PacketAdaptationField_OPCR := Some (cr 1 511);
     PacketAdaptationField_PCR := Some (cr 4294967301 300);
     PacketAdaptationField_TransportPrivateData := [1; 2; 3; 255];
     PacketAdaptationField_TransportPrivateDataLength := 0;
     PacketAdaptationField_Length := 0;
     PacketAdaptationField_StuffingLength := 3;
     PacketAdaptationField_SpliceCountdown := 200;
     PacketAdaptationField_IsOneByteStuffing := false;
     PacketAdaptationField_RandomAccessIndicator := true;
     PacketAdaptationField_DiscontinuityIndicator := false;
     PacketAdaptationField_ElementaryStreamPriorityIndicator := true;
     PacketAdaptationField_HasAdaptationExtensionField := true;
     PacketAdaptationField_HasOPCR := true;
     PacketAdaptationField_HasPCR := true;
     PacketAdaptationField_HasTransportPrivateData := true;
     PacketAdaptationField_HasSplicingCountdown := true |}.

Definition ex_payload : list Z := map Z.of_nat (seq 100 149).

Definition ex_packet : Packet :=
  {| Packet_AdaptationField := Some ex_af; Packet_Header := ex_header; Packet_Payload := ex_payload |}.

Example ex_header_wf : wf_packet_header ex_header.
Proof. constructor; cbn; lia. Qed.

Example ex_afe_wf : wf_afe ex_afe.
Proof.
  constructor; cbn -[Z.pow]; try lia.
  split; [lia|]. eexists. split; [|reflexivity]. change (2 ^ 33) with 8589934592. lia.
Qed.

Example ex_payload_ok : bytes_ok ex_payload.
Proof.
  unfold bytes_ok, ex_payload. apply Forall_forall. intros x Hx. apply in_map_iff in Hx.
  destruct Hx as (n & <- & Hn). apply in_seq in Hn. unfold byte_ok. lia.
Qed.

Example ex_af_wf : wf_af ex_af.
Proof.
  unfold wf_af. cbn [ex_af PacketAdaptationField_IsOneByteStuffing].
  constructor; cbn -[Z.pow]; try lia.
  - eexists _, _. split; [|split; [|reflexivity]]; [change (2 ^ 33) with 8589934592 | change (2 ^ 9) with 512]; lia.
  - eexists _, _. split; [|split; [|reflexivity]]; [change (2 ^ 33) with 8589934592 | change (2 ^ 9) with 512]; lia.
  - unfold bytes_ok; repeat constructor; unfold byte_ok; lia.
  - exists ex_afe. split; [reflexivity | exact ex_afe_wf].
Qed.

Example ex_packet_wf : wf_packet ex_packet.
Proof.
  constructor.
  - exact ex_header_wf.
  - cbn. exists ex_af. split; [reflexivity | exact ex_af_wf].
  - cbn [ex_packet ex_header Packet_Header PacketHeader_HasPayload Packet_Payload]. exact ex_payload_ok.
  - reflexivity.
Qed.

(* the writer accepts it, emits 188 bytes, and the parser reads it back with the derived fields filled in *)
Example ex_packet_roundtrip :
  match write_packet ex_packet 188 with
  | Ok bs => length bs = 188%nat /\ parse_packet_bytes bs = Ok (observed ex_packet) /\ bs = ref_packet_bytes ex_packet
  | _ => False
  end.
Proof. vm_compute. repeat split; reflexivity. Qed.

(* finding K1: an adaptation field extension with trailing reserved bytes (legal per 2.4.3.4; here
   adaptation_field_extension_length = 3 with no optional part, i.e. two reserved bytes) is outside [conformant]:
   the parser neither skips nor records the reserved bytes, so they come back as adaptation field stuffing behind an
   extension of length 1 - same meaning, one byte differs *)
Definition k1_bytes : list Z :=
  [71; 1; 0; 48] ++ [5; 1; 3; 31; 255; 255] ++ map Z.of_nat (seq 0 178).
Definition k1_reemitted : list Z :=
  [71; 1; 0; 48] ++ [5; 1; 1; 31; 255; 255] ++ map Z.of_nat (seq 0 178).

Example k1_reemit_differs :
  length k1_bytes = 188%nat /\
  exists p, parse_packet_bytes k1_bytes = Ok p /\ write_packet p 188 = Ok k1_reemitted /\
            k1_reemitted <> k1_bytes /\
            firstn 6 k1_reemitted = firstn 6 k1_bytes /\ skipn 7 k1_reemitted = skipn 7 k1_bytes.
Proof.
  split; [reflexivity|]. eexists. split; [vm_compute; reflexivity|]. split; [vm_compute; reflexivity|].
  split; [intros H; vm_compute in H; discriminate | split; reflexivity].
Qed.
