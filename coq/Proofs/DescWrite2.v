(* C14 (d), second part: the writers of the bit-packed tags emit the reference layouts of Spec/DescSpec2.v. *)
From Coq Require Import ZArith List Lia Bool ZifyBool.
Require Import Base.Bits Base.Iter Base.Wr Gen.Consts Gen.Types Gen.Preds Model.Dvb Model.Desc Spec.DescSpec Spec.DvbSpec Spec.DescSpec2
  Proofs.DvbProofs Proofs.DescProofs Proofs.DescRoundTrip2 Proofs.DescRoundTrip3 Proofs.DescRoundTrip4.
Import ListNotations.
Open Scope Z_scope.

(* ---- the value of a byte assembled from bit fields ---- *)

Lemma Z_of_bits_cons b l : Z_of_bits (b :: l) = Z.b2z b * 2 ^ Z.of_nat (length l) + Z_of_bits l.
Proof. change (b :: l) with ([b] ++ l). rewrite Z_of_bits_app. reflexivity. Qed.

Lemma Z_of_bits_field w v l : Z_of_bits (bits_of w v ++ l) = (v mod 2 ^ Z.of_nat w) * 2 ^ Z.of_nat (length l) + Z_of_bits l.
Proof. rewrite Z_of_bits_app, Z_of_bits_of_mod. reflexivity. Qed.

Lemma byte_of_group g l : items_bytes_ok g -> items_bytes_ok l -> bitlen g = 8 ->
  bytes_of_items (g ++ l) = Z_of_bits (items_bits g) :: bytes_of_items l.
Proof.
  intros Hg Hl Hb. rewrite (bytes_of_items_app g l 1) by (auto; lia).
  rewrite (chunks_concat g) by exact Hg. rewrite <- (app_nil_r (items_bits g)) at 1.
  rewrite bytes_of_bits_8 by (unfold bitlen in Hb; lia). reflexivity.
Qed.

Lemma sumZ_scale {A} (f : A -> Z) k l : sumZ (fun x => k * f x) l = k * sumZ f l.
Proof. induction l as [|x l IH]; [cbn; lia|]. cbn [sumZ fold_right]. unfold sumZ in IH. rewrite IH. lia. Qed.

Ltac closed_consts :=
  repeat match goal with
  | |- context [2 ^ Z.of_nat ?n] => let v := eval vm_compute in (2 ^ Z.of_nat n) in
      match v with Zpos _ => change (2 ^ Z.of_nat n) with v end
  end;
  repeat match goal with
  | |- context [Zpos ?a mod Zpos ?b] => let v := eval vm_compute in (Zpos a mod Zpos b) in change (Zpos a mod Zpos b) with v
  end.

(* evaluate Z_of_bits (items_bits g) for a group of flags and fields into sums of value * 2^k *)
Ltac pack :=
  unfold items_bits; cbn [flat_map item_bits app];
  repeat first [rewrite Z_of_bits_cons | rewrite Z_of_bits_field];
  rewrite ?app_length, ?bits_of_length; cbn [length Nat.add]; change (Z_of_bits []) with 0; cbn [Z.b2z];
  closed_consts.

Lemma items_ok_wif_u8 c x l : items_bytes_ok l -> items_bytes_ok (wif c [wu8 x] ++ l).
Proof. intros H. destruct c; cbn [wif app]; [iok|exact H]. Qed.

Lemma opt_bytes_opt_b c x : opt_bytes c x = opt_b c x. Proof. reflexivity. Qed.

(* ---- AC-3, Enhanced AC-3 ---- *)

Lemma write_ac3 v : byte_range (DescriptorAC3_ComponentType v) -> byte_range (DescriptorAC3_BSID v) ->
  byte_range (DescriptorAC3_MainID v) -> byte_range (DescriptorAC3_ASVC v) -> bytes_ok (DescriptorAC3_AdditionalInfo v) ->
  bytes_of_items (enc_ac3 v) = ref_ac3 v.
Proof.
  intros H1 H2 H3 H4 Hai. unfold enc_ac3, ref_ac3.
  assert (O5 : items_bytes_ok [WBytes (DescriptorAC3_AdditionalInfo v)]) by iok.
  pose proof (items_ok_wif_u8 (DescriptorAC3_HasASVC v) (DescriptorAC3_ASVC v) _ O5) as O4.
  pose proof (items_ok_wif_u8 (DescriptorAC3_HasMainID v) (DescriptorAC3_MainID v) _ O4) as O3.
  pose proof (items_ok_wif_u8 (DescriptorAC3_HasBSID v) (DescriptorAC3_BSID v) _ O3) as O2.
  pose proof (items_ok_wif_u8 (DescriptorAC3_HasComponentType v) (DescriptorAC3_ComponentType v) _ O2) as O1.
  rewrite byte_of_group by first [assumption | (bl; reflexivity) | iok].
  rewrite !bytes_of_items_wif_u8, bytes_of_single_bytes, !opt_bytes_opt_b by assumption.
  cbn [app]. f_equal. pack. ring.
Qed.

Lemma write_enhanced_ac3 v : byte_range (DescriptorEnhancedAC3_ComponentType v) -> byte_range (DescriptorEnhancedAC3_BSID v) ->
  byte_range (DescriptorEnhancedAC3_MainID v) -> byte_range (DescriptorEnhancedAC3_ASVC v) ->
  byte_range (DescriptorEnhancedAC3_SubStream1 v) -> byte_range (DescriptorEnhancedAC3_SubStream2 v) ->
  byte_range (DescriptorEnhancedAC3_SubStream3 v) -> bytes_ok (DescriptorEnhancedAC3_AdditionalInfo v) ->
  bytes_of_items (enc_enhanced_ac3 v) = ref_enhanced_ac3 v.
Proof.
  intros H1 H2 H3 H4 H5 H6 H7 Hai. unfold enc_enhanced_ac3, ref_enhanced_ac3.
  assert (O8 : items_bytes_ok [WBytes (DescriptorEnhancedAC3_AdditionalInfo v)]) by iok.
  pose proof (items_ok_wif_u8 (DescriptorEnhancedAC3_HasSubStream3 v) (DescriptorEnhancedAC3_SubStream3 v) _ O8) as O7.
  pose proof (items_ok_wif_u8 (DescriptorEnhancedAC3_HasSubStream2 v) (DescriptorEnhancedAC3_SubStream2 v) _ O7) as O6.
  pose proof (items_ok_wif_u8 (DescriptorEnhancedAC3_HasSubStream1 v) (DescriptorEnhancedAC3_SubStream1 v) _ O6) as O5.
  pose proof (items_ok_wif_u8 (DescriptorEnhancedAC3_HasASVC v) (DescriptorEnhancedAC3_ASVC v) _ O5) as O4.
  pose proof (items_ok_wif_u8 (DescriptorEnhancedAC3_HasMainID v) (DescriptorEnhancedAC3_MainID v) _ O4) as O3.
  pose proof (items_ok_wif_u8 (DescriptorEnhancedAC3_HasBSID v) (DescriptorEnhancedAC3_BSID v) _ O3) as O2.
  pose proof (items_ok_wif_u8 (DescriptorEnhancedAC3_HasComponentType v) (DescriptorEnhancedAC3_ComponentType v) _ O2) as O1.
  rewrite byte_of_group by first [assumption | (bl; reflexivity) | iok].
  rewrite !bytes_of_items_wif_u8, bytes_of_single_bytes, !opt_bytes_opt_b by assumption.
  cbn [app]. f_equal. pack. ring.
Qed.

(* ---- AVC video ---- *)

Lemma write_avc_video v : byte_range (DescriptorAVCVideo_ProfileIDC v) -> byte_range (DescriptorAVCVideo_LevelIDC v) ->
  0 <= DescriptorAVCVideo_CompatibleFlags v < 32 ->
  bytes_of_items (enc_avc_video v) = ref_avc_video v.
Proof.
  intros Hp Hl Hc. unfold enc_avc_video, ref_avc_video.
  rewrite bytes_of_items_cons_u8 by iok.
  match goal with |- context [bytes_of_items (WBool ?a :: WBool ?b :: WBool ?c :: WBits 5 ?x :: ?l)] =>
    change (WBool a :: WBool b :: WBool c :: WBits 5 x :: l) with ([WBool a; WBool b; WBool c; WBits 5 x] ++ l) end.
  rewrite byte_of_group by first [assumption | (bl; reflexivity) | iok].
  rewrite bytes_of_items_cons_u8 by iok.
  match goal with |- context [bytes_of_items [WBool ?a; WBool ?b; WBits 6 ?x]] =>
    change [WBool a; WBool b; WBits 6 x] with ([WBool a; WBool b; WBits 6 x] ++ []) end.
  rewrite byte_of_group by first [assumption | (bl; reflexivity) | iok]. rewrite bytes_of_items_nil.
  rewrite !Z.mod_small by assumption. f_equal. f_equal; [pack; rewrite Z.mod_small by exact Hc; ring|].
  f_equal. f_equal. pack. ring.
Qed.

(* ---- component ---- *)

Lemma write_component v : wf_component v -> bytes_ok (DescriptorComponent_ISO639LanguageCode v) -> bytes_ok (DescriptorComponent_Text v) ->
  bytes_of_items (enc_component v) = ref_component v.
Proof.
  intros (Hext & Hsc & Hty & Htg & H3 & _) Hlang Htext. unfold enc_component, ref_component.
  rewrite wbytesn_3 by exact H3. cbn [app].
  rewrite bytes_of_items_cons_nibbles, !bytes_of_items_cons_u8, bytes_of_items_cons_bytes, bytes_of_single_bytes by (auto; iok).
  rewrite !Z.mod_small by assumption. reflexivity.
Qed.

(* ---- extended event ---- *)

Lemma write_extended_event v : wf_extended_event v -> bytes_ok (DescriptorExtendedEvent_ISO639LanguageCode v) ->
  Forall (fun it => bytes_ok (DescriptorExtendedEventItem_Description it) /\ bytes_ok (DescriptorExtendedEventItem_Content it))
         (DescriptorExtendedEvent_Items v) ->
  bytes_ok (DescriptorExtendedEvent_Text v) ->
  bytes_of_items (enc_extended_event v) = ref_extended_event v.
Proof.
  intros (Hnum & Hlast & H3 & Hl) Hlang Hitems Htext. unfold enc_extended_event, ref_extended_event.
  rewrite calc_extended_event_size. cbn [snd].
  pose proof (sumZ_nonneg size_extended_event_item (DescriptorExtendedEvent_Items v) size_extended_event_item_nonneg) as Hinn.
  pose proof (zlen_nonneg (DescriptorExtendedEvent_Text v)) as Htn.
  assert (Hil : size_extended_event_items v < 256) by (unfold size_extended_event, size_extended_event_items in *; lia).
  assert (Hsmall : Forall (fun it => size_extended_event_item it < 256) (DescriptorExtendedEvent_Items v))
    by (apply sumZ_bound; [exact size_extended_event_item_nonneg|exact Hil]).
  rewrite Z.mod_small by (unfold size_extended_event_items in *; lia).
  rewrite wbytesn_3 by exact H3. cbn [app].
  (* the items *)
  destruct (bytes_of_items_flat_map enc_extended_event_item
              (fun it => [zlen (DescriptorExtendedEventItem_Description it)] ++ DescriptorExtendedEventItem_Description it ++
                         [zlen (DescriptorExtendedEventItem_Content it)] ++ DescriptorExtendedEventItem_Content it)
              size_extended_event_item
              (fun it => (bytes_ok (DescriptorExtendedEventItem_Description it) /\ bytes_ok (DescriptorExtendedEventItem_Content it)) /\
                         size_extended_event_item it < 256)
              (DescriptorExtendedEvent_Items v)) as [Hiok Hib].
  { intros it ((Hd & Hc) & Hs). unfold enc_extended_event_item, size_extended_event_item in *.
    pose proof (zlen_nonneg (DescriptorExtendedEventItem_Description it)). pose proof (zlen_nonneg (DescriptorExtendedEventItem_Content it)).
    split; [iok|]. split; [bl; lia|].
    rewrite bytes_of_items_cons_u8, bytes_of_items_cons_bytes, bytes_of_items_cons_u8, bytes_of_single_bytes by iok.
    unfold blen. fold (zlen (DescriptorExtendedEventItem_Description it)) (zlen (DescriptorExtendedEventItem_Content it)).
    rewrite !Z.mod_small by lia. reflexivity. }
  { apply Forall_and_inv; assumption. }
  assert (Hbl : bitlen (flat_map enc_extended_event_item (DescriptorExtendedEvent_Items v)) = 8 * size_extended_event_items v).
  { unfold size_extended_event_items. rewrite (bitlen_flat_map _ (fun it => 8 * size_extended_event_item it)).
    - apply sumZ_scale.
    - intros it. unfold enc_extended_event_item, size_extended_event_item. bl. lia. }
  assert (Htail : items_bytes_ok [wu8 (blen (DescriptorExtendedEvent_Text v)); WBytes (DescriptorExtendedEvent_Text v)]) by iok.
  rewrite bytes_of_items_cons_nibbles, bytes_of_items_cons_bytes, bytes_of_items_cons_u8 by (auto; iok).
  rewrite (bytes_of_items_app _ _ (size_extended_event_items v)) by assumption.
  rewrite Hib, bytes_of_items_cons_u8, bytes_of_single_bytes by (auto; iok).
  unfold blen. fold (zlen (DescriptorExtendedEvent_Text v)).
  rewrite !Z.mod_small by (unfold size_extended_event, size_extended_event_items in *; lia). reflexivity.
Qed.

(* ---- extension ---- *)

Lemma write_extension v its : wf_extension v -> enc_extension v = Ok its -> items_bytes_ok its ->
  bytes_of_items its = ref_extension v.
Proof.
  intros (_ & Hcase) E Hok. unfold enc_extension, ref_extension, C_DescriptorTagExtensionSupplementaryAudio in *.
  destruct Hcase as [(Etag & Eunk & s & Esa & Hec & Hlang)|(Hr & Hne & Esa & bs & Eunk)].
  - rewrite Etag, Esa in *. cbn [Z.eqb Pos.eqb dneed res_map] in *. inversion E; subst its; clear E.
    apply items_ok_tail in Hok. rewrite bytes_of_items_cons_u8 by exact Hok. f_equal.
    unfold enc_extension_supplementary_audio, ref_supplementary_audio in *.
    match type of Hok with items_bytes_ok (?g ++ ?l) => pose proof Hok as H2; apply items_bytes_ok_app_inv in H2; destruct H2 as [Hg H2];
      rewrite (byte_of_group g l Hg H2) by (bl; reflexivity) end.
    cbn [app]. f_equal; [pack; rewrite Z.mod_small by exact Hec; ring|].
    destruct (DescriptorExtensionSupplementaryAudio_HasLanguageCode s); cbn [wif app] in *.
    + destruct (bytes_of_items_code3 _ _ Hlang H2) as (_ & Hpd & ->). rewrite bytes_of_single_bytes; [reflexivity|].
      apply items_ok_head_bytes in Hpd. exact Hpd.
    + rewrite bytes_of_single_bytes; [reflexivity|]. apply items_ok_head_bytes in H2. exact H2.
  - rewrite Eunk in *. destruct (DescriptorExtension_Tag v =? 6) eqn:E6; [lia|]. inversion E; subst its; clear E.
    rewrite bytes_of_items_cons_u8, Z.mod_small by (try exact Hr; apply items_ok_tail in Hok; exact Hok). f_equal.
    apply bytes_of_single_bytes. apply items_ok_tail in Hok. apply items_ok_head_bytes in Hok. exact Hok.
Qed.

(* ---- maximum bitrate ---- *)

Lemma write_maximum_bitrate v : 0 <= DescriptorMaximumBitrate_Bitrate v / 50 < 2 ^ 22 ->
  bytes_of_items (enc_maximum_bitrate v) = ref_maximum_bitrate v.
Proof.
  intros Hk. unfold enc_maximum_bitrate, ref_maximum_bitrate. set (k := DescriptorMaximumBitrate_Bitrate v / 50) in *.
  rewrite chunks_concat by iok. unfold items_bits. cbn [flat_map item_bits]. rewrite app_nil_r.
  change 22%nat with (6 + 16)%nat. rewrite bits_of_split, app_assoc.
  rewrite bytes_of_bits_8 by (rewrite app_length, !bits_of_length; reflexivity).
  change 16%nat with (8 + 8)%nat. rewrite bytes_of_bits_word, bytes_of_bits_bits_of_8.
  f_equal; try reflexivity. rewrite Z_of_bits_app, !Z_of_bits_of_mod, bits_of_length. closed_consts.
  change (2 ^ 22) with 4194304 in Hk. change (Z.of_nat (8 + 8)) with 16. change (2 ^ 16) with 65536.
  rewrite Z.mod_small by (Z.div_mod_to_equations; lia). ring.
Qed.

(* ---- teletext ---- *)

Lemma write_teletext v : Forall wf_teletext_item (DescriptorTeletext_Items v) ->
  Forall (fun it => bytes_ok (DescriptorTeletextItem_Language it)) (DescriptorTeletext_Items v) ->
  bytes_of_items (enc_teletext v) = ref_teletext v.
Proof.
  intros HF HL. unfold enc_teletext, ref_teletext.
  apply (bytes_of_items_flat_map _ _ (fun _ => 5) (fun it => wf_teletext_item it /\ bytes_ok (DescriptorTeletextItem_Language it)));
    [|apply Forall_and_inv; assumption].
  intros it ((H3 & Ht & Hm & Hp) & Hl). unfold enc_teletext_item. rewrite wbytesn_3 by exact H3. cbn [app].
  split; [iok|]. split; [bl; unfold zlen; rewrite H3; reflexivity|].
  rewrite bytes_of_items_cons_bytes by iok. f_equal.
  match goal with |- bytes_of_items [WBits 5 ?a; WBits 3 ?b; ?c; ?d] = _ => change [WBits 5 a; WBits 3 b; c; d] with ([WBits 5 a; WBits 3 b] ++ [c; d]) end.
  rewrite byte_of_group by first [assumption | (bl; reflexivity) | iok].
  rewrite bytes_of_items_cons_nibbles, bytes_of_items_nil by (try iok; Z.div_mod_to_equations; lia).
  f_equal. pack. rewrite !Z.mod_small by assumption. ring.
Qed.

(* ---- VBI data ---- *)

Lemma write_vbi_lines descs : Forall wf_vbi_line descs ->
  bytes_of_items (flat_map enc_vbi_line descs) =
  map (fun l => 192 + 32 * Z.b2z (DescriptorVBIDataDescriptor_FieldParity l) + DescriptorVBIDataDescriptor_LineOffset l) descs.
Proof.
  intros HF.
  assert (E : forall (f : DescriptorVBIDataDescriptor -> Z) l, map f l = flat_map (fun x => [f x]) l)
    by (intros f l; induction l as [|x l IH]; cbn [map flat_map app]; congruence).
  rewrite E.
  apply (bytes_of_items_flat_map _ _ (fun _ => 1) wf_vbi_line); [|exact HF].
  intros l Hl. unfold wf_vbi_line in Hl. unfold enc_vbi_line. split; [iok|]. split; [bl; reflexivity|].
  match goal with |- bytes_of_items ?g = _ => rewrite <- (app_nil_r g) end.
  rewrite byte_of_group by first [assumption | (bl; reflexivity) | iok]. rewrite bytes_of_items_nil. f_equal. pack.
  rewrite Z.mod_small by exact Hl. ring.
Qed.

Lemma write_vbi_data v : Forall wf_vbi_service (DescriptorVBIData_Services v) ->
  bytes_of_items (enc_vbi_data v) = ref_vbi_data v.
Proof.
  intros HF. unfold enc_vbi_data, ref_vbi_data.
  apply (bytes_of_items_flat_map _ _ size_vbi_data_service wf_vbi_service); [|exact HF].
  intros s (Hid & Hcase). unfold enc_vbi_data_service, size_vbi_data_service. rewrite is_vbi_line_service_spec.
  destruct (spec_is_vbi_line_service (DescriptorVBIDataService_DataServiceID s)).
  - destruct Hcase as [HL Hn]. pose proof (zlen_nonneg (DescriptorVBIDataService_Descriptors s)).
    destruct (vbi_lines_bytes _ HL) as (Lok & Lb & _).
    split; [iok; assumption|]. split; [rewrite bitlen_cons, (bitlen_cons _ (flat_map _ _)), Lb; unfold wu8; bl; lia|].
    rewrite !bytes_of_items_cons_u8 by (try assumption; iok; assumption). rewrite write_vbi_lines by exact HL.
    fold (zlen (DescriptorVBIDataService_Descriptors s)). rewrite !Z.mod_small by (unfold byte_range in *; lia). reflexivity.
  - split; [iok|]. split; [unfold wu8; bl; reflexivity|].
    rewrite !bytes_of_items_cons_u8, bytes_of_items_nil by iok. rewrite Z.mod_small by exact Hid. reflexivity.
Qed.

(* ---- local time offset ---- *)

Lemma ref_bcd_minutes_spec h m : 0 <= h <= 99 -> 0 <= m <= 59 -> ref_bcd_minutes (spec_duration_ns h m 0) = [bcd_byte h; bcd_byte m].
Proof.
  intros Hh Hm. unfold ref_bcd_minutes, spec_duration_ns, tod_seconds, ns_per_second.
  assert (E1 : (h * 3600 + m * 60 + 0) * 1000000000 / 3600000000000 = h) by (Z.div_mod_to_equations; lia).
  assert (E2 : (h * 3600 + m * 60 + 0) * 1000000000 / 60000000000 mod 60 = m) by (Z.div_mod_to_equations; lia).
  rewrite E1, E2. reflexivity.
Qed.

Lemma ref_dvb_time_spec u : dvb_time_range u -> bytes_of_items (enc_dvb_time u) = ref_dvb_time u.
Proof.
  intros Hu. unfold dvb_time_range in Hu. unfold ref_dvb_time.
  set (mjd := u / 86400 + 40587). set (h := u mod 86400 / 3600). set (m := u mod 86400 / 60 mod 60). set (s := u mod 60).
  assert (Hmjd : mjd_lo <= mjd <= mjd_hi) by (unfold mjd_lo, mjd_hi, mjd; Z.div_mod_to_equations; lia).
  assert (Hh : 0 <= h <= 23) by (unfold h; Z.div_mod_to_equations; lia).
  assert (Hm : 0 <= m <= 59) by (unfold m; Z.div_mod_to_equations; lia).
  assert (Hs : 0 <= s <= 59) by (unfold s; Z.div_mod_to_equations; lia).
  assert (Eu : u = spec_unix mjd h m s).
  { rewrite spec_unix_eq by exact Hmjd. unfold tod_seconds, mjd, h, m, s. Z.div_mod_to_equations; lia. }
  destruct (encode_joint mjd h m s Hmjd Hh Hm Hs) as [E _]. rewrite <- Eu in E. exact E.
Qed.

Lemma write_local_time_offset v : Forall wf_local_time_offset_item (DescriptorLocalTimeOffset_Items v) ->
  Forall (fun it => bytes_ok (DescriptorLocalTimeOffsetItem_CountryCode it)) (DescriptorLocalTimeOffset_Items v) ->
  bytes_of_items (enc_local_time_offset v) = ref_local_time_offset v.
Proof.
  intros HF HL. unfold enc_local_time_offset, ref_local_time_offset.
  apply (bytes_of_items_flat_map _ _ (fun _ => 13)
           (fun it => wf_local_time_offset_item it /\ bytes_ok (DescriptorLocalTimeOffsetItem_CountryCode it)));
    [|apply Forall_and_inv; assumption].
  intros it ((H3 & Hreg & (h1 & m1 & Hh1 & Hm1 & E1) & Htoc & (h2 & m2 & Hh2 & Hm2 & E2)) & Hcc).
  unfold enc_local_time_offset_item.
  assert (Ok1 : forall ns, items_bytes_ok (enc_dvb_duration_minutes ns)) by (intros ns; unfold enc_dvb_duration_minutes; iok).
  assert (Ok2 : forall u, items_bytes_ok (enc_dvb_time u)).
  { intros u. unfold enc_dvb_time, enc_dvb_duration_seconds. destruct (go_civil_of_days (u / 86400)) as [[y mo] d]. iok. }
  split; [rewrite wbytesn_3 by exact H3; iok; auto|].
  split; [bl; rewrite !bitlen_enc_dvb_duration_minutes, bitlen_enc_dvb_time; reflexivity|].
  rewrite wbytesn_3 by exact H3. cbn [app].
  rewrite bytes_of_items_cons_bytes by (auto; iok; auto). f_equal.
  match goal with |- bytes_of_items (WBits 6 ?a :: WBits 1 ?b :: WBool ?c :: ?l) = _ =>
    change (WBits 6 a :: WBits 1 b :: WBool c :: l) with ([WBits 6 a; WBits 1 b; WBool c] ++ l) end.
  rewrite byte_of_group by first [(bl; reflexivity) | (iok; auto)].
  rewrite (bytes_of_items_app _ _ 2) by (auto; try apply bitlen_enc_dvb_duration_minutes; iok; auto).
  rewrite (bytes_of_items_app _ _ 5) by (auto; apply bitlen_enc_dvb_time).
  rewrite E1, E2. destruct (minutes_value h1 m1 Hh1 Hm1) as [-> _]. destruct (minutes_value h2 m2 Hh2 Hm2) as [-> _].
  rewrite !ref_bcd_minutes_spec by assumption. rewrite ref_dvb_time_spec by exact Htoc.
  cbn [app]. f_equal. pack. rewrite Z.mod_small by exact Hreg. ring.
Qed.
