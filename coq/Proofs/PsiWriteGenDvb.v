(* The DVB time / duration WRITERS of Model/Dvb.v ARE what go/gen/psiwritegen.go regenerates from the current /repo/dvb.go
   (Gen/PsiWriteGen.v, section DvbWriters) AROUND their float core: the float64 / package-time expressions are Section
   Variables of the generated functions (uint8(d.Hours()), int(d.Minutes()), int(d.Seconds()), t.Year(), t.Month(),
   t.Day(), int(float64(e) * literal), t.Sub(t.Truncate(24h))) and stay behind the C15 boundary: they are instantiated
   with the integer functions of Model/DvbDate.v, which C15 proves equal to the binary64 expressions.  Everything around
   them is regenerated and compared here: the MJD sum with its February correction, `% 60`, the uint8 / uint16
   conversions, the BCD bytes, the order of the writes and the counts 2 / 3 / 5. *)
From Coq Require Import ZArith List Lia Bool ZifyBool.
Require Import Base.Bits Base.Iter Base.Wr Gen.Consts Gen.Types Gen.Preds Gen.MuxGen Gen.WriteGen Gen.PsiWriteGen
  Model.DvbDate Model.Dvb Proofs.WriteGenBase Proofs.PsiWriteGenBase Proofs.PsiWriteGenPsi.
Import ListNotations.
Open Scope Z_scope.

(* the integer reading of the float / package-time expressions (Model/DvbDate.v) *)
Definition i_hours_u8 (d : Z) : Z := dur_hours d.
Definition i_minutes_int (d : Z) : Z := Z.quot d ns_minute.
Definition i_seconds_int (d : Z) : Z := Z.quot d ns_second.
Definition i_year (t : Z) : Z := fst (fst (go_civil_of_days (t / 86400))).
Definition i_month (t : Z) : Z := snd (fst (go_civil_of_days (t / 86400))).
Definition i_day (t : Z) : Z := snd (go_civil_of_days (t / 86400)).
Definition i_mul_trunc (x num den : Z) : Z := Z.quot (x * num) den.
(* t in Unix seconds, the result a time.Duration in nanoseconds; u = 24h *)
Definition i_since_truncate (t u : Z) : Z := (t mod (u / ns_second)) * ns_second.

Definition gwriteDVBDurationMinutes := writeDVBDurationMinutes i_hours_u8 i_minutes_int.
Definition gwriteDVBDurationSeconds := writeDVBDurationSeconds i_hours_u8 i_minutes_int i_seconds_int.
Definition gwriteDVBTime :=
  writeDVBTime i_hours_u8 i_minutes_int i_seconds_int i_year i_month i_day i_mul_trunc i_since_truncate.

Ltac dfinish :=
  unfold wfn_sim; cbn [res_map wf_sim]; unfold wf_ok; cbn [fst snd]; rewrite ?app_nil_r;
  split; [reflexivity|]; split; [ unfold wu8, wu16; apply ieq_map_nsnd; wieq | wnd ].

Lemma writeDVBDurationMinutes_is_model d :
  wfn_sim (gwriteDVBDurationMinutes d) (Ok (enc_dvb_duration_minutes d)) 2.
Proof.
  unfold gwriteDVBDurationMinutes, writeDVBDurationMinutes, enc_dvb_duration_minutes, dur_minutes,
    i_hours_u8, i_minutes_int. wsimpl. dfinish.
Qed.

Lemma writeDVBDurationSeconds_is_model d :
  wfn_sim (gwriteDVBDurationSeconds d) (Ok (enc_dvb_duration_seconds d)) 3.
Proof.
  unfold gwriteDVBDurationSeconds, writeDVBDurationSeconds, enc_dvb_duration_seconds, dur_minutes, dur_seconds,
    i_hours_u8, i_minutes_int, i_seconds_int. wsimpl. dfinish.
Qed.

Lemma writeDVBTime_is_model t : wfn_sim (gwriteDVBTime t) (Ok (enc_dvb_time t)) 5.
Proof.
  unfold gwriteDVBTime, writeDVBTime, enc_dvb_time, i_year, i_month, i_day, i_mul_trunc, i_since_truncate.
  fold gwriteDVBDurationSeconds.
  change (24 * 3600000000000 / ns_second) with 86400.
  destruct (go_civil_of_days (t / 86400)) as [[y m] d]. cbn [fst snd].
  unfold dvb_mjd_of_ymd.
  destruct (m <=? 2); wsimpl;
    (wfn_call_ok (writeDVBDurationSeconds_is_model (t mod 86400 * ns_second));
     unfold wfn_sim; cbn [res_map wf_sim]; unfold wf_ok; cbn [fst snd]; rewrite ?app_nil_r;
     split; [reflexivity|]; split;
     [ unfold wu16; apply ieq_map_nsnd; cbn [app]; apply ieq_cons; [|assumption];
       cbn [nsnd norm snd]; f_equal; f_equal; f_equal; ring
     | wnd ]).
Qed.
