(* The hand-written pool model (Model/Pool.v) IS what go/gen/stateful.go regenerates from the current
   /repo/packet_pool.go (Gen/PoolGen.v).

   Every theorem of C02 / C06 / C07 (and C01 through them) talks about acc_add, pool_add, pool_dump. The lemmas
   below identify those three with the definitions translated from the source on every run, so a change to the
   BODY of packetAccumulator.add, packetPool.addUnlocked or packetPool.dumpUnlocked changes Gen/PoolGen.v, one
   of these proofs stops checking, and the check names it — without a generated case having to hit the change.

   How the generated definitions are instantiated:
     isPSIComplete     := is_psi_complete (Model/Pool.v; isPSIComplete of data.go stays hand-modelled and is tied
                          by correspondence)
     b.programMap      := Some (pm_mem pm): the pool's program map is never nil in a Demuxer
                          (NewDemuxer builds it), and its membership test is the one isPSIPayload takes
     the map b.b       := the model's sorted association list `pool`; the entry for PID k is the accumulator
                          {pid := k; programMap := that of the pool; q := the queue}: this is the invariant of
                          addUnlocked, which is the only place accumulators are created
                          (newPacketAccumulator(p.Header.PID, b.programMap) stored under uint32(p.Header.PID))
     map_get / map_set := pool_lookup / pool_set on that list, map_delete := removal of the entry,
     map_keys_sorted   := the keys in list order, which is increasing for a sorted pool (gen_keys_increasing) *)
From Coq Require Import ZArith List Lia Bool ZifyBool.
Require Import Base.Bits Base.Iter Gen.Consts Gen.Types Gen.Preds Gen.PoolGen Model.Pool Proofs.PoolProofs.
Import ListNotations.
Open Scope Z_scope.

(* ---- packetAccumulator.add ---- *)

(* case analysis on every boolean test either side performs; each case must then be the same pair *)
Ltac pool_atom :=
  match goal with
  | |- context [isSameAsPrevious ?a ?b] => destruct (isSameAsPrevious a b)
  | |- context [hasDiscontinuity ?a ?b] => destruct (hasDiscontinuity a b)
  | |- context [hasCounterDiscontinuity ?a ?b] => destruct (hasCounterDiscontinuity a b)
  | |- context [PacketHeader_PayloadUnitStartIndicator ?a] => destruct (PacketHeader_PayloadUnitStartIndicator a)
  | |- context [Z.eqb ?a ?b] => destruct (Z.eqb_spec a b)
  | |- context [pm_mem ?a ?b] => destruct (pm_mem a b)
  | |- context [is_psi_complete ?l] => destruct (is_psi_complete l)
  end.
Ltac pool_cases := repeat (cbn [andb orb negb app]; pool_atom); cbn [andb orb negb app];
  try (exfalso; congruence); reflexivity.

Lemma acc_add_is_generated pm pid q p :
  acc_add pm pid q p = packetAccumulator_add is_psi_complete pid (Some (pm_mem pm)) q p.
Proof. unfold acc_add, packetAccumulator_add, resets, pusi. pool_cases. Qed.

(* a nil program map (a pool built outside a Demuxer, as the unit tests do): nothing is ever flushed early,
   whatever the PID — the accumulator behaves as on a PID that is neither the PAT's nor a registered PMT's *)
Lemma generated_add_nil_map pid q p :
  packetAccumulator_add is_psi_complete pid None q p = acc_add [] 8191 q p.
Proof.
  unfold acc_add, packetAccumulator_add, resets, pusi. cbn [pm_mem existsb orb andb].
  change (8191 =? C_PIDPAT) with false. pool_cases.
Qed.

(* ---- the map of accumulators as the model's association list ---- *)

Definition gen_acc (pm : pmap) (k : Z) (q : queue) : packetAccumulator :=
  {| packetAccumulator_pid := k; packetAccumulator_programMap := Some (pm_mem pm); packetAccumulator_q := q |}.

Definition gen_get (pm : pmap) (pl : pool) (k : Z) : option packetAccumulator :=
  match pool_lookup pl k with Some q => Some (gen_acc pm k q) | None => None end.

Definition gen_set (pl : pool) (k : Z) (a : packetAccumulator) : pool := pool_set pl k (packetAccumulator_q a).

Fixpoint gen_delete (pl : pool) (k : Z) : pool :=
  match pl with
  | [] => []
  | (k', q) :: r => if k' =? k then r else (k', q) :: gen_delete r k
  end.

Definition gen_keys (pl : pool) : list Z := map fst pl.

(* the operations are those of a finite map on sorted pools *)
Lemma gen_get_set_same pm pl k a : packetAccumulator_pid a = k -> packetAccumulator_programMap a = Some (pm_mem pm) ->
  gen_get pm (gen_set pl k a) k = Some a.
Proof.
  intros H1 H2. unfold gen_get, gen_set. rewrite pool_lookup_set_same. destruct a; simpl in *. subst. reflexivity.
Qed.

Lemma gen_get_set_other pm pl k a x : x <> k -> gen_get pm (gen_set pl k a) x = gen_get pm pl x.
Proof. intros H. unfold gen_get, gen_set. rewrite pool_lookup_set_other by assumption. reflexivity. Qed.

Lemma gen_get_delete_same pm pl k : sorted pl -> gen_get pm (gen_delete pl k) k = None.
Proof.
  unfold gen_get. intros S.
  assert (H : pool_lookup (gen_delete pl k) k = None); [|rewrite H; reflexivity].
  induction pl as [|[a q] r IH]; simpl; [reflexivity|].
  destruct (a =? k) eqn:E.
  - apply (keys_above_lookup a); [exact S|lia].
  - simpl. rewrite E. apply IH. destruct r as [|[b q'] r']; simpl in *; [exact I|apply S].
Qed.

Lemma gen_get_delete_other pm pl k x : x <> k -> gen_get pm (gen_delete pl k) x = gen_get pm pl x.
Proof.
  intros N. unfold gen_get.
  assert (H : pool_lookup (gen_delete pl k) x = pool_lookup pl x); [|rewrite H; reflexivity].
  induction pl as [|[a q] r IH]; simpl; [reflexivity|].
  destruct (a =? k) eqn:E.
  - destruct (a =? x) eqn:E2; [lia|reflexivity].
  - simpl. rewrite IH. reflexivity.
Qed.

Fixpoint increasing (l : list Z) : Prop :=
  match l with
  | [] => True
  | a :: r => match r with [] => True | b :: _ => a < b end /\ increasing r
  end.

Lemma gen_keys_increasing pl : sorted pl -> increasing (gen_keys pl).
Proof.
  destruct pl as [|[a q] r]; simpl; [auto|]. revert a q.
  induction r as [|[b q'] r IH]; simpl; intros a q H; [auto|].
  destruct H as [H1 H2]. split; [exact H1|]. apply (IH b q'). exact H2.
Qed.

Lemma gen_keys_complete pm pl k : In k (gen_keys pl) <-> gen_get pm pl k <> None.
Proof.
  unfold gen_get, gen_keys. induction pl as [|[a q] r IH]; simpl.
  - split; [tauto|intros H; apply H; reflexivity].
  - destruct (a =? k) eqn:E.
    + split; [discriminate|intros _; left; lia].
    + rewrite <- IH. split; [intros [H|H]; [lia|exact H]|tauto].
Qed.

(* ---- packetPool.addUnlocked ---- *)

Lemma pool_add_is_generated pm pl p :
  pool_add pm pl p = packetPool_addUnlocked (gen_get pm) gen_set is_psi_complete pl (Some (pm_mem pm)) p.
Proof.
  unfold pool_add, packetPool_addUnlocked, tei, has_payload, pid_of, gen_get, gen_set, newPacketAccumulator, gen_acc.
  destruct (PacketHeader_TransportErrorIndicator (Packet_Header p)); [reflexivity|].
  destruct (PacketHeader_HasPayload (Packet_Header p)); cbn [negb]; [|reflexivity].
  destruct (pool_lookup pl (PacketHeader_PID (Packet_Header p))) as [q|];
    cbn [packetAccumulator_pid packetAccumulator_programMap packetAccumulator_q];
    rewrite <- acc_add_is_generated;
    destruct (acc_add pm (PacketHeader_PID (Packet_Header p)) _ p) as [q' ps];
    cbn [packetAccumulator_q]; [reflexivity|].
  rewrite pool_set_set. reflexivity.
Qed.

(* ---- packetPool.dumpUnlocked ---- *)

Definition keys_in_range (pl : pool) : Prop := Forall (fun e => 0 <= fst e < 4294967296) pl.

Lemma gen_get_head pm a q r : gen_get pm ((a, q) :: r) a = Some (gen_acc pm a q).
Proof. unfold gen_get. cbn [pool_lookup]. rewrite Z.eqb_refl. reflexivity. Qed.

Lemma gen_delete_head a q r : gen_delete ((a, q) :: r) a = r.
Proof. cbn [gen_delete]. rewrite Z.eqb_refl. reflexivity. Qed.

Lemma dump_loop_is_generated pm bpm pl : keys_in_range pl -> forall ks0 ps0, ps0 = [] ->
  packetPool_dumpUnlocked_loop1 (gen_get pm) gen_delete gen_keys (gen_keys pl) pl bpm ps0 ks0 = pool_dump pl.
Proof.
  induction pl as [|[a q] r IH]; intros R ks0 ps0 ->; [reflexivity|].
  inversion R as [|? ? Ra Rr]; subst. simpl in Ra.
  cbn [gen_keys map fst packetPool_dumpUnlocked_loop1 pool_dump].
  rewrite (Z.mod_small a) by lia.
  rewrite gen_get_head, gen_delete_head.
  cbn [odflt gen_acc packetAccumulator_q].
  destruct q as [|x q'].
  - (* an empty queue: the test on its length is false, the loop goes on *)
    match goal with |- context [if ?c then _ else _] => let v := eval vm_compute in c in change c with v end.
    cbv iota. apply (IH Rr). reflexivity.
  - match goal with |- context [if ?c then _ else _] => replace c with true by (cbn [length]; lia) end.
    reflexivity.
Qed.

Lemma pool_dump_is_generated pm bpm pl : keys_in_range pl ->
  pool_dump pl = packetPool_dumpUnlocked (gen_get pm) gen_delete gen_keys pl bpm.
Proof.
  intros R. unfold packetPool_dumpUnlocked. symmetry. apply dump_loop_is_generated; [exact R|reflexivity].
Qed.

(* the range hypothesis holds for every pool the demuxer can build: keys are PIDs of parsed packets, the model's
   packets carry their PID as read from 13 bits; here: whatever is added keeps keys that are PIDs of the packets *)
Lemma pool_set_keys_in_range pl k q : keys_in_range pl -> 0 <= k < 4294967296 -> keys_in_range (pool_set pl k q).
Proof.
  unfold keys_in_range. induction pl as [|[a q0] r IH]; simpl; intros H Hk.
  - constructor; [exact Hk|constructor].
  - inversion H as [|? ? Ha Hr]; subst. destruct (a =? k); [constructor; assumption|].
    destruct (k <? a); [constructor; [exact Hk|exact H]|].
    constructor; [exact Ha|apply IH; assumption].
Qed.

Lemma pool_add_keys_in_range pm pl p : keys_in_range pl -> 0 <= pid_of p < 4294967296 ->
  keys_in_range (fst (pool_add pm pl p)).
Proof.
  intros H Hp. unfold pool_add. destruct (tei p); [exact H|]. destruct (negb (has_payload p)); [exact H|].
  destruct (acc_add pm (pid_of p) _ p) as [q' ps]. simpl. apply pool_set_keys_in_range; assumption.
Qed.

Lemma pool_dump_keys_in_range pl : keys_in_range pl -> keys_in_range (fst (pool_dump pl)).
Proof.
  unfold keys_in_range. induction pl as [|[a q] r IH]; simpl; intros H; [constructor|].
  inversion H; subst. destruct q; [apply IH; assumption|assumption].
Qed.

Lemma keys_in_range_preserved pm pl p : keys_in_range pl -> 0 <= pid_of p < 4294967296 ->
  keys_in_range (fst (pool_add pm pl p)) /\ keys_in_range (fst (pool_dump pl)).
Proof.
  intros H Hp. split; [apply pool_add_keys_in_range; assumption|apply pool_dump_keys_in_range; assumption].
Qed.

(* the association list behaves as the Go map *)
Lemma map_model pm pl k a x :
  (packetAccumulator_pid a = k -> packetAccumulator_programMap a = Some (pm_mem pm) ->
   gen_get pm (gen_set pl k a) k = Some a) /\
  (x <> k -> gen_get pm (gen_set pl k a) x = gen_get pm pl x) /\
  (sorted pl -> gen_get pm (gen_delete pl k) k = None) /\
  (x <> k -> gen_get pm (gen_delete pl k) x = gen_get pm pl x) /\
  (sorted pl -> increasing (gen_keys pl)) /\
  (In k (gen_keys pl) <-> gen_get pm pl k <> None).
Proof.
  repeat split.
  - apply gen_get_set_same.
  - apply gen_get_set_other.
  - apply gen_get_delete_same.
  - apply gen_get_delete_other.
  - apply gen_keys_increasing.
  - apply (proj1 (gen_keys_complete pm pl k)).
  - apply (proj2 (gen_keys_complete pm pl k)).
Qed.
