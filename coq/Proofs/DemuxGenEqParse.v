(* parseData (data.go) as regenerated from the current source (Gen/DemuxGen.v, Section ParseData) IS parse_data of
   Model/Demux.v: the custom PacketsParser first (its error wrapped, its skip flag ending the call), then the payload
   rebuilt from ALL packets of the group (length loop, bytesPool.get, copy loop), the PID and headers of the first
   packet, and the dispatch: CAT -> nothing, a PSI PID (isPSIPayload against the program map) -> parsePSIData + toData,
   a PES start code -> parsePESData + one DemuxerData, else nothing.  The unit parsers are abstract operations,
   instantiated by arbitrary psi_parse / to_data / pes_parse, which are exactly what the model's dparsers record is
   built from (Model/DemuxFull.v's full_parsers has this shape).  An early return before the payload is rebuilt, a
   dispatch on the first packet's payload only, a changed order of the tests: each changes Gen/DemuxGen.v and this
   proof stops checking.

   One scoping the proof forced: the model reports a failing PacketsParser as the generic error whatever the error
   wraps (parse_data: Err _ => Err E_generic), the code wraps it with %w; the statement is for parsers whose errors
   carry the generic code (as the harness's do). *)
From Coq Require Import ZArith List Lia Bool String.
Require Import Base.Bits Base.Iter Gen.Consts Gen.Types Gen.Preds Gen.DemuxGen
  Model.Packet Model.Pool Model.Reader Model.Demux Proofs.DemuxGenEq.
Import ListNotations.
Open Scope Z_scope.

Section Parse.
Variable W : Type.
Variable get : W -> Z -> outcome (list Z * W).
Hypothesis get_length : forall w n, 0 <= n -> exists bs w', get w n = Done (bs, w') /\ Z.of_nat (List.length bs) = n.
Variable err_of : Z -> gerr.
Hypothesis err_of_code : forall c, code_x (err_of c) = norm c.
Variable psi_parse : list Z -> res PSIData.
Variable to_data : PSIData -> Packet -> Z -> list DemuxerData.
Variable pes_parse : list Z -> res PESData.

Definition parsers_of : dparsers :=
  mk_dparsers (fun payload fp pid => res_map (fun d => to_data d fp pid) (psi_parse payload)) pes_parse.

(* the unit parsers read the whole payload through a fresh iterator *)
Definition psi_m (w : W) (i : iter) : outcome (iter * option PSIData * option gerr * W) :=
  match psi_parse (ibs i) with
  | Ok d => Done (i, Some d, None, w)
  | Err c => Done (i, None, Some (err_of c), w)
  | Panic => Panicked
  end.
Definition pes_m (w : W) (i : iter) : outcome (iter * option PESData * option gerr * W) :=
  match pes_parse (ibs i) with
  | Ok d => Done (i, Some d, None, w)
  | Err c => Done (i, None, Some (err_of c), w)
  | Panic => Panicked
  end.
Definition to_data_m (w : W) (d : PSIData) (fp : option Packet) (pid : Z) : outcome (list DemuxerData * W) :=
  match fp with Some fp => Done (to_data d fp pid, w) | None => Panicked end.

Definition parse_data_is_generated_subject (ps : list Packet) (gprs : option go_parser) (pm : pmap) (w : W) :=
  parseData W get psi_m to_data_m pes_m ps gprs (pm_mem pm) w.

Definition generic_errors (gprs : option go_parser) : Prop :=
  forall g ps ds sk e, gprs = Some g -> g ps = Done (ds, sk, Some e) -> code_x e = E_generic.

Definition pd_rel (o : outcome (list DemuxerData * option gerr * W)) (r : res (list DemuxerData)) : Prop :=
  match o with
  | Done (ds, None, _) => r = Ok ds
  | Done (_, Some e, _) => exists c, r = Err c /\ code_x e = norm c
  | Panicked => r = Panic
  | OutOfFuel => r = Panic   (* only a PacketsParser can run out of fuel: the model has no such outcome for it *)
  end.


(* the part after the custom parser: payload rebuilt, then the dispatch *)
Ltac default_path ps pm w get_length err_of_code :=
  let Hs := fresh "Hs" in let Hc := fresh "Hc" in
  pose proof (sum_loop ps 0) as Hs; rew_ofold Hs; clear Hs; cbn [obind]; rewrite Z.add_0_l;
  let buf := fresh "buf" in let w' := fresh "w'" in let Hget := fresh "Hget" in let Hlen := fresh "Hlen" in
  destruct (get_length w (Z.of_nat (List.length (concat_payload ps))) ltac:(lia)) as (buf & w' & Hget & Hlen);
  rewrite Hget; cbn [obind];
  pose proof (copy_loop ps [] buf ltac:(cbn [List.length Nat.add]; lia) eq_refl) as Hc;
  change (Z.of_nat (@List.length Z [])) with 0 in Hc; rew_ofold Hc; clear Hc;
  cbn [obind app List.length Nat.add];
  let p0 := fresh "p0" in let rest := fresh "rest" in
  destruct ps as [|p0 rest]; [reflexivity|];
  replace (0 <? Z.of_nat (List.length (p0 :: rest))) with true by (cbn [List.length]; lia);
  cbn [nth Z.to_nat]; unfold pid_of; cbv zeta;
  destruct (PacketHeader_PID (Packet_Header p0) =? C_PIDCAT); [reflexivity|];
  destruct (isPSIPayload (PacketHeader_PID (Packet_Header p0)) (pm_mem pm));
  [ unfold psi_m, parsers_of; cbn [dp_psi new_iter ibs];
    destruct (psi_parse (concat_payload (p0 :: rest))) as [?d|?c|];
    cbn [obind is_some res_map to_data_m pd_rel ewrap]; [reflexivity| |reflexivity];
    eexists; rewrite code_x_wrap, err_of_code; split; reflexivity
  | destruct (isPESPayload (concat_payload (p0 :: rest))); [|reflexivity];
    unfold pes_m, parsers_of; cbn [dp_pes new_iter ibs];
    destruct (pes_parse (concat_payload (p0 :: rest))) as [?d|?c|];
    cbn [obind is_some res_map pd_rel ewrap]; [reflexivity| |reflexivity];
    eexists; rewrite code_x_wrap, err_of_code; split; reflexivity ].

Theorem parse_data_is_generated ps gprs pm w : generic_errors gprs ->
  pd_rel (parse_data_is_generated_subject ps gprs pm w) (parse_data parsers_of (option_map unembed_parser gprs) pm ps).
Proof.
  intros Hgen. unfold parse_data_is_generated_subject, parseData, parse_data.
  destruct gprs as [g|]; cbn [is_some option_map].
  - unfold unembed_parser. specialize (Hgen g ps).
    destruct (g ps) as [[[ds sk] [e|]]| |]; cbn [obind is_some pd_rel ewrap]; [| |reflexivity|reflexivity].
    + exists E_generic. rewrite code_x_wrap. rewrite (Hgen ds sk e eq_refl eq_refl). split; reflexivity.
    + destruct sk; [reflexivity|]. default_path ps pm w get_length err_of_code.
  - default_path ps pm w get_length err_of_code.
Qed.

End Parse.
