(* clock_reference.go as regenerated (Gen/RestGen.v): ClockReference.Duration and Time with every int64 /
   time.Duration operation under an explicit two's complement wrap (sint_wrap 64).  Inside the property's range (33-bit
   base, 9-bit extension) no wrap happens and the regenerated expression IS cr_duration of Model/Clock.v — which is
   the re-checkable form of "every int64 intermediate stays below 2^63" in C12_duration: a larger multiplier, a
   smaller divisor or a changed constant in the source makes an intermediate leave the int64 range or the value differ
   and breaks this proof.  Outside the range the wrap is real (duration_wraps). *)
From Coq Require Import ZArith Lia.
Require Import Gen.Types Gen.RestGen Model.Clock.
Open Scope Z_scope.

Lemma sint_wrap_small z : - 2 ^ 63 <= z < 2 ^ 63 -> sint_wrap 64 z = z.
Proof.
  intro H. unfold sint_wrap. change (64 - 1) with 63.
  rewrite Z.mod_small; [lia|]. change (2 ^ 64) with (2 * 2 ^ 63). lia.
Qed.

Lemma quot_bounds a b : 0 <= a -> 0 < b -> 0 <= Z.quot a b <= a.
Proof.
  intros Ha Hb. rewrite Z.quot_div_nonneg by lia. split; [apply Z.div_pos; lia|].
  apply Z.div_le_upper_bound; nia.
Qed.

Lemma duration_is_generated base ext : 0 <= base < 2 ^ 33 -> 0 <= ext < 2 ^ 9 ->
  ClockReference_Duration (mk_cr base ext) = cr_duration (mk_cr base ext) /\
  ClockReference_Time (mk_cr base ext) = (0, cr_duration (mk_cr base ext)).
Proof.
  intros Hb He.
  assert (G : ClockReference_Duration (mk_cr base ext) = cr_duration (mk_cr base ext)).
  { unfold ClockReference_Duration, cr_duration, mk_cr.
    cbn [ClockReference_Base ClockReference_Extension].
    change (2 ^ 33) with 8589934592 in Hb. change (2 ^ 9) with 512 in He.
    assert (B1 : 0 <= base * 1000000000 < 2 ^ 63) by (change (2 ^ 63) with 9223372036854775808; lia).
    assert (B2 : 0 <= ext * 1000000000 < 2 ^ 63) by (change (2 ^ 63) with 9223372036854775808; lia).
    rewrite (sint_wrap_small (base * 1000000000)) by lia.
    rewrite (sint_wrap_small (ext * 1000000000)) by lia.
    pose proof (quot_bounds (base * 1000000000) 90000 ltac:(lia) ltac:(lia)) as Q1.
    pose proof (quot_bounds (ext * 1000000000) 27000000 ltac:(lia) ltac:(lia)) as Q2.
    rewrite (sint_wrap_small (Z.quot (base * 1000000000) 90000)) by lia.
    rewrite (sint_wrap_small (Z.quot (ext * 1000000000) 27000000)) by lia.
    apply sint_wrap_small. change (2 ^ 63) with 9223372036854775808 in *. lia. }
  split; [exact G|]. unfold ClockReference_Time. rewrite G. reflexivity.
Qed.

(* the largest values of the range, and a base outside it for which the int64 product really wraps *)
Example duration_is_generated_example :
  ClockReference_Duration (mk_cr (2 ^ 33 - 1) 511) = 95443717696702 /\
  cr_duration (mk_cr (2 ^ 33 - 1) 511) = 95443717696702.
Proof. vm_compute. split; reflexivity. Qed.

Example duration_wraps : ClockReference_Duration (mk_cr (2 ^ 34) 0) <> cr_duration (mk_cr (2 ^ 34) 0).
Proof. vm_compute. discriminate. Qed.
