(* Lemmas for property C11, part 1: the packet header and the adaptation field are read back from what the
   writer emits, for all well-formed values (flags kept symbolic, one lemma per optional part).
   The iterator-stepping lemmas (located, aligned, next_byte_located, ...) are those of Proofs/PesRoundTrip.v. *)
From Coq Require Import ZArith List Lia Bool ZifyBool.
Require Import Base.Bits Base.Iter Base.Wr Gen.Consts Gen.Types Gen.Preds Model.Clock Model.Packet
  Spec.PesSpec Spec.PacketSpec Proofs.ClockProofs Proofs.PesRoundTrip.
Import ListNotations.
Open Scope Z_scope.

(* ---------------- generic ---------------- *)

(* a field that lies inside a prefix does not depend on what follows *)
Lemma field_prefix (a r : list bool) off w : (off + w <= length a)%nat ->
  field (a ++ r) off w = field a off w.
Proof.
  intros H. unfold field. rewrite skipn_app, firstn_app.
  rewrite skipn_length. replace (w - (length a - off))%nat with 0%nat by lia.
  rewrite firstn_O, app_nil_r. reflexivity.
Qed.

Lemma located_head bs k b r : located bs k (b :: r) -> located bs k [b].
Proof. intros H. change (b :: r) with ([b] ++ r) in H. apply located_app in H. apply H. Qed.

(* ---------------- the packet header ---------------- *)

Lemma header_aligned h : aligned (enc_packet_header h) 3.
Proof. split; [reflexivity | items_ok]. Qed.

Lemma header_located h bs k : wf_packet_header h ->
  located bs k (bytes_of_items (enc_packet_header h)) ->
  parse_packet_header (mk_iter bs k) = Ok (h, mk_iter bs (k + 3)).
Proof.
  intros [Hp Ht Hc] Hl.
  destruct (aligned_bytes _ _ (header_aligned h)) as [Hlen Hbits].
  unfold parse_packet_header, next_bytes_nocopy.
  erewrite ibind_ok by (apply (next_bytes_located bs k _ 3); [rewrite Hlen; reflexivity | exact Hl]).
  unfold iret, bitb, bitsf. rewrite Hbits. unfold enc_packet_header.
  cbn [items_bits flat_map item_bits app].
  fld. destruct h; reflexivity.
Qed.

Theorem header_roundtrip h rest : wf_packet_header h ->
  parse_packet_header (new_iter (bytes_of_items (enc_packet_header h) ++ rest)) =
  Ok (h, mk_iter (bytes_of_items (enc_packet_header h) ++ rest) 3).
Proof.
  intros W. apply (header_located h _ 0 W). apply located_self_prefix.
Qed.

(* ---------------- PCR / OPCR at an arbitrary offset ---------------- *)

Lemma enc_pcr_aligned c : aligned (enc_pcr c) 6.
Proof. split; [reflexivity | items_ok]. Qed.

Lemma pcr_located bs k base ext : 0 <= base < 2 ^ 33 -> 0 <= ext < 2 ^ 9 ->
  located bs k (bytes_of_items (enc_pcr (mk_cr base ext))) ->
  parse_pcr (mk_iter bs k) = Ok (mk_cr base ext, mk_iter bs (k + 6)).
Proof.
  intros Hb He Hl. pose proof (pcr_roundtrip base ext [] Hb He) as R.
  destruct (aligned_bytes _ _ (enc_pcr_aligned (mk_cr base ext))) as [Hlen _].
  unfold parse_pcr, ibind, next_bytes_nocopy in *.
  rewrite next_bytes_app in R by (rewrite Hlen; reflexivity).
  rewrite (next_bytes_located bs k _ 6 ltac:(rewrite Hlen; reflexivity) Hl).
  unfold iret in *. apply PesRoundTrip.ok_pair_inj in R. rewrite R. reflexivity.
Qed.

Definition pcr_items (flag : bool) (o : option ClockReference) : list witem :=
  if flag then enc_pcr (odflt zero_ClockReference o) else [].
Definition pcr_len (flag : bool) : Z := if flag then 6 else 0.

Lemma pcr_items_aligned flag o : aligned (pcr_items flag o) (Z.to_nat (pcr_len flag)).
Proof. destruct flag; [apply enc_pcr_aligned | apply aligned_nil]. Qed.

Lemma enc_pcr_opt_ok (flag : bool) o : (if flag then wf_pcr o else o = None) ->
  (if flag then res_map (fun c => (enc_pcr c, C_pcrBytesSize)) (need o) else Ok ([], 0)) =
  Ok (pcr_items flag o, pcr_len flag).
Proof.
  destruct flag; [|reflexivity]. intros (b & e & _ & _ & ->). reflexivity.
Qed.

Lemma pcr_piece (flag : bool) o bs k : (if flag then wf_pcr o else o = None) ->
  located bs k (bytes_of_items (pcr_items flag o)) ->
  (if flag then c <- parse_pcr ;; iret (Some c) else iret None) (mk_iter bs k) =
  Ok (o, mk_iter bs (k + pcr_len flag)).
Proof.
  unfold pcr_items, pcr_len. destruct flag; intros P Hl.
  - destruct P as (b & e & Hb & He & ->). cbn [odflt] in Hl. unfold cr in *.
    erewrite ibind_ok by (apply (pcr_located bs k b e Hb He Hl)). reflexivity.
  - rewrite P. unfold iret. do 3 f_equal. lia.
Qed.

(* ---------------- splice_countdown ---------------- *)

Definition sc_items (flag : bool) (v : Z) : list witem := if flag then [wu8 v] else [].
Definition sc_len (flag : bool) : Z := if flag then 1 else 0.

Lemma sc_items_aligned flag v : aligned (sc_items flag v) (Z.to_nat (sc_len flag)).
Proof. destruct flag; [apply wu8_aligned | apply aligned_nil]. Qed.

Lemma sc_piece (flag : bool) v bs k : (if flag then 0 <= v < 256 else v = 0) ->
  located bs k (bytes_of_items (sc_items flag v)) ->
  when flag next_byte 0 (mk_iter bs k) = Ok (v, mk_iter bs (k + sc_len flag)).
Proof.
  unfold sc_items, sc_len, when. destruct flag; intros P Hl.
  - rewrite wu8_bytes, Z.mod_small in Hl by lia. apply (next_byte_located bs k v Hl).
  - rewrite P. unfold iret. do 3 f_equal. lia.
Qed.

(* ---------------- transport_private_data ---------------- *)

Definition tpd_items (flag : bool) (d : list Z) : list witem :=
  if flag then wu8 (Z.of_nat (length d)) :: (if Z.of_nat (length d) >? 0 then [WBytes d] else []) else [].
Definition tpd_len (flag : bool) (d : list Z) : Z := if flag then 1 + Z.of_nat (length d) else 0.

Lemma tpd_items_aligned (flag : bool) d : (if flag then bytes_ok d else d = []) ->
  aligned (tpd_items flag d) (Z.to_nat (tpd_len flag d)).
Proof.
  unfold tpd_items, tpd_len. destruct flag; intros P; [|apply aligned_nil].
  replace (Z.to_nat (1 + Z.of_nat (length d))) with (1 + length d)%nat by lia.
  change (wu8 (Z.of_nat (length d)) :: (if Z.of_nat (length d) >? 0 then [WBytes d] else []))
    with ([wu8 (Z.of_nat (length d))] ++ (if Z.of_nat (length d) >? 0 then [WBytes d] else [])).
  apply aligned_app; [apply wu8_aligned|].
  destruct (Z.of_nat (length d) >? 0) eqn:E.
  - apply wbytes_aligned. exact P.
  - destruct d; [apply aligned_nil | cbn [length] in E; lia].
Qed.

Lemma tpd_piece (flag : bool) d bs k : (if flag then bytes_ok d else d = []) -> Z.of_nat (length d) < 256 ->
  located bs k (bytes_of_items (tpd_items flag d)) ->
  (if flag then l <- next_byte ;; dd <- when (l >? 0) (next_bytes l) [] ;; iret (l, dd) else iret (0, []))
    (mk_iter bs k) = Ok ((Z.of_nat (length d), d), mk_iter bs (k + tpd_len flag d)).
Proof.
  unfold tpd_items, tpd_len. destruct flag; intros P Hn Hl.
  - set (n := Z.of_nat (length d)) in *.
    change (wu8 n :: (if n >? 0 then [WBytes d] else [])) with ([wu8 n] ++ (if n >? 0 then [WBytes d] else [])) in Hl.
    assert (Ob : items_bytes_ok (if n >? 0 then [WBytes d] else [])).
    { destruct (n >? 0); [constructor; [exact P|constructor] | constructor]. }
    apply (located_items bs k _ _ 1 (wu8_aligned n) Ob) in Hl. destruct Hl as [L1 L2].
    rewrite wu8_bytes, Z.mod_small in L1 by lia.
    erewrite ibind_ok by (apply (next_byte_located bs k n L1)).
    unfold when. destruct (n >? 0) eqn:E.
    + rewrite wbytes_bytes in L2 by exact P.
      erewrite ibind_ok by (apply (next_bytes_located bs (k + 1) d n eq_refl L2)).
      unfold iret. do 3 f_equal. lia.
    + assert (d = []) as -> by (destruct d; [reflexivity | subst n; cbn [length] in E; lia]).
      erewrite ibind_ok by reflexivity. unfold iret. subst n. cbn [length Z.of_nat]. do 3 f_equal; lia || reflexivity.
  - rewrite P. unfold iret. cbn [length Z.of_nat]. do 3 f_equal. lia.
Qed.

(* ---------------- the adaptation field extension ---------------- *)

Section Ext.
Context (e : PacketAdaptationExtensionField) (W : wf_afe e).

Definition afe_head : list witem := [wu8 (calcPacketAdaptationFieldExtensionLength e)].
Definition afe_flags : list witem :=
  [WBool (PacketAdaptationExtensionField_HasLegalTimeWindow e);
   WBool (PacketAdaptationExtensionField_HasPiecewiseRate e);
   WBool (PacketAdaptationExtensionField_HasSeamlessSplice e); WBits 5 255].
Definition ltw_items : list witem :=
  if PacketAdaptationExtensionField_HasLegalTimeWindow e
  then [WBool (PacketAdaptationExtensionField_LegalTimeWindowIsValid e);
        WBits 15 (PacketAdaptationExtensionField_LegalTimeWindowOffset e)] else [].
Definition ltw_len : Z := if PacketAdaptationExtensionField_HasLegalTimeWindow e then 2 else 0.
Definition pr_items : list witem :=
  if PacketAdaptationExtensionField_HasPiecewiseRate e
  then [WBits 2 255; WBits 22 (PacketAdaptationExtensionField_PiecewiseRate e)] else [].
Definition pr_len : Z := if PacketAdaptationExtensionField_HasPiecewiseRate e then 3 else 0.
Definition ss_items : list witem :=
  if PacketAdaptationExtensionField_HasSeamlessSplice e
  then enc_pts_or_dts (PacketAdaptationExtensionField_SpliceType e)
         (odflt zero_ClockReference (PacketAdaptationExtensionField_DTSNextAccessUnit e)) else [].
Definition ss_len : Z := if PacketAdaptationExtensionField_HasSeamlessSplice e then 5 else 0.

Definition afe_items : list witem := afe_head ++ afe_flags ++ ltw_items ++ pr_items ++ ss_items.

Lemma afe_len_split : ref_afe_length e = 1 + ltw_len + pr_len + ss_len.
Proof. reflexivity. Qed.

Lemma calc_afe_eq : calcPacketAdaptationFieldExtensionLength e = ref_afe_length e.
Proof.
  unfold calcPacketAdaptationFieldExtensionLength, ref_afe_length, C_ptsOrDTSByteLength.
  destruct (PacketAdaptationExtensionField_HasLegalTimeWindow e), (PacketAdaptationExtensionField_HasPiecewiseRate e),
    (PacketAdaptationExtensionField_HasSeamlessSplice e); reflexivity.
Qed.

Lemma afe_len_range : 1 <= ref_afe_length e <= 11.
Proof.
  unfold ref_afe_length.
  destruct (PacketAdaptationExtensionField_HasLegalTimeWindow e), (PacketAdaptationExtensionField_HasPiecewiseRate e),
    (PacketAdaptationExtensionField_HasSeamlessSplice e); lia.
Qed.

Lemma enc_afe_ok : enc_af_extension e = Ok (afe_items, 1 + ref_afe_length e).
Proof.
  unfold enc_af_extension, afe_items, afe_head, afe_flags, ltw_items, pr_items, ss_items, ref_afe_length, C_ptsOrDTSByteLength.
  pose proof (wfe_ss e W) as S.
  destruct (PacketAdaptationExtensionField_HasSeamlessSplice e).
  - destruct S as (_ & b & _ & ED). rewrite ED. cbn [need res_bind odflt app].
    destruct (PacketAdaptationExtensionField_HasLegalTimeWindow e), (PacketAdaptationExtensionField_HasPiecewiseRate e); reflexivity.
  - destruct (PacketAdaptationExtensionField_HasLegalTimeWindow e), (PacketAdaptationExtensionField_HasPiecewiseRate e); reflexivity.
Qed.

Lemma afe_flags_aligned : aligned afe_flags 1.
Proof. split; [reflexivity | items_ok]. Qed.
Lemma ltw_aligned : aligned ltw_items (Z.to_nat ltw_len).
Proof.
  unfold ltw_items, ltw_len. destruct (PacketAdaptationExtensionField_HasLegalTimeWindow e); [|apply aligned_nil].
  split; [reflexivity | items_ok].
Qed.
Lemma pr_aligned : aligned pr_items (Z.to_nat pr_len).
Proof.
  unfold pr_items, pr_len. destruct (PacketAdaptationExtensionField_HasPiecewiseRate e); [|apply aligned_nil].
  split; [reflexivity | items_ok].
Qed.
Lemma ss_aligned : aligned ss_items (Z.to_nat ss_len).
Proof.
  unfold ss_items, ss_len. destruct (PacketAdaptationExtensionField_HasSeamlessSplice e); [apply enc_pts_aligned | apply aligned_nil].
Qed.

Lemma afe_part_lens_nonneg : 0 <= ltw_len /\ 0 <= pr_len /\ 0 <= ss_len.
Proof.
  unfold ltw_len, pr_len, ss_len.
  destruct (PacketAdaptationExtensionField_HasLegalTimeWindow e), (PacketAdaptationExtensionField_HasPiecewiseRate e),
    (PacketAdaptationExtensionField_HasSeamlessSplice e); lia.
Qed.

Lemma afe_aligned : aligned afe_items (Z.to_nat (1 + ref_afe_length e)).
Proof.
  destruct afe_part_lens_nonneg as (N1 & N2 & N3). rewrite afe_len_split. unfold afe_items.
  replace (Z.to_nat (1 + (1 + ltw_len + pr_len + ss_len)))
    with (1 + (1 + (Z.to_nat ltw_len + (Z.to_nat pr_len + Z.to_nat ss_len))))%nat by lia.
  repeat apply aligned_app.
  - apply wu8_aligned.
  - apply afe_flags_aligned.
  - apply ltw_aligned.
  - apply pr_aligned.
  - apply ss_aligned.
Qed.

Lemma ltw_piece bs k : located bs k (bytes_of_items ltw_items) ->
  exists B, when (PacketAdaptationExtensionField_HasLegalTimeWindow e) (next_bytes_nocopy 2) [] (mk_iter bs k) =
              Ok (B, mk_iter bs (k + ltw_len)) /\
    (if PacketAdaptationExtensionField_HasLegalTimeWindow e then bitb B 0 else false) =
      PacketAdaptationExtensionField_LegalTimeWindowIsValid e /\
    (if PacketAdaptationExtensionField_HasLegalTimeWindow e then bitsf B 1 15 else 0) =
      PacketAdaptationExtensionField_LegalTimeWindowOffset e.
Proof.
  pose proof ltw_aligned as A. revert A. unfold ltw_items, ltw_len, when. pose proof (wfe_ltw e W) as P.
  destruct (PacketAdaptationExtensionField_HasLegalTimeWindow e); intros A Hl.
  - destruct (aligned_bytes _ _ A) as [Hlen Hbits]. eexists. split; [|split].
    + unfold next_bytes_nocopy. apply (next_bytes_located bs k _ 2); [rewrite Hlen; reflexivity | exact Hl].
    + unfold bitb, bitsf. rewrite Hbits. cbn [items_bits flat_map item_bits app]. fld. reflexivity.
    + unfold bitsf. rewrite Hbits. cbn [items_bits flat_map item_bits app]. fld. reflexivity.
  - destruct P as [-> ->]. exists []. split; [|split; reflexivity]. unfold iret. do 3 f_equal. lia.
Qed.

Lemma pr_piece bs k : located bs k (bytes_of_items pr_items) ->
  exists B, when (PacketAdaptationExtensionField_HasPiecewiseRate e) (next_bytes_nocopy 3) [] (mk_iter bs k) =
              Ok (B, mk_iter bs (k + pr_len)) /\
    (if PacketAdaptationExtensionField_HasPiecewiseRate e then bitsf B 2 22 else 0) =
      PacketAdaptationExtensionField_PiecewiseRate e.
Proof.
  pose proof pr_aligned as A. revert A. unfold pr_items, pr_len, when. pose proof (wfe_pr e W) as P.
  destruct (PacketAdaptationExtensionField_HasPiecewiseRate e); intros A Hl.
  - destruct (aligned_bytes _ _ A) as [Hlen Hbits]. eexists. split.
    + unfold next_bytes_nocopy. apply (next_bytes_located bs k _ 3); [rewrite Hlen; reflexivity | exact Hl].
    + unfold bitsf. rewrite Hbits. cbn [items_bits flat_map item_bits app]. fld. reflexivity.
  - rewrite P. exists []. split; [|reflexivity]. unfold iret. do 3 f_equal. lia.
Qed.

Lemma ss_piece bs k : located bs k (bytes_of_items ss_items) ->
  (if PacketAdaptationExtensionField_HasSeamlessSplice e
   then b2 <- next_byte ;; iskip (-1) ;;; d <- parse_pts_or_dts ;; iret (bitsf [b2] 0 4, Some d)
   else iret (0, None)) (mk_iter bs k) =
  Ok ((PacketAdaptationExtensionField_SpliceType e, PacketAdaptationExtensionField_DTSNextAccessUnit e),
      mk_iter bs (k + ss_len)).
Proof.
  unfold ss_items, ss_len. pose proof (wfe_ss e W) as P.
  destruct (PacketAdaptationExtensionField_HasSeamlessSplice e); intros Hl.
  - destruct P as (Hst & b & Hb & ED). rewrite ED in *. cbn [odflt] in Hl. change (cr b 0) with (mk_cr b 0) in *.
    set (st := PacketAdaptationExtensionField_SpliceType e) in *.
    destruct (aligned_bytes _ _ (enc_pts_aligned st (mk_cr b 0))) as [Hlen Hbits].
    remember (bytes_of_items (enc_pts_or_dts st (mk_cr b 0))) as BB eqn:EB.
    destruct BB as [|b2 B']; [discriminate|]. symmetry in EB.
    pose proof (located_head _ _ _ _ Hl) as L1.
    erewrite ibind_ok by (apply (next_byte_located bs k b2 L1)).
    unfold iskip at 1. erewrite ibind_ok by reflexivity. cbn [ibs ioff].
    replace (k + 1 + -1) with k by lia.
    rewrite <- EB in Hl.
    erewrite ibind_ok by (apply (pts_located bs k st b Hb Hl)).
    unfold iret. do 3 f_equal.
    rewrite bitsf_one. unfold bits_of_bytes in Hbits. cbn [flat_map] in Hbits.
    rewrite <- (field_prefix (bits_of 8 b2) (flat_map (bits_of 8) B')) by (rewrite bits_of_length; lia).
    rewrite Hbits. cbn [enc_pts_or_dts items_bits flat_map item_bits app].
    apply field_here. exact Hst.
  - destruct P as [-> ->]. unfold iret. do 3 f_equal. lia.
Qed.

Lemma parse_afe_located bs k : located bs k (bytes_of_items afe_items) ->
  parse_af_extension (mk_iter bs k) = Ok (observed_afe e, mk_iter bs (k + (1 + ref_afe_length e))).
Proof.
  intros Hl. destruct afe_part_lens_nonneg as (N1 & N2 & N3).
  pose proof ltw_aligned as A1. pose proof pr_aligned as A2. pose proof ss_aligned as A3.
  unfold afe_items in Hl.
  apply (located_items bs k _ _ 1 (wu8_aligned _)) in Hl;
    [|repeat apply items_bytes_ok_app; [apply afe_flags_aligned|apply A1|apply A2|apply A3]].
  destruct Hl as [L0 Hl].
  apply (located_items bs _ _ _ 1 afe_flags_aligned) in Hl; [|repeat apply items_bytes_ok_app; [apply A1|apply A2|apply A3]].
  destruct Hl as [L1 Hl].
  apply (located_items bs _ _ _ _ A1) in Hl; [|repeat apply items_bytes_ok_app; [apply A2|apply A3]].
  destruct Hl as [P1 Hl].
  apply (located_items bs _ _ _ _ A2) in Hl; [|apply A3].
  destruct Hl as [P2 P3].
  rewrite !Z2Nat.id in * by lia.
  unfold afe_head in L0. rewrite wu8_bytes, calc_afe_eq in L0. pose proof afe_len_range as R.
  rewrite Z.mod_small in L0 by lia.
  destruct (aligned_one _ afe_flags_aligned) as (fl & Efl & Hbits). rewrite Efl in L1.
  unfold parse_af_extension.
  erewrite ibind_ok by (apply (next_byte_located bs k _ L0)).
  destruct (ref_afe_length e >? 0) eqn:Epos; [|lia].
  erewrite ibind_ok by (apply (next_byte_located bs _ fl L1)).
  cbv zeta. rewrite !bitb_one, Hbits. unfold afe_flags. cbn [items_bits flat_map item_bits app]. fld.
  destruct (ltw_piece bs _ P1) as (B1 & R1 & V1 & O1). erewrite ibind_ok by (exact R1).
  destruct (pr_piece bs _ P2) as (B2 & R2 & V2). erewrite ibind_ok by (exact R2).
  erewrite ibind_ok by (apply (ss_piece bs _ P3)). cbv beta iota.
  unfold iret. rewrite V1, O1, V2. unfold observed_afe. f_equal. f_equal.
  rewrite afe_len_split. f_equal. lia.
Qed.

End Ext.

(* the extension behind its flag *)
Definition ext_items (flag : bool) (o : option PacketAdaptationExtensionField) : list witem :=
  if flag then match o with Some e => afe_items e | None => [] end else [].
Definition ext_len (flag : bool) (o : option PacketAdaptationExtensionField) : Z :=
  if flag then match o with Some e => 1 + ref_afe_length e | None => 0 end else 0.

Definition wf_ext_opt (flag : bool) (o : option PacketAdaptationExtensionField) : Prop :=
  if flag then exists e, o = Some e /\ wf_afe e else o = None.

Lemma ext_items_aligned flag o : wf_ext_opt flag o -> aligned (ext_items flag o) (Z.to_nat (ext_len flag o)).
Proof.
  unfold wf_ext_opt, ext_items, ext_len. destruct flag; intros P; [|apply aligned_nil].
  destruct P as (e & -> & W). apply afe_aligned.
Qed.

Lemma ext_len_range flag o : wf_ext_opt flag o -> 0 <= ext_len flag o <= 12.
Proof.
  unfold wf_ext_opt, ext_len. destruct flag; intros P; [|lia].
  destruct P as (e & -> & W). pose proof (afe_len_range e). lia.
Qed.

Lemma enc_ext_opt_ok flag o : wf_ext_opt flag o ->
  (if flag then res_bind (need o) enc_af_extension else Ok ([], 0)) = Ok (ext_items flag o, ext_len flag o).
Proof.
  unfold wf_ext_opt, ext_items, ext_len. destruct flag; intros P; [|reflexivity].
  destruct P as (e & -> & W). cbn [need res_bind]. apply (enc_afe_ok e W).
Qed.

Lemma ext_piece flag o bs k : wf_ext_opt flag o ->
  located bs k (bytes_of_items (ext_items flag o)) ->
  (if flag then x <- parse_af_extension ;; iret (Some x) else iret None) (mk_iter bs k) =
  Ok (option_map observed_afe o, mk_iter bs (k + ext_len flag o)).
Proof.
  unfold wf_ext_opt, ext_items, ext_len. destruct flag; intros P Hl.
  - destruct P as (e & -> & W).
    erewrite ibind_ok by (apply (parse_afe_located e W bs k Hl)). reflexivity.
  - rewrite P. unfold iret. cbn [option_map]. do 3 f_equal. lia.
Qed.

(* ---------------- the adaptation field (adaptation_field_length >= 1) ---------------- *)

Section AF.
Context (af : PacketAdaptationField) (W : wf_af_body af)
        (NS : PacketAdaptationField_IsOneByteStuffing af = false).

Definition af_head : list witem := [wu8 (calcPacketAdaptationFieldLength af)].
Definition af_flags : list witem :=
  [WBool (PacketAdaptationField_DiscontinuityIndicator af);
   WBool (PacketAdaptationField_RandomAccessIndicator af);
   WBool (PacketAdaptationField_ElementaryStreamPriorityIndicator af);
   WBool (PacketAdaptationField_HasPCR af);
   WBool (PacketAdaptationField_HasOPCR af);
   WBool (PacketAdaptationField_HasSplicingCountdown af);
   WBool (PacketAdaptationField_HasTransportPrivateData af);
   WBool (PacketAdaptationField_HasAdaptationExtensionField af)].
Definition af_stuff : list witem := repeat_item (PacketAdaptationField_StuffingLength af) (wu8 255).

Definition af_pcr := pcr_items (PacketAdaptationField_HasPCR af) (PacketAdaptationField_PCR af).
Definition af_opcr := pcr_items (PacketAdaptationField_HasOPCR af) (PacketAdaptationField_OPCR af).
Definition af_sc := sc_items (PacketAdaptationField_HasSplicingCountdown af) (PacketAdaptationField_SpliceCountdown af).
Definition af_tpd := tpd_items (PacketAdaptationField_HasTransportPrivateData af) (PacketAdaptationField_TransportPrivateData af).
Definition af_ext := ext_items (PacketAdaptationField_HasAdaptationExtensionField af) (PacketAdaptationField_AdaptationExtensionField af).

(* everything in front of the stuffing, followed by [tail] *)
Definition af_items_with (tail : list witem) : list witem :=
  af_head ++ af_flags ++ af_pcr ++ af_opcr ++ af_sc ++ af_tpd ++ af_ext ++ tail.
Definition af_body_items : list witem := af_items_with af_stuff.
Definition af_prefix_items : list witem := af_items_with [].

Definition n_pcr := pcr_len (PacketAdaptationField_HasPCR af).
Definition n_opcr := pcr_len (PacketAdaptationField_HasOPCR af).
Definition n_sc := sc_len (PacketAdaptationField_HasSplicingCountdown af).
Definition n_tpd := tpd_len (PacketAdaptationField_HasTransportPrivateData af) (PacketAdaptationField_TransportPrivateData af).
Definition n_ext := ext_len (PacketAdaptationField_HasAdaptationExtensionField af) (PacketAdaptationField_AdaptationExtensionField af).

Lemma af_len_split : ref_af_length af =
  1 + n_pcr + n_opcr + n_sc + n_tpd + n_ext + PacketAdaptationField_StuffingLength af.
Proof. unfold ref_af_length. rewrite NS. reflexivity. Qed.

Lemma wf_ext_of_af : wf_ext_opt (PacketAdaptationField_HasAdaptationExtensionField af)
                                (PacketAdaptationField_AdaptationExtensionField af).
Proof. exact (wfa_ext af W). Qed.

Lemma af_part_lens_nonneg : 0 <= n_pcr /\ 0 <= n_opcr /\ 0 <= n_sc /\ 0 <= n_tpd /\ 0 <= n_ext.
Proof.
  pose proof (ext_len_range _ _ wf_ext_of_af). unfold n_pcr, n_opcr, n_sc, n_tpd, n_ext, pcr_len, sc_len, tpd_len.
  destruct (PacketAdaptationField_HasPCR af), (PacketAdaptationField_HasOPCR af),
    (PacketAdaptationField_HasSplicingCountdown af), (PacketAdaptationField_HasTransportPrivateData af); lia.
Qed.

(* the regenerated calcPacketAdaptationFieldLength (uint8 arithmetic) is the sum of the sizes of the parts present *)
Lemma calc_af_eq : ref_af_length af <= 255 -> calcPacketAdaptationFieldLength af = ref_af_length af.
Proof.
  intros Hle. pose proof af_part_lens_nonneg as (N1 & N2 & N3 & N4 & N5). pose proof (wfa_stuff af W) as N6.
  rewrite af_len_split in *. pose proof wf_ext_of_af as X. pose proof (ext_len_range _ _ X) as XR.
  unfold calcPacketAdaptationFieldLength, C_pcrBytesSize.
  unfold n_pcr, n_opcr, n_sc, n_tpd, n_ext, pcr_len, sc_len, tpd_len, ext_len, wf_ext_opt in *.
  set (n := Z.of_nat (length (PacketAdaptationField_TransportPrivateData af))) in *.
  assert (Hn : 0 <= n) by (subst n; lia). clearbody n.
  set (s := PacketAdaptationField_StuffingLength af) in *. clearbody s.
  destruct (PacketAdaptationField_HasAdaptationExtensionField af).
  - destruct X as (e & EX & We). rewrite EX in *. cbn [odflt]. rewrite (calc_afe_eq e).
    set (x := ref_afe_length e) in *. clearbody x.
    destruct (PacketAdaptationField_HasPCR af), (PacketAdaptationField_HasOPCR af),
      (PacketAdaptationField_HasSplicingCountdown af), (PacketAdaptationField_HasTransportPrivateData af);
      cbv zeta; repeat (rewrite Z.mod_small by lia); lia.
  - destruct (PacketAdaptationField_HasPCR af), (PacketAdaptationField_HasOPCR af),
      (PacketAdaptationField_HasSplicingCountdown af), (PacketAdaptationField_HasTransportPrivateData af);
      cbv zeta; repeat (rewrite Z.mod_small by lia); lia.
Qed.

Lemma enc_af_ok : enc_adaptation_field af = Ok (af_body_items, 1 + ref_af_length af).
Proof.
  unfold enc_adaptation_field. rewrite NS.
  rewrite (enc_pcr_opt_ok _ _ (wfa_pcr af W)). cbn [res_bind].
  rewrite (enc_pcr_opt_ok _ _ (wfa_opcr af W)). cbn [res_bind].
  rewrite (enc_ext_opt_ok _ _ wf_ext_of_af). cbn [res_bind].
  f_equal. f_equal.
  rewrite af_len_split. pose proof (wfa_stuff af W).
  unfold n_pcr, n_opcr, n_sc, n_tpd, n_ext, sc_len, tpd_len. lia.
Qed.

End AF.

Lemma repeat_wu8_aligned v k : aligned (repeat (wu8 v) k) k.
Proof.
  induction k as [|k IH]; [apply aligned_nil|].
  change (repeat (wu8 v) (S k)) with ([wu8 v] ++ repeat (wu8 v) k). apply (aligned_app _ _ 1 k); [apply wu8_aligned | exact IH].
Qed.

Section AF2.
Context (af : PacketAdaptationField) (W : wf_af_body af)
        (NS : PacketAdaptationField_IsOneByteStuffing af = false).

Lemma af_flags_aligned : aligned (af_flags af) 1.
Proof. split; [reflexivity | items_ok]. Qed.

Lemma af_stuff_aligned : aligned (af_stuff af) (Z.to_nat (PacketAdaptationField_StuffingLength af)).
Proof. apply repeat_wu8_aligned. Qed.

Lemma af_body_aligned : aligned (af_body_items af) (Z.to_nat (1 + ref_af_length af)).
Proof.
  destruct (af_part_lens_nonneg af W) as (N1 & N2 & N3 & N4 & N5). pose proof (wfa_stuff af W) as N6.
  rewrite (af_len_split af NS). unfold af_body_items, af_items_with.
  replace (Z.to_nat (1 + (1 + n_pcr af + n_opcr af + n_sc af + n_tpd af + n_ext af + PacketAdaptationField_StuffingLength af)))
    with (1 + (1 + (Z.to_nat (n_pcr af) + (Z.to_nat (n_opcr af) + (Z.to_nat (n_sc af) + (Z.to_nat (n_tpd af) +
          (Z.to_nat (n_ext af) + Z.to_nat (PacketAdaptationField_StuffingLength af))))))))%nat by lia.
  repeat apply aligned_app.
  - apply wu8_aligned.
  - apply af_flags_aligned.
  - apply pcr_items_aligned.
  - apply pcr_items_aligned.
  - apply sc_items_aligned.
  - apply tpd_items_aligned. exact (wfa_tpd af W).
  - apply ext_items_aligned. exact (wfa_ext af W).
  - apply af_stuff_aligned.
Qed.

(* the parser stops in front of the stuffing bytes and derives their number from adaptation_field_length *)
Lemma parse_af_with_located tail nt bs k : aligned tail nt -> ref_af_length af <= 255 ->
  located bs k (bytes_of_items (af_items_with af tail)) ->
  parse_packet_adaptation_field (mk_iter bs k) =
  Ok (observed_af af, mk_iter bs (k + 1 + ref_af_length af - PacketAdaptationField_StuffingLength af)).
Proof.
  intros A6 Hle Hl.
  destruct (af_part_lens_nonneg af W) as (N1 & N2 & N3 & N4 & N5). pose proof (wfa_stuff af W) as N6.
  pose proof (pcr_items_aligned (PacketAdaptationField_HasPCR af) (PacketAdaptationField_PCR af)) as A1.
  pose proof (pcr_items_aligned (PacketAdaptationField_HasOPCR af) (PacketAdaptationField_OPCR af)) as A2.
  pose proof (sc_items_aligned (PacketAdaptationField_HasSplicingCountdown af) (PacketAdaptationField_SpliceCountdown af)) as A3.
  pose proof (tpd_items_aligned _ _ (wfa_tpd af W)) as A4.
  pose proof (ext_items_aligned _ _ (wfa_ext af W)) as A5.
  pose proof af_flags_aligned as B1.
  unfold af_items_with in Hl.
  apply (located_items bs k _ _ 1 (wu8_aligned _)) in Hl;
    [|repeat apply items_bytes_ok_app; [apply B1|apply A1|apply A2|apply A3|apply A4|apply A5|apply A6]].
  destruct Hl as [L0 Hl].
  apply (located_items bs _ _ _ 1 B1) in Hl;
    [|repeat apply items_bytes_ok_app; [apply A1|apply A2|apply A3|apply A4|apply A5|apply A6]].
  destruct Hl as [L1 Hl].
  apply (located_items bs _ _ _ _ A1) in Hl; [|repeat apply items_bytes_ok_app; [apply A2|apply A3|apply A4|apply A5|apply A6]].
  destruct Hl as [P1 Hl].
  apply (located_items bs _ _ _ _ A2) in Hl; [|repeat apply items_bytes_ok_app; [apply A3|apply A4|apply A5|apply A6]].
  destruct Hl as [P2 Hl].
  apply (located_items bs _ _ _ _ A3) in Hl; [|repeat apply items_bytes_ok_app; [apply A4|apply A5|apply A6]].
  destruct Hl as [P3 Hl].
  apply (located_items bs _ _ _ _ A4) in Hl; [|repeat apply items_bytes_ok_app; [apply A5|apply A6]].
  destruct Hl as [P4 Hl].
  apply (located_items bs _ _ _ _ A5) in Hl; [|apply A6].
  destruct Hl as [P5 _].
  fold (n_pcr af) (n_opcr af) (n_sc af) (n_tpd af) (n_ext af) in *.
  rewrite !Z2Nat.id in * by lia.
  unfold af_head in L0. rewrite wu8_bytes, (calc_af_eq af W NS Hle) in L0.
  pose proof (af_len_split af NS) as Hsplit.
  rewrite Z.mod_small in L0 by lia.
  destruct (aligned_one _ B1) as (fl & Efl & Hbits). rewrite Efl in L1.
  unfold parse_packet_adaptation_field.
  erewrite ibind_ok by (apply (next_byte_located bs k _ L0)).
  erewrite ibind_ok by reflexivity. cbn [ioff].
  destruct (ref_af_length af >? 0) eqn:Epos; [|lia].
  erewrite ibind_ok by (apply (next_byte_located bs _ fl L1)).
  cbv zeta. rewrite !bitb_one, Hbits. unfold af_flags. cbn [items_bits flat_map item_bits app]. fld.
  erewrite ibind_ok by (apply (pcr_piece _ _ bs _ (wfa_pcr af W) P1)).
  erewrite ibind_ok by (apply (pcr_piece _ _ bs _ (wfa_opcr af W) P2)).
  erewrite ibind_ok by (apply (sc_piece _ _ bs _ (wfa_sc af W) P3)).
  assert (Hn : Z.of_nat (length (PacketAdaptationField_TransportPrivateData af)) < 256).
  { pose proof (wfa_tpd af W) as T. unfold n_tpd, tpd_len in *.
    destruct (PacketAdaptationField_HasTransportPrivateData af); [lia|]. rewrite T. cbn [length Z.of_nat]. lia. }
  erewrite ibind_ok by (apply (tpd_piece _ _ bs _ (wfa_tpd af W) Hn P4)). cbv beta iota.
  erewrite ibind_ok by (apply (ext_piece _ _ bs _ (wfa_ext af W) P5)).
  erewrite ibind_ok by reflexivity. cbn [ioff].
  unfold iret, observed_af. rewrite NS. f_equal. f_equal; [|f_equal; fold (n_pcr af) (n_opcr af) (n_sc af) (n_tpd af) (n_ext af); lia].
  f_equal. fold (n_pcr af) (n_opcr af) (n_sc af) (n_tpd af) (n_ext af). lia.
Qed.

Lemma parse_af_located bs k : ref_af_length af <= 255 ->
  located bs k (bytes_of_items (af_body_items af)) ->
  parse_packet_adaptation_field (mk_iter bs k) =
  Ok (observed_af af, mk_iter bs (k + 1 + ref_af_length af - PacketAdaptationField_StuffingLength af)).
Proof. apply (parse_af_with_located _ _ bs k af_stuff_aligned). Qed.

(* the same for what precedes the stuffing alone: the stuffing bytes themselves are never read *)
Lemma parse_af_prefix_located bs k : ref_af_length af <= 255 ->
  located bs k (bytes_of_items (af_prefix_items af)) ->
  parse_packet_adaptation_field (mk_iter bs k) =
  Ok (observed_af af, mk_iter bs (k + 1 + ref_af_length af - PacketAdaptationField_StuffingLength af)).
Proof. apply (parse_af_with_located _ _ bs k aligned_nil). Qed.

End AF2.
