(* C01 for descriptors AS THE CALLER WRITES THEM.  The Muxer reads the descriptors of a stream only through
   writeDescriptorsWithLength and the two length sums (calcDescriptorsLength, the int sum of generatePMT).  Two
   histories that differ only in the descriptors handed to AddElementaryStream, entry-wise written as the same items
   with the same lengths (desc_same -- in particular a list of C14's domain and its parsed form: any struct Length,
   stray bodies of other tags), therefore produce the same results, counts and bytes, call by call: a lock-step
   simulation over mux_step_part.  With Proofs/RoundTripTypedDesc.v: what the demultiplexer delivers for a history
   whose streams carry typed descriptors in any written form is [expect] of the history with the descriptors in parsed
   form. *)
From Coq Require Import ZArith List Lia Bool ZifyBool.
Require Import Base.Bits Base.Iter Base.Wr Gen.Consts Gen.Types Gen.Preds Model.Clock Model.Packet Model.Pes Model.Desc Model.Psi
  Model.Muxer.
Import ListNotations.
Open Scope Z_scope.

Definition desc_same (ds dsn : list Descriptor) : Prop :=
  enc_descriptors dsn = enc_descriptors ds /\ calc_descriptors_length dsn = calc_descriptors_length ds /\
  forall a, fold_left (fun k d => k + (2 + calc_descriptor_length d)) dsn a =
            fold_left (fun k d => k + (2 + calc_descriptor_length d)) ds a.

Definition es_same (e en : PMTElementaryStream) : Prop :=
  PMTElementaryStream_ElementaryPID en = PMTElementaryStream_ElementaryPID e /\
  PMTElementaryStream_StreamType en = PMTElementaryStream_StreamType e /\
  desc_same (PMTElementaryStream_ElementaryStreamDescriptors e) (PMTElementaryStream_ElementaryStreamDescriptors en).

Definition ctx_same (c cn : Z * esctx) : Prop :=
  fst cn = fst c /\ ec_cc (snd cn) = ec_cc (snd c) /\ es_same (ec_es (snd c)) (ec_es (snd cn)).

Definition op_same (o on : mop) : Prop :=
  match o, on with
  | MAdd e, MAdd en => es_same e en
  | MAdd _, _ | _, MAdd _ => False
  | _, _ => on = o
  end.

Lemma desc_same_refl ds : desc_same ds ds.
Proof. repeat split; reflexivity. Qed.
Lemma es_same_refl e : es_same e e.
Proof. repeat split; reflexivity. Qed.
Lemma op_same_refl o : op_same o o.
Proof. destruct o; cbn; try reflexivity. apply es_same_refl. Qed.

(* ---------- association lists and stream lists ---------- *)
Lemma stream_pid_in_same pid l ln : Forall2 es_same l ln -> stream_pid_in pid ln = stream_pid_in pid l.
Proof.
  induction 1 as [|e en l ln (Hp & _) _ IH]; [reflexivity|]. unfold stream_pid_in in *. cbn [existsb]. rewrite Hp, IH. reflexivity.
Qed.

Lemma remove_first_pid_same pid l ln : Forall2 es_same l ln -> Forall2 es_same (remove_first_pid pid l) (remove_first_pid pid ln).
Proof.
  induction 1 as [|e en l ln He HF IH]; [constructor|]. cbn [remove_first_pid]. pose proof He as (Hp & _). rewrite Hp.
  destruct (_ =? pid); [exact HF|]. constructor; [exact He|exact IH].
Qed.

Lemma es_mem_same pid es esn : Forall2 ctx_same es esn -> es_mem pid esn = es_mem pid es.
Proof.
  induction 1 as [|c cn es esn (Hp & _) _ IH]; [reflexivity|]. unfold es_mem in *. cbn [existsb]. rewrite Hp, IH. reflexivity.
Qed.

Lemma es_find_same pid es esn : Forall2 ctx_same es esn ->
  match es_find pid es, es_find pid esn with
  | Some c, Some cn => ec_cc cn = ec_cc c /\ es_same (ec_es c) (ec_es cn)
  | None, None => True
  | _, _ => False
  end.
Proof.
  induction 1 as [|c cn es esn (Hp & Hc & He) _ IH]; [exact I|]. unfold es_find in *. cbn [find]. rewrite Hp.
  destruct (fst c =? pid); [cbn [option_map]; split; assumption|exact IH].
Qed.

Lemma es_put_same pid c cn es esn : Forall2 ctx_same es esn -> ec_cc cn = ec_cc c -> es_same (ec_es c) (ec_es cn) ->
  Forall2 ctx_same (es_put pid c es) (es_put pid cn esn).
Proof.
  intros HF Hc He. unfold es_put. rewrite (es_mem_same pid es esn HF). destruct (es_mem pid es).
  - clear -HF Hc He. induction HF as [|x xn es esn Hx _ IH]; [constructor|]. cbn [map]. constructor; [|exact IH].
    pose proof Hx as (Hp & _). rewrite Hp. destruct (fst x =? pid); [exact (conj eq_refl (conj Hc He))|exact Hx].
  - apply Forall2_app; [exact HF|]. constructor; [exact (conj eq_refl (conj Hc He))|constructor].
Qed.

Lemma es_del_same pid es esn : Forall2 ctx_same es esn -> Forall2 ctx_same (es_del pid es) (es_del pid esn).
Proof.
  induction 1 as [|x xn es esn Hx _ IH]; [constructor|]. unfold es_del in *. cbn [filter]. pose proof Hx as (Hp & _). rewrite Hp.
  destruct (negb (fst x =? pid)); [constructor; [exact Hx|exact IH]|exact IH].
Qed.

Lemma next_free_pid_same fuel : forall es esn n, Forall2 ctx_same es esn -> next_free_pid fuel esn n = next_free_pid fuel es n.
Proof.
  induction fuel as [|k IH]; intros es esn n HF; [reflexivity|]. cbn [next_free_pid]. rewrite (es_mem_same n es esn HF).
  destruct (es_mem n es || (n =? C_pmtStartPID)); [apply IH; exact HF|reflexivity].
Qed.

Lemma Forall2_len {A B} (R : A -> B -> Prop) l ln : Forall2 R l ln -> length ln = length l.
Proof. induction 1; [reflexivity|cbn [length]; congruence]. Qed.

(* ---------- the PMT: sizes and bytes ---------- *)
Lemma pmt_size_same l ln : Forall2 es_same l ln -> pmt_size ln = pmt_size l.
Proof.
  unfold pmt_size. generalize 4 as acc. intros acc H. revert acc.
  induction H as [|e en l ln (_ & _ & _ & _ & Hf) _ IH]; intros acc; [reflexivity|]. cbn [fold_left]. rewrite Hf. apply IH.
Qed.

Lemma calc_pmt_section_length_same l ln pcr : Forall2 es_same l ln ->
  calc_pmt_section_length (pmt_data_of ln pcr) = calc_pmt_section_length (pmt_data_of l pcr).
Proof.
  unfold calc_pmt_section_length, pmt_data_of. cbn [PMTData_ElementaryStreams PMTData_ProgramDescriptors].
  generalize ((4 + calc_descriptors_length []) mod 65536) as acc. intros acc H. revert acc.
  induction H as [|e en l ln (_ & _ & _ & Hc & _) _ IH]; intros acc; [reflexivity|]. cbn [fold_left]. rewrite Hc. apply IH.
Qed.

Lemma enc_pmt_ess_same l ln : Forall2 es_same l ln -> enc_pmt_ess ln = enc_pmt_ess l.
Proof.
  induction 1 as [|e en l ln (Hp & Ht & He & Hc & _) _ IH]; [reflexivity|]. cbn [enc_pmt_ess]. rewrite IH. f_equal.
  unfold enc_pmt_es, enc_descriptors_with_length. rewrite Hp, Ht, He, Hc. reflexivity.
Qed.

Lemma write_pmt_same l ln pcr v : Forall2 es_same l ln ->
  write_psi_data (psi_of_section (pmt_section_of ln pcr v)) = write_psi_data (psi_of_section (pmt_section_of l pcr v)).
Proof.
  intros H. unfold pmt_section_of. rewrite (calc_pmt_section_length_same l ln pcr H).
  unfold write_psi_data, enc_psi_data, psi_of_section. cbn [PSIData_Sections PSIData_PointerField enc_psi_sections].
  f_equal. f_equal. f_equal.
  unfold enc_psi_section, table_section. cbn [PSISection_Header need res_bind PSISectionHeader_TableID PSISectionHeader_SectionLength
    PSISectionHeader_SectionSyntaxIndicator PSISectionHeader_PrivateBit].
  assert (Ec : forall streams, calc_psi_section_length_res
      {| PSISection_CRC32 := 0;
         PSISection_Header := Some {| PSISectionHeader_PrivateBit := false;
                                      PSISectionHeader_SectionLength := calc_pmt_section_length (pmt_data_of l pcr);
                                      PSISectionHeader_SectionSyntaxIndicator := true;
                                      PSISectionHeader_TableID := C_PSITableIDPMT;
                                      PSISectionHeader_TableType := [] |};
         PSISection_Syntax := Some {| PSISectionSyntax_Data := Some
             {| PSISectionSyntaxData_EIT := None; PSISectionSyntaxData_NIT := None; PSISectionSyntaxData_PAT := None;
                PSISectionSyntaxData_PMT := Some (pmt_data_of streams pcr); PSISectionSyntaxData_SDT := None;
                PSISectionSyntaxData_TOT := None |};
                                      PSISectionSyntax_Header :=
                                        Some {| PSISectionSyntaxHeader_CurrentNextIndicator := true;
                                                PSISectionSyntaxHeader_LastSectionNumber := 0;
                                                PSISectionSyntaxHeader_SectionNumber := 0;
                                                PSISectionSyntaxHeader_TableIDExtension := PMTData_ProgramNumber (pmt_data_of streams pcr);
                                                PSISectionSyntaxHeader_VersionNumber := v mod 256 |} |} |} =
      Ok ((((5 + calc_pmt_section_length (pmt_data_of streams pcr)) mod 65536) + 4) mod 65536)) by (intros; reflexivity).
  rewrite (Ec l), (Ec ln), (calc_pmt_section_length_same l ln pcr H). cbn [res_bind].
  assert (Es : forall streams, enc_psi_section_syntax
      {| PSISection_CRC32 := 0;
         PSISection_Header := Some {| PSISectionHeader_PrivateBit := false;
                                      PSISectionHeader_SectionLength := calc_pmt_section_length (pmt_data_of l pcr);
                                      PSISectionHeader_SectionSyntaxIndicator := true;
                                      PSISectionHeader_TableID := C_PSITableIDPMT;
                                      PSISectionHeader_TableType := [] |};
         PSISection_Syntax := Some {| PSISectionSyntax_Data := Some
             {| PSISectionSyntaxData_EIT := None; PSISectionSyntaxData_NIT := None; PSISectionSyntaxData_PAT := None;
                PSISectionSyntaxData_PMT := Some (pmt_data_of streams pcr); PSISectionSyntaxData_SDT := None;
                PSISectionSyntaxData_TOT := None |};
                                      PSISectionSyntax_Header :=
                                        Some {| PSISectionSyntaxHeader_CurrentNextIndicator := true;
                                                PSISectionSyntaxHeader_LastSectionNumber := 0;
                                                PSISectionSyntaxHeader_SectionNumber := 0;
                                                PSISectionSyntaxHeader_TableIDExtension := PMTData_ProgramNumber (pmt_data_of streams pcr);
                                                PSISectionSyntaxHeader_VersionNumber := v mod 256 |} |} |} C_PSITableIDPMT =
      res_bind (enc_pmt_ess streams) (fun ess =>
        Ok (enc_psi_section_syntax_header {| PSISectionSyntaxHeader_CurrentNextIndicator := true;
                                             PSISectionSyntaxHeader_LastSectionNumber := 0;
                                             PSISectionSyntaxHeader_SectionNumber := 0;
                                             PSISectionSyntaxHeader_TableIDExtension := C_programNumberStart;
                                             PSISectionSyntaxHeader_VersionNumber := v mod 256 |} ++
            [WBits 3 255; WBits 13 pcr] ++ [WBits 4 255; WBits 12 (calc_descriptors_length [])] ++ ess))).
  { intros streams. unfold enc_psi_section_syntax. cbn [PSISection_Syntax need res_bind PSISectionSyntax_Header PSISectionSyntax_Data].
    change (PSITableID_hasPSISyntaxHeader C_PSITableIDPMT) with true. cbv iota. cbn [res_map res_bind need].
    unfold enc_psi_section_syntax_data. change (C_PSITableIDPMT =? C_PSITableIDPAT) with false.
    change (C_PSITableIDPMT =? C_PSITableIDPMT) with true. cbv iota. cbn [PSISectionSyntaxData_PMT need res_bind].
    unfold enc_pmt_section, pmt_data_of. cbn [PMTData_ProgramDescriptors PMTData_ElementaryStreams PMTData_PCRPID PMTData_ProgramNumber].
    unfold enc_descriptors_with_length. cbn [enc_descriptors res_map res_bind app].
    destruct (enc_pmt_ess streams); reflexivity. }
  rewrite (Es l), (Es ln), (enc_pmt_ess_same l ln H). reflexivity.
Qed.

(* ---------- the state with other streams / contexts ---------- *)
Definition with_se (s : mstate) (l : list PMTElementaryStream) (es : list (Z * esctx)) : mstate :=
  {| ms_period := ms_period s; ms_streams := l; ms_pcr_pid := ms_pcr_pid s; ms_pm_updated := ms_pm_updated s;
     ms_pmt_updated := ms_pmt_updated s; ms_next_pid := ms_next_pid s; ms_pat_version := ms_pat_version s;
     ms_pmt_version := ms_pmt_version s; ms_pat_cc := ms_pat_cc s; ms_pmt_cc := ms_pmt_cc s;
     ms_es := es; ms_retransmit := ms_retransmit s; ms_removed := ms_removed s |}.

Ltac msimp :=
  cbn [with_se set_tables set_retransmit set_es set_pcr set_streams_es restore_tables
       ms_period ms_streams ms_pcr_pid ms_pm_updated ms_pmt_updated ms_next_pid ms_pat_version ms_pmt_version
       ms_pat_cc ms_pmt_cc ms_es ms_retransmit ms_removed fst snd].

Lemma with_se_id s : with_se s (ms_streams s) (ms_es s) = s.
Proof. destruct s; reflexivity. Qed.

Lemma generate_pat_se s l es :
  generate_pat (with_se s l es) = (with_se (fst (generate_pat s)) l es, snd (generate_pat s)) /\
  ms_streams (fst (generate_pat s)) = ms_streams s /\ ms_es (fst (generate_pat s)) = ms_es s.
Proof.
  unfold generate_pat. msimp.
  destruct (next_version (ms_pat_version s) (ms_pm_updated s)) as [patv version].
  destruct (write_psi_data (psi_of_section (pat_section version))) as [payload| |]; [|repeat split; reflexivity|repeat split; reflexivity].
  msimp. destruct (write_packet _ C_MpegTsPacketSize) as [bs| |]; repeat split; reflexivity.
Qed.

Lemma generate_pmt_se s l es : Forall2 es_same (ms_streams s) l ->
  generate_pmt (with_se s l es) = (with_se (fst (generate_pmt s)) l es, snd (generate_pmt s)) /\
  ms_streams (fst (generate_pmt s)) = ms_streams s /\ ms_es (fst (generate_pmt s)) = ms_es s.
Proof.
  intros H. unfold generate_pmt, pmt_section. msimp.
  rewrite (stream_pid_in_same (ms_pcr_pid s) _ _ H), (pmt_size_same _ _ H).
  destruct (negb (stream_pid_in (ms_pcr_pid s) (ms_streams s))); [repeat split; reflexivity|].
  destruct (pmt_size (ms_streams s) >? 1021 - 9); [repeat split; reflexivity|].
  destruct (next_version (ms_pmt_version s) (ms_pmt_updated s)) as [pmtv version].
  rewrite (write_pmt_same _ _ (ms_pcr_pid s) version H).
  destruct (write_psi_data _) as [payload| |]; [|repeat split; reflexivity|repeat split; reflexivity].
  msimp. destruct (write_packet _ C_MpegTsPacketSize) as [bs| |]; repeat split; reflexivity.
Qed.

Lemma write_tables_se s l es : Forall2 es_same (ms_streams s) l ->
  write_tables (with_se s l es) = (with_se (fst (write_tables s)) l es, snd (write_tables s)) /\
  ms_streams (fst (write_tables s)) = ms_streams s /\ ms_es (fst (write_tables s)) = ms_es s.
Proof.
  intros H. unfold write_tables. destruct (generate_pat_se s l es) as (E1 & K1 & K2). rewrite E1.
  destruct (generate_pat s) as [s1 r1]. cbn [fst snd] in *.
  destruct r1 as [[ppat bpat]|c|]; [|msimp; repeat split; assumption|repeat split; assumption].
  destruct (generate_pmt_se s1 l es ltac:(rewrite K1; exact H)) as (E2 & K3 & K4). rewrite E2.
  destruct (generate_pmt s1) as [s2 r2]. cbn [fst snd] in *.
  destruct r2 as [[ppmt bpmt]|c|]; msimp; repeat split; congruence.
Qed.

Lemma retransmit_tables_se s l es force : Forall2 es_same (ms_streams s) l ->
  retransmit_tables (with_se s l es) force = (with_se (fst (retransmit_tables s force)) l es, snd (retransmit_tables s force)) /\
  ms_streams (fst (retransmit_tables s force)) = ms_streams s /\ ms_es (fst (retransmit_tables s force)) = ms_es s.
Proof.
  intros H. unfold retransmit_tables. msimp.
  destruct (negb force && (ms_retransmit s + 1 <? ms_period s)); [repeat split; reflexivity|].
  change (set_retransmit (with_se s l es) (ms_retransmit s + 1)) with (with_se (set_retransmit s (ms_retransmit s + 1)) l es).
  destruct (write_tables_se (set_retransmit s (ms_retransmit s + 1)) l es H) as (E & K1 & K2). rewrite E.
  destruct (write_tables (set_retransmit s (ms_retransmit s + 1))) as [s2 [r n g p]]. cbn [fst snd] in *.
  destruct r as [u|c|]; msimp; repeat split; assumption.
Qed.

Lemma filled_header_same h e en : es_same e en -> filled_header h en = filled_header h e.
Proof. intros (_ & Ht & _). unfold filled_header. rewrite Ht. reflexivity. Qed.

Lemma write_data_se s l es d : Forall2 es_same (ms_streams s) l -> Forall2 ctx_same (ms_es s) es ->
  exists es', write_data (with_se s l es) d = (with_se (fst (write_data s d)) l es', snd (write_data s d)) /\
              Forall2 ctx_same (ms_es (fst (write_data s d))) es' /\ ms_streams (fst (write_data s d)) = ms_streams s.
Proof.
  intros Hl He. unfold write_data. msimp.
  pose proof (es_find_same (MuxerData_PID d) _ _ He) as Hf.
  destruct (es_find (MuxerData_PID d) (ms_es s)) as [ctx|], (es_find (MuxerData_PID d) es) as [ctxn|]; try contradiction.
  2: { exists es. msimp. repeat split; [exact He]. }
  destruct Hf as [Hcc Hes].
  destruct (retransmit_tables_se s l es (af_rai (MuxerData_AdaptationField d) && (MuxerData_PID d =? ms_pcr_pid s)) Hl) as (E & K1 & K2).
  rewrite E. destruct (retransmit_tables s _) as [s1 [r n g p]]. cbn [fst snd] in *.
  destruct r as [u|c|]; [|exists es; msimp; repeat split; [rewrite K2; exact He|exact K1]|exists es; msimp; repeat split; [rewrite K2; exact He|exact K1]].
  destruct (MuxerData_PES d) as [pes|]; [|exists es; msimp; repeat split; [rewrite K2; exact He|exact K1]].
  destruct (PESData_Data pes) as [|b data] eqn:Ed; [exists es; msimp; repeat split; [rewrite K2; exact He|exact K1]|].
  destruct (PESData_Header pes) as [h0|]; [|exists es; msimp; repeat split; [rewrite K2; exact He|exact K1]].
  rewrite (filled_header_same h0 _ _ Hes), Hcc. msimp.
  eexists. split; [reflexivity|]. split; [|exact K1]. msimp.
  apply es_put_same; [rewrite K2; exact He|reflexivity|exact Hes].
Qed.

(* ---------- one call ---------- *)
Definition srel (s sn : mstate) : Prop :=
  exists l es, sn = with_se s l es /\ Forall2 es_same (ms_streams s) l /\ Forall2 ctx_same (ms_es s) es.

Lemma srel_refl s : srel s s.
Proof.
  exists (ms_streams s), (ms_es s). split; [symmetry; apply with_se_id|].
  split; [clear; induction (ms_streams s); constructor; [apply es_same_refl|assumption]|].
  clear; induction (ms_es s) as [|c r IH]; constructor; [repeat split; reflexivity|exact IH].
Qed.

Lemma readded_same e en pid rm : es_same e en ->
  ec_cc (readded_context en pid rm) = ec_cc (readded_context e pid rm) /\
  es_same (ec_es (readded_context e pid rm)) (ec_es (readded_context en pid rm)).
Proof. intros H. unfold readded_context, new_es_context. destruct (es_find pid rm); split; try reflexivity; exact H. Qed.

Lemma add_es_same s sn e en : srel s sn -> es_same e en ->
  srel (fst (add_es s e)) (fst (add_es sn en)) /\ snd (add_es sn en) = snd (add_es s e).
Proof.
  intros (l & es & -> & Hl & He) Hs. pose proof Hs as (Hp & Ht & Hd). unfold add_es. msimp. rewrite Hp.
  destruct (negb (PMTElementaryStream_ElementaryPID e =? 0)).
  - rewrite (stream_pid_in_same _ _ _ Hl). destruct (stream_pid_in _ (ms_streams s)).
    + cbn [fst snd]. split; [|reflexivity]. exists l, es. repeat split; assumption.
    + cbn [fst snd]. split; [|reflexivity].
      destruct (readded_same e en (PMTElementaryStream_ElementaryPID e) (ms_removed s) Hs) as [Hc Hr].
      eexists _, _. split; [msimp; reflexivity|]. msimp. split.
      * apply Forall2_app; [exact Hl|constructor; [exact Hs|constructor]].
      * apply es_put_same; assumption.
  - rewrite (Forall2_len _ _ _ He), (next_free_pid_same _ _ _ _ He).
    destruct (next_free_pid _ (ms_es s) (ms_next_pid s)) as [p|].
    + cbn [fst snd]. split; [|reflexivity].
      assert (Hw : es_same (with_pid e p) (with_pid en p)) by (unfold with_pid; repeat split; cbn; try assumption; apply Hd).
      destruct (readded_same _ _ p (ms_removed s) Hw) as [Hc Hr].
      eexists _, _. split; [msimp; reflexivity|]. msimp. split.
      * apply Forall2_app; [exact Hl|constructor; [exact Hw|constructor]].
      * apply es_put_same; assumption.
    + cbn [fst snd]. split; [|reflexivity]. exists l, es. repeat split; assumption.
Qed.

Lemma remove_es_same s sn pid : srel s sn ->
  srel (fst (remove_es s pid)) (fst (remove_es sn pid)) /\ snd (remove_es sn pid) = snd (remove_es s pid).
Proof.
  intros (l & es & -> & Hl & He). unfold remove_es. msimp. rewrite (stream_pid_in_same _ _ _ Hl).
  destruct (stream_pid_in pid (ms_streams s)).
  - cbn [fst snd]. split; [|reflexivity].
    pose proof (es_find_same pid _ _ He) as Hf.
    assert (Er : match es_find pid es with Some ctx => es_put pid (ec_cc ctx) (ms_removed s) | None => ms_removed s end =
                 match es_find pid (ms_es s) with Some ctx => es_put pid (ec_cc ctx) (ms_removed s) | None => ms_removed s end).
    { destruct (es_find pid (ms_es s)), (es_find pid es); try contradiction; [destruct Hf as [-> _]|]; reflexivity. }
    rewrite Er. eexists _, _. split; [msimp; reflexivity|]. msimp.
    split; [apply remove_first_pid_same; exact Hl|apply es_del_same; exact He].
  - cbn [fst snd]. split; [|reflexivity]. exists l, es. repeat split; assumption.
Qed.

Theorem step_same s sn o on : srel s sn -> op_same o on ->
  srel (fst (mux_step_part s o)) (fst (mux_step_part sn on)) /\ snd (mux_step_part sn on) = snd (mux_step_part s o).
Proof.
  intros Hs Ho. destruct o as [e|pid|pid| |d|p], on as [en|pidn|pidn| |dn|pn]; cbn [op_same] in Ho; try contradiction; try discriminate Ho.
  - cbn [mux_step_part]. destruct (add_es_same s sn e en Hs Ho) as [H1 H2].
    destruct (add_es s e) as [s' r], (add_es sn en) as [sn' rn]. cbn [fst snd] in *. subst rn. split; [exact H1|reflexivity].
  - inversion Ho; subst pidn. cbn [mux_step_part]. destruct (remove_es_same s sn pid Hs) as [H1 H2].
    destruct (remove_es s pid) as [s' r], (remove_es sn pid) as [sn' rn]. cbn [fst snd] in *. subst rn. split; [exact H1|reflexivity].
  - inversion Ho; subst pidn. cbn [mux_step_part fst snd]. split; [|reflexivity].
    destruct Hs as (l & es & -> & Hl & He). exists l, es. repeat split; assumption.
  - cbn [mux_step_part]. destruct Hs as (l & es & -> & Hl & He).
    destruct (write_tables_se s l es Hl) as (E & K1 & K2). rewrite E. cbn [fst snd]. split; [|reflexivity].
    exists l, es. split; [reflexivity|]. split; [rewrite K1; exact Hl|rewrite K2; exact He].
  - inversion Ho; subst dn. cbn [mux_step_part]. destruct Hs as (l & es & -> & Hl & He).
    destruct (write_data_se s l es d Hl He) as (es' & E & K1 & K2). rewrite E. cbn [fst snd]. split; [|reflexivity].
    exists l, es'. split; [reflexivity|]. split; [rewrite K2; exact Hl|exact K1].
  - inversion Ho; subst pn. cbn [mux_step_part fst snd]. split; [exact Hs|reflexivity].
Qed.

(* ---------- whole histories: the same results, counts and bytes, call by call ---------- *)
Theorem run_same ops : forall opsn s sn, srel s sn -> Forall2 op_same ops opsn ->
  snd (mux_run sn opsn) = snd (mux_run s ops) /\ srel (fst (mux_run s ops)) (fst (mux_run sn opsn)).
Proof.
  induction ops as [|o ops IH]; intros opsn s sn Hs HF; inversion HF as [|? on ? opsn' Ho HF']; subst.
  - split; [reflexivity|exact Hs].
  - cbn [mux_run]. unfold mux_step. destruct (step_same s sn o on Hs Ho) as [H1 H2].
    destruct (mux_step_part s o) as [s1 p], (mux_step_part sn on) as [sn1 pn]. cbn [fst snd] in *. subst pn.
    destruct (IH opsn' s1 sn1 H1 HF') as [I1 I2].
    destruct (mux_run s1 ops) as [s2 outs], (mux_run sn1 opsn') as [sn2 outsn]. cbn [fst snd] in *. subst outsn.
    split; [reflexivity|exact I2].
Qed.
