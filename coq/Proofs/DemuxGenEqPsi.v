(* isPSIComplete (data.go) as regenerated from the current source (Gen/DemuxGen.v, Section PsiComplete) IS the
   hand-written is_psi_complete of Model/Pool.v.

   The generated function takes the world and the abstract operation bytesPool.get; what is assumed about it is what
   bytesPooler.get guarantees: it returns a slice of the requested length (its contents are whatever the pool held).
   The payload-length loop, the copy loop, the walk over the section headers with its break, and the final comparison
   are all read from the source; a change to any of them changes Gen/DemuxGen.v and one of these proofs stops
   checking. Fuel: S (length of the concatenated payload) suffices (every turn of the loop advances the offset by at
   least 3 and the loop is left when the offset reaches the length), for payload bytes in 0..255. *)
From Coq Require Import ZArith List Lia Bool ZifyBool.
Require Import Base.Bits Base.Iter Gen.Consts Gen.Types Gen.Preds Gen.DemuxGen Model.Pool Proofs.DemuxGenEq.
Import ListNotations.
Open Scope Z_scope.

(* two results that differ only in how a comparison is written (a >= b, b <= a) *)
Ltac done_eq := try reflexivity; do 2 f_equal; lia.

Section Psi.
Variable W : Type.
Variable get : W -> Z -> outcome (list Z * W).
Hypothesis get_length : forall w n, 0 <= n -> exists bs w', get w n = Done (bs, w') /\ Z.of_nat (length bs) = n.

(* ---- the walk over the section headers ---- *)

Definition walk_result (w : W) (r : res (option iter)) : outcome (bool * W) :=
  match r with
  | Ok (Some i') => Done (ioff i' <=? ilen i', w)
  | Ok None => Done (false, w)
  | _ => Panicked
  end.

Lemma walk_loop : forall fuel b err f1 i l o payload ps w,
  0 <= ioff i -> (Z.to_nat (ilen i - ioff i) < fuel)%nat ->
  isPSIComplete_loop1 W fuel f1 w ps l payload o i b err = walk_result w (psi_walk fuel i) /\
  psi_walk fuel i <> Panic /\ (forall c, psi_walk fuel i <> Err c).
Proof.
  induction fuel as [|k IH]; intros b err f1 i l o payload ps w Hoff Hfuel; [lia|].
  cbn [isPSIComplete_loop1 psi_walk].
  destruct (ioff i <? ilen i) eqn:Hleft; cbn [negb].
  2:{ cbn [walk_result]. split; [done_eq|split; discriminate]. }
  unfold it_NextByte. pose proof (next_byte_no_panic i Hoff) as Hnp.
  destruct (next_byte i) as [[b1 i1]|c|] eqn:Hnb; [|cbn; repeat split; discriminate|contradiction].
  apply next_byte_ok in Hnb. destruct Hnb as (Hr & Hbs1 & Hoff1 & _).
  cbn [obind is_some].
  destruct (shouldStopPSIParsing b1); [cbn [walk_result]; split; [done_eq|split; discriminate]|].
  unfold it_NextBytesNoCopy, next_bytes_nocopy.
  assert (Hoff1' : 0 <= ioff i1) by lia.
  pose proof (next_bytes_no_panic 2 i1 Hoff1' ltac:(lia)) as Hnp2.
  destruct (next_bytes 2 i1) as [[bs i2]|c|] eqn:Hnbs; [|cbn; repeat split; discriminate|contradiction].
  apply next_bytes_ok in Hnbs. destruct Hnbs as (_ & _ & Hfit & Hbs2 & Hoff2 & Hslice).
  cbn [obind is_some].
  assert (Hlen : length bs = 2%nat).
  { subst bs. rewrite slice_length; unfold ilen in *; lia. }
  replace (2 <=? Z.of_nat (length bs)) with true by lia.
  unfold it_Skip.
  assert (Hland : 0 <= Z.land (be16 bs) 4095) by (apply Z.land_nonneg; right; lia).
  apply IH; cbn [ioff ilen ibs].
  - lia.
  - unfold ilen in *. cbn [ibs]. rewrite Hbs2, Hbs1 in *. lia.
Qed.

(* ---- isPSIComplete ---- *)

Theorem psi_complete_is_generated ps w : bytes_ok (concat_payload ps) ->
  exists w', isPSIComplete W get ps (S (length (concat_payload ps))) w = Done (is_psi_complete ps, w').
Proof.
  intros Hok. unfold isPSIComplete.
  pose proof (sum_loop ps 0) as Hs. rew_ofold Hs. clear Hs. cbn [obind]. rewrite Z.add_0_l.
  destruct (get_length w (Z.of_nat (length (concat_payload ps))) ltac:(lia)) as (buf & w' & Hget & Hlen).
  rewrite Hget. cbn [obind]. exists w'.
  pose proof (copy_loop ps [] buf ltac:(cbn [length Nat.add]; lia) eq_refl) as Hc.
  change (Z.of_nat (@length Z [])) with 0 in Hc. rew_ofold Hc. clear Hc.
  cbn [obind app length Nat.add].
  set (payload := concat_payload ps) in *.
  unfold is_psi_complete, is_psi_complete_bytes. fold payload.
  unfold it_NextByte.
  destruct (next_byte (new_iter payload)) as [[b i1]|c|] eqn:Hnb.
  - cbn [obind is_some].
    pose proof (next_byte_ok _ _ _ Hnb) as (Hr & Hbs1 & Hoff1 & Hb). cbn [new_iter ioff ibs] in *.
    assert (Hb0 : 0 <= b).
    { subst b. unfold ilen in Hr. cbn [ibs new_iter] in Hr.
      assert (Hin : In (nth (Z.to_nat 0) payload 0) payload) by (apply nth_In; lia).
      unfold bytes_ok in Hok. rewrite Forall_forall in Hok. apply Hok in Hin. unfold byte_ok in Hin. lia. }
    unfold it_Skip.
    destruct (walk_loop (S (length payload)) b None (S (length payload)) (mk_iter (ibs i1) (ioff i1 + b))
                (Z.of_nat (length payload)) (Z.of_nat (length payload)) payload ps w') as (He & Hnp & Hne).
    + cbn [ioff]. lia.
    + unfold ilen. cbn [ibs ioff]. rewrite Hbs1. lia.
    + rewrite He. destruct (psi_walk (S (length payload)) _) as [[i'|]|c|]; cbn [walk_result].
      * reflexivity.
      * reflexivity.
      * exfalso. apply (Hne c). reflexivity.
      * contradiction.
  - reflexivity.
  - exfalso. apply (next_byte_no_panic (new_iter payload)); [cbn; lia|exact Hnb].
Qed.

End Psi.
