(* C08: io.ReadFull computes the same thing however the reader fragments its bytes; packet size auto-detection
   on seekable and bufio readers hands the demuxer the stream from its first byte with the size of the stream. *)
From Coq Require Import ZArith List Lia Bool ZifyBool.
Require Import Base.Bits Base.Iter Gen.Consts Gen.Types Gen.Preds Model.Packet Model.Reader.
Import ListNotations.
Open Scope Z_scope.

Lemma skipn_skipn {A} (a b : nat) (l : list A) : skipn a (skipn b l) = skipn (b + a) l.
Proof.
  revert l. induction b as [|b IH]; intros l; [reflexivity|].
  destruct l as [|x l]; [destruct a; reflexivity|]. cbn [skipn Nat.add]. apply IH.
Qed.

Lemma r_advance_advance r a b : 0 <= a -> 0 <= b -> r_advance (r_advance r a) b = r_advance r (a + b).
Proof.
  intros Ha Hb. unfold r_advance. cbn [r_all r_rest r_pos r_total r_fault r_kind].
  rewrite skipn_skipn. f_equal; [|lia]. f_equal. lia.
Qed.

Lemma r_advance_0 r : r_advance r 0 = r.
Proof. unfold r_advance. cbn [Z.to_nat skipn]. rewrite Z.add_0_r. destruct r; reflexivity. Qed.

Lemma r_stop_advance r n : r_stop (r_advance r n) = r_stop r.
Proof. reflexivity. Qed.

(* the closed form of what io.ReadFull returns: count, error, reader afterwards *)
Definition read_full_result (r : reader) (n got : Z) : (Z * option rerr) * reader :=
  let '(stop, inj) := r_stop r in
  let avail := Z.max 0 (stop - r_pos r) in
  if n - got <=? avail then ((n, None), r_advance r (n - got))
  else ((got + avail, Some (if inj then RInjected else if got + avail =? 0 then REOF else RUnexpectedEOF)),
        r_advance r avail).

(* C08 (a): for EVERY chunk schedule (each Read returns between 1 and c bytes, c >= 1 arbitrary per call) with
   enough entries, the loop io.ReadFull runs ends with the same count, the same error and the same reader
   position as a single read of everything *)
Theorem read_full_loop_chunks chunks : forall r n got, 0 <= got <= n ->
  (Z.to_nat (n - got) < length chunks)%nat ->
  read_full_loop chunks r n got = read_full_result r n got.
Proof.
  induction chunks as [|c cs IH]; intros r n got Hg Hlen; [simpl in Hlen; lia|].
  cbn [read_full_loop]. unfold read_full_result.
  destruct (r_stop r) as [stop inj] eqn:Es.
  destruct (n <=? got) eqn:E1.
  - assert (n = got) by lia. subst. rewrite Z.sub_diag.
    destruct (0 <=? Z.max 0 (stop - r_pos r)) eqn:E2; [|lia]. rewrite r_advance_0. reflexivity.
  - unfold read_once. rewrite Es.
    destruct (stop <=? r_pos r) eqn:E2.
    + (* nothing left: the error *)
      replace (Z.max 0 (stop - r_pos r)) with 0 by lia.
      destruct (n - got <=? 0) eqn:E3; [lia|]. rewrite Z.add_0_r, r_advance_0.
      destruct inj; [reflexivity|]. destruct (got =? 0); reflexivity.
    + set (k := Z.min (Z.min (n - got) (Z.max 1 c)) (stop - r_pos r)).
      assert (Hk : 1 <= k <= n - got /\ k <= stop - r_pos r) by (unfold k; lia).
      rewrite IH; [|lia|simpl in Hlen; lia].
      unfold read_full_result. rewrite r_stop_advance, Es.
      cbn [r_advance r_pos].
      replace (Z.max 0 (stop - (r_pos r + k))) with (Z.max 0 (stop - r_pos r) - k) by lia.
      destruct (n - (got + k) <=? Z.max 0 (stop - r_pos r) - k) eqn:E3;
        destruct (n - got <=? Z.max 0 (stop - r_pos r)) eqn:E4; try lia.
      * rewrite r_advance_advance by lia. do 2 f_equal. lia.
      * rewrite r_advance_advance by lia.
        replace (got + k + (Z.max 0 (stop - r_pos r) - k)) with (got + Z.max 0 (stop - r_pos r)) by lia.
        replace (k + (Z.max 0 (stop - r_pos r) - k)) with (Z.max 0 (stop - r_pos r)) by lia. reflexivity.
Qed.

(* read_full is that closed form (with the bytes as well) *)
Lemma read_full_result_eq r n : 0 <= n ->
  let '((bs, e), r') := read_full r n in
  read_full_result r n 0 = ((Z.min n (Z.max 0 (fst (r_stop r) - r_pos r)), e), r').
Proof.
  intros Hn. unfold read_full, read_full_result. destruct (r_stop r) as [stop inj].
  rewrite Z.sub_0_r. cbn [fst]. destruct (n <=? Z.max 0 (stop - r_pos r)) eqn:E.
  - f_equal. f_equal. lia.
  - rewrite Z.add_0_l. f_equal. f_equal. lia.
Qed.

Corollary read_full_any_chunking chunks chunks' r n : 0 <= n ->
  (Z.to_nat n < length chunks)%nat -> (Z.to_nat n < length chunks')%nat ->
  read_full_loop chunks r n 0 = read_full_loop chunks' r n 0.
Proof.
  intros. rewrite !read_full_loop_chunks by lia. reflexivity.
Qed.

(* ---- auto-detection ---- *)

Definition fresh (r : reader) : Prop := r_rest r = r_all r /\ r_pos r = 0 /\ r_total r = Z.of_nat (length (r_all r)).

Lemma new_reader_fresh data f k : fresh (new_reader data f k).
Proof. unfold fresh, new_reader. cbn. auto. Qed.

Lemma r_seek0_fresh r n : fresh r -> r_seek0 (r_advance r n) = r.
Proof.
  intros [H1 [H2 H3]]. unfold r_seek0, r_advance. cbn [r_all r_total r_fault r_kind].
  destruct r as [all rest pos tot f k]. cbn in *. subst. reflexivity.
Qed.

(* the detection window of a fault-free reader *)
Definition window (r : reader) : list Z := pad_to (firstn (Z.to_nat detect_window) (r_rest r)) detect_window.

(* C08 (c), seekable reader: when the window holds a sync byte at 0 and the next one at `size`, detection
   returns `size` and the reader is back at the first byte: nothing is lost, nothing altered *)
Theorem auto_detect_seekable r size : fresh r -> r_kind r = Seekable -> r_fault r = None -> 0 < r_total r ->
  nth 0 (window r) 0 = syncByte -> find_sync (window r) 0 = Some size ->
  auto_detect r = (Ok size, r).
Proof.
  intros Hf Hk Hfault Hlen H0 Hs. unfold auto_detect. rewrite Hk.
  unfold read_full, r_stop. rewrite Hfault. destruct Hf as [H1 [H2 H3]]. unfold r_len. rewrite H2, Z.sub_0_r.
  unfold window in *.
  destruct (detect_window <=? Z.max 0 (r_total r)) eqn:E.
  - rewrite H0, Z.eqb_refl. cbn [negb]. rewrite Hs. f_equal. apply r_seek0_fresh. repeat split; assumption.
  - replace (Z.max 0 (r_total r)) with (r_total r) in * by lia.
    destruct (r_total r =? 0) eqn:E0; [lia|].
    assert (Hfn : firstn (Z.to_nat (r_total r)) (r_rest r) = firstn (Z.to_nat detect_window) (r_rest r)).
    { rewrite H1, H3, Nat2Z.id. rewrite firstn_all. rewrite firstn_all2; [reflexivity|]. unfold detect_window in *. lia. }
    rewrite Hfn, H0, Z.eqb_refl. cbn [negb]. rewrite Hs. f_equal. apply r_seek0_fresh. repeat split; assumption.
Qed.

(* bufio.Reader: Peek consumes nothing *)
Theorem auto_detect_bufio r size : fresh r -> r_kind r = Bufio -> r_fault r = None -> 0 < r_total r ->
  nth 0 (window r) 0 = syncByte -> find_sync (window r) 0 = Some size ->
  auto_detect r = (Ok size, r).
Proof.
  intros Hf Hk Hfault Hlen H0 Hs. unfold auto_detect. rewrite Hk.
  unfold read_full, r_stop. rewrite Hfault. destruct Hf as [H1 [H2 H3]]. unfold r_len. rewrite H2, Z.sub_0_r.
  unfold window in *.
  destruct (detect_window <=? Z.max 0 (r_total r)) eqn:E.
  - rewrite H0, Z.eqb_refl. cbn [negb]. rewrite Hs; reflexivity.
  - replace (Z.max 0 (r_total r)) with (r_total r) in * by lia.
    destruct (r_total r =? 0) eqn:E0; [lia|].
    assert (Hfn : firstn (Z.to_nat (r_total r)) (r_rest r) = firstn (Z.to_nat detect_window) (r_rest r)).
    { rewrite H1, H3, Nat2Z.id. rewrite firstn_all. rewrite firstn_all2; [reflexivity|]. unfold detect_window in *. lia. }
    rewrite Hfn, H0, Z.eqb_refl. cbn [negb]. rewrite Hs; reflexivity.
Qed.

(* find_sync: the first sync byte at an index >= 188 *)
Lemma find_sync_spec bs : forall idx size, find_sync bs idx = Some size ->
  idx <= size /\ C_MpegTsPacketSize <= size /\ nth (Z.to_nat (size - idx)) bs 0 = syncByte /\
  (forall j, idx <= j < size -> C_MpegTsPacketSize <= j -> nth (Z.to_nat (j - idx)) bs 0 <> syncByte).
Proof.
  induction bs as [|b r IH]; intros idx size H; [discriminate|].
  cbn [find_sync] in H. destruct ((b =? syncByte) && (C_MpegTsPacketSize <=? idx)) eqn:E.
  - inversion H; subst. apply andb_true_iff in E. destruct E as [E1 E2].
    rewrite Z.sub_diag. cbn. repeat split; try lia; intros; lia.
  - destruct (IH _ _ H) as [H1 [H2 [H3 H4]]]. repeat split; try lia.
    + replace (Z.to_nat (size - idx)) with (S (Z.to_nat (size - (idx + 1)))) by lia. exact H3.
    + intros j Hj Hj2. destruct (Z.eq_dec j idx) as [->|Hne].
      * rewrite Z.sub_diag. cbn. intros Hb. rewrite Hb, Z.eqb_refl in E. cbn in E. lia.
      * replace (Z.to_nat (j - idx)) with (S (Z.to_nat (j - (idx + 1)))) by lia. apply H4; lia.
Qed.

(* a reader that can neither seek nor peek: the window and the resynchronisation read consume exactly two packets *)
Theorem auto_detect_plain r size : fresh r -> r_kind r = Plain -> r_fault r = None ->
  detect_window <= r_total r -> 2 * size <= r_total r -> detect_window <= 2 * size ->
  nth 0 (window r) 0 = syncByte -> find_sync (window r) 0 = Some size ->
  auto_detect r = (Ok size, r_advance r (2 * size)).
Proof.
  intros Hf Hk Hfault Hlen H2s Hw H0 Hs. unfold auto_detect. rewrite Hk.
  unfold read_full at 1. unfold r_stop. rewrite Hfault. destruct Hf as [H1 [H2 H3]]. unfold r_len. rewrite H2, Z.sub_0_r.
  unfold window in *.
  destruct (detect_window <=? Z.max 0 (r_total r)) eqn:E; [|lia].
  rewrite H0, Z.eqb_refl. cbn [negb]. rewrite Hs.
  unfold read_full, r_stop. change (r_fault (r_advance r detect_window)) with (r_fault r). rewrite Hfault.
  unfold r_len. change (r_total (r_advance r detect_window)) with (r_total r).
  change (r_pos (r_advance r detect_window)) with (r_pos r + detect_window). rewrite H2.
  destruct (size - (detect_window - size) <=? Z.max 0 (r_total r - (0 + detect_window))) eqn:E2; [|lia].
  rewrite r_advance_advance by (unfold detect_window in *; lia). f_equal. f_equal. lia.
Qed.
