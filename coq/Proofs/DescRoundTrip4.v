(* C14, per-tag round trips, fourth part: local time offset (EN 300 468 6.2.20).  The date/time and BCD duration
   fields go through Model/Dvb.v; their own round trips are property C15 (Proofs/DvbProofs.v, by complete
   enumeration), used here at an arbitrary position of the buffer. *)
From Coq Require Import ZArith List Lia Bool ZifyBool.
Require Import Base.Bits Base.Iter Base.Wr Gen.Consts Gen.Types Gen.Preds Model.Dvb Model.Desc Spec.DescSpec Spec.DvbSpec
  Proofs.DvbProofs Proofs.DescProofs Proofs.DescRoundTrip2.
Import ListNotations.
Open Scope Z_scope.

(* ---- the DVB parsers at any position ---- *)

Lemma parse_minutes_step pre b0 b1 rest :
  parse_dvb_duration_minutes (mk_iter (pre ++ b0 :: b1 :: rest) (zlen pre)) =
  Ok (parse_dvb_duration_byte b0 * ns_hour + parse_dvb_duration_byte b1 * ns_minute,
      mk_iter ((pre ++ [b0; b1]) ++ rest) (zlen (pre ++ [b0; b1]))).
Proof.
  unfold parse_dvb_duration_minutes, ibind. change (b0 :: b1 :: rest) with ([b0; b1] ++ rest).
  rewrite next_bytes_nocopy_step by reflexivity. reflexivity.
Qed.

Lemma parse_time_step pre b0 b1 b2 b3 b4 rest :
  parse_dvb_time (mk_iter (pre ++ b0 :: b1 :: b2 :: b3 :: b4 :: rest) (zlen pre)) =
  Ok (dvb_date_unix (b0 * 256 + b1) + dur3_ns b2 b3 b4 / ns_second,
      mk_iter ((pre ++ [b0; b1; b2; b3; b4]) ++ rest) (zlen (pre ++ [b0; b1; b2; b3; b4]))).
Proof.
  unfold parse_dvb_time, parse_dvb_duration_seconds, ibind.
  change (b0 :: b1 :: b2 :: b3 :: b4 :: rest) with ([b0; b1] ++ [b2; b3; b4] ++ rest).
  rewrite next_bytes_nocopy_step by reflexivity. rewrite next_bytes_nocopy_step by reflexivity.
  unfold iret. apply ok_pair_eq; [reflexivity|rewrite <- !app_assoc; reflexivity|rewrite !zlen_app, !zlen_cons, !zlen_nil; lia].
Qed.

(* ---- the values behind them (from the C15 lemmas, which are stated at the start of a buffer) ---- *)

Lemma minutes_value h m : 0 <= h <= 99 -> 0 <= m <= 59 ->
  bytes_of_items (enc_dvb_duration_minutes (spec_duration_ns h m 0)) = [bcd_byte h; bcd_byte m] /\
  parse_dvb_duration_byte (bcd_byte h) * ns_hour + parse_dvb_duration_byte (bcd_byte m) * ns_minute = spec_duration_ns h m 0.
Proof.
  intros Hh Hm. split; [apply enc_duration_minutes_bytes; lia|].
  pose proof (decode_duration_minutes h m [] ltac:(lia) ltac:(lia)) as D. cbn [app] in D.
  rewrite parse_duration_minutes_bytes in D. inversion D. reflexivity.
Qed.

Definition dvb_time_range (u : Z) : Prop := 86400 * (15079 - 40587) <= u <= 86400 * (65535 - 40587) + 86399.

Lemma time_value u : dvb_time_range u ->
  exists b0 b1 b2 b3 b4, bytes_of_items (enc_dvb_time u) = [b0; b1; b2; b3; b4] /\
    dvb_date_unix (b0 * 256 + b1) + dur3_ns b2 b3 b4 / ns_second = u.
Proof.
  intros Hu. assert (Hu' : 86400 * (mjd_lo - 40587) <= u <= 86400 * (mjd_hi - 40587) + 86399) by exact Hu.
  pose proof (roundtrip_unix u [] Hu') as R.
  destruct (unix_in_range u Hu') as (mjd & h & m & s & Hmjd & Hh & Hm & Hs & Eu).
  destruct (encode_joint mjd h m s Hmjd Hh Hm Hs) as [E _]. rewrite <- Eu in E. rewrite E in *. unfold spec_time_bytes in *.
  do 5 eexists. split; [reflexivity|]. cbn [app] in R. rewrite parse_time_bytes in R. inversion R as [HR]. rewrite HR. reflexivity.
Qed.

(* ---- one item ---- *)

(* offsets are whole minutes hh:mm with two BCD digits each; the time of change is a second between
   1900-03-01 00:00:00 and 2038-04-22 23:59:59 UTC (the range of the 16-bit MJD, property C15) *)
Definition bcd_minutes (ns : Z) : Prop := exists h m, 0 <= h <= 99 /\ 0 <= m <= 59 /\ ns = spec_duration_ns h m 0.

Definition wf_local_time_offset_item (it : DescriptorLocalTimeOffsetItem) : Prop :=
  length (DescriptorLocalTimeOffsetItem_CountryCode it) = 3%nat /\
  0 <= DescriptorLocalTimeOffsetItem_CountryRegionID it < 64 /\
  bcd_minutes (DescriptorLocalTimeOffsetItem_LocalTimeOffset it) /\
  dvb_time_range (DescriptorLocalTimeOffsetItem_TimeOfChange it) /\
  bcd_minutes (DescriptorLocalTimeOffsetItem_NextTimeOffset it).

Lemma local_time_offset_item_rt it : wf_local_time_offset_item it ->
  item_rt local_time_offset_item enc_local_time_offset_item (fun _ => 13) it.
Proof.
  intros (H3 & Hreg & (h1 & m1 & Hh1 & Hm1 & E1) & Htoc & (h2 & m2 & Hh2 & Hm2 & E2)).
  destruct it as [cc region lto pol nto toc].
  cbn [DescriptorLocalTimeOffsetItem_CountryCode DescriptorLocalTimeOffsetItem_CountryRegionID DescriptorLocalTimeOffsetItem_LocalTimeOffset
       DescriptorLocalTimeOffsetItem_LocalTimeOffsetPolarity DescriptorLocalTimeOffsetItem_NextTimeOffset
       DescriptorLocalTimeOffsetItem_TimeOfChange] in *.
  unfold item_rt, enc_local_time_offset_item.
  cbn [DescriptorLocalTimeOffsetItem_CountryCode DescriptorLocalTimeOffsetItem_CountryRegionID DescriptorLocalTimeOffsetItem_LocalTimeOffset
       DescriptorLocalTimeOffsetItem_LocalTimeOffsetPolarity DescriptorLocalTimeOffsetItem_NextTimeOffset
       DescriptorLocalTimeOffsetItem_TimeOfChange].
  intros Hok. split; [bl; rewrite !bitlen_enc_dvb_duration_minutes, bitlen_enc_dvb_time; reflexivity|]. split; [lia|].
  intros pre rest.
  destruct (bytes_of_items_code3 cc _ H3 Hok) as (Hcc & Hr1 & ->).
  set (g1 := [WBits 6 region; WBits 1 255; WBool pol]) in *.
  pose proof Hr1 as Hr2. apply items_bytes_ok_app_inv in Hr2. destruct Hr2 as [_ Hr2].
  pose proof Hr2 as Hr3. apply items_bytes_ok_app_inv in Hr3. destruct Hr3 as [Hm1ok Hr3].
  pose proof Hr3 as Hr4. apply items_bytes_ok_app_inv in Hr4. destruct Hr4 as [Htok Hm2ok].
  destruct (bytes_of_items_group1 g1 _ ltac:(unfold g1; iok) Hr2 ltac:(unfold g1; bl; reflexivity)) as (b & -> & B).
  rewrite (bytes_of_items_app _ _ 2) by (try assumption; apply bitlen_enc_dvb_duration_minutes).
  rewrite (bytes_of_items_app _ _ 5) by (try assumption; apply bitlen_enc_dvb_time).
  subst lto nto.
  destruct (minutes_value h1 m1 Hh1 Hm1) as [-> V1]. destruct (minutes_value h2 m2 Hh2 Hm2) as [-> V2].
  destruct (time_value toc Htoc) as (t0 & t1 & t2 & t3 & t4 & -> & VT).
  cbn [app]. rewrite <- !app_assoc. cbn [app].
  unfold local_time_offset_item, ibind. rewrite next_bytes_step by (apply zlen_3; exact H3).
  rewrite next_byte_step. rewrite parse_minutes_step. rewrite parse_time_step. rewrite parse_minutes_step.
  rewrite V1, V2, VT.
  unfold bitb, bitsf. rewrite B. unfold g1, items_bits. cbn [flat_map item_bits app].
  rewrite (field_here 6 region) by exact Hreg.
  rewrite (field_skip 6 region) by lia. change (7 - 6)%nat with 1%nat. rewrite (field_skip 1 255) by lia. change (1 - 1)%nat with 0%nat.
  rewrite field_bit_here, b2z_eqb.
  pose proof (zlen_3 cc H3). fin_run. reflexivity.
Qed.

Lemma brt_local_time_offset d v :
  Descriptor_Tag d = 88 -> Descriptor_LocalTimeOffset d = Some v -> Forall wf_local_time_offset_item (DescriptorLocalTimeOffset_Items v) ->
  body_rt d (set_LocalTimeOffset (desc_hdr 88 (13 * zlen (DescriptorLocalTimeOffset_Items v))) v).
Proof.
  intros Ht Hv HF.
  assert (Hs : desc_size d = 13 * zlen (DescriptorLocalTimeOffset_Items v)) by (unfold desc_size; rewrite Ht, Hv; reflexivity).
  apply (flat_map_body_rt local_time_offset_item enc_local_time_offset_item (fun _ => 13) (DescriptorLocalTimeOffset_Items v) d _
           (fun items => set_LocalTimeOffset (desc_hdr 88 (13 * zlen (DescriptorLocalTimeOffset_Items v))) {| DescriptorLocalTimeOffset_Items := items |})).
  - eapply Forall_impl; [|exact HF]. intros it. apply local_time_offset_item_rt.
  - unfold enc_descriptor_body. rewrite Ht, Hv. reflexivity.
  - intros e i. rewrite Ht, Hs. loop_parser new_descriptor_local_time_offset.
  - destruct v. reflexivity.
Qed.

Theorem rt_local_time_offset d v out rest :
  Descriptor_Tag d = 88 -> Descriptor_LocalTimeOffset d = Some v -> Forall wf_local_time_offset_item (DescriptorLocalTimeOffset_Items v) ->
  0 < zlen (DescriptorLocalTimeOffset_Items v) < 20 ->
  enc_descriptors_with_length [d] = Ok out -> items_bytes_ok out ->
  parse_descriptors (new_iter (bytes_of_items out ++ rest)) =
    Ok ([set_LocalTimeOffset (desc_hdr 88 (13 * zlen (DescriptorLocalTimeOffset_Items v))) v],
        mk_iter (bytes_of_items out ++ rest) (4 + 13 * zlen (DescriptorLocalTimeOffset_Items v))).
Proof.
  intros Ht Hv HF Hn H Hok.
  assert (Hs : desc_size d = 13 * zlen (DescriptorLocalTimeOffset_Items v)) by (unfold desc_size; rewrite Ht, Hv; reflexivity).
  rewrite <- Hs at 2. apply rt_of_brt; try assumption; [apply brt_local_time_offset; assumption|rewrite Ht; lia|lia].
Qed.
