(* The hand-written WRITERS of Model/Clock.v and Model/Packet.v ARE what go/gen/writegen.go regenerates from the
   current /repo/packet.go (Gen/WriteGen.v): writePCR, writePTSOrDTS, writePacketHeader,
   writePacketAdaptationFieldExtension, writePacketAdaptationField and writePacket.

   For each function f and every argument: wf_sim (WriteGen.f args) (model args) (Proofs/WriteGenBase.v) — when the
   model succeeds the generated function returns the model's byte count and nil, hands the BitsWriter the same items in
   the same order (up to the bits a w-bit write ignores), none of them through a w.Write whose result is discarded; when
   the model returns an error / panics so does the generated function.  An edit of one of these Go functions regenerates
   Gen/WriteGen.v and the corresponding lemma stops checking; a function that leaves the translator's grammar is absent
   from Gen/WriteGen.v and breaks the same lemma.

   The two loop lemmas (stuffing bytes of the adaptation field, 0xFF fill of the packet) are stated over the generated
   Fixpoints and therefore over the list of variables in scope at the loop: adding a local variable in front of one of
   these loops changes that list and needs the lemma restated (a harmless rewrite that is reported as a broken proof). *)
From Coq Require Import ZArith List Lia Bool ZifyBool.
Require Import Base.Bits Base.Iter Base.Wr Gen.Consts Gen.Types Gen.Preds Gen.MuxGen Gen.WriteGen
  Model.Clock Model.Packet Proofs.WriteGenBase.
Import ListNotations.
Open Scope Z_scope.

Ltac wleaf f model :=
  unfold f; wsimpl; unfold wf_sim, wf_ok, model; cbn [fst snd];
  split; [reflexivity | split; [norm_items | reflexivity]].

Lemma writePCR_is_model cr : wf_sim (writePCR cr) (Ok (enc_pcr cr, C_pcrBytesSize)).
Proof. wleaf writePCR enc_pcr. Qed.

Lemma writePTSOrDTS_is_model flag cr : wf_sim (writePTSOrDTS flag cr) (Ok (enc_pts_or_dts flag cr, C_ptsOrDTSByteLength)).
Proof. wleaf writePTSOrDTS enc_pts_or_dts. Qed.

Lemma writePacketHeader_is_model h : wf_sim (writePacketHeader h) (Ok (enc_packet_header h, C_mpegTsPacketHeaderSize)).
Proof. wleaf writePacketHeader enc_packet_header. Qed.

(* use a callee lemma: replaces the call by its shape *)
Ltac wcallee H :=
  let l := fresh "l" in let E := fresh "E" in let Hn := fresh "Hn" in let Hd := fresh "Hd" in
  destruct (wf_sim_ok_inv _ _ _ H) as (l & E & Hn & Hd); rewrite E; clear E.

Ltac wcount := first [ reflexivity | apply f_equal; apply f_equal2; [ first [ reflexivity | lia ] | reflexivity ] ].
Ltac witems :=
  unfold wu8, wu16, wu32, repeat_item; rewrite ?Z.sub_0_r;
  repeat first
    [ reflexivity
    | rewrite map_app
    | rewrite map_nsnd_repeat
    | rewrite map_norm_repeat
    | match goal with H : map nsnd ?l = _ |- context [map nsnd ?l] => rewrite H end
    | progress cbn [map nsnd norm snd fst]
    | apply f_equal2; [ first [ reflexivity | f_equal; mod_norm ] | ]
    | lia ].
Ltac wnd :=
  unfold nd in *;
  repeat first
    [ rewrite forallb_app
    | progress cbn [forallb kept fst andb]
    | match goal with H : forallb kept ?l = true |- context [forallb kept ?l] => rewrite H end
    | rewrite forallb_kept_repeat by reflexivity ];
  reflexivity.
Ltac wfinish :=
  unfold wf_sim, wf_ok; cbn [fst snd]; rewrite ?app_nil_r;
  split; [ wcount | split; [ witems | wnd ] ].

Lemma writeAFE_is_model afe : wf_sim (writePacketAdaptationFieldExtension afe) (enc_af_extension afe).
Proof.
  unfold writePacketAdaptationFieldExtension, enc_af_extension.
  destruct (PacketAdaptationExtensionField_HasLegalTimeWindow afe),
           (PacketAdaptationExtensionField_HasPiecewiseRate afe),
           (PacketAdaptationExtensionField_HasSeamlessSplice afe);
  try (destruct (PacketAdaptationExtensionField_DTSNextAccessUnit afe) as [dts|]; [| wsimpl; reflexivity]);
  cbn [need res_bind]; wsimpl;
  try (wcallee (writePTSOrDTS_is_model (PacketAdaptationExtensionField_SpliceType afe) dts); wsimpl).
  all: wfinish.
Qed.

Lemma af_loop_is n : forall af bw i len e,
  writePacketAdaptationField_loop1 n af bw i len e =
  (repeat (WBatch, WBits 8 (255 mod 256)) n, WVal (bw + Z.of_nat n, i + Z.of_nat n)).
Proof.
  induction n as [|n IH]; intros.
  - cbn [writePacketAdaptationField_loop1 wret repeat Z.of_nat]. rewrite !Z.add_0_r. reflexivity.
  - cbn [writePacketAdaptationField_loop1]. rewrite IH. wsimpl. cbn [repeat].
    apply f_equal2; [reflexivity|]. apply f_equal. apply f_equal2; lia.
Qed.

Lemma writeAF_is_model af : wf_sim (writePacketAdaptationField af) (enc_adaptation_field af).
Proof.
  unfold writePacketAdaptationField, enc_adaptation_field.
  destruct (PacketAdaptationField_IsOneByteStuffing af); wsimpl; [wfinish|].
  destruct (PacketAdaptationField_HasPCR af);
    [destruct (PacketAdaptationField_PCR af) as [pcr|]; [|wsimpl; reflexivity]; cbn [need res_map res_bind]; wsimpl;
     wcallee (writePCR_is_model pcr); wsimpl | cbn [res_bind]; wsimpl].
  all: destruct (PacketAdaptationField_HasOPCR af);
    [destruct (PacketAdaptationField_OPCR af) as [opcr|]; [|wsimpl; reflexivity]; cbn [need res_map res_bind]; wsimpl;
     wcallee (writePCR_is_model opcr); wsimpl | cbn [res_bind]; wsimpl].
  all: destruct (PacketAdaptationField_HasSplicingCountdown af); wsimpl.
  all: destruct (PacketAdaptationField_HasTransportPrivateData af); wsimpl;
    [destruct (Z.of_nat (length (PacketAdaptationField_TransportPrivateData af)) >? 0); wsimpl|].
  all: destruct (PacketAdaptationField_HasAdaptationExtensionField af); cbn [res_bind]; wsimpl.
  all: try (destruct (PacketAdaptationField_AdaptationExtensionField af) as [ext|]; [|cbn [need res_bind]; wsimpl; reflexivity];
            cbn [need res_bind]; wsimpl;
            pose proof (writeAFE_is_model ext) as HX;
            destruct (enc_af_extension ext) as [[xi xn]|c|];
            [ wcallee HX; wsimpl
            | destruct (wf_sim_err_inv _ _ HX) as (lx & ax & ex & EX & Hx); rewrite EX; wsimpl;
              rewrite (werr_not_nil _ _ Hx); wsimpl; cbn [res_bind wf_sim snd]; eauto
            | destruct (wf_sim_panic_inv _ HX) as (lx & EX); rewrite EX; wsimpl; reflexivity ]).
  all: cbn [res_bind]; rewrite af_loop_is; wsimpl.
  all: wfinish.
Qed.

Lemma packet_loop_is n : forall av n0 p t w,
  writePacket_loop1 n av n0 p ENil t w =
  (repeat (WDirect, WBits 8 (255 mod 256)) n, WVal (ENil, w + Z.of_nat n)).
Proof.
  induction n as [|n IH]; intros.
  - cbn [writePacket_loop1 wret repeat Z.of_nat]. rewrite Z.add_0_r. reflexivity.
  - cbn [writePacket_loop1]. wsimpl. rewrite IH. cbn [repeat].
    apply f_equal2; [reflexivity|]. apply f_equal. apply f_equal2; [reflexivity|lia].
Qed.

Definition enc_packet_n (p : Packet) (target : Z) : res (list witem * Z) :=
  res_map (fun items => (items, target)) (enc_packet p target).

Ltac wconds :=
  repeat match goal with
  | |- context [if ?c then _ else _] => let E := fresh "C" in destruct c eqn:E; wsimpl; cbn [res_bind res_map]
  end.

Lemma writePacket_is_model p t : wf_sim (writePacket p t) (enc_packet_n p t).
Proof.
  unfold writePacket, enc_packet_n, enc_packet.
  destruct (PacketHeader_HasAdaptationField (Packet_Header p)).
  - destruct (Packet_AdaptationField p) as [af|]; [|wsimpl; reflexivity].
    cbn [need res_bind]. wsimpl.
    destruct (PacketAdaptationField_StuffingLength af <? 0) eqn:C0; wsimpl; cbn [res_bind res_map wf_sim snd]; [eauto|].
    destruct (_ <? Z.of_nat (length (Packet_Payload p))) eqn:C1; wsimpl; cbn [res_bind res_map wf_sim snd]; [eauto|].
    wcallee (writePacketHeader_is_model (Packet_Header p)). wsimpl.
    pose proof (writeAF_is_model af) as HA.
    destruct (enc_adaptation_field af) as [[ai an]|c|].
    + wcallee HA. wsimpl. cbn [res_bind].
      wconds; try (exfalso; lia); cbn [wf_sim res_map snd]; eauto.
      all: rewrite packet_loop_is; wsimpl; wfinish.
    + destruct (wf_sim_err_inv _ _ HA) as (lx & ax & ex & EX & Hx). rewrite EX. wsimpl.
      rewrite (werr_not_nil _ _ Hx). wsimpl. cbn [res_bind res_map wf_sim snd]. eauto.
    + destruct (wf_sim_panic_inv _ HA) as (lx & EX). rewrite EX. wsimpl. reflexivity.
  - wsimpl. cbn [res_bind].
    destruct (_ <? Z.of_nat (length (Packet_Payload p))) eqn:C1; wsimpl; cbn [res_bind res_map wf_sim snd]; [eauto|].
    wcallee (writePacketHeader_is_model (Packet_Header p)). wsimpl.
    wconds; try (exfalso; lia); cbn [wf_sim res_map snd]; eauto.
    all: rewrite packet_loop_is; wsimpl; wfinish.
Qed.

(* ---- the statement Props/C11.v and Props/C04.v quote ---- *)

Theorem packet_writers_are_source :
  (forall cr, wf_sim (WriteGen.writePCR cr) (Ok (enc_pcr cr, C_pcrBytesSize))) /\
  (forall flag cr, wf_sim (WriteGen.writePTSOrDTS flag cr) (Ok (enc_pts_or_dts flag cr, C_ptsOrDTSByteLength))) /\
  (forall h, wf_sim (WriteGen.writePacketHeader h) (Ok (enc_packet_header h, C_mpegTsPacketHeaderSize))) /\
  (forall afe, wf_sim (WriteGen.writePacketAdaptationFieldExtension afe) (enc_af_extension afe)) /\
  (forall af, wf_sim (WriteGen.writePacketAdaptationField af) (enc_adaptation_field af)) /\
  (forall p target, wf_sim (WriteGen.writePacket p target) (enc_packet_n p target)).
Proof.
  refine (conj _ (conj _ (conj _ (conj _ (conj _ _))))); intros.
  - apply writePCR_is_model.
  - apply writePTSOrDTS_is_model.
  - apply writePacketHeader_is_model.
  - apply writeAFE_is_model.
  - apply writeAF_is_model.
  - apply writePacket_is_model.
Qed.

(* what that means for the bytes: a successful write_packet of the model is, Write call for Write call, what the
   generated writePacket hands to the io.Writer, and the count it returns is the target size *)
Corollary write_packet_is_source p target bs : write_packet p target = Ok bs ->
  exists l, WriteGen.writePacket p target = (l, Some (target, ENil)) /\
            bytes_of_items (map snd l) = bs /\
            (forall items, enc_packet p target = Ok items -> chunks_of (map snd l) = chunks_of items) /\
            nd l = true.
Proof.
  unfold write_packet. intros H. pose proof (writePacket_is_model p target) as S. unfold enc_packet_n in S.
  destruct (enc_packet p target) as [items|c|]; cbn [res_map] in *; try discriminate.
  inversion H; subst bs. destruct (wf_ok_chunks _ _ _ S) as (S1 & S2 & S3 & S4).
  destruct (WriteGen.writePacket p target) as [l o]. cbn [fst snd] in *. subst o.
  exists l. repeat split; auto. intros items' E. inversion E; subst. exact S2.
Qed.
