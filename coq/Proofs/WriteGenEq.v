(* The hand-written WRITERS of Model/Clock.v and Model/Packet.v ARE what go/gen/writegen.go regenerates from the
   current /repo/packet.go (Gen/WriteGen.v): writePCR, writePTSOrDTS, writePacketHeader,
   writePacketAdaptationFieldExtension, writePacketAdaptationField and writePacket.

   For each function f and every argument: wf_sim (WriteGen.f args) (model args) (Proofs/WriteGenBase.v) — when the
   model succeeds the generated function returns the model's byte count and nil, hands the BitsWriter the same items in
   the same order (up to the bits a w-bit write ignores), none of them through a w.Write whose result is discarded; when
   the model returns an error / panics so does the generated function.  An edit of one of these Go functions regenerates
   Gen/WriteGen.v and the corresponding lemma stops checking; a function that leaves the translator's grammar is absent
   from Gen/WriteGen.v and breaks the same lemma.

   The two loop lemmas (stuffing bytes of the adaptation field, 0xFF fill of the packet) are stated over the generated
   Fixpoints and therefore over the list of variables in scope at the loop: adding a local variable in front of one of
   these loops changes that list and needs the lemma restated (a harmless rewrite that is reported as a broken proof). *)
From Coq Require Import ZArith List Lia Bool ZifyBool.
Require Import Base.Bits Base.Iter Base.Wr Gen.Consts Gen.Types Gen.Preds Gen.MuxGen Gen.WriteGen
  Model.Clock Model.Packet Proofs.WriteGenBase.
Import ListNotations.
Open Scope Z_scope.

Ltac wmodel_cbn ::= cbn [need res_map res_bind].
Ltac wmodel_unfold ::= unfold repeat_item.

Ltac wleaf f model := unfold f, model; wsimpl; wfinish.

Lemma writePCR_is_model cr : wf_sim (writePCR cr) (Ok (enc_pcr cr, C_pcrBytesSize)).
Proof. wleaf writePCR enc_pcr. Qed.

Lemma writePTSOrDTS_is_model flag cr : wf_sim (writePTSOrDTS flag cr) (Ok (enc_pts_or_dts flag cr, C_ptsOrDTSByteLength)).
Proof. wleaf writePTSOrDTS enc_pts_or_dts. Qed.

Lemma writePacketHeader_is_model h : wf_sim (writePacketHeader h) (Ok (enc_packet_header h, C_mpegTsPacketHeaderSize)).
Proof. wleaf writePacketHeader enc_packet_header. Qed.

Ltac wcall1 ::=
  match goal with
  | |- context [wbind (wcall (writePTSOrDTS ?f ?c)) ?k] => wcallee (writePTSOrDTS_is_model f c)
  | |- context [wbind (wcall (writePCR ?c)) ?k] => wcallee (writePCR_is_model c)
  | |- context [wbind (wcall (writePacketHeader ?c)) ?k] => wcallee (writePacketHeader_is_model c)
  end.

Lemma writeAFE_is_model afe : wf_sim (writePacketAdaptationFieldExtension afe) (enc_af_extension afe).
Proof.
  unfold writePacketAdaptationFieldExtension, enc_af_extension.
  (* the model computes the flag-dependent parts up front: make them symbolic in the same way *)
  wstep; wfinish.
Qed.

(* for i := 0; i < af.StuffingLength; i++ { b.Write(uint8(0xff)); bytesWritten++ } *)
Lemma af_loop_is n : forall af bw i len e,
  writePacketAdaptationField_loop1 n af bw e len i =
  (repeat (WBatch, WBits 8 (255 mod 256)) n, WVal (bw + Z.of_nat n, i + Z.of_nat n)).
Proof.
  induction n as [|n IH]; intros.
  - cbn [writePacketAdaptationField_loop1 wret repeat Z.of_nat]. rewrite !Z.add_0_r. reflexivity.
  - cbn [writePacketAdaptationField_loop1]. rewrite IH. wsimpl. cbn [repeat].
    apply f_equal2; [reflexivity|]. apply f_equal. apply f_equal2; lia.
Qed.

Lemma writeAF_is_model af : wf_sim (writePacketAdaptationField af) (enc_adaptation_field af).
Proof.
  unfold writePacketAdaptationField, enc_adaptation_field.
  wstep.
  all: try match goal with |- context [wbind (wcall (writePacketAdaptationFieldExtension ?e)) ?k] =>
             wcall_res (writeAFE_is_model e); wmodel_cbn; wstep end.
  all: try solve [wfinish].
  all: rewrite af_loop_is; wsimpl; wfinish.
Qed.

Lemma packet_loop_is n : forall av n0 p t w,
  writePacket_loop1 n p t w ENil av n0 =
  (repeat (WDirect, WBits 8 (255 mod 256)) n, WVal (w + Z.of_nat n, ENil)).
Proof.
  induction n as [|n IH]; intros.
  - cbn [writePacket_loop1 wret repeat Z.of_nat]. rewrite Z.add_0_r. reflexivity.
  - cbn [writePacket_loop1]. wsimpl. rewrite IH. cbn [repeat].
    apply f_equal2; [reflexivity|]. apply f_equal. apply f_equal2; [lia|reflexivity].
Qed.

Definition enc_packet_n (p : Packet) (target : Z) : res (list witem * Z) :=
  res_map (fun items => (items, target)) (enc_packet p target).

Ltac wconds :=
  repeat match goal with
  | |- context [if ?c then _ else _] => let E := fresh "C" in destruct c eqn:E; wsimpl; cbn [res_bind res_map]
  end.

Lemma writePacket_is_model p t : wf_sim (writePacket p t) (enc_packet_n p t).
Proof.
  unfold writePacket, enc_packet_n, enc_packet.
  destruct (PacketHeader_HasAdaptationField (Packet_Header p)).
  - destruct (Packet_AdaptationField p) as [af|]; [|wsimpl; reflexivity].
    cbn [need res_bind]. wsimpl.
    destruct (PacketAdaptationField_StuffingLength af <? 0) eqn:C0; wsimpl; cbn [res_bind res_map wf_sim snd]; [eauto|].
    destruct (_ <? Z.of_nat (length (Packet_Payload p))) eqn:C1; wsimpl; cbn [res_bind res_map wf_sim snd]; [eauto|].
    wcallee (writePacketHeader_is_model (Packet_Header p)). wsimpl.
    pose proof (writeAF_is_model af) as HA.
    destruct (enc_adaptation_field af) as [[ai an]|c|].
    + wcallee HA. wsimpl. cbn [res_bind].
      wconds; try (exfalso; lia); cbn [wf_sim res_map snd]; eauto.
      all: rewrite packet_loop_is; wsimpl; wfinish.
    + destruct (wf_sim_err_inv _ _ HA) as (lx & ax & ex & EX & Hx). rewrite EX. wsimpl.
      rewrite (werr_not_nil _ _ Hx). wsimpl. cbn [res_bind res_map wf_sim snd]. eauto.
    + destruct (wf_sim_panic_inv _ HA) as (lx & EX). rewrite EX. wsimpl. reflexivity.
  - wsimpl. cbn [res_bind].
    destruct (_ <? Z.of_nat (length (Packet_Payload p))) eqn:C1; wsimpl; cbn [res_bind res_map wf_sim snd]; [eauto|].
    wcallee (writePacketHeader_is_model (Packet_Header p)). wsimpl.
    wconds; try (exfalso; lia); cbn [wf_sim res_map snd]; eauto.
    all: rewrite packet_loop_is; wsimpl; wfinish.
Qed.

(* ---- the statement Props/C11.v and Props/C04.v quote ---- *)

Theorem packet_writers_are_source :
  (forall cr, wf_sim (WriteGen.writePCR cr) (Ok (enc_pcr cr, C_pcrBytesSize))) /\
  (forall flag cr, wf_sim (WriteGen.writePTSOrDTS flag cr) (Ok (enc_pts_or_dts flag cr, C_ptsOrDTSByteLength))) /\
  (forall h, wf_sim (WriteGen.writePacketHeader h) (Ok (enc_packet_header h, C_mpegTsPacketHeaderSize))) /\
  (forall afe, wf_sim (WriteGen.writePacketAdaptationFieldExtension afe) (enc_af_extension afe)) /\
  (forall af, wf_sim (WriteGen.writePacketAdaptationField af) (enc_adaptation_field af)) /\
  (forall p target, wf_sim (WriteGen.writePacket p target) (enc_packet_n p target)).
Proof.
  refine (conj _ (conj _ (conj _ (conj _ (conj _ _))))); intros.
  - apply writePCR_is_model.
  - apply writePTSOrDTS_is_model.
  - apply writePacketHeader_is_model.
  - apply writeAFE_is_model.
  - apply writeAF_is_model.
  - apply writePacket_is_model.
Qed.

(* what that means for the bytes: a successful write_packet of the model is, Write call for Write call, what the
   generated writePacket hands to the io.Writer, and the count it returns is the target size *)
Corollary write_packet_is_source p target bs : write_packet p target = Ok bs ->
  exists l, WriteGen.writePacket p target = (l, Some (target, ENil)) /\
            bytes_of_items (map snd l) = bs /\
            (forall items, enc_packet p target = Ok items -> chunks_of (map snd l) = chunks_of items) /\
            nd l = true.
Proof.
  unfold write_packet. intros H. pose proof (writePacket_is_model p target) as S. unfold enc_packet_n in S.
  destruct (enc_packet p target) as [items|c|]; cbn [res_map] in *; try discriminate.
  inversion H; subst bs. destruct (wf_ok_chunks _ _ _ S) as (S1 & S2 & S3 & S4).
  destruct (WriteGen.writePacket p target) as [l o]. cbn [fst snd] in *. subst o.
  exists l. repeat split; auto. intros items' E. inversion E; subst. exact S2.
Qed.
