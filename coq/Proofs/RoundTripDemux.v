(* C01, stream level: successive NextData calls of a demuxer (packet size 188 given, no skipper, no packets parser)
   whose reader holds a sequence of 188-byte packets, expressed over the list of parsed packets:
     [feed]       what the pool and the unit parsers produce while the packets are consumed,
     [drain_data] what the end-of-stream drain produces,
     [nd_all]     the results of the calls up to ErrNoMorePackets = the data of feed, then of drain_data.
   The reader / packetBuffer part rests on C19_reader_refinement (pb_next_refines). *)
From Coq Require Import ZArith List Lia Bool ZifyBool.
Require Import Base.Bits Base.Iter Gen.Consts Gen.Types Gen.Preds Model.Packet Model.Pool Model.PoolRun
  Model.Reader Model.Demux Proofs.ReaderProofs Proofs.DemuxProofs.
Import ListNotations.
Open Scope Z_scope.

(* ---------------- a demuxer positioned on a list of packet buffers ---------------- *)

Definition at_bufs (s : dstate) (bufs : list (list Z)) : Prop :=
  (d_pb s = Some (mk_pbuf 188) \/ (d_pb s = None /\ d_opt_size s = 188)) /\
  reader_ok (d_reader s) /\ r_rest (d_reader s) = concat bufs /\ Forall (buf_ok 188) bufs.

(* pool, program map and buffered data *)
Definition same_core (s s' : dstate) : Prop :=
  d_pool s' = d_pool s /\ d_pm s' = d_pm s /\ d_buffer s' = d_buffer s.

Lemma concat_length_188 (bufs : list (list Z)) : Forall (buf_ok 188) bufs ->
  Z.of_nat (length (concat bufs)) = 188 * Z.of_nat (length bufs).
Proof.
  induction 1 as [|b r [Hb _] _ IH]; [reflexivity|]. cbn [concat length]. rewrite app_length. lia.
Qed.

Lemma at_bufs_left s bufs : at_bufs s bufs ->
  Z.to_nat ((r_len (d_reader s) - r_pos (d_reader s)) / 188) = length bufs.
Proof.
  intros (_ & [_ Hl] & Hr & Hall). unfold r_len. rewrite Hl, Hr, (concat_length_188 bufs Hall).
  rewrite Z.mul_comm, Z.div_mul by lia. apply Nat2Z.id.
Qed.

Lemma at_bufs_fuel s bufs : at_bufs s bufs -> nd_fuel s = S (S (length bufs)).
Proof. intros H. unfold nd_fuel. rewrite (at_bufs_left s bufs H). reflexivity. Qed.

(* NextPacket on such a state *)
Lemma next_packet_pb188 s bufs : at_bufs s bufs ->
  exists s0, same_core s s0 /\ d_pb s0 = Some (mk_pbuf 188) /\ d_reader s0 = d_reader s /\ d_opt_size s0 = d_opt_size s /\
    d_groups s0 = d_groups s /\
    next_packet no_skip s =
    (let '(rp, r', l) := packet_buffer_next no_skip (mk_pbuf 188) (d_reader s) in (rp, log_consulted (set_reader s0 r') l)).
Proof.
  intros ([Hpb|[Hpb Hopt]] & _).
  - exists s. unfold same_core, next_packet. rewrite Hpb. repeat split; reflexivity.
  - exists (set_pb s (Some (mk_pbuf 188))). unfold same_core, next_packet. rewrite Hpb.
    unfold new_packet_buffer. rewrite Hopt. cbn [Z.eqb].
    repeat split; try reflexivity.
    cbn [set_pb set_reader d_reader d_buffer d_pb d_pool d_pm d_opt_size d_groups d_consulted].
    destruct (packet_buffer_next no_skip (mk_pbuf 188) (d_reader s)) as [[rp r'] l] eqn:E.
    unfold log_consulted, set_reader, set_pb. cbn [d_reader d_buffer d_pb d_pool d_pm d_opt_size d_groups d_consulted].
    rewrite ?Hopt. reflexivity.
Qed.

Lemma next_packet_cons s b bufs p : at_bufs s (b :: bufs) -> parse_packet_bytes b = Ok p ->
  exists s1, next_packet no_skip s = (Ok p, s1) /\ same_core s s1 /\ at_bufs s1 bufs /\ d_groups s1 = d_groups s.
Proof.
  intros Hat Hp. pose proof Hat as (Hpb & Hok & Hr & Hall).
  destruct (next_packet_pb188 s _ Hat) as (s0 & (C1 & C2 & C3) & Hpb0 & Hrd0 & Hopt0 & Hg0 & Hnp).
  rewrite Hnp. unfold packet_buffer_next. cbn [pb_size]. cbn [Z.ltb Z.eqb Z.compare].
  unfold packets_left. change (Z.max 1 188) with 188. rewrite (at_bufs_left s _ Hat).
  pose proof (pb_next_refines no_skip 188 (b :: bufs) (S (length (b :: bufs))) (d_reader s) []
                ltac:(unfold C_MpegTsPacketSize; lia) Hok ltac:(rewrite app_nil_r; exact Hr) Hall ltac:(cbn; lia) ltac:(lia))
    as (H1 & H2 & H3).
  cbn [first_unskipped] in H1, H3. rewrite skipped_no_skip in H1, H3. cbn [fst snd] in H1, H3.
  unfold parse_packet_bytes in Hp. rewrite Hp in H1, H3.
  destruct (pb_next (S (length (b :: bufs))) no_skip 188 (d_reader s)) as [[rp r'] l]. cbn [fst snd] in *. subst rp.
  eexists. split; [reflexivity|].
  unfold same_core, at_bufs. cbn [log_consulted set_reader d_reader d_buffer d_pb d_pool d_pm d_opt_size d_groups].
  repeat split; try assumption.
  - left. exact Hpb0.
  - apply H2.
  - apply H2.
  - rewrite H3 by discriminate. apply app_nil_r.
  - inversion Hall; assumption.
Qed.

Lemma next_packet_nil s : at_bufs s [] ->
  exists s1, next_packet no_skip s = (Err E_nomore, s1) /\ same_core s s1 /\ at_bufs s1 [] /\ d_groups s1 = d_groups s.
Proof.
  intros Hat. pose proof Hat as (Hpb & Hok & Hr & Hall).
  destruct (next_packet_pb188 s _ Hat) as (s0 & (C1 & C2 & C3) & Hpb0 & Hrd0 & Hopt0 & Hg0 & Hnp).
  rewrite Hnp. unfold packet_buffer_next. cbn [pb_size]. cbn [Z.ltb Z.eqb Z.compare].
  unfold packets_left. change (Z.max 1 188) with 188. rewrite (at_bufs_left s _ Hat). cbn [length pb_next].
  destruct Hok as [Hf Hl]. cbn [concat] in Hr. rewrite Hr in Hl. cbn [length Z.of_nat] in Hl.
  unfold read_full, r_stop. rewrite Hf. unfold r_len.
  replace (Z.max 0 (r_total (d_reader s) - r_pos (d_reader s))) with 0 by lia.
  cbn [Z.leb Z.compare Z.eqb]. rewrite r_advance_0.
  eexists. split; [reflexivity|].
  unfold same_core, at_bufs. cbn [log_consulted set_reader d_reader d_buffer d_pb d_pool d_pm d_opt_size d_groups].
  repeat split; try assumption.
  - left. exact Hpb0.
  - rewrite Hr. cbn [length Z.of_nat]. exact Hl.
Qed.

(* ---------------- the pure view ---------------- *)

Section Pure.
Variable P : dparsers.

Definition pm_after (pm : pmap) (ds : list DemuxerData) : pmap := fold_left pm_add (flat_map pat_pids ds) pm.

(* consuming packets: final pool and program map, and the data delivered on the way; None when a flushed group does
   not parse (then NextData returns that error) *)
Fixpoint feed (pl : pool) (pm : pmap) (pkts : list Packet) : option (pool * pmap * list DemuxerData) :=
  match pkts with
  | [] => Some (pl, pm, [])
  | p :: r =>
      let '(pl1, g) := pool_add pm pl p in
      match g with
      | [] => feed pl1 pm r
      | _ =>
          match parse_data P None pm g with
          | Ok ds =>
              match feed pl1 (pm_after pm ds) r with
              | Some (pl2, pm2, out) => Some (pl2, pm2, ds ++ out)
              | None => None
              end
          | _ => None
          end
      end
  end.

(* the end-of-stream drain: the non-empty queues in pool (= PID) order; None when one does not parse (the demuxer
   then skips it silently) *)
Fixpoint drain_data (pm : pmap) (pl : pool) : option (list DemuxerData) :=
  match pl with
  | [] => Some []
  | (_, q) :: r =>
      match q with
      | [] => drain_data pm r
      | _ =>
          match parse_data P None pm q with
          | Ok ds => option_map (app ds) (drain_data (pm_after pm ds) r)
          | _ => None
          end
      end
  end.

Lemma feed_app a : forall b pl pm pl1 pm1 o1,
  feed pl pm a = Some (pl1, pm1, o1) ->
  feed pl pm (a ++ b) = match feed pl1 pm1 b with Some (pl2, pm2, o2) => Some (pl2, pm2, o1 ++ o2) | None => None end.
Proof.
  induction a as [|p a IH]; intros b pl pm pl1 pm1 o1 H.
  - cbn [feed] in H. inversion H; subst. cbn [app]. destruct (feed pl1 pm1 b) as [[[? ?] ?]|]; reflexivity.
  - cbn [app feed] in *. destruct (pool_add pm pl p) as [pl0 g]. destruct g as [|g0 g'].
    + apply IH. exact H.
    + destruct (parse_data P None pm (g0 :: g')) as [ds| |]; try discriminate.
      destruct (feed pl0 (pm_after pm ds) a) as [[[pla pma] oa]|] eqn:Ea; try discriminate.
      inversion H; subst. rewrite (IH b _ _ _ _ _ Ea).
      destruct (feed pl1 pm1 b) as [[[? ?] ?]|]; [rewrite app_assoc|]; reflexivity.
Qed.

(* the data a state will deliver, in order, until ErrNoMorePackets *)
Definition yields (s : dstate) (L : list DemuxerData) : Prop :=
  exists bufs pkts pl' pm' out out',
    at_bufs s bufs /\ Forall2 (fun b p => parse_packet_bytes b = Ok p) bufs pkts /\
    feed (d_pool s) (d_pm s) pkts = Some (pl', pm', out) /\ drain_data pm' pl' = Some out' /\
    L = d_buffer s ++ out ++ out'.

Definition nd (s : dstate) := next_data P None no_skip s.

Lemma at_bufs_set_pool s pl bufs : at_bufs s bufs -> at_bufs (set_pool s pl) bufs.
Proof. intros H. exact H. Qed.
Lemma at_bufs_log_group s g bufs : at_bufs s bufs -> at_bufs (log_group s g) bufs.
Proof. intros H. exact H. Qed.

Lemma drain_skip_empty k s key r : d_pool s = (key, []) :: r ->
  drain P None (S k) s = drain P None (S k) (set_pool s r).
Proof. intros H. cbn [drain]. rewrite H. cbn [pool_dump set_pool d_pool]. reflexivity. Qed.

Lemma drain_yields : forall pl s fuel L, d_pool s = pl -> (length pl < fuel)%nat -> d_buffer s = [] ->
  at_bufs s [] -> drain_data (d_pm s) pl = Some L ->
  match L with
  | [] => exists s', drain P None fuel s = (Err E_nomore, s') /\ yields s' []
  | d :: rest => exists s', drain P None fuel s = (Ok d, s') /\ yields s' rest
  end.
Proof.
  induction pl as [|[key q] r IH]; intros s fuel L Hpl Hfuel Hbuf Hat HL.
  - cbn [drain_data] in HL. inversion HL; subst L. destruct fuel as [|k]; [cbn in Hfuel; lia|].
    cbn [drain]. rewrite Hpl. cbn [pool_dump].
    eexists. split; [reflexivity|].
    exists [], [], [], (d_pm s), [], []. cbn [set_pool d_pool d_pm d_buffer feed drain_data].
    split; [exact Hat|]. split; [constructor|]. split; [reflexivity|]. split; [reflexivity|]. rewrite Hbuf. reflexivity.
  - destruct fuel as [|k]; [cbn in Hfuel; lia|]. cbn [length] in Hfuel.
    destruct q as [|p0 q'].
    + rewrite (drain_skip_empty k s key r Hpl). cbn [drain_data] in HL.
      apply (IH (set_pool s r) (S k) L); try assumption; try reflexivity. lia.
    + cbn [drain_data] in HL. cbn [drain]. rewrite Hpl. cbn [pool_dump].
      change (d_pm (log_group (set_pool s r) (p0 :: q'))) with (d_pm s).
      destruct (parse_data P None (d_pm s) (p0 :: q')) as [ds| |]; try discriminate.
      destruct (drain_data (pm_after (d_pm s) ds) r) as [Lr|] eqn:Er; try discriminate.
      cbn [option_map] in HL. inversion HL; subst L. clear HL.
      destruct ds as [|d ds'].
      * cbn [update_data app]. apply (IH (log_group (set_pool s r) (p0 :: q')) k Lr); try assumption; try reflexivity. lia.
      * cbn [update_data app].
        eexists. split; [reflexivity|].
        exists [], [], r, (pm_after (d_pm s) (d :: ds')), [], Lr.
        cbn [log_group set_pool d_pool d_pm d_buffer feed]. rewrite Hbuf. cbn [app].
        split; [exact Hat|]. split; [constructor|]. split; [reflexivity|]. split; [exact Er|]. reflexivity.
Qed.

(* one NextData call *)
Lemma loop_yields : forall pkts bufs s fuel L pl' pm' out out',
  (S (length bufs) < fuel)%nat -> d_buffer s = [] -> at_bufs s bufs ->
  Forall2 (fun b p => parse_packet_bytes b = Ok p) bufs pkts ->
  feed (d_pool s) (d_pm s) pkts = Some (pl', pm', out) -> drain_data pm' pl' = Some out' -> L = out ++ out' ->
  match L with
  | [] => exists s', next_data_loop P None no_skip fuel s = (Err E_nomore, s') /\ yields s' []
  | d :: rest => exists s', next_data_loop P None no_skip fuel s = (Ok d, s') /\ yields s' rest
  end.
Proof.
  induction pkts as [|p r IH]; intros bufs s fuel L pl' pm' out out' Hfuel Hbuf Hat HF Hfeed Hdrain HL.
  - inversion HF; subst bufs. cbn [feed] in Hfeed. inversion Hfeed; subst pl' pm' out. cbn [app] in HL. subst L.
    destruct fuel as [|k]; [lia|]. rewrite loop_unfold.
    destruct (next_packet_nil s Hat) as (s1 & Hnp & (C1 & C2 & C3) & Hat1 & _). rewrite Hnp. cbn [after_packet Z.eqb].
    rewrite Z.eqb_refl.
    apply (drain_yields (d_pool s1) s1 (S (length (d_pool s1))) out'); try reflexivity; try assumption; try lia.
    + rewrite C3. exact Hbuf.
    + rewrite C2, C1. exact Hdrain.
  - inversion HF as [|b p' bufs' r' Hb HF']; subst.
    destruct fuel as [|k]; [lia|]. rewrite loop_unfold. cbn [length] in Hfuel.
    destruct (next_packet_cons s b bufs' p Hat Hb) as (s1 & Hnp & (C1 & C2 & C3) & Hat1 & _). rewrite Hnp. cbn [after_packet].
    cbn [feed] in Hfeed. rewrite C1, C2.
    destruct (pool_add (d_pm s) (d_pool s) p) as [pl1 g] eqn:Eadd.
    destruct g as [|g0 g'].
    + apply (IH bufs' (set_pool s1 pl1) k _ pl' pm' out out'); try assumption; try reflexivity; try lia.
      * cbn [set_pool d_buffer]. rewrite C3. exact Hbuf.
      * cbn [set_pool d_pool d_pm]. rewrite C2. exact Hfeed.
    + change (d_pm (log_group (set_pool s1 pl1) (g0 :: g'))) with (d_pm s1). rewrite C2.
      destruct (parse_data P None (d_pm s) (g0 :: g')) as [ds| |]; try discriminate.
      destruct (feed pl1 (pm_after (d_pm s) ds) r) as [[[pl2 pm2] outr]|] eqn:Er; try discriminate.
      inversion Hfeed; subst pl' pm' out. clear Hfeed.
      destruct ds as [|d ds'].
      * cbn [update_data app] in *.
        apply (IH bufs' (log_group (set_pool s1 pl1) (g0 :: g')) k _ pl2 pm2 outr out'); try assumption; try reflexivity; try lia.
        -- cbn [log_group set_pool d_buffer]. rewrite C3. exact Hbuf.
        -- cbn [log_group set_pool d_pool d_pm]. rewrite C2. exact Er.
      * cbn [update_data app].
        eexists. split; [reflexivity|].
        exists bufs', r, pl2, pm2, outr, out'.
        cbn [log_group set_pool d_pool d_pm d_buffer]. rewrite C3, Hbuf, C2. cbn [app].
        split; [exact Hat1|]. split; [exact HF'|]. split; [exact Er|]. split; [exact Hdrain|]. rewrite app_assoc. reflexivity.
Qed.

Theorem yields_step s L : yields s L ->
  match L with
  | [] => exists s', nd s = (Err E_nomore, s') /\ yields s' []
  | d :: rest => exists s', nd s = (Ok d, s') /\ yields s' rest
  end.
Proof.
  intros (bufs & pkts & pl' & pm' & out & out' & Hat & HF & Hfeed & Hdrain & HL).
  unfold nd, next_data. destruct (d_buffer s) as [|d0 rest0] eqn:Hbuf.
  - cbn [app] in HL. rewrite (at_bufs_fuel s bufs Hat).
    apply (loop_yields pkts bufs s _ L pl' pm' out out'); try assumption. lia.
  - cbn [app] in HL. subst L. eexists. split; [reflexivity|].
    exists bufs, pkts, pl', pm', out, out'. cbn [d_pool d_pm d_buffer].
    split; [exact Hat|]. split; [exact HF|]. split; [exact Hfeed|]. split; [exact Hdrain|]. reflexivity.
Qed.

(* all the calls up to ErrNoMorePackets *)
Fixpoint nd_all (fuel : nat) (s : dstate) : list (res DemuxerData) :=
  match fuel with
  | O => []
  | S k => let '(r, s') := nd s in
           match r with Err c => if c =? E_nomore then [] else r :: nd_all k s' | _ => r :: nd_all k s' end
  end.

Theorem nd_all_yields : forall L s fuel, yields s L -> (length L < fuel)%nat -> nd_all fuel s = map Ok L.
Proof.
  induction L as [|d rest IH]; intros s fuel Hy Hf; (destruct fuel as [|k]; [cbn in Hf; lia|]); cbn [nd_all].
  - destruct (yields_step s [] Hy) as (s' & E & _). rewrite E. reflexivity.
  - destruct (yields_step s (d :: rest) Hy) as (s' & E & Hy'). rewrite E. cbn [map]. f_equal.
    apply IH; [exact Hy'|]. cbn [length] in Hf. lia.
Qed.

(* after the last datum the demuxer keeps answering ErrNoMorePackets *)
Theorem yields_nil_stable s : yields s [] -> exists s', nd s = (Err E_nomore, s') /\ yields s' [].
Proof. exact (yields_step s []). Qed.

End Pure.

(* ---------------- a fresh demuxer on the bytes of a packet list ---------------- *)

Lemma init_at_bufs (bufs : list (list Z)) k : Forall (buf_ok 188) bufs ->
  at_bufs (init_dstate (new_reader (concat bufs) None k) 188) bufs.
Proof.
  intros H. unfold at_bufs, init_dstate, new_reader, reader_ok.
  cbn [d_pb d_opt_size d_reader r_fault r_total r_pos r_rest]. repeat split; try assumption; try lia.
  right. split; reflexivity.
Qed.
