(* data_psi.go, data_pat.go, data_pmt.go, data_sdt.go, data_nit.go, data_eit.go, data_tot.go: the hand-written parsers
   of Model/Psi.v are equal, as computations in the iterator monad, to the definitions that go/gen (psigen.go) translates
   from the CURRENT source into Gen/PsiGen.v -- on every iterator whose bytes are in 0..255 -- with the Section
   Variables of the generated code (parseDescriptors, parseDVBTime, parseDVBDurationSeconds) instantiated by the
   models' parse_descriptors, parse_dvb_time, parse_dvb_duration_seconds.  A change to one of the Go parsers changes
   Gen/PsiGen.v and the corresponding lemma here stops checking.  The descriptor side is Proofs/PsiGenDesc.v. *)
From Coq Require Import ZArith List Lia Bool ZifyBool.
Require Import Base.Bits Base.Iter Gen.Consts Gen.Types Gen.Preds Gen.PsiGen.
Require Import Model.Packet Model.Dvb Model.Desc Model.Psi Proofs.ParseGenBits Proofs.ParseGenSim Proofs.PsiGenSim.
Require Import Proofs.PsiProofs Proofs.PsiDeps.
Import ListNotations.
Open Scope Z_scope.

(* ---------------- section header, syntax header, CRC_32 field ---------------- *)


Lemma table_type_gen t : table_type t = PSITableID_Type t.
Proof. reflexivity. Qed.

Lemma parse_crc32_sim : sim eq parse_crc32 parseCRC32.
Proof.
  unfold parse_crc32, parseCRC32. cbv zeta.
  eapply sim_bind; [apply sim_next_bytes_nocopy|]. intros bs ? (<- & Hok & Hlen). apply sim_ret.
  explode_bytes bs Hlen Hok. nth_lit. pose proof Hok as Hok'. bytes_inv Hok'.
  unfold be32, byte_at. cbn [nth]. unfold byte_ok in *.
  shifts_to_arith. drop_wraps. lors_to_adds. lia.
Qed.

Definition hdr_rel (x : PSISectionHeader * psi_offsets) (y : PSISectionHeader * Z * Z * Z * Z) : Prop :=
  let '(h, a, b, c, d) := y in x = (h, mk_psi_offsets a b c d).

Lemma parse_psi_section_header_sim : sim hdr_rel parse_psi_section_header parsePSISectionHeader.
Proof.
  unfold parse_psi_section_header, parsePSISectionHeader. cbv zeta.
  eapply sim_bind; [apply sim_ioffset|]. intros os ? <-.
  eapply sim_bind; [apply sim_next_byte|]. intros b ? (<- & Hb). cbv beta.
  psigen_cbv.
  apply sim_if.
  - apply sim_ret. unfold hdr_rel. rewrite table_type_gen. reflexivity.
  - eapply sim_bind; [apply sim_next_bytes_nocopy|]. intros bs ? (<- & Hok & Hlen). cbv beta.
    eapply sim_bind; [apply sim_ioffset|]. intros o2 ? <-. apply sim_ret.
    explode_bytes bs Hlen Hok. nth_lit. pose proof Hok as Hok'. bytes_inv Hok'.
    unfold hdr_rel. psigen_cbv.
    assert (E : bitsf [b0; b1] 4 12 = Z.lor (Z.shiftl (Z.land b0 15) 8 mod 65536) b1) by bridge.
    assert (F0 : bitb [b0; b1] 0 = (Z.land b0 128 >? 0)) by bridge.
    assert (F1 : bitb [b0; b1] 1 = (Z.land b0 64 >? 0)) by bridge.
    rewrite E, F0, F1, table_type_gen.
    destruct (PSITableID_hasCRC32 b); reflexivity.
Qed.

Lemma parse_psi_section_syntax_header_sim : sim eq parse_psi_section_syntax_header parsePSISectionSyntaxHeader.
Proof.
  unfold parse_psi_section_syntax_header, parsePSISectionSyntaxHeader. cbv zeta.
  eapply sim_bind; [apply sim_next_bytes_nocopy|]. intros bs ? (<- & Hok & Hlen). cbv beta.
  eapply sim_bind; [apply sim_next_byte|]. intros b ? (<- & Hb). cbv beta.
  eapply sim_bind; [apply sim_next_byte|]. intros sn ? (<- & Hsn). cbv beta.
  eapply sim_bind; [apply sim_next_byte|]. intros lsn ? (<- & Hlsn). cbv beta.
  apply sim_ret.
  explode_bytes bs Hlen Hok. nth_lit. pose proof Hok as Hok'. bytes_inv Hok'.
  psigen_cbv.
  f_equal; bridge.
Qed.

(* ---------------- the dependencies, as simulations of themselves ---------------- *)

Lemma parse_descriptors_self : sim eq parse_descriptors parse_descriptors.
Proof. apply sim_self. exact keeps_parse_descriptors. Qed.
Lemma parse_dvb_time_self : sim eq parse_dvb_time parse_dvb_time.
Proof. apply sim_self. exact keeps_dvb_time. Qed.
Lemma parse_dvb_duration_seconds_self : sim eq parse_dvb_duration_seconds parse_dvb_duration_seconds.
Proof. apply sim_self. exact keeps_dvb_duration_seconds. Qed.

(* ---------------- PAT ---------------- *)

Lemma pat_loop_sim e : forall fuel d,
  sim (fun l d' => d' = set_PATData_Programs (PATData_Programs d ++ l) d)
      (loop_until fuel e parse_pat_program) (parsePATSection_loop1 fuel e d).
Proof.
  induction fuel as [|k IH]; intros d; [apply sim_err|].
  cbn [loop_until parsePATSection_loop1].
  eapply sim_bind; [apply sim_ioffset|]. intros off ? <-. cbv beta. apply sim_if.
  - set (lp := loop_until k e parse_pat_program) in *. unfold parse_pat_program. cbv zeta. apply sim_assoc_l.
    eapply sim_bind; [apply sim_next_bytes_nocopy|]. intros bs ? (<- & Hok & Hlen). cbv beta.
    apply sim_ret_bind_l'.
    eapply sim_map_l; [apply IH|]. cbv beta. intros l d' ->.
    explode_bytes bs Hlen Hok. nth_lit. pose proof Hok as Hok'. bytes_inv Hok'.
    psigen_cbv.
    rewrite <- app_assoc. cbn [app]. repeat f_equal; bridge.
  - apply sim_ret. destruct d as [ps ts]. psigen_cbv.
    rewrite app_nil_r. reflexivity.
Qed.

Lemma parse_pat_section_sim e ext : sim eq (parse_pat_section e ext) (parsePATSection e ext).
Proof.
  unfold parse_pat_section, parsePATSection, loop_fuel. cbv zeta.
  apply sim_assoc_l. eapply sim_bind; [apply sim_ilength|]. intros n ? <-. cbv beta. apply sim_ret_bind_l'.
  eapply sim_bind; [apply pat_loop_sim|]. cbv beta. intros l d' ->. apply sim_ret. reflexivity.
Qed.

(* ---------------- PMT ---------------- *)

Ltac step_bytes bs Hok Hlen := eapply sim_bind; [apply sim_next_bytes_nocopy|]; intros bs ? (<- & Hok & Hlen); cbv beta.
Ltac step_byte b Hb := eapply sim_bind; [apply sim_next_byte|]; intros b ? (<- & Hb); cbv beta.
Ltac step_descs ds := eapply sim_bind; [apply parse_descriptors_self|]; intros ds ? <-; cbv beta.
Ltac open_bytes bs Hok Hlen := explode_bytes bs Hlen Hok; nth_lit; let H := fresh "Hok'" in pose proof Hok as H; bytes_inv H.

Lemma pmt_loop_sim e : forall fuel d,
  sim (fun l d' => d' = set_PMTData_ElementaryStreams (PMTData_ElementaryStreams d ++ l) d)
      (loop_until fuel e parse_pmt_es) (parsePMTSection_loop1 parse_descriptors fuel e d).
Proof.
  induction fuel as [|k IH]; intros d; [apply sim_err|].
  cbn [loop_until parsePMTSection_loop1].
  eapply sim_bind; [apply sim_ioffset|]. intros off ? <-. cbv beta. apply sim_if.
  - set (lp := loop_until k e parse_pmt_es) in *. unfold parse_pmt_es. cbv zeta.
    apply sim_assoc_l. step_byte b Hb.
    apply sim_assoc_l. step_bytes bs Hok Hlen.
    apply sim_assoc_l. step_descs ds.
    apply sim_ret_bind_l'.
    eapply sim_map_l; [apply IH|]. cbv beta. intros l d' ->.
    open_bytes bs Hok Hlen. psigen_cbv.
    rewrite <- app_assoc. cbn [app]. repeat f_equal; bridge.
  - apply sim_ret. destruct d as [a b c d]. psigen_cbv. rewrite app_nil_r. reflexivity.
Qed.

Lemma parse_pmt_section_sim e ext : sim eq (parse_pmt_section e ext) (parsePMTSection parse_descriptors e ext).
Proof.
  unfold parse_pmt_section, parsePMTSection, loop_fuel. cbv zeta.
  step_bytes bs Hok Hlen. step_descs pds.
  apply sim_assoc_l. eapply sim_bind; [apply sim_ilength|]. intros n ? <-. cbv beta. apply sim_ret_bind_l'.
  eapply sim_bind; [apply pmt_loop_sim|]. cbv beta. intros l d' ->. apply sim_ret.
  open_bytes bs Hok Hlen. psigen_cbv. f_equal; bridge.
Qed.

(* ---------------- SDT ---------------- *)

Lemma sdt_loop_sim e : forall fuel d,
  sim (fun l d' => d' = set_SDTData_Services (SDTData_Services d ++ l) d)
      (loop_until fuel e parse_sdt_service) (parseSDTSection_loop1 parse_descriptors fuel e d).
Proof.
  induction fuel as [|k IH]; intros d; [apply sim_err|].
  cbn [loop_until parseSDTSection_loop1].
  eapply sim_bind; [apply sim_ioffset|]. intros off ? <-. cbv beta. apply sim_if.
  - set (lp := loop_until k e parse_sdt_service) in *. unfold parse_sdt_service. cbv zeta.
    apply sim_assoc_l. step_bytes bs Hok Hlen.
    apply sim_assoc_l. step_byte b1 Hb1.
    apply sim_assoc_l. step_byte b2 Hb2.
    apply sim_assoc_l. eapply sim_bind; [apply sim_iskip|]. intros _ _ _.
    apply sim_assoc_l. step_descs ds.
    apply sim_ret_bind_l'.
    eapply sim_map_l; [apply IH|]. cbv beta. intros l d' ->.
    open_bytes bs Hok Hlen. psigen_cbv.
    rewrite <- app_assoc. cbn [app]. repeat f_equal; bridge.
  - apply sim_ret. destruct d as [a b c]. psigen_cbv. rewrite app_nil_r. reflexivity.
Qed.

Lemma parse_sdt_section_sim e ext : sim eq (parse_sdt_section e ext) (parseSDTSection parse_descriptors e ext).
Proof.
  unfold parse_sdt_section, parseSDTSection, loop_fuel. cbv zeta.
  step_bytes bs Hok Hlen. eapply sim_bind; [apply sim_iskip|]. intros _ _ _.
  apply sim_assoc_l. eapply sim_bind; [apply sim_ilength|]. intros n ? <-. cbv beta. apply sim_ret_bind_l'.
  eapply sim_bind; [apply sdt_loop_sim|]. cbv beta. intros l d' ->. apply sim_ret.
  open_bytes bs Hok Hlen. psigen_cbv. f_equal; bridge.
Qed.

(* ---------------- NIT ---------------- *)

Lemma nit_loop_sim e : forall fuel d,
  sim (fun l d' => d' = set_NITData_TransportStreams (NITData_TransportStreams d ++ l) d)
      (loop_until fuel e parse_nit_ts) (parseNITSection_loop1 parse_descriptors fuel e d).
Proof.
  induction fuel as [|k IH]; intros d; [apply sim_err|].
  cbn [loop_until parseNITSection_loop1].
  eapply sim_bind; [apply sim_ioffset|]. intros off ? <-. cbv beta. apply sim_if.
  - set (lp := loop_until k e parse_nit_ts) in *. unfold parse_nit_ts. cbv zeta.
    apply sim_assoc_l. step_bytes bs1 Hok1 Hlen1.
    apply sim_assoc_l. step_bytes bs2 Hok2 Hlen2.
    apply sim_assoc_l. step_descs ds.
    apply sim_ret_bind_l'.
    eapply sim_map_l; [apply IH|]. cbv beta. intros l d' ->.
    open_bytes bs1 Hok1 Hlen1. open_bytes bs2 Hok2 Hlen2. psigen_cbv.
    rewrite <- app_assoc. cbn [app]. repeat f_equal; bridge.
  - apply sim_ret. destruct d as [a b c]. psigen_cbv. rewrite app_nil_r. reflexivity.
Qed.

Lemma parse_nit_section_sim ext : sim eq (parse_nit_section ext) (parseNITSection parse_descriptors ext).
Proof.
  unfold parse_nit_section, parseNITSection, loop_fuel. cbv zeta.
  step_descs nds. step_bytes bs Hok Hlen.
  eapply sim_bind; [apply sim_ioffset|]. intros off ? <-. cbv beta.
  apply sim_assoc_l. eapply sim_bind; [apply sim_ilength|]. intros n ? <-. cbv beta. apply sim_ret_bind_l'.
  open_bytes bs Hok Hlen.
  assert (E : bitsf [b; b0] 4 12 = Z.lor (Z.shiftl (Z.land b 15) 8 mod 65536) b0) by bridge.
  rewrite E.
  eapply sim_bind; [apply nit_loop_sim|]. cbv beta. intros l d' ->. apply sim_ret. reflexivity.
Qed.

(* ---------------- EIT ---------------- *)

Lemma errs_only_dvb_time : errs_only E_generic parse_dvb_time.
Proof.
  unfold parse_dvb_time, parse_dvb_duration_seconds.
  repeat first [ apply errs_only_bind; [|intros ?] | apply errs_only_next_bytes_nocopy | apply errs_only_ret ].
Qed.

Lemma eit_loop_sim e : forall fuel d,
  sim (fun l d' => d' = set_EITData_Events (EITData_Events d ++ l) d)
      (loop_until fuel e parse_eit_event)
      (parseEITSection_loop1 parse_dvb_duration_seconds parse_dvb_time parse_descriptors fuel e d).
Proof.
  induction fuel as [|k IH]; intros d; [apply sim_err|].
  cbn [loop_until parseEITSection_loop1].
  eapply sim_bind; [apply sim_ioffset|]. intros off ? <-. cbv beta. apply sim_if.
  - set (lp := loop_until k e parse_eit_event) in *. unfold parse_eit_event. cbv zeta.
    apply sim_assoc_l. step_bytes bs Hok Hlen.
    apply sim_assoc_l. eapply sim_bind; [apply sim_imaperr_r; [exact errs_only_dvb_time|apply parse_dvb_time_self]|]. intros st ? <-. cbv beta.
    apply sim_assoc_l. eapply sim_bind; [apply parse_dvb_duration_seconds_self|]. intros du ? <-. cbv beta.
    apply sim_assoc_l. step_byte b Hb.
    apply sim_assoc_l. eapply sim_bind; [apply sim_iskip|]. intros _ _ _.
    apply sim_assoc_l. step_descs ds.
    apply sim_ret_bind_l'.
    eapply sim_map_l; [apply IH|]. cbv beta. intros l d' ->.
    open_bytes bs Hok Hlen. psigen_cbv.
    rewrite <- app_assoc. cbn [app]. repeat f_equal; bridge.
  - apply sim_ret. destruct d as [a b c d e0 f]. psigen_cbv. rewrite app_nil_r. reflexivity.
Qed.

Lemma parse_eit_section_sim e ext :
  sim eq (parse_eit_section e ext) (parseEITSection parse_dvb_duration_seconds parse_dvb_time parse_descriptors e ext).
Proof.
  unfold parse_eit_section, parseEITSection, loop_fuel. cbv zeta.
  step_bytes bs1 Hok1 Hlen1. step_bytes bs2 Hok2 Hlen2. step_byte b1 Hb1. step_byte b2 Hb2.
  apply sim_assoc_l. eapply sim_bind; [apply sim_ilength|]. intros n ? <-. cbv beta. apply sim_ret_bind_l'.
  eapply sim_bind; [apply eit_loop_sim|]. cbv beta. intros l d' ->. apply sim_ret.
  open_bytes bs1 Hok1 Hlen1. open_bytes bs2 Hok2 Hlen2. psigen_cbv. f_equal; bridge.
Qed.

(* ---------------- TOT ---------------- *)

Lemma parse_tot_section_sim : sim eq parse_tot_section (parseTOTSection parse_dvb_time parse_descriptors).
Proof.
  unfold parse_tot_section, parseTOTSection. cbv zeta.
  eapply sim_bind; [apply parse_dvb_time_self|]. intros t ? <-. cbv beta.
  step_descs ds. apply sim_ret. reflexivity.
Qed.

(* ---------------- the dispatch on the table id ---------------- *)

Notation gen_syntax_data := (parsePSISectionSyntaxData parse_dvb_duration_seconds parse_dvb_time parse_descriptors).

(* conditions on a known table id: evaluate them *)
Ltac eval_ifs := repeat match goal with |- context [if ?c then _ else _] =>
   let v := eval vm_compute in c in
   lazymatch v with true => change c with true | false => change c with false end; cbv iota end.

Lemma sim_sh_ext {A1 A2} (R : A1 -> A2 -> Prop) sh (f : Z -> IM A1) (g : PSISectionSyntaxHeader -> IM A2) :
  (forall x, sim R (f (PSISectionSyntaxHeader_TableIDExtension x)) (g x)) ->
  sim R (ibind (sh_ext sh) f) (ibind (ideref sh) g).
Proof.
  intros H. unfold sh_ext. apply sim_assoc_l. apply sim_deref. intros x _. apply sim_ret_bind_l'. apply H.
Qed.

Ltac noop_test tid c :=
  let E := fresh "E" in
  destruct (tid =? c) eqn:E;
  [ apply Z.eqb_eq in E; subst tid; eval_ifs; apply sim_ret; reflexivity | ].

Lemma parse_psi_section_syntax_data_sim h sh e :
  sim eq (parse_psi_section_syntax_data h sh e) (gen_syntax_data (Some h) sh e).
Proof.
  unfold parse_psi_section_syntax_data, parsePSISectionSyntaxData. cbv zeta.
  apply sim_deref_some_r.
  unfold is_nit_id, is_sdt_id, is_eit_id. generalize (PSISectionHeader_TableID h). intros tid.
  eapply (sim_bind eq).
  - noop_test tid C_PSITableIDBAT. noop_test tid C_PSITableIDDIT.
    apply sim_if.
    { apply sim_sh_ext. intros x. eapply sim_bind; [apply parse_nit_section_sim|]. intros n ? <-. apply sim_ret. reflexivity. }
    apply sim_if.
    { apply sim_sh_ext. intros x. eapply sim_bind; [apply parse_pat_section_sim|]. intros n ? <-. apply sim_ret. reflexivity. }
    apply sim_if.
    { apply sim_sh_ext. intros x. eapply sim_bind; [apply parse_pmt_section_sim|]. intros n ? <-. apply sim_ret. reflexivity. }
    noop_test tid C_PSITableIDRST.
    apply sim_if.
    { apply sim_sh_ext. intros x. eapply sim_bind; [apply parse_sdt_section_sim|]. intros n ? <-. apply sim_ret. reflexivity. }
    noop_test tid C_PSITableIDSIT. noop_test tid C_PSITableIDST.
    apply sim_if.
    { eapply sim_bind; [apply parse_tot_section_sim|]. intros n ? <-. apply sim_ret. reflexivity. }
    destruct (tid =? C_PSITableIDTDT); apply sim_ret; reflexivity.
  - intros d ? <-. apply sim_bind_ret_r. apply sim_if.
    + apply sim_sh_ext. intros x. eapply sim_bind; [apply parse_eit_section_sim|]. intros n ? <-. apply sim_ret.
      destruct d; reflexivity.
    + apply sim_ret. reflexivity.
Qed.

(* ---------------- section syntax, section (the CRC gate) ---------------- *)

Notation gen_syntax := (parsePSISectionSyntax parse_dvb_duration_seconds parse_dvb_time parse_descriptors).
Notation gen_section := (parsePSISection parse_dvb_duration_seconds parse_dvb_time parse_descriptors).

Lemma parse_psi_section_syntax_sim h e : sim eq (parse_psi_section_syntax h e) (gen_syntax (Some h) e).
Proof.
  unfold parse_psi_section_syntax, parsePSISectionSyntax. cbv zeta.
  apply sim_deref_some_r.
  eapply (sim_bind (fun sh s => s = set_PSISectionSyntax_Header sh {| PSISectionSyntax_Data := None; PSISectionSyntax_Header := None |})).
  - apply sim_if.
    + eapply sim_bind; [apply parse_psi_section_syntax_header_sim|]. intros x ? <-. apply sim_ret. reflexivity.
    + apply sim_ret. reflexivity.
  - intros sh s ->. psigen_cbn.
    eapply sim_bind; [apply parse_psi_section_syntax_data_sim|]. intros d ? <-. apply sim_ret. reflexivity.
Qed.

Lemma parse_psi_section_sim : sim eq parse_psi_section gen_section.
Proof.
  unfold parse_psi_section, parsePSISection. cbv zeta.
  eapply sim_bind; [apply parse_psi_section_header_sim|].
  intros [h offs] [[[[h' a] b] c] d] Hr. unfold hdr_rel in Hr. inversion Hr; subst h' offs. clear Hr.
  psigen_cbn. cbn [po_start po_sections_start po_sections_end po_end].
  apply sim_if; [apply sim_ret; reflexivity|].
  apply sim_if_push_l'. apply sim_if.
  - apply sim_assoc_l. eapply sim_bind; [apply parse_psi_section_syntax_sim|]. intros s ? <-. cbv beta. psigen_cbn.
    apply sim_if_push_l'. apply sim_if.
    + unfold check_crc32. cbn [po_start po_sections_start po_sections_end po_end].
      apply sim_assoc_l. apply sim_assoc_l. eapply sim_bind; [apply sim_iseek|]. intros _ _ _.
      apply sim_assoc_l. eapply sim_bind; [apply parse_crc32_sim|]. intros crc ? <-. cbv beta. psigen_cbn.
      apply sim_assoc_l. eapply sim_bind; [apply sim_iseek|]. intros _ _ _.
      apply sim_assoc_l. eapply sim_bind; [apply sim_next_bytes_nocopy|]. intros data ? (<- & _ & _). cbv beta.
      apply sim_if_push_l'. destruct (computeCRC32 data =? crc); cbn [negb].
      * apply sim_ret_bind_l'. apply sim_ret_bind_l'. eapply sim_bind; [apply sim_iseek|]. intros _ _ _. apply sim_ret. reflexivity.
      * apply sim_err_bind_l'.
    + apply sim_ret_bind_l'. eapply sim_bind; [apply sim_iseek|]. intros _ _ _. apply sim_ret. reflexivity.
  - apply sim_ret_bind_l'. eapply sim_bind; [apply sim_iseek|]. intros _ _ _. apply sim_ret. reflexivity.
Qed.

(* ---------------- the section loop of parsePSIData ---------------- *)

(* a section is read from inside the input and leaves the iterator further on: the table id byte is read first and the
   final Seek goes to the end of the section, which lies beyond its three header bytes *)
Lemma parse_psi_section_progress i x i' : okI i -> parse_psi_section i = Ok (x, i') -> 0 <= ioff i < ilen i /\ ioff i < ioff i'.
Proof.
  intros Hi. unfold parse_psi_section, parse_psi_section_header. intros E.
  apply ibind_ok in E. destruct E as ([h offs] & i1 & E1 & E2).
  apply ibind_ok in E1. destruct E1 as (os & i2 & E3 & E1). unfold ioffset in E3. inversion E3; subst os i2; clear E3.
  apply ibind_ok in E1. destruct E1 as (b & i3 & E3 & E1).
  apply next_byte_ok in E3. destruct E3 as (H1 & H2 & H3 & H4).
  cbv zeta in E1. destruct (shouldStopPSIParsing b) eqn:Es.
  - unfold iret in E1. inversion E1; subst h offs i1; clear E1.
    cbn [PSISectionHeader_TableID] in E2. rewrite Es in E2. unfold iret in E2. inversion E2; subst. lia.
  - apply ibind_ok in E1. destruct E1 as (bs & i4 & E3 & E1).
    apply next_bytes_ok in E3. destruct E3 as (G1 & G2 & G3 & G4 & G5 & G6).
    apply ibind_ok in E1. destruct E1 as (o2 & i5 & E3 & E1). unfold ioffset in E3. inversion E3; subst o2 i5; clear E3.
    unfold iret in E1. inversion E1; subst h offs i1; clear E1.
    cbn [PSISectionHeader_TableID PSISectionHeader_SectionLength po_end] in E2. rewrite Es in E2.
    apply ibind_ok in E2. destruct E2 as ([crc syn] & i6 & _ & E2).
    apply ibind_ok in E2. destruct E2 as (u & i7 & E3 & E2). unfold iseek in E3. inversion E3; subst u i7; clear E3.
    unfold iret in E2. inversion E2; subst x i'; clear E2. cbn [ioff].
    assert (0 <= bitsf bs 4 12) by (unfold bitsf, field; apply Z_of_bits_range). lia.
Qed.

Notation gen_data_loop := (parsePSIData_loop1 parse_dvb_duration_seconds parse_dvb_time parse_descriptors).
Notation gen_data := (parsePSIData parse_dvb_duration_seconds parse_dvb_time parse_descriptors).

Lemma psi_sections_unfold k i :
  psi_sections (S k) i =
  if ioff i <? ilen i then
    match parse_psi_section i with
    | Ok ((s, stop), i1) =>
        if stop then Ok ([s], i1)
        else match psi_sections k i1 with Ok (r, i2) => Ok (s :: r, i2) | Err c => Err c | Panic => Panic end
    | Err c => Err c
    | Panic => Panic
    end
  else Ok ([], i).
Proof.
  cbn [psi_sections]. unfold ibind, has_bytes_left, iret. destruct (ioff i <? ilen i); [|reflexivity].
  destruct (parse_psi_section i) as [[[s stop] i1]|c|]; try reflexivity. destruct stop; reflexivity.
Qed.

Lemma gen_data_loop_unfold k d stop i :
  gen_data_loop (S k) d stop i =
  if (ioff i <? ilen i) && negb stop then
    match gen_section i with
    | Ok ((s, stop'), i1) => gen_data_loop k (set_PSIData_Sections (PSIData_Sections d ++ [s]) d) stop' i1
    | Err c => Err c
    | Panic => Panic
    end
  else Ok ((d, stop), i).
Proof.
  cbn [parsePSIData_loop1]. unfold ibind, has_bytes_left, iret. destruct ((ioff i <? ilen i) && negb stop); [|reflexivity].
  destruct (gen_section i) as [[[s stop'] i1]|c|]; reflexivity.
Qed.

Lemma psi_sections_gen : forall k i d, okI i -> enough k (ilen i) i ->
  match psi_sections k i, gen_data_loop k d false i with
  | Ok (l, i1), Ok ((d', st), i2) => d' = set_PSIData_Sections (PSIData_Sections d ++ l) d /\ i1 = i2 /\ ibs i1 = ibs i
  | Err c1, Err c2 => c1 = c2
  | Panic, Panic => True
  | _, _ => False
  end.
Proof.
  induction k as [|k IH]; intros i d Hi [Hk1 Hk2]; [lia|].
  rewrite psi_sections_unfold, gen_data_loop_unfold. cbn [negb]. rewrite andb_true_r.
  destruct (ioff i <? ilen i) eqn:Eleft.
  2:{ destruct d. psigen_cbv. rewrite app_nil_r. auto. }
  pose proof (parse_psi_section_sim i Hi) as Hs.
  destruct (parse_psi_section i) as [[[s stop] i1]|c1|] eqn:E1;
    destruct (gen_section i) as [[[s' stop'] i2]|c2|]; try contradiction; auto.
  destruct Hs as (Hs & <- & Hbs). inversion Hs; subst s' stop'; clear Hs.
  destruct (parse_psi_section_progress i _ _ Hi E1) as (P1 & P2).
  assert (Hi1 : okI i1) by (unfold okI; rewrite Hbs; exact Hi).
  assert (Hl : ilen i1 = ilen i) by (apply ilen_same, Hbs).
  destruct stop.
  - (* the stopping section: one more round of the generated loop, which finds stop set *)
    destruct k as [|k]; [lia|]. rewrite gen_data_loop_unfold. cbn [negb]. rewrite andb_false_r. auto.
  - assert (He : enough k (ilen i1) i1).
    { rewrite Hl. split; [lia|]. intros _. specialize (Hk2 ltac:(lia)). lia. }
    specialize (IH i1 (set_PSIData_Sections (PSIData_Sections d ++ [s]) d) Hi1 He).
    destruct (psi_sections k i1) as [[l j1]|c1|];
      destruct (gen_data_loop k _ false i1) as [[[d' st] j2]|c2|]; try contradiction; auto.
    destruct IH as (-> & <- & Hb2). split; [|split; [reflexivity|congruence]].
    destruct d. psigen_cbv. rewrite <- app_assoc. reflexivity.
Qed.

Lemma parse_psi_data_gen : same_on_bytes parse_psi_data gen_data.
Proof.
  intros i Hi. unfold parse_psi_data, parsePSIData, loop_fuel. cbv zeta.
  apply bind_step. intros b i1 E1. apply next_byte_ok in E1. destruct E1 as (_ & Hbs1 & _ & _).
  psigen_cbn.
  apply bind_step. intros u i2 E2. unfold iskip in E2. inversion E2; subst u i2; clear E2.
  set (i2 := mk_iter (ibs i1) (ioff i1 + b)).
  assert (Hi2 : okI i2) by (unfold okI, i2; cbn [ibs]; rewrite Hbs1; exact Hi).
  unfold ibind at 1 2 5. unfold ilength, iret.
  pose proof (psi_sections_gen (S (Z.to_nat (ilen i2))) i2 {| PSIData_PointerField := b; PSIData_Sections := [] |} Hi2 (enough_len _ _)) as H.
  unfold ibind.
  destruct (psi_sections (S (Z.to_nat (ilen i2))) i2) as [[l j1]|c1|];
    destruct (gen_data_loop (S (Z.to_nat (ilen i2))) _ false i2) as [[[d' st] j2]|c2|]; try contradiction; auto.
  - destruct H as (-> & <- & _). reflexivity.
  - subst. reflexivity.
Qed.

(* ---------------- pointwise statements ---------------- *)

Lemma run_iter_same {A} (m1 m2 : IM A) bs : same_on_bytes m1 m2 -> bytes_ok bs -> run_iter m1 bs = run_iter m2 bs.
Proof. intros H Hb. unfold run_iter. rewrite (H (new_iter bs) Hb). reflexivity. Qed.

Definition hdr_pack (y : PSISectionHeader * Z * Z * Z * Z) : PSISectionHeader * psi_offsets :=
  let '(h, a, b, c, d) := y in (h, mk_psi_offsets a b c d).

Lemma parse_psi_section_header_gen :
  same_on_bytes parse_psi_section_header (ibind parsePSISectionHeader (fun y => iret (hdr_pack y))).
Proof.
  apply sim_eq_point. eapply sim_map_r; [apply parse_psi_section_header_sim|].
  intros x [[[[h a] b] c] d] H. exact H.
Qed.

(* what Props/C09.v quotes: the section parser with its CRC gate, and everything between it and parsePSIData *)
Lemma psi_gate_is_source :
  same_on_bytes parse_crc32 parseCRC32 /\
  same_on_bytes parse_psi_section_header (ibind parsePSISectionHeader (fun y => iret (hdr_pack y))) /\
  same_on_bytes parse_psi_section_syntax_header parsePSISectionSyntaxHeader /\
  (forall h e, same_on_bytes (parse_psi_section_syntax h e) (gen_syntax (Some h) e)) /\
  same_on_bytes parse_psi_section gen_section /\
  same_on_bytes parse_psi_data gen_data /\
  (forall bs, bytes_ok bs -> parse_psi_data_bytes bs = run_iter gen_data bs).
Proof.
  repeat apply conj.
  - exact (sim_eq_point _ _ parse_crc32_sim).
  - exact parse_psi_section_header_gen.
  - exact (sim_eq_point _ _ parse_psi_section_syntax_header_sim).
  - intros h e. exact (sim_eq_point _ _ (parse_psi_section_syntax_sim h e)).
  - exact (sim_eq_point _ _ parse_psi_section_sim).
  - exact parse_psi_data_gen.
  - intros bs Hb. unfold parse_psi_data_bytes. apply run_iter_same; [exact parse_psi_data_gen|exact Hb].
Qed.

(* what Props/C13.v quotes: the six table parsers, the dispatch on the table id and PSITableID.Type *)
Lemma psi_tables_are_source :
  (forall t, table_type t = PSITableID_Type t) /\
  (forall e ext, same_on_bytes (parse_pat_section e ext) (parsePATSection e ext)) /\
  (forall e ext, same_on_bytes (parse_pmt_section e ext) (parsePMTSection parse_descriptors e ext)) /\
  (forall e ext, same_on_bytes (parse_sdt_section e ext) (parseSDTSection parse_descriptors e ext)) /\
  (forall ext, same_on_bytes (parse_nit_section ext) (parseNITSection parse_descriptors ext)) /\
  (forall e ext, same_on_bytes (parse_eit_section e ext)
                   (parseEITSection parse_dvb_duration_seconds parse_dvb_time parse_descriptors e ext)) /\
  same_on_bytes parse_tot_section (parseTOTSection parse_dvb_time parse_descriptors) /\
  (forall h sh e, same_on_bytes (parse_psi_section_syntax_data h sh e) (gen_syntax_data (Some h) sh e)).
Proof.
  repeat apply conj.
  - exact table_type_gen.
  - intros e ext. exact (sim_eq_point _ _ (parse_pat_section_sim e ext)).
  - intros e ext. exact (sim_eq_point _ _ (parse_pmt_section_sim e ext)).
  - intros e ext. exact (sim_eq_point _ _ (parse_sdt_section_sim e ext)).
  - intros ext. exact (sim_eq_point _ _ (parse_nit_section_sim ext)).
  - intros e ext. exact (sim_eq_point _ _ (parse_eit_section_sim e ext)).
  - exact (sim_eq_point _ _ parse_tot_section_sim).
  - intros h sh e. exact (sim_eq_point _ _ (parse_psi_section_syntax_data_sim h sh e)).
Qed.
