(* Demuxer.updateData, Demuxer.NextPacket and Demuxer.NextData as regenerated from the current /repo/demuxer.go
   (Gen/DemuxGen.v, Section Demuxer) ARE update_data, next_packet and next_data of Model/Demux.v, with the abstract
   operations instantiated by the model (Proofs/DemuxGenEq.v): the packet buffer's creation and next (Model/Reader.v),
   the pool's addUnlocked / dumpUnlocked (pool_add / pool_dump, themselves equal to the regenerated pool functions:
   Proofs/PoolGenEq.v), parseData (parse_data, tied in Proofs/DemuxGenEqParse.v), programMap.setUnlocked (pm_add), a
   context that is never cancelled.

   What the statements say.  For every state s of the model, every PacketsParser, skipper and unit parsers, the
   generated function run on the fields and the world of s returns
     Done (fields', value, error, world')  with  (value, error) the model's result (res_rel: same value, or an error
           value whose code — read as the harness reads it — is the model's code) and fields' / world' the model's
           next state;
     Panicked   exactly when the model returns Panic;
     OutOfFuel  only for NextData's outer loop, exactly when the model's own fuel (nd_fuel) runs out, which it
           reports as a generic error (shown unreachable for reachable states in Props/C03.v).
   Fuel.  NextData's packet loop runs in lockstep with the model's (fuel_1 = nd_fuel s); for the end-of-stream dump
   loop any fuel_2 > (number of PIDs pending in the pool) + nd_fuel s suffices: every turn removes at least one PID
   from the pool, and each packet read before adds at most one. *)
From Coq Require Import ZArith List Lia Bool String.
Require Import Base.Iter Gen.Consts Gen.Types Gen.Preds Gen.DemuxGen
  Model.Packet Model.Pool Model.Reader Model.Demux Proofs.DemuxGenEq.
Import ListNotations.
Open Scope Z_scope.

(* a fold whose step never fails *)
Lemma ofold_done {A S : Type} (f : S -> A -> outcome S) (g : S -> A -> S) :
  (forall s x, f s x = Done (g s x)) -> forall l s, ofold f l s = Done (fold_left g l s).
Proof.
  intros H l. induction l as [|x r IH]; intros s; cbn [ofold fold_left]; [reflexivity|].
  rewrite H. cbn [obind]. apply IH.
Qed.

Section Data.
Variable err_of : Z -> gerr.
Hypothesis err_of_nomore : forall c, gerr_eqb (err_of c) e_nomore = (c =? E_nomore).
Hypothesis err_of_code : forall c, code_x (err_of c) = norm c.
Variable P : dparsers.
Variable prs : option custom_parser.
Variable skip : Packet -> bool.

Definition go_prs : option go_parser := option_map (embed_parser err_of) prs.
Definition go_sk : option go_skipper := Some (embed_skip skip).
Definition with_sk (pb : option pbuf) : option gpb := option_map (fun p => (p, go_sk)) pb.

Lemma with_sk_fst pb : option_map fst (with_sk pb) = pb.
Proof. destruct pb; reflexivity. Qed.

(* ---- updateData ---- *)

Definition set_pm (w : mworld) (pm : pmap) : mworld := mk_mworld (mw_reader w) pm (mw_groups w) (mw_consulted w).

Definition reg_program (w : mworld) (pgm : PATProgram) : mworld :=
  if PATProgram_ProgramNumber pgm >? 0 then set_pm w (pm_add (mw_pm w) (PATProgram_ProgramMapID pgm)) else w.
Definition reg_data (w : mworld) (v : DemuxerData) : mworld :=
  match DemuxerData_PAT v with Some pat => fold_left reg_program (PATData_Programs pat) w | None => w end.

Lemma reg_program_fold progs : forall w,
  fold_left reg_program progs w =
  set_pm w (fold_left pm_add (map PATProgram_ProgramMapID (filter (fun pg => PATProgram_ProgramNumber pg >? 0) progs)) (mw_pm w)).
Proof.
  induction progs as [|pg r IH]; intros w; cbn [fold_left filter map]; [destruct w; reflexivity|].
  rewrite IH. unfold reg_program.
  destruct (PATProgram_ProgramNumber pg >? 0); cbn [map fold_left]; destruct w; reflexivity.
Qed.

Lemma reg_data_fold ds : forall w,
  fold_left reg_data ds w = set_pm w (fold_left pm_add (flat_map pat_pids ds) (mw_pm w)).
Proof.
  induction ds as [|v r IH]; intros w; cbn [fold_left flat_map]; [destruct w; reflexivity|].
  rewrite IH. rewrite fold_left_app.
  assert (Hv : reg_data w v = set_pm w (fold_left pm_add (pat_pids v) (mw_pm w))).
  { unfold reg_data, pat_pids. destruct (DemuxerData_PAT v) as [pat|]; [apply reg_program_fold|destruct w; reflexivity]. }
  rewrite Hv. destruct w; reflexivity.
Qed.

Definition update_data_is_generated_subject (buf : list DemuxerData) (opt : Z) (gp : option go_parser) (gs : option go_skipper)
  (pb : option gpb) (pl : pool) (ds : list DemuxerData) (w : mworld) :=
  Demuxer_updateData mworld unit unit gpb pool unit unit pm_set_m tt buf tt opt gp gs pb pl tt tt ds w.

Lemma update_data_is_generated buf opt gp gs pb pl ds w :
  update_data_is_generated_subject buf opt gp gs pb pl ds w =
  Done (match ds with [] => buf | _ :: rest => buf ++ rest end, hd_error ds,
        set_pm w (fold_left pm_add (flat_map pat_pids ds) (mw_pm w))).
Proof.
  unfold update_data_is_generated_subject, Demuxer_updateData.
  destruct ds as [|d rest]; [destruct w; reflexivity|].
  set (ds := d :: rest).
  replace (Z.of_nat (List.length ds) >? 0) with true by (subst ds; cbn [List.length]; lia).
  replace (0 <? Z.of_nat (List.length ds)) with true by (subst ds; cbn [List.length]; lia).
  replace (1 <=? Z.of_nat (List.length ds)) with true by (subst ds; cbn [List.length]; lia).
  erewrite (ofold_done _ reg_data).
  - cbn [obind]. rewrite reg_data_fold. subst ds. reflexivity.
  - intros w0 v. unfold reg_data. destruct (DemuxerData_PAT v) as [pat|]; cbn [is_some obind odflt]; [|reflexivity].
    erewrite (ofold_done _ reg_program); [reflexivity|].
    intros w1 pgm. unfold reg_program, pm_set_m, set_pm. destruct (PATProgram_ProgramNumber pgm >? 0); reflexivity.
Qed.

(* the same, as a statement about update_data *)
Lemma update_data_state buf pb pl opt w ds :
  update_data (state_of buf pb pl opt w) ds =
  (hd_error ds, state_of (match ds with [] => buf | _ :: rest => buf ++ rest end) pb pl opt
                         (set_pm w (fold_left pm_add (flat_map pat_pids ds) (mw_pm w)))).
Proof. destruct ds as [|d rest]; destruct w; reflexivity. Qed.

(* ---- NextPacket ---- *)

Definition next_packet_is_generated_subject (s : dstate) :=
  Demuxer_NextPacket mworld unit unit gpb pool unit unit ctx_err_m (new_pb_m err_of) (pb_next_m err_of)
    tt (d_buffer s) tt (d_opt_size s) go_prs go_sk (with_sk (d_pb s)) (d_pool s) tt tt (world_of s).

Definition np_rel (s : dstate) (o : outcome (option gpb * option Packet * option gerr * mworld)) : Prop :=
  match o with
  | Done (pb', p, err, w') =>
      res_rel_exact p err (fst (next_packet skip s)) /\
      pb' = with_sk (d_pb (snd (next_packet skip s))) /\
      snd (next_packet skip s) = state_of (d_buffer s) (d_pb (snd (next_packet skip s))) (d_pool s) (d_opt_size s) w'
  | Panicked => fst (next_packet skip s) = Panic
  | OutOfFuel => False
  end.

(* the error NextPacket passes on: ErrNoMorePackets as it is, anything else wrapped *)
Lemma passed_on c :
  res_rel_exact (@None Packet)
    (if negb (oerr_eqb (go_err err_of c) (Some (EVar "ErrNoMorePackets"%string))) then ewrap (go_err err_of c) else go_err err_of c)
    (Err c).
Proof.
  unfold go_err. cbn [oerr_eqb]. change (EVar "ErrNoMorePackets"%string) with e_nomore. rewrite err_of_nomore.
  destruct (c =? E_nomore) eqn:E; cbn [negb ewrap res_rel_exact].
  - rewrite err_of_code, err_of_nomore. split; [reflexivity|]. rewrite ?E. reflexivity.
  - rewrite code_x_wrap, err_of_code. split; [reflexivity|]. cbn [gerr_eqb e_nomore]. rewrite ?E. reflexivity.
Qed.

Theorem next_packet_is_generated s : np_rel s (next_packet_is_generated_subject s).
Proof.
  unfold np_rel, next_packet_is_generated_subject, Demuxer_NextPacket, ctx_err_m. cbn [obind is_some].
  unfold next_packet. destruct s as [buf pb pl pm r opt grp cons]. unfold world_of.
  cbn [d_pb d_buffer d_pool d_opt_size d_reader d_pm d_groups d_consulted].
  assert (Hnext : forall (pb0 : pbuf) (r0 : reader),
    match pb_next_m err_of (mk_mworld r0 pm grp cons) (pb0, go_sk) with
    | Done (pbx, p, err, w') =>
        let '(rp, r', l) := packet_buffer_next skip pb0 r0 in
        pbx = (pb0, go_sk) /\ w' = mk_mworld r' pm grp (cons ++ l) /\
        match rp with Ok pk => p = Some pk /\ err = None | Err c => p = None /\ err = go_err err_of c | Panic => False end
    | Panicked => fst (fst (packet_buffer_next skip pb0 r0)) = Panic
    | OutOfFuel => False
    end).
  { intros pb0 r0. unfold pb_next_m. cbn [fst snd mw_reader mw_pm mw_groups mw_consulted skip_of go_sk].
    change (unembed_skip (embed_skip skip)) with skip.
    destruct (packet_buffer_next skip pb0 r0) as [[rp r'] l]. destruct rp as [pk|c|]; cbn [fst]; auto. }
  destruct pb as [pb0|]; cbn [with_sk option_map is_some negb].
  - specialize (Hnext pb0 r). destruct (pb_next_m err_of (mk_mworld r pm grp cons) (pb0, go_sk)) as [[[[pbx p] err] w']| |]; [| |contradiction].
    + destruct (packet_buffer_next skip pb0 r) as [[rp r'] l]. destruct Hnext as (-> & -> & Hr). cbn [obind].
      destruct rp as [pk|c|]; [| |contradiction]; destruct Hr as [-> ->]; cbn [is_some obind fst snd].
      * repeat split.
      * pose proof (passed_on c) as Hp.
        destruct (negb (oerr_eqb (go_err err_of c) (Some (EVar "ErrNoMorePackets"%string)))); cbn [obind fst snd]; (split; [exact Hp|split; reflexivity]).
    + destruct (packet_buffer_next skip pb0 r) as [[rp r'] l]. cbn [fst] in *. subst rp. reflexivity.
  - unfold new_pb_m. cbn [mw_reader mw_set_reader mw_pm mw_groups mw_consulted].
    destruct (new_packet_buffer r opt) as [[pb0|c|] r1]; cbn [obind is_some negb]; unfold mw_set_reader;
      cbn [mw_reader mw_pm mw_groups mw_consulted]; [| |reflexivity].
    + specialize (Hnext pb0 r1). cbn [set_reader set_pb d_reader d_pb d_buffer d_pool d_pm d_opt_size d_groups d_consulted].
      destruct (pb_next_m err_of (mk_mworld r1 pm grp cons) (pb0, go_sk)) as [[[[pbx p] err] w']| |]; [| |contradiction].
      * destruct (packet_buffer_next skip pb0 r1) as [[rp r'] l]. destruct Hnext as (-> & -> & Hr). cbn [obind].
        destruct rp as [pk|c|]; [| |contradiction]; destruct Hr as [-> ->]; cbn [is_some obind fst snd].
        -- repeat split.
        -- pose proof (passed_on c) as Hp.
           destruct (negb (oerr_eqb (go_err err_of c) (Some (EVar "ErrNoMorePackets"%string)))); cbn [obind fst snd]; (split; [exact Hp|split; reflexivity]).
      * destruct (packet_buffer_next skip pb0 r1) as [[rp r'] l]. cbn [fst] in *. subst rp. reflexivity.
    + pose proof (passed_on c) as Hp. cbn [fst snd set_reader d_pb d_buffer d_pool d_opt_size].
      destruct (negb (oerr_eqb (go_err err_of c) (Some (EVar "ErrNoMorePackets"%string)))); cbn [obind fst snd]; (split; [exact Hp|split; reflexivity]).
Qed.

(* ---- NextData ---- *)

Lemma pool_dump_shrinks pl : snd (pool_dump pl) <> [] -> (List.length (fst (pool_dump pl)) < List.length pl)%nat.
Proof.
  induction pl as [|[k q] r IH]; cbn [pool_dump]; [intros H; contradiction H; reflexivity|].
  destruct q as [|x q']; cbn [fst snd List.length]; [intros H; specialize (IH H); lia|intros _; lia].
Qed.

Lemma pool_set_length pl k q : (List.length (pool_set pl k q) <= S (List.length pl))%nat.
Proof.
  induction pl as [|[k0 q0] r IH]; cbn [pool_set List.length]; [lia|].
  destruct (k0 =? k); [cbn [List.length]; lia|]. destruct (k <? k0); cbn [List.length]; lia.
Qed.

Lemma pool_add_length pm pl p : (List.length (fst (pool_add pm pl p)) <= S (List.length pl))%nat.
Proof.
  unfold pool_add. destruct (tei p); [cbn; lia|]. destruct (negb (has_payload p)); [cbn; lia|].
  destruct (acc_add pm (pid_of p) _ p) as [q' ps]. cbn [fst]. apply pool_set_length.
Qed.

(* more fuel than PIDs in the pool: the dump loop never runs out *)
Lemma drain_fuel : forall k1 s k2, (List.length (d_pool s) < k1)%nat -> (List.length (d_pool s) < k2)%nat ->
  drain P prs k1 s = drain P prs k2 s.
Proof.
  induction k1 as [|k1 IH]; intros s k2 H1 H2; [lia|]. destruct k2 as [|k2]; [lia|]. cbn [drain].
  pose proof (pool_dump_shrinks (d_pool s)) as Hs.
  destruct (pool_dump (d_pool s)) as [pl' ps]. cbn [fst snd] in Hs.
  destruct ps as [|pk ps']; [reflexivity|]. specialize (Hs ltac:(discriminate)).
  destruct (parse_data P prs _ (pk :: ps')) as [ds|c|]; [|apply IH; cbn; lia|reflexivity].
  destruct (update_data _ ds) as [[d|] s2] eqn:Eu; [reflexivity|].
  assert (Hp : d_pool s2 = pl').
  { destruct ds as [|d0 rest]; cbn [update_data] in Eu; inversion Eu; subst; reflexivity. }
  apply IH; rewrite Hp; lia.
Qed.

Definition nd_out : Type := outcome (list DemuxerData * option gpb * pool * option DemuxerData * option gerr * mworld).

Definition nd_rel (fuel_out : Prop) (opt : Z) (o : nd_out) (m : res DemuxerData * dstate) : Prop :=
  match o with
  | Done (buf', pb', pl', d, err, w') =>
      res_rel d err (fst m) /\ pb' = with_sk (d_pb (snd m)) /\ snd m = state_of buf' (d_pb (snd m)) pl' opt w'
  | Panicked => fst m = Panic
  | OutOfFuel => fuel_out
  end.

Definition drain_is_generated_subject (fuel : nat) (s : dstate) (ds : list DemuxerData) (err : option gerr) (f1 f2 : nat)
  (p : option Packet) (ps : list Packet) : nd_out :=
  Demuxer_NextData_loop2 mworld unit unit gpb pool unit unit pm_set_m pool_dump_m (parse_data_m err_of P)
    fuel tt (d_buffer s) tt (d_opt_size s) go_prs go_sk (with_sk (d_pb s)) (d_pool s) tt tt f1 f2 (world_of s) None err p ps ds.

Lemma parse_data_m_eq w ps : parse_data_m err_of P w ps go_prs (Some tt) =
  let w1 := mk_mworld (mw_reader w) (mw_pm w) (mw_groups w ++ [ps]) (mw_consulted w) in
  match parse_data P prs (mw_pm w) ps with
  | Ok ds => Done (ds, None, w1)
  | Err c => Done ([], go_err err_of c, w1)
  | Panic => Panicked
  end.
Proof. unfold parse_data_m, go_prs. cbn [mw_pm]. rewrite parse_data_embed. reflexivity. Qed.

Lemma pool_dump_m_eq w pl : pool_dump_m w pl = Done (fst (pool_dump pl), snd (pool_dump pl), w).
Proof. unfold pool_dump_m. destruct (pool_dump pl). reflexivity. Qed.

Lemma drain_is_generated : forall fuel s ds0 e f1 f2 p0 ps0,
  (List.length (d_pool s) < fuel)%nat -> gerr_eqb e e_nomore = true ->
  nd_rel False (d_opt_size s) (drain_is_generated_subject fuel s ds0 (Some e) f1 f2 p0 ps0) (drain P prs fuel s).
Proof.
  induction fuel as [|k IH]; intros s ds0 e f1 f2 p0 ps0 Hfuel He; [lia|].
  destruct s as [buf pb pl pm r opt grp cons].
  unfold drain_is_generated_subject. cbn [Demuxer_NextData_loop2 drain]. unfold world_of. rewrite pool_dump_m_eq.
  cbn [d_pb d_buffer d_pool d_opt_size d_reader d_pm d_groups d_consulted] in *.
  pose proof (pool_dump_shrinks pl) as Hs.
  destruct (pool_dump pl) as [pl' ps]. cbn [fst snd] in *. cbn [obind].
  unfold set_pool, log_group. cbn [d_pb d_buffer d_pool d_opt_size d_reader d_pm d_groups d_consulted].
  destruct ps as [|pk ps'].
  - cbn [List.length Z.of_nat Z.eqb nd_rel fst snd res_rel d_pb].
    rewrite (code_x_nomore e He). repeat split.
  - specialize (Hs ltac:(discriminate)).
    replace (Z.of_nat (List.length (pk :: ps')) =? 0) with false by (cbn [List.length]; lia).
    rewrite parse_data_m_eq. cbn [mw_reader mw_pm mw_groups mw_consulted].
    destruct (parse_data P prs pm (pk :: ps')) as [ds|c|]; cbn [obind is_some].
    + change (Demuxer_updateData mworld unit unit gpb pool unit unit pm_set_m tt buf tt opt go_prs go_sk (with_sk pb) pl' tt tt ds ?w)
        with (update_data_is_generated_subject buf opt go_prs go_sk (with_sk pb) pl' ds w).
      rewrite update_data_is_generated. cbn [obind].
      pose proof (update_data_state buf pb pl' opt (mk_mworld r pm (grp ++ [pk :: ps']) cons) ds) as Hu.
      unfold state_of in Hu at 1. cbn [mw_reader mw_pm mw_groups mw_consulted] in Hu. rewrite Hu. clear Hu.
      destruct ds as [|d0 rest]; cbn [hd_error is_some].
      * apply (IH (state_of buf pb pl' opt (set_pm (mk_mworld r pm (grp ++ [pk :: ps']) cons) pm))); [cbn; lia|exact He].
      * cbn [nd_rel fst snd res_rel]. repeat split.
    + apply (IH (mk_dstate buf pb pl' pm r opt (grp ++ [pk :: ps']) cons)); [cbn; lia|exact He].
    + reflexivity.
Qed.

Lemma nd_rel_weaken (Q : Prop) opt o m : nd_rel False opt o m -> nd_rel Q opt o m.
Proof. destruct o as [[[[[[? ?] ?] ?] ?] ?]| |]; cbn [nd_rel]; [auto|auto|contradiction]. Qed.

Lemma pool_add_m_eq w pl pk :
  pool_add_m w pl (Some pk) = Done (fst (pool_add (mw_pm w) pl pk), snd (pool_add (mw_pm w) pl pk), w).
Proof. unfold pool_add_m. destruct (pool_add (mw_pm w) pl pk). reflexivity. Qed.

Definition loop_is_generated_subject (fuel : nat) (s : dstate) (ds : list DemuxerData) (err : option gerr) (f1 f2 : nat)
  (p : option Packet) (ps : list Packet) : nd_out :=
  Demuxer_NextData_loop1 mworld unit unit gpb pool unit unit pm_set_m ctx_err_m (new_pb_m err_of) (pb_next_m err_of)
    pool_dump_m (parse_data_m err_of P) pool_add_m
    fuel tt (d_buffer s) tt (d_opt_size s) go_prs go_sk (with_sk (d_pb s)) (d_pool s) tt tt f1 f2 (world_of s) None err p ps ds.

Lemma loop_is_generated : forall fuel s ds0 err0 f1 f2 p0 ps0,
  (List.length (d_pool s) + fuel < f2)%nat ->
  nd_rel (fst (next_data_loop P prs skip fuel s) = Err E_generic) (d_opt_size s)
         (loop_is_generated_subject fuel s ds0 err0 f1 f2 p0 ps0) (next_data_loop P prs skip fuel s).
Proof.
  induction fuel as [|k IH]; intros s ds0 err0 f1 f2 p0 ps0 Hfuel; [reflexivity|].
  unfold loop_is_generated_subject. cbn [Demuxer_NextData_loop1 next_data_loop].
  change (Demuxer_NextPacket mworld unit unit gpb pool unit unit ctx_err_m (new_pb_m err_of) (pb_next_m err_of)
            tt (d_buffer s) tt (d_opt_size s) go_prs go_sk (with_sk (d_pb s)) (d_pool s) tt tt (world_of s))
    with (next_packet_is_generated_subject s).
  pose proof (next_packet_is_generated s) as Hnp. unfold np_rel in Hnp.
  destruct (next_packet_is_generated_subject s) as [[[[pb' p] err] w']| |]; [| |contradiction].
  2:{ destruct (next_packet skip s) as [rp s1]. cbn [fst] in Hnp. subst rp. reflexivity. }
  destruct (next_packet skip s) as [rp s1]. cbn [fst snd] in Hnp. destruct Hnp as (Hr & Hpb & Hs1).
  remember (d_pb s1) as pbx eqn:Epbx. clear Epbx. subst s1 pb'. cbn [obind].
  set (buf := d_buffer s) in *. set (pl := d_pool s) in *. set (opt := d_opt_size s) in *.
  destruct w' as [wr wpm wg wc].
  destruct err as [e|]; destruct rp as [pk|c|]; cbn [res_rel_exact] in Hr; try contradiction; cbn [is_some].
  - (* NextPacket failed *)
    destruct Hr as [Hc Hx]. cbn [oerr_eqb]. change (EVar "ErrNoMorePackets"%string) with e_nomore. rewrite Hx.
    destruct (c =? E_nomore) eqn:Ec.
    + (* end of stream: dump the pool *)
      apply nd_rel_weaken.
      rewrite (drain_fuel (S (List.length (d_pool (state_of buf pbx pl opt (mk_mworld wr wpm wg wc))))) _ f2); [|cbn; lia|cbn; subst pl; lia].
      exact (drain_is_generated f2 (state_of buf pbx pl opt (mk_mworld wr wpm wg wc)) ds0 e f1 f2 p ps0 ltac:(cbn; subst pl; lia) Hx).
    + cbn [nd_rel fst snd res_rel ewrap d_pb state_of]. rewrite code_x_wrap. repeat split. exact Hc.
  - (* a packet *)
    subst p. rewrite pool_add_m_eq. unfold state_of. cbn [obind mw_pm mw_reader mw_groups mw_consulted d_pm d_pool].
    pose proof (pool_add_length wpm pl pk) as Hlen.
    destruct (pool_add wpm pl pk) as [pl' ps]. cbn [fst snd] in *.
    unfold set_pool, log_group. cbn [d_pb d_buffer d_pool d_opt_size d_reader d_pm d_groups d_consulted].
    destruct ps as [|p1 ps'].
    + cbn [List.length Z.of_nat Z.eqb].
      exact (IH (state_of buf pbx pl' opt (mk_mworld wr wpm wg wc)) ds0 None f1 f2 (Some pk) [] ltac:(cbn; subst pl; lia)).
    + replace (Z.of_nat (List.length (p1 :: ps')) =? 0) with false by (cbn [List.length]; lia).
      rewrite parse_data_m_eq. cbn [mw_reader mw_pm mw_groups mw_consulted].
      destruct (parse_data P prs wpm (p1 :: ps')) as [ds|c|]; cbn [obind is_some].
      * change (Demuxer_updateData mworld unit unit gpb pool unit unit pm_set_m tt buf tt opt go_prs go_sk (with_sk pbx) pl' tt tt ds ?w)
          with (update_data_is_generated_subject buf opt go_prs go_sk (with_sk pbx) pl' ds w).
        rewrite update_data_is_generated. cbn [obind].
        pose proof (update_data_state buf pbx pl' opt (mk_mworld wr wpm (wg ++ [p1 :: ps']) wc) ds) as Hu.
        unfold state_of in Hu at 1. cbn [mw_reader mw_pm mw_groups mw_consulted] in Hu. rewrite Hu. clear Hu.
        destruct ds as [|d0 rest]; cbn [hd_error is_some].
        -- exact (IH (state_of buf pbx pl' opt (set_pm (mk_mworld wr wpm (wg ++ [p1 :: ps']) wc) wpm)) [] None f1 f2 (Some pk) (p1 :: ps') ltac:(cbn; subst pl; lia)).
        -- cbn [nd_rel fst snd res_rel]. repeat split.
      * unfold go_err. cbn [is_some nd_rel fst snd res_rel ewrap d_pb]. rewrite code_x_wrap, err_of_code. repeat split.
      * reflexivity.
Qed.

Definition next_data_is_generated_subject (s : dstate) (f2 : nat) : nd_out :=
  Demuxer_NextData mworld unit unit gpb pool unit unit pm_set_m ctx_err_m (new_pb_m err_of) (pb_next_m err_of)
    pool_dump_m (parse_data_m err_of P) pool_add_m
    tt (d_buffer s) tt (d_opt_size s) go_prs go_sk (with_sk (d_pb s)) (d_pool s) tt tt (nd_fuel s) f2 (world_of s).

Theorem next_data_is_generated s f2 : (List.length (d_pool s) + nd_fuel s < f2)%nat ->
  nd_rel (fst (next_data P prs skip s) = Err E_generic) (d_opt_size s) (next_data_is_generated_subject s f2) (next_data P prs skip s).
Proof.
  intros Hfuel. unfold next_data_is_generated_subject, Demuxer_NextData, next_data.
  destruct (d_buffer s) as [|d rest] eqn:Eb.
  - cbn [List.length Z.of_nat Z.gtb Z.compare].
    pose proof (loop_is_generated (nd_fuel s) s [] None (nd_fuel s) f2 None [] Hfuel) as H.
    unfold loop_is_generated_subject in H. rewrite Eb in H. exact H.
  - replace (Z.of_nat (List.length (d :: rest)) >? 0) with true by (cbn [List.length]; lia).
    replace (0 <? Z.of_nat (List.length (d :: rest))) with true by (cbn [List.length]; lia).
    replace (1 <=? Z.of_nat (List.length (d :: rest))) with true by (cbn [List.length]; lia).
    cbn [nd_rel fst snd res_rel nth Z.to_nat skipn d_pb Pos.to_nat Pos.iter_op Nat.add]. 
    destruct s; cbn in *. subst. repeat split.
Qed.


End Data.
