(* The hand-written parsers of Model/Clock.v, Model/Packet.v and Model/Pes.v are equal, as computations in the
   iterator monad, to the definitions that go/gen (itermonad.go) translates from the CURRENT source of packet.go and
   data_pes.go into Gen/ParseGen.v -- on every iterator whose bytes are in 0..255 (which is what a Go []byte holds).
   A change to one of the Go parsers changes Gen/ParseGen.v and the corresponding lemma here stops checking. *)
From Coq Require Import ZArith List Lia Bool ZifyBool.
Require Import Base.Bits Base.Iter Gen.Consts Gen.Types Gen.Preds Gen.ParseGen.
Require Import Model.Clock Model.Packet Model.Pes Proofs.ParseGenBits Proofs.ParseGenSim.
Import ListNotations.
Open Scope Z_scope.

(* ---------------- clock references ---------------- *)

(* a parser that reads n bytes and returns a pure function of them *)
Lemma sim_bytes_fun {A} n (f g : list Z -> A) :
  (forall bs, bytes_ok bs -> length bs = Z.to_nat n -> f bs = g bs) ->
  sim eq (ibind (next_bytes_nocopy n) (fun bs => iret (f bs))) (ibind (next_bytes_nocopy n) (fun bs => iret (g bs))).
Proof.
  intros H. eapply sim_bind; [apply sim_next_bytes_nocopy|].
  intros a1 a2 (<- & Hok & Hlen). apply sim_ret. apply H; assumption.
Qed.

Lemma parse_pcr_sim : sim eq parse_pcr parsePCR.
Proof.
  unfold parse_pcr, parsePCR. cbv zeta. apply sim_bytes_fun. intros bs Hok Hlen.
  explode_bytes bs Hlen Hok. nth_lit. pose proof Hok as Hok'. bytes_inv Hok'.
  unfold mk_cr, newClockReference. f_equal; bridge.
Qed.

Lemma parse_pts_or_dts_sim : sim eq parse_pts_or_dts parsePTSOrDTS.
Proof.
  unfold parse_pts_or_dts, parsePTSOrDTS. cbv zeta. apply sim_bytes_fun. intros bs Hok Hlen.
  explode_bytes bs Hlen Hok. nth_lit. pose proof Hok as Hok'. bytes_inv Hok'.
  unfold mk_cr, newClockReference. f_equal. bridge.
Qed.

Lemma parse_escr_sim : sim eq parse_escr parseESCR.
Proof.
  unfold parse_escr, parseESCR. cbv zeta. apply sim_bytes_fun. intros bs Hok Hlen.
  explode_bytes bs Hlen Hok. nth_lit. pose proof Hok as Hok'. bytes_inv Hok'.
  unfold mk_cr, newClockReference. f_equal; bridge.
Qed.

(* ---------------- DSM trick mode (a pure function of one byte: complete sweep) ---------------- *)

Definition dsm_eqb (x y : DSMTrickMode) : bool :=
  (DSMTrickMode_FieldID x =? DSMTrickMode_FieldID y) && (DSMTrickMode_FrequencyTruncation x =? DSMTrickMode_FrequencyTruncation y)
  && (DSMTrickMode_IntraSliceRefresh x =? DSMTrickMode_IntraSliceRefresh y) && (DSMTrickMode_RepeatControl x =? DSMTrickMode_RepeatControl y)
  && (DSMTrickMode_TrickModeControl x =? DSMTrickMode_TrickModeControl y).

Lemma dsm_eqb_eq x y : dsm_eqb x y = true -> x = y.
Proof.
  destruct x, y. unfold dsm_eqb. cbn. intros H.
  repeat (apply andb_true_iff in H; destruct H as [H ?]).
  repeat match goal with E : (_ =? _) = true |- _ => apply Z.eqb_eq in E end. subst. reflexivity.
Qed.

Lemma parse_dsm_trick_mode_gen : forall b, byte_ok b -> parse_dsm_trick_mode b = parseDSMTrickMode b.
Proof.
  intros b Hb. apply dsm_eqb_eq. revert b Hb.
  apply (byte_sweep (fun b => dsm_eqb (parse_dsm_trick_mode b) (parseDSMTrickMode b))).
  vm_compute. reflexivity.
Qed.

(* ---------------- packet header ---------------- *)

Lemma parse_packet_header_sim : sim eq parse_packet_header parsePacketHeader.
Proof.
  unfold parse_packet_header, parsePacketHeader. cbv zeta. apply sim_bytes_fun. intros bs Hok Hlen.
  explode_bytes bs Hlen Hok. nth_lit. pose proof Hok as Hok'. bytes_inv Hok'.
  f_equal; bridge.
Qed.

(* ---------------- adaptation field ---------------- *)

(* a.AdaptationExtensionField.f = v, as the generated code writes it *)
Definition upd_aef (f : PacketAdaptationExtensionField -> PacketAdaptationExtensionField) (a : PacketAdaptationField) : PacketAdaptationField :=
  set_PacketAdaptationField_AdaptationExtensionField (Some (f (odflt zero_PacketAdaptationExtensionField (PacketAdaptationField_AdaptationExtensionField a)))) a.

Ltac paf_norm := cbn beta iota zeta delta [upd_aef fst snd
  set_PacketAdaptationExtensionField_DTSNextAccessUnit set_PacketAdaptationExtensionField_HasLegalTimeWindow set_PacketAdaptationExtensionField_HasPiecewiseRate set_PacketAdaptationExtensionField_HasSeamlessSplice set_PacketAdaptationExtensionField_LegalTimeWindowIsValid set_PacketAdaptationExtensionField_LegalTimeWindowOffset set_PacketAdaptationExtensionField_Length set_PacketAdaptationExtensionField_PiecewiseRate set_PacketAdaptationExtensionField_SpliceType set_PacketAdaptationField_AdaptationExtensionField set_PacketAdaptationField_DiscontinuityIndicator set_PacketAdaptationField_ElementaryStreamPriorityIndicator set_PacketAdaptationField_HasAdaptationExtensionField set_PacketAdaptationField_HasOPCR set_PacketAdaptationField_HasPCR set_PacketAdaptationField_HasSplicingCountdown set_PacketAdaptationField_HasTransportPrivateData set_PacketAdaptationField_IsOneByteStuffing set_PacketAdaptationField_Length set_PacketAdaptationField_OPCR set_PacketAdaptationField_PCR set_PacketAdaptationField_RandomAccessIndicator set_PacketAdaptationField_SpliceCountdown set_PacketAdaptationField_StuffingLength set_PacketAdaptationField_TransportPrivateData set_PacketAdaptationField_TransportPrivateDataLength
  PacketAdaptationField_AdaptationExtensionField PacketAdaptationField_OPCR PacketAdaptationField_PCR PacketAdaptationField_TransportPrivateData PacketAdaptationField_TransportPrivateDataLength PacketAdaptationField_Length PacketAdaptationField_StuffingLength PacketAdaptationField_SpliceCountdown PacketAdaptationField_IsOneByteStuffing PacketAdaptationField_RandomAccessIndicator PacketAdaptationField_DiscontinuityIndicator PacketAdaptationField_ElementaryStreamPriorityIndicator PacketAdaptationField_HasAdaptationExtensionField PacketAdaptationField_HasOPCR PacketAdaptationField_HasPCR PacketAdaptationField_HasTransportPrivateData PacketAdaptationField_HasSplicingCountdown
  PacketAdaptationExtensionField_DTSNextAccessUnit PacketAdaptationExtensionField_HasLegalTimeWindow PacketAdaptationExtensionField_HasPiecewiseRate PacketAdaptationExtensionField_HasSeamlessSplice PacketAdaptationExtensionField_LegalTimeWindowIsValid PacketAdaptationExtensionField_LegalTimeWindowOffset PacketAdaptationExtensionField_Length PacketAdaptationExtensionField_PiecewiseRate PacketAdaptationExtensionField_SpliceType
  odflt zero_PacketAdaptationField zero_PacketAdaptationExtensionField].
Ltac paf_cbv := cbv beta iota zeta delta [upd_aef fst snd
  set_PacketAdaptationExtensionField_DTSNextAccessUnit set_PacketAdaptationExtensionField_HasLegalTimeWindow set_PacketAdaptationExtensionField_HasPiecewiseRate set_PacketAdaptationExtensionField_HasSeamlessSplice set_PacketAdaptationExtensionField_LegalTimeWindowIsValid set_PacketAdaptationExtensionField_LegalTimeWindowOffset set_PacketAdaptationExtensionField_Length set_PacketAdaptationExtensionField_PiecewiseRate set_PacketAdaptationExtensionField_SpliceType set_PacketAdaptationField_AdaptationExtensionField set_PacketAdaptationField_DiscontinuityIndicator set_PacketAdaptationField_ElementaryStreamPriorityIndicator set_PacketAdaptationField_HasAdaptationExtensionField set_PacketAdaptationField_HasOPCR set_PacketAdaptationField_HasPCR set_PacketAdaptationField_HasSplicingCountdown set_PacketAdaptationField_HasTransportPrivateData set_PacketAdaptationField_IsOneByteStuffing set_PacketAdaptationField_Length set_PacketAdaptationField_OPCR set_PacketAdaptationField_PCR set_PacketAdaptationField_RandomAccessIndicator set_PacketAdaptationField_SpliceCountdown set_PacketAdaptationField_StuffingLength set_PacketAdaptationField_TransportPrivateData set_PacketAdaptationField_TransportPrivateDataLength
  PacketAdaptationField_AdaptationExtensionField PacketAdaptationField_OPCR PacketAdaptationField_PCR PacketAdaptationField_TransportPrivateData PacketAdaptationField_TransportPrivateDataLength PacketAdaptationField_Length PacketAdaptationField_StuffingLength PacketAdaptationField_SpliceCountdown PacketAdaptationField_IsOneByteStuffing PacketAdaptationField_RandomAccessIndicator PacketAdaptationField_DiscontinuityIndicator PacketAdaptationField_ElementaryStreamPriorityIndicator PacketAdaptationField_HasAdaptationExtensionField PacketAdaptationField_HasOPCR PacketAdaptationField_HasPCR PacketAdaptationField_HasTransportPrivateData PacketAdaptationField_HasSplicingCountdown
  PacketAdaptationExtensionField_DTSNextAccessUnit PacketAdaptationExtensionField_HasLegalTimeWindow PacketAdaptationExtensionField_HasPiecewiseRate PacketAdaptationExtensionField_HasSeamlessSplice PacketAdaptationExtensionField_LegalTimeWindowIsValid PacketAdaptationExtensionField_LegalTimeWindowOffset PacketAdaptationExtensionField_Length PacketAdaptationExtensionField_PiecewiseRate PacketAdaptationExtensionField_SpliceType
  odflt zero_PacketAdaptationField zero_PacketAdaptationExtensionField].



Lemma parse_packet_adaptation_field_gen : forall i, okI i -> parse_packet_adaptation_field i = parsePacketAdaptationField i.
Proof.
  intros i Hi. unfold parse_packet_adaptation_field, parsePacketAdaptationField.
  paf_norm.
  apply bind_step. intros len i1 E1.
  apply next_byte_ok in E1. destruct E1 as (Hoff & Hbs1 & Hoff1 & Hlen).
  assert (Hi1 : okI i1) by (unfold okI; rewrite Hbs1; exact Hi).
  assert (Hl : byte_ok len) by (subst len; apply nth_byte_ok, Hi).
  clear Hlen Hoff Hoff1 Hbs1.
  apply bind_step. intros s i2 E2.
  assert (Hs : s = ioff i1 /\ i2 = i1) by (unfold ioffset in E2; inversion E2; auto). clear E2. destruct Hs as [Hs ->].
  destruct (len >? 0) eqn:El.
  2:{ unfold ibind, iret, ioffset. f_equal. f_equal. paf_norm.
      assert (len = 0) by (unfold byte_ok in Hl; lia). subst len s. rewrite Z.sub_diag. reflexivity. }
  clear Hs. apply sim_point; [|exact Hi1]. clear i Hi i1 Hi1.
  apply sim_assoc_r.
  eapply sim_bind; [apply sim_next_byte|]. intros fl ? (<- & Hfl). cbv beta.
  flags fl Hfl.
  (* PCR *)
  apply sim_assoc_r. eapply sim_bind.
  { apply sim_if; [eapply sim_bind; [apply parse_pcr_sim|]; intros c ? <-; apply sim_ret; inst_R | apply sim_ret; reflexivity]. }
  cbv beta. intros pcr a ->. paf_norm.
  (* OPCR *)
  apply sim_assoc_r. eapply sim_bind.
  { apply sim_if; [eapply sim_bind; [apply parse_pcr_sim|]; intros c ? <-; apply sim_ret; inst_R | apply sim_ret; reflexivity]. }
  cbv beta. intros opcr a ->. paf_norm.
  (* splice countdown *)
  apply sim_assoc_r. eapply sim_bind.
  { unfold when. apply sim_if; [eapply sim_map_r; [apply sim_next_byte|]; intros x ? (<- & Hx); inst_R | apply sim_ret; reflexivity]. }
  cbv beta. intros sc a ->. paf_norm.
  (* transport private data *)
  apply sim_assoc_r.
  lazymatch goal with |- sim _ _ (ibind (if _ then _ else iret ?A) _) =>
    eapply (sim_bind (fun (p : Z * list Z) a' =>
      a' = set_PacketAdaptationField_TransportPrivateData (snd p) (set_PacketAdaptationField_TransportPrivateDataLength (fst p) A))) end.
  { apply sim_if; [|apply sim_ret; reflexivity].
    eapply sim_bind; [apply sim_next_byte|]. intros l ? (<- & Hlb). cbv beta.
    eapply sim_bind.
    { unfold when. apply sim_if; [eapply sim_map_r; [apply sim_next_bytes|]; intros x ? (<- & _ & _); inst_R | apply sim_ret; reflexivity]. }
    cbv beta. intros d a ->. apply sim_ret. reflexivity. }
  cbv beta. intros [tpdl tpd] a ->. cbn [fst snd]. paf_norm.
  (* extension *)
  apply sim_assoc_r.
  lazymatch goal with |- sim _ _ (ibind (if _ then _ else iret ?A) _) =>
    set (A0 := A);
    eapply (sim_bind (fun o a' => a' = set_PacketAdaptationField_AdaptationExtensionField o A0)) end.
  { apply sim_if; [|apply sim_ret; subst A0; paf_cbv; reflexivity]. clearbody A0.
    unfold parse_af_extension. apply sim_assoc_l.
    eapply sim_bind; [apply sim_next_byte|]. intros elen ? (<- & Helen). cbv beta zeta.
    eapply (sim_bind (fun e a' => a' = set_PacketAdaptationField_AdaptationExtensionField (Some e) A0)).
    2:{ intros e a' ->. apply sim_ret. reflexivity. }
    apply sim_if; [|apply sim_ret; paf_cbv; reflexivity].
    eapply sim_bind; [apply sim_next_byte|]. intros efl ? (<- & Hefl). cbv beta zeta. flags efl Hefl.
    (* legal time window *)
    lazymatch goal with |- sim _ _ (ibind (if ?c then _ else iret ?A) _) =>
      eapply (sim_bind (fun ltw a' => a' = upd_aef (fun e =>
         set_PacketAdaptationExtensionField_LegalTimeWindowOffset (if c then bitsf ltw 1 15 else 0)
           (set_PacketAdaptationExtensionField_LegalTimeWindowIsValid (if c then bitb ltw 0 else false) e)) A)) end.
    { unfold when. apply sim_if_eqn; intros Hc.
      - eapply sim_map_r; [apply sim_next_bytes_nocopy|]. intros x ? (<- & Hok & Hlen). rewrite Hc.
        explode_bytes x Hlen Hok. nth_lit. pose proof Hok as Hok'. bytes_inv Hok'.
        paf_cbv. repeat f_equal; bridge.
      - apply sim_ret. rewrite Hc. paf_cbv. reflexivity. }
    cbv beta. intros ltw a ->. paf_norm.
    (* piecewise rate *)
    lazymatch goal with |- sim _ _ (ibind (if ?c then _ else iret ?A) _) =>
      eapply (sim_bind (fun pr a' => a' = upd_aef (fun e =>
         set_PacketAdaptationExtensionField_PiecewiseRate (if c then bitsf pr 2 22 else 0) e) A)) end.
    { unfold when. apply sim_if_eqn; intros Hc.
      - eapply sim_map_r; [apply sim_next_bytes_nocopy|]. intros x ? (<- & Hok & Hlen). rewrite Hc.
        explode_bytes x Hlen Hok. nth_lit. pose proof Hok as Hok'. bytes_inv Hok'.
        paf_cbv. repeat f_equal; bridge.
      - apply sim_ret. rewrite Hc. paf_cbv. reflexivity. }
    cbv beta. intros pr a ->. paf_norm.
    (* seamless splice *)
    lazymatch goal with |- sim _ _ (ibind (if ?c then _ else iret ?A) _) =>
      eapply (sim_bind (fun (p : Z * option ClockReference) a' => a' = upd_aef (fun e =>
         set_PacketAdaptationExtensionField_DTSNextAccessUnit (snd p)
           (set_PacketAdaptationExtensionField_SpliceType (fst p) e)) A)) end.
    { apply sim_if.
      - eapply sim_bind; [apply sim_next_byte|]. intros b2 ? (<- & Hb2). cbv beta.
        eapply sim_bind; [apply sim_iskip|]. intros _ _ _.
        eapply sim_bind; [apply parse_pts_or_dts_sim|]. intros d ? <-.
        apply sim_ret. paf_cbv. repeat f_equal; bridge.
      - apply sim_ret. paf_cbv. reflexivity. }
    cbv beta. intros [st dts] a ->. paf_norm.
    apply sim_ret. paf_cbv. reflexivity. }
  cbv beta. intros ext a ->. subst A0. paf_norm.
  (* stuffing length *)
  apply sim_ret_bind_r.
  eapply sim_bind; [apply sim_ioffset|]. intros off ? <-.
  apply sim_ret. paf_cbv. replace (len =? 0) with false by lia. reflexivity.
Qed.

(* ---------------- PES optional header ---------------- *)

(* what the PES extension part of the hand model contributes, as the generated code stores it *)
Definition apply_ext (e : PesExt) (h : PESOptionalHeader) : PESOptionalHeader :=
  set_PESOptionalHeader_Extension2Data (pe_e2data e) (set_PESOptionalHeader_Extension2Length (pe_e2len e)
  (set_PESOptionalHeader_PSTDBufferSize (pe_size e) (set_PESOptionalHeader_PSTDBufferScale (pe_scale e)
  (set_PESOptionalHeader_OriginalStuffingLength (pe_osl e) (set_PESOptionalHeader_MPEG1OrMPEG2ID (pe_mpeg e)
  (set_PESOptionalHeader_PacketSequenceCounter (pe_psc e) (set_PESOptionalHeader_PackField (pe_pack e)
  (set_PESOptionalHeader_PrivateData (pe_pd e) (set_PESOptionalHeader_HasExtension2 (pe_hasExt2 e)
  (set_PESOptionalHeader_HasPSTDBuffer (pe_hasPSTD e) (set_PESOptionalHeader_HasProgramPacketSequenceCounter (pe_hasPSC e)
  (set_PESOptionalHeader_HasPackHeaderField (pe_hasPack e) (set_PESOptionalHeader_HasPrivateData (pe_hasPD e) h))))))))))))).

Ltac poh_norm := cbn beta iota zeta delta [fst snd odflt zero_PESOptionalHeader apply_ext zero_PesExt
  pe_hasPD pe_hasPack pe_hasPSC pe_hasPSTD pe_hasExt2 pe_pd pe_pack pe_psc pe_mpeg pe_osl pe_scale pe_size pe_e2len pe_e2data
  set_PESOptionalHeader_AdditionalCopyInfo set_PESOptionalHeader_CRC set_PESOptionalHeader_DSMTrickMode set_PESOptionalHeader_DTS set_PESOptionalHeader_DataAlignmentIndicator set_PESOptionalHeader_ESCR set_PESOptionalHeader_ESRate set_PESOptionalHeader_Extension2Data set_PESOptionalHeader_Extension2Length set_PESOptionalHeader_HasAdditionalCopyInfo set_PESOptionalHeader_HasCRC set_PESOptionalHeader_HasDSMTrickMode set_PESOptionalHeader_HasESCR set_PESOptionalHeader_HasESRate set_PESOptionalHeader_HasExtension set_PESOptionalHeader_HasExtension2 set_PESOptionalHeader_HasPSTDBuffer set_PESOptionalHeader_HasPackHeaderField set_PESOptionalHeader_HasPrivateData set_PESOptionalHeader_HasProgramPacketSequenceCounter set_PESOptionalHeader_HeaderLength set_PESOptionalHeader_IsCopyrighted set_PESOptionalHeader_IsOriginal set_PESOptionalHeader_MPEG1OrMPEG2ID set_PESOptionalHeader_MarkerBits set_PESOptionalHeader_OriginalStuffingLength set_PESOptionalHeader_PSTDBufferScale set_PESOptionalHeader_PSTDBufferSize set_PESOptionalHeader_PTS set_PESOptionalHeader_PTSDTSIndicator set_PESOptionalHeader_PackField set_PESOptionalHeader_PacketSequenceCounter set_PESOptionalHeader_Priority set_PESOptionalHeader_PrivateData set_PESOptionalHeader_ScramblingControl 
    PESOptionalHeader_AdditionalCopyInfo   PESOptionalHeader_CRC   PESOptionalHeader_DSMTrickMode   PESOptionalHeader_DTS   PESOptionalHeader_DataAlignmentIndicator   PESOptionalHeader_ESCR   PESOptionalHeader_ESRate   PESOptionalHeader_Extension2Data   PESOptionalHeader_Extension2Length   PESOptionalHeader_HasAdditionalCopyInfo   PESOptionalHeader_HasCRC   PESOptionalHeader_HasDSMTrickMode   PESOptionalHeader_HasESCR   PESOptionalHeader_HasESRate   PESOptionalHeader_HasExtension   PESOptionalHeader_HasExtension2   PESOptionalHeader_HasOptionalFields   PESOptionalHeader_HasPSTDBuffer   PESOptionalHeader_HasPackHeaderField   PESOptionalHeader_HasPrivateData   PESOptionalHeader_HasProgramPacketSequenceCounter   PESOptionalHeader_HeaderLength   PESOptionalHeader_IsCopyrighted   PESOptionalHeader_IsOriginal   PESOptionalHeader_MPEG1OrMPEG2ID   PESOptionalHeader_MarkerBits   PESOptionalHeader_OriginalStuffingLength   PESOptionalHeader_PSTDBufferScale   PESOptionalHeader_PSTDBufferSize   PESOptionalHeader_PTS   PESOptionalHeader_PTSDTSIndicator   PESOptionalHeader_PackField   PESOptionalHeader_PacketSequenceCounter   PESOptionalHeader_Priority   PESOptionalHeader_PrivateData   PESOptionalHeader_ScramblingControl ].
Ltac poh_cbv := cbv beta iota zeta delta [fst snd odflt zero_PESOptionalHeader apply_ext zero_PesExt
  pe_hasPD pe_hasPack pe_hasPSC pe_hasPSTD pe_hasExt2 pe_pd pe_pack pe_psc pe_mpeg pe_osl pe_scale pe_size pe_e2len pe_e2data
  set_PESOptionalHeader_AdditionalCopyInfo set_PESOptionalHeader_CRC set_PESOptionalHeader_DSMTrickMode set_PESOptionalHeader_DTS set_PESOptionalHeader_DataAlignmentIndicator set_PESOptionalHeader_ESCR set_PESOptionalHeader_ESRate set_PESOptionalHeader_Extension2Data set_PESOptionalHeader_Extension2Length set_PESOptionalHeader_HasAdditionalCopyInfo set_PESOptionalHeader_HasCRC set_PESOptionalHeader_HasDSMTrickMode set_PESOptionalHeader_HasESCR set_PESOptionalHeader_HasESRate set_PESOptionalHeader_HasExtension set_PESOptionalHeader_HasExtension2 set_PESOptionalHeader_HasPSTDBuffer set_PESOptionalHeader_HasPackHeaderField set_PESOptionalHeader_HasPrivateData set_PESOptionalHeader_HasProgramPacketSequenceCounter set_PESOptionalHeader_HeaderLength set_PESOptionalHeader_IsCopyrighted set_PESOptionalHeader_IsOriginal set_PESOptionalHeader_MPEG1OrMPEG2ID set_PESOptionalHeader_MarkerBits set_PESOptionalHeader_OriginalStuffingLength set_PESOptionalHeader_PSTDBufferScale set_PESOptionalHeader_PSTDBufferSize set_PESOptionalHeader_PTS set_PESOptionalHeader_PTSDTSIndicator set_PESOptionalHeader_PackField set_PESOptionalHeader_PacketSequenceCounter set_PESOptionalHeader_Priority set_PESOptionalHeader_PrivateData set_PESOptionalHeader_ScramblingControl 
    PESOptionalHeader_AdditionalCopyInfo   PESOptionalHeader_CRC   PESOptionalHeader_DSMTrickMode   PESOptionalHeader_DTS   PESOptionalHeader_DataAlignmentIndicator   PESOptionalHeader_ESCR   PESOptionalHeader_ESRate   PESOptionalHeader_Extension2Data   PESOptionalHeader_Extension2Length   PESOptionalHeader_HasAdditionalCopyInfo   PESOptionalHeader_HasCRC   PESOptionalHeader_HasDSMTrickMode   PESOptionalHeader_HasESCR   PESOptionalHeader_HasESRate   PESOptionalHeader_HasExtension   PESOptionalHeader_HasExtension2   PESOptionalHeader_HasOptionalFields   PESOptionalHeader_HasPSTDBuffer   PESOptionalHeader_HasPackHeaderField   PESOptionalHeader_HasPrivateData   PESOptionalHeader_HasProgramPacketSequenceCounter   PESOptionalHeader_HeaderLength   PESOptionalHeader_IsCopyrighted   PESOptionalHeader_IsOriginal   PESOptionalHeader_MPEG1OrMPEG2ID   PESOptionalHeader_MarkerBits   PESOptionalHeader_OriginalStuffingLength   PESOptionalHeader_PSTDBufferScale   PESOptionalHeader_PSTDBufferSize   PESOptionalHeader_PTS   PESOptionalHeader_PTSDTSIndicator   PESOptionalHeader_PackField   PESOptionalHeader_PacketSequenceCounter   PESOptionalHeader_Priority   PESOptionalHeader_PrivateData   PESOptionalHeader_ScramblingControl ].

(* a block that stores into the record A what the hand model returns *)
Ltac blk_set S :=
  try apply sim_assoc_r;
  lazymatch goal with |- sim _ _ (ibind (if _ then _ else iret ?A) _) => eapply (sim_bind (fun x a' => a' = S x A)) end.

Lemma parse_pes_optional_header_sim : sim eq parse_pes_optional_header parsePESOptionalHeader.
Proof.
  unfold parse_pes_optional_header, parsePESOptionalHeader. poh_norm.
  eapply sim_bind; [apply sim_next_byte|]. intros b0 ? (<- & Hb0). cbv beta.
  eapply sim_bind; [apply sim_next_byte|]. intros b1 ? (<- & Hb1). cbv beta.
  eapply sim_bind; [apply sim_next_byte|]. intros b2 ? (<- & Hb2). cbv beta.
  eapply sim_bind; [apply sim_ioffset|]. intros off ? <-. cbv beta.
  flags b0 Hb0. flags b1 Hb1.
  rewrite ?(byte_shr6 b0 Hb0), ?(byte_shr4_and3 b0 Hb0), ?(byte_shr6_and3 b1 Hb1).
  (* PTS / DTS *)
  lazymatch goal with |- sim _ _ (ibind (if _ then _ else ibind (if _ then _ else iret ?A) _) _) =>
    eapply (sim_bind (fun (p : option ClockReference * option ClockReference) a' =>
             a' = set_PESOptionalHeader_DTS (snd p) (set_PESOptionalHeader_PTS (fst p) A))) end.
  { unfold parse_ptsdts. apply sim_if.
    - eapply sim_bind; [apply parse_pts_or_dts_sim|]. intros p ? <-. apply sim_ret. poh_cbv. reflexivity.
    - apply sim_bind_ret_r. apply sim_if.
      + eapply sim_bind; [apply parse_pts_or_dts_sim|]. intros p ? <-. cbv beta.
        eapply sim_bind; [apply parse_pts_or_dts_sim|]. intros d ? <-. apply sim_ret. poh_cbv. reflexivity.
      + apply sim_ret. poh_cbv. reflexivity. }
  cbv beta. intros [pts dts] h ->. poh_norm.
  (* ESCR *)
  blk_set set_PESOptionalHeader_ESCR.
  { unfold parse_escr_opt. apply sim_if.
    - eapply sim_bind; [apply parse_escr_sim|]. intros e ? <-. apply sim_ret. reflexivity.
    - apply sim_ret. poh_cbv. reflexivity. }
  cbv beta. intros escr h ->. poh_norm.
  (* ES rate *)
  blk_set set_PESOptionalHeader_ESRate.
  { unfold parse_es_rate. apply sim_if.
    - eapply sim_bind; [apply sim_next_bytes_nocopy|]. intros x ? (<- & Hok & Hlen). apply sim_ret.
      explode_bytes x Hlen Hok. nth_lit. pose proof Hok as Hok'. bytes_inv Hok'. f_equal. bridge.
    - apply sim_ret. poh_cbv. reflexivity. }
  cbv beta. intros esrate h ->. poh_norm.
  (* trick mode *)
  blk_set set_PESOptionalHeader_DSMTrickMode.
  { unfold parse_dsm_opt. apply sim_if.
    - eapply sim_bind; [apply sim_next_byte|]. intros x ? (<- & Hx). apply sim_ret.
      rewrite (parse_dsm_trick_mode_gen x Hx). reflexivity.
    - apply sim_ret. poh_cbv. reflexivity. }
  cbv beta. intros dsm h ->. poh_norm.
  (* additional copy info *)
  blk_set set_PESOptionalHeader_AdditionalCopyInfo.
  { unfold parse_aci. apply sim_if.
    - eapply sim_bind; [apply sim_next_byte|]. intros x ? (<- & Hx). apply sim_ret.
      rewrite (byte_and127 x Hx). reflexivity.
    - apply sim_ret. poh_cbv. reflexivity. }
  cbv beta. intros aci h ->. poh_norm.
  (* CRC *)
  blk_set set_PESOptionalHeader_CRC.
  { unfold parse_crc. apply sim_if.
    - eapply sim_bind; [apply sim_next_bytes_nocopy|]. intros x ? (<- & Hok & Hlen). apply sim_ret.
      explode_bytes x Hlen Hok. nth_lit. pose proof Hok as Hok'. bytes_inv Hok'. f_equal. bridge.
    - apply sim_ret. poh_cbv. reflexivity. }
  cbv beta. intros crc h ->. poh_norm.
  (* extension *)
  lazymatch goal with |- sim _ _ (ibind (if _ then _ else iret ?A) _) =>
    eapply (sim_bind (fun e a' => a' = apply_ext e A)) end.
  { unfold parse_pes_extension. apply sim_if; [|apply sim_ret; poh_cbv; reflexivity].
    eapply sim_bind; [apply sim_next_byte|]. intros fl ? (<- & Hfl). cbv beta zeta. flags fl Hfl.
    (* private data *)
    blk_set set_PESOptionalHeader_PrivateData.
    { unfold parse_private_data. apply sim_if.
      - eapply sim_map_r; [apply sim_next_bytes|]. intros x ? (<- & _ & _). reflexivity.
      - apply sim_ret. poh_cbv. reflexivity. }
    cbv beta. intros pd h ->. poh_norm.
    (* pack header *)
    blk_set set_PESOptionalHeader_PackField.
    { unfold parse_pack_field. apply sim_if.
      - eapply sim_bind; [apply sim_next_byte|]. intros x ? (<- & Hx). cbv beta.
        eapply sim_bind; [apply sim_iskip|]. intros _ _ _. apply sim_ret. reflexivity.
      - apply sim_ret. poh_cbv. reflexivity. }
    cbv beta. intros pack h ->. poh_norm.
    (* program packet sequence counter *)
    blk_set (fun (t : Z * Z * Z) h => set_PESOptionalHeader_OriginalStuffingLength (snd t)
               (set_PESOptionalHeader_MPEG1OrMPEG2ID (snd (fst t)) (set_PESOptionalHeader_PacketSequenceCounter (fst (fst t)) h))).
    { unfold parse_psc. apply sim_if.
      - eapply sim_bind; [apply sim_next_bytes_nocopy|]. intros x ? (<- & Hok & Hlen). apply sim_ret.
        explode_bytes x Hlen Hok. nth_lit. pose proof Hok as Hok'. bytes_inv Hok'. cbn [fst snd]. repeat f_equal; bridge.
      - apply sim_ret. poh_cbv. reflexivity. }
    cbv beta. intros [[psc mpeg] osl] h ->. poh_norm.
    (* P-STD buffer *)
    blk_set (fun (t : Z * Z) h => set_PESOptionalHeader_PSTDBufferSize (snd t) (set_PESOptionalHeader_PSTDBufferScale (fst t) h)).
    { unfold parse_pstd. apply sim_if.
      - eapply sim_bind; [apply sim_next_bytes_nocopy|]. intros x ? (<- & Hok & Hlen). apply sim_ret.
        explode_bytes x Hlen Hok. nth_lit. pose proof Hok as Hok'. bytes_inv Hok'. cbn [fst snd]. repeat f_equal; bridge.
      - apply sim_ret. poh_cbv. reflexivity. }
    cbv beta. intros [scale size] h ->. poh_norm.
    (* extension 2 *)
    blk_set (fun (t : Z * list Z) h => set_PESOptionalHeader_Extension2Data (snd t) (set_PESOptionalHeader_Extension2Length (fst t) h)).
    { unfold parse_ext2. apply sim_if.
      - eapply sim_bind; [apply sim_next_byte|]. intros x ? (<- & Hx). cbv beta zeta. rewrite (byte_and127 x Hx).
        eapply sim_bind; [apply sim_next_bytes|]. intros d ? (<- & _ & _). apply sim_ret. reflexivity.
      - apply sim_ret. poh_cbv. reflexivity. }
    cbv beta. intros [e2len e2data] h ->. poh_norm.
    apply sim_ret. poh_cbv. reflexivity. }
  cbv beta. intros e h ->.
  apply sim_ret. poh_cbv. reflexivity.
Qed.

(* ---------------- PES header ---------------- *)

Ltac pes_norm := cbn beta iota zeta delta [fst snd odflt zero_PESHeader zero_PESData
  set_PESData_Data set_PESData_Header set_PESHeader_OptionalHeader set_PESHeader_PacketLength set_PESHeader_StreamID
  PESHeader_OptionalHeader PESHeader_PacketLength PESHeader_StreamID PESData_Data PESData_Header].
Ltac pes_cbv := cbv beta iota zeta delta [fst snd odflt zero_PESHeader zero_PESData
  set_PESData_Data set_PESData_Header set_PESHeader_OptionalHeader set_PESHeader_PacketLength set_PESHeader_StreamID
  PESHeader_OptionalHeader PESHeader_PacketLength PESHeader_StreamID PESData_Data PESData_Header].

(* Go reads the offset or the length, the model reads both: neither moves the iterator *)
Lemma sim_offset_or_length {B1 B2} (R : B1 -> B2 -> Prop) (c : bool) (p : Z) (K1 : Z -> Z -> IM B1) (K2 : Z -> IM B2) :
  (forall off len, sim R (K1 off len) (K2 (if c then off + p else len))) ->
  sim R (ibind ioffset (fun off => ibind ilength (fun len => K1 off len)))
        (ibind (if c then ibind ioffset (fun o => iret (o + p)) else ibind ilength (fun l => iret l)) K2).
Proof.
  intros H i Hi. unfold ibind, ioffset, ilength, iret. destruct c; apply H; exact Hi.
Qed.

Lemma parse_pes_header_sim : sim eq parse_pes_header parsePESHeader.
Proof.
  unfold parse_pes_header, parsePESHeader. pes_norm.
  eapply sim_bind; [apply sim_next_byte|]. intros sid ? (<- & Hsid). cbv beta.
  eapply sim_bind; [apply sim_next_bytes_nocopy|]. intros x ? (<- & Hok & Hlen). cbv beta zeta.
  explode_bytes x Hlen Hok. nth_lit. pose proof Hok as Hok'. bytes_inv Hok'.
  replace (Z.lor (Z.shiftl b 8 mod 65536) b0) with (bitsf [b; b0] 0 16) by bridge.
  pes_norm.
  apply sim_offset_or_length. intros off len. cbv beta.
  apply sim_if_push_r. apply sim_if.
  - apply sim_assoc_r. eapply sim_bind; [apply parse_pes_optional_header_sim|]. intros [oh ds] ? <-. cbn beta iota.
    apply sim_ret_bind_r. apply sim_ret. pes_cbv. reflexivity.
  - apply sim_assoc_r. eapply sim_bind; [apply sim_ioffset|]. intros ds ? <-. cbv beta.
    apply sim_ret_bind_r. apply sim_ret. pes_cbv. reflexivity.
Qed.

Lemma parse_pes_data_sim : sim eq parse_pes_data parsePESData.
Proof.
  unfold parse_pes_data, parsePESData. pes_norm.
  eapply sim_bind; [apply sim_iseek|]. intros _ _ _.
  eapply sim_bind; [apply parse_pes_header_sim|]. intros [[h ds] de] ? <-. cbn beta iota zeta.
  apply sim_if; [apply sim_err|].
  eapply sim_bind; [apply sim_iseek|]. intros _ _ _.
  eapply sim_bind; [apply sim_next_bytes|]. intros d ? (<- & _ & _).
  apply sim_ret. pes_cbv. reflexivity.
Qed.

(* ---------------- pointwise statements (what Props/C11.v and Props/C12.v quote) ---------------- *)

Definition same_on_bytes {A} (m1 m2 : IM A) : Prop := forall i : iter, bytes_ok (ibs i) -> m1 i = m2 i.

Lemma parse_pcr_gen : same_on_bytes parse_pcr parsePCR.
Proof. exact (sim_point _ _ parse_pcr_sim). Qed.
Lemma parse_pts_or_dts_gen : same_on_bytes parse_pts_or_dts parsePTSOrDTS.
Proof. exact (sim_point _ _ parse_pts_or_dts_sim). Qed.
Lemma parse_escr_gen : same_on_bytes parse_escr parseESCR.
Proof. exact (sim_point _ _ parse_escr_sim). Qed.
Lemma parse_packet_header_gen : same_on_bytes parse_packet_header parsePacketHeader.
Proof. exact (sim_point _ _ parse_packet_header_sim). Qed.
Lemma parse_pes_optional_header_gen : same_on_bytes parse_pes_optional_header parsePESOptionalHeader.
Proof. exact (sim_point _ _ parse_pes_optional_header_sim). Qed.
Lemma parse_pes_header_gen : same_on_bytes parse_pes_header parsePESHeader.
Proof. exact (sim_point _ _ parse_pes_header_sim). Qed.
Lemma parse_pes_data_gen : same_on_bytes parse_pes_data parsePESData.
Proof. exact (sim_point _ _ parse_pes_data_sim). Qed.

(* ---------------- the whole packet ---------------- *)

(* the bytes of the iterator are never changed *)
Definition pres {A} (m : IM A) : Prop := forall i a i', m i = Ok (a, i') -> ibs i' = ibs i.

Lemma pres_bind {A B} (m : IM A) (f : A -> IM B) : pres m -> (forall a, pres (f a)) -> pres (ibind m f).
Proof.
  intros Hm Hf i b i'. unfold ibind. destruct (m i) as [[a i1]|c|] eqn:E; try discriminate.
  intros H. rewrite (Hf a i1 b i' H). apply (Hm i a i1 E).
Qed.
Lemma pres_ret {A} (a : A) : pres (iret a).
Proof. intros i b i' H. inversion H. reflexivity. Qed.
Lemma pres_err {A} c : pres (@ierr A c).
Proof. intros i b i' H. discriminate. Qed.
Lemma pres_if {A} (c : bool) (m n : IM A) : pres m -> pres n -> pres (if c then m else n).
Proof. destruct c; auto. Qed.
Lemma pres_next_byte : pres next_byte.
Proof. intros i b i' H. apply next_byte_ok in H. tauto. Qed.
Lemma pres_next_bytes n : pres (next_bytes n).
Proof. intros i b i' H. apply next_bytes_ok in H. tauto. Qed.
Lemma pres_next_bytes_nocopy n : pres (next_bytes_nocopy n).
Proof. exact (pres_next_bytes n). Qed.
Lemma pres_iskip n : pres (iskip n).
Proof. intros i b i' H. inversion H. reflexivity. Qed.
Lemma pres_iseek n : pres (iseek n).
Proof. intros i b i' H. inversion H. reflexivity. Qed.
Lemma pres_ioffset : pres ioffset.
Proof. intros i b i' H. inversion H. reflexivity. Qed.
Lemma pres_ilength : pres ilength.
Proof. intros i b i' H. inversion H. reflexivity. Qed.

Ltac pres_auto :=
  repeat match goal with
  | |- pres (ibind _ _) => apply pres_bind; [|intros]
  | |- pres (iret _) => apply pres_ret
  | |- pres (ierr _) => apply pres_err
  | |- pres (if _ then _ else _) => apply pres_if
  | |- pres (when _ _ _) => unfold when
  | |- pres (let '(_, _) := ?p in _) => destruct p
  | |- pres next_byte => apply pres_next_byte
  | |- pres (next_bytes _) => apply pres_next_bytes
  | |- pres (next_bytes_nocopy _) => apply pres_next_bytes_nocopy
  | |- pres (iskip _) => apply pres_iskip
  | |- pres (iseek _) => apply pres_iseek
  | |- pres ioffset => apply pres_ioffset
  | |- pres ilength => apply pres_ilength
  | |- pres parse_pcr => unfold parse_pcr
  | |- pres parse_pts_or_dts => unfold parse_pts_or_dts
  | |- pres parse_af_extension => unfold parse_af_extension
  end.

Lemma pres_parse_packet_adaptation_field : pres parse_packet_adaptation_field.
Proof. unfold parse_packet_adaptation_field. pres_auto. Qed.

Lemma sim_of_point {A} (m1 m2 : IM A) : (forall i, okI i -> m1 i = m2 i) -> pres m1 -> sim eq m1 m2.
Proof.
  intros H Hp i Hi. rewrite <- (H i Hi). destruct (m1 i) as [[a i']|c|] eqn:E; auto.
  repeat split. apply (Hp i a i' E).
Qed.

Lemma parse_packet_adaptation_field_sim : sim eq parse_packet_adaptation_field parsePacketAdaptationField.
Proof. apply sim_of_point; [exact parse_packet_adaptation_field_gen|exact pres_parse_packet_adaptation_field]. Qed.

Lemma sim_if_push_l {A2 B C} (R : C -> A2 -> Prop) m2 (c : bool) (m n : IM B) (g : B -> IM C) :
  sim R (if c then ibind m g else ibind n g) m2 -> sim R (ibind (if c then m else n) g) m2.
Proof. destruct c; auto. Qed.

Lemma sim_err_bind_l {A2 B C} (R : C -> A2 -> Prop) c (g : B -> IM C) : sim R (ibind (ierr c) g) (ierr c).
Proof. intros i Hi. reflexivity. Qed.

Lemma sim_ret_bind_l {A2 B C} (R : C -> A2 -> Prop) m2 (a : B) (g : B -> IM C) :
  sim R (g a) m2 -> sim R (ibind (iret a) g) m2.
Proof. intros H i Hi. exact (H i Hi). Qed.

Ltac pk_norm := cbn beta iota zeta delta [fst snd odflt zero_Packet
  set_Packet_AdaptationField set_Packet_Header set_Packet_Payload Packet_AdaptationField Packet_Header Packet_Payload].
Ltac pk_cbv := cbv beta iota zeta delta [fst snd zero_Packet
  set_Packet_AdaptationField set_Packet_Header set_Packet_Payload Packet_AdaptationField Packet_Header Packet_Payload].

Lemma parse_packet_sim (sk : option (Packet -> bool)) :
  sim eq (parse_packet (match sk with Some f => f | None => no_skip end)) (parsePacket sk).
Proof.
  unfold parse_packet, parse_packet_head, parse_packet_tail, parsePacket. pk_norm.
  apply sim_assoc_l. eapply sim_bind; [apply sim_next_byte|]. intros b ? (<- & Hb). cbv beta.
  apply sim_if_push_l. change C_syncByte with syncByte. apply sim_if; [apply sim_err_bind_l|].
  apply sim_assoc_l. eapply sim_bind; [apply sim_ilength|]. intros len ? <-. cbv beta.
  apply sim_assoc_l. eapply sim_bind; [apply sim_iseek|]. intros _ _ _.
  apply sim_assoc_l. eapply sim_bind; [apply sim_ioffset|]. intros os ? <-. cbv beta.
  apply sim_assoc_l. eapply sim_bind; [apply parse_packet_header_sim|]. intros h ? <-. cbv beta. pk_norm.
  apply sim_assoc_l.
  eapply (sim_bind (fun af p => p = set_Packet_AdaptationField af
            {| Packet_AdaptationField := None; Packet_Header := h; Packet_Payload := [] |})).
  { apply sim_if.
    - eapply sim_bind; [apply parse_packet_adaptation_field_sim|]. intros a ? <-. apply sim_ret. reflexivity.
    - apply sim_ret. reflexivity. }
  cbv beta. intros af p ->. apply sim_ret_bind_l. pk_cbv.
  assert (Hsk : (match sk with Some f_ => f_ {| Packet_AdaptationField := af; Packet_Header := h; Packet_Payload := [] |} | None => false end)
              = (match sk with Some f => f | None => no_skip end) {| Packet_AdaptationField := af; Packet_Header := h; Packet_Payload := [] |})
    by (destruct sk; reflexivity).
  rewrite Hsk. apply sim_if; [apply sim_err|].
  apply sim_bind_ret_r. apply sim_if.
  - eapply sim_bind; [apply sim_iseek|]. intros _ _ _.
    eapply sim_bind; [apply sim_idump|]. intros pl ? (<- & _). apply sim_ret. reflexivity.
  - apply sim_ret. reflexivity.
Qed.

Lemma parse_packet_gen (skip : Packet -> bool) : same_on_bytes (parse_packet skip) (parsePacket (Some skip)).
Proof. exact (sim_point _ _ (parse_packet_sim (Some skip))). Qed.

Lemma parse_packet_no_skip_gen : same_on_bytes (parse_packet no_skip) (parsePacket None).
Proof. exact (sim_point _ _ (parse_packet_sim None)). Qed.
