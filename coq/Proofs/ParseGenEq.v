(* The hand-written parsers of Model/Clock.v, Model/Packet.v and Model/Pes.v are equal, as computations in the
   iterator monad, to the definitions that go/gen (itermonad.go) translates from the CURRENT source of packet.go and
   data_pes.go into Gen/ParseGen.v -- on every iterator whose bytes are in 0..255 (which is what a Go []byte holds).
   A change to one of the Go parsers changes Gen/ParseGen.v and the corresponding lemma here stops checking. *)
From Coq Require Import ZArith List Lia Bool ZifyBool.
Require Import Base.Bits Base.Iter Gen.Consts Gen.Types Gen.Preds Gen.ParseGen.
Require Import Model.Clock Model.Packet Model.Pes Proofs.ParseGenBits Proofs.ParseGenSim.
Import ListNotations.
Open Scope Z_scope.

(* ---------------- clock references ---------------- *)

(* a parser that reads n bytes and returns a pure function of them *)
Lemma sim_bytes_fun {A} n (f g : list Z -> A) :
  (forall bs, bytes_ok bs -> length bs = Z.to_nat n -> f bs = g bs) ->
  sim eq (ibind (next_bytes_nocopy n) (fun bs => iret (f bs))) (ibind (next_bytes_nocopy n) (fun bs => iret (g bs))).
Proof.
  intros H. eapply sim_bind; [apply sim_next_bytes_nocopy|].
  intros a1 a2 (<- & Hok & Hlen). apply sim_ret. apply H; assumption.
Qed.

Lemma parse_pcr_sim : sim eq parse_pcr parsePCR.
Proof.
  unfold parse_pcr, parsePCR. cbv zeta. apply sim_bytes_fun. intros bs Hok Hlen.
  explode_bytes bs Hlen Hok. nth_lit. pose proof Hok as Hok'. bytes_inv Hok'.
  unfold mk_cr, newClockReference. f_equal; bridge.
Qed.

Lemma parse_pts_or_dts_sim : sim eq parse_pts_or_dts parsePTSOrDTS.
Proof.
  unfold parse_pts_or_dts, parsePTSOrDTS. cbv zeta. apply sim_bytes_fun. intros bs Hok Hlen.
  explode_bytes bs Hlen Hok. nth_lit. pose proof Hok as Hok'. bytes_inv Hok'.
  unfold mk_cr, newClockReference. f_equal. bridge.
Qed.

Lemma parse_escr_sim : sim eq parse_escr parseESCR.
Proof.
  unfold parse_escr, parseESCR. cbv zeta. apply sim_bytes_fun. intros bs Hok Hlen.
  explode_bytes bs Hlen Hok. nth_lit. pose proof Hok as Hok'. bytes_inv Hok'.
  unfold mk_cr, newClockReference. f_equal; bridge.
Qed.

(* ---------------- DSM trick mode (a pure function of one byte: complete sweep) ---------------- *)

Definition dsm_eqb (x y : DSMTrickMode) : bool :=
  (DSMTrickMode_FieldID x =? DSMTrickMode_FieldID y) && (DSMTrickMode_FrequencyTruncation x =? DSMTrickMode_FrequencyTruncation y)
  && (DSMTrickMode_IntraSliceRefresh x =? DSMTrickMode_IntraSliceRefresh y) && (DSMTrickMode_RepeatControl x =? DSMTrickMode_RepeatControl y)
  && (DSMTrickMode_TrickModeControl x =? DSMTrickMode_TrickModeControl y).

Lemma dsm_eqb_eq x y : dsm_eqb x y = true -> x = y.
Proof.
  destruct x, y. unfold dsm_eqb. cbn. intros H.
  repeat (apply andb_true_iff in H; destruct H as [H ?]).
  repeat match goal with E : (_ =? _) = true |- _ => apply Z.eqb_eq in E end. subst. reflexivity.
Qed.

Lemma parse_dsm_trick_mode_gen : forall b, byte_ok b -> parse_dsm_trick_mode b = parseDSMTrickMode b.
Proof.
  intros b Hb. apply dsm_eqb_eq. revert b Hb.
  apply (byte_sweep (fun b => dsm_eqb (parse_dsm_trick_mode b) (parseDSMTrickMode b))).
  vm_compute. reflexivity.
Qed.

(* ---------------- packet header ---------------- *)

Lemma parse_packet_header_sim : sim eq parse_packet_header parsePacketHeader.
Proof.
  unfold parse_packet_header, parsePacketHeader. cbv zeta. apply sim_bytes_fun. intros bs Hok Hlen.
  explode_bytes bs Hlen Hok. nth_lit. pose proof Hok as Hok'. bytes_inv Hok'.
  f_equal; bridge.
Qed.

(* ---------------- adaptation field ---------------- *)

(* a.AdaptationExtensionField.f = v, as the generated code writes it *)
Definition upd_aef (f : PacketAdaptationExtensionField -> PacketAdaptationExtensionField) (a : PacketAdaptationField) : PacketAdaptationField :=
  set_PacketAdaptationField_AdaptationExtensionField (Some (f (odflt zero_PacketAdaptationExtensionField (PacketAdaptationField_AdaptationExtensionField a)))) a.

Ltac paf_norm := cbn beta iota zeta delta [upd_aef fst snd
  set_PacketAdaptationExtensionField_DTSNextAccessUnit set_PacketAdaptationExtensionField_HasLegalTimeWindow set_PacketAdaptationExtensionField_HasPiecewiseRate set_PacketAdaptationExtensionField_HasSeamlessSplice set_PacketAdaptationExtensionField_LegalTimeWindowIsValid set_PacketAdaptationExtensionField_LegalTimeWindowOffset set_PacketAdaptationExtensionField_Length set_PacketAdaptationExtensionField_PiecewiseRate set_PacketAdaptationExtensionField_SpliceType set_PacketAdaptationField_AdaptationExtensionField set_PacketAdaptationField_DiscontinuityIndicator set_PacketAdaptationField_ElementaryStreamPriorityIndicator set_PacketAdaptationField_HasAdaptationExtensionField set_PacketAdaptationField_HasOPCR set_PacketAdaptationField_HasPCR set_PacketAdaptationField_HasSplicingCountdown set_PacketAdaptationField_HasTransportPrivateData set_PacketAdaptationField_IsOneByteStuffing set_PacketAdaptationField_Length set_PacketAdaptationField_OPCR set_PacketAdaptationField_PCR set_PacketAdaptationField_RandomAccessIndicator set_PacketAdaptationField_SpliceCountdown set_PacketAdaptationField_StuffingLength set_PacketAdaptationField_TransportPrivateData set_PacketAdaptationField_TransportPrivateDataLength
  PacketAdaptationField_AdaptationExtensionField PacketAdaptationField_OPCR PacketAdaptationField_PCR PacketAdaptationField_TransportPrivateData PacketAdaptationField_TransportPrivateDataLength PacketAdaptationField_Length PacketAdaptationField_StuffingLength PacketAdaptationField_SpliceCountdown PacketAdaptationField_IsOneByteStuffing PacketAdaptationField_RandomAccessIndicator PacketAdaptationField_DiscontinuityIndicator PacketAdaptationField_ElementaryStreamPriorityIndicator PacketAdaptationField_HasAdaptationExtensionField PacketAdaptationField_HasOPCR PacketAdaptationField_HasPCR PacketAdaptationField_HasTransportPrivateData PacketAdaptationField_HasSplicingCountdown
  PacketAdaptationExtensionField_DTSNextAccessUnit PacketAdaptationExtensionField_HasLegalTimeWindow PacketAdaptationExtensionField_HasPiecewiseRate PacketAdaptationExtensionField_HasSeamlessSplice PacketAdaptationExtensionField_LegalTimeWindowIsValid PacketAdaptationExtensionField_LegalTimeWindowOffset PacketAdaptationExtensionField_Length PacketAdaptationExtensionField_PiecewiseRate PacketAdaptationExtensionField_SpliceType
  odflt zero_PacketAdaptationField zero_PacketAdaptationExtensionField].
Ltac paf_cbv := cbv beta iota zeta delta [upd_aef fst snd
  set_PacketAdaptationExtensionField_DTSNextAccessUnit set_PacketAdaptationExtensionField_HasLegalTimeWindow set_PacketAdaptationExtensionField_HasPiecewiseRate set_PacketAdaptationExtensionField_HasSeamlessSplice set_PacketAdaptationExtensionField_LegalTimeWindowIsValid set_PacketAdaptationExtensionField_LegalTimeWindowOffset set_PacketAdaptationExtensionField_Length set_PacketAdaptationExtensionField_PiecewiseRate set_PacketAdaptationExtensionField_SpliceType set_PacketAdaptationField_AdaptationExtensionField set_PacketAdaptationField_DiscontinuityIndicator set_PacketAdaptationField_ElementaryStreamPriorityIndicator set_PacketAdaptationField_HasAdaptationExtensionField set_PacketAdaptationField_HasOPCR set_PacketAdaptationField_HasPCR set_PacketAdaptationField_HasSplicingCountdown set_PacketAdaptationField_HasTransportPrivateData set_PacketAdaptationField_IsOneByteStuffing set_PacketAdaptationField_Length set_PacketAdaptationField_OPCR set_PacketAdaptationField_PCR set_PacketAdaptationField_RandomAccessIndicator set_PacketAdaptationField_SpliceCountdown set_PacketAdaptationField_StuffingLength set_PacketAdaptationField_TransportPrivateData set_PacketAdaptationField_TransportPrivateDataLength
  PacketAdaptationField_AdaptationExtensionField PacketAdaptationField_OPCR PacketAdaptationField_PCR PacketAdaptationField_TransportPrivateData PacketAdaptationField_TransportPrivateDataLength PacketAdaptationField_Length PacketAdaptationField_StuffingLength PacketAdaptationField_SpliceCountdown PacketAdaptationField_IsOneByteStuffing PacketAdaptationField_RandomAccessIndicator PacketAdaptationField_DiscontinuityIndicator PacketAdaptationField_ElementaryStreamPriorityIndicator PacketAdaptationField_HasAdaptationExtensionField PacketAdaptationField_HasOPCR PacketAdaptationField_HasPCR PacketAdaptationField_HasTransportPrivateData PacketAdaptationField_HasSplicingCountdown
  PacketAdaptationExtensionField_DTSNextAccessUnit PacketAdaptationExtensionField_HasLegalTimeWindow PacketAdaptationExtensionField_HasPiecewiseRate PacketAdaptationExtensionField_HasSeamlessSplice PacketAdaptationExtensionField_LegalTimeWindowIsValid PacketAdaptationExtensionField_LegalTimeWindowOffset PacketAdaptationExtensionField_Length PacketAdaptationExtensionField_PiecewiseRate PacketAdaptationExtensionField_SpliceType
  odflt zero_PacketAdaptationField zero_PacketAdaptationExtensionField].



Lemma parse_packet_adaptation_field_gen : forall i, okI i -> parse_packet_adaptation_field i = parsePacketAdaptationField i.
Proof.
  intros i Hi. unfold parse_packet_adaptation_field, parsePacketAdaptationField.
  paf_norm.
  apply bind_step. intros len i1 E1.
  apply next_byte_ok in E1. destruct E1 as (Hoff & Hbs1 & Hoff1 & Hlen).
  assert (Hi1 : okI i1) by (unfold okI; rewrite Hbs1; exact Hi).
  assert (Hl : byte_ok len) by (subst len; apply nth_byte_ok, Hi).
  clear Hlen Hoff Hoff1 Hbs1.
  apply bind_step. intros s i2 E2.
  assert (Hs : s = ioff i1 /\ i2 = i1) by (unfold ioffset in E2; inversion E2; auto). clear E2. destruct Hs as [Hs ->].
  destruct (len >? 0) eqn:El.
  2:{ unfold ibind, iret, ioffset. f_equal. f_equal. paf_norm.
      assert (len = 0) by (unfold byte_ok in Hl; lia). subst len s. rewrite Z.sub_diag. reflexivity. }
  clear Hs. apply sim_point; [|exact Hi1]. clear i Hi i1 Hi1.
  apply sim_assoc_r.
  eapply sim_bind; [apply sim_next_byte|]. intros fl ? (<- & Hfl). cbv beta.
  flags fl Hfl.
  (* PCR *)
  apply sim_assoc_r. eapply sim_bind.
  { apply sim_if; [eapply sim_bind; [apply parse_pcr_sim|]; intros c ? <-; apply sim_ret; inst_R | apply sim_ret; reflexivity]. }
  cbv beta. intros pcr a ->. paf_norm.
  (* OPCR *)
  apply sim_assoc_r. eapply sim_bind.
  { apply sim_if; [eapply sim_bind; [apply parse_pcr_sim|]; intros c ? <-; apply sim_ret; inst_R | apply sim_ret; reflexivity]. }
  cbv beta. intros opcr a ->. paf_norm.
  (* splice countdown *)
  apply sim_assoc_r. eapply sim_bind.
  { unfold when. apply sim_if; [eapply sim_map_r; [apply sim_next_byte|]; intros x ? (<- & Hx); inst_R | apply sim_ret; reflexivity]. }
  cbv beta. intros sc a ->. paf_norm.
  (* transport private data *)
  apply sim_assoc_r.
  lazymatch goal with |- sim _ _ (ibind (if _ then _ else iret ?A) _) =>
    eapply (sim_bind (fun (p : Z * list Z) a' =>
      a' = set_PacketAdaptationField_TransportPrivateData (snd p) (set_PacketAdaptationField_TransportPrivateDataLength (fst p) A))) end.
  { apply sim_if; [|apply sim_ret; reflexivity].
    eapply sim_bind; [apply sim_next_byte|]. intros l ? (<- & Hlb). cbv beta.
    eapply sim_bind.
    { unfold when. apply sim_if; [eapply sim_map_r; [apply sim_next_bytes|]; intros x ? (<- & _ & _); inst_R | apply sim_ret; reflexivity]. }
    cbv beta. intros d a ->. apply sim_ret. reflexivity. }
  cbv beta. intros [tpdl tpd] a ->. cbn [fst snd]. paf_norm.
  (* extension *)
  apply sim_assoc_r.
  lazymatch goal with |- sim _ _ (ibind (if _ then _ else iret ?A) _) =>
    set (A0 := A);
    eapply (sim_bind (fun o a' => a' = set_PacketAdaptationField_AdaptationExtensionField o A0)) end.
  { apply sim_if; [|apply sim_ret; subst A0; paf_cbv; reflexivity]. clearbody A0.
    unfold parse_af_extension. apply sim_assoc_l.
    eapply sim_bind; [apply sim_next_byte|]. intros elen ? (<- & Helen). cbv beta zeta.
    eapply (sim_bind (fun e a' => a' = set_PacketAdaptationField_AdaptationExtensionField (Some e) A0)).
    2:{ intros e a' ->. apply sim_ret. reflexivity. }
    apply sim_if; [|apply sim_ret; paf_cbv; reflexivity].
    eapply sim_bind; [apply sim_next_byte|]. intros efl ? (<- & Hefl). cbv beta zeta. flags efl Hefl.
    (* legal time window *)
    lazymatch goal with |- sim _ _ (ibind (if ?c then _ else iret ?A) _) =>
      eapply (sim_bind (fun ltw a' => a' = upd_aef (fun e =>
         set_PacketAdaptationExtensionField_LegalTimeWindowOffset (if c then bitsf ltw 1 15 else 0)
           (set_PacketAdaptationExtensionField_LegalTimeWindowIsValid (if c then bitb ltw 0 else false) e)) A)) end.
    { unfold when. apply sim_if_eqn; intros Hc.
      - eapply sim_map_r; [apply sim_next_bytes_nocopy|]. intros x ? (<- & Hok & Hlen). rewrite Hc.
        explode_bytes x Hlen Hok. nth_lit. pose proof Hok as Hok'. bytes_inv Hok'.
        paf_cbv. repeat f_equal; bridge.
      - apply sim_ret. rewrite Hc. paf_cbv. reflexivity. }
    cbv beta. intros ltw a ->. paf_norm.
    (* piecewise rate *)
    lazymatch goal with |- sim _ _ (ibind (if ?c then _ else iret ?A) _) =>
      eapply (sim_bind (fun pr a' => a' = upd_aef (fun e =>
         set_PacketAdaptationExtensionField_PiecewiseRate (if c then bitsf pr 2 22 else 0) e) A)) end.
    { unfold when. apply sim_if_eqn; intros Hc.
      - eapply sim_map_r; [apply sim_next_bytes_nocopy|]. intros x ? (<- & Hok & Hlen). rewrite Hc.
        explode_bytes x Hlen Hok. nth_lit. pose proof Hok as Hok'. bytes_inv Hok'.
        paf_cbv. repeat f_equal; bridge.
      - apply sim_ret. rewrite Hc. paf_cbv. reflexivity. }
    cbv beta. intros pr a ->. paf_norm.
    (* seamless splice *)
    lazymatch goal with |- sim _ _ (ibind (if ?c then _ else iret ?A) _) =>
      eapply (sim_bind (fun (p : Z * option ClockReference) a' => a' = upd_aef (fun e =>
         set_PacketAdaptationExtensionField_DTSNextAccessUnit (snd p)
           (set_PacketAdaptationExtensionField_SpliceType (fst p) e)) A)) end.
    { apply sim_if.
      - eapply sim_bind; [apply sim_next_byte|]. intros b2 ? (<- & Hb2). cbv beta.
        eapply sim_bind; [apply sim_iskip|]. intros _ _ _.
        eapply sim_bind; [apply parse_pts_or_dts_sim|]. intros d ? <-.
        apply sim_ret. paf_cbv. repeat f_equal; bridge.
      - apply sim_ret. paf_cbv. reflexivity. }
    cbv beta. intros [st dts] a ->. paf_norm.
    apply sim_ret. paf_cbv. reflexivity. }
  cbv beta. intros ext a ->. subst A0. paf_norm.
  (* stuffing length *)
  apply sim_ret_bind_r.
  eapply sim_bind; [apply sim_ioffset|]. intros off ? <-.
  apply sim_ret. paf_cbv. replace (len =? 0) with false by lia. reflexivity.
Qed.
