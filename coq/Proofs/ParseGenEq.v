(* packet.go (and the two clock parsers it shares with data_pes.go): the hand-written parsers of Model/Clock.v and
   Model/Packet.v are equal, as computations in the iterator monad, to the definitions that go/gen (itermonad.go)
   translates from the CURRENT source into Gen/ParseGen.v -- on every iterator whose bytes are in 0..255 (which is what
   a Go []byte holds).  A change to one of the Go parsers changes Gen/ParseGen.v and the corresponding lemma here stops
   checking.  The PES side is Proofs/ParseGenPes.v. *)
From Coq Require Import ZArith List Lia Bool ZifyBool.
Require Import Base.Bits Base.Iter Gen.Consts Gen.Types Gen.Preds Gen.ParseGen.
Require Import Model.Clock Model.Packet Proofs.ParseGenBits Proofs.ParseGenSim.
Import ListNotations.
Open Scope Z_scope.

Definition same_on_bytes {A} (m1 m2 : IM A) : Prop := forall i : iter, bytes_ok (ibs i) -> m1 i = m2 i.

(* ---------------- clock references ---------------- *)

(* a parser that reads n bytes and returns a pure function of them *)
Lemma sim_bytes_fun {A} n (f g : list Z -> A) :
  (forall bs, bytes_ok bs -> length bs = Z.to_nat n -> f bs = g bs) ->
  sim eq (ibind (next_bytes_nocopy n) (fun bs => iret (f bs))) (ibind (next_bytes_nocopy n) (fun bs => iret (g bs))).
Proof.
  intros H. eapply sim_bind; [apply sim_next_bytes_nocopy|].
  intros a1 a2 (<- & Hok & Hlen). apply sim_ret. apply H; assumption.
Qed.

Lemma parse_pcr_sim : sim eq parse_pcr parsePCR.
Proof.
  unfold parse_pcr, parsePCR. cbv zeta. apply sim_bytes_fun. intros bs Hok Hlen.
  explode_bytes bs Hlen Hok. nth_lit. pose proof Hok as Hok'. bytes_inv Hok'.
  unfold mk_cr, newClockReference, sint. change (64 - 1) with 63. f_equal; bridge.
Qed.

Lemma parse_pts_or_dts_sim : sim eq parse_pts_or_dts parsePTSOrDTS.
Proof.
  unfold parse_pts_or_dts, parsePTSOrDTS. cbv zeta. apply sim_bytes_fun. intros bs Hok Hlen.
  explode_bytes bs Hlen Hok. nth_lit. pose proof Hok as Hok'. bytes_inv Hok'.
  unfold mk_cr, newClockReference, sint. change (64 - 1) with 63. f_equal. bridge.
Qed.

(* ---------------- packet header ---------------- *)

Lemma parse_packet_header_sim : sim eq parse_packet_header parsePacketHeader.
Proof.
  unfold parse_packet_header, parsePacketHeader. cbv zeta. apply sim_bytes_fun. intros bs Hok Hlen.
  explode_bytes bs Hlen Hok. nth_lit. pose proof Hok as Hok'. bytes_inv Hok'.
  f_equal; bridge.
Qed.

(* ---------------- adaptation field ---------------- *)

(* a.AdaptationExtensionField.f = v, as the generated code writes it *)
Definition upd_aef (f : PacketAdaptationExtensionField -> PacketAdaptationExtensionField) (a : PacketAdaptationField) : PacketAdaptationField :=
  set_PacketAdaptationField_AdaptationExtensionField (Some (f (odflt zero_PacketAdaptationExtensionField (PacketAdaptationField_AdaptationExtensionField a)))) a.

Ltac paf_norm := cbn beta iota zeta delta [upd_aef fst snd
  set_PacketAdaptationExtensionField_DTSNextAccessUnit set_PacketAdaptationExtensionField_HasLegalTimeWindow set_PacketAdaptationExtensionField_HasPiecewiseRate set_PacketAdaptationExtensionField_HasSeamlessSplice set_PacketAdaptationExtensionField_LegalTimeWindowIsValid set_PacketAdaptationExtensionField_LegalTimeWindowOffset set_PacketAdaptationExtensionField_Length set_PacketAdaptationExtensionField_PiecewiseRate set_PacketAdaptationExtensionField_SpliceType set_PacketAdaptationField_AdaptationExtensionField set_PacketAdaptationField_DiscontinuityIndicator set_PacketAdaptationField_ElementaryStreamPriorityIndicator set_PacketAdaptationField_HasAdaptationExtensionField set_PacketAdaptationField_HasOPCR set_PacketAdaptationField_HasPCR set_PacketAdaptationField_HasSplicingCountdown set_PacketAdaptationField_HasTransportPrivateData set_PacketAdaptationField_IsOneByteStuffing set_PacketAdaptationField_Length set_PacketAdaptationField_OPCR set_PacketAdaptationField_PCR set_PacketAdaptationField_RandomAccessIndicator set_PacketAdaptationField_SpliceCountdown set_PacketAdaptationField_StuffingLength set_PacketAdaptationField_TransportPrivateData set_PacketAdaptationField_TransportPrivateDataLength
  PacketAdaptationField_AdaptationExtensionField PacketAdaptationField_OPCR PacketAdaptationField_PCR PacketAdaptationField_TransportPrivateData PacketAdaptationField_TransportPrivateDataLength PacketAdaptationField_Length PacketAdaptationField_StuffingLength PacketAdaptationField_SpliceCountdown PacketAdaptationField_IsOneByteStuffing PacketAdaptationField_RandomAccessIndicator PacketAdaptationField_DiscontinuityIndicator PacketAdaptationField_ElementaryStreamPriorityIndicator PacketAdaptationField_HasAdaptationExtensionField PacketAdaptationField_HasOPCR PacketAdaptationField_HasPCR PacketAdaptationField_HasTransportPrivateData PacketAdaptationField_HasSplicingCountdown
  PacketAdaptationExtensionField_DTSNextAccessUnit PacketAdaptationExtensionField_HasLegalTimeWindow PacketAdaptationExtensionField_HasPiecewiseRate PacketAdaptationExtensionField_HasSeamlessSplice PacketAdaptationExtensionField_LegalTimeWindowIsValid PacketAdaptationExtensionField_LegalTimeWindowOffset PacketAdaptationExtensionField_Length PacketAdaptationExtensionField_PiecewiseRate PacketAdaptationExtensionField_SpliceType
  odflt zero_PacketAdaptationField zero_PacketAdaptationExtensionField].
Ltac paf_cbv := cbv beta iota zeta delta [upd_aef fst snd
  set_PacketAdaptationExtensionField_DTSNextAccessUnit set_PacketAdaptationExtensionField_HasLegalTimeWindow set_PacketAdaptationExtensionField_HasPiecewiseRate set_PacketAdaptationExtensionField_HasSeamlessSplice set_PacketAdaptationExtensionField_LegalTimeWindowIsValid set_PacketAdaptationExtensionField_LegalTimeWindowOffset set_PacketAdaptationExtensionField_Length set_PacketAdaptationExtensionField_PiecewiseRate set_PacketAdaptationExtensionField_SpliceType set_PacketAdaptationField_AdaptationExtensionField set_PacketAdaptationField_DiscontinuityIndicator set_PacketAdaptationField_ElementaryStreamPriorityIndicator set_PacketAdaptationField_HasAdaptationExtensionField set_PacketAdaptationField_HasOPCR set_PacketAdaptationField_HasPCR set_PacketAdaptationField_HasSplicingCountdown set_PacketAdaptationField_HasTransportPrivateData set_PacketAdaptationField_IsOneByteStuffing set_PacketAdaptationField_Length set_PacketAdaptationField_OPCR set_PacketAdaptationField_PCR set_PacketAdaptationField_RandomAccessIndicator set_PacketAdaptationField_SpliceCountdown set_PacketAdaptationField_StuffingLength set_PacketAdaptationField_TransportPrivateData set_PacketAdaptationField_TransportPrivateDataLength
  PacketAdaptationField_AdaptationExtensionField PacketAdaptationField_OPCR PacketAdaptationField_PCR PacketAdaptationField_TransportPrivateData PacketAdaptationField_TransportPrivateDataLength PacketAdaptationField_Length PacketAdaptationField_StuffingLength PacketAdaptationField_SpliceCountdown PacketAdaptationField_IsOneByteStuffing PacketAdaptationField_RandomAccessIndicator PacketAdaptationField_DiscontinuityIndicator PacketAdaptationField_ElementaryStreamPriorityIndicator PacketAdaptationField_HasAdaptationExtensionField PacketAdaptationField_HasOPCR PacketAdaptationField_HasPCR PacketAdaptationField_HasTransportPrivateData PacketAdaptationField_HasSplicingCountdown
  PacketAdaptationExtensionField_DTSNextAccessUnit PacketAdaptationExtensionField_HasLegalTimeWindow PacketAdaptationExtensionField_HasPiecewiseRate PacketAdaptationExtensionField_HasSeamlessSplice PacketAdaptationExtensionField_LegalTimeWindowIsValid PacketAdaptationExtensionField_LegalTimeWindowOffset PacketAdaptationExtensionField_Length PacketAdaptationExtensionField_PiecewiseRate PacketAdaptationExtensionField_SpliceType
  odflt zero_PacketAdaptationField zero_PacketAdaptationExtensionField].



Lemma parse_packet_adaptation_field_gen : forall i, okI i -> parse_packet_adaptation_field i = parsePacketAdaptationField i.
Proof.
  intros i Hi. unfold parse_packet_adaptation_field, parsePacketAdaptationField.
  paf_norm.
  apply bind_step. intros len i1 E1.
  apply next_byte_ok in E1. destruct E1 as (Hoff & Hbs1 & Hoff1 & Hlen).
  assert (Hi1 : okI i1) by (unfold okI; rewrite Hbs1; exact Hi).
  assert (Hl : byte_ok len) by (subst len; apply nth_byte_ok, Hi).
  clear Hlen Hoff Hoff1 Hbs1.
  apply bind_step. intros s i2 E2.
  assert (Hs : s = ioff i1 /\ i2 = i1) by (unfold ioffset in E2; inversion E2; auto). clear E2. destruct Hs as [Hs ->].
  destruct (len >? 0) eqn:El.
  2:{ unfold ibind, iret, ioffset. f_equal. f_equal. paf_norm.
      assert (len = 0) by (unfold byte_ok in Hl; lia). subst len s. rewrite Z.sub_diag. reflexivity. }
  clear Hs. apply sim_point; [|exact Hi1]. clear i Hi i1 Hi1.
  apply sim_assoc_r.
  eapply sim_bind; [apply sim_next_byte|]. intros fl ? (<- & Hfl). cbv beta.
  flags fl Hfl.
  (* PCR *)
  apply sim_assoc_r. eapply sim_bind.
  { apply sim_if; [eapply sim_bind; [apply parse_pcr_sim|]; intros c ? <-; apply sim_ret; inst_R | apply sim_ret; reflexivity]. }
  cbv beta. intros pcr a ->. paf_norm.
  (* OPCR *)
  apply sim_assoc_r. eapply sim_bind.
  { apply sim_if; [eapply sim_bind; [apply parse_pcr_sim|]; intros c ? <-; apply sim_ret; inst_R | apply sim_ret; reflexivity]. }
  cbv beta. intros opcr a ->. paf_norm.
  (* splice countdown *)
  apply sim_assoc_r. eapply sim_bind.
  { unfold when. apply sim_if; [eapply sim_map_r; [apply sim_next_byte|]; intros x ? (<- & Hx); inst_R | apply sim_ret; reflexivity]. }
  cbv beta. intros sc a ->. paf_norm.
  (* transport private data *)
  apply sim_assoc_r.
  lazymatch goal with |- sim _ _ (ibind (if _ then _ else iret ?A) _) =>
    eapply (sim_bind (fun (p : Z * list Z) a' =>
      a' = set_PacketAdaptationField_TransportPrivateData (snd p) (set_PacketAdaptationField_TransportPrivateDataLength (fst p) A))) end.
  { apply sim_if; [|apply sim_ret; reflexivity].
    eapply sim_bind; [apply sim_next_byte|]. intros l ? (<- & Hlb). cbv beta.
    eapply sim_bind.
    { unfold when. apply sim_if; [eapply sim_map_r; [apply sim_next_bytes|]; intros x ? (<- & _ & _); inst_R | apply sim_ret; reflexivity]. }
    cbv beta. intros d a ->. apply sim_ret. reflexivity. }
  cbv beta. intros [tpdl tpd] a ->. cbn [fst snd]. paf_norm.
  (* extension *)
  apply sim_assoc_r.
  lazymatch goal with |- sim _ _ (ibind (if _ then _ else iret ?A) _) =>
    set (A0 := A);
    eapply (sim_bind (fun o a' => a' = set_PacketAdaptationField_AdaptationExtensionField o A0)) end.
  { apply sim_if; [|apply sim_ret; subst A0; paf_cbv; reflexivity]. clearbody A0.
    unfold parse_af_extension. apply sim_assoc_l.
    eapply sim_bind; [apply sim_next_byte|]. intros elen ? (<- & Helen). cbv beta zeta.
    eapply (sim_bind (fun e a' => a' = set_PacketAdaptationField_AdaptationExtensionField (Some e) A0)).
    2:{ intros e a' ->. apply sim_ret. reflexivity. }
    apply sim_if; [|apply sim_ret; paf_cbv; reflexivity].
    eapply sim_bind; [apply sim_next_byte|]. intros efl ? (<- & Hefl). cbv beta zeta. flags efl Hefl.
    (* legal time window *)
    lazymatch goal with |- sim _ _ (ibind (if ?c then _ else iret ?A) _) =>
      eapply (sim_bind (fun ltw a' => a' = upd_aef (fun e =>
         set_PacketAdaptationExtensionField_LegalTimeWindowOffset (if c then bitsf ltw 1 15 else 0)
           (set_PacketAdaptationExtensionField_LegalTimeWindowIsValid (if c then bitb ltw 0 else false) e)) A)) end.
    { unfold when. apply sim_if_eqn; intros Hc.
      - eapply sim_map_r; [apply sim_next_bytes_nocopy|]. intros x ? (<- & Hok & Hlen). rewrite Hc.
        explode_bytes x Hlen Hok. nth_lit. pose proof Hok as Hok'. bytes_inv Hok'.
        paf_cbv. repeat f_equal; bridge.
      - apply sim_ret. rewrite Hc. paf_cbv. reflexivity. }
    cbv beta. intros ltw a ->. paf_norm.
    (* piecewise rate *)
    lazymatch goal with |- sim _ _ (ibind (if ?c then _ else iret ?A) _) =>
      eapply (sim_bind (fun pr a' => a' = upd_aef (fun e =>
         set_PacketAdaptationExtensionField_PiecewiseRate (if c then bitsf pr 2 22 else 0) e) A)) end.
    { unfold when. apply sim_if_eqn; intros Hc.
      - eapply sim_map_r; [apply sim_next_bytes_nocopy|]. intros x ? (<- & Hok & Hlen). rewrite Hc.
        explode_bytes x Hlen Hok. nth_lit. pose proof Hok as Hok'. bytes_inv Hok'.
        paf_cbv. repeat f_equal; bridge.
      - apply sim_ret. rewrite Hc. paf_cbv. reflexivity. }
    cbv beta. intros pr a ->. paf_norm.
    (* seamless splice *)
    lazymatch goal with |- sim _ _ (ibind (if ?c then _ else iret ?A) _) =>
      eapply (sim_bind (fun (p : Z * option ClockReference) a' => a' = upd_aef (fun e =>
         set_PacketAdaptationExtensionField_DTSNextAccessUnit (snd p)
           (set_PacketAdaptationExtensionField_SpliceType (fst p) e)) A)) end.
    { apply sim_if.
      - eapply sim_bind; [apply sim_next_byte|]. intros b2 ? (<- & Hb2). cbv beta.
        eapply sim_bind; [apply sim_iskip|]. intros _ _ _.
        eapply sim_bind; [apply parse_pts_or_dts_sim|]. intros d ? <-.
        apply sim_ret. paf_cbv. repeat f_equal; bridge.
      - apply sim_ret. paf_cbv. reflexivity. }
    cbv beta. intros [st dts] a ->. paf_norm.
    apply sim_ret. paf_cbv. reflexivity. }
  cbv beta. intros ext a ->. subst A0. paf_norm.
  (* stuffing length *)
  apply sim_ret_bind_r.
  eapply sim_bind; [apply sim_ioffset|]. intros off ? <-.
  apply sim_ret. paf_cbv. replace (len =? 0) with false by lia. reflexivity.
Qed.

(* ---------------- the whole packet ---------------- *)

(* the bytes of the iterator are never changed *)
Definition pres {A} (m : IM A) : Prop := forall i a i', m i = Ok (a, i') -> ibs i' = ibs i.

Lemma pres_bind {A B} (m : IM A) (f : A -> IM B) : pres m -> (forall a, pres (f a)) -> pres (ibind m f).
Proof.
  intros Hm Hf i b i'. unfold ibind. destruct (m i) as [[a i1]|c|] eqn:E; try discriminate.
  intros H. rewrite (Hf a i1 b i' H). apply (Hm i a i1 E).
Qed.
Lemma pres_ret {A} (a : A) : pres (iret a).
Proof. intros i b i' H. inversion H. reflexivity. Qed.
Lemma pres_err {A} c : pres (@ierr A c).
Proof. intros i b i' H. discriminate. Qed.
Lemma pres_if {A} (c : bool) (m n : IM A) : pres m -> pres n -> pres (if c then m else n).
Proof. destruct c; auto. Qed.
Lemma pres_next_byte : pres next_byte.
Proof. intros i b i' H. apply next_byte_ok in H. tauto. Qed.
Lemma pres_next_bytes n : pres (next_bytes n).
Proof. intros i b i' H. apply next_bytes_ok in H. tauto. Qed.
Lemma pres_next_bytes_nocopy n : pres (next_bytes_nocopy n).
Proof. exact (pres_next_bytes n). Qed.
Lemma pres_iskip n : pres (iskip n).
Proof. intros i b i' H. inversion H. reflexivity. Qed.
Lemma pres_iseek n : pres (iseek n).
Proof. intros i b i' H. inversion H. reflexivity. Qed.
Lemma pres_ioffset : pres ioffset.
Proof. intros i b i' H. inversion H. reflexivity. Qed.
Lemma pres_ilength : pres ilength.
Proof. intros i b i' H. inversion H. reflexivity. Qed.

Ltac pres_auto :=
  repeat match goal with
  | |- pres (ibind _ _) => apply pres_bind; [|intros]
  | |- pres (iret _) => apply pres_ret
  | |- pres (ierr _) => apply pres_err
  | |- pres (if _ then _ else _) => apply pres_if
  | |- pres (when _ _ _) => unfold when
  | |- pres (let '(_, _) := ?p in _) => destruct p
  | |- pres next_byte => apply pres_next_byte
  | |- pres (next_bytes _) => apply pres_next_bytes
  | |- pres (next_bytes_nocopy _) => apply pres_next_bytes_nocopy
  | |- pres (iskip _) => apply pres_iskip
  | |- pres (iseek _) => apply pres_iseek
  | |- pres ioffset => apply pres_ioffset
  | |- pres ilength => apply pres_ilength
  | |- pres parse_pcr => unfold parse_pcr
  | |- pres parse_pts_or_dts => unfold parse_pts_or_dts
  | |- pres parse_af_extension => unfold parse_af_extension
  end.

Lemma pres_parse_packet_adaptation_field : pres parse_packet_adaptation_field.
Proof. unfold parse_packet_adaptation_field. pres_auto. Qed.

Lemma sim_of_point {A} (m1 m2 : IM A) : (forall i, okI i -> m1 i = m2 i) -> pres m1 -> sim eq m1 m2.
Proof.
  intros H Hp i Hi. rewrite <- (H i Hi). destruct (m1 i) as [[a i']|c|] eqn:E; auto.
  repeat split. apply (Hp i a i' E).
Qed.

Lemma parse_packet_adaptation_field_sim : sim eq parse_packet_adaptation_field parsePacketAdaptationField.
Proof. apply sim_of_point; [exact parse_packet_adaptation_field_gen|exact pres_parse_packet_adaptation_field]. Qed.

Lemma sim_if_push_l {A2 B C} (R : C -> A2 -> Prop) m2 (c : bool) (m n : IM B) (g : B -> IM C) :
  sim R (if c then ibind m g else ibind n g) m2 -> sim R (ibind (if c then m else n) g) m2.
Proof. destruct c; auto. Qed.

Lemma sim_err_bind_l {A2 B C} (R : C -> A2 -> Prop) c (g : B -> IM C) : sim R (ibind (ierr c) g) (ierr c).
Proof. intros i Hi. reflexivity. Qed.

Lemma sim_ret_bind_l {A2 B C} (R : C -> A2 -> Prop) m2 (a : B) (g : B -> IM C) :
  sim R (g a) m2 -> sim R (ibind (iret a) g) m2.
Proof. intros H i Hi. exact (H i Hi). Qed.

Ltac pk_norm := cbn beta iota zeta delta [fst snd odflt zero_Packet
  set_Packet_AdaptationField set_Packet_Header set_Packet_Payload Packet_AdaptationField Packet_Header Packet_Payload].
Ltac pk_cbv := cbv beta iota zeta delta [fst snd zero_Packet
  set_Packet_AdaptationField set_Packet_Header set_Packet_Payload Packet_AdaptationField Packet_Header Packet_Payload].

Lemma parse_packet_sim (sk : option (Packet -> bool)) :
  sim eq (parse_packet (match sk with Some f => f | None => no_skip end)) (parsePacket sk).
Proof.
  unfold parse_packet, parse_packet_head, parse_packet_tail, parsePacket. pk_norm.
  apply sim_assoc_l. eapply sim_bind; [apply sim_next_byte|]. intros b ? (<- & Hb). cbv beta.
  apply sim_if_push_l. change C_syncByte with syncByte. apply sim_if; [apply sim_err_bind_l|].
  apply sim_assoc_l. eapply sim_bind; [apply sim_ilength|]. intros len ? <-. cbv beta.
  apply sim_assoc_l. eapply sim_bind; [apply sim_iseek|]. intros _ _ _.
  apply sim_assoc_l. eapply sim_bind; [apply sim_ioffset|]. intros os ? <-. cbv beta.
  apply sim_assoc_l. eapply sim_bind; [apply parse_packet_header_sim|]. intros h ? <-. cbv beta. pk_norm.
  apply sim_assoc_l.
  eapply (sim_bind (fun af p => p = set_Packet_AdaptationField af
            {| Packet_AdaptationField := None; Packet_Header := h; Packet_Payload := [] |})).
  { apply sim_if.
    - eapply sim_bind; [apply parse_packet_adaptation_field_sim|]. intros a ? <-. apply sim_ret. reflexivity.
    - apply sim_ret. reflexivity. }
  cbv beta. intros af p ->. apply sim_ret_bind_l. pk_cbv.
  assert (Hsk : (match sk with Some f_ => f_ {| Packet_AdaptationField := af; Packet_Header := h; Packet_Payload := [] |} | None => false end)
              = (match sk with Some f => f | None => no_skip end) {| Packet_AdaptationField := af; Packet_Header := h; Packet_Payload := [] |})
    by (destruct sk; reflexivity).
  rewrite Hsk. apply sim_if; [apply sim_err|].
  apply sim_bind_ret_r. apply sim_if.
  - eapply sim_bind; [apply sim_iseek|]. intros _ _ _.
    eapply sim_bind; [apply sim_idump|]. intros pl ? (<- & _). apply sim_ret. reflexivity.
  - apply sim_ret. reflexivity.
Qed.

Lemma parse_packet_gen (skip : Packet -> bool) : same_on_bytes (parse_packet skip) (parsePacket (Some skip)).
Proof. exact (sim_point _ _ (parse_packet_sim (Some skip))). Qed.

Lemma parse_packet_no_skip_gen : same_on_bytes (parse_packet no_skip) (parsePacket None).
Proof. exact (sim_point _ _ (parse_packet_sim None)). Qed.


(* ---------------- pointwise statements ---------------- *)

Lemma parse_pcr_gen : same_on_bytes parse_pcr parsePCR.
Proof. exact (sim_point _ _ parse_pcr_sim). Qed.
Lemma parse_pts_or_dts_gen : same_on_bytes parse_pts_or_dts parsePTSOrDTS.
Proof. exact (sim_point _ _ parse_pts_or_dts_sim). Qed.
Lemma parse_packet_header_gen : same_on_bytes parse_packet_header parsePacketHeader.
Proof. exact (sim_point _ _ parse_packet_header_sim). Qed.

Lemma run_iter_same {A} (m1 m2 : IM A) bs : same_on_bytes m1 m2 -> bytes_ok bs -> run_iter m1 bs = run_iter m2 bs.
Proof. intros H Hb. unfold run_iter. rewrite (H (new_iter bs) Hb). reflexivity. Qed.

(* what Props/C11.v quotes: every parser of packet.go that the theorems of C11 mention is the translated source *)
Lemma packet_parsers_are_source :
  same_on_bytes parse_pcr parsePCR /\
  same_on_bytes parse_pts_or_dts parsePTSOrDTS /\
  same_on_bytes parse_packet_header parsePacketHeader /\
  same_on_bytes parse_packet_adaptation_field parsePacketAdaptationField /\
  (forall skip, same_on_bytes (parse_packet skip) (parsePacket (Some skip))) /\
  same_on_bytes (parse_packet no_skip) (parsePacket None) /\
  (forall bs, bytes_ok bs -> parse_packet_bytes bs = run_iter (parsePacket None) bs).
Proof.
  repeat split.
  - exact parse_pcr_gen.
  - exact parse_pts_or_dts_gen.
  - exact parse_packet_header_gen.
  - exact parse_packet_adaptation_field_gen.
  - exact parse_packet_gen.
  - exact parse_packet_no_skip_gen.
  - intros bs Hb. unfold parse_packet_bytes. apply run_iter_same; [exact parse_packet_no_skip_gen|exact Hb].
Qed.
