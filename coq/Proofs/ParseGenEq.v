(* The hand-written parsers of Model/Clock.v, Model/Packet.v and Model/Pes.v are equal, as computations in the
   iterator monad, to the definitions that go/gen (itermonad.go) translates from the CURRENT source of packet.go and
   data_pes.go into Gen/ParseGen.v -- on every iterator whose bytes are in 0..255 (which is what a Go []byte holds).
   A change to one of the Go parsers changes Gen/ParseGen.v and the corresponding lemma here stops checking. *)
From Coq Require Import ZArith List Lia Bool ZifyBool.
Require Import Base.Bits Base.Iter Gen.Consts Gen.Types Gen.Preds Gen.ParseGen.
Require Import Model.Clock Model.Packet Model.Pes Proofs.ParseGenBits Proofs.ParseGenSim.
Import ListNotations.
Open Scope Z_scope.

(* ---------------- clock references ---------------- *)

(* a parser that reads n bytes and returns a pure function of them *)
Lemma sim_bytes_fun {A} n (f g : list Z -> A) :
  (forall bs, bytes_ok bs -> length bs = Z.to_nat n -> f bs = g bs) ->
  sim eq (ibind (next_bytes_nocopy n) (fun bs => iret (f bs))) (ibind (next_bytes_nocopy n) (fun bs => iret (g bs))).
Proof.
  intros H. eapply sim_bind; [apply sim_next_bytes_nocopy|].
  intros a1 a2 (<- & Hok & Hlen). apply sim_ret. apply H; assumption.
Qed.

Lemma parse_pcr_sim : sim eq parse_pcr parsePCR.
Proof.
  unfold parse_pcr, parsePCR. cbv zeta. apply sim_bytes_fun. intros bs Hok Hlen.
  explode_bytes bs Hlen Hok. nth_lit. pose proof Hok as Hok'. bytes_inv Hok'.
  unfold mk_cr, newClockReference. f_equal; bridge.
Qed.

Lemma parse_pts_or_dts_sim : sim eq parse_pts_or_dts parsePTSOrDTS.
Proof.
  unfold parse_pts_or_dts, parsePTSOrDTS. cbv zeta. apply sim_bytes_fun. intros bs Hok Hlen.
  explode_bytes bs Hlen Hok. nth_lit. pose proof Hok as Hok'. bytes_inv Hok'.
  unfold mk_cr, newClockReference. f_equal. bridge.
Qed.

Lemma parse_escr_sim : sim eq parse_escr parseESCR.
Proof.
  unfold parse_escr, parseESCR. cbv zeta. apply sim_bytes_fun. intros bs Hok Hlen.
  explode_bytes bs Hlen Hok. nth_lit. pose proof Hok as Hok'. bytes_inv Hok'.
  unfold mk_cr, newClockReference. f_equal; bridge.
Qed.

(* ---------------- DSM trick mode (a pure function of one byte: complete sweep) ---------------- *)

Definition dsm_eqb (x y : DSMTrickMode) : bool :=
  (DSMTrickMode_FieldID x =? DSMTrickMode_FieldID y) && (DSMTrickMode_FrequencyTruncation x =? DSMTrickMode_FrequencyTruncation y)
  && (DSMTrickMode_IntraSliceRefresh x =? DSMTrickMode_IntraSliceRefresh y) && (DSMTrickMode_RepeatControl x =? DSMTrickMode_RepeatControl y)
  && (DSMTrickMode_TrickModeControl x =? DSMTrickMode_TrickModeControl y).

Lemma dsm_eqb_eq x y : dsm_eqb x y = true -> x = y.
Proof.
  destruct x, y. unfold dsm_eqb. cbn. intros H.
  repeat (apply andb_true_iff in H; destruct H as [H ?]).
  repeat match goal with E : (_ =? _) = true |- _ => apply Z.eqb_eq in E end. subst. reflexivity.
Qed.

Lemma parse_dsm_trick_mode_gen : forall b, byte_ok b -> parse_dsm_trick_mode b = parseDSMTrickMode b.
Proof.
  intros b Hb. apply dsm_eqb_eq. revert b Hb.
  apply (byte_sweep (fun b => dsm_eqb (parse_dsm_trick_mode b) (parseDSMTrickMode b))).
  vm_compute. reflexivity.
Qed.

(* ---------------- packet header ---------------- *)

Lemma parse_packet_header_sim : sim eq parse_packet_header parsePacketHeader.
Proof.
  unfold parse_packet_header, parsePacketHeader. cbv zeta. apply sim_bytes_fun. intros bs Hok Hlen.
  explode_bytes bs Hlen Hok. nth_lit. pose proof Hok as Hok'. bytes_inv Hok'.
  f_equal; bridge.
Qed.
