(* The regenerated PSI / descriptor / DVB writers with their Section Variables instantiated by EACH OTHER (Gen/PsiWriteGen.v
   closes one section per layer), and the statements Props/C09.v, C13.v, C14.v, C17.v quote.

   What stays outside the regenerated code after the instantiation:
     calcDescriptorUserDefinedLength, calcDescriptorExtensionLength   the hand models calc_user_defined_length /
         calc_extension_length of Model/Desc.v (nil comparison of a slice, *[]byte: outside the translator's grammar);
     the float64 / package-time expressions of dvb.go                 the integer functions of Model/DvbDate.v (C15).
   Everything else in the cone of writePSIData - 40 functions - is the text of the current source. *)
From Coq Require Import ZArith List Lia Bool ZifyBool.
Require Import Base.Bits Base.Iter Base.Wr Gen.Consts Gen.Types Gen.Preds Gen.MuxGen Gen.WriteGen Gen.PsiWriteGen
  Model.Packet Model.DvbDate Model.Dvb Model.Desc Model.Psi
  Proofs.WriteGenBase Proofs.PsiWriteGenBase Proofs.PsiWriteGenPsi Proofs.PsiWriteGenDesc Proofs.PsiWriteGenBodies
  Proofs.PsiWriteGenDvb.
Import ListNotations.
Open Scope Z_scope.

(* ---- the instantiation ---- *)

Definition gwriteDescriptorLocalTimeOffset := writeDescriptorLocalTimeOffset gwriteDVBDurationMinutes gwriteDVBTime.

Definition gcalcDescriptorLength := calcDescriptorLength calc_user_defined_length calc_extension_length.
Definition gcalcDescriptorsLength := calcDescriptorsLength calc_user_defined_length calc_extension_length.

Definition with_bodies {T} (f : (list Z -> Z) -> (option DescriptorExtension -> Z) ->
    (list Z -> WF merror) -> (DescriptorAC3 -> WF merror) -> (DescriptorAVCVideo -> WF merror) ->
    (DescriptorComponent -> WF merror) -> (DescriptorContent -> WF merror) -> (DescriptorDataStreamAlignment -> WF merror) ->
    (DescriptorEnhancedAC3 -> WF merror) -> (DescriptorExtendedEvent -> WF merror) -> (DescriptorExtension -> WF merror) ->
    (DescriptorISO639LanguageAndAudioType -> WF merror) -> (DescriptorLocalTimeOffset -> WF merror) ->
    (DescriptorMaximumBitrate -> WF merror) -> (DescriptorNetworkName -> WF merror) -> (DescriptorParentalRating -> WF merror) ->
    (DescriptorPrivateDataIndicator -> WF merror) -> (DescriptorPrivateDataSpecifier -> WF merror) ->
    (DescriptorRegistration -> WF merror) -> (DescriptorService -> WF merror) -> (DescriptorShortEvent -> WF merror) ->
    (DescriptorStreamIdentifier -> WF merror) -> (DescriptorSubtitling -> WF merror) -> (DescriptorTeletext -> WF merror) ->
    (DescriptorVBIData -> WF merror) -> (DescriptorUnknown -> WF merror) -> T) : T :=
  f calc_user_defined_length calc_extension_length
    writeDescriptorUserDefined writeDescriptorAC3 writeDescriptorAVCVideo writeDescriptorComponent writeDescriptorContent
    writeDescriptorDataStreamAlignment writeDescriptorEnhancedAC3 writeDescriptorExtendedEvent writeDescriptorExtension
    writeDescriptorISO639LanguageAndAudioType gwriteDescriptorLocalTimeOffset writeDescriptorMaximumBitrate
    writeDescriptorNetworkName writeDescriptorParentalRating writeDescriptorPrivateDataIndicator
    writeDescriptorPrivateDataSpecifier writeDescriptorRegistration writeDescriptorService writeDescriptorShortEvent
    writeDescriptorStreamIdentifier writeDescriptorSubtitling writeDescriptorTeletext writeDescriptorVBIData
    writeDescriptorUnknown.

Definition gwriteDescriptor := with_bodies writeDescriptor.
Definition gwriteDescriptors := with_bodies writeDescriptors.
Definition gwriteDescriptorsWithLength := with_bodies writeDescriptorsWithLength.

Definition gcalcPMTSectionLength := calcPMTSectionLength gcalcDescriptorsLength.
Definition gcalcPSISectionLength := calcPSISectionLength gcalcDescriptorsLength.
Definition gwritePMTSection := writePMTSection gwriteDescriptorsWithLength.
Definition gwritePSISectionSyntaxData := writePSISectionSyntaxData gwriteDescriptorsWithLength.
Definition gwritePSISectionSyntax := writePSISectionSyntax gwriteDescriptorsWithLength.
Definition gwritePSISection := writePSISection gcalcDescriptorsLength gwriteDescriptorsWithLength.
Definition gwritePSIData := writePSIData gcalcDescriptorsLength gwriteDescriptorsWithLength.

(* ---- the layers, closed ---- *)

Lemma gwriteLTO_is_model d : wfe_sim (gwriteDescriptorLocalTimeOffset d) (Ok (enc_local_time_offset d)).
Proof.
  apply writeDescriptorLocalTimeOffset_is_model; [apply writeDVBDurationMinutes_is_model | apply writeDVBTime_is_model].
Qed.

Ltac with_bodies_hyps :=
  first [ reflexivity
        | apply writeDescriptorUserDefined_is_model | apply writeDescriptorAC3_is_model | apply writeDescriptorAVCVideo_is_model
        | apply writeDescriptorComponent_is_model | apply writeDescriptorContent_is_model
        | apply writeDescriptorDataStreamAlignment_is_model | apply writeDescriptorEnhancedAC3_is_model
        | apply writeDescriptorExtendedEvent_is_model | apply writeDescriptorExtension_is_model
        | apply writeDescriptorISO639_is_model | apply gwriteLTO_is_model | apply writeDescriptorMaximumBitrate_is_model
        | apply writeDescriptorNetworkName_is_model | apply writeDescriptorParentalRating_is_model
        | apply writeDescriptorPrivateDataIndicator_is_model | apply writeDescriptorPrivateDataSpecifier_is_model
        | apply writeDescriptorRegistration_is_model | apply writeDescriptorService_is_model
        | apply writeDescriptorShortEvent_is_model | apply writeDescriptorStreamIdentifier_is_model
        | apply writeDescriptorSubtitling_is_model | apply writeDescriptorTeletext_is_model
        | apply writeDescriptorVBIData_is_model | apply writeDescriptorUnknown_is_model ].

Lemma gcalcDescriptorLength_is_model d : gcalcDescriptorLength d = calc_descriptor_length d.
Proof. apply calcDescriptorLength_is_model; reflexivity. Qed.

Lemma gcalcDescriptorsLength_is_model ds : gcalcDescriptorsLength ds = calc_descriptors_length ds.
Proof. apply calcDescriptorsLength_is_model; reflexivity. Qed.

Lemma gwriteDescriptor_is_model d : wfn_sim (gwriteDescriptor d) (enc_descriptor d) (descriptor_written d).
Proof. unfold gwriteDescriptor, with_bodies. apply writeDescriptor_is_model; intros; with_bodies_hyps. Qed.

Lemma gwriteDescriptors_is_model ds : wfn_sim (gwriteDescriptors ds) (enc_descriptors ds) (descriptors_written ds).
Proof. unfold gwriteDescriptors, with_bodies. apply writeDescriptors_is_model; intros; with_bodies_hyps. Qed.

Lemma gwriteDescriptorsWithLength_is_model ds :
  wfn_sim (gwriteDescriptorsWithLength ds) (enc_descriptors_with_length ds) (descriptors_written ds + 2).
Proof. unfold gwriteDescriptorsWithLength, with_bodies. apply writeDescriptorsWithLength_is_model; intros; with_bodies_hyps. Qed.

Definition gcalcPMTProgramInfoLength := calcPMTProgramInfoLength gcalcDescriptorsLength.

(* ---- the statements the property files quote ---- *)

(* C09 / C13: the PSI writers *)
Theorem psi_writers_are_source :
  (forall d, gcalcPMTSectionLength d = calc_pmt_section_length d) /\
  (forall s, gcalcPSISectionLength s = ([], res_opt (calc_psi_section_length_res s))) /\
  (forall d, wfn_sim (writePATSection d) (Ok (enc_pat_section d)) (pat_written d)) /\
  (forall d, wfn_sim (gwritePMTSection d) (enc_pmt_section d) (pmt_written d)) /\
  (forall h, wfn_sim (writePSISectionSyntaxHeader h) (Ok (enc_psi_section_syntax_header h)) 5) /\
  (forall d tid, wfn_sim (gwritePSISectionSyntaxData d tid) (enc_psi_section_syntax_data d tid) (syntax_data_written d tid)) /\
  (forall s h, PSISection_Header s = Some h ->
     wfn_sim (gwritePSISectionSyntax s) (enc_psi_section_syntax s (PSISectionHeader_TableID h))
             (syntax_written s (PSISectionHeader_TableID h))) /\
  (forall s, wfn_sim (gwritePSISection s) (enc_psi_section s) (section_written s)) /\
  (forall d, wfn_sim (gwritePSIData d) (enc_psi_data d) (psi_written d)).
Proof.
  pose proof gcalcDescriptorsLength_is_model as H1. pose proof gwriteDescriptorsWithLength_is_model as H2.
  refine (conj _ (conj _ (conj _ (conj _ (conj _ (conj _ (conj _ (conj _ _)))))))); intros.
  - apply calcPMTSectionLength_is_model; assumption.
  - apply calcPSISectionLength_is_model; assumption.
  - apply writePATSection_is_model.
  - apply writePMTSection_is_model; assumption.
  - apply writeSyntaxHeader_is_model.
  - apply writeSyntaxData_is_model; assumption.
  - apply writeSyntax_is_model; assumption.
  - apply writePSISection_is_model; assumption.
  - apply writePSIData_is_model; assumption.
Qed.

(* C14: the descriptor loop, the 24 bodies, the DVB writers *)
Theorem descriptor_writers_are_source :
  (forall d, gcalcDescriptorLength d = calc_descriptor_length d) /\
  (forall ds, gcalcDescriptorsLength ds = calc_descriptors_length ds) /\
  (forall d, wfn_sim (gwriteDescriptor d) (enc_descriptor d) (descriptor_written d)) /\
  (forall ds, wfn_sim (gwriteDescriptors ds) (enc_descriptors ds) (descriptors_written ds)) /\
  (forall ds, wfn_sim (gwriteDescriptorsWithLength ds) (enc_descriptors_with_length ds) (descriptors_written ds + 2)).
Proof.
  refine (conj _ (conj _ (conj _ (conj _ _)))); intros.
  - apply gcalcDescriptorLength_is_model.
  - apply gcalcDescriptorsLength_is_model.
  - apply gwriteDescriptor_is_model.
  - apply gwriteDescriptors_is_model.
  - apply gwriteDescriptorsWithLength_is_model.
Qed.

Theorem descriptor_bodies_are_source :
  (forall d, wfe_sim (writeDescriptorUserDefined d) (Ok [WBytes d])) /\
  (forall d, wfe_sim (writeDescriptorAC3 d) (Ok (enc_ac3 d))) /\
  (forall d, wfe_sim (writeDescriptorAVCVideo d) (Ok (enc_avc_video d))) /\
  (forall d, wfe_sim (writeDescriptorComponent d) (Ok (enc_component d))) /\
  (forall d, wfe_sim (writeDescriptorContent d) (Ok (enc_content d))) /\
  (forall d, wfe_sim (writeDescriptorDataStreamAlignment d) (Ok (enc_data_stream_alignment d))) /\
  (forall d, wfe_sim (writeDescriptorEnhancedAC3 d) (Ok (enc_enhanced_ac3 d))) /\
  (forall d, wfe_sim (writeDescriptorExtendedEvent d) (Ok (enc_extended_event d))) /\
  (forall d, wfe_sim (writeDescriptorExtensionSupplementaryAudio d) (Ok (enc_extension_supplementary_audio d))) /\
  (forall d, wfe_sim (writeDescriptorExtension d) (enc_extension d)) /\
  (forall d, wfe_sim (writeDescriptorISO639LanguageAndAudioType d) (Ok (enc_iso639 d))) /\
  (forall d, wfe_sim (gwriteDescriptorLocalTimeOffset d) (Ok (enc_local_time_offset d))) /\
  (forall d, wfe_sim (writeDescriptorMaximumBitrate d) (Ok (enc_maximum_bitrate d))) /\
  (forall d, wfe_sim (writeDescriptorNetworkName d) (Ok (enc_network_name d))) /\
  (forall d, wfe_sim (writeDescriptorParentalRating d) (Ok (enc_parental_rating d))) /\
  (forall d, wfe_sim (writeDescriptorPrivateDataIndicator d) (Ok (enc_private_data_indicator d))) /\
  (forall d, wfe_sim (writeDescriptorPrivateDataSpecifier d) (Ok (enc_private_data_specifier d))) /\
  (forall d, wfe_sim (writeDescriptorRegistration d) (Ok (enc_registration d))) /\
  (forall d, wfe_sim (writeDescriptorService d) (Ok (enc_service d))) /\
  (forall d, wfe_sim (writeDescriptorShortEvent d) (Ok (enc_short_event d))) /\
  (forall d, wfe_sim (writeDescriptorStreamIdentifier d) (Ok (enc_stream_identifier d))) /\
  (forall d, wfe_sim (writeDescriptorSubtitling d) (Ok (enc_subtitling d))) /\
  (forall d, wfe_sim (writeDescriptorTeletext d) (Ok (enc_teletext d))) /\
  (forall d, wfe_sim (writeDescriptorVBIData d) (Ok (enc_vbi_data d))) /\
  (forall d, wfe_sim (writeDescriptorUnknown d) (Ok (enc_unknown d))) /\
  (forall d, wfn_sim (gwriteDVBDurationMinutes d) (Ok (enc_dvb_duration_minutes d)) 2) /\
  (forall d, wfn_sim (gwriteDVBDurationSeconds d) (Ok (enc_dvb_duration_seconds d)) 3) /\
  (forall t, wfn_sim (gwriteDVBTime t) (Ok (enc_dvb_time t)) 5).
Proof.
  repeat match goal with |- _ /\ _ => split end; intros;
    first [ with_bodies_hyps | apply writeDescriptorExtensionSupplementaryAudio_is_model
          | apply writeDVBDurationMinutes_is_model | apply writeDVBDurationSeconds_is_model | apply writeDVBTime_is_model ].
Qed.

(* C17: what the Muxer's call writePSIData(m.bufWriter, psiData) does, from the regenerated writer.  Model/Muxer.v (and
   the instantiation g_wpsi of Gen/MuxGen.v's parameter in Proofs/MuxGenEq.v) appends write_psi_data's bytes to m.buf: those
   are the bytes of the items the regenerated writePSIData hands to the BitsWriter, in order, none through a dropped Write;
   its error class and its panics are the model's; the count it returns (ignored by generatePAT / generatePMT) is psi_written. *)
Theorem psi_writer_is_source d :
  match write_psi_data d with
  | Ok bs => exists l, gwritePSIData d = (l, Some (psi_written d, ENil)) /\ bytes_of_items (map snd l) = bs /\ nd l = true
  | Err c => exists l a e, gwritePSIData d = (l, Some (a, e)) /\ werr e = Some c
  | Panic => exists l, gwritePSIData d = (l, None)
  end.
Proof.
  destruct psi_writers_are_source as (_ & _ & _ & _ & _ & _ & _ & _ & H). specialize (H d).
  unfold write_psi_data. destruct (enc_psi_data d) as [items|c|]; cbn [res_map].
  - destruct (wfn_ok_inv _ _ _ H) as (l & E & Hn & Hd). exists l. repeat split; auto. apply ieq_bytes. exact Hn.
  - exact (wfn_err_inv _ _ _ H).
  - exact (wfn_panic_inv _ _ H).
Qed.

(* the two length calculators that are parameters of Gen/MuxGen.v's generatePMT, from the regenerated code *)
Theorem mux_calc_parameters_are_source :
  (forall d, gcalcPMTSectionLength d = calc_pmt_section_length d) /\
  (forall d, gcalcDescriptorLength d = calc_descriptor_length d).
Proof. split; [apply psi_writers_are_source | apply gcalcDescriptorLength_is_model]. Qed.

(* ---- the generated writers run: a PMT with two descriptors, through the regenerated writePSIData ---- *)

Definition ex_desc_stream_id : Descriptor :=
  set_StreamIdentifier (desc_hdr C_DescriptorTagStreamIdentifier 1) {| DescriptorStreamIdentifier_ComponentTag := 7 |}.
Definition ex_desc_user : Descriptor := set_UserDefined (desc_hdr 200 3) [1; 2; 3].

Definition ex_pmt : PMTData :=
  {| PMTData_ElementaryStreams :=
       [{| PMTElementaryStream_ElementaryPID := 256; PMTElementaryStream_ElementaryStreamDescriptors := [ex_desc_stream_id];
           PMTElementaryStream_StreamType := 27 |}];
     PMTData_PCRPID := 256; PMTData_ProgramDescriptors := [ex_desc_user]; PMTData_ProgramNumber := 1 |}.

Definition ex_psi : PSIData :=
  {| PSIData_PointerField := 0;
     PSIData_Sections :=
       [{| PSISection_CRC32 := 0;
           PSISection_Header := Some {| PSISectionHeader_PrivateBit := false;
                                        PSISectionHeader_SectionLength := gcalcPMTSectionLength ex_pmt;
                                        PSISectionHeader_SectionSyntaxIndicator := true;
                                        PSISectionHeader_TableID := C_PSITableIDPMT; PSISectionHeader_TableType := [] |};
           PSISection_Syntax := Some {| PSISectionSyntax_Data := Some {| PSISectionSyntaxData_EIT := None;
                                          PSISectionSyntaxData_NIT := None; PSISectionSyntaxData_PAT := None;
                                          PSISectionSyntaxData_PMT := Some ex_pmt; PSISectionSyntaxData_SDT := None;
                                          PSISectionSyntaxData_TOT := None |};
                                        PSISectionSyntax_Header := Some {| PSISectionSyntaxHeader_CurrentNextIndicator := true;
                                          PSISectionSyntaxHeader_LastSectionNumber := 0; PSISectionSyntaxHeader_SectionNumber := 0;
                                          PSISectionSyntaxHeader_TableIDExtension := 1;
                                          PSISectionSyntaxHeader_VersionNumber := 3 |} |} |}] |}.

(* 1 pointer byte + 3 header + 5 syntax header + 2 + (2 + 5) + (5 + 3) + 4 CRC = 30 bytes; the generated writer returns
   that count, nil, and its items are the model's bytes; the last four are the CRC_32 of the 25 in front of them *)
Example psi_writer_runs :
  snd (gwritePSIData ex_psi) = Some (30, ENil) /\
  Ok (bytes_of_items (map snd (fst (gwritePSIData ex_psi)))) = write_psi_data ex_psi /\
  length (bytes_of_items (map snd (fst (gwritePSIData ex_psi)))) = 30%nat /\
  computeCRC32 (firstn 29 (skipn 1 (bytes_of_items (map snd (fst (gwritePSIData ex_psi)))))) = 0.
Proof. vm_compute. repeat split. Qed.

(* C13: calcPMTProgramInfoLength (unused by the package, exported to nobody) against the model's section length *)
Theorem pmt_program_info_length_is_source d :
  calc_pmt_section_length d = (gcalcPMTProgramInfoLength d + 2) mod 65536.
Proof.
  unfold gcalcPMTProgramInfoLength. rewrite <- calcPMTProgramInfoLength_section.
  symmetry. apply calcPMTSectionLength_is_model. exact gcalcDescriptorsLength_is_model.
Qed.
