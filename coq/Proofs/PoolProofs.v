(* The packet pool: frame properties (C07), duplicates (C06), sortedness. *)
From Coq Require Import ZArith List Lia Bool ZifyBool.
Require Import Base.Bits Base.Iter Gen.Consts Gen.Types Gen.Preds Model.Pool.
Import ListNotations.
Open Scope Z_scope.

(* ---- the association list stays sorted by PID, so lookup/set behave like a finite map ---- *)

Fixpoint keys_above (k : Z) (pl : pool) : Prop :=
  match pl with [] => True | (k', _) :: r => k < k' /\ keys_above k' r end.
Definition sorted (pl : pool) : Prop :=
  match pl with [] => True | (k, _) :: r => keys_above k r end.

Lemma keys_above_weaken k k' pl : k' <= k -> keys_above k pl -> keys_above k' pl.
Proof. destruct pl as [|[a q] r]; simpl; auto. intros ? [? ?]. split; [lia|assumption]. Qed.

Lemma keys_above_lookup k pl pid : keys_above k pl -> pid <= k -> pool_lookup pl pid = None.
Proof.
  revert k. induction pl as [|[a q] r IH]; simpl; intros k H Hle; [reflexivity|].
  destruct H as [H1 H2]. destruct (a =? pid) eqn:E; [lia|]. apply (IH a); [assumption|lia].
Qed.

Lemma pool_set_keys_above k pl pid q : keys_above k pl -> k < pid -> keys_above k (pool_set pl pid q).
Proof.
  revert k. induction pl as [|[a q0] r IH]; simpl; intros k H Hk.
  - split; [lia|exact I].
  - destruct H as [H1 H2]. destruct (a =? pid) eqn:E1.
    + simpl. split; assumption.
    + destruct (pid <? a) eqn:E2; simpl.
      * split; [lia|]. split; [lia|assumption].
      * split; [assumption|]. apply IH; [assumption|lia].
Qed.

Lemma pool_set_sorted pl pid q : sorted pl -> sorted (pool_set pl pid q).
Proof.
  destruct pl as [|[a q0] r]; simpl; [auto|]. intros H.
  destruct (a =? pid) eqn:E1; [exact H|].
  destruct (pid <? a) eqn:E2; simpl.
  - split; [lia|exact H].
  - apply pool_set_keys_above; [exact H|lia].
Qed.

Lemma pool_lookup_set_same pl pid q : pool_lookup (pool_set pl pid q) pid = Some q.
Proof.
  induction pl as [|[a q0] r IH]; simpl.
  - rewrite Z.eqb_refl. reflexivity.
  - destruct (a =? pid) eqn:E1; simpl.
    + rewrite E1. reflexivity.
    + destruct (pid <? a) eqn:E2; simpl.
      * rewrite Z.eqb_refl. reflexivity.
      * rewrite E1. exact IH.
Qed.

Lemma pool_lookup_set_other pl pid q x : x <> pid -> pool_lookup (pool_set pl pid q) x = pool_lookup pl x.
Proof.
  intros Hx. induction pl as [|[a q0] r IH]; simpl.
  - destruct (pid =? x) eqn:E; [lia|reflexivity].
  - destruct (a =? pid) eqn:E1; simpl.
    + destruct (a =? x) eqn:E2; [lia|reflexivity].
    + destruct (pid <? a) eqn:E2; simpl.
      * destruct (pid =? x) eqn:E3; [lia|reflexivity].
      * destruct (a =? x); [reflexivity|exact IH].
Qed.

Lemma pool_set_lookup_id pl pid q : sorted pl -> pool_lookup pl pid = Some q -> pool_set pl pid q = pl.
Proof.
  destruct pl as [|[a q0] r]; simpl; [discriminate|]. intros Hs.
  assert (G : forall k r, keys_above k r -> pool_lookup r pid = Some q -> pool_set r pid q = r).
  { clear. intros k r. revert k. induction r as [|[b q1] r IH]; simpl; intros k H; [discriminate|].
    destruct H as [H1 H2]. destruct (b =? pid) eqn:E1.
    - intros Hq; inversion Hq; subst. reflexivity.
    - intros Hq. destruct (pid <? b) eqn:E2.
      + rewrite (keys_above_lookup b r pid H2) in Hq by lia. discriminate.
      + f_equal. apply (IH b); assumption. }
  destruct (a =? pid) eqn:E1.
  - intros Hq; inversion Hq; subst. reflexivity.
  - intros Hq. destruct (pid <? a) eqn:E2.
    + rewrite (keys_above_lookup a r pid Hs) in Hq by lia. discriminate.
    + f_equal. apply (G a); assumption.
Qed.

Lemma pool_set_set pl pid q q' : pool_set (pool_set pl pid q) pid q' = pool_set pl pid q'.
Proof.
  induction pl as [|[a q0] r IH]; simpl.
  - rewrite Z.eqb_refl. reflexivity.
  - destruct (a =? pid) eqn:E1; simpl.
    + rewrite E1. reflexivity.
    + destruct (pid <? a) eqn:E2; simpl.
      * rewrite Z.eqb_refl. reflexivity.
      * rewrite E1, E2. f_equal. exact IH.
Qed.

(* ---- pool_add touches only the accumulator of the packet's PID ---- *)

Definition qof (pl : pool) (pid : Z) : queue := match pool_lookup pl pid with Some q => q | None => [] end.

Lemma pool_add_sorted pm pl p : sorted pl -> sorted (fst (pool_add pm pl p)).
Proof.
  intros H. unfold pool_add. destruct (tei p); [exact H|]. destruct (negb (has_payload p)); [exact H|].
  destruct (acc_add pm (pid_of p) _ p) as [q' ps]. simpl. apply pool_set_sorted. exact H.
Qed.

Lemma pool_add_frame pm pl p x : x <> pid_of p -> qof (fst (pool_add pm pl p)) x = qof pl x.
Proof.
  intros Hx. unfold pool_add. destruct (tei p); [reflexivity|]. destruct (negb (has_payload p)); [reflexivity|].
  destruct (acc_add pm (pid_of p) _ p) as [q' ps]. simpl. unfold qof. rewrite pool_lookup_set_other by exact Hx. reflexivity.
Qed.

Lemma pool_add_ignored pm pl p : tei p = true \/ has_payload p = false -> pool_add pm pl p = (pl, []).
Proof. intros [H|H]; unfold pool_add; rewrite H; [reflexivity|]. destruct (tei p); reflexivity. Qed.

Lemma pool_add_own pm pl p : tei p = false -> has_payload p = true ->
  qof (fst (pool_add pm pl p)) (pid_of p) = fst (acc_add pm (pid_of p) (qof pl (pid_of p)) p) /\
  snd (pool_add pm pl p) = snd (acc_add pm (pid_of p) (qof pl (pid_of p)) p).
Proof.
  intros H1 H2. unfold pool_add. rewrite H1, H2. cbn [negb]. unfold qof at 2 3.
  destruct (acc_add pm (pid_of p) _ p) as [q' ps]. simpl. unfold qof. rewrite pool_lookup_set_same. auto.
Qed.

(* ---- duplicates (ISO 13818-1 2.4.3.3): a packet repeated immediately changes nothing ---- *)

Lemma nth_last_app {A} (l : list A) (x d : A) : nth (length l) (l ++ [x]) d = x.
Proof. rewrite app_nth2 by lia. rewrite Nat.sub_diag. reflexivity. Qed.

Lemma bytes_eqb_refl l : bytes_eqb l l = true.
Proof. induction l as [|a l IH]; [reflexivity|]. cbn [bytes_eqb]. rewrite Z.eqb_refl, IH. reflexivity. Qed.

Lemma isSameAsPrevious_after_push q p : has_payload p = true -> isSameAsPrevious (q ++ [p]) p = true.
Proof.
  intros H. unfold isSameAsPrevious. rewrite app_length. cbn [length].
  replace (Z.to_nat (Z.of_nat (length q + 1) - 1)) with (length q) by lia.
  rewrite nth_last_app. unfold has_payload in H. rewrite H, Z.eqb_refl, Bool.eqb_reflx, bytes_eqb_refl.
  destruct (Z.of_nat (length q + 1) >? 0) eqn:E; [reflexivity|lia].
Qed.

(* on a PID that is not treated as PSI, adding p leaves a queue that ends with p, or leaves the queue as it was because p was itself a duplicate *)
Lemma acc_add_non_psi pm pid q p : (Z.eqb pid C_PIDPAT || pm_mem pm pid) = false -> has_payload p = true ->
  forall pm', acc_add pm' pid (fst (acc_add pm pid q p)) p = (fst (acc_add pm pid q p), []).
Proof.
  intros Hn Hp pm'. unfold acc_add at 2 3. rewrite Hn. cbn [andb].
  destruct (isSameAsPrevious q p) eqn:E1.
  - cbn [fst]. unfold acc_add. rewrite E1. reflexivity.
  - destruct (pusi p); cbn [fst]; unfold acc_add; rewrite isSameAsPrevious_after_push by exact Hp; reflexivity.
Qed.

Theorem pool_add_duplicate pm pm' pl p : sorted pl -> tei p = false -> has_payload p = true ->
  (Z.eqb (pid_of p) C_PIDPAT || pm_mem pm (pid_of p)) = false ->
  pool_add pm' (fst (pool_add pm pl p)) p = (fst (pool_add pm pl p), []).
Proof.
  intros Hs Ht Hp Hn.
  destruct (pool_add_own pm pl p Ht Hp) as [Hq _].
  pose proof (pool_add_sorted pm pl p Hs) as Hs1.
  set (pl1 := fst (pool_add pm pl p)) in *.
  unfold pool_add at 1. rewrite Ht, Hp. cbn [negb].
  fold (qof pl1 (pid_of p)). rewrite Hq.
  rewrite (acc_add_non_psi pm (pid_of p) _ p Hn Hp pm').
  f_equal. 
  (* setting the entry to the value it already has *)
  assert (Hl : pool_lookup pl1 (pid_of p) = Some (fst (acc_add pm (pid_of p) (qof pl (pid_of p)) p))).
  { unfold pl1, pool_add. rewrite Ht, Hp. cbn [negb]. fold (qof pl (pid_of p)).
    destruct (acc_add pm (pid_of p) (qof pl (pid_of p)) p) as [q' ps]. cbn [fst]. apply pool_lookup_set_same. }
  apply pool_set_lookup_id; assumption.
Qed.

(* ================= whole runs ================= *)
Require Import Model.PoolRun.

Lemma pool_run_sorted xs : forall pl, sorted pl -> sorted (fst (pool_run pl xs)).
Proof.
  induction xs as [|[pm p] r IH]; intros pl H; [exact H|].
  cbn [pool_run]. pose proof (pool_add_sorted pm pl p H) as H1.
  destruct (pool_add pm pl p) as [pl1 g]. cbn [fst] in H1.
  specialize (IH pl1 H1). destruct (pool_run pl1 r) as [pl2 gs]. exact IH.
Qed.

Lemma pool_run_app xs ys pl :
  pool_run pl (xs ++ ys) =
  let '(pl1, g1) := pool_run pl xs in let '(pl2, g2) := pool_run pl1 ys in (pl2, g1 ++ g2).
Proof.
  revert pl. induction xs as [|[pm p] r IH]; intros pl.
  - cbn [app pool_run]. destruct (pool_run pl ys). reflexivity.
  - cbn [app pool_run]. destruct (pool_add pm pl p) as [pl1 g]. rewrite IH.
    destruct (pool_run pl1 r) as [pl2 gs]. destruct (pool_run pl2 ys) as [pl3 gs'].
    destruct g; reflexivity.
Qed.

(* C06 (a): a duplicated packet on a PID that is not treated as PSI leaves every group and the final state unchanged,
   for every packet sequence before and after it *)
Theorem duplicate_harmless s1 pm pm' p s2 : tei p = false -> has_payload p = true ->
  (Z.eqb (pid_of p) C_PIDPAT || pm_mem pm (pid_of p)) = false ->
  pool_run [] (s1 ++ (pm, p) :: (pm', p) :: s2) = pool_run [] (s1 ++ (pm, p) :: s2).
Proof.
  intros Ht Hp Hn. rewrite !pool_run_app.
  pose proof (pool_run_sorted s1 [] I) as Hs.
  destruct (pool_run [] s1) as [pl1 g1]. cbn [fst] in Hs.
  cbn [pool_run].
  pose proof (pool_add_duplicate pm pm' pl1 p Hs Ht Hp Hn) as Hd.
  destruct (pool_add pm pl1 p) as [pl2 g]. cbn [fst] in Hd. rewrite Hd.
  destruct (pool_run pl2 s2) as [pl3 gs]. reflexivity.
Qed.

Corollary duplicate_harmless_groups s1 pm pm' p s2 : tei p = false -> has_payload p = true ->
  (Z.eqb (pid_of p) C_PIDPAT || pm_mem pm (pid_of p)) = false ->
  all_groups (s1 ++ (pm, p) :: (pm', p) :: s2) = all_groups (s1 ++ (pm, p) :: s2).
Proof. intros. unfold all_groups. rewrite duplicate_harmless by assumption. reflexivity. Qed.

(* C07: what the pool does for PID x is the accumulator of x run over x's own packets *)
Lemma groups_of_cons_group x pid g gs :
  groups_of x (cons_group pid g gs) = if pid =? x then cons_group x g (groups_of x gs) else groups_of x gs.
Proof.
  unfold cons_group, groups_of. destruct g as [|a g]; [destruct (pid =? x); reflexivity|].
  cbn [filter fst]. destruct (pid =? x) eqn:E; [|reflexivity].
  apply Z.eqb_eq in E. subst. reflexivity.
Qed.

Theorem per_pid x xs : forall pl,
  qof (fst (pool_run pl xs)) x = fst (acc_run x (qof pl x) xs) /\
  groups_of x (snd (pool_run pl xs)) = snd (acc_run x (qof pl x) xs).
Proof.
  induction xs as [|[pm p] r IH]; intros pl; [split; reflexivity|].
  cbn [pool_run acc_run]. unfold relevant.
  destruct (pid_of p =? x) eqn:Ex.
  - apply Z.eqb_eq in Ex. destruct (tei p) eqn:Et; cbn [negb andb].
    + rewrite (pool_add_ignored pm pl p) by auto. specialize (IH pl).
      destruct (pool_run pl r) as [pl2 gs]. cbn [fst snd cons_group] in *. exact IH.
    + destruct (has_payload p) eqn:Eh.
      * destruct (pool_add_own pm pl p Et Eh) as [H1 H2]. rewrite Ex in H1, H2.
        destruct (pool_add pm pl p) as [pl1 g]. cbn [fst snd] in H1, H2.
        specialize (IH pl1). rewrite H1 in IH.
        destruct (acc_add pm x (qof pl x) p) as [q1 g']. cbn [fst snd] in *. subst g'.
        destruct (pool_run pl1 r) as [pl2 gs]. destruct (acc_run x q1 r) as [q2 gs'].
        cbn [fst snd] in *. destruct IH as [IH1 IH2]. split; [exact IH1|].
        rewrite groups_of_cons_group, Ex, Z.eqb_refl, IH2. reflexivity.
      * rewrite (pool_add_ignored pm pl p) by auto. specialize (IH pl).
        destruct (pool_run pl r) as [pl2 gs]. cbn [fst snd cons_group] in *. exact IH.
  - cbn [andb].
    assert (Hx : x <> pid_of p) by (intro; subst; rewrite Z.eqb_refl in Ex; discriminate).
    pose proof (pool_add_frame pm pl p x Hx) as Hf.
    destruct (pool_add pm pl p) as [pl1 g]. cbn [fst] in Hf.
    specialize (IH pl1). rewrite Hf in IH.
    destruct (pool_run pl1 r) as [pl2 gs]. cbn [fst snd] in *.
    destruct IH as [IH1 IH2]. split; [exact IH1|].
    rewrite groups_of_cons_group, Ex. exact IH2.
Qed.

(* acc_run only looks at the packets that are relevant for x *)
Lemma acc_run_filter x xs : forall q,
  acc_run x q xs = acc_run x q (filter (fun s => relevant x (snd s)) xs).
Proof.
  induction xs as [|[pm p] r IH]; intros q; [reflexivity|].
  cbn [acc_run filter snd]. destruct (relevant x p) eqn:E.
  - cbn [acc_run]. rewrite E. destruct (acc_add pm x q p) as [q1 g]. rewrite IH. reflexivity.
  - apply IH.
Qed.

(* C07, merge form: two packet sequences with the same per-PID subsequences (each packet together with the program
   map in force when it arrives) give, for every PID, the same groups in the same order and the same pending queue *)
Theorem merge_independent x xs ys :
  filter (fun s => relevant x (snd s)) xs = filter (fun s => relevant x (snd s)) ys ->
  groups_of x (snd (pool_run [] xs)) = groups_of x (snd (pool_run [] ys)) /\
  qof (fst (pool_run [] xs)) x = qof (fst (pool_run [] ys)) x.
Proof.
  intros H. destruct (per_pid x xs []) as [A1 A2]. destruct (per_pid x ys []) as [B1 B2].
  rewrite A1, A2, B1, B2. rewrite (acc_run_filter x xs), (acc_run_filter x ys), H. auto.
Qed.

(* C07, insertion form: null packets, adaptation-field-only packets, packets with the transport error indicator
   and packets of other PIDs, inserted anywhere, change nothing for PID x *)
Theorem insert_irrelevant x s1 s2 s : relevant x (snd s) = false ->
  groups_of x (snd (pool_run [] (s1 ++ s :: s2))) = groups_of x (snd (pool_run [] (s1 ++ s2))) /\
  qof (fst (pool_run [] (s1 ++ s :: s2))) x = qof (fst (pool_run [] (s1 ++ s2))) x.
Proof.
  intros H. apply merge_independent. rewrite !filter_app. cbn [filter]. rewrite H. reflexivity.
Qed.

(* the end-of-stream drain visits the non-empty queues in increasing PID order, each once *)
Lemma dump_all_drain pl : forall fuel, (length pl < fuel)%nat ->
  dump_all fuel pl = map snd (drain_groups pl).
Proof.
  induction pl as [|[k q] r IH]; intros fuel Hf.
  - destruct fuel; reflexivity.
  - destruct fuel as [|fuel]; [simpl in Hf; lia|].
    cbn [dump_all pool_dump]. unfold drain_groups. cbn [filter snd]. destruct q as [|a q].
    + specialize (IH (S fuel) ltac:(simpl in Hf; lia)). cbn [dump_all] in IH. exact IH.
    + cbn [map fst snd]. f_equal. apply IH. simpl in Hf. lia.
Qed.
