(* C01: the end-of-stream drain over a sorted pool, described through the per-PID view [qof]: the PIDs with something
   pending, in increasing order, each parsed once. *)
From Coq Require Import ZArith List Lia Bool Sorted.
Require Import Base.Bits Base.Iter Gen.Consts Gen.Types Gen.Preds Model.Packet Model.Pool Model.PoolRun
  Model.Reader Model.Demux Proofs.PoolProofs Proofs.RoundTripDemux.
Import ListNotations.
Open Scope Z_scope.

Definition nonempty (q : queue) : bool := match q with [] => false | _ => true end.

(* the PIDs with a non-empty queue, in pool order *)
Definition pool_pids (pl : pool) : list Z := map fst (filter (fun e => nonempty (snd e)) pl).

Lemma keys_above_sorted k pl : keys_above k pl -> sorted pl.
Proof. destruct pl as [|[a q] r]; cbn; [auto|]. intros [_ H]. exact H. Qed.

Lemma keys_above_trans k pl : keys_above k pl -> forall e, In e pl -> k < fst e.
Proof.
  revert k. induction pl as [|[a q] r IH]; intros k H e Hin; [contradiction|]. cbn in H. destruct H as [H1 H2].
  destruct Hin as [<-|Hin]; [exact H1|]. specialize (IH a H2 e Hin). lia.
Qed.

Lemma qof_cons_other k q r x : x <> k -> qof ((k, q) :: r) x = qof r x.
Proof. intros H. unfold qof. cbn [pool_lookup]. destruct (k =? x) eqn:E; [lia|reflexivity]. Qed.

Lemma qof_cons_same k q r : qof ((k, q) :: r) k = q.
Proof. unfold qof. cbn [pool_lookup]. rewrite Z.eqb_refl. reflexivity. Qed.

Lemma qof_below k pl x : keys_above k pl -> x <= k -> qof pl x = [].
Proof. intros H Hx. unfold qof. rewrite (keys_above_lookup k pl x H Hx). reflexivity. Qed.

Lemma pool_pids_above k pl : keys_above k pl -> Forall (fun y => k < y) (pool_pids pl).
Proof.
  intros H. unfold pool_pids. apply Forall_forall. intros y Hy. apply in_map_iff in Hy. destruct Hy as (e & <- & He).
  apply filter_In in He. apply (keys_above_trans k pl H e (proj1 He)).
Qed.

Lemma pool_pids_sorted pl : sorted pl -> StronglySorted Z.lt (pool_pids pl).
Proof.
  induction pl as [|[k q] r IH]; intros Hs; [constructor|]. cbn in Hs.
  unfold pool_pids. cbn [filter snd]. destruct (nonempty q); cbn [map fst].
  - constructor; [apply IH, (keys_above_sorted k r Hs)|apply (pool_pids_above k r Hs)].
  - apply IH, (keys_above_sorted k r Hs).
Qed.

Lemma pool_pids_in pl : sorted pl -> forall x, In x (pool_pids pl) <-> qof pl x <> [].
Proof.
  induction pl as [|[k q] r IH]; intros Hs x; [cbn; unfold qof; cbn; tauto|]. cbn in Hs.
  pose proof (keys_above_sorted k r Hs) as Hr. specialize (IH Hr x).
  unfold pool_pids in *. cbn [filter snd].
  destruct (Z.eq_dec x k) as [->|Hne].
  - rewrite qof_cons_same. destruct q as [|p q']; cbn [nonempty map fst].
    + split; [|congruence]. intros Hin. apply IH in Hin. rewrite (qof_below k r k Hs ltac:(lia)) in Hin. congruence.
    + split; [discriminate|]. intros _. left. reflexivity.
  - rewrite (qof_cons_other k q r x Hne). destruct (nonempty q); cbn [map fst In]; [|exact IH].
    split; [intros [E|Hin]; [congruence|apply IH, Hin]|intros H; right; apply IH, H].
Qed.

(* a strictly increasing list whose only possible member is x *)
Lemma sorted_singleton l x : StronglySorted Z.lt l -> (forall y, In y l <-> y = x) -> l = [x].
Proof.
  intros Hs Hin. destruct l as [|a l]; [exfalso; apply (proj2 (Hin x) eq_refl)|].
  assert (a = x) by (apply Hin; left; reflexivity). subst a. f_equal.
  destruct l as [|b l]; [reflexivity|]. exfalso.
  assert (b = x) by (apply Hin; right; left; reflexivity). subst b.
  inversion Hs as [|? ? _ Hall]; subst. inversion Hall; subst. lia.
Qed.

Section Drain.
Variable P : dparsers.

(* every pending queue parses to the data D says, and none of them registers a program *)
Theorem drain_data_by_qof pm (D : Z -> list DemuxerData) : forall pl, sorted pl ->
  (forall k, qof pl k <> [] -> parse_data P None pm (qof pl k) = Ok (D k) /\ pm_after pm (D k) = pm) ->
  drain_data P pm pl = Some (flat_map D (pool_pids pl)).
Proof.
  induction pl as [|[k q] r IH]; intros Hs HD; [reflexivity|]. cbn in Hs.
  pose proof (keys_above_sorted k r Hs) as Hr.
  assert (HDr : forall k0, qof r k0 <> [] -> parse_data P None pm (qof r k0) = Ok (D k0) /\ pm_after pm (D k0) = pm).
  { intros k0 Hk0. destruct (Z.eq_dec k0 k) as [->|Hne].
    - rewrite (qof_below k r k Hs ltac:(lia)) in Hk0. congruence.
    - rewrite <- (qof_cons_other k q r k0 Hne) in *. apply HD, Hk0. }
  cbn [drain_data]. unfold pool_pids. cbn [filter snd]. destruct q as [|p0 q']; cbn [nonempty].
  - apply IH; assumption.
  - specialize (HD k). rewrite qof_cons_same in HD. destruct (HD ltac:(discriminate)) as [Hp Hpm].
    rewrite Hp, Hpm. cbn [map fst flat_map]. fold (pool_pids r). rewrite (IH Hr HDr). reflexivity.
Qed.

End Drain.
