(* parsePESData on the ISO 13818-1 reference encoding of ANY well-formed PES header - including the parts the
   writer does not produce: previous_PES_packet_CRC, pack_header_field, stuffing bytes - returns every field;
   and what the writer produces for a writable header is that reference encoding. *)
From Coq Require Import ZArith List Lia Bool ZifyBool.
Require Import Base.Bits Base.Iter Base.Wr Gen.Consts Gen.Types Gen.Preds Model.Clock Model.Pes
  Spec.PesSpec Proofs.ClockProofs Proofs.PesProofs Proofs.PesRoundTrip.
Import ListNotations.
Open Scope Z_scope.

Lemma ref_len_all_strip h : ref_header_data_length (strip h) = ref_header_data_length h.
Proof. reflexivity. Qed.

Section All.
Context (h : PESOptionalHeader) (pack : list Z) (st : nat) (W : wf_opt (strip h)) (WA : wf_all h pack st).

Lemma len_all_bounds : 0 <= ref_header_data_length h /\ ref_header_data_length_all h + Z.of_nat st <= 255 /\
  0 <= ref_header_data_length_all h.
Proof.
  pose proof WA as (W0 & C & X & P & B). pose proof (ref_len_range (strip h) W0) as R. rewrite ref_len_all_strip in R.
  unfold ref_header_data_length_all in *. revert B.
  destruct (PESOptionalHeader_HasCRC h), (andb _ _) eqn:E; intros B; try lia.
  - destruct (PESOptionalHeader_HasPackHeaderField h); [|rewrite andb_false_r in E; discriminate].
    destruct P as [EP _]. rewrite EP in *. lia.
  - destruct (PESOptionalHeader_HasPackHeaderField h); [|rewrite andb_false_r in E; discriminate].
    destruct P as [EP _]. rewrite EP in *. lia.
Qed.

(* previous_PES_packet_CRC *)
Definition crc_items : list witem := if PESOptionalHeader_HasCRC h then [WBits 16 (PESOptionalHeader_CRC h)] else [].
Definition crc_len : Z := if PESOptionalHeader_HasCRC h then 2 else 0.
Lemma crc_aligned : aligned crc_items (Z.to_nat crc_len).
Proof. unfold crc_items, crc_len. destruct (PESOptionalHeader_HasCRC h); [split; [reflexivity | items_ok] | apply aligned_nil]. Qed.
Lemma crc_piece bs k : located bs k (bytes_of_items crc_items) ->
  parse_crc (PESOptionalHeader_HasCRC h) (mk_iter bs k) = Ok (PESOptionalHeader_CRC h, mk_iter bs (k + crc_len)).
Proof.
  pose proof crc_aligned as A. revert A. pose proof WA as (_ & C & _).
  unfold parse_crc, crc_items, crc_len. destruct (PESOptionalHeader_HasCRC h); intros A Hl.
  - destruct (aligned_bytes _ _ A) as [Hlen Hbits].
    unfold next_bytes_nocopy. erewrite ibind_ok by (apply (next_bytes_located bs k _ 2); [rewrite Hlen; reflexivity | exact Hl]).
    unfold iret, bitsf. rewrite Hbits. cbn [items_bits flat_map item_bits app]. rewrite field_here by exact C. reflexivity.
  - rewrite C. unfold iret. do 3 f_equal. lia.
Qed.

(* pack_header_field: pack_field_length and the pack header itself, which the parser skips *)
Definition pack_items : list witem :=
  if PESOptionalHeader_HasPackHeaderField h then [wu8 (Z.of_nat (length pack))] ++ [WBytes pack] else [].
Definition pack_len : Z := if PESOptionalHeader_HasPackHeaderField h then 1 + Z.of_nat (length pack) else 0.
Lemma pack_aligned : aligned pack_items (Z.to_nat pack_len).
Proof.
  unfold pack_items, pack_len. pose proof WA as (_ & _ & _ & P & _).
  destruct (PESOptionalHeader_HasPackHeaderField h); [|apply aligned_nil]. destruct P as [_ O].
  replace (Z.to_nat (1 + Z.of_nat (length pack))) with (1 + length pack)%nat by lia.
  apply aligned_app; [apply wu8_aligned | apply wbytes_aligned; exact O].
Qed.
Lemma pack_piece bs k : PESOptionalHeader_HasExtension h = true -> located bs k (bytes_of_items pack_items) ->
  parse_pack_field (PESOptionalHeader_HasPackHeaderField h) (mk_iter bs k) =
  Ok (PESOptionalHeader_PackField h, mk_iter bs (k + pack_len)).
Proof.
  intros HX. pose proof len_all_bounds as (B0 & B1 & B2). unfold ref_header_data_length_all in B1. rewrite HX in B1.
  unfold parse_pack_field, pack_items, pack_len. pose proof WA as (_ & _ & _ & P & _).
  destruct (PESOptionalHeader_HasPackHeaderField h); cbn [andb] in B1; intros Hl.
  - destruct P as [EP O]. rewrite EP in *.
    assert (Hpl : Z.of_nat (length pack) < 255) by (destruct (PESOptionalHeader_HasCRC h); lia).
    apply (located_items bs k _ _ 1 (wu8_aligned _)) in Hl; [|constructor; [exact O|constructor]].
    destruct Hl as [L1 _]. rewrite wu8_bytes, Z.mod_small in L1 by lia.
    erewrite ibind_ok by (apply (next_byte_located bs k _ L1)).
    unfold ibind, iskip, iret. cbn [ibs ioff]. do 3 f_equal. lia.
  - destruct P as [-> _]. unfold iret. do 3 f_equal. lia.
Qed.

(* the extension with its pack header *)
Definition gext_flags : list witem :=
  [WBool (PESOptionalHeader_HasPrivateData h); WBool (PESOptionalHeader_HasPackHeaderField h);
   WBool (PESOptionalHeader_HasProgramPacketSequenceCounter h); WBool (PESOptionalHeader_HasPSTDBuffer h);
   WBits 3 255; WBool (PESOptionalHeader_HasExtension2 h)].
Definition gext_items : list witem :=
  if PESOptionalHeader_HasExtension h
  then gext_flags ++ pd_items h ++ pack_items ++ psc_items h ++ pstd_items h ++ e2_items h else [].
Definition gext_len : Z :=
  if PESOptionalHeader_HasExtension h then 1 + pd_len h + pack_len + psc_len h + pstd_len h + e2_len h else 0.
Definition gext_of : PesExt :=
  mk_PesExt (PESOptionalHeader_HasPrivateData h) (PESOptionalHeader_HasPackHeaderField h)
    (PESOptionalHeader_HasProgramPacketSequenceCounter h)
    (PESOptionalHeader_HasPSTDBuffer h) (PESOptionalHeader_HasExtension2 h)
    (PESOptionalHeader_PrivateData h) (PESOptionalHeader_PackField h)
    (PESOptionalHeader_PacketSequenceCounter h) (PESOptionalHeader_MPEG1OrMPEG2ID h) (PESOptionalHeader_OriginalStuffingLength h)
    (PESOptionalHeader_PSTDBufferScale h) (PESOptionalHeader_PSTDBufferSize h)
    (e2n h) (PESOptionalHeader_Extension2Data h).

Lemma gext_flags_aligned : aligned gext_flags 1.
Proof. split; [reflexivity | items_ok]. Qed.

Lemma pack_len_nonneg : 0 <= pack_len.
Proof. unfold pack_len. destruct (PESOptionalHeader_HasPackHeaderField h); lia. Qed.

Lemma gext_aligned : aligned gext_items (Z.to_nat gext_len).
Proof.
  unfold gext_items, gext_len. destruct (PESOptionalHeader_HasExtension h); [|apply aligned_nil].
  destruct (part_lens_nonneg (strip h)) as (N1 & N2 & N3 & N4). pose proof pack_len_nonneg as N5.
  change (pd_len (strip h)) with (pd_len h) in N1. change (psc_len (strip h)) with (psc_len h) in N2.
  change (pstd_len (strip h)) with (pstd_len h) in N3. change (e2_len (strip h)) with (e2_len h) in N4.
  replace (Z.to_nat (1 + pd_len h + pack_len + psc_len h + pstd_len h + e2_len h))
    with (1 + (Z.to_nat (pd_len h) + (Z.to_nat pack_len + (Z.to_nat (psc_len h) + (Z.to_nat (pstd_len h) + Z.to_nat (e2_len h))))))%nat by lia.
  repeat apply aligned_app.
  - apply gext_flags_aligned.
  - apply (pd_aligned (strip h) W).
  - apply pack_aligned.
  - apply (psc_aligned (strip h)).
  - apply (pstd_aligned (strip h)).
  - apply (e2_aligned (strip h) W).
Qed.

Lemma gext_piece bs k : located bs k (bytes_of_items gext_items) ->
  parse_pes_extension (PESOptionalHeader_HasExtension h) (mk_iter bs k) = Ok (gext_of, mk_iter bs (k + gext_len)).
Proof.
  unfold gext_items, gext_len, parse_pes_extension.
  pose proof (wf_ext (strip h) W) as X. cbn [strip PESOptionalHeader_HasExtension PESOptionalHeader_HasPrivateData
    PESOptionalHeader_HasProgramPacketSequenceCounter PESOptionalHeader_HasPSTDBuffer PESOptionalHeader_HasExtension2] in X.
  pose proof WA as (_ & _ & XP & PK & _).
  destruct (PESOptionalHeader_HasExtension h) eqn:HX; intros Hl.
  - destruct (part_lens_nonneg (strip h)) as (N1 & N2 & N3 & N4). pose proof pack_len_nonneg as N5.
    change (pd_len (strip h)) with (pd_len h) in N1. change (psc_len (strip h)) with (psc_len h) in N2.
    change (pstd_len (strip h)) with (pstd_len h) in N3. change (e2_len (strip h)) with (e2_len h) in N4.
    pose proof (pd_aligned (strip h) W) as A1. pose proof pack_aligned as A2. pose proof (psc_aligned (strip h)) as A3.
    pose proof (pstd_aligned (strip h)) as A4. pose proof (e2_aligned (strip h) W) as A5.
    change (pd_items (strip h)) with (pd_items h) in A1. change (psc_items (strip h)) with (psc_items h) in A3.
    change (pstd_items (strip h)) with (pstd_items h) in A4. change (e2_items (strip h)) with (e2_items h) in A5.
    change (pd_len (strip h)) with (pd_len h) in A1. change (psc_len (strip h)) with (psc_len h) in A3.
    change (pstd_len (strip h)) with (pstd_len h) in A4. change (e2_len (strip h)) with (e2_len h) in A5.
    apply (located_items bs k _ _ 1 gext_flags_aligned) in Hl;
      [|repeat apply items_bytes_ok_app; [apply A1|apply A2|apply A3|apply A4|apply A5]].
    destruct Hl as [L0 Hl].
    apply (located_items bs _ _ _ _ A1) in Hl; [|repeat apply items_bytes_ok_app; [apply A2|apply A3|apply A4|apply A5]].
    destruct Hl as [L1 Hl].
    apply (located_items bs _ _ _ _ A2) in Hl; [|repeat apply items_bytes_ok_app; [apply A3|apply A4|apply A5]].
    destruct Hl as [L2 Hl].
    apply (located_items bs _ _ _ _ A3) in Hl; [|repeat apply items_bytes_ok_app; [apply A4|apply A5]].
    destruct Hl as [L3 Hl].
    apply (located_items bs _ _ _ _ A4) in Hl; [|apply A5].
    destruct Hl as [L4 L5].
    rewrite !Z2Nat.id in * by lia.
    destruct (aligned_one _ gext_flags_aligned) as (b & Eb & Hbits). rewrite Eb in L0.
    erewrite ibind_ok by (apply (next_byte_located bs k b L0)).
    rewrite !bitb_one, Hbits. unfold gext_flags. cbn [items_bits flat_map item_bits app].
    fld.
    erewrite ibind_ok by (apply (pd_piece (strip h) W bs _ L1)).
    erewrite ibind_ok by (apply (pack_piece bs _ HX L2)).
    erewrite ibind_ok by (apply (psc_piece (strip h) W bs _ L3)). cbv beta iota.
    erewrite ibind_ok by (apply (pstd_piece (strip h) W bs _ L4)). cbv beta iota.
    erewrite ibind_ok by (apply (e2_piece (strip h) W bs _ L5)). cbv beta iota.
    unfold iret, gext_of. cbn [strip PESOptionalHeader_PrivateData PESOptionalHeader_PacketSequenceCounter
      PESOptionalHeader_MPEG1OrMPEG2ID PESOptionalHeader_OriginalStuffingLength PESOptionalHeader_PSTDBufferScale
      PESOptionalHeader_PSTDBufferSize PESOptionalHeader_Extension2Data].
    do 3 f_equal. change (pd_len (strip h)) with (pd_len h). change (psc_len (strip h)) with (psc_len h).
    change (pstd_len (strip h)) with (pstd_len h). change (e2_len (strip h)) with (e2_len h). lia.
  - destruct (X eq_refl) as (F1 & F2 & F3 & F4). rewrite (XP eq_refl) in PK. destruct PK as [PK1 PK2].
    pose proof (wf_pd (strip h) W) as P1. pose proof (wf_psc (strip h) W) as P2.
    pose proof (wf_pstd (strip h) W) as P3. pose proof (wf_e2 (strip h) W) as P4.
    cbn [strip PESOptionalHeader_HasPrivateData PESOptionalHeader_PrivateData
      PESOptionalHeader_HasProgramPacketSequenceCounter PESOptionalHeader_PacketSequenceCounter
      PESOptionalHeader_MPEG1OrMPEG2ID PESOptionalHeader_OriginalStuffingLength PESOptionalHeader_HasPSTDBuffer
      PESOptionalHeader_PSTDBufferScale PESOptionalHeader_PSTDBufferSize PESOptionalHeader_HasExtension2
      PESOptionalHeader_Extension2Data] in P1, P2, P3, P4.
    unfold gext_of, e2n. rewrite (XP eq_refl). rewrite F1 in *. rewrite F2 in *. rewrite F3 in *. rewrite F4 in *.
    destruct P2 as (-> & -> & ->). destruct P3 as (-> & ->). rewrite P1, P4, PK1.
    unfold iret, zero_PesExt. cbn [length Z.of_nat]. do 3 f_equal. lia.
Qed.

End All.

(* ---------------- the optional header with every part ---------------- *)

Lemma repeat_aligned n : aligned (repeat (wu8 255) n) n.
Proof.
  induction n as [|n IH]; [apply aligned_nil|].
  change (repeat (wu8 255) (S n)) with ([wu8 255] ++ repeat (wu8 255) n).
  apply (aligned_app _ _ 1 n); [apply wu8_aligned | exact IH].
Qed.

Section All2.
Context (h : PESOptionalHeader) (pack : list Z) (st : nat) (W : wf_opt (strip h)) (WA : wf_all h pack st).

Definition gfixed1 : list witem :=
  [WBits 2 (PESOptionalHeader_PTSDTSIndicator h); WBool (PESOptionalHeader_HasESCR h); WBool (PESOptionalHeader_HasESRate h);
   WBool (PESOptionalHeader_HasDSMTrickMode h); WBool (PESOptionalHeader_HasAdditionalCopyInfo h);
   WBool (PESOptionalHeader_HasCRC h); WBool (PESOptionalHeader_HasExtension h)].
Definition hdl : Z := ref_header_data_length_all h + Z.of_nat st.

(* the reference encoding in the writer's vocabulary *)
Definition gen_items : list witem :=
  fixed0 h ++ gfixed1 ++ [wu8 hdl] ++ ts_items h ++ escr_items h ++ fst (enc_es_rate h) ++ dsm_items h ++
  fst (enc_aci h) ++ crc_items h ++ gext_items h pack ++ repeat (wu8 255) st.
Definition gen_len : Z :=
  3 + ts_len h + escr_len h + snd (enc_es_rate h) + dsm_len h + snd (enc_aci h) + crc_len h + gext_len h pack.

Lemma gfixed1_aligned : aligned gfixed1 1. Proof. split; [reflexivity | items_ok]. Qed.

Lemma gen_lens_nonneg : 0 <= ts_len h /\ 0 <= escr_len h /\ 0 <= snd (enc_es_rate h) /\ 0 <= dsm_len h /\
  0 <= snd (enc_aci h) /\ 0 <= crc_len h /\ 0 <= gext_len h pack.
Proof.
  destruct (part_lens_nonneg' (strip h) W) as (N1 & N2 & N3 & N4 & N5 & _).
  destruct (part_lens_nonneg (strip h)) as (M1 & M2 & M3 & M4). pose proof (pack_len_nonneg h pack) as M5.
  repeat split; try assumption.
  - unfold crc_len. destruct (PESOptionalHeader_HasCRC h); lia.
  - unfold gext_len. destruct (PESOptionalHeader_HasExtension h); [|lia].
    change (pd_len (strip h)) with (pd_len h) in M1. change (psc_len (strip h)) with (psc_len h) in M2.
    change (pstd_len (strip h)) with (pstd_len h) in M3. change (e2_len (strip h)) with (e2_len h) in M4. lia.
Qed.

Lemma gen_len_eq : gen_len = 3 + ref_header_data_length_all h.
Proof.
  unfold gen_len, ref_header_data_length_all, ref_header_data_length, gext_len, crc_len, pack_len.
  unfold ts_len, escr_len, enc_es_rate, dsm_len, enc_aci, pd_len, psc_len, pstd_len, e2_len, e2n.
  pose proof WA as (_ & _ & _ & P & _).
  destruct (PESOptionalHeader_HasESCR h), (PESOptionalHeader_HasESRate h), (PESOptionalHeader_HasDSMTrickMode h),
    (PESOptionalHeader_HasAdditionalCopyInfo h), (PESOptionalHeader_HasCRC h), (PESOptionalHeader_HasExtension h),
    (PESOptionalHeader_HasPackHeaderField h); cbn [fst snd andb]; try destruct P as [-> _]; lia.
Qed.

Lemma parse_gen_located bs k : located bs k (bytes_of_items gen_items) ->
  parse_pes_optional_header (mk_iter bs k) =
  Ok ((observed_all h st, k + 3 + hdl), mk_iter bs (k + gen_len)).
Proof.
  intros Hl.
  destruct gen_lens_nonneg as (N1 & N2 & N3 & N4 & N5 & N6 & N7).
  pose proof (ts_aligned (strip h) W) as A1. pose proof (escr_aligned (strip h)) as A2. pose proof (es_rate_aligned (strip h)) as A3.
  pose proof (dsm_aligned (strip h)) as A4. pose proof (aci_aligned (strip h)) as A5. pose proof (crc_aligned h) as A6.
  pose proof (gext_aligned h pack st W WA) as A7. pose proof (repeat_aligned st) as A8.
  change (ts_items (strip h)) with (ts_items h) in A1. change (ts_len (strip h)) with (ts_len h) in A1.
  change (escr_items (strip h)) with (escr_items h) in A2. change (escr_len (strip h)) with (escr_len h) in A2.
  change (enc_es_rate (strip h)) with (enc_es_rate h) in A3.
  change (dsm_items (strip h)) with (dsm_items h) in A4. change (dsm_len (strip h)) with (dsm_len h) in A4.
  change (enc_aci (strip h)) with (enc_aci h) in A5.
  pose proof gfixed1_aligned as B1. pose proof (wu8_aligned hdl) as B2.
  unfold gen_items in Hl.
  apply (located_items bs k _ _ 1 (fixed0_aligned h)) in Hl;
    [|repeat apply items_bytes_ok_app; [apply B1|apply B2|apply A1|apply A2|apply A3|apply A4|apply A5|apply A6|apply A7|apply A8]].
  destruct Hl as [L0 Hl].
  apply (located_items bs _ _ _ 1 B1) in Hl;
    [|repeat apply items_bytes_ok_app; [apply B2|apply A1|apply A2|apply A3|apply A4|apply A5|apply A6|apply A7|apply A8]].
  destruct Hl as [L1 Hl].
  apply (located_items bs _ _ _ 1 B2) in Hl;
    [|repeat apply items_bytes_ok_app; [apply A1|apply A2|apply A3|apply A4|apply A5|apply A6|apply A7|apply A8]].
  destruct Hl as [L2 Hl].
  apply (located_items bs _ _ _ _ A1) in Hl; [|repeat apply items_bytes_ok_app; [apply A2|apply A3|apply A4|apply A5|apply A6|apply A7|apply A8]].
  destruct Hl as [P1 Hl].
  apply (located_items bs _ _ _ _ A2) in Hl; [|repeat apply items_bytes_ok_app; [apply A3|apply A4|apply A5|apply A6|apply A7|apply A8]].
  destruct Hl as [P2 Hl].
  apply (located_items bs _ _ _ _ A3) in Hl; [|repeat apply items_bytes_ok_app; [apply A4|apply A5|apply A6|apply A7|apply A8]].
  destruct Hl as [P3 Hl].
  apply (located_items bs _ _ _ _ A4) in Hl; [|repeat apply items_bytes_ok_app; [apply A5|apply A6|apply A7|apply A8]].
  destruct Hl as [P4 Hl].
  apply (located_items bs _ _ _ _ A5) in Hl; [|repeat apply items_bytes_ok_app; [apply A6|apply A7|apply A8]].
  destruct Hl as [P5 Hl].
  apply (located_items bs _ _ _ _ A6) in Hl; [|repeat apply items_bytes_ok_app; [apply A7|apply A8]].
  destruct Hl as [P6 Hl].
  apply (located_items bs _ _ _ _ A7) in Hl; [|apply A8].
  destruct Hl as [P7 _].
  rewrite !Z2Nat.id in * by lia.
  destruct (aligned_one _ (fixed0_aligned h)) as (b0 & E0 & H0). rewrite E0 in L0.
  destruct (aligned_one _ B1) as (b1 & E1 & H1). rewrite E1 in L1.
  rewrite wu8_bytes in L2.
  destruct (len_all_bounds h pack st WA) as (R0 & R1 & R2). rewrite Z.mod_small in L2 by (unfold hdl; lia).
  unfold parse_pes_optional_header.
  erewrite ibind_ok by (apply (next_byte_located bs k b0 L0)).
  erewrite ibind_ok by (apply (next_byte_located bs _ b1 L1)).
  erewrite ibind_ok by (apply (next_byte_located bs _ _ L2)).
  erewrite ibind_ok by reflexivity. cbn [ioff]. cbv zeta.
  rewrite !bitb_one, !bitsf_one, H0, H1. unfold fixed0, gfixed1. cbn [items_bits flat_map item_bits app].
  pose proof (wf_sc (strip h) W) as S1. pose proof (wf_ind (strip h) W) as S2.
  cbn [strip PESOptionalHeader_ScramblingControl PESOptionalHeader_PTSDTSIndicator] in S1, S2.
  fld. change (Z.of_nat 1) with 1 in *.
  erewrite ibind_ok by (apply (ts_piece (strip h) W bs _ P1)). cbv beta iota.
  erewrite ibind_ok by (apply (escr_piece (strip h) W bs _ P2)).
  erewrite ibind_ok by (apply (es_rate_piece (strip h) W bs _ P3)).
  erewrite ibind_ok by (apply (dsm_piece (strip h) W bs _ P4)).
  erewrite ibind_ok by (apply (aci_piece (strip h) W bs _ P5)).
  erewrite ibind_ok by (apply (crc_piece h pack st WA bs _ P6)).
  erewrite ibind_ok by (apply (gext_piece h pack st W WA bs _ P7)).
  unfold iret. f_equal. f_equal; [|unfold gen_len; f_equal; lia].
  f_equal; [|lia].
  unfold observed_all, gext_of, hdl. cbn [pe_hasPD pe_hasPack pe_hasPSC pe_hasPSTD pe_hasExt2 pe_pd pe_pack pe_psc pe_mpeg pe_osl
    pe_scale pe_size pe_e2len pe_e2data].
  pose proof (wf_of (strip h) W) as OF. cbn [strip PESOptionalHeader_HasOptionalFields] in OF. rewrite OF.
  reflexivity.
Qed.

End All2.

(* ---------------- the writer's vocabulary against the reference bit layout ---------------- *)

Lemma flag_bit (b : bool) : bits_of 1 (if b then 1 else 0) = [b].
Proof. destruct b; reflexivity. Qed.
Lemma fbits_app a b : fbits (a ++ b) = fbits a ++ fbits b.
Proof. unfold fbits. apply flat_map_app. Qed.
Lemma fbits_bytes bs : fbits (byte_fields bs) = bits_of_bytes bs.
Proof. unfold fbits, byte_fields, bits_of_bytes. rewrite flat_map_concat_map, map_map, <- flat_map_concat_map. reflexivity. Qed.
Lemma fbits_repeat n : fbits (repeat (8%nat, 255) n) = items_bits (repeat (wu8 255) n).
Proof. induction n as [|n IH]; [reflexivity|]. cbn [repeat]. unfold fbits, items_bits in *. cbn [flat_map]. rewrite IH. reflexivity. Qed.
Lemma bits_of_mod w v : bits_of w (v mod 2 ^ Z.of_nat w) = bits_of w v.
Proof.
  assert (G : forall k, (k <= w)%nat -> bits_of k (v mod 2 ^ Z.of_nat w) = bits_of k v).
  { induction k as [|k IH]; intros Hk; [reflexivity|]. cbn [bits_of]. f_equal; [|apply IH; lia].
    apply Z.mod_pow2_bits_low. lia. }
  apply G. lia.
Qed.

Ltac bits_norm :=
  unfold fbits, items_bits, flag, marker; cbn [flat_map item_bits fst snd app];
  rewrite ?flag_bit; change (bits_of 1 1) with [true]; cbn [app].

Section Bits.
Context (h : PESOptionalHeader) (pack : list Z) (st : nat) (W : wf_opt (strip h)) (WA : wf_all h pack st).

Lemma ts_bits : items_bits (ts_items h) =
  fbits (if PESOptionalHeader_PTSDTSIndicator h =? 2 then ref_ts 2 (base_of (PESOptionalHeader_PTS h))
         else if PESOptionalHeader_PTSDTSIndicator h =? 3
              then ref_ts 3 (base_of (PESOptionalHeader_PTS h)) ++ ref_ts 1 (base_of (PESOptionalHeader_DTS h))
              else []).
Proof.
  unfold ts_items. destruct (_ =? 2); [|destruct (_ =? 3); [|reflexivity]].
  - unfold enc_pts_or_dts, ref_ts. destruct (PESOptionalHeader_PTS h) as [c|]; cbn [odflt base_of zero_ClockReference ClockReference_Base];
      bits_norm; rewrite !Z.shiftr_div_pow2 by lia; reflexivity.
  - rewrite items_bits_app, fbits_app. unfold enc_pts_or_dts, ref_ts.
    destruct (PESOptionalHeader_PTS h) as [c|], (PESOptionalHeader_DTS h) as [d|];
      cbn [odflt base_of zero_ClockReference ClockReference_Base];
      bits_norm; rewrite !Z.shiftr_div_pow2 by lia; reflexivity.
Qed.

Lemma escr_bits : items_bits (escr_items h) =
  fbits (if PESOptionalHeader_HasESCR h
         then ref_escr (base_of (PESOptionalHeader_ESCR h)) (ext_of_cr (PESOptionalHeader_ESCR h)) else []).
Proof.
  unfold escr_items. destruct (PESOptionalHeader_HasESCR h); [|reflexivity].
  unfold enc_escr, ref_escr. destruct (PESOptionalHeader_ESCR h) as [c|];
    cbn [odflt base_of ext_of_cr zero_ClockReference ClockReference_Base ClockReference_Extension];
    bits_norm; rewrite !Z.shiftr_div_pow2 by lia; reflexivity.
Qed.

Lemma es_rate_bits : items_bits (fst (enc_es_rate h)) =
  fbits (if PESOptionalHeader_HasESRate h then [marker; (22%nat, PESOptionalHeader_ESRate h); marker] else []).
Proof. unfold enc_es_rate. destruct (PESOptionalHeader_HasESRate h); [|reflexivity]. cbn [fst]. bits_norm. reflexivity. Qed.

Lemma aci_bits : items_bits (fst (enc_aci h)) =
  fbits (if PESOptionalHeader_HasAdditionalCopyInfo h then [marker; (7%nat, PESOptionalHeader_AdditionalCopyInfo h)] else []).
Proof. unfold enc_aci. destruct (PESOptionalHeader_HasAdditionalCopyInfo h); [|reflexivity]. cbn [fst]. bits_norm. reflexivity. Qed.

Lemma crc_bits : items_bits (crc_items h) =
  fbits (if PESOptionalHeader_HasCRC h then [(16%nat, PESOptionalHeader_CRC h)] else []).
Proof. unfold crc_items. destruct (PESOptionalHeader_HasCRC h); reflexivity. Qed.

Lemma dsm_mode_bits m : wf_dsm m -> items_bits (enc_dsm_trick_mode m) = fbits (ref_dsm m).
Proof.
  unfold wf_dsm, enc_dsm_trick_mode, ref_dsm, C_TrickModeControlFastForward, C_TrickModeControlFastReverse,
    C_TrickModeControlFreezeFrame, C_TrickModeControlSlowMotion, C_TrickModeControlSlowReverse.
  intros [_ Hf].
  destruct (orb _ _).
  - destruct Hf as (_ & Hi & _). bits_norm. do 2 f_equal.
    assert (E : DSMTrickMode_IntraSliceRefresh m = 0 \/ DSMTrickMode_IntraSliceRefresh m = 1) by lia.
    destruct E as [-> | ->]; reflexivity.
  - destruct (_ =? 2); [reflexivity|]. destruct (orb _ _); reflexivity.
Qed.

Lemma dsm_bits : items_bits (dsm_items h) =
  fbits (if PESOptionalHeader_HasDSMTrickMode h
         then match PESOptionalHeader_DSMTrickMode h with Some m => ref_dsm m | None => [] end else []).
Proof.
  unfold dsm_items. pose proof (wf_tm (strip h) W) as P. cbn [strip PESOptionalHeader_HasDSMTrickMode PESOptionalHeader_DSMTrickMode] in P.
  destruct (PESOptionalHeader_HasDSMTrickMode h); [|reflexivity].
  destruct P as (m & -> & Hm). cbn [odflt]. apply dsm_mode_bits. exact Hm.
Qed.

Lemma gext_bits : items_bits (gext_items h pack) =
  fbits (if PESOptionalHeader_HasExtension h then
        [flag (PESOptionalHeader_HasPrivateData h); flag (PESOptionalHeader_HasPackHeaderField h);
         flag (PESOptionalHeader_HasProgramPacketSequenceCounter h); flag (PESOptionalHeader_HasPSTDBuffer h);
         (3%nat, 7); flag (PESOptionalHeader_HasExtension2 h)]
        ++ (if PESOptionalHeader_HasPrivateData h then byte_fields (PESOptionalHeader_PrivateData h) else [])
        ++ (if PESOptionalHeader_HasPackHeaderField h
            then (8%nat, Z.of_nat (length pack)) :: byte_fields pack else [])
        ++ (if PESOptionalHeader_HasProgramPacketSequenceCounter h
            then [marker; (7%nat, PESOptionalHeader_PacketSequenceCounter h); marker;
                  (1%nat, PESOptionalHeader_MPEG1OrMPEG2ID h); (6%nat, PESOptionalHeader_OriginalStuffingLength h)] else [])
        ++ (if PESOptionalHeader_HasPSTDBuffer h
            then [(2%nat, 1); (1%nat, PESOptionalHeader_PSTDBufferScale h); (13%nat, PESOptionalHeader_PSTDBufferSize h)] else [])
        ++ (if PESOptionalHeader_HasExtension2 h
            then marker :: (7%nat, Z.of_nat (length (PESOptionalHeader_Extension2Data h))) ::
                 byte_fields (PESOptionalHeader_Extension2Data h) else [])
      else []).
Proof.
  unfold gext_items. destruct (PESOptionalHeader_HasExtension h); [|reflexivity].
  rewrite !items_bits_app, !fbits_app. f_equal; [|f_equal; [|f_equal; [|f_equal; [|f_equal]]]].
  - unfold gext_flags. bits_norm. reflexivity.
  - change (pd_items h) with (pd_items (strip h)). rewrite (pd_items_eq (strip h) W).
    cbn [strip PESOptionalHeader_HasPrivateData PESOptionalHeader_PrivateData].
    destruct (PESOptionalHeader_HasPrivateData h); [|reflexivity].
    rewrite fbits_bytes. unfold items_bits. cbn [flat_map item_bits]. apply app_nil_r.
  - unfold pack_items. destruct (PESOptionalHeader_HasPackHeaderField h); [|reflexivity].
    change ((8%nat, Z.of_nat (length pack)) :: byte_fields pack) with ([(8%nat, Z.of_nat (length pack))] ++ byte_fields pack).
    rewrite items_bits_app, fbits_app, fbits_bytes. unfold items_bits at 2. cbn [flat_map item_bits]. rewrite app_nil_r. reflexivity.
  - unfold psc_items. destruct (PESOptionalHeader_HasProgramPacketSequenceCounter h); [|reflexivity]. bits_norm. reflexivity.
  - unfold pstd_items. destruct (PESOptionalHeader_HasPSTDBuffer h); reflexivity.
  - unfold e2_items, e2n. pose proof (wf_e2 (strip h) W) as P.
    cbn [strip PESOptionalHeader_HasExtension2 PESOptionalHeader_Extension2Data] in P.
    destruct (PESOptionalHeader_HasExtension2 h); [|reflexivity]. destruct P as [Ln _].
    set (n := Z.of_nat (length (PESOptionalHeader_Extension2Data h))).
    change (marker :: (7%nat, n) :: byte_fields (PESOptionalHeader_Extension2Data h))
      with ([marker; (7%nat, n)] ++ byte_fields (PESOptionalHeader_Extension2Data h)).
    rewrite items_bits_app, fbits_app, fbits_bytes. f_equal.
    + rewrite (Z.mod_small n 256) by (subst n; lia). bits_norm. reflexivity.
    + unfold items_bits. cbn [flat_map item_bits]. apply app_nil_r.
Qed.

Lemma gen_bits : items_bits (gen_items h pack st) = fbits (ref_opt_fields h pack st).
Proof.
  unfold gen_items, ref_opt_fields. cbv zeta.
  rewrite !items_bits_app, !fbits_app.
  rewrite ts_bits, escr_bits, es_rate_bits, dsm_bits, aci_bits, crc_bits, gext_bits, fbits_repeat.
  rewrite !app_assoc. do 8 f_equal.
  unfold fixed0, gfixed1, hdl. bits_norm. reflexivity.
Qed.

End Bits.
