(* parsePESData on the ISO 13818-1 reference encoding of ANY well-formed PES header - including the parts the
   writer does not produce: previous_PES_packet_CRC, pack_header_field, stuffing bytes - returns every field;
   and what the writer produces for a writable header is that reference encoding. *)
From Coq Require Import ZArith List Lia Bool ZifyBool.
Require Import Base.Bits Base.Iter Base.Wr Gen.Consts Gen.Types Gen.Preds Model.Clock Model.Pes
  Spec.PesSpec Proofs.ClockProofs Proofs.PesProofs Proofs.PesRoundTrip.
Import ListNotations.
Open Scope Z_scope.

Lemma ref_len_all_strip h : ref_header_data_length (strip h) = ref_header_data_length h.
Proof. reflexivity. Qed.

Section All.
Context (h : PESOptionalHeader) (pack : list Z) (st : nat) (W : wf_opt (strip h)) (WA : wf_all h pack st).

Lemma len_all_bounds : 0 <= ref_header_data_length h /\ ref_header_data_length_all h + Z.of_nat st <= 255 /\
  0 <= ref_header_data_length_all h.
Proof.
  pose proof WA as (W0 & C & X & P & B). pose proof (ref_len_range (strip h) W0) as R. rewrite ref_len_all_strip in R.
  unfold ref_header_data_length_all in *. revert B.
  destruct (PESOptionalHeader_HasCRC h), (andb _ _) eqn:E; intros B; try lia.
  - destruct (PESOptionalHeader_HasPackHeaderField h); [|rewrite andb_false_r in E; discriminate].
    destruct P as [EP _]. rewrite EP in *. lia.
  - destruct (PESOptionalHeader_HasPackHeaderField h); [|rewrite andb_false_r in E; discriminate].
    destruct P as [EP _]. rewrite EP in *. lia.
Qed.

(* previous_PES_packet_CRC *)
Definition crc_items : list witem := if PESOptionalHeader_HasCRC h then [WBits 16 (PESOptionalHeader_CRC h)] else [].
Definition crc_len : Z := if PESOptionalHeader_HasCRC h then 2 else 0.
Lemma crc_aligned : aligned crc_items (Z.to_nat crc_len).
Proof. unfold crc_items, crc_len. destruct (PESOptionalHeader_HasCRC h); [split; [reflexivity | items_ok] | apply aligned_nil]. Qed.
Lemma crc_piece bs k : located bs k (bytes_of_items crc_items) ->
  parse_crc (PESOptionalHeader_HasCRC h) (mk_iter bs k) = Ok (PESOptionalHeader_CRC h, mk_iter bs (k + crc_len)).
Proof.
  pose proof crc_aligned as A. revert A. pose proof WA as (_ & C & _).
  unfold parse_crc, crc_items, crc_len. destruct (PESOptionalHeader_HasCRC h); intros A Hl.
  - destruct (aligned_bytes _ _ A) as [Hlen Hbits].
    unfold next_bytes_nocopy. erewrite ibind_ok by (apply (next_bytes_located bs k _ 2); [rewrite Hlen; reflexivity | exact Hl]).
    unfold iret, bitsf. rewrite Hbits. cbn [items_bits flat_map item_bits app]. rewrite field_here by exact C. reflexivity.
  - rewrite C. unfold iret. do 3 f_equal. lia.
Qed.

(* pack_header_field: pack_field_length and the pack header itself, which the parser skips *)
Definition pack_items : list witem :=
  if PESOptionalHeader_HasPackHeaderField h then [wu8 (Z.of_nat (length pack))] ++ [WBytes pack] else [].
Definition pack_len : Z := if PESOptionalHeader_HasPackHeaderField h then 1 + Z.of_nat (length pack) else 0.
Lemma pack_aligned : aligned pack_items (Z.to_nat pack_len).
Proof.
  unfold pack_items, pack_len. pose proof WA as (_ & _ & _ & P & _).
  destruct (PESOptionalHeader_HasPackHeaderField h); [|apply aligned_nil]. destruct P as [_ O].
  replace (Z.to_nat (1 + Z.of_nat (length pack))) with (1 + length pack)%nat by lia.
  apply aligned_app; [apply wu8_aligned | apply wbytes_aligned; exact O].
Qed.
Lemma pack_piece bs k : PESOptionalHeader_HasExtension h = true -> located bs k (bytes_of_items pack_items) ->
  parse_pack_field (PESOptionalHeader_HasPackHeaderField h) (mk_iter bs k) =
  Ok (PESOptionalHeader_PackField h, mk_iter bs (k + pack_len)).
Proof.
  intros HX. pose proof len_all_bounds as (B0 & B1 & B2). unfold ref_header_data_length_all in B1. rewrite HX in B1.
  unfold parse_pack_field, pack_items, pack_len. pose proof WA as (_ & _ & _ & P & _).
  destruct (PESOptionalHeader_HasPackHeaderField h); cbn [andb] in B1; intros Hl.
  - destruct P as [EP O]. rewrite EP in *.
    assert (Hpl : Z.of_nat (length pack) < 255) by (destruct (PESOptionalHeader_HasCRC h); lia).
    apply (located_items bs k _ _ 1 (wu8_aligned _)) in Hl; [|constructor; [exact O|constructor]].
    destruct Hl as [L1 _]. rewrite wu8_bytes, Z.mod_small in L1 by lia.
    erewrite ibind_ok by (apply (next_byte_located bs k _ L1)).
    unfold ibind, iskip, iret. cbn [ibs ioff]. do 3 f_equal. lia.
  - destruct P as [-> _]. unfold iret. do 3 f_equal. lia.
Qed.

(* the extension with its pack header *)
Definition gext_flags : list witem :=
  [WBool (PESOptionalHeader_HasPrivateData h); WBool (PESOptionalHeader_HasPackHeaderField h);
   WBool (PESOptionalHeader_HasProgramPacketSequenceCounter h); WBool (PESOptionalHeader_HasPSTDBuffer h);
   WBits 3 255; WBool (PESOptionalHeader_HasExtension2 h)].
Definition gext_items : list witem :=
  if PESOptionalHeader_HasExtension h
  then gext_flags ++ pd_items h ++ pack_items ++ psc_items h ++ pstd_items h ++ e2_items h else [].
Definition gext_len : Z :=
  if PESOptionalHeader_HasExtension h then 1 + pd_len h + pack_len + psc_len h + pstd_len h + e2_len h else 0.
Definition gext_of : PesExt :=
  mk_PesExt (PESOptionalHeader_HasPrivateData h) (PESOptionalHeader_HasPackHeaderField h)
    (PESOptionalHeader_HasProgramPacketSequenceCounter h)
    (PESOptionalHeader_HasPSTDBuffer h) (PESOptionalHeader_HasExtension2 h)
    (PESOptionalHeader_PrivateData h) (PESOptionalHeader_PackField h)
    (PESOptionalHeader_PacketSequenceCounter h) (PESOptionalHeader_MPEG1OrMPEG2ID h) (PESOptionalHeader_OriginalStuffingLength h)
    (PESOptionalHeader_PSTDBufferScale h) (PESOptionalHeader_PSTDBufferSize h)
    (e2n h) (PESOptionalHeader_Extension2Data h).

Lemma gext_flags_aligned : aligned gext_flags 1.
Proof. split; [reflexivity | items_ok]. Qed.

Lemma pack_len_nonneg : 0 <= pack_len.
Proof. unfold pack_len. destruct (PESOptionalHeader_HasPackHeaderField h); lia. Qed.

Lemma gext_aligned : aligned gext_items (Z.to_nat gext_len).
Proof.
  unfold gext_items, gext_len. destruct (PESOptionalHeader_HasExtension h); [|apply aligned_nil].
  destruct (part_lens_nonneg (strip h)) as (N1 & N2 & N3 & N4). pose proof pack_len_nonneg as N5.
  change (pd_len (strip h)) with (pd_len h) in N1. change (psc_len (strip h)) with (psc_len h) in N2.
  change (pstd_len (strip h)) with (pstd_len h) in N3. change (e2_len (strip h)) with (e2_len h) in N4.
  replace (Z.to_nat (1 + pd_len h + pack_len + psc_len h + pstd_len h + e2_len h))
    with (1 + (Z.to_nat (pd_len h) + (Z.to_nat pack_len + (Z.to_nat (psc_len h) + (Z.to_nat (pstd_len h) + Z.to_nat (e2_len h))))))%nat by lia.
  repeat apply aligned_app.
  - apply gext_flags_aligned.
  - apply (pd_aligned (strip h) W).
  - apply pack_aligned.
  - apply (psc_aligned (strip h)).
  - apply (pstd_aligned (strip h)).
  - apply (e2_aligned (strip h) W).
Qed.

Lemma gext_piece bs k : located bs k (bytes_of_items gext_items) ->
  parse_pes_extension (PESOptionalHeader_HasExtension h) (mk_iter bs k) = Ok (gext_of, mk_iter bs (k + gext_len)).
Proof.
  unfold gext_items, gext_len, parse_pes_extension.
  pose proof (wf_ext (strip h) W) as X. cbn [strip PESOptionalHeader_HasExtension PESOptionalHeader_HasPrivateData
    PESOptionalHeader_HasProgramPacketSequenceCounter PESOptionalHeader_HasPSTDBuffer PESOptionalHeader_HasExtension2] in X.
  pose proof WA as (_ & _ & XP & PK & _).
  destruct (PESOptionalHeader_HasExtension h) eqn:HX; intros Hl.
  - destruct (part_lens_nonneg (strip h)) as (N1 & N2 & N3 & N4). pose proof pack_len_nonneg as N5.
    change (pd_len (strip h)) with (pd_len h) in N1. change (psc_len (strip h)) with (psc_len h) in N2.
    change (pstd_len (strip h)) with (pstd_len h) in N3. change (e2_len (strip h)) with (e2_len h) in N4.
    pose proof (pd_aligned (strip h) W) as A1. pose proof pack_aligned as A2. pose proof (psc_aligned (strip h)) as A3.
    pose proof (pstd_aligned (strip h)) as A4. pose proof (e2_aligned (strip h) W) as A5.
    change (pd_items (strip h)) with (pd_items h) in A1. change (psc_items (strip h)) with (psc_items h) in A3.
    change (pstd_items (strip h)) with (pstd_items h) in A4. change (e2_items (strip h)) with (e2_items h) in A5.
    change (pd_len (strip h)) with (pd_len h) in A1. change (psc_len (strip h)) with (psc_len h) in A3.
    change (pstd_len (strip h)) with (pstd_len h) in A4. change (e2_len (strip h)) with (e2_len h) in A5.
    apply (located_items bs k _ _ 1 gext_flags_aligned) in Hl;
      [|repeat apply items_bytes_ok_app; [apply A1|apply A2|apply A3|apply A4|apply A5]].
    destruct Hl as [L0 Hl].
    apply (located_items bs _ _ _ _ A1) in Hl; [|repeat apply items_bytes_ok_app; [apply A2|apply A3|apply A4|apply A5]].
    destruct Hl as [L1 Hl].
    apply (located_items bs _ _ _ _ A2) in Hl; [|repeat apply items_bytes_ok_app; [apply A3|apply A4|apply A5]].
    destruct Hl as [L2 Hl].
    apply (located_items bs _ _ _ _ A3) in Hl; [|repeat apply items_bytes_ok_app; [apply A4|apply A5]].
    destruct Hl as [L3 Hl].
    apply (located_items bs _ _ _ _ A4) in Hl; [|apply A5].
    destruct Hl as [L4 L5].
    rewrite !Z2Nat.id in * by lia.
    destruct (aligned_one _ gext_flags_aligned) as (b & Eb & Hbits). rewrite Eb in L0.
    erewrite ibind_ok by (apply (next_byte_located bs k b L0)).
    rewrite !bitb_one, Hbits. unfold gext_flags. cbn [items_bits flat_map item_bits app].
    fld.
    erewrite ibind_ok by (apply (pd_piece (strip h) W bs _ L1)).
    erewrite ibind_ok by (apply (pack_piece bs _ HX L2)).
    erewrite ibind_ok by (apply (psc_piece (strip h) W bs _ L3)). cbv beta iota.
    erewrite ibind_ok by (apply (pstd_piece (strip h) W bs _ L4)). cbv beta iota.
    erewrite ibind_ok by (apply (e2_piece (strip h) W bs _ L5)). cbv beta iota.
    unfold iret, gext_of. cbn [strip PESOptionalHeader_PrivateData PESOptionalHeader_PacketSequenceCounter
      PESOptionalHeader_MPEG1OrMPEG2ID PESOptionalHeader_OriginalStuffingLength PESOptionalHeader_PSTDBufferScale
      PESOptionalHeader_PSTDBufferSize PESOptionalHeader_Extension2Data].
    do 3 f_equal. change (pd_len (strip h)) with (pd_len h). change (psc_len (strip h)) with (psc_len h).
    change (pstd_len (strip h)) with (pstd_len h). change (e2_len (strip h)) with (e2_len h). lia.
  - destruct (X eq_refl) as (F1 & F2 & F3 & F4). rewrite (XP eq_refl) in PK. destruct PK as [PK1 PK2].
    pose proof (wf_pd (strip h) W) as P1. pose proof (wf_psc (strip h) W) as P2.
    pose proof (wf_pstd (strip h) W) as P3. pose proof (wf_e2 (strip h) W) as P4.
    cbn [strip PESOptionalHeader_HasPrivateData PESOptionalHeader_PrivateData
      PESOptionalHeader_HasProgramPacketSequenceCounter PESOptionalHeader_PacketSequenceCounter
      PESOptionalHeader_MPEG1OrMPEG2ID PESOptionalHeader_OriginalStuffingLength PESOptionalHeader_HasPSTDBuffer
      PESOptionalHeader_PSTDBufferScale PESOptionalHeader_PSTDBufferSize PESOptionalHeader_HasExtension2
      PESOptionalHeader_Extension2Data] in P1, P2, P3, P4.
    unfold gext_of, e2n. rewrite (XP eq_refl). rewrite F1 in *. rewrite F2 in *. rewrite F3 in *. rewrite F4 in *.
    destruct P2 as (-> & -> & ->). destruct P3 as (-> & ->). rewrite P1, P4, PK1.
    unfold iret, zero_PesExt. cbn [length Z.of_nat]. do 3 f_equal. lia.
Qed.

End All.

(* ---------------- the optional header with every part ---------------- *)

Lemma repeat_aligned n : aligned (repeat (wu8 255) n) n.
Proof.
  induction n as [|n IH]; [apply aligned_nil|].
  change (repeat (wu8 255) (S n)) with ([wu8 255] ++ repeat (wu8 255) n).
  apply (aligned_app _ _ 1 n); [apply wu8_aligned | exact IH].
Qed.

Section All2.
Context (h : PESOptionalHeader) (pack : list Z) (st : nat) (W : wf_opt (strip h)) (WA : wf_all h pack st).

Definition gfixed1 : list witem :=
  [WBits 2 (PESOptionalHeader_PTSDTSIndicator h); WBool (PESOptionalHeader_HasESCR h); WBool (PESOptionalHeader_HasESRate h);
   WBool (PESOptionalHeader_HasDSMTrickMode h); WBool (PESOptionalHeader_HasAdditionalCopyInfo h);
   WBool (PESOptionalHeader_HasCRC h); WBool (PESOptionalHeader_HasExtension h)].
Definition hdl : Z := ref_header_data_length_all h + Z.of_nat st.

(* the reference encoding in the writer's vocabulary *)
Definition gen_items : list witem :=
  fixed0 h ++ gfixed1 ++ [wu8 hdl] ++ ts_items h ++ escr_items h ++ fst (enc_es_rate h) ++ dsm_items h ++
  fst (enc_aci h) ++ crc_items h ++ gext_items h pack ++ repeat (wu8 255) st.
Definition gen_len : Z :=
  3 + ts_len h + escr_len h + snd (enc_es_rate h) + dsm_len h + snd (enc_aci h) + crc_len h + gext_len h pack.

Lemma gfixed1_aligned : aligned gfixed1 1. Proof. split; [reflexivity | items_ok]. Qed.

Lemma gen_lens_nonneg : 0 <= ts_len h /\ 0 <= escr_len h /\ 0 <= snd (enc_es_rate h) /\ 0 <= dsm_len h /\
  0 <= snd (enc_aci h) /\ 0 <= crc_len h /\ 0 <= gext_len h pack.
Proof.
  destruct (part_lens_nonneg' (strip h) W) as (N1 & N2 & N3 & N4 & N5 & _).
  destruct (part_lens_nonneg (strip h)) as (M1 & M2 & M3 & M4). pose proof (pack_len_nonneg h pack) as M5.
  repeat split; try assumption.
  - unfold crc_len. destruct (PESOptionalHeader_HasCRC h); lia.
  - unfold gext_len. destruct (PESOptionalHeader_HasExtension h); [|lia].
    change (pd_len (strip h)) with (pd_len h) in M1. change (psc_len (strip h)) with (psc_len h) in M2.
    change (pstd_len (strip h)) with (pstd_len h) in M3. change (e2_len (strip h)) with (e2_len h) in M4. lia.
Qed.

Lemma gen_len_eq : gen_len = 3 + ref_header_data_length_all h.
Proof.
  unfold gen_len, ref_header_data_length_all, ref_header_data_length, gext_len, crc_len, pack_len.
  unfold ts_len, escr_len, enc_es_rate, dsm_len, enc_aci, pd_len, psc_len, pstd_len, e2_len, e2n.
  pose proof WA as (_ & _ & _ & P & _).
  destruct (PESOptionalHeader_HasESCR h), (PESOptionalHeader_HasESRate h), (PESOptionalHeader_HasDSMTrickMode h),
    (PESOptionalHeader_HasAdditionalCopyInfo h), (PESOptionalHeader_HasCRC h), (PESOptionalHeader_HasExtension h),
    (PESOptionalHeader_HasPackHeaderField h); cbn [fst snd andb]; try destruct P as [-> _]; lia.
Qed.

Lemma parse_gen_located bs k : located bs k (bytes_of_items gen_items) ->
  parse_pes_optional_header (mk_iter bs k) =
  Ok ((observed_all h st, k + 3 + hdl), mk_iter bs (k + gen_len)).
Proof.
  intros Hl.
  destruct gen_lens_nonneg as (N1 & N2 & N3 & N4 & N5 & N6 & N7).
  pose proof (ts_aligned (strip h) W) as A1. pose proof (escr_aligned (strip h)) as A2. pose proof (es_rate_aligned (strip h)) as A3.
  pose proof (dsm_aligned (strip h)) as A4. pose proof (aci_aligned (strip h)) as A5. pose proof (crc_aligned h) as A6.
  pose proof (gext_aligned h pack st W WA) as A7. pose proof (repeat_aligned st) as A8.
  change (ts_items (strip h)) with (ts_items h) in A1. change (ts_len (strip h)) with (ts_len h) in A1.
  change (escr_items (strip h)) with (escr_items h) in A2. change (escr_len (strip h)) with (escr_len h) in A2.
  change (enc_es_rate (strip h)) with (enc_es_rate h) in A3.
  change (dsm_items (strip h)) with (dsm_items h) in A4. change (dsm_len (strip h)) with (dsm_len h) in A4.
  change (enc_aci (strip h)) with (enc_aci h) in A5.
  pose proof gfixed1_aligned as B1. pose proof (wu8_aligned hdl) as B2.
  unfold gen_items in Hl.
  apply (located_items bs k _ _ 1 (fixed0_aligned h)) in Hl;
    [|repeat apply items_bytes_ok_app; [apply B1|apply B2|apply A1|apply A2|apply A3|apply A4|apply A5|apply A6|apply A7|apply A8]].
  destruct Hl as [L0 Hl].
  apply (located_items bs _ _ _ 1 B1) in Hl;
    [|repeat apply items_bytes_ok_app; [apply B2|apply A1|apply A2|apply A3|apply A4|apply A5|apply A6|apply A7|apply A8]].
  destruct Hl as [L1 Hl].
  apply (located_items bs _ _ _ 1 B2) in Hl;
    [|repeat apply items_bytes_ok_app; [apply A1|apply A2|apply A3|apply A4|apply A5|apply A6|apply A7|apply A8]].
  destruct Hl as [L2 Hl].
  apply (located_items bs _ _ _ _ A1) in Hl; [|repeat apply items_bytes_ok_app; [apply A2|apply A3|apply A4|apply A5|apply A6|apply A7|apply A8]].
  destruct Hl as [P1 Hl].
  apply (located_items bs _ _ _ _ A2) in Hl; [|repeat apply items_bytes_ok_app; [apply A3|apply A4|apply A5|apply A6|apply A7|apply A8]].
  destruct Hl as [P2 Hl].
  apply (located_items bs _ _ _ _ A3) in Hl; [|repeat apply items_bytes_ok_app; [apply A4|apply A5|apply A6|apply A7|apply A8]].
  destruct Hl as [P3 Hl].
  apply (located_items bs _ _ _ _ A4) in Hl; [|repeat apply items_bytes_ok_app; [apply A5|apply A6|apply A7|apply A8]].
  destruct Hl as [P4 Hl].
  apply (located_items bs _ _ _ _ A5) in Hl; [|repeat apply items_bytes_ok_app; [apply A6|apply A7|apply A8]].
  destruct Hl as [P5 Hl].
  apply (located_items bs _ _ _ _ A6) in Hl; [|repeat apply items_bytes_ok_app; [apply A7|apply A8]].
  destruct Hl as [P6 Hl].
  apply (located_items bs _ _ _ _ A7) in Hl; [|apply A8].
  destruct Hl as [P7 _].
  rewrite !Z2Nat.id in * by lia.
  destruct (aligned_one _ (fixed0_aligned h)) as (b0 & E0 & H0). rewrite E0 in L0.
  destruct (aligned_one _ B1) as (b1 & E1 & H1). rewrite E1 in L1.
  rewrite wu8_bytes in L2.
  destruct (len_all_bounds h pack st WA) as (R0 & R1 & R2). rewrite Z.mod_small in L2 by (unfold hdl; lia).
  unfold parse_pes_optional_header.
  erewrite ibind_ok by (apply (next_byte_located bs k b0 L0)).
  erewrite ibind_ok by (apply (next_byte_located bs _ b1 L1)).
  erewrite ibind_ok by (apply (next_byte_located bs _ _ L2)).
  erewrite ibind_ok by reflexivity. cbn [ioff]. cbv zeta.
  rewrite !bitb_one, !bitsf_one, H0, H1. unfold fixed0, gfixed1. cbn [items_bits flat_map item_bits app].
  pose proof (wf_sc (strip h) W) as S1. pose proof (wf_ind (strip h) W) as S2.
  cbn [strip PESOptionalHeader_ScramblingControl PESOptionalHeader_PTSDTSIndicator] in S1, S2.
  fld. change (Z.of_nat 1) with 1 in *.
  erewrite ibind_ok by (apply (ts_piece (strip h) W bs _ P1)). cbv beta iota.
  erewrite ibind_ok by (apply (escr_piece (strip h) W bs _ P2)).
  erewrite ibind_ok by (apply (es_rate_piece (strip h) W bs _ P3)).
  erewrite ibind_ok by (apply (dsm_piece (strip h) W bs _ P4)).
  erewrite ibind_ok by (apply (aci_piece (strip h) W bs _ P5)).
  erewrite ibind_ok by (apply (crc_piece h pack st WA bs _ P6)).
  erewrite ibind_ok by (apply (gext_piece h pack st W WA bs _ P7)).
  unfold iret. f_equal. f_equal; [|unfold gen_len; f_equal; lia].
  f_equal; [|lia].
  unfold observed_all, gext_of, hdl. cbn [pe_hasPD pe_hasPack pe_hasPSC pe_hasPSTD pe_hasExt2 pe_pd pe_pack pe_psc pe_mpeg pe_osl
    pe_scale pe_size pe_e2len pe_e2data].
  pose proof (wf_of (strip h) W) as OF. cbn [strip PESOptionalHeader_HasOptionalFields] in OF. rewrite OF.
  reflexivity.
Qed.

End All2.

(* ---------------- the writer's vocabulary against the reference bit layout ---------------- *)

Lemma flag_bit (b : bool) : bits_of 1 (if b then 1 else 0) = [b].
Proof. destruct b; reflexivity. Qed.
Lemma fbits_app a b : fbits (a ++ b) = fbits a ++ fbits b.
Proof. unfold fbits. apply flat_map_app. Qed.
Lemma fbits_bytes bs : fbits (byte_fields bs) = bits_of_bytes bs.
Proof. unfold fbits, byte_fields, bits_of_bytes. rewrite flat_map_concat_map, map_map, <- flat_map_concat_map. reflexivity. Qed.
Lemma fbits_repeat n : fbits (repeat (8%nat, 255) n) = items_bits (repeat (wu8 255) n).
Proof. induction n as [|n IH]; [reflexivity|]. cbn [repeat]. unfold fbits, items_bits in *. cbn [flat_map]. rewrite IH. reflexivity. Qed.
Lemma bits_of_mod w v : bits_of w (v mod 2 ^ Z.of_nat w) = bits_of w v.
Proof.
  assert (G : forall k, (k <= w)%nat -> bits_of k (v mod 2 ^ Z.of_nat w) = bits_of k v).
  { induction k as [|k IH]; intros Hk; [reflexivity|]. cbn [bits_of]. f_equal; [|apply IH; lia].
    apply Z.mod_pow2_bits_low. lia. }
  apply G. lia.
Qed.

Ltac bits_norm :=
  unfold fbits, items_bits, flag, marker; cbn [flat_map item_bits fst snd app];
  rewrite ?flag_bit; change (bits_of 1 1) with [true]; cbn [app].

Section Bits.
Context (h : PESOptionalHeader) (pack : list Z) (st : nat) (W : wf_opt (strip h)) (WA : wf_all h pack st).

Lemma ts_bits : items_bits (ts_items h) =
  fbits (if PESOptionalHeader_PTSDTSIndicator h =? 2 then ref_ts 2 (base_of (PESOptionalHeader_PTS h))
         else if PESOptionalHeader_PTSDTSIndicator h =? 3
              then ref_ts 3 (base_of (PESOptionalHeader_PTS h)) ++ ref_ts 1 (base_of (PESOptionalHeader_DTS h))
              else []).
Proof.
  unfold ts_items. destruct (_ =? 2); [|destruct (_ =? 3); [|reflexivity]].
  - unfold enc_pts_or_dts, ref_ts. destruct (PESOptionalHeader_PTS h) as [c|]; cbn [odflt base_of zero_ClockReference ClockReference_Base];
      bits_norm; rewrite !Z.shiftr_div_pow2 by lia; reflexivity.
  - rewrite items_bits_app, fbits_app. unfold enc_pts_or_dts, ref_ts.
    destruct (PESOptionalHeader_PTS h) as [c|], (PESOptionalHeader_DTS h) as [d|];
      cbn [odflt base_of zero_ClockReference ClockReference_Base];
      bits_norm; rewrite !Z.shiftr_div_pow2 by lia; reflexivity.
Qed.

Lemma escr_bits : items_bits (escr_items h) =
  fbits (if PESOptionalHeader_HasESCR h
         then ref_escr (base_of (PESOptionalHeader_ESCR h)) (ext_of_cr (PESOptionalHeader_ESCR h)) else []).
Proof.
  unfold escr_items. destruct (PESOptionalHeader_HasESCR h); [|reflexivity].
  unfold enc_escr, ref_escr. destruct (PESOptionalHeader_ESCR h) as [c|];
    cbn [odflt base_of ext_of_cr zero_ClockReference ClockReference_Base ClockReference_Extension];
    bits_norm; rewrite !Z.shiftr_div_pow2 by lia; reflexivity.
Qed.

Lemma es_rate_bits : items_bits (fst (enc_es_rate h)) =
  fbits (if PESOptionalHeader_HasESRate h then [marker; (22%nat, PESOptionalHeader_ESRate h); marker] else []).
Proof. unfold enc_es_rate. destruct (PESOptionalHeader_HasESRate h); [|reflexivity]. cbn [fst]. bits_norm. reflexivity. Qed.

Lemma aci_bits : items_bits (fst (enc_aci h)) =
  fbits (if PESOptionalHeader_HasAdditionalCopyInfo h then [marker; (7%nat, PESOptionalHeader_AdditionalCopyInfo h)] else []).
Proof. unfold enc_aci. destruct (PESOptionalHeader_HasAdditionalCopyInfo h); [|reflexivity]. cbn [fst]. bits_norm. reflexivity. Qed.

Lemma crc_bits : items_bits (crc_items h) =
  fbits (if PESOptionalHeader_HasCRC h then [(16%nat, PESOptionalHeader_CRC h)] else []).
Proof. unfold crc_items. destruct (PESOptionalHeader_HasCRC h); reflexivity. Qed.

Lemma dsm_mode_bits m : wf_dsm m -> items_bits (enc_dsm_trick_mode m) = fbits (ref_dsm m).
Proof.
  unfold wf_dsm, enc_dsm_trick_mode, ref_dsm, C_TrickModeControlFastForward, C_TrickModeControlFastReverse,
    C_TrickModeControlFreezeFrame, C_TrickModeControlSlowMotion, C_TrickModeControlSlowReverse.
  intros [_ Hf].
  destruct (orb _ _).
  - destruct Hf as (_ & Hi & _). bits_norm. do 2 f_equal.
    assert (E : DSMTrickMode_IntraSliceRefresh m = 0 \/ DSMTrickMode_IntraSliceRefresh m = 1) by lia.
    destruct E as [-> | ->]; reflexivity.
  - destruct (_ =? 2); [reflexivity|]. destruct (orb _ _); reflexivity.
Qed.

Lemma dsm_bits : items_bits (dsm_items h) =
  fbits (if PESOptionalHeader_HasDSMTrickMode h
         then match PESOptionalHeader_DSMTrickMode h with Some m => ref_dsm m | None => [] end else []).
Proof.
  unfold dsm_items. pose proof (wf_tm (strip h) W) as P. cbn [strip PESOptionalHeader_HasDSMTrickMode PESOptionalHeader_DSMTrickMode] in P.
  destruct (PESOptionalHeader_HasDSMTrickMode h); [|reflexivity].
  destruct P as (m & -> & Hm). cbn [odflt]. apply dsm_mode_bits. exact Hm.
Qed.

Lemma gext_bits : items_bits (gext_items h pack) =
  fbits (if PESOptionalHeader_HasExtension h then
        [flag (PESOptionalHeader_HasPrivateData h); flag (PESOptionalHeader_HasPackHeaderField h);
         flag (PESOptionalHeader_HasProgramPacketSequenceCounter h); flag (PESOptionalHeader_HasPSTDBuffer h);
         (3%nat, 7); flag (PESOptionalHeader_HasExtension2 h)]
        ++ (if PESOptionalHeader_HasPrivateData h then byte_fields (PESOptionalHeader_PrivateData h) else [])
        ++ (if PESOptionalHeader_HasPackHeaderField h
            then (8%nat, Z.of_nat (length pack)) :: byte_fields pack else [])
        ++ (if PESOptionalHeader_HasProgramPacketSequenceCounter h
            then [marker; (7%nat, PESOptionalHeader_PacketSequenceCounter h); marker;
                  (1%nat, PESOptionalHeader_MPEG1OrMPEG2ID h); (6%nat, PESOptionalHeader_OriginalStuffingLength h)] else [])
        ++ (if PESOptionalHeader_HasPSTDBuffer h
            then [(2%nat, 1); (1%nat, PESOptionalHeader_PSTDBufferScale h); (13%nat, PESOptionalHeader_PSTDBufferSize h)] else [])
        ++ (if PESOptionalHeader_HasExtension2 h
            then marker :: (7%nat, Z.of_nat (length (PESOptionalHeader_Extension2Data h))) ::
                 byte_fields (PESOptionalHeader_Extension2Data h) else [])
      else []).
Proof.
  unfold gext_items. destruct (PESOptionalHeader_HasExtension h); [|reflexivity].
  rewrite !items_bits_app, !fbits_app. f_equal; [|f_equal; [|f_equal; [|f_equal; [|f_equal]]]].
  - unfold gext_flags. bits_norm. reflexivity.
  - change (pd_items h) with (pd_items (strip h)). rewrite (pd_items_eq (strip h) W).
    cbn [strip PESOptionalHeader_HasPrivateData PESOptionalHeader_PrivateData].
    destruct (PESOptionalHeader_HasPrivateData h); [|reflexivity].
    rewrite fbits_bytes. unfold items_bits. cbn [flat_map item_bits]. apply app_nil_r.
  - unfold pack_items. destruct (PESOptionalHeader_HasPackHeaderField h); [|reflexivity].
    change ((8%nat, Z.of_nat (length pack)) :: byte_fields pack) with ([(8%nat, Z.of_nat (length pack))] ++ byte_fields pack).
    rewrite items_bits_app, fbits_app, fbits_bytes. unfold items_bits at 2. cbn [flat_map item_bits]. rewrite app_nil_r. reflexivity.
  - unfold psc_items. destruct (PESOptionalHeader_HasProgramPacketSequenceCounter h); [|reflexivity]. bits_norm. reflexivity.
  - unfold pstd_items. destruct (PESOptionalHeader_HasPSTDBuffer h); reflexivity.
  - unfold e2_items, e2n. pose proof (wf_e2 (strip h) W) as P.
    cbn [strip PESOptionalHeader_HasExtension2 PESOptionalHeader_Extension2Data] in P.
    destruct (PESOptionalHeader_HasExtension2 h); [|reflexivity]. destruct P as [Ln _].
    set (n := Z.of_nat (length (PESOptionalHeader_Extension2Data h))).
    change (marker :: (7%nat, n) :: byte_fields (PESOptionalHeader_Extension2Data h))
      with ([marker; (7%nat, n)] ++ byte_fields (PESOptionalHeader_Extension2Data h)).
    rewrite items_bits_app, fbits_app, fbits_bytes. f_equal.
    + rewrite (Z.mod_small n 256) by (subst n; lia). bits_norm. reflexivity.
    + unfold items_bits. cbn [flat_map item_bits]. apply app_nil_r.
Qed.

Lemma gen_bits : items_bits (gen_items h pack st) = fbits (ref_opt_fields h pack st).
Proof.
  unfold gen_items, ref_opt_fields. cbv zeta.
  rewrite !items_bits_app, !fbits_app.
  rewrite ts_bits, escr_bits, es_rate_bits, dsm_bits, aci_bits, crc_bits, gext_bits, fbits_repeat.
  rewrite !app_assoc. do 8 f_equal.
  unfold fixed0, gfixed1, hdl. bits_norm. reflexivity.
Qed.

End Bits.

(* ---------------- writable headers: the writer emits the reference encoding ---------------- *)

Lemma wf_opt_strip h : wf_opt h -> wf_opt (strip h) /\ wf_all h [] 0.
Proof.
  intros W. destruct (wf_crc h W) as [C1 C2]. destruct (wf_pack h W) as [K1 K2].
  assert (WS : wf_opt (strip h)).
  { destruct W. constructor; cbn [strip PESOptionalHeader_ScramblingControl PESOptionalHeader_PTSDTSIndicator
      PESOptionalHeader_PTS PESOptionalHeader_DTS PESOptionalHeader_HasESCR PESOptionalHeader_ESCR PESOptionalHeader_HasESRate
      PESOptionalHeader_ESRate PESOptionalHeader_HasDSMTrickMode PESOptionalHeader_DSMTrickMode
      PESOptionalHeader_HasAdditionalCopyInfo PESOptionalHeader_AdditionalCopyInfo PESOptionalHeader_HasCRC PESOptionalHeader_CRC
      PESOptionalHeader_HasOptionalFields PESOptionalHeader_HasPackHeaderField PESOptionalHeader_PackField
      PESOptionalHeader_HasExtension PESOptionalHeader_HasPrivateData PESOptionalHeader_HasProgramPacketSequenceCounter
      PESOptionalHeader_HasPSTDBuffer PESOptionalHeader_HasExtension2 PESOptionalHeader_PrivateData
      PESOptionalHeader_PacketSequenceCounter PESOptionalHeader_MPEG1OrMPEG2ID PESOptionalHeader_OriginalStuffingLength
      PESOptionalHeader_PSTDBufferScale PESOptionalHeader_PSTDBufferSize PESOptionalHeader_Extension2Data]; auto. }
  split; [exact WS|]. unfold wf_all. rewrite C1, C2, K1, K2.
  split; [exact WS|]. split; [reflexivity|]. split; [auto|]. split; [split; [reflexivity|constructor]|].
  pose proof (ref_len_range h W). unfold ref_header_data_length_all. rewrite C1, K1, andb_false_r. cbn [Z.of_nat]. lia.
Qed.

Lemma opt_items_gen h : wf_opt h -> items_bits (opt_items h) = items_bits (gen_items h [] 0).
Proof.
  intros W. destruct (wf_crc h W) as [C1 C2]. destruct (wf_pack h W) as [K1 K2].
  unfold opt_items, gen_items. rewrite !items_bits_app. f_equal. f_equal; [|f_equal].
  - unfold fixed1, gfixed1. rewrite C1. reflexivity.
  - unfold fixed2, hdl, ref_header_data_length_all. rewrite (calc_len_eq h W), C1, K1, andb_false_r. cbn [Z.of_nat].
    rewrite !Z.add_0_r. reflexivity.
  - do 5 f_equal. unfold crc_items. rewrite C1. cbn [repeat items_bits flat_map app]. rewrite app_nil_r.
    rewrite (ext_items_eq h). unfold gext_items, gext_flags, ext_flags, pack_items. rewrite K1.
    destruct (PESOptionalHeader_HasExtension h); reflexivity.
Qed.

Theorem write_ref h : wf_opt h ->
  exists its n, enc_pes_optional_header h = Ok (its, n) /\
    bytes_of_items its = ref_opt_bytes h [] 0 /\ n = Z.of_nat (length (ref_opt_bytes h [] 0)).
Proof.
  intros W. destruct (wf_opt_strip h W) as [WS WA].
  exists (opt_items h), (opt_len h). split; [apply (enc_opt_ok h W)|].
  pose proof (opt_aligned h W) as A. destruct (aligned_bytes _ _ A) as [Hl _].
  assert (E : bytes_of_items (opt_items h) = ref_opt_bytes h [] 0).
  { rewrite (chunks_concat _ (proj2 A)). unfold ref_opt_bytes.
    rewrite (opt_items_gen h W), (gen_bits h [] 0 WS). reflexivity. }
  split; [exact E|]. rewrite <- E, Hl.
  destruct (part_lens_nonneg' h W) as (N1 & N2 & N3 & N4 & N5 & N6). unfold opt_len in *. lia.
Qed.

(* ---------------- parsing the reference encoding of any well-formed PES packet ---------------- *)

Lemma slice_mid a rest m : 0 <= m -> slice (a ++ rest) (Z.of_nat (length a)) (Z.of_nat (length a) + m) = firstn (Z.to_nat m) rest.
Proof.
  intros Hm. unfold slice. rewrite Nat2Z.id, skipn_app, skipn_all, Nat.sub_diag. cbn [skipn app].
  f_equal. lia.
Qed.

Lemma head_bytes_ref sid L : bytes_of_bits (fbits [(24%nat, 1); (8%nat, sid); (16%nat, L)]) = bytes_of_items (head_items sid L).
Proof. rewrite chunks_concat by items_ok. reflexivity. Qed.

Section ParseRef.
Context (sid L : Z) (h : PESOptionalHeader) (pack : list Z) (st : nat) (rest : list Z).
Context (Hs : 0 <= sid < 256) (HL : 0 <= L < 65536) (Hopt : lib_has_optional_header sid = true) (WA : wf_all h pack st).

Let bs := ref_pes_bytes sid L h pack st ++ rest.
Let H := {| PESHeader_OptionalHeader := Some (observed_all h st); PESHeader_PacketLength := L; PESHeader_StreamID := sid |}.
Let hdr := 3 + ref_header_data_length_all h + Z.of_nat st.

Lemma ref_header_parse :
  Z.of_nat (length (ref_pes_bytes sid L h pack st)) = 6 + hdr /\
  parse_pes_header (mk_iter bs 3) =
  Ok ((H, 6 + hdr, if L >? 0 then 6 + L else Z.of_nat (length bs)), mk_iter bs (6 + gen_len h pack)).
Proof.
  pose proof (proj1 WA) as W.
  destruct (head_bytes sid L Hs HL) as (B & EB & HB2 & HBf).
  assert (Eo : ref_opt_bytes h pack st = bytes_of_items (gen_items h pack st)).
  { unfold ref_opt_bytes. rewrite <- (gen_bits h pack st W). symmetry. apply chunks_concat.
    destruct gen_lens_nonneg with (h := h) (pack := pack) as (N1 & N2 & N3 & N4 & N5 & N6 & N7); [exact W|].
    unfold gen_items. repeat apply items_bytes_ok_app.
    - apply (fixed0_aligned h). - apply (gfixed1_aligned h). - apply (wu8_aligned (hdl h st)).
    - apply (ts_aligned (strip h) W). - apply (escr_aligned (strip h)). - apply (es_rate_aligned (strip h)).
    - apply (dsm_aligned (strip h)). - apply (aci_aligned (strip h)). - apply (crc_aligned h).
    - apply (gext_aligned h pack st W WA). - apply (repeat_aligned st). }
  assert (Ag : aligned (gen_items h pack st) (Z.to_nat (gen_len h pack) + st)).
  { destruct gen_lens_nonneg with (h := h) (pack := pack) as (N1 & N2 & N3 & N4 & N5 & N6 & N7); [exact W|].
    unfold gen_items, gen_len.
    replace (Z.to_nat (3 + ts_len h + escr_len h + snd (enc_es_rate h) + dsm_len h + snd (enc_aci h) + crc_len h + gext_len h pack) + st)%nat
      with (1 + (1 + (1 + (Z.to_nat (ts_len h) + (Z.to_nat (escr_len h) + (Z.to_nat (snd (enc_es_rate h)) +
            (Z.to_nat (dsm_len h) + (Z.to_nat (snd (enc_aci h)) + (Z.to_nat (crc_len h) + (Z.to_nat (gext_len h pack) + st))))))))))%nat by lia.
    repeat apply aligned_app.
    - apply (fixed0_aligned h). - apply (gfixed1_aligned h). - apply (wu8_aligned (hdl h st)).
    - apply (ts_aligned (strip h) W). - apply (escr_aligned (strip h)). - apply (es_rate_aligned (strip h)).
    - apply (dsm_aligned (strip h)). - apply (aci_aligned (strip h)). - apply (crc_aligned h).
    - apply (gext_aligned h pack st W WA). - apply (repeat_aligned st). }
  destruct (aligned_bytes _ _ Ag) as [Hlg _].
  destruct (aligned_bytes _ _ (head_aligned sid L)) as [Hlh _].
  pose proof (gen_len_eq h pack st WA) as Hge.
  destruct (len_all_bounds h pack st WA) as (R0 & R1 & R2).
  subst bs. unfold ref_pes_bytes. rewrite head_bytes_ref, Eo.
  set (hb := bytes_of_items (head_items sid L)) in *. set (ob := bytes_of_items (gen_items h pack st)) in *.
  split. { rewrite app_length, Hlh, Hlg. subst hdr. lia. }
  set (bs := (hb ++ ob) ++ rest).
  assert (Lo : located bs 6 ob).
  { exists hb, rest. unfold bs. rewrite <- app_assoc. split; [reflexivity|]. rewrite Hlh. reflexivity. }
  change ([0; 0; 1; sid]) with ([0; 0; 1] ++ [sid]) in EB.
  assert (Ls : located bs 3 [sid] /\ located bs 4 B).
  { assert (Lh' : located bs 0 (([0; 0; 1] ++ [sid]) ++ B)).
    { unfold bs. rewrite <- EB, <- app_assoc. apply located_self_prefix. }
    apply located_app in Lh'. destruct Lh' as [Lx Ly]. apply located_app in Lx. destruct Lx as [_ Lx]. split; [exact Lx|exact Ly]. }
  destruct Ls as [Ls Lb].
  unfold parse_pes_header.
  erewrite ibind_ok by (apply (next_byte_located bs 3 sid Ls)).
  unfold next_bytes_nocopy. erewrite ibind_ok by (apply (next_bytes_located bs 4 B 2); [rewrite HB2; reflexivity | exact Lb]).
  rewrite HBf. erewrite ibind_ok by reflexivity. erewrite ibind_ok by reflexivity.
  cbn [ioff ibs]. rewrite has_opt_lib, Hopt. change (3 + 1 + 2) with 6.
  erewrite ibind_ok by (apply (parse_gen_located h pack st W WA bs 6 Lo)). cbv beta iota.
  unfold iret, ilen; cbn [ibs]. subst H hdr. unfold hdl.
  replace (6 + 3 + (ref_header_data_length_all h + Z.of_nat st)) with (6 + (3 + ref_header_data_length_all h + Z.of_nat st)) by lia.
  reflexivity.
Qed.

(* PES_packet_length 0: everything behind the header; L > 0: exactly L - hdr bytes, an error when L ends inside
   the header or beyond the available bytes *)
Theorem parse_ref :
  (L = 0 -> parse_pes_data_bytes bs = Ok {| PESData_Data := rest; PESData_Header := Some H |}) /\
  (L > 0 -> hdr <= L -> L - hdr <= Z.of_nat (length rest) ->
     parse_pes_data_bytes bs = Ok {| PESData_Data := firstn (Z.to_nat (L - hdr)) rest; PESData_Header := Some H |}) /\
  (L > 0 -> L < hdr \/ Z.of_nat (length rest) < L - hdr -> parse_pes_data_bytes bs = Err E_generic).
Proof.
  destruct ref_header_parse as [Hlen Hp].
  destruct (len_all_bounds h pack st WA) as (R0 & R1 & R2).
  rewrite (parse_data_after_header _ _ _ _ _ Hp eq_refl).
  assert (Hbl : Z.of_nat (length bs) = 6 + hdr + Z.of_nat (length rest)).
  { subst bs. rewrite app_length. lia. }
  repeat split; intros.
  - subst L. cbn [Z.gtb Z.compare]. rewrite Hbl.
    destruct (6 + hdr + Z.of_nat (length rest) <? 6 + hdr) eqn:E1; [lia|]. rewrite Z.ltb_irrefl.
    destruct (6 + hdr <? 0) eqn:E2; [subst hdr; lia|]. f_equal. f_equal.
    subst bs. rewrite <- Hlen, slice_mid by lia. apply firstn_all2. lia.
  - destruct (L >? 0) eqn:E; [|lia].
    destruct (6 + L <? 6 + hdr) eqn:E1; [lia|]. destruct (Z.of_nat (length bs) <? 6 + L) eqn:E2; [lia|].
    destruct (6 + hdr <? 0) eqn:E3; [subst hdr; lia|]. f_equal. f_equal.
    subst bs. rewrite <- Hlen. replace (6 + L) with (Z.of_nat (length (ref_pes_bytes sid L h pack st)) + (L - hdr)) by lia.
    apply slice_mid. lia.
  - destruct (L >? 0) eqn:E; [|lia].
    destruct (6 + L <? 6 + hdr) eqn:E1; [reflexivity|]. destruct (Z.of_nat (length bs) <? 6 + L) eqn:E2; [reflexivity|lia].
Qed.

End ParseRef.

(* stream ids without optional header (padding_stream, private_stream_2): the data start right behind the six bytes *)
Theorem parse_ref_noopt sid L rest : 0 <= sid < 256 -> 0 <= L < 65536 -> lib_has_optional_header sid = false ->
  let bs := ref_pes_bytes_noopt sid L ++ rest in
  let H := {| PESHeader_OptionalHeader := None; PESHeader_PacketLength := L; PESHeader_StreamID := sid |} in
  (L = 0 -> parse_pes_data_bytes bs = Ok {| PESData_Data := rest; PESData_Header := Some H |}) /\
  (L > 0 -> L <= Z.of_nat (length rest) ->
     parse_pes_data_bytes bs = Ok {| PESData_Data := firstn (Z.to_nat L) rest; PESData_Header := Some H |}) /\
  (L > 0 -> Z.of_nat (length rest) < L -> parse_pes_data_bytes bs = Err E_generic).
Proof.
  intros Hs HL Hopt bs H.
  destruct (head_bytes sid L Hs HL) as (B & EB & HB2 & HBf).
  destruct (aligned_bytes _ _ (head_aligned sid L)) as [Hlh _].
  subst bs. unfold ref_pes_bytes_noopt. rewrite head_bytes_ref.
  set (hb := bytes_of_items (head_items sid L)) in *. set (bs := hb ++ rest).
  change ([0; 0; 1; sid]) with ([0; 0; 1] ++ [sid]) in EB.
  assert (Ls : located bs 3 [sid] /\ located bs 4 B).
  { assert (Lh' : located bs 0 (([0; 0; 1] ++ [sid]) ++ B)).
    { unfold bs. rewrite <- EB. apply located_self_prefix. }
    apply located_app in Lh'. destruct Lh' as [Lx Ly]. apply located_app in Lx. destruct Lx as [_ Lx]. split; [exact Lx|exact Ly]. }
  destruct Ls as [Ls Lb].
  assert (Hp : parse_pes_header (mk_iter bs 3) =
            Ok ((H, 6, if L >? 0 then 6 + L else Z.of_nat (length bs)), mk_iter bs 6)).
  { unfold parse_pes_header.
    erewrite ibind_ok by (apply (next_byte_located bs 3 sid Ls)).
    unfold next_bytes_nocopy. erewrite ibind_ok by (apply (next_bytes_located bs 4 B 2); [rewrite HB2; reflexivity | exact Lb]).
    rewrite HBf. erewrite ibind_ok by reflexivity. erewrite ibind_ok by reflexivity.
    cbn [ioff ibs]. rewrite has_opt_lib, Hopt. change (3 + 1 + 2) with 6.
    erewrite ibind_ok by reflexivity. reflexivity. }
  rewrite (parse_data_after_header _ _ _ _ _ Hp eq_refl). clear HBf Hp.
  assert (Hbl : Z.of_nat (length bs) = 6 + Z.of_nat (length rest)).
  { unfold bs. rewrite app_length, Hlh. lia. }
  assert (H6 : 6 = Z.of_nat (length hb)) by (rewrite Hlh; reflexivity).
  repeat split; intros.
  - subst L. cbn [Z.gtb Z.compare]. rewrite Hbl.
    destruct (6 + Z.of_nat (length rest) <? 6) eqn:E1; [lia|]. rewrite Z.ltb_irrefl. cbn [Z.ltb Z.compare].
    f_equal. f_equal. rewrite <- Hbl, H6. unfold bs. apply slice_tail.
  - destruct (L >? 0) eqn:E; [|lia].
    destruct (6 + L <? 6) eqn:E1; [lia|]. destruct (Z.of_nat (length bs) <? 6 + L) eqn:E2; [lia|].
    cbn [Z.ltb Z.compare]. f_equal. f_equal. unfold bs. rewrite H6. apply slice_mid. lia.
  - destruct (L >? 0) eqn:E; [|lia].
    destruct (6 + L <? 6) eqn:E1; [reflexivity|]. destruct (Z.of_nat (length bs) <? 6 + L) eqn:E2; [reflexivity|lia].
Qed.

(* the full domain is inhabited: CRC, a pack header of two bytes, three stuffing bytes *)
Definition example_all : PESOptionalHeader :=
  {| PESOptionalHeader_AdditionalCopyInfo := 0;
     PESOptionalHeader_CRC := 4660;
     PESOptionalHeader_DataAlignmentIndicator := false;
     PESOptionalHeader_DSMTrickMode := None;
     PESOptionalHeader_DTS := None;
     PESOptionalHeader_ESCR := None;
     PESOptionalHeader_ESRate := 0;
     PESOptionalHeader_Extension2Data := [];
     PESOptionalHeader_Extension2Length := 0;
     PESOptionalHeader_HasAdditionalCopyInfo := false;
     PESOptionalHeader_HasCRC := true;
     PESOptionalHeader_HasDSMTrickMode := false;
     PESOptionalHeader_HasESCR := false;
     PESOptionalHeader_HasESRate := false;
     PESOptionalHeader_HasExtension := true;
     PESOptionalHeader_HasExtension2 := false;
     PESOptionalHeader_HasOptionalFields := false;
     PESOptionalHeader_HasPackHeaderField := true;
     PESOptionalHeader_HasPrivateData := false;
     PESOptionalHeader_HasProgramPacketSequenceCounter := true;
     PESOptionalHeader_HasPSTDBuffer := false;
     PESOptionalHeader_HeaderLength := 0;
     PESOptionalHeader_IsCopyrighted := true;
     PESOptionalHeader_IsOriginal := false;
     PESOptionalHeader_MarkerBits := 0;
     PESOptionalHeader_MPEG1OrMPEG2ID := 1;
     PESOptionalHeader_OriginalStuffingLength := 1;
     PESOptionalHeader_PacketSequenceCounter := 5;
     PESOptionalHeader_PackField := 2;
     PESOptionalHeader_Priority := false;
     PESOptionalHeader_PrivateData := [];
     PESOptionalHeader_PSTDBufferScale := 0;
     PESOptionalHeader_PSTDBufferSize := 0;
     PESOptionalHeader_PTS := Some (cr 1 0);
     PESOptionalHeader_PTSDTSIndicator := 2;
     PESOptionalHeader_ScramblingControl := 0 |}.

Example example_all_wf : wf_all example_all [170; 187] 3.
Proof.
  split; [|cbn -[Z.pow]; repeat split; try lia; try discriminate; bytes_ok_tac].
  constructor; cbn -[Z.pow]; try lia; try tauto; try reflexivity; try discriminate.
  eexists. split; [|reflexivity]. change (2 ^ 33) with 8589934592. lia.
Qed.
Example example_all_bytes :
  ref_pes_bytes 192 0 example_all [170; 187] 3 =
  [0; 0; 1; 192; 0; 0; 130; 131; 16; 33; 0; 1; 0; 3; 18; 52; 110; 2; 170; 187; 133; 193; 255; 255; 255].
Proof. vm_compute. reflexivity. Qed.
Example example_all_parse :
  parse_pes_data_bytes (ref_pes_bytes 192 0 example_all [170; 187] 3 ++ [17; 34]) =
  Ok {| PESData_Data := [17; 34];
        PESData_Header := Some {| PESHeader_OptionalHeader := Some (observed_all example_all 3);
                                  PESHeader_PacketLength := 0; PESHeader_StreamID := 192 |} |}.
Proof. vm_compute. reflexivity. Qed.

(* writePESHeader as a whole emits the reference encoding of the packet header *)
Theorem write_ref_header h n : wf_header h -> 0 <= n ->
  let sid := PESHeader_StreamID h in
  let L := ref_packet_length sid (ref_opt_len h) n in
  exists its k, enc_pes_header h n = Ok (its, k) /\ k = Z.of_nat (length (bytes_of_items its)) /\
    bytes_of_items its =
      match PESHeader_OptionalHeader h with
      | Some oh => if lib_has_optional_header sid then ref_pes_bytes sid L oh [] 0 else ref_pes_bytes_noopt sid L
      | None => ref_pes_bytes_noopt sid L
      end.
Proof.
  intros Wh Hn sid L. pose proof (packet_length_ref h n Wh) as HL. destruct Wh as [Hs Ho].
  fold sid in Hs, Ho, HL. fold L in HL.
  unfold enc_pes_header. fold sid. rewrite HL. fold (head_items sid L). rewrite has_opt_lib.
  destruct (aligned_bytes _ _ (head_aligned sid L)) as [Hlh _].
  destruct (lib_has_optional_header sid) eqn:El.
  - destruct (Ho eq_refl) as (oh & Eo & W). rewrite Eo. rewrite (enc_opt_ok oh W). cbn [res_bind].
    pose proof (opt_aligned oh W) as Ao. destruct (aligned_bytes _ _ Ao) as [Hlo _].
    destruct (write_ref oh W) as (its' & n' & E1 & E2 & _). rewrite (enc_opt_ok oh W) in E1. injection E1 as <- <-.
    eexists _, _. split; [reflexivity|].
    rewrite (bytes_of_items_app _ _ 6 (head_aligned sid L)) by apply Ao. split.
    + rewrite app_length, Hlh, Hlo. unfold C_pesHeaderLength.
      destruct (part_lens_nonneg' oh W) as (N1 & N2 & N3 & N4 & N5 & N6). unfold opt_len in *. lia.
    + unfold ref_pes_bytes. rewrite head_bytes_ref, E2. reflexivity.
  - eexists _, _. split; [reflexivity|]. split; [rewrite Hlh; reflexivity|].
    unfold ref_pes_bytes_noopt. rewrite head_bytes_ref. destruct (PESHeader_OptionalHeader h); reflexivity.
Qed.
