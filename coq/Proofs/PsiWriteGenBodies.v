(* The 24 descriptor BODY writers of Model/Desc.v (enc_ac3 ... enc_unknown, enc_extension with its supplementary audio
   part) ARE what go/gen/psiwritegen.go regenerates from the current /repo/descriptor.go (Gen/PsiWriteGen.v, section
   DescriptorBodies): the same items in the same order up to the bits a w-bit write ignores, nil as the error, a panic
   where the model panics (wfe_sim, Proofs/PsiWriteGenBase.v).  A swapped pair of field writes, a changed width, a
   dropped pad byte or a reordered loop body changes Gen/PsiWriteGen.v and the lemma of that body stops checking.

   writeDVBDurationMinutes / writeDVBTime (used by the local time offset descriptor) are hypotheses here;
   Proofs/PsiWriteGenDvb.v discharges them. *)
From Coq Require Import ZArith List Lia Bool ZifyBool.
Require Import Base.Bits Base.Iter Base.Wr Gen.Consts Gen.Types Gen.Preds Gen.MuxGen Gen.WriteGen Gen.PsiWriteGen
  Model.Packet Model.Dvb Model.Desc Proofs.WriteGenBase Proofs.PsiWriteGenBase Proofs.PsiWriteGenPsi Proofs.PsiWriteGenDesc.
Import ListNotations.
Open Scope Z_scope.

(* BitsWriter.WriteBytesN(bs, 3, pad): the generated wbytes_n and the model's wbytesn *)
Lemma wbytes3_ieq bs pad : ieq (wbytes_n WBatch bs 3 pad) (wbytesn bs 3 pad).
Proof.
  unfold wbytes_n, wbytesn. change (3 =? 0)%nat with false. cbv iota. change (Z.to_nat 3) with 3%nat.
  destruct (3 <=? Z.of_nat (length bs)) eqn:C1; destruct (3 <=? length bs)%nat eqn:C2; try (exfalso; lia).
  - apply ieq_cons; [reflexivity|apply ieq_nil].
  - apply ieq_cons; [reflexivity|]. apply ieq_repeat; reflexivity.
Qed.

Lemma wbytes_n_nd bs n pad : nd (wbytes_n WBatch bs n pad) = true.
Proof.
  unfold wbytes_n. destruct (n <=? Z.of_nat (length bs)); [reflexivity|].
  apply nd_cons; [reflexivity|]. apply nd_repeat. reflexivity.
Qed.

Ltac bieq :=
  repeat (progress (rewrite <- ?app_assoc; cbn [app]));
  repeat first
    [ assumption
    | apply ieq_nil
    | apply wbytes3_ieq
    | apply ieq_cons; [ whead_eq | ]
    | apply ieq_if
    | apply ieq_app; [ first [ assumption | apply wbytes3_ieq ] | ]
    | apply ieq_app ].

Ltac bnd :=
  repeat first
    [ assumption
    | apply nd_nil
    | apply wbytes_n_nd
    | apply nd_cons; [ reflexivity | ]
    | apply nd_app'
    | apply nd_if
    | apply nd_repeat; reflexivity ].

Ltac bfinish :=
  unfold wfe_sim; cbn [fst snd]; rewrite ?app_nil_r; split; [reflexivity|];
  split; [ unfold wu8, wu16, wu32, wif; rewrite ?fst_if; cbn [fst]; apply ieq_map_nsnd; bieq | bnd ].

(* a body without loops and calls *)
Ltac bleaf f model := unfold f, model; wsym; bfinish.

(* a body that is one loop over items: loop_is gives the items of the loop *)
Ltac bloop f model L :=
  unfold f, model;
  match goal with |- context [wbind (?loop ?l) _] =>
    let its := fresh "its" in let E := fresh "E" in let H1 := fresh "H1" in let H2 := fresh "H2" in
    destruct (L l) as (its & E & H1 & H2); rewrite E; wsimpl; bfinish
  end.

Ltac bloop_step E :=
  rewrite E; wsym; eexists; split; [reflexivity|]; split;
  [ cbn [flat_map]; unfold wu8, wu16, wu32; bieq | bnd ].

Lemma writeDescriptorUserDefined_is_model d : wfe_sim (writeDescriptorUserDefined d) (Ok [WBytes d]).
Proof. unfold writeDescriptorUserDefined. wsym. bfinish. Qed.

Lemma writeDescriptorAC3_is_model d : wfe_sim (writeDescriptorAC3 d) (Ok (enc_ac3 d)).
Proof. bleaf writeDescriptorAC3 enc_ac3. Qed.

Lemma writeDescriptorAVCVideo_is_model d : wfe_sim (writeDescriptorAVCVideo d) (Ok (enc_avc_video d)).
Proof. bleaf writeDescriptorAVCVideo enc_avc_video. Qed.

Lemma writeDescriptorComponent_is_model d : wfe_sim (writeDescriptorComponent d) (Ok (enc_component d)).
Proof. bleaf writeDescriptorComponent enc_component. Qed.

Lemma content_loop_is l : exists its,
  writeDescriptorContent_loop1 l = (its, WVal tt) /\ ieq its (flat_map enc_content_item l) /\ nd its = true.
Proof.
  induction l as [|x l (its & E & H1 & H2)]; [exists []; repeat split|].
  cbn [writeDescriptorContent_loop1]. unfold enc_content_item. bloop_step E.
Qed.

Lemma writeDescriptorContent_is_model d : wfe_sim (writeDescriptorContent d) (Ok (enc_content d)).
Proof. bloop writeDescriptorContent enc_content content_loop_is. Qed.

Lemma writeDescriptorDataStreamAlignment_is_model d :
  wfe_sim (writeDescriptorDataStreamAlignment d) (Ok (enc_data_stream_alignment d)).
Proof. bleaf writeDescriptorDataStreamAlignment enc_data_stream_alignment. Qed.

Lemma writeDescriptorEnhancedAC3_is_model d : wfe_sim (writeDescriptorEnhancedAC3 d) (Ok (enc_enhanced_ac3 d)).
Proof. bleaf writeDescriptorEnhancedAC3 enc_enhanced_ac3. Qed.

Lemma extended_event_loop_is l : exists its,
  writeDescriptorExtendedEvent_loop1 l = (its, WVal tt) /\ ieq its (flat_map enc_extended_event_item l) /\ nd its = true.
Proof.
  induction l as [|x l (its & E & H1 & H2)]; [exists []; repeat split|].
  cbn [writeDescriptorExtendedEvent_loop1]. unfold enc_extended_event_item, blen. bloop_step E.
Qed.

Lemma writeDescriptorExtendedEvent_is_model d : wfe_sim (writeDescriptorExtendedEvent d) (Ok (enc_extended_event d)).
Proof.
  unfold writeDescriptorExtendedEvent, enc_extended_event, blen.
  destruct (calcDescriptorExtendedEventLength (Some d)) as [a b]. cbn [snd]. wsimpl.
  destruct (extended_event_loop_is (DescriptorExtendedEvent_Items d)) as (its & E & H1 & H2). rewrite E. wsimpl.
  bfinish.
Qed.

Lemma writeDescriptorExtensionSupplementaryAudio_is_model d :
  wfe_sim (writeDescriptorExtensionSupplementaryAudio d) (Ok (enc_extension_supplementary_audio d)).
Proof. bleaf writeDescriptorExtensionSupplementaryAudio enc_extension_supplementary_audio. Qed.

Lemma writeDescriptorExtension_is_model d : wfe_sim (writeDescriptorExtension d) (enc_extension d).
Proof.
  unfold writeDescriptorExtension, enc_extension. wsimpl.
  destruct (DescriptorExtension_Tag d =? C_DescriptorTagExtensionSupplementaryAudio).
  - destruct (DescriptorExtension_SupplementaryAudio d) as [sa|]; [|reflexivity]. wsimpl. cbn [dneed res_map].
    wfe_call_ok (writeDescriptorExtensionSupplementaryAudio_is_model sa). bfinish.
  - destruct (DescriptorExtension_Unknown d) as [u|]; wsimpl; bfinish.
Qed.

Lemma writeDescriptorISO639_is_model d :
  wfe_sim (writeDescriptorISO639LanguageAndAudioType d) (Ok (enc_iso639 d)).
Proof. bleaf writeDescriptorISO639LanguageAndAudioType enc_iso639. Qed.

Lemma writeDescriptorMaximumBitrate_is_model d : wfe_sim (writeDescriptorMaximumBitrate d) (Ok (enc_maximum_bitrate d)).
Proof. bleaf writeDescriptorMaximumBitrate enc_maximum_bitrate. Qed.

Lemma writeDescriptorNetworkName_is_model d : wfe_sim (writeDescriptorNetworkName d) (Ok (enc_network_name d)).
Proof. bleaf writeDescriptorNetworkName enc_network_name. Qed.

Lemma parental_rating_loop_is l : exists its,
  writeDescriptorParentalRating_loop1 l = (its, WVal tt) /\ ieq its (flat_map enc_parental_rating_item l) /\ nd its = true.
Proof.
  induction l as [|x l (its & E & H1 & H2)]; [exists []; repeat split|].
  cbn [writeDescriptorParentalRating_loop1]. unfold enc_parental_rating_item. bloop_step E.
Qed.

Lemma writeDescriptorParentalRating_is_model d : wfe_sim (writeDescriptorParentalRating d) (Ok (enc_parental_rating d)).
Proof. bloop writeDescriptorParentalRating enc_parental_rating parental_rating_loop_is. Qed.

Lemma writeDescriptorPrivateDataIndicator_is_model d :
  wfe_sim (writeDescriptorPrivateDataIndicator d) (Ok (enc_private_data_indicator d)).
Proof. bleaf writeDescriptorPrivateDataIndicator enc_private_data_indicator. Qed.

Lemma writeDescriptorPrivateDataSpecifier_is_model d :
  wfe_sim (writeDescriptorPrivateDataSpecifier d) (Ok (enc_private_data_specifier d)).
Proof. bleaf writeDescriptorPrivateDataSpecifier enc_private_data_specifier. Qed.

Lemma writeDescriptorRegistration_is_model d : wfe_sim (writeDescriptorRegistration d) (Ok (enc_registration d)).
Proof. bleaf writeDescriptorRegistration enc_registration. Qed.

Lemma writeDescriptorService_is_model d : wfe_sim (writeDescriptorService d) (Ok (enc_service d)).
Proof. unfold writeDescriptorService, enc_service, blen. wsym. bfinish. Qed.

Lemma writeDescriptorShortEvent_is_model d : wfe_sim (writeDescriptorShortEvent d) (Ok (enc_short_event d)).
Proof. unfold writeDescriptorShortEvent, enc_short_event, blen. wsym. bfinish. Qed.

Lemma writeDescriptorStreamIdentifier_is_model d :
  wfe_sim (writeDescriptorStreamIdentifier d) (Ok (enc_stream_identifier d)).
Proof. bleaf writeDescriptorStreamIdentifier enc_stream_identifier. Qed.

Lemma subtitling_loop_is l : exists its,
  writeDescriptorSubtitling_loop1 l = (its, WVal tt) /\ ieq its (flat_map enc_subtitling_item l) /\ nd its = true.
Proof.
  induction l as [|x l (its & E & H1 & H2)]; [exists []; repeat split|].
  cbn [writeDescriptorSubtitling_loop1]. unfold enc_subtitling_item. bloop_step E.
Qed.

Lemma writeDescriptorSubtitling_is_model d : wfe_sim (writeDescriptorSubtitling d) (Ok (enc_subtitling d)).
Proof. bloop writeDescriptorSubtitling enc_subtitling subtitling_loop_is. Qed.

Lemma teletext_loop_is l : exists its,
  writeDescriptorTeletext_loop1 l = (its, WVal tt) /\ ieq its (flat_map enc_teletext_item l) /\ nd its = true.
Proof.
  induction l as [|x l (its & E & H1 & H2)]; [exists []; repeat split|].
  cbn [writeDescriptorTeletext_loop1]. unfold enc_teletext_item. bloop_step E.
Qed.

Lemma writeDescriptorTeletext_is_model d : wfe_sim (writeDescriptorTeletext d) (Ok (enc_teletext d)).
Proof. bloop writeDescriptorTeletext enc_teletext teletext_loop_is. Qed.

Lemma vbi_lines_loop_is l : exists its,
  writeDescriptorVBIData_loop2 l = (its, WVal tt) /\ ieq its (flat_map enc_vbi_line l) /\ nd its = true.
Proof.
  induction l as [|x l (its & E & H1 & H2)]; [exists []; repeat split|].
  cbn [writeDescriptorVBIData_loop2]. unfold enc_vbi_line. bloop_step E.
Qed.

Lemma vbi_services_loop_is l : exists its,
  writeDescriptorVBIData_loop1 l = (its, WVal tt) /\ ieq its (flat_map enc_vbi_data_service l) /\ nd its = true.
Proof.
  induction l as [|x l (its & E & H1 & H2)]; [exists []; repeat split|].
  cbn [writeDescriptorVBIData_loop1 flat_map]. unfold enc_vbi_data_service at 1. unfold is_vbi_line_service. wsimpl.
  destruct (vbi_lines_loop_is (DescriptorVBIDataService_Descriptors x)) as (lits & EL & L1 & L2).
  match goal with |- context [if ?c then _ else _] => destruct c end; rewrite ?EL, E; wsimpl;
    (eexists; split; [reflexivity|]; split; [unfold wu8; bieq | bnd]).
Qed.

Lemma writeDescriptorVBIData_is_model d : wfe_sim (writeDescriptorVBIData d) (Ok (enc_vbi_data d)).
Proof. bloop writeDescriptorVBIData enc_vbi_data vbi_services_loop_is. Qed.

Lemma writeDescriptorUnknown_is_model d : wfe_sim (writeDescriptorUnknown d) (Ok (enc_unknown d)).
Proof. bleaf writeDescriptorUnknown enc_unknown. Qed.

(* ---- the local time offset descriptor calls the DVB writers ---- *)

Section LocalTimeOffset.

Variable wMin : Z -> WF (Z * merror).
Variable wTime : Z -> WF (Z * merror).
Hypothesis HMin : forall d, wfn_sim (wMin d) (Ok (enc_dvb_duration_minutes d)) 2.
Hypothesis HTime : forall t, wfn_sim (wTime t) (Ok (enc_dvb_time t)) 5.

Lemma local_time_offset_loop_is l : exists its,
  writeDescriptorLocalTimeOffset_loop1 wMin wTime l = (its, WVal tt) /\
  ieq its (flat_map enc_local_time_offset_item l) /\ nd its = true.
Proof.
  induction l as [|x l (its & E & H1 & H2)]; [exists []; repeat split|].
  cbn [writeDescriptorLocalTimeOffset_loop1 flat_map]. unfold enc_local_time_offset_item at 1. wsimpl.
  wfn_call_ok (HMin (DescriptorLocalTimeOffsetItem_LocalTimeOffset x)).
  wfn_call_ok (HTime (DescriptorLocalTimeOffsetItem_TimeOfChange x)).
  wfn_call_ok (HMin (DescriptorLocalTimeOffsetItem_NextTimeOffset x)).
  rewrite E. wsimpl. eexists. split; [reflexivity|]. split; [bieq | bnd].
Qed.

Lemma writeDescriptorLocalTimeOffset_is_model d :
  wfe_sim (writeDescriptorLocalTimeOffset wMin wTime d) (Ok (enc_local_time_offset d)).
Proof. bloop writeDescriptorLocalTimeOffset enc_local_time_offset local_time_offset_loop_is. Qed.

End LocalTimeOffset.
