(* Entry point of the extracted model for property C12: run_C12 case = observation.
   cases: (1 bytes)                                    parsePESData
          (2 header payloadSize)                       writePESHeader             -> (bytes n)
          (3 header payloadLeft isStart bytesAvail)    writePESData               -> (bytes total payload)
          (4 (optional header)?)                       writePESOptionalHeader     -> (bytes n)
          (5 clockref)                                 ClockReference.Duration    -> ns
          (6 bytes)                                    parsePTSOrDTS
          (7 flag (clockref)?)                         writePTSOrDTS              -> (bytes n)
          (8 bytes)                                    parseESCR
          (9 (clockref)?)                              writeESCR                  -> (bytes n)
          (10 byte)                                    parseDSMTrickMode
          (11 (trick mode)?)                           writeDSMTrickMode          -> (bytes n)
          (12 (optional header)?)                      calcPESOptionalHeaderLength
          (13 header payload)                          writePESHeader, then parsePESData on header ++ payload *)
From Coq Require Import ZArith List.
Require Import Base.Tok Base.Bits Base.Iter Base.Wr Gen.Consts Gen.Types Gen.Preds Model.Clock Model.Pes Extract.RunBase.
Import ListNotations.
Open Scope Z_scope.

Definition tok_items_n (p : list witem * Z) : tok := TL [TB (bytes_of_items (fst p)); TI (snd p)].

Definition run_C12 (t : tok) : tok :=
  match tI (tnth 0 t) with
  | 1 => tok_of_res tok_of_PESData (parse_pes_data_bytes (tB (tnth 1 t)))
  | 2 => tok_of_res tok_items_n (enc_pes_header (PESHeader_of_tok (tnth 1 t)) (tI (tnth 2 t)))
  | 3 => tok_of_res (fun r => match r with (its, tot, pl) => TL [TB (bytes_of_items its); TI tot; TI pl] end)
           (write_pes_data (PESHeader_of_tok (tnth 1 t)) (tB (tnth 2 t)) (tbool (tnth 3 t)) (tI (tnth 4 t)))
  | 4 => tok_of_res tok_items_n
           (match to_opt PESOptionalHeader_of_tok (tnth 1 t) with
            | None => Ok ([], 0)
            | Some h => enc_pes_optional_header h
            end)
  | 5 => TI (cr_duration (ClockReference_of_tok (tnth 1 t)))
  | 6 => tok_of_res tok_of_ClockReference (run_iter parse_pts_or_dts (tB (tnth 1 t)))
  | 7 => tok_of_res tok_items_n
           (res_map (fun c => (enc_pts_or_dts (tI (tnth 1 t)) c, C_ptsOrDTSByteLength))
                    (pneed (to_opt ClockReference_of_tok (tnth 2 t))))
  | 8 => tok_of_res tok_of_ClockReference (run_iter parse_escr (tB (tnth 1 t)))
  | 9 => tok_of_res tok_items_n
           (res_map (fun c => (enc_escr c, C_escrLength)) (pneed (to_opt ClockReference_of_tok (tnth 1 t))))
  | 10 => tok_of_DSMTrickMode (parse_dsm_trick_mode (tI (tnth 1 t)))
  | 11 => tok_of_res tok_items_n
           (res_map (fun m => (enc_dsm_trick_mode m, C_dsmTrickModeLength)) (pneed (to_opt DSMTrickMode_of_tok (tnth 1 t))))
  | 12 => TI (calcPESOptionalHeaderLength (to_opt PESOptionalHeader_of_tok (tnth 1 t)))
  | 13 => match enc_pes_header (PESHeader_of_tok (tnth 1 t)) (Z.of_nat (length (tB (tnth 2 t)))) with
          | Ok (its, n) =>
              TL [TI 0; TB (bytes_of_items its); TI n;
                  tok_of_res tok_of_PESData (parse_pes_data_bytes (bytes_of_items its ++ tB (tnth 2 t)))]
          | Err c => TL [TI 1; TI c]
          | Panic => TL [TI 2]
          end
  | _ => TL []
  end.
