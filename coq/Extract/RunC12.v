(* Entry point of the extracted model for property C12: run_C12 case = observation. *)
From Coq Require Import ZArith List.
Require Import Base.Tok Base.Iter Extract.RunBase.
Import ListNotations.
Open Scope Z_scope.

Definition run_C12 (t : tok) : tok := TL [].
