(* Entry point of the extracted model: run_case prop case = observation. *)
From Coq Require Import ZArith List.
Require Import Base.Tok.
Require Import Extract.RunC01 Extract.RunC02 Extract.RunC03 Extract.RunC04 Extract.RunC05 Extract.RunC06 Extract.RunC07
  Extract.RunC08 Extract.RunC09 Extract.RunC10 Extract.RunC11 Extract.RunC12 Extract.RunC13 Extract.RunC14 Extract.RunC15
  Extract.RunC16 Extract.RunC17 Extract.RunC18 Extract.RunC19 Extract.RunC20.
Import ListNotations.
Open Scope Z_scope.

Definition run_case (prop : Z) (t : tok) : tok :=
  match prop with
  | 1 => run_C01 t | 2 => run_C02 t | 3 => run_C03 t | 4 => run_C04 t | 5 => run_C05 t
  | 6 => run_C06 t | 7 => run_C07 t | 8 => run_C08 t | 9 => run_C09 t | 10 => run_C10 t
  | 11 => run_C11 t | 12 => run_C12 t | 13 => run_C13 t | 14 => run_C14 t | 15 => run_C15 t
  | 16 => run_C16 t | 17 => run_C17 t | 18 => run_C18 t | 19 => run_C19 t | 20 => run_C20 t
  | _ => TL []
  end.
