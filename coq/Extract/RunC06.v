(* Entry point of the extracted model for property C06: run_C06 case = observation. *)
From Coq Require Import ZArith List.
Require Import Base.Tok Base.Iter Extract.RunBase.
Import ListNotations.
Open Scope Z_scope.

Definition run_C06 (t : tok) : tok := TL [].
