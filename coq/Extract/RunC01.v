(* Entry point of the extracted model for property C01: run_C01 case = observation. *)
From Coq Require Import ZArith List.
Require Import Base.Tok Base.Iter Extract.RunBase.
Import ListNotations.
Open Scope Z_scope.

Definition run_C01 (t : tok) : tok := TL [].
