(* Entry point of the extracted model for property C01: a muxer history (as in RunMux.v), whose output bytes are
   then demultiplexed (NextData until ErrNoMorePackets, seekable reader, packet size 188).
   case        = (period (op ...))
   observation = (per-call (code n) of the muxer, then the demux observation of RunDemux.v) *)
From Coq Require Import ZArith List.
Require Import Base.Tok Base.Iter Gen.Types Model.Muxer Model.Reader Model.Demux Model.DemuxFull
  Extract.RunBase Extract.RunDemux Extract.RunMux.
Import ListNotations.
Open Scope Z_scope.

Fixpoint mux_all (s : mstate) (ops : list mop) : list tok * list Z :=
  match ops with
  | [] => ([], [])
  | o :: r =>
      let '(s', out) := mux_step s o in
      let '(ts, bs) := mux_all s' r in
      (TL [TI (code_of_res (mo_res out)); TI (match mo_res out with Panic => 0 | _ => mo_n out end)] :: ts,
       mout_bytes out ++ bs)
  end.

Definition run_C01 (t : tok) : tok :=
  let '(calls, bytes) := mux_all (new_muxer (tI (tnth 0 t))) (map mop_of_tok (tL (tnth 1 t))) in
  let scen := TL [TI 1; TI 188; TI (-1); TL []; TL [TI 0]; TL [TI 0]; TB bytes; TL [TI 3]] in
  TL [TL calls; run_demux full_parsers scen].
