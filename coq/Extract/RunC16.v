(* Entry point of the extracted model for property C16.
   cases: (1 scenario)  a demux scenario (RunDemux.v); the implementation serialises every returned value twice, at
                        delivery and again after all later activity (with the payload pool poisoned in between); values
                        of the model are immutable, so the model's answer is the delivery-time list, twice
          (2 muxcase)   a muxer history (RunMux.v); additionally the caller's payloads must be unchanged
          (3 n seed)    n goroutines with their own Demuxer and Muxer: concurrent results = sequential results
          (4 mode scs)  several demux scenarios run in one process, one after the other or interleaved in goroutines:
                        each must give what the model gives for it alone (the implementation
                        runs them a second time in the opposite order: two lists)
          (5 scenario)  a demux scenario in which the caller overwrites every value it is handed right after delivery:
                        later results must be what the model (whose values cannot be overwritten) says *)
From Coq Require Import ZArith List.
Require Import Base.Tok Base.Iter Model.DemuxFull Extract.RunBase Extract.RunDemux Extract.RunMux.
Import ListNotations.
Open Scope Z_scope.

Definition run_C16 (t : tok) : tok :=
  match tI (tnth 0 t) with
  | 1 => let o := run_demux full_parsers (tnth 1 t) in TL [o; tnth 0 o]
  | 2 => TL [run_mux (tnth 1 t); TI 1]
  | 3 => TI 1
  | 5 => let o := run_demux full_parsers (tnth 1 t) in TL [o; o; o]
  | 4 => let o := TL (map (run_demux full_parsers) (tL (tnth 2 t))) in TL [o; o]
  | _ => TL []
  end.
