(* Entry point of the extracted model for property C16: run_C16 case = observation. *)
From Coq Require Import ZArith List.
Require Import Base.Tok Base.Iter Extract.RunBase.
Import ListNotations.
Open Scope Z_scope.

Definition run_C16 (t : tok) : tok := TL [].
