(* Extraction of the executable model to OCaml.  ExtrOcamlBasic only: bool, option,
   unit, list, prod, sumbool map to OCaml's; Z, positive, N, nat stay Coq data types.
   No Extract Constant. *)
Require Extraction.
Require Import ExtrOcamlBasic.
Require Import Base.Tok Extract.Run.
Extraction Language OCaml.
Extraction "model.ml" run_case.
