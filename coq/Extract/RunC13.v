(* Entry point of the extracted model for property C13: run_C13 case = observation.
   cases: (1 bytes) / (7 bytes)     parsePSIData on the concatenated payload (pointer_field first)
          (2 psidata)               writePSIData
          (3 psidata pid packet)    PSIData.toData
          (4 section)               calcPSISectionLength
          (5 pmtdata)               calcPMTSectionLength
          (6 bytes)                 parse, then write the result back *)
From Coq Require Import ZArith List.
Require Import Base.Tok Base.Iter Base.Wr Gen.Types Model.Psi Extract.RunBase.
Import ListNotations.
Open Scope Z_scope.

Definition run_C13 (t : tok) : tok :=
  match tI (tnth 0 t) with
  | 1 | 7 => tok_of_res tok_of_PSIData (parse_psi_data_bytes (tB (tnth 1 t)))
  | 2 => tok_of_res TB (write_psi_data (PSIData_of_tok (tnth 1 t)))
  | 3 => TL (map tok_of_DemuxerData
               (psi_to_data (PSIData_of_tok (tnth 1 t)) (Packet_of_tok (tnth 3 t)) (tI (tnth 2 t))))
  | 4 => tok_of_res TI (calc_psi_section_length_res (PSISection_of_tok (tnth 1 t)))
  | 5 => TI (calc_pmt_section_length (PMTData_of_tok (tnth 1 t)))
  | 6 => match parse_psi_data_bytes (tB (tnth 1 t)) with
         | Ok d => TL [TI 0; tok_of_PSIData d; tok_of_res TB (write_psi_data d)]
         | Err c => TL [TI 1; TI c]
         | Panic => TL [TI 2]
         end
  | _ => TL []
  end.
