(* Entry point of the extracted model for property C14.
   cases: (1 bytes offset)   parseDescriptors with the iterator at offset: (descriptors, offset afterwards)
          (2 descriptors)    writeDescriptorsWithLength: (bytes, written)
          (3 descriptors)    ((calcDescriptorLength d ...) calcDescriptorsLength)
          (4 descriptors)    writeDescriptors: (bytes, written)
          (5 descriptor)     writeDescriptor: (bytes, written) *)
From Coq Require Import ZArith List.
Require Import Base.Tok Base.Iter Base.Wr Gen.Types Model.Desc Extract.RunBase.
Import ListNotations.
Open Scope Z_scope.

Definition descs_of_tok (t : tok) : list Descriptor := to_list Descriptor_of_tok t.

Definition tok_written (n : Z) (its : list witem) : tok := TL [TB (bytes_of_items its); TI n].

Definition run_C14 (t : tok) : tok :=
  match tI (tnth 0 t) with
  | 1 => match parse_descriptors (mk_iter (tB (tnth 1 t)) (tI (tnth 2 t))) with
         | Ok (ds, i) => TL [TI 0; TL [of_list tok_of_Descriptor ds; TI (ioff i)]]
         | Err c => TL [TI 1; TI c]
         | Panic => TL [TI 2]
         end
  | 2 => let ds := descs_of_tok (tnth 1 t) in
         tok_of_res (tok_written (descriptors_written ds + 2)) (enc_descriptors_with_length ds)
  | 3 => let ds := descs_of_tok (tnth 1 t) in
         TL [of_list TI (map calc_descriptor_length ds); TI (calc_descriptors_length ds)]
  | 4 => let ds := descs_of_tok (tnth 1 t) in
         tok_of_res (tok_written (descriptors_written ds)) (enc_descriptors ds)
  | 5 => let d := Descriptor_of_tok (tnth 1 t) in
         tok_of_res (tok_written (descriptor_written d)) (enc_descriptor d)
  | _ => TL []
  end.
