(* Entry point of the extracted model for property C14: run_C14 case = observation. *)
From Coq Require Import ZArith List.
Require Import Base.Tok Base.Iter Extract.RunBase.
Import ListNotations.
Open Scope Z_scope.

Definition run_C14 (t : tok) : tok := TL [].
