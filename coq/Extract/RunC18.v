(* Entry point of the extracted model for property C18.
   cases: (1 scenario)                 a demux scenario whose reader starts failing at an offset (RunDemux.v)
          (2 period ops failAt)        a muxer history whose io.Writer fails on its failAt-th Write call (0-based, counted
                                       over the whole history); the history is observed up to and including the failing call
   observation of (2): one entry per call (code n accepted): for the failing call code = the injected error,
   n = what the call reports (the sizes of the parts it accounts for that were completed before the failing Write),
   accepted = the bytes the writer accepted during the call before the failing Write. *)
From Coq Require Import ZArith List.
Require Import Base.Tok Base.Iter Base.Wr Gen.Consts Gen.Types Gen.Preds Model.Packet Model.Muxer Model.DemuxFull Model.Faults
  Extract.RunBase Extract.RunDemux Extract.RunMux.
Import ListNotations.
Open Scope Z_scope.

(* Muxer.WritePacket returns writePacket's own count: sync byte, header, adaptation field, payload and every trailing
   0xFF are accounted separately *)
Definition packet_parts (p : Packet) (target : Z) : list (list (list Z)) :=
  match enc_packet p target with
  | Ok _ =>
      let h := Packet_Header p in
      let af := if PacketHeader_HasAdaptationField h
                then match Packet_AdaptationField p with
                     | Some a => match enc_adaptation_field a with Ok (its, n) => (its, n) | _ => ([], 0) end
                     | None => ([], 0) end
                else ([], 0) in
      let written := 1 + C_mpegTsPacketHeaderSize + snd af in
      let plen := Z.of_nat (length (Packet_Payload p)) in
      let written' := if PacketHeader_HasPayload h then written + plen else written in
      [chunks_of [wu8 syncByte]; chunks_of (enc_packet_header h)] ++
      (match fst af with [] => [] | its => [chunks_of its] end) ++
      (if PacketHeader_HasPayload h then match Packet_Payload p with [] => [] | pl => [[pl]] end else []) ++
      repeat [[255]] (Z.to_nat (target - written'))
  | _ => []
  end.

Definition groups_of_call (o : mop) (out : mout) : list (list (list Z)) :=
  match o, mo_res out with
  | MWritePacket p, Ok _ => packet_parts p C_MpegTsPacketSize
  | _, _ => mo_groups out
  end.

Fixpoint run_faulty (s : mstate) (ops : list mop) (k : Z) : list tok :=
  match ops with
  | [] => []
  | o :: r =>
      let '(s', out) := mux_step s o in
      let groups := groups_of_call o out in
      let nwrites := Z.of_nat (length (concat groups)) in
      if k <? nwrites then
        [TL [TI E_injected; TI (n_before groups k); TB (accepted (concat groups) k)]]
      else
        TL [TI (code_of_res (mo_res out)); TI (match mo_res out with Panic => 0 | _ => mo_n out end); TB (mout_bytes out)]
        :: run_faulty s' r (k - nwrites)
  end.

Definition run_C18 (t : tok) : tok :=
  match tI (tnth 0 t) with
  | 1 => run_demux full_parsers (tnth 1 t)
  | 2 => TL (run_faulty (new_muxer (tI (tnth 1 t))) (map mop_of_tok (tL (tnth 2 t))) (tI (tnth 3 t)))
  | _ => TL []
  end.
