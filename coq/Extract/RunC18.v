(* Entry point of the extracted model for property C18.
   cases: (1 scenario)                 a demux scenario whose reader starts failing at an offset (RunDemux.v)
          (3 scenario cause)          the same; the reader's failure is an error that wraps io.EOF / io.ErrUnexpectedEOF
          (2 period ops failAt)        a muxer history whose io.Writer fails on its failAt-th Write call (0-based, counted
                                       over the whole history); the history is observed up to and including the failing call
   observation of (2): one entry per call (code n accepted): for the failing call code = the injected error,
   n = what the call reports (the sizes of the parts it accounts for that were completed before the failing Write),
   accepted = the bytes the writer accepted during the call before the failing Write. *)
From Coq Require Import ZArith List.
Require Import Base.Tok Base.Iter Base.Wr Gen.Consts Gen.Types Gen.Preds Model.Packet Model.Muxer Model.DemuxFull Model.Faults Model.MuxFaults
  Extract.RunBase Extract.RunDemux Extract.RunMux.
Import ListNotations.
Open Scope Z_scope.

(* the faulty run itself is Model/MuxFaults.v mux_run_faulty (the subject of the C18_mux_* theorems) *)
Definition tok_of_fentry (e : fentry) : tok :=
  let '(c, n, bs) := e in TL [TI c; TI n; TB bs].

Definition run_faulty (s : mstate) (ops : list mop) (k : Z) : list tok :=
  map tok_of_fentry (mux_run_faulty s ops k).

Definition run_C18 (t : tok) : tok :=
  match tI (tnth 0 t) with
  | 1 => run_demux full_parsers (tnth 1 t)
  | 3 => run_demux full_parsers (tnth 1 t)   (* the failure wraps io.EOF / io.ErrUnexpectedEOF: not end of file either *)
  | 2 => TL (run_faulty (new_muxer (tI (tnth 1 t))) (map mop_of_tok (tL (tnth 2 t))) (tI (tnth 3 t)))
  | _ => TL []
  end.
