(* Entry point of the extracted model for property C03: run_C03 case = observation. *)
From Coq Require Import ZArith List.
Require Import Base.Tok Base.Iter Extract.RunBase.
Import ListNotations.
Open Scope Z_scope.

Definition run_C03 (t : tok) : tok := TL [].
