(* Entry point of the extracted model for property C15 (integer model of dvb.go only; the float
   model is tied to it by the theorems of Proofs/DvbProofs.v and is not extracted).
   cases: (1 bytes)   parseDVBTime             -> res (Unix seconds)
          (2 bytes)   parseDVBDurationSeconds  -> res (nanoseconds)
          (3 bytes)   parseDVBDurationMinutes  -> res (nanoseconds)
          (4 b)       parseDVBDurationByte     -> n
          (5 unix)    writeDVBTime of time.Unix(unix,0).UTC()  -> (bytes n)
          (6 ns)      writeDVBDurationSeconds  -> (bytes n)
          (7 ns)      writeDVBDurationMinutes  -> (bytes n)
          (8 n)       dvbDurationByteRepresentation -> byte
          (9 unix)    write, then parse what was written -> (bytes res) *)
From Coq Require Import ZArith List.
Require Import Base.Tok Base.Iter Base.Wr Gen.Preds Model.Dvb Extract.RunBase.
Import ListNotations.
Open Scope Z_scope.

Definition tok_written (its : list witem) : tok :=
  let bs := bytes_of_items its in TL [TB bs; TI (Z.of_nat (length bs))].

Definition run_C15 (t : tok) : tok :=
  match tI (tnth 0 t) with
  | 1 => tok_of_res TI (run_iter parse_dvb_time (tB (tnth 1 t)))
  | 2 => tok_of_res TI (run_iter parse_dvb_duration_seconds (tB (tnth 1 t)))
  | 3 => tok_of_res TI (run_iter parse_dvb_duration_minutes (tB (tnth 1 t)))
  | 4 => TI (parse_dvb_duration_byte (tI (tnth 1 t)))
  | 5 => tok_written (enc_dvb_time (tI (tnth 1 t)))
  | 6 => tok_written (enc_dvb_duration_seconds (tI (tnth 1 t)))
  | 7 => tok_written (enc_dvb_duration_minutes (tI (tnth 1 t)))
  | 8 => TI (dvbDurationByteRepresentation (tI (tnth 1 t)))
  | 9 => let bs := bytes_of_items (enc_dvb_time (tI (tnth 1 t))) in
         TL [TB bs; tok_of_res TI (run_iter parse_dvb_time bs)]
  | _ => TL []
  end.
