From Coq Require Import ZArith List.
Require Import Base.Tok Gen.Consts Gen.CrcTable Gen.Preds.
Import ListNotations.
Open Scope Z_scope.

(* C10 cases: (1 crc bytes) update; (2 bytes) compute; (3 i) table entry; (4 crc a b) split *)
Definition run_C10 (t : tok) : tok :=
  match tI (tnth 0 t) with
  | 1 => TI (updateCRC32 (tI (tnth 1 t)) (tB (tnth 2 t)))
  | 2 => TI (computeCRC32 (tB (tnth 1 t)))
  | 3 => TI (nth (Z.to_nat (tI (tnth 1 t))) tableCRC32 0)
  | 4 => TI (updateCRC32 (updateCRC32 (tI (tnth 1 t)) (tB (tnth 2 t))) (tB (tnth 3 t)))
  | _ => TL []
  end.
