(* Scenario runner shared by the demuxer properties (C02 C03 C06 C07 C08 C16 C18 C19 C20).
   case  = (kind opt_size fault chunks skipspec parserspec data ops)
     kind       0 plain reader, 1 seekable (bytes.Reader), 2 bufio.Reader
     opt_size   0 = auto-detect
     fault      -1 none, else the offset at which the reader starts failing
     chunks     Read fragmentation schedule (ignored by the model: see Proofs/ReaderProofs.v)
     skipspec   (0) none | (1 (pid ...)) by PID set | (2 cc) by counter | (3) PUSI packets | (4 seed) pseudo-random
                per packet | (5) all | (6) packets with an adaptation field
     parserspec (0) none | (1) observer | (2 (pid ...)) replacer on a PID set | (3 (pid ...)) failing on a PID set | (4) replacer
     ops        0 NextPacket | 1 NextData | 2 Rewind | 3 NextData until nomore or the injected reader failure (at most cap calls) | 4 NextPacket likewise
   observation = (results final-state groups consulted) *)
From Coq Require Import ZArith List Bool.
Require Import Base.Tok Base.Iter Gen.Types Gen.Consts Model.Packet Model.Pool Model.Reader Model.Demux Extract.RunBase.
Import ListNotations.
Open Scope Z_scope.

(* kinds 10..12 are 0..2 with a reader that returns io.EOF together with the last bytes; +20 / +40: the injected fault
   wraps io.EOF / io.ErrUnexpectedEOF (still a fault, not end of input): same model *)
Definition kind_of (z : Z) : rkind := let z := z mod 10 in if z =? 1 then Seekable else if z =? 2 then Bufio else Plain.

Definition zmem (x : Z) (l : list Z) : bool := existsb (Z.eqb x) l.

Definition skipper_of (t : tok) : Packet -> bool :=
  let pids := to_list tI (tnth 1 t) in
  let a := tI (tnth 1 t) in
  match tI (tnth 0 t) with
  | 1 => fun p => zmem (pid_of p) pids
  | 2 => fun p => cc_of p =? a
  | 3 => fun p => pusi p
  | 4 => fun p => ((pid_of p * 31 + cc_of p * 7 + a + (if pusi p then 3 else 0)) mod 3) =? 0
  | 5 => fun _ => true
  | 6 => fun p => PacketHeader_HasAdaptationField (Packet_Header p)
  | _ => fun _ => false
  end.

Definition head_packet (p : Packet) (payload : list Z) : Packet :=
  {| Packet_AdaptationField := Packet_AdaptationField p; Packet_Header := Packet_Header p; Packet_Payload := payload |}.

Definition marker (pid : Z) (fp : Packet) : DemuxerData :=
  {| DemuxerData_EIT := None; DemuxerData_FirstPacket := Some fp; DemuxerData_NIT := None; DemuxerData_PAT := None;
     DemuxerData_PES := None; DemuxerData_PID := pid; DemuxerData_PMT := None; DemuxerData_SDT := None;
     DemuxerData_TOT := None |}.

(* the replacer returns one datum carrying the first packet's header and the whole payload, and a second one
   (the last packet) when the group has an even number of packets *)
Definition replace_group (ps : list Packet) : list DemuxerData :=
  match ps with
  | [] => []
  | p0 :: _ =>
      let d1 := marker (pid_of p0) (head_packet p0 (concat_payload ps)) in
      if Nat.even (length ps) then [d1; marker (pid_of p0) (last ps p0)] else [d1]
  end.

Definition parser_of (t : tok) : option custom_parser :=
  let pids := to_list tI (tnth 1 t) in
  let gpid (ps : list Packet) := match ps with p0 :: _ => pid_of p0 | [] => -1 end in
  match tI (tnth 0 t) with
  | 1 => Some (fun _ => Ok ([], false))
  | 2 => Some (fun ps => if zmem (gpid ps) pids then Ok (replace_group ps, true) else Ok ([], false))
  | 3 => Some (fun ps => if zmem (gpid ps) pids then Err E_generic else Ok ([], false))
  | 4 => Some (fun ps => Ok (replace_group ps, true))
  | 5 => Some (fun ps => Ok (replace_group ps, false))
  | _ => None
  end.

Definition pos_tok (s : dstate) : tok := TI (r_pos (d_reader s)).

Definition tok_of_pkt_summary (p : Packet) : tok :=
  TL [TI (pid_of p); TI (cc_of p); of_bool (pusi p); TI (Z.of_nat (length (Packet_Payload p)))].

Fixpoint zinsert (x : Z) (l : list Z) : list Z :=
  match l with [] => [x] | y :: r => if x <=? y then x :: l else y :: zinsert x r end.
Definition zsort (l : list Z) : list Z := fold_right zinsert [] l.

Definition state_tok (s : dstate) : tok :=
  TL [TI (Z.of_nat (length (d_buffer s)));
      match d_pb s with Some pb => TL [TI (pb_size pb)] | None => TL [] end;
      TL (map (fun e => TL [TI (fst e); TI (Z.of_nat (length (snd e)))]) (d_pool s));
      TL (map TI (zsort (d_pm s)))].

Section Run.
  Variable P : dparsers.

  Fixpoint repeat_data (fuel : nat) (prs : option custom_parser) (skip : Packet -> bool) (s : dstate) (acc : list tok)
    : list tok * dstate :=
    match fuel with
    | O => (acc ++ [TL [TI 9]], s)          (* cap hit: reported as such *)
    | S k =>
        let '(r, s') := next_data P prs skip s in
        let acc' := acc ++ [TL [tok_of_res tok_of_DemuxerData r; pos_tok s']] in
        match r with
        | Err c => if (c =? E_nomore) || (c =? E_injected) then (acc', s') else repeat_data k prs skip s' acc'
        | Panic => (acc', s')
        | Ok _ => repeat_data k prs skip s' acc'
        end
    end.

  Fixpoint repeat_packet (fuel : nat) (skip : Packet -> bool) (s : dstate) (acc : list tok) : list tok * dstate :=
    match fuel with
    | O => (acc ++ [TL [TI 9]], s)
    | S k =>
        let '(r, s') := next_packet skip s in
        let acc' := acc ++ [TL [tok_of_res tok_of_Packet r; pos_tok s']] in
        match r with
        | Err c => if (c =? E_nomore) || (c =? E_injected) then (acc', s') else repeat_packet k skip s' acc'
        | Panic => (acc', s')
        | Ok _ => repeat_packet k skip s' acc'
        end
    end.

  Definition cap_of (data : list Z) : nat := (3 * length data + 8)%nat.

  Fixpoint run_ops (ops : list Z) (prs : option custom_parser) (skip : Packet -> bool) (cap : nat) (s : dstate) (acc : list tok)
    : list tok * dstate :=
    match ops with
    | [] => (acc, s)
    | op :: rest =>
        let '(out, s') :=
          match op with
          | 0 => let '(r, s') := next_packet skip s in ([TL [tok_of_res tok_of_Packet r; pos_tok s']], s')
          | 1 => let '(r, s') := next_data P prs skip s in ([TL [tok_of_res tok_of_DemuxerData r; pos_tok s']], s')
          | 2 => let '(n, s') := rewind s in ([TL [TI n; pos_tok s'; state_tok s']], s')
          | 3 => repeat_data cap prs skip s []
          | _ => repeat_packet cap skip s []
          end in
        run_ops rest prs skip cap s' (acc ++ out)
    end.

  Definition run_demux (t : tok) : tok :=
    let kind := kind_of (tI (tnth 0 t)) in
    let opt_size := tI (tnth 1 t) in
    let fault := tI (tnth 2 t) in
    let skip := skipper_of (tnth 4 t) in
    let prs := parser_of (tnth 5 t) in
    let data := tB (tnth 6 t) in
    let ops := to_list tI (tnth 7 t) in
    let r := new_reader data (if fault <? 0 then None else Some fault) kind in
    let '(out, s) := run_ops ops prs skip (cap_of data) (init_dstate r opt_size) [] in
    TL [TL out; state_tok s;
        (if tI (tnth 0 (tnth 5 t)) =? 0 then TL [] else TL (map (fun g => TL (map tok_of_pkt_summary g)) (d_groups s)));
        (if tI (tnth 0 (tnth 4 t)) =? 0 then TL [] else TL (map tok_of_pkt_summary (d_consulted s)))].
End Run.

(* parsers that are never reached when every group is replaced (parserspec 4) or only packets are read *)
Definition no_parsers : dparsers := mk_dparsers (fun _ _ _ => Ok []) (fun _ => Err E_generic).
