(* Entry point of the extracted model for property C09: run_C09 case = observation.
   cases: (1 bytes)            parsePSIData + toData: the three-way outcome (tables | error | nothing)
          (2 bytes off mask)   the same on bytes with mask XOR-ed in at byte offset off
          (3 psidata)          writePSIData, then the outcome of parsing what was written
   outcome: (0 (table ...)) with one (EIT NIT PAT PMT SDT TOT) entry per delivered table -- () = nothing --,
            (1 code) error, (2) panic *)
From Coq Require Import ZArith List.
Require Import Base.Tok Base.Iter Base.Wr Gen.Types Model.Psi Extract.RunBase.
Import ListNotations.
Open Scope Z_scope.

Definition tok_of_table (d : DemuxerData) : tok :=
  TL [of_opt tok_of_EITData (DemuxerData_EIT d); of_opt tok_of_NITData (DemuxerData_NIT d);
      of_opt tok_of_PATData (DemuxerData_PAT d); of_opt tok_of_PMTData (DemuxerData_PMT d);
      of_opt tok_of_SDTData (DemuxerData_SDT d); of_opt tok_of_TOTData (DemuxerData_TOT d)].

Definition outcome (bs : list Z) : tok :=
  tok_of_res (fun d => TL (map tok_of_table (psi_to_data d zero_Packet 0))) (parse_psi_data_bytes bs).

Fixpoint xor_at (bs : list Z) (off : nat) (mask : list Z) : list Z :=
  match bs with
  | [] => []
  | b :: r =>
      match off with
      | S k => b :: xor_at r k mask
      | O => match mask with [] => bs | m :: mr => Z.lxor b m :: xor_at r O mr end
      end
  end.

Definition run_C09 (t : tok) : tok :=
  match tI (tnth 0 t) with
  | 1 => outcome (tB (tnth 1 t))
  | 2 => outcome (xor_at (tB (tnth 1 t)) (Z.to_nat (tI (tnth 2 t))) (tB (tnth 3 t)))
  | 3 => match write_psi_data (PSIData_of_tok (tnth 1 t)) with
         | Ok bs => TL [TI 0; TB bs; outcome bs]
         | Err c => TL [TI 1; TI c]
         | Panic => TL [TI 2]
         end
  | _ => TL []
  end.
