(* Entry point of the extracted model for property C09: run_C09 case = observation. *)
From Coq Require Import ZArith List.
Require Import Base.Tok Base.Iter Extract.RunBase.
Import ListNotations.
Open Scope Z_scope.

Definition run_C09 (t : tok) : tok := TL [].
