(* Entry point of the extracted model for property C08: a demux scenario (see RunDemux.v). *)
From Coq Require Import ZArith List.
Require Import Base.Tok Base.Iter Model.DemuxFull Extract.RunBase Extract.RunDemux.
Import ListNotations.
Open Scope Z_scope.

Definition run_C08 (t : tok) : tok := run_demux full_parsers t.
