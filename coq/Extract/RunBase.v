(* Helpers shared by the per-property entry points of the extracted model. *)
From Coq Require Import ZArith List.
Require Import Base.Tok Base.Iter.
Import ListNotations.
Open Scope Z_scope.

(* (0 v) ok, (1 code) error, (2) panic *)
Definition tok_of_res {A} (f : A -> tok) (r : res A) : tok :=
  match r with
  | Ok a => TL [TI 0; f a]
  | Err c => TL [TI 1; TI c]
  | Panic => TL [TI 2]
  end.
Definition tok_unit (_ : unit) : tok := TL [].
Definition tok_pair {A B} (f : A -> tok) (g : B -> tok) (p : A * B) : tok := TL [f (fst p); g (snd p)].
