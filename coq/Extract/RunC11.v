(* Entry point of the extracted model for property C11.
   cases: (1 bytes)            parsePacket on one packet-sized buffer
          (2 packet target)    writePacket
          (3 bytes)            parse, then write the result with target 188
          (5 bytes n)          the same, for packets with n reserved bytes in the adaptation extension (finding K1) *)
From Coq Require Import ZArith List.
Require Import Base.Tok Base.Iter Base.Wr Gen.Types Model.Packet Extract.RunBase.
Import ListNotations.
Open Scope Z_scope.

Definition run_C11 (t : tok) : tok :=
  match tI (tnth 0 t) with
  | 1 => tok_of_res tok_of_Packet (parse_packet_bytes (tB (tnth 1 t)))
  | 2 => tok_of_res TB (write_packet (Packet_of_tok (tnth 1 t)) (tI (tnth 2 t)))
  | 3 | 5 => match parse_packet_bytes (tB (tnth 1 t)) with
         | Ok p => TL [TI 0; tok_of_Packet p; tok_of_res TB (write_packet p 188)]
         | Err c => TL [TI 1; TI c]
         | Panic => TL [TI 2]
         end
  | _ => TL []
  end.
