(* Entry point of the extracted model for property C05: run_C05 case = observation. *)
From Coq Require Import ZArith List.
Require Import Base.Tok Base.Iter Extract.RunBase.
Import ListNotations.
Open Scope Z_scope.

Definition run_C05 (t : tok) : tok := TL [].
