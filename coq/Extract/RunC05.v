(* Entry point of the extracted model for property C05: the shared Muxer scenario runner (Extract/RunMux.v). *)
From Coq Require Import ZArith List.
Require Import Base.Tok Extract.RunMux.

Definition run_C05 (t : tok) : tok := run_mux t.
