(* Entry point of the extracted model for property C20: run_C20 case = observation. *)
From Coq Require Import ZArith List.
Require Import Base.Tok Base.Iter Extract.RunBase.
Import ListNotations.
Open Scope Z_scope.

Definition run_C20 (t : tok) : tok := TL [].
