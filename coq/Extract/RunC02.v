(* Entry point of the extracted model for property C02: run_C02 case = observation. *)
From Coq Require Import ZArith List.
Require Import Base.Tok Base.Iter Extract.RunBase.
Import ListNotations.
Open Scope Z_scope.

Definition run_C02 (t : tok) : tok := TL [].
