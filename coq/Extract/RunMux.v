(* Shared scenario runner of the Muxer properties C04, C05 and C17 (and, through it, C01/C16/C18).
   case:         (period (op ...))      op = (0 es) AddElementaryStream   (1 pid) RemoveElementaryStream
                                             (2 pid) SetPCRPID            (3) WriteTables
                                             (4 muxerdata) WriteData      (5 packet) WritePacket
   observation:  one entry per call: (code n bytes state writes)
                 code  = -1 ok, the error code of Base/Iter.v, or -2 for a panic
                 n     = the int the call returned (0 for calls that return only an error, and for a panic)
                 bytes = what the writer accepted during the call
                 state = VerifState() after the call: (patCC pmtCC patVersion pmtVersion pmUpdated pmtUpdated nextPID
                         retransmitCounter retransmitPeriod (esPIDs, increasing) (esCCs) (pmtPIDs, insertion order) pcrPID)
                 writes = the length of every io.Writer.Write call the call makes, in order (concat of mo_groups) *)
From Coq Require Import ZArith List.
Require Import Base.Tok Base.Iter Base.Wr Gen.Types Gen.Preds Model.Muxer Extract.RunBase.
Import ListNotations.
Open Scope Z_scope.

Definition mop_of_tok (t : tok) : mop :=
  match tI (tnth 0 t) with
  | 0 => MAdd (PMTElementaryStream_of_tok (tnth 1 t))
  | 1 => MRemove (tI (tnth 1 t))
  | 2 => MSetPCR (tI (tnth 1 t))
  | 3 => MWriteTables
  | 4 => MWriteData (MuxerData_of_tok (tnth 1 t))
  | _ => MWritePacket (Packet_of_tok (tnth 1 t))
  end.

(* insertion sort of the contexts by PID (the hook reports them by increasing PID) *)
Fixpoint ins_ctx (p : Z * esctx) (l : list (Z * esctx)) : list (Z * esctx) :=
  match l with
  | [] => [p]
  | q :: r => if fst p <=? fst q then p :: l else q :: ins_ctx p r
  end.
Definition sort_ctx (l : list (Z * esctx)) : list (Z * esctx) := fold_right ins_ctx [] l.

Definition tok_of_mstate (s : mstate) : tok :=
  let es := sort_ctx (ms_es s) in
  TL [TI (wrappingCounter_get (ms_pat_cc s)); TI (wrappingCounter_get (ms_pmt_cc s));
      TI (wrappingCounter_get (ms_pat_version s)); TI (wrappingCounter_get (ms_pmt_version s));
      of_bool (ms_pm_updated s); of_bool (ms_pmt_updated s);
      TI (ms_next_pid s); TI (ms_retransmit s); TI (ms_period s);
      TL (map (fun p => TI (fst p)) es);
      TL (map (fun p => TI (wrappingCounter_get (ec_cc (snd p)))) es);
      TL (map (fun e => TI (PMTElementaryStream_ElementaryPID e)) (ms_streams s));
      TI (ms_pcr_pid s)].

Definition code_of_res (r : res unit) : Z :=
  match r with Ok _ => -1 | Err c => c | Panic => -2 end.

Definition tok_of_call (s : mstate) (o : mout) : tok :=
  TL [TI (code_of_res (mo_res o));
      TI (match mo_res o with Panic => 0 | _ => mo_n o end);
      TB (mout_bytes o);
      tok_of_mstate s;
      TL (map (fun c => TI (Z.of_nat (length c))) (concat (mo_groups o)))].

Fixpoint run_ops (s : mstate) (ops : list mop) : list tok :=
  match ops with
  | [] => []
  | o :: r => let '(s', out) := mux_step s o in tok_of_call s' out :: run_ops s' r
  end.

Definition run_mux (t : tok) : tok :=
  TL (run_ops (new_muxer (tI (tnth 0 t))) (map mop_of_tok (tL (tnth 1 t)))).
