(* The exchange format between the Go harness, the OCaml driver and the model:
   an s-expression of integers, byte strings and lists.  Cases and observations
   are both toks; the correspondence check compares their printed forms. *)
From Coq Require Import ZArith List.
Import ListNotations.
Open Scope Z_scope.

Inductive tok : Type :=
| TI (z : Z)
| TB (bs : list Z)
| TL (l : list tok).

Definition tI (t : tok) : Z := match t with TI z => z | _ => 0 end.
Definition tB (t : tok) : list Z := match t with TB b => b | _ => [] end.
Definition tL (t : tok) : list tok := match t with TL l => l | _ => [] end.
Definition tnth (n : nat) (t : tok) : tok := nth n (tL t) (TI 0).
Definition tbool (t : tok) : bool := negb (tI t =? 0).
Definition of_bool (b : bool) : tok := TI (if b then 1 else 0).
Definition of_opt {A} (f : A -> tok) (o : option A) : tok :=
  match o with None => TL [] | Some a => TL [f a] end.
Definition to_opt {A} (f : tok -> A) (t : tok) : option A :=
  match tL t with [] => None | x :: _ => Some (f x) end.
Definition of_list {A} (f : A -> tok) (l : list A) : tok := TL (map f l).
Definition to_list {A} (f : tok -> A) (t : tok) : list A := map f (tL t).
