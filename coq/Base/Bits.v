(* Bit strings (MSB first), as astikit.BitsWriter produces them and as the parsers'
   masks and shifts read them. *)
From Coq Require Import ZArith List Lia Bool.
Import ListNotations.
Open Scope Z_scope.

(* the low w bits of v, most significant first (two's complement for negative v,
   as Go's conversion to an unsigned type) *)
Fixpoint bits_of (w : nat) (v : Z) : list bool :=
  match w with O => [] | S k => Z.testbit v (Z.of_nat k) :: bits_of k v end.

Fixpoint Z_of_bits_acc (l : list bool) (acc : Z) : Z :=
  match l with [] => acc | b :: r => Z_of_bits_acc r (2 * acc + Z.b2z b) end.
Definition Z_of_bits (l : list bool) : Z := Z_of_bits_acc l 0.

Definition bit (b : bool) : list bool := [b].

(* whole bytes of a bit string; a trailing group of fewer than 8 bits is not flushed *)
Fixpoint bytes_of_bits (l : list bool) : list Z :=
  match l with
  | b7 :: b6 :: b5 :: b4 :: b3 :: b2 :: b1 :: b0 :: r =>
      Z_of_bits [b7; b6; b5; b4; b3; b2; b1; b0] :: bytes_of_bits r
  | _ => []
  end.

Definition bits_of_bytes (bs : list Z) : list bool := flat_map (bits_of 8) bs.

(* bit field: w bits starting at bit offset off of a byte string *)
Definition field (bits : list bool) (off w : nat) : Z := Z_of_bits (firstn w (skipn off bits)).
Definition bitsf (bs : list Z) (off w : nat) : Z := field (bits_of_bytes bs) off w.
Definition bitb (bs : list Z) (off : nat) : bool := bitsf bs off 1 =? 1.

Definition byte_ok (b : Z) : Prop := 0 <= b < 256.
Definition bytes_ok (bs : list Z) : Prop := Forall byte_ok bs.

(* ---------------- lemmas ---------------- *)

Lemma bits_of_length w v : length (bits_of w v) = w.
Proof. induction w; simpl; congruence. Qed.

Lemma Z_of_bits_acc_app l1 l2 acc :
  Z_of_bits_acc (l1 ++ l2) acc = Z_of_bits_acc l2 (Z_of_bits_acc l1 acc).
Proof. revert acc; induction l1; simpl; intros; auto. Qed.

Lemma Z_of_bits_acc_bits_of w v acc :
  Z_of_bits_acc (bits_of w v) acc = acc * 2 ^ Z.of_nat w + v mod 2 ^ Z.of_nat w.
Proof.
  revert acc. induction w as [|w IH]; intros acc.
  - simpl. rewrite Z.mod_1_r. lia.
  - cbn [bits_of Z_of_bits_acc]. rewrite IH.
    rewrite Nat2Z.inj_succ, Z.pow_succ_r by lia.
    set (W := Z.of_nat w). set (P := 2 ^ W).
    assert (HP : 0 < P) by (apply Z.pow_pos_nonneg; lia).
    assert (Hb : 0 <= (v / P) mod 2 < 2) by (apply Z.mod_pos_bound; lia).
    replace (Z.b2z (Z.testbit v W)) with ((v / P) mod 2).
    2:{ rewrite (Z.testbit_spec' v W) by lia. fold P. reflexivity. }
    rewrite (Z.mul_comm 2 P), Z.rem_mul_r by lia. fold P. ring.
Qed.

Lemma Z_of_bits_of_mod w v : Z_of_bits (bits_of w v) = v mod 2 ^ Z.of_nat w.
Proof. unfold Z_of_bits. rewrite Z_of_bits_acc_bits_of. lia. Qed.

Lemma Z_of_bits_of w v : 0 <= v < 2 ^ Z.of_nat w -> Z_of_bits (bits_of w v) = v.
Proof. intros H. rewrite Z_of_bits_of_mod. apply Z.mod_small. exact H. Qed.

Lemma Z_of_bits_acc_range l acc : 0 <= acc ->
  acc * 2 ^ Z.of_nat (length l) <= Z_of_bits_acc l acc < (acc + 1) * 2 ^ Z.of_nat (length l).
Proof.
  revert acc. induction l as [|b l IH]; intros acc Ha.
  - simpl. lia.
  - cbn [Z_of_bits_acc length]. rewrite Nat2Z.inj_succ, Z.pow_succ_r by lia.
    assert (Hb : 0 <= Z.b2z b <= 1) by (destruct b; simpl; lia).
    specialize (IH (2 * acc + Z.b2z b) ltac:(lia)).
    assert (0 < 2 ^ Z.of_nat (length l)) by (apply Z.pow_pos_nonneg; lia).
    nia.
Qed.

Lemma Z_of_bits_range l : 0 <= Z_of_bits l < 2 ^ Z.of_nat (length l).
Proof. pose proof (Z_of_bits_acc_range l 0 ltac:(lia)). unfold Z_of_bits. lia. Qed.

Lemma bits_of_Z_of_bits l : bits_of (length l) (Z_of_bits l) = l.
Proof.
  unfold Z_of_bits.
  assert (G : forall l acc, 0 <= acc ->
     bits_of (length l) (Z_of_bits_acc l acc) = l).
  { clear. induction l as [|b l IH]; intros acc Ha; [reflexivity|].
    cbn [length bits_of Z_of_bits_acc]. f_equal.
    - pose proof (Z_of_bits_acc_range l (2 * acc + Z.b2z b)) as R.
      assert (Hb : 0 <= Z.b2z b <= 1) by (destruct b; simpl; lia).
      specialize (R ltac:(lia)).
      set (P := 2 ^ Z.of_nat (length l)) in *.
      assert (HP : 0 < P) by (apply Z.pow_pos_nonneg; lia).
      set (x := Z_of_bits_acc l (2 * acc + Z.b2z b)) in *.
      assert (E : x / P = 2 * acc + Z.b2z b).
      { symmetry. apply Z.div_unique with (r := x - (2 * acc + Z.b2z b) * P); lia. }
      assert (Hbz : Z.b2z (Z.testbit x (Z.of_nat (length l))) = Z.b2z b).
      { rewrite Z.testbit_spec' by lia. fold P. rewrite E.
        replace (2 * acc + Z.b2z b) with (Z.b2z b + acc * 2) by ring.
        rewrite Z.mod_add by lia. destruct b; reflexivity. }
      destruct (Z.testbit x (Z.of_nat (length l))), b; simpl in Hbz; try reflexivity; lia.
    - apply IH. destruct b; cbn [Z.b2z]; lia. }
  apply (G l 0 ltac:(lia)).
Qed.

Lemma field_here w v rest : 0 <= v < 2 ^ Z.of_nat w -> field (bits_of w v ++ rest) 0 w = v.
Proof.
  intros. unfold field. simpl skipn.
  rewrite firstn_app, bits_of_length, Nat.sub_diag, firstn_O, app_nil_r.
  rewrite firstn_all2 by (rewrite bits_of_length; lia). apply Z_of_bits_of; auto.
Qed.

Lemma field_here_mod w v rest : field (bits_of w v ++ rest) 0 w = v mod 2 ^ Z.of_nat w.
Proof.
  unfold field. simpl skipn.
  rewrite firstn_app, bits_of_length, Nat.sub_diag, firstn_O, app_nil_r.
  rewrite firstn_all2 by (rewrite bits_of_length; lia). apply Z_of_bits_of_mod.
Qed.

Lemma field_skip w v rest off w' : (w <= off)%nat ->
  field (bits_of w v ++ rest) off w' = field rest (off - w) w'.
Proof.
  intros. unfold field. rewrite skipn_app, bits_of_length.
  rewrite skipn_all2 by (rewrite bits_of_length; lia). reflexivity.
Qed.

Lemma field_skip_list (pre : list bool) rest off w' : (length pre <= off)%nat ->
  field (pre ++ rest) off w' = field rest (off - length pre) w'.
Proof.
  intros. unfold field. rewrite skipn_app.
  rewrite skipn_all2 by lia. reflexivity.
Qed.

Lemma field_bit_here (b : bool) rest : field (b :: rest) 0 1 = Z.b2z b.
Proof. unfold field. simpl. unfold Z_of_bits. simpl. destruct b; reflexivity. Qed.

Lemma field_bit_skip (b : bool) rest off w : field (b :: rest) (S off) w = field rest off w.
Proof. reflexivity. Qed.

Lemma b2z_eqb b : (Z.b2z b =? 1) = b. Proof. destruct b; reflexivity. Qed.
Lemma b2z_range b : 0 <= Z.b2z b < 2 ^ Z.of_nat 1. Proof. destruct b; simpl; lia. Qed.
Lemma bits_of_1_b2z b : bits_of 1 (Z.b2z b) = [b]. Proof. destruct b; reflexivity. Qed.

(* bytes <-> bits *)

Lemma bits_of_bytes_app a b : bits_of_bytes (a ++ b) = bits_of_bytes a ++ bits_of_bytes b.
Proof. unfold bits_of_bytes. apply flat_map_app. Qed.

Lemma bits_of_bytes_length bs : length (bits_of_bytes bs) = (8 * length bs)%nat.
Proof. induction bs as [|b bs IH]; [reflexivity|]. unfold bits_of_bytes in *. cbn [flat_map length].
  rewrite app_length, IH, bits_of_length. lia. Qed.

Lemma bytes_of_bits_8 (l8 r : list bool) : length l8 = 8%nat ->
  bytes_of_bits (l8 ++ r) = Z_of_bits l8 :: bytes_of_bits r.
Proof.
  intros H. do 8 (destruct l8 as [|? l8]; [discriminate|]). destruct l8; [|discriminate]. reflexivity.
Qed.

Lemma bytes_of_bits_app (n : nat) : forall a b, length a = (8 * n)%nat ->
  bytes_of_bits (a ++ b) = bytes_of_bits a ++ bytes_of_bits b.
Proof.
  induction n as [|n IH]; intros a b Ha.
  - destruct a; [reflexivity|discriminate].
  - do 8 (destruct a as [|? a]; [simpl in Ha; lia|]).
    cbn [app bytes_of_bits]. f_equal. apply IH. simpl in Ha. lia.
Qed.

Lemma bytes_of_bits_bits_of_8 v : bytes_of_bits (bits_of 8 v) = [v mod 256].
Proof.
  rewrite <- (app_nil_r (bits_of 8 v)). rewrite bytes_of_bits_8 by apply bits_of_length.
  rewrite Z_of_bits_of_mod. reflexivity.
Qed.

Lemma bytes_of_bits_of_bytes bs : bytes_ok bs -> bytes_of_bits (bits_of_bytes bs) = bs.
Proof.
  induction 1 as [|b bs Hb _ IH]; [reflexivity|].
  unfold bits_of_bytes in *. cbn [flat_map].
  rewrite bytes_of_bits_8 by apply bits_of_length.
  rewrite IH, Z_of_bits_of by (exact Hb). reflexivity.
Qed.

Lemma bits_of_bytes_of_bits (n : nat) : forall l, length l = (8 * n)%nat ->
  bits_of_bytes (bytes_of_bits l) = l.
Proof.
  induction n as [|n IH]; intros l Hl.
  - destruct l; [reflexivity|discriminate].
  - do 8 (destruct l as [|? l]; [simpl in Hl; lia|]).
    cbn [bytes_of_bits]. unfold bits_of_bytes in *. cbn [flat_map].
    rewrite IH by (simpl in Hl; lia).
    change 8%nat with (length [b; b0; b1; b2; b3; b4; b5; b6]).
    rewrite bits_of_Z_of_bits. reflexivity.
Qed.

Lemma bytes_of_bits_ok l : bytes_ok (bytes_of_bits l).
Proof.
  assert (G : forall n l, (length l <= n)%nat -> bytes_ok (bytes_of_bits l)).
  { clear. induction n as [|n IH]; intros l Hl.
    - destruct l; [constructor|simpl in Hl; lia].
    - do 8 (destruct l as [|? l]; [constructor|]).
      cbn [bytes_of_bits]. constructor.
      + apply (Z_of_bits_range [_;_;_;_;_;_;_;_]).
      + apply IH. simpl in Hl. lia. }
  apply (G (length l)). lia.
Qed.

Lemma bytes_of_bits_length (n : nat) : forall l, length l = (8 * n)%nat -> length (bytes_of_bits l) = n.
Proof.
  induction n as [|n IH]; intros l Hl.
  - destruct l; [reflexivity|discriminate].
  - do 8 (destruct l as [|? l]; [simpl in Hl; lia|]). cbn [bytes_of_bits length]. f_equal.
    apply IH. simpl in Hl. lia.
Qed.
