(* astikit.BitsWriter (v0.30.0) as the code uses it: a writer function is modelled as
   the list of items it hands to the BitsWriter, in order; [chunks_of] interprets the
   list with the BitsWriter's cache semantics and yields one byte string per call of
   the underlying io.Writer.Write (bit fields: one call per completed byte; a byte
   slice with an empty cache: one call for the whole slice, none for an empty slice).
   The bytes written are the concatenation (lemma chunks_concat). *)
From Coq Require Import ZArith List Lia Bool.
Require Import Base.Bits.
Import ListNotations.
Open Scope Z_scope.

Inductive witem : Type :=
| WBits (w : nat) (v : Z)      (* WriteN(v, w); Write(uint8/16/32/64) with w = 8/16/32/64 *)
| WBool (b : bool)             (* Write(bool) *)
| WBytes (bs : list Z).        (* Write([]byte) *)

Definition wu8 (v : Z) : witem := WBits 8 v.
Definition wu16 (v : Z) : witem := WBits 16 v.
Definition wu32 (v : Z) : witem := WBits 32 v.

Definition item_bits (it : witem) : list bool :=
  match it with
  | WBits w v => bits_of w v
  | WBool b => [b]
  | WBytes bs => bits_of_bytes bs
  end.
Definition items_bits (l : list witem) : list bool := flat_map item_bits l.

(* the bits that stay in the cache: those after the last whole byte *)
Definition leftover (l : list bool) : list bool := skipn (8 * (length l / 8)) l.

(* writer state: cached bits (fewer than 8), calls made so far (most recent last) *)
Definition wstate : Type := (list bool * list (list Z))%type.

Definition push_bits (st : wstate) (bs : list bool) : wstate :=
  let all := fst st ++ bs in
  (leftover all, snd st ++ map (fun b => [b]) (bytes_of_bits all)).

Definition run_item (st : wstate) (it : witem) : wstate :=
  match it with
  | WBytes bs =>
      match fst st with
      | [] => (@nil bool, match bs with [] => snd st | _ => snd st ++ [bs] end)
      | _ => push_bits st (bits_of_bytes bs)
      end
  | _ => push_bits st (item_bits it)
  end.

Definition run_items (l : list witem) (st : wstate) : wstate := fold_left run_item l st.
Definition chunks_of (l : list witem) : list (list Z) := snd (run_items l ([], [])).
Definition bytes_of_items (l : list witem) : list Z := concat (chunks_of l).
(* number of bytes an item list produces when it is byte aligned *)
Definition items_len (l : list witem) : Z := Z.of_nat (length (bytes_of_items l)).

(* ---- fault injection: the k-th call (0-based, counted over a whole history) fails ---- *)
(* accepted bytes before the failing call; None = no call of this list fails *)
Fixpoint accepted_before (chunks : list (list Z)) (k : nat) : option (list Z) :=
  match chunks, k with
  | [], _ => None
  | _ :: _, O => Some []
  | c :: r, S k' => option_map (app c) (accepted_before r k')
  end.

(* ---------------- lemmas ---------------- *)

Lemma bytes_of_bits_short l : (length l < 8)%nat -> bytes_of_bits l = [].
Proof.
  intros H. do 8 (destruct l as [|? l]; [reflexivity|]). simpl in H. lia.
Qed.

Lemma firstn_skipn_leftover (l : list bool) :
  l = firstn (8 * (length l / 8)) l ++ leftover l.
Proof. unfold leftover. symmetry. apply firstn_skipn. Qed.

Lemma leftover_short l : (length (leftover l) < 8)%nat.
Proof.
  unfold leftover. rewrite skipn_length.
  pose proof (Nat.div_mod (length l) 8 ltac:(lia)).
  pose proof (Nat.mod_upper_bound (length l) 8 ltac:(lia)). lia.
Qed.

Lemma bytes_of_bits_split l m :
  bytes_of_bits (l ++ m) = bytes_of_bits l ++ bytes_of_bits (leftover l ++ m).
Proof.
  rewrite (firstn_skipn_leftover l) at 1 2.
  set (a := firstn (8 * (length l / 8)) l).
  assert (Ha : length a = (8 * (length l / 8))%nat).
  { unfold a. rewrite firstn_length.
    pose proof (Nat.div_mod (length l) 8 ltac:(lia)). lia. }
  rewrite <- app_assoc.
  rewrite (bytes_of_bits_app _ a _ Ha).
  rewrite (bytes_of_bits_app _ a (leftover l) Ha).
  rewrite (bytes_of_bits_short (leftover l) (leftover_short l)), app_nil_r. reflexivity.
Qed.

Lemma concat_map_single {A} (l : list A) : concat (map (fun b => [b]) l) = l.
Proof. induction l; simpl; congruence. Qed.

(* invariant of run_items: bytes so far ++ bytes still to come from (cache ++ rest) *)
Definition items_bytes_ok (l : list witem) : Prop :=
  Forall (fun it => match it with WBytes bs => bytes_ok bs | _ => True end) l.

Lemma run_items_concat l : items_bytes_ok l -> forall st, (length (fst st) < 8)%nat ->
  concat (snd (run_items l st)) = concat (snd st) ++ bytes_of_bits (fst st ++ items_bits l)
  /\ (length (fst (run_items l st)) < 8)%nat.
Proof.
  induction 1 as [|it l Hit _ IH]; intros [pend chunks] Hp; cbn [fst snd] in *.
  - unfold run_items; cbn [fold_left fst snd items_bits flat_map]. rewrite app_nil_r.
    rewrite (bytes_of_bits_short pend Hp), app_nil_r. auto.
  - unfold run_items in *. cbn [fold_left items_bits flat_map].
    assert (Hpush : forall bs, concat (snd (push_bits (pend, chunks) bs)) =
              concat chunks ++ bytes_of_bits (pend ++ bs)
              /\ (length (fst (push_bits (pend, chunks) bs)) < 8)%nat).
    { intros bs. unfold push_bits; cbn [fst snd]. rewrite concat_app, concat_map_single.
      split; [reflexivity | apply leftover_short]. }
    assert (Hgen : forall st', st' = push_bits (pend, chunks) (item_bits it) ->
              concat (snd (fold_left run_item l st')) =
              concat chunks ++ bytes_of_bits (pend ++ item_bits it ++ flat_map item_bits l)
              /\ (length (fst (fold_left run_item l st')) < 8)%nat).
    { intros st' ->. destruct (Hpush (item_bits it)) as [H1 H2].
      destruct (IH _ H2) as [IH1 IH2]. split; [|exact IH2].
      rewrite IH1, H1. unfold push_bits; cbn [fst].
      rewrite <- app_assoc. f_equal. rewrite (app_assoc pend). apply eq_sym, bytes_of_bits_split. }
    destruct it as [w v|b|bs]; try (apply Hgen; reflexivity).
    cbn [run_item fst snd]. destruct pend as [|p0 pend'].
    + (* aligned slice: one call *)
      cbn [app item_bits].
      assert (Hc : concat (match bs with [] => chunks | _ :: _ => chunks ++ [bs] end) = concat chunks ++ bs).
      { destruct bs; [now rewrite app_nil_r|]. rewrite concat_app. simpl. now rewrite app_nil_r. }
      destruct (IH (@nil bool, match bs with [] => chunks | _ :: _ => chunks ++ [bs] end)) as [IH1 IH2];
        [simpl; lia|]. cbn [fst snd] in IH1, IH2. split; [|exact IH2].
      rewrite IH1, Hc. cbn [app]. rewrite <- app_assoc. f_equal.
      rewrite (bytes_of_bits_app (length bs)) by apply bits_of_bytes_length.
      rewrite bytes_of_bits_of_bytes by exact Hit. reflexivity.
    + apply Hgen. reflexivity.
Qed.

(* the bytes a writer produces are the bytes of its bit string *)
Lemma chunks_concat l : items_bytes_ok l ->
  bytes_of_items l = bytes_of_bits (items_bits l).
Proof.
  intros H. unfold bytes_of_items, chunks_of.
  destruct (run_items_concat l H ([], [])) as [E _]; [simpl; lia|]. exact E.
Qed.

Lemma items_bits_app a b : items_bits (a ++ b) = items_bits a ++ items_bits b.
Proof. unfold items_bits. apply flat_map_app. Qed.

Lemma items_bytes_ok_app a b : items_bytes_ok a -> items_bytes_ok b -> items_bytes_ok (a ++ b).
Proof. unfold items_bytes_ok. intros. apply Forall_app; auto. Qed.
