(* astikit.BytesIterator (v0.30.0) as a state monad with a three-valued outcome.
   Panic is produced exactly where the Go code would panic (negative index or
   slice bound, make with a negative length); nothing is totalised away, so
   "the model never returns Panic" (C03) is a statement with content.
   Err carries a small tag: 0 generic; see the E_* constants. *)
From Coq Require Import ZArith List Lia Bool ZifyBool.
Import ListNotations.
Open Scope Z_scope.

Inductive res (A : Type) : Type :=
| Ok (a : A)
| Err (code : Z)
| Panic.
Arguments Ok {A} a.
Arguments Err {A} code.
Arguments Panic {A}.

Definition E_generic : Z := 0.
Definition E_nomore : Z := 1.        (* ErrNoMorePackets *)
Definition E_sync : Z := 2.          (* ErrPacketMustStartWithASyncByte *)
Definition E_skipped : Z := 3.       (* errSkippedPacket *)
Definition E_pid_not_found : Z := 4.
Definition E_pid_exists : Z := 5.
Definition E_pcr_pid : Z := 6.
Definition E_injected : Z := 7.      (* the fault a test reader/writer injects *)

Definition res_map {A B} (f : A -> B) (r : res A) : res B :=
  match r with Ok a => Ok (f a) | Err c => Err c | Panic => Panic end.
Definition res_bind {A B} (r : res A) (f : A -> res B) : res B :=
  match r with Ok a => f a | Err c => Err c | Panic => Panic end.
Definition is_ok {A} (r : res A) : bool := match r with Ok _ => true | _ => false end.
Definition is_panic {A} (r : res A) : bool := match r with Panic => true | _ => false end.

(* iterator state: the byte slice and the (possibly negative) offset *)
Record iter := mk_iter { ibs : list Z; ioff : Z }.
Definition ilen (i : iter) : Z := Z.of_nat (length (ibs i)).
Definition new_iter (bs : list Z) : iter := mk_iter bs 0.

Definition IM (A : Type) : Type := iter -> res (A * iter).
Definition iret {A} (a : A) : IM A := fun i => Ok (a, i).
Definition ibind {A B} (m : IM A) (f : A -> IM B) : IM B :=
  fun i => match m i with Ok (a, i') => f a i' | Err c => Err c | Panic => Panic end.
Definition ierr {A} (c : Z) : IM A := fun _ => Err c.
Definition ipanic {A} : IM A := fun _ => Panic.
(* run a pure result inside the iterator monad *)
Definition ilift {A} (r : res A) : IM A := fun i => res_map (fun a => (a, i)) r.

Declare Scope iter_scope.
Delimit Scope iter_scope with iter.
Notation "x <- m ;; f" := (ibind m (fun x => f)) (at level 61, m at next level, right associativity) : iter_scope.
Notation "' p <- m ;; f" := (ibind m (fun p => f)) (at level 61, p pattern, m at next level, right associativity) : iter_scope.
Notation "m ;;; f" := (ibind m (fun _ => f)) (at level 61, right associativity) : iter_scope.
Open Scope iter_scope.

(* slice bs[a:b] for 0 <= a <= b <= len *)
Definition slice (bs : list Z) (a b : Z) : list Z :=
  firstn (Z.to_nat (b - a)) (skipn (Z.to_nat a) bs).

(* NextByte: error when len < offset+1; bs[offset] panics for a negative offset *)
Definition next_byte : IM Z := fun i =>
  if ilen i <? ioff i + 1 then Err E_generic
  else if ioff i <? 0 then Panic
  else Ok (nth (Z.to_nat (ioff i)) (ibs i) 0, mk_iter (ibs i) (ioff i + 1)).

(* NextBytes(n): error when len < offset+n; make([]byte, n) panics for n < 0;
   bs[offset:offset+n] panics for offset < 0 *)
Definition next_bytes (n : Z) : IM (list Z) := fun i =>
  if ilen i <? ioff i + n then Err E_generic
  else if n <? 0 then Panic
  else if ioff i <? 0 then Panic
  else Ok (slice (ibs i) (ioff i) (ioff i + n), mk_iter (ibs i) (ioff i + n)).

(* NextBytesNoCopy(n): same outcome classes (the slice expression panics for a
   negative bound or high < low) *)
Definition next_bytes_nocopy (n : Z) : IM (list Z) := next_bytes n.

Definition iseek (n : Z) : IM unit := fun i => Ok (tt, mk_iter (ibs i) n).
Definition iskip (n : Z) : IM unit := fun i => Ok (tt, mk_iter (ibs i) (ioff i + n)).
Definition ioffset : IM Z := fun i => Ok (ioff i, i).
Definition ilength : IM Z := fun i => Ok (ilen i, i).
Definition has_bytes_left : IM bool := fun i => Ok (ioff i <? ilen i, i).

(* Dump: nil when nothing is left; bs[offset:] panics for a negative offset *)
Definition idump : IM (list Z) := fun i =>
  if negb (ioff i <? ilen i) then Ok ([], i)
  else if ioff i <? 0 then Panic
  else Ok (skipn (Z.to_nat (ioff i)) (ibs i), mk_iter (ibs i) (ilen i)).

Definition run_iter {A} (m : IM A) (bs : list Z) : res A :=
  res_map fst (m (new_iter bs)).

(* bounded loop: `for cond { body }` with fuel; None = fuel exhausted *)
Fixpoint iwhile {S} (fuel : nat) (cond : S -> IM bool) (body : S -> IM S) (s : S) : IM (option S) :=
  match fuel with
  | O => iret None
  | S k => c <- cond s ;; if c then (s' <- body s ;; iwhile k cond body s') else iret (Some s)
  end.

(* ---- byte helpers shared by the parsers ---- *)
Definition byte_at (bs : list Z) (k : nat) : Z := nth k bs 0.
Definition be16 (bs : list Z) : Z := byte_at bs 0 * 256 + byte_at bs 1.
Definition be24 (bs : list Z) : Z := (byte_at bs 0 * 256 + byte_at bs 1) * 256 + byte_at bs 2.
Definition be32 (bs : list Z) : Z := ((byte_at bs 0 * 256 + byte_at bs 1) * 256 + byte_at bs 2) * 256 + byte_at bs 3.
(* bits [hi..lo] of a byte, hi >= lo, bit 7 = MSB *)
Definition bits (b : Z) (hi lo : Z) : Z := (b / 2 ^ lo) mod 2 ^ (hi - lo + 1).
Definition bitset (b : Z) (k : Z) : bool := Z.odd (b / 2 ^ k).

(* ---- basic facts ---- *)
Lemma slice_length bs a b : 0 <= a -> a <= b -> b <= Z.of_nat (length bs) ->
  length (slice bs a b) = Z.to_nat (b - a).
Proof.
  intros. unfold slice. rewrite firstn_length, skipn_length.
  apply Nat.min_l. lia.
Qed.

Lemma next_byte_ok i b i' : next_byte i = Ok (b, i') ->
  0 <= ioff i < ilen i /\ ibs i' = ibs i /\ ioff i' = ioff i + 1 /\ b = nth (Z.to_nat (ioff i)) (ibs i) 0.
Proof.
  unfold next_byte. destruct (ilen i <? ioff i + 1) eqn:E1; [discriminate|].
  destruct (ioff i <? 0) eqn:E2; [discriminate|]. intros H; inversion H; subst; simpl. repeat split; try reflexivity; lia.
Qed.

Lemma next_bytes_ok n i bs i' : next_bytes n i = Ok (bs, i') ->
  0 <= n /\ 0 <= ioff i /\ ioff i + n <= ilen i /\ ibs i' = ibs i /\ ioff i' = ioff i + n /\
  bs = slice (ibs i) (ioff i) (ioff i + n).
Proof.
  unfold next_bytes. destruct (ilen i <? ioff i + n) eqn:E1; [discriminate|].
  destruct (n <? 0) eqn:E2; [discriminate|]. destruct (ioff i <? 0) eqn:E3; [discriminate|].
  intros H; inversion H; subst; simpl. repeat split; try reflexivity; lia.
Qed.

Lemma next_byte_no_panic i : 0 <= ioff i -> next_byte i <> Panic.
Proof. unfold next_byte. intros. destruct (_ <? _); [discriminate|]. destruct (ioff i <? 0) eqn:E; [lia|discriminate]. Qed.

Lemma next_bytes_no_panic n i : 0 <= ioff i -> 0 <= n -> next_bytes n i <> Panic.
Proof.
  unfold next_bytes. intros. destruct (_ <? _); [discriminate|].
  destruct (n <? 0) eqn:E; [lia|]. destruct (ioff i <? 0) eqn:E'; [lia|discriminate].
Qed.

Lemma idump_no_panic i : 0 <= ioff i -> idump i <> Panic.
Proof. unfold idump. intros. destruct (negb _); [discriminate|]. destruct (ioff i <? 0) eqn:E; [lia|discriminate]. Qed.
