(* Writer-side fault injection at the level of Muxer calls (C18): the io.Writer of a Muxer fails on its k-th Write call
   (0-based, counted over the whole history).  [mux_run_faulty] is what is observed of such a history — by the
   correspondence harness (go/harness/c18.go, Extract/RunC18.v) and by the theorems of Proofs/FaultMux.v:
   one entry (code, n, bytes) per call, up to and including the call during which the failing Write happens.
     - a call before the failure: its error class, the count it returns, the bytes the writer accepted during it;
     - the failing call: the injected error, the count the call reports (the sizes of the groups of Writes it had
       completed: Model/Faults.v n_before) and the bytes accepted during the call before the failing Write.
   The history is observed only up to the failing call.  This is also all the model says about a writer that fails
   once and then works again: the Muxer's state after a failed Write (the astikit BitsWriter keeps a full cache byte
   when the flush of a bit field fails, the continuity counter has been incremented, ...) is not modelled. *)
From Coq Require Import ZArith List.
Require Import Base.Iter Base.Wr Gen.Consts Gen.Types Gen.Preds Model.Packet Model.Muxer Model.Faults.
Import ListNotations.
Open Scope Z_scope.

(* Muxer.WritePacket returns writePacket's own count: sync byte, header, adaptation field, payload and every trailing
   0xFF are accounted separately (the same Write calls as mo_groups, grouped more finely: Proofs/FaultMux.v) *)
Definition packet_parts (p : Packet) (target : Z) : list (list (list Z)) :=
  match enc_packet p target with
  | Ok _ =>
      let h := Packet_Header p in
      let af := if PacketHeader_HasAdaptationField h
                then match Packet_AdaptationField p with
                     | Some a => match enc_adaptation_field a with Ok (its, n) => (its, n) | _ => ([], 0) end
                     | None => ([], 0) end
                else ([], 0) in
      let written := 1 + C_mpegTsPacketHeaderSize + snd af in
      let plen := Z.of_nat (length (Packet_Payload p)) in
      let written' := if PacketHeader_HasPayload h then written + plen else written in
      [chunks_of [wu8 syncByte]; chunks_of (enc_packet_header h)] ++
      (match fst af with [] => [] | its => [chunks_of its] end) ++
      (if PacketHeader_HasPayload h then match Packet_Payload p with [] => [] | pl => [[pl]] end else []) ++
      repeat [[255]] (Z.to_nat (target - written'))
  | _ => []
  end.

(* the groups of Write calls a call accounts for together when it reports its count *)
Definition groups_of_call (o : mop) (out : mout) : list (list (list Z)) :=
  match o, mo_res out with
  | MWritePacket p, Ok _ => packet_parts p C_MpegTsPacketSize
  | _, _ => mo_groups out
  end.

(* error class of a call: -1 = nil, -2 = panic, else the code of Base/Iter.v *)
Definition mres_code (r : res unit) : Z :=
  match r with Ok _ => -1 | Err c => c | Panic => -2 end.

Definition fentry : Type := (Z * Z * list Z)%type.

(* what a call shows when no Write fails during it *)
Definition entry_of_call (out : mout) : fentry :=
  (mres_code (mo_res out), match mo_res out with Panic => 0 | _ => mo_n out end, mout_bytes out).

(* number of Write calls of a call *)
Definition call_writes (o : mop) (out : mout) : Z := Z.of_nat (length (concat (groups_of_call o out))).

Fixpoint mux_run_faulty (s : mstate) (ops : list mop) (k : Z) : list fentry :=
  match ops with
  | [] => []
  | o :: r =>
      let '(s', out) := mux_step s o in
      let groups := groups_of_call o out in
      let nwrites := Z.of_nat (length (concat groups)) in
      if k <? nwrites then [(E_injected, n_before groups k, accepted (concat groups) k)]
      else entry_of_call out :: mux_run_faulty s' r (k - nwrites)
  end.

(* the same history over a writer that never fails *)
Fixpoint mux_run_entries (s : mstate) (ops : list mop) : list fentry :=
  match ops with
  | [] => []
  | o :: r => let '(s', out) := mux_step s o in entry_of_call out :: mux_run_entries s' r
  end.

(* number of Write calls of a whole history *)
Fixpoint mux_writes (s : mstate) (ops : list mop) : Z :=
  match ops with
  | [] => 0
  | o :: r => let '(s', out) := mux_step s o in call_writes o out + mux_writes s' r
  end.
