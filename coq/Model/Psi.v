(* data_psi.go, data_pat.go, data_pmt.go, data_sdt.go, data_nit.go, data_eit.go, data_tot.go:
   parsePSIData / parsePSISection / parsePSISectionHeader / parsePSISectionSyntax(Header|Data), the six table
   parsers, PSIData.toData, and the writers writePSIData / writePSISection / writePSISectionSyntax(Header|Data) /
   writePATSection / writePMTSection with their length calculators.  Control flow as in the source.
   Descriptor loops and DVB time fields go through the interfaces of Model/Desc.v and Model/Dvb.v.
   The table-id predicates, shouldStopPSIParsing, computeCRC32/updateCRC32 and calcPATSectionLength are the
   definitions of Gen/Preds.v (re-translated from the source on every run). *)
From Coq Require Import ZArith List Lia Bool.
Require Import Base.Bits Base.Iter Base.Wr Gen.Consts Gen.Types Gen.Preds Model.Packet Model.Desc Model.Dvb.
Import ListNotations.
Open Scope Z_scope.
Open Scope iter_scope.

(* a loop of the model ran out of fuel: never observed (fuel = input length + 1, every iteration consumes input) *)
Definition E_fuel : Z := 99.

(* ---------------- PSITableID.Type() ---------------- *)
(* the strings are the PSITableType* constants, as ASCII codes *)
Definition tt_BAT : list Z := [66; 65; 84].
Definition tt_DIT : list Z := [68; 73; 84].
Definition tt_EIT : list Z := [69; 73; 84].
Definition tt_NIT : list Z := [78; 73; 84].
Definition tt_Null : list Z := [78; 117; 108; 108].
Definition tt_PAT : list Z := [80; 65; 84].
Definition tt_PMT : list Z := [80; 77; 84].
Definition tt_RST : list Z := [82; 83; 84].
Definition tt_SDT : list Z := [83; 68; 84].
Definition tt_SIT : list Z := [83; 73; 84].
Definition tt_ST : list Z := [83; 84].
Definition tt_TDT : list Z := [84; 68; 84].
Definition tt_TOT : list Z := [84; 79; 84].
Definition tt_Unknown : list Z := [85; 110; 107; 110; 111; 119; 110].

Definition is_eit_id (t : Z) : bool := (t >=? C_PSITableIDEITStart) && (t <=? C_PSITableIDEITEnd).
Definition is_nit_id (t : Z) : bool := (t =? C_PSITableIDNITVariant1) || (t =? C_PSITableIDNITVariant2).
Definition is_sdt_id (t : Z) : bool := (t =? C_PSITableIDSDTVariant1) || (t =? C_PSITableIDSDTVariant2).

Definition table_type (t : Z) : list Z :=
  if t =? C_PSITableIDBAT then tt_BAT
  else if is_eit_id t then tt_EIT
  else if t =? C_PSITableIDDIT then tt_DIT
  else if is_nit_id t then tt_NIT
  else if t =? C_PSITableIDNull then tt_Null
  else if t =? C_PSITableIDPAT then tt_PAT
  else if t =? C_PSITableIDPMT then tt_PMT
  else if t =? C_PSITableIDRST then tt_RST
  else if is_sdt_id t then tt_SDT
  else if t =? C_PSITableIDSIT then tt_SIT
  else if t =? C_PSITableIDST then tt_ST
  else if t =? C_PSITableIDTDT then tt_TDT
  else if t =? C_PSITableIDTOT then tt_TOT
  else tt_Unknown.

(* ---------------- generic pieces ---------------- *)

(* `for i.Offset() < end { item }`, results in order *)
Fixpoint loop_until {A} (fuel : nat) (endoff : Z) (item : IM A) : IM (list A) :=
  match fuel with
  | O => ierr E_fuel
  | S k =>
      off <- ioffset ;;
      if off <? endoff then
        a <- item ;;
        r <- loop_until k endoff item ;;
        iret (a :: r)
      else iret []
  end.

Definition loop_fuel : IM nat := n <- ilength ;; iret (S (Z.to_nat n)).

(* the offsets parsePSISectionHeader returns *)
Record psi_offsets := mk_psi_offsets {
  po_start : Z; po_sections_start : Z; po_sections_end : Z; po_end : Z }.

(* parsePSISectionHeader *)
Definition parse_psi_section_header : IM (PSISectionHeader * psi_offsets) :=
  offsetStart <- ioffset ;;
  b <- next_byte ;;
  let tid := b in
  if shouldStopPSIParsing tid then
    iret ({| PSISectionHeader_PrivateBit := false; PSISectionHeader_SectionLength := 0;
             PSISectionHeader_SectionSyntaxIndicator := false; PSISectionHeader_TableID := tid;
             PSISectionHeader_TableType := table_type tid |},
          mk_psi_offsets offsetStart 0 0 0)
  else
    bs <- next_bytes_nocopy 2 ;;
    let len := bitsf bs 4 12 in
    offsetSectionsStart <- ioffset ;;
    let offsetEnd := offsetSectionsStart + len in
    let offsetSectionsEnd := if PSITableID_hasCRC32 tid then offsetEnd - 4 else offsetEnd in
    iret ({| PSISectionHeader_PrivateBit := bitb bs 1; PSISectionHeader_SectionLength := len;
             PSISectionHeader_SectionSyntaxIndicator := bitb bs 0; PSISectionHeader_TableID := tid;
             PSISectionHeader_TableType := table_type tid |},
          mk_psi_offsets offsetStart offsetSectionsStart offsetSectionsEnd offsetEnd).

(* parsePSISectionSyntaxHeader: table_id_extension(16) reserved(2) version(5) current_next(1) section(8) last(8) *)
Definition parse_psi_section_syntax_header : IM PSISectionSyntaxHeader :=
  bs <- next_bytes_nocopy 2 ;;
  b <- next_byte ;;
  sn <- next_byte ;;
  lsn <- next_byte ;;
  iret {| PSISectionSyntaxHeader_CurrentNextIndicator := bitb [b] 7;
          PSISectionSyntaxHeader_LastSectionNumber := lsn;
          PSISectionSyntaxHeader_SectionNumber := sn;
          PSISectionSyntaxHeader_TableIDExtension := bitsf bs 0 16;
          PSISectionSyntaxHeader_VersionNumber := bitsf [b] 2 5 |}.

(* ---------------- the six tables ---------------- *)

(* parsePATSection: program_number(16) reserved(3) program_map_PID(13) *)
Definition parse_pat_program : IM PATProgram :=
  bs <- next_bytes_nocopy 4 ;;
  iret {| PATProgram_ProgramMapID := bitsf bs 19 13; PATProgram_ProgramNumber := bitsf bs 0 16 |}.

Definition parse_pat_section (offsetSectionsEnd tableIDExtension : Z) : IM PATData :=
  fuel <- loop_fuel ;;
  ps <- loop_until fuel offsetSectionsEnd parse_pat_program ;;
  iret {| PATData_Programs := ps; PATData_TransportStreamID := tableIDExtension |}.

(* parsePMTSection *)
Definition parse_pmt_es : IM PMTElementaryStream :=
  b <- next_byte ;;
  bs <- next_bytes_nocopy 2 ;;
  ds <- parse_descriptors ;;
  iret {| PMTElementaryStream_ElementaryPID := bitsf bs 3 13;
          PMTElementaryStream_ElementaryStreamDescriptors := ds;
          PMTElementaryStream_StreamType := b |}.

Definition parse_pmt_section (offsetSectionsEnd tableIDExtension : Z) : IM PMTData :=
  bs <- next_bytes_nocopy 2 ;;
  pds <- parse_descriptors ;;
  fuel <- loop_fuel ;;
  ess <- loop_until fuel offsetSectionsEnd parse_pmt_es ;;
  iret {| PMTData_ElementaryStreams := ess; PMTData_PCRPID := bitsf bs 3 13;
          PMTData_ProgramDescriptors := pds; PMTData_ProgramNumber := tableIDExtension |}.

(* parseSDTSection; the byte holding running_status / free_CA_mode also starts the descriptor loop length *)
Definition parse_sdt_service : IM SDTDataService :=
  bs <- next_bytes_nocopy 2 ;;
  b1 <- next_byte ;;
  b2 <- next_byte ;;
  iskip (-1) ;;;
  ds <- parse_descriptors ;;
  iret {| SDTDataService_Descriptors := ds;
          SDTDataService_HasEITPresentFollowing := bitb [b1] 7;
          SDTDataService_HasEITSchedule := bitb [b1] 6;
          SDTDataService_HasFreeCSAMode := bitb [b2] 3;
          SDTDataService_RunningStatus := bitsf [b2] 0 3;
          SDTDataService_ServiceID := bitsf bs 0 16 |}.

Definition parse_sdt_section (offsetSectionsEnd tableIDExtension : Z) : IM SDTData :=
  bs <- next_bytes_nocopy 2 ;;
  iskip 1 ;;;
  fuel <- loop_fuel ;;
  ss <- loop_until fuel offsetSectionsEnd parse_sdt_service ;;
  iret {| SDTData_OriginalNetworkID := bitsf bs 0 16; SDTData_Services := ss;
          SDTData_TransportStreamID := tableIDExtension |}.

(* parseNITSection; the transport stream loop is bounded by its own 12-bit length *)
Definition parse_nit_ts : IM NITDataTransportStream :=
  bs1 <- next_bytes_nocopy 2 ;;
  bs2 <- next_bytes_nocopy 2 ;;
  ds <- parse_descriptors ;;
  iret {| NITDataTransportStream_OriginalNetworkID := bitsf bs2 0 16;
          NITDataTransportStream_TransportDescriptors := ds;
          NITDataTransportStream_TransportStreamID := bitsf bs1 0 16 |}.

Definition parse_nit_section (tableIDExtension : Z) : IM NITData :=
  nds <- parse_descriptors ;;
  bs <- next_bytes_nocopy 2 ;;
  let transportStreamLoopLength := bitsf bs 4 12 in
  off <- ioffset ;;
  let offsetEnd := off + transportStreamLoopLength in
  fuel <- loop_fuel ;;
  tss <- loop_until fuel offsetEnd parse_nit_ts ;;
  iret {| NITData_NetworkDescriptors := nds; NITData_NetworkID := tableIDExtension;
          NITData_TransportStreams := tss |}.

(* parseEITSection *)
Definition parse_eit_event : IM EITDataEvent :=
  bs <- next_bytes_nocopy 2 ;;
  st <- parse_dvb_time ;;
  du <- parse_dvb_duration_seconds ;;
  b <- next_byte ;;
  iskip (-1) ;;;
  ds <- parse_descriptors ;;
  iret {| EITDataEvent_Descriptors := ds; EITDataEvent_Duration := du; EITDataEvent_EventID := bitsf bs 0 16;
          EITDataEvent_HasFreeCSAMode := bitb [b] 3; EITDataEvent_RunningStatus := bitsf [b] 0 3;
          EITDataEvent_StartTime := st |}.

Definition parse_eit_section (offsetSectionsEnd tableIDExtension : Z) : IM EITData :=
  bs1 <- next_bytes_nocopy 2 ;;
  bs2 <- next_bytes_nocopy 2 ;;
  b1 <- next_byte ;;
  b2 <- next_byte ;;
  fuel <- loop_fuel ;;
  es <- loop_until fuel offsetSectionsEnd parse_eit_event ;;
  iret {| EITData_Events := es; EITData_LastTableID := b2; EITData_OriginalNetworkID := bitsf bs2 0 16;
          EITData_SegmentLastSectionNumber := b1; EITData_ServiceID := tableIDExtension;
          EITData_TransportStreamID := bitsf bs1 0 16 |}.

(* parseTOTSection *)
Definition parse_tot_section : IM TOTData :=
  t <- parse_dvb_time ;;
  ds <- parse_descriptors ;;
  iret {| TOTData_Descriptors := ds; TOTData_UTCTime := t |}.

(* ---------------- section syntax ---------------- *)

Definition syntax_data (eit : option EITData) (nit : option NITData) (pat : option PATData) (pmt : option PMTData)
           (sdt : option SDTData) (tot : option TOTData) : PSISectionSyntaxData :=
  {| PSISectionSyntaxData_EIT := eit; PSISectionSyntaxData_NIT := nit; PSISectionSyntaxData_PAT := pat;
     PSISectionSyntaxData_PMT := pmt; PSISectionSyntaxData_SDT := sdt; PSISectionSyntaxData_TOT := tot |}.

(* sh.TableIDExtension: a nil syntax header would be a nil dereference *)
Definition sh_ext (sh : option PSISectionSyntaxHeader) : IM Z :=
  h <- ilift (need sh) ;; iret (PSISectionSyntaxHeader_TableIDExtension h).

(* parsePSISectionSyntaxData: the switch on the table id, then the EIT range test *)
Definition parse_psi_section_syntax_data (h : PSISectionHeader) (sh : option PSISectionSyntaxHeader)
           (offsetSectionsEnd : Z) : IM PSISectionSyntaxData :=
  let tid := PSISectionHeader_TableID h in
  d <- (if is_nit_id tid then
          ext <- sh_ext sh ;; n <- parse_nit_section ext ;;
          iret (syntax_data None (Some n) None None None None)
        else if tid =? C_PSITableIDPAT then
          ext <- sh_ext sh ;; p <- parse_pat_section offsetSectionsEnd ext ;;
          iret (syntax_data None None (Some p) None None None)
        else if tid =? C_PSITableIDPMT then
          ext <- sh_ext sh ;; p <- parse_pmt_section offsetSectionsEnd ext ;;
          iret (syntax_data None None None (Some p) None None)
        else if is_sdt_id tid then
          ext <- sh_ext sh ;; s <- parse_sdt_section offsetSectionsEnd ext ;;
          iret (syntax_data None None None None (Some s) None)
        else if tid =? C_PSITableIDTOT then
          t <- parse_tot_section ;;
          iret (syntax_data None None None None None (Some t))
        else iret (syntax_data None None None None None None)) ;;
  if is_eit_id tid then
    ext <- sh_ext sh ;; e <- parse_eit_section offsetSectionsEnd ext ;;
    iret (syntax_data (Some e) (PSISectionSyntaxData_NIT d) (PSISectionSyntaxData_PAT d)
            (PSISectionSyntaxData_PMT d) (PSISectionSyntaxData_SDT d) (PSISectionSyntaxData_TOT d))
  else iret d.

(* parsePSISectionSyntax *)
Definition parse_psi_section_syntax (h : PSISectionHeader) (offsetSectionsEnd : Z) : IM PSISectionSyntax :=
  sh <- (if PSITableID_hasPSISyntaxHeader (PSISectionHeader_TableID h)
         then x <- parse_psi_section_syntax_header ;; iret (Some x) else iret None) ;;
  d <- parse_psi_section_syntax_data h sh offsetSectionsEnd ;;
  iret {| PSISectionSyntax_Data := Some d; PSISectionSyntax_Header := sh |}.

(* parseCRC32 *)
Definition parse_crc32 : IM Z := bs <- next_bytes_nocopy 4 ;; iret (be32 bs).

(* the CRC gate of parsePSISection: read the CRC_32 field at offsetSectionsEnd, recompute over
   [offsetStart, offsetSectionsEnd), fail on a difference *)
Definition check_crc32 (offs : psi_offsets) : IM Z :=
  iseek (po_sections_end offs) ;;;
  crc <- parse_crc32 ;;
  iseek (po_start offs) ;;;
  crc32Data <- next_bytes_nocopy (po_sections_end offs - po_start offs) ;;
  if computeCRC32 crc32Data =? crc then iret crc else ierr E_generic.

(* parsePSISection: (section, stop) *)
Definition parse_psi_section : IM (PSISection * bool) :=
  '(h, offs) <- parse_psi_section_header ;;
  let tid := PSISectionHeader_TableID h in
  if shouldStopPSIParsing tid then
    iret ({| PSISection_CRC32 := 0; PSISection_Header := Some h; PSISection_Syntax := None |}, true)
  else
    '(crc, syn) <- (if PSISectionHeader_SectionLength h >? 0 then
                      s <- parse_psi_section_syntax h (po_sections_end offs) ;;
                      if PSITableID_hasCRC32 tid then
                        c <- check_crc32 offs ;; iret (c, Some s)
                      else iret (0, Some s)
                    else iret (0, None)) ;;
    iseek (po_end offs) ;;;
    iret ({| PSISection_CRC32 := crc; PSISection_Header := Some h; PSISection_Syntax := syn |}, false).

(* `for i.HasBytesLeft() && !stop` *)
Fixpoint psi_sections (fuel : nat) : IM (list PSISection) :=
  match fuel with
  | O => ierr E_fuel
  | S k =>
      more <- has_bytes_left ;;
      if more then
        '(s, stop) <- parse_psi_section ;;
        if stop then iret [s] else (r <- psi_sections k ;; iret (s :: r))
      else iret []
  end.

(* parsePSIData: pointer_field, filler bytes, sections *)
Definition parse_psi_data : IM PSIData :=
  b <- next_byte ;;
  iskip b ;;;
  fuel <- loop_fuel ;;
  ss <- psi_sections fuel ;;
  iret {| PSIData_PointerField := b; PSIData_Sections := ss |}.

Definition parse_psi_data_bytes (bs : list Z) : res PSIData := run_iter parse_psi_data bs.

(* ---------------- PSIData.toData ---------------- *)

Definition demuxer_data (fp : Packet) (pid : Z) (eit : option EITData) (nit : option NITData) (pat : option PATData)
           (pmt : option PMTData) (sdt : option SDTData) (tot : option TOTData) : DemuxerData :=
  {| DemuxerData_EIT := eit; DemuxerData_FirstPacket := Some fp; DemuxerData_NIT := nit; DemuxerData_PAT := pat;
     DemuxerData_PES := None; DemuxerData_PID := pid; DemuxerData_PMT := pmt; DemuxerData_SDT := sdt;
     DemuxerData_TOT := tot |}.

(* one section: the switch on the table id, then the EIT range test.  A section with syntax data but
   without a header would be a nil dereference in Go; the parser never builds one and the model skips it. *)
Definition section_to_data (s : PSISection) (fp : Packet) (pid : Z) : list DemuxerData :=
  match PSISection_Syntax s with
  | None => []
  | Some syn =>
      match PSISectionSyntax_Data syn, PSISection_Header s with
      | Some d, Some h =>
          let tid := PSISectionHeader_TableID h in
          (if is_nit_id tid then [demuxer_data fp pid None (PSISectionSyntaxData_NIT d) None None None None]
           else if tid =? C_PSITableIDPAT then [demuxer_data fp pid None None (PSISectionSyntaxData_PAT d) None None None]
           else if tid =? C_PSITableIDPMT then [demuxer_data fp pid None None None (PSISectionSyntaxData_PMT d) None None]
           else if is_sdt_id tid then [demuxer_data fp pid None None None None (PSISectionSyntaxData_SDT d) None]
           else if tid =? C_PSITableIDTOT then [demuxer_data fp pid None None None None None (PSISectionSyntaxData_TOT d)]
           else [])
          ++ (if is_eit_id tid then [demuxer_data fp pid (PSISectionSyntaxData_EIT d) None None None None None] else [])
      | _, _ => []
      end
  end.

Definition psi_to_data (d : PSIData) (firstPacket : Packet) (pid : Z) : list DemuxerData :=
  flat_map (fun s => section_to_data s firstPacket pid) (PSIData_Sections d).

(* ---------------- writers ---------------- *)

(* calcPMTSectionLength (uint16) *)
Definition calc_pmt_section_length (d : PMTData) : Z :=
  fold_left (fun ret es => ((ret + 5) mod 65536
                            + calc_descriptors_length (PMTElementaryStream_ElementaryStreamDescriptors es)) mod 65536)
            (PMTData_ElementaryStreams d)
            ((4 + calc_descriptors_length (PMTData_ProgramDescriptors d)) mod 65536).

(* calcPSISectionLength with its nil dereferences *)
Definition calc_psi_section_length_res (s : PSISection) : res Z :=
  res_bind (need (PSISection_Header s)) (fun h =>
  let tid := PSISectionHeader_TableID h in
  let r0 := if PSITableID_hasPSISyntaxHeader tid then 5 else 0 in
  res_bind (if tid =? C_PSITableIDPAT then
              res_bind (need (PSISection_Syntax s)) (fun syn =>
              res_bind (need (PSISectionSyntax_Data syn)) (fun d =>
              res_bind (need (PSISectionSyntaxData_PAT d)) (fun pat =>
              Ok ((r0 + calcPATSectionLength pat) mod 65536))))
            else if tid =? C_PSITableIDPMT then
              res_bind (need (PSISection_Syntax s)) (fun syn =>
              res_bind (need (PSISectionSyntax_Data syn)) (fun d =>
              res_bind (need (PSISectionSyntaxData_PMT d)) (fun pmt =>
              Ok ((r0 + calc_pmt_section_length pmt) mod 65536))))
            else Ok r0) (fun r1 =>
  Ok (if PSITableID_hasCRC32 tid then (r1 + 4) mod 65536 else r1))).

(* calcPSISectionLength on sections it does not panic on *)
Definition calc_psi_section_length (s : PSISection) : Z :=
  match calc_psi_section_length_res s with Ok z => z | _ => 0 end.

(* writePSISectionSyntaxHeader *)
Definition enc_psi_section_syntax_header (h : PSISectionSyntaxHeader) : list witem :=
  [wu16 (PSISectionSyntaxHeader_TableIDExtension h); WBits 2 255;
   WBits 5 (PSISectionSyntaxHeader_VersionNumber h);
   WBool (PSISectionSyntaxHeader_CurrentNextIndicator h);
   wu8 (PSISectionSyntaxHeader_SectionNumber h);
   wu8 (PSISectionSyntaxHeader_LastSectionNumber h)].

(* writePATSection *)
Definition enc_pat_program (p : PATProgram) : list witem :=
  [wu16 (PATProgram_ProgramNumber p); WBits 3 255; WBits 13 (PATProgram_ProgramMapID p)].
Definition enc_pat_section (d : PATData) : list witem := flat_map enc_pat_program (PATData_Programs d).

(* writePMTSection *)
Definition enc_pmt_es (es : PMTElementaryStream) : res (list witem) :=
  res_bind (enc_descriptors_with_length (PMTElementaryStream_ElementaryStreamDescriptors es)) (fun ds =>
  Ok ([wu8 (PMTElementaryStream_StreamType es); WBits 3 255; WBits 13 (PMTElementaryStream_ElementaryPID es)] ++ ds)).

Fixpoint enc_pmt_ess (l : list PMTElementaryStream) : res (list witem) :=
  match l with
  | [] => Ok []
  | es :: r => res_bind (enc_pmt_es es) (fun a => res_bind (enc_pmt_ess r) (fun b => Ok (a ++ b)))
  end.

Definition enc_pmt_section (d : PMTData) : res (list witem) :=
  res_bind (enc_descriptors_with_length (PMTData_ProgramDescriptors d)) (fun pds =>
  res_bind (enc_pmt_ess (PMTData_ElementaryStreams d)) (fun ess =>
  Ok ([WBits 3 255; WBits 13 (PMTData_PCRPID d)] ++ pds ++ ess))).

(* writePSISectionSyntaxData *)
Definition enc_psi_section_syntax_data (d : PSISectionSyntaxData) (tid : Z) : res (list witem) :=
  if tid =? C_PSITableIDPAT then res_map enc_pat_section (need (PSISectionSyntaxData_PAT d))
  else if tid =? C_PSITableIDPMT then res_bind (need (PSISectionSyntaxData_PMT d)) enc_pmt_section
  else Ok [].

(* writePSISectionSyntax *)
Definition enc_psi_section_syntax (s : PSISection) (tid : Z) : res (list witem) :=
  res_bind (need (PSISection_Syntax s)) (fun syn =>
  res_bind (if PSITableID_hasPSISyntaxHeader tid
            then res_map enc_psi_section_syntax_header (need (PSISectionSyntax_Header syn)) else Ok []) (fun hd =>
  res_bind (need (PSISectionSyntax_Data syn)) (fun d =>
  res_bind (enc_psi_section_syntax_data d tid) (fun body =>
  Ok (hd ++ body))))).

(* writePSISection.  The write callback feeds every byte that reaches the underlying writer, from the
   table id on, into updateCRC32 starting from crc32Polynomial; b.Write(sectionCRC32) is evaluated after
   the syntax has been written, so the CRC_32 field is the checksum of the bytes the preceding items of
   this section have produced (whole bytes: every item list of a section is byte aligned). *)
Definition enc_psi_section (s : PSISection) : res (list witem) :=
  res_bind (need (PSISection_Header s)) (fun h =>
  let tid := PSISectionHeader_TableID h in
  if negb (tid =? C_PSITableIDPAT) && negb (tid =? C_PSITableIDPMT) then Err E_generic else
  res_bind (calc_psi_section_length_res s) (fun sectionLength =>
  let head := [wu8 tid; WBool (PSISectionHeader_SectionSyntaxIndicator h); WBool (PSISectionHeader_PrivateBit h);
               WBits 2 255; WBits 12 sectionLength] in
  if PSISectionHeader_SectionLength h >? 0 then
    res_bind (enc_psi_section_syntax s tid) (fun syn =>
    if PSITableID_hasCRC32 tid
    then Ok (head ++ syn ++ [wu32 (updateCRC32 C_crc32Polynomial (bytes_of_items (head ++ syn)))])
    else Ok (head ++ syn))
  else Ok head)).

Fixpoint enc_psi_sections (l : list PSISection) : res (list witem) :=
  match l with
  | [] => Ok []
  | s :: r => res_bind (enc_psi_section s) (fun a => res_bind (enc_psi_sections r) (fun b => Ok (a ++ b)))
  end.

(* writePSIData: pointer_field, that many zero bytes, the sections *)
Definition enc_psi_data (d : PSIData) : res (list witem) :=
  res_bind (enc_psi_sections (PSIData_Sections d)) (fun ss =>
  Ok ([wu8 (PSIData_PointerField d)] ++ repeat_item (PSIData_PointerField d) (wu8 0) ++ ss)).

Definition write_psi_data (d : PSIData) : res (list Z) := res_map bytes_of_items (enc_psi_data d).
