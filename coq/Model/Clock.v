(* Clock references: PCR (packet.go), PTS/DTS and ESCR (data_pes.go), Duration (clock_reference.go).
   Parsers read bit fields at the positions the Go masks and shifts select; writers are the
   item lists handed to the BitsWriter. *)
From Coq Require Import ZArith List Lia Bool.
Require Import Base.Bits Base.Iter Base.Wr Gen.Consts Gen.Types.
Import ListNotations.
Open Scope Z_scope.
Open Scope iter_scope.

Definition mk_cr (base ext : Z) : ClockReference :=
  {| ClockReference_Base := base; ClockReference_Extension := ext |}.

(* parsePCR: 6 bytes = base(33) reserved(6) extension(9) *)
Definition parse_pcr : IM ClockReference :=
  bs <- next_bytes_nocopy 6 ;;
  iret (mk_cr (bitsf bs 0 33) (bitsf bs 39 9)).

(* writePCR *)
Definition enc_pcr (cr : ClockReference) : list witem :=
  [WBits 33 (ClockReference_Base cr); WBits 6 255; WBits 9 (ClockReference_Extension cr)].

(* parsePTSOrDTS: 5 bytes = flag(4) b32..30 marker b29..15 marker b14..0 marker *)
Definition parse_pts_or_dts : IM ClockReference :=
  bs <- next_bytes_nocopy 5 ;;
  iret (mk_cr (bitsf bs 4 3 * 2 ^ 30 + bitsf bs 8 15 * 2 ^ 15 + bitsf bs 24 15) 0).

(* writePTSOrDTS *)
Definition enc_pts_or_dts (flag : Z) (cr : ClockReference) : list witem :=
  let b := ClockReference_Base cr in
  [WBits 4 flag; WBits 3 (Z.shiftr b 30); WBool true; WBits 15 (Z.shiftr b 15); WBool true;
   WBits 15 b; WBool true].

(* parseESCR: 6 bytes = reserved(2) b32..30 marker b29..15 marker b14..0 marker ext(9) marker *)
Definition parse_escr : IM ClockReference :=
  bs <- next_bytes_nocopy 6 ;;
  iret (mk_cr (bitsf bs 2 3 * 2 ^ 30 + bitsf bs 6 15 * 2 ^ 15 + bitsf bs 22 15) (bitsf bs 38 9)).

(* writeESCR *)
Definition enc_escr (cr : ClockReference) : list witem :=
  let b := ClockReference_Base cr in
  [WBits 2 255; WBits 3 (Z.shiftr b 30); WBool true; WBits 15 (Z.shiftr b 15); WBool true;
   WBits 15 b; WBool true; WBits 9 (ClockReference_Extension cr); WBool true].

(* ClockReference.Duration in nanoseconds: each term truncated separately (int64 division
   truncates toward zero: Z.quot) *)
Definition cr_duration (cr : ClockReference) : Z :=
  Z.quot (ClockReference_Base cr * 1000000000) 90000 + Z.quot (ClockReference_Extension cr * 1000000000) 27000000.
