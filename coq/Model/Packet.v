(* packet.go: parsePacket / parsePacketHeader / parsePacketAdaptationField and
   writePacket / writePacketHeader / writePacketAdaptationField(+Extension), control flow as in the source. *)
From Coq Require Import ZArith List Lia Bool.
Require Import Base.Bits Base.Iter Base.Wr Gen.Consts Gen.Types Gen.Preds Model.Clock.
Import ListNotations.
Open Scope Z_scope.
Open Scope iter_scope.

Definition syncByte : Z := 71.

(* ---------------- parsing ---------------- *)

Definition parse_packet_header : IM PacketHeader :=
  bs <- next_bytes_nocopy 3 ;;
  iret {| PacketHeader_ContinuityCounter := bitsf bs 20 4;
          PacketHeader_HasAdaptationField := bitb bs 18;
          PacketHeader_HasPayload := bitb bs 19;
          PacketHeader_PayloadUnitStartIndicator := bitb bs 1;
          PacketHeader_PID := bitsf bs 3 13;
          PacketHeader_TransportErrorIndicator := bitb bs 0;
          PacketHeader_TransportPriority := bitb bs 2;
          PacketHeader_TransportScramblingControl := bitsf bs 16 2 |}.

Definition when {A} (c : bool) (m : IM A) (d : A) : IM A := if c then m else iret d.

Definition parse_af_extension : IM PacketAdaptationExtensionField :=
  b <- next_byte ;;
  let len := b in
  if len >? 0 then
    fl <- next_byte ;;
    let hasLTW := bitb [fl] 0 in
    let hasPR := bitb [fl] 1 in
    let hasSS := bitb [fl] 2 in
    ltw <- when hasLTW (next_bytes_nocopy 2) [] ;;
    pr <- when hasPR (next_bytes_nocopy 3) [] ;;
    '(st, dts) <- (if hasSS then
                     b2 <- next_byte ;; iskip (-1) ;;; d <- parse_pts_or_dts ;; iret (bitsf [b2] 0 4, Some d)
                   else iret (0, None)) ;;
    iret {| PacketAdaptationExtensionField_DTSNextAccessUnit := dts;
            PacketAdaptationExtensionField_HasLegalTimeWindow := hasLTW;
            PacketAdaptationExtensionField_HasPiecewiseRate := hasPR;
            PacketAdaptationExtensionField_HasSeamlessSplice := hasSS;
            PacketAdaptationExtensionField_LegalTimeWindowIsValid := if hasLTW then bitb ltw 0 else false;
            PacketAdaptationExtensionField_LegalTimeWindowOffset := if hasLTW then bitsf ltw 1 15 else 0;
            PacketAdaptationExtensionField_Length := len;
            PacketAdaptationExtensionField_PiecewiseRate := if hasPR then bitsf pr 2 22 else 0;
            PacketAdaptationExtensionField_SpliceType := st |}
  else
    iret {| PacketAdaptationExtensionField_DTSNextAccessUnit := None;
            PacketAdaptationExtensionField_HasLegalTimeWindow := false;
            PacketAdaptationExtensionField_HasPiecewiseRate := false;
            PacketAdaptationExtensionField_HasSeamlessSplice := false;
            PacketAdaptationExtensionField_LegalTimeWindowIsValid := false;
            PacketAdaptationExtensionField_LegalTimeWindowOffset := 0;
            PacketAdaptationExtensionField_Length := len;
            PacketAdaptationExtensionField_PiecewiseRate := 0;
            PacketAdaptationExtensionField_SpliceType := 0 |}.

Definition parse_packet_adaptation_field : IM PacketAdaptationField :=
  len <- next_byte ;;
  afStart <- ioffset ;;
  if len >? 0 then
    fl <- next_byte ;;
    let hasPCR := bitb [fl] 3 in
    let hasOPCR := bitb [fl] 4 in
    let hasSC := bitb [fl] 5 in
    let hasTPD := bitb [fl] 6 in
    let hasExt := bitb [fl] 7 in
    pcr <- (if hasPCR then c <- parse_pcr ;; iret (Some c) else iret None) ;;
    opcr <- (if hasOPCR then c <- parse_pcr ;; iret (Some c) else iret None) ;;
    sc <- when hasSC next_byte 0 ;;
    '(tpdl, tpd) <- (if hasTPD then
                       l <- next_byte ;;
                       d <- when (l >? 0) (next_bytes l) [] ;; iret (l, d)
                     else iret (0, [])) ;;
    ext <- (if hasExt then e <- parse_af_extension ;; iret (Some e) else iret None) ;;
    off <- ioffset ;;
    iret {| PacketAdaptationField_AdaptationExtensionField := ext;
            PacketAdaptationField_OPCR := opcr;
            PacketAdaptationField_PCR := pcr;
            PacketAdaptationField_TransportPrivateData := tpd;
            PacketAdaptationField_TransportPrivateDataLength := tpdl;
            PacketAdaptationField_Length := len;
            PacketAdaptationField_StuffingLength := len - (off - afStart);
            PacketAdaptationField_SpliceCountdown := sc;
            PacketAdaptationField_IsOneByteStuffing := false;
            PacketAdaptationField_RandomAccessIndicator := bitb [fl] 1;
            PacketAdaptationField_DiscontinuityIndicator := bitb [fl] 0;
            PacketAdaptationField_ElementaryStreamPriorityIndicator := bitb [fl] 2;
            PacketAdaptationField_HasAdaptationExtensionField := hasExt;
            PacketAdaptationField_HasOPCR := hasOPCR;
            PacketAdaptationField_HasPCR := hasPCR;
            PacketAdaptationField_HasTransportPrivateData := hasTPD;
            PacketAdaptationField_HasSplicingCountdown := hasSC |}
  else
    iret {| PacketAdaptationField_AdaptationExtensionField := None;
            PacketAdaptationField_OPCR := None;
            PacketAdaptationField_PCR := None;
            PacketAdaptationField_TransportPrivateData := [];
            PacketAdaptationField_TransportPrivateDataLength := 0;
            PacketAdaptationField_Length := 0;
            PacketAdaptationField_StuffingLength := 0;
            PacketAdaptationField_SpliceCountdown := 0;
            PacketAdaptationField_IsOneByteStuffing := true;
            PacketAdaptationField_RandomAccessIndicator := false;
            PacketAdaptationField_DiscontinuityIndicator := false;
            PacketAdaptationField_ElementaryStreamPriorityIndicator := false;
            PacketAdaptationField_HasAdaptationExtensionField := false;
            PacketAdaptationField_HasOPCR := false;
            PacketAdaptationField_HasPCR := false;
            PacketAdaptationField_HasTransportPrivateData := false;
            PacketAdaptationField_HasSplicingCountdown := false |}.

(* parsePacket up to the point where the skipper is consulted: sync byte, header, adaptation field.
   Returns the packet with Payload = nil and the offset the header started at. *)
Definition parse_packet_head : IM (Packet * Z) :=
  b <- next_byte ;;
  if negb (b =? syncByte) then ierr E_sync else
  len <- ilength ;;
  iseek (len - C_MpegTsPacketSize + 1) ;;;
  offsetStart <- ioffset ;;
  h <- parse_packet_header ;;
  af <- (if PacketHeader_HasAdaptationField h then a <- parse_packet_adaptation_field ;; iret (Some a) else iret None) ;;
  iret ({| Packet_AdaptationField := af; Packet_Header := h; Packet_Payload := [] |}, offsetStart).

(* the rest of parsePacket: payload extraction *)
Definition parse_packet_tail (p0 : Packet) (offsetStart : Z) : IM Packet :=
  let h := Packet_Header p0 in
  let af := Packet_AdaptationField p0 in
  if PacketHeader_HasPayload h then
    iseek (payloadOffset offsetStart h (odflt zero_PacketAdaptationField af)) ;;;
    pl <- idump ;;
    iret {| Packet_AdaptationField := af; Packet_Header := h; Packet_Payload := pl |}
  else iret p0.

(* parsePacket; the skipper sees header and adaptation field, Payload = nil *)
Definition parse_packet (skip : Packet -> bool) : IM Packet :=
  '(p0, offsetStart) <- parse_packet_head ;;
  if skip p0 then ierr E_skipped else parse_packet_tail p0 offsetStart.

Definition no_skip (_ : Packet) : bool := false.
Definition parse_packet_bytes (bs : list Z) : res Packet := run_iter (parse_packet no_skip) bs.

(* ---------------- writing ---------------- *)

Definition enc_packet_header (h : PacketHeader) : list witem :=
  [WBool (PacketHeader_TransportErrorIndicator h);
   WBool (PacketHeader_PayloadUnitStartIndicator h);
   WBool (PacketHeader_TransportPriority h);
   WBits 13 (PacketHeader_PID h);
   WBits 2 (PacketHeader_TransportScramblingControl h);
   WBool (PacketHeader_HasAdaptationField h);
   WBool (PacketHeader_HasPayload h);
   WBits 4 (PacketHeader_ContinuityCounter h)].

(* a nil pointer dereference in the Go code is a Panic of the model *)
Definition need {A} (o : option A) : res A := match o with Some a => Ok a | None => Panic end.

Definition enc_af_extension (afe : PacketAdaptationExtensionField) : res (list witem * Z) :=
  let len := calcPacketAdaptationFieldExtensionLength afe in
  let head := [wu8 len;
               WBool (PacketAdaptationExtensionField_HasLegalTimeWindow afe);
               WBool (PacketAdaptationExtensionField_HasPiecewiseRate afe);
               WBool (PacketAdaptationExtensionField_HasSeamlessSplice afe);
               WBits 5 255] in
  let ltw := if PacketAdaptationExtensionField_HasLegalTimeWindow afe
             then [WBool (PacketAdaptationExtensionField_LegalTimeWindowIsValid afe);
                   WBits 15 (PacketAdaptationExtensionField_LegalTimeWindowOffset afe)] else [] in
  let pr := if PacketAdaptationExtensionField_HasPiecewiseRate afe
            then [WBits 2 255; WBits 22 (PacketAdaptationExtensionField_PiecewiseRate afe)] else [] in
  let n := 2 + (if PacketAdaptationExtensionField_HasLegalTimeWindow afe then 2 else 0)
             + (if PacketAdaptationExtensionField_HasPiecewiseRate afe then 3 else 0) in
  if PacketAdaptationExtensionField_HasSeamlessSplice afe then
    res_bind (need (PacketAdaptationExtensionField_DTSNextAccessUnit afe)) (fun dts =>
      Ok (head ++ ltw ++ pr ++ enc_pts_or_dts (PacketAdaptationExtensionField_SpliceType afe) dts, n + C_ptsOrDTSByteLength))
  else Ok (head ++ ltw ++ pr, n).

Definition repeat_item (n : Z) (it : witem) : list witem := repeat it (Z.to_nat n).

(* writePacketAdaptationField: items and the bytesWritten it reports *)
Definition enc_adaptation_field (af : PacketAdaptationField) : res (list witem * Z) :=
  if PacketAdaptationField_IsOneByteStuffing af then Ok ([wu8 0], 1) else
  let len := calcPacketAdaptationFieldLength af in
  let head := [wu8 len;
               WBool (PacketAdaptationField_DiscontinuityIndicator af);
               WBool (PacketAdaptationField_RandomAccessIndicator af);
               WBool (PacketAdaptationField_ElementaryStreamPriorityIndicator af);
               WBool (PacketAdaptationField_HasPCR af);
               WBool (PacketAdaptationField_HasOPCR af);
               WBool (PacketAdaptationField_HasSplicingCountdown af);
               WBool (PacketAdaptationField_HasTransportPrivateData af);
               WBool (PacketAdaptationField_HasAdaptationExtensionField af)] in
  res_bind (if PacketAdaptationField_HasPCR af
            then res_map (fun c => (enc_pcr c, C_pcrBytesSize)) (need (PacketAdaptationField_PCR af)) else Ok ([], 0)) (fun '(pcr, n1) =>
  res_bind (if PacketAdaptationField_HasOPCR af
            then res_map (fun c => (enc_pcr c, C_pcrBytesSize)) (need (PacketAdaptationField_OPCR af)) else Ok ([], 0)) (fun '(opcr, n2) =>
  let sc := if PacketAdaptationField_HasSplicingCountdown af then [wu8 (PacketAdaptationField_SpliceCountdown af)] else [] in
  let n3 := if PacketAdaptationField_HasSplicingCountdown af then 1 else 0 in
  let tpd := if PacketAdaptationField_HasTransportPrivateData af
             then wu8 (Z.of_nat (length (PacketAdaptationField_TransportPrivateData af))) ::
                  (if Z.of_nat (length (PacketAdaptationField_TransportPrivateData af)) >? 0
                   then [WBytes (PacketAdaptationField_TransportPrivateData af)] else [])
             else [] in
  let n4 := if PacketAdaptationField_HasTransportPrivateData af
            then 1 + Z.of_nat (length (PacketAdaptationField_TransportPrivateData af)) else 0 in
  res_bind (if PacketAdaptationField_HasAdaptationExtensionField af
            then res_bind (need (PacketAdaptationField_AdaptationExtensionField af)) enc_af_extension else Ok ([], 0)) (fun '(ext, n5) =>
  let stuff := repeat_item (PacketAdaptationField_StuffingLength af) (wu8 255) in
  let n6 := Z.max 0 (PacketAdaptationField_StuffingLength af) in
  Ok (head ++ pcr ++ opcr ++ sc ++ tpd ++ ext ++ stuff, 2 + n1 + n2 + n3 + n4 + n5 + n6)))).

(* writePacket: Err when the adaptation field or the payload does not fit (nothing is written in that case) *)
Definition enc_packet (p : Packet) (target : Z) : res (list witem) :=
  let h := Packet_Header p in
  let plen := Z.of_nat (length (Packet_Payload p)) in
  res_bind (if PacketHeader_HasAdaptationField h
            then res_bind (need (Packet_AdaptationField p)) (fun af =>
                   if PacketAdaptationField_StuffingLength af <? 0 then Err E_generic
                   else Ok (target - 1 - C_mpegTsPacketHeaderSize - packetAdaptationFieldSize af))
            else Ok (target - 1 - C_mpegTsPacketHeaderSize)) (fun available =>
  if available <? plen then Err E_generic else
  res_bind (if PacketHeader_HasAdaptationField h
            then res_bind (need (Packet_AdaptationField p)) enc_adaptation_field else Ok ([], 0)) (fun '(afi, afn) =>
  let written := 1 + C_mpegTsPacketHeaderSize + afn in
  if target - written <? plen then Err E_generic else
  let pl := if PacketHeader_HasPayload h then [WBytes (Packet_Payload p)] else [] in
  let written' := if PacketHeader_HasPayload h then written + plen else written in
  Ok ([wu8 syncByte] ++ enc_packet_header h ++ afi ++ pl ++ repeat_item (target - written') (wu8 255)))).

Definition write_packet (p : Packet) (target : Z) : res (list Z) :=
  res_map bytes_of_items (enc_packet p target).
