(* Running the packet pool over a whole packet sequence: the groups it flushes, tagged with their PID,
   followed by the end-of-stream drain.  Each step carries the program map in force when the packet
   arrives (in the demuxer it grows as PATs are delivered). *)
From Coq Require Import ZArith List Bool.
Require Import Base.Iter Gen.Types Gen.Preds Model.Pool.
Import ListNotations.
Open Scope Z_scope.

Definition step := (pmap * Packet)%type.
Definition tgroup := (Z * list Packet)%type.

Definition cons_group (pid : Z) (g : list Packet) (gs : list tgroup) : list tgroup :=
  match g with [] => gs | _ => (pid, g) :: gs end.

Fixpoint pool_run (pl : pool) (xs : list step) : pool * list tgroup :=
  match xs with
  | [] => (pl, [])
  | (pm, p) :: r =>
      let '(pl1, g) := pool_add pm pl p in
      let '(pl2, gs) := pool_run pl1 r in
      (pl2, cons_group (pid_of p) g gs)
  end.

(* the end-of-stream drain: dumpUnlocked until it returns nothing *)
Fixpoint dump_all (fuel : nat) (pl : pool) : list (list Packet) :=
  match fuel with
  | O => []
  | S k => let '(pl', g) := pool_dump pl in match g with [] => [] | _ => g :: dump_all k pl' end
  end.

Definition drain_groups (pl : pool) : list tgroup :=
  map (fun e => (fst e, snd e)) (filter (fun e => match snd e with [] => false | _ => true end) pl).

Definition all_groups (xs : list step) : list tgroup :=
  let '(pl, gs) := pool_run [] xs in gs ++ drain_groups pl.

(* one PID alone: the accumulator fed with that PID's payload-carrying, error-free packets *)
Definition relevant (x : Z) (p : Packet) : bool := (pid_of p =? x) && negb (tei p) && has_payload p.

Fixpoint acc_run (x : Z) (q : queue) (xs : list step) : queue * list tgroup :=
  match xs with
  | [] => (q, [])
  | (pm, p) :: r =>
      if relevant x p then
        let '(q1, g) := acc_add pm x q p in
        let '(q2, gs) := acc_run x q1 r in
        (q2, cons_group x g gs)
      else acc_run x q r
  end.

Definition groups_of (x : Z) (gs : list tgroup) : list tgroup := filter (fun g => fst g =? x) gs.
