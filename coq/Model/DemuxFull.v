(* The demuxer model with its unit parsers instantiated. *)
From Coq Require Import ZArith List.
Require Import Base.Iter Gen.Types Model.Demux.
Import ListNotations.
Open Scope Z_scope.

(* PLACEHOLDER until Model/Psi.v and Model/Pes.v are merged *)
Definition full_parsers : dparsers := mk_dparsers (fun _ _ _ => Ok []) (fun _ => Err E_generic).
