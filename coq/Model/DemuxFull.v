(* The demuxer model with its unit parsers instantiated: parsePSIData + toData, parsePESData. *)
From Coq Require Import ZArith List.
Require Import Base.Iter Gen.Types Model.Demux Model.Pes Model.Psi.
Import ListNotations.
Open Scope Z_scope.

Definition full_parsers : dparsers :=
  mk_dparsers (fun payload fp pid => res_map (fun d => psi_to_data d fp pid) (parse_psi_data_bytes payload))
              parse_pes_data_bytes.
