(* DVB date/time, the part of dvb.go that does not depend on any translated definition (imports no
   Gen/*.v, so that its proofs - the long enumerations of Proofs/DvbDateProofs.v - are not re-checked
   when an unrelated part of the Go source changes):

   PART 1 (integers only; extracted as part of Model/Dvb.v):
     go_date_days / go_civil_of_days   package time's Date(...) and Year/Month/Day for UTC, on day numbers
     dvb_ymd, dvb_date_unix            the date computation of parseDVBTime for a 16-bit MJD word
     dvb_mjd_of_ymd                    the MJD expression of writeDVBTime
     dur_hours / dur_minutes / dur_seconds   uint8(d.Hours()), uint8(int(d.Minutes()) % 60), ...
   The integer date functions are the exact-rational reading of the float expressions of dvb.go
   (15078.2 = 150782/10, 365.25 = 1461/4, 30.6001 = 306001/10000, int(..) = truncation toward zero).

   PART 2 (module DvbFloat; binary64 = SpecFloat 53/1024 of Coq's Floats library, pure Gallina, not extracted):
     the same expressions with float64 operations in exactly the order of dvb.go.  Proofs/DvbDateProofs.v
     shows by complete enumeration that PART 1 and PART 2 agree (all 65536 MJD words; all year/month
     arguments of the encoder for years -3000..12000; all whole-second durations below 100 h), so
     everything proved about PART 1 is a statement about the float-faithful model of the Go code.

   No proofs in this file. *)
From Coq Require Import ZArith List Bool.
Import ListNotations.
Open Scope Z_scope.

(* ================= PART 1: integers ================= *)

(* ---- package time, for UTC and whole days ---- *)

Definition is_leap (y : Z) : bool :=
  andb (y mod 4 =? 0) (orb (negb (y mod 100 =? 0)) (y mod 400 =? 0)).

(* time.daysBefore: days before the start of month m+1 in a non-leap year, 13 entries *)
Definition days_before_tbl : list Z := [0; 31; 59; 90; 120; 151; 181; 212; 243; 273; 304; 334; 365].
Definition days_before (i : Z) : Z := nth (Z.to_nat i) days_before_tbl 0.

(* days from 0001-01-01 to January 1 of year y (time.daysSinceEpoch, re-based; / is floor) *)
Definition days_before_year (y : Z) : Z :=
  let p := y - 1 in 365 * p + p / 4 - p / 100 + p / 400.

Definition unix_epoch_day : Z := 719162.   (* 1970-01-01 counted from 0001-01-01 *)

(* time.Date(y, m, d, 0, 0, 0, 0, time.UTC) as days since 1970-01-01: the month is normalised
   into the year (time.norm), the day is simply added, so day 0, day 31 of February ... roll over *)
Definition go_date_days (y m d : Z) : Z :=
  let m0 := m - 1 in
  let y' := y + m0 / 12 in
  let m' := m0 mod 12 + 1 in
  days_before_year y' + days_before (m' - 1)
  + (if andb (is_leap y') (3 <=? m') then 1 else 0) + (d - 1) - unix_epoch_day.

(* t.Year(), t.Month(), t.Day() of the UTC time at `days` since 1970-01-01 (time.absDate:
   400-, 100-, 4- and 1-year cycles, then the month estimated as yday/31) *)
Definition go_civil_of_days (days : Z) : Z * Z * Z :=
  let d := days + unix_epoch_day in
  let n400 := d / 146097 in
  let d := d - 146097 * n400 in
  let n100 := d / 36524 in
  let n100 := n100 - n100 / 4 in
  let d := d - 36524 * n100 in
  let n4 := d / 1461 in
  let d := d - 1461 * n4 in
  let n1 := d / 365 in
  let n1 := n1 - n1 / 4 in
  let d := d - 365 * n1 in
  let y := 1 + 400 * n400 + 100 * n100 + 4 * n4 + n1 in
  let leap := is_leap y in
  if andb leap (d =? 59) then (y, 2, 29)
  else
    let d := if andb leap (59 <? d) then d - 1 else d in
    let mo := d / 31 in
    let e := days_before (mo + 1) in
    if e <=? d then (y, mo + 2, d - e + 1) else (y, mo + 1, d - days_before mo + 1).

(* ---- parseDVBTime: the date ---- *)

(* yt, mt, d and then y, m of parseDVBTime, before time.Date normalises them.
   int(float64(yt)*365.25) = quot (yt*1461) 4;  int(float64(mt)*30.6001) = quot (mt*306001) 10000 *)
Definition dvb_ymd (mjd : Z) : Z * Z * Z :=
  let yt := Z.quot (20 * mjd - 301564) 7305 in                    (* (mjd - 15078.2) / 365.25 *)
  let yd := Z.quot (yt * 1461) 4 in
  let mt := Z.quot (10000 * (mjd - yd) - 149561000) 306001 in     (* (mjd - 14956.1 - yd) / 30.6001 *)
  let d := mjd - 14956 - yd - Z.quot (mt * 306001) 10000 in
  let k := if orb (mt =? 14) (mt =? 15) then 1 else 0 in
  (1900 + yt + k, mt - 1 - k * 12, d).

(* Unix seconds of 00:00 UTC of the day parseDVBTime computes for the 16-bit word mjd *)
Definition dvb_date_unix (mjd : Z) : Z :=
  let '(y, m, d) := dvb_ymd mjd in 86400 * go_date_days y m d.

(* ---- durations ---- *)

Definition ns_second : Z := 1000000000.
Definition ns_minute : Z := 60000000000.
Definition ns_hour : Z := 3600000000000.

(* uint8(d.Hours()), uint8(int(d.Minutes()) % 60), uint8(int(d.Seconds()) % 60): truncation toward
   zero, Go's % (sign of the dividend), then the low 8 bits.  Agreement with the float expressions
   of package time is proved for whole seconds in [0, 100 h) and checked by correspondence beyond. *)
Definition dur_hours (ns : Z) : Z := Z.quot ns ns_hour mod 256.
Definition dur_minutes (ns : Z) : Z := Z.rem (Z.quot ns ns_minute) 60 mod 256.
Definition dur_seconds (ns : Z) : Z := Z.rem (Z.quot ns ns_second) 60 mod 256.

(* the mjd expression of writeDVBTime (an int, before uint16(..)) *)
Definition dvb_mjd_of_ymd (y m d : Z) : Z :=
  let year := y - 1900 in
  let l := if m <=? 2 then 1 else 0 in
  14956 + d + Z.quot ((year - l) * 1461) 4 + Z.quot ((m + 1 + l * 12) * 306001) 10000.

(* ================= PART 2: the float64 expressions of dvb.go ================= *)
(* binary64 = Coq's SpecFloat with prec 53, emax 1024: the Gallina specification of the IEEE 754
   operations with round-to-nearest-even (the one the standard library's FloatAxioms relate the
   primitive floats to).  Pure Gallina: no primitive float, no axiom; evaluated by vm_compute. *)
From Coq Require Import Floats.SpecFloat.

Module DvbFloat.

Definition prec : Z := 53.
Definition emax : Z := 1024.
Definition float64 : Type := spec_float.
Definition fadd : float64 -> float64 -> float64 := SFadd prec emax.
Definition fsub : float64 -> float64 -> float64 := SFsub prec emax.
Definition fmul : float64 -> float64 -> float64 := SFmul prec emax.
Definition fdiv : float64 -> float64 -> float64 := SFdiv prec emax.

(* float64(z): z * 2^0 rounded to nearest even (exact for |z| < 2^53; all arguments below are smaller) *)
Definition f_of_Z (z : Z) : float64 := binary_normalize prec emax z 0 false.

(* int(f): truncation toward zero of a finite float (NaN / infinities, where Go's result is
   implementation-defined, are never reached: given as 0) *)
Definition trunc (f : float64) : Z :=
  match f with
  | S754_finite s m e => let a := Z.shiftl (Z.pos m) e in if s then - a else a
  | _ => 0
  end.

(* decimal literals: the correctly rounded quotient of two exactly representable integers is the
   correctly rounded literal (bit patterns checked in DvbProofs against Go's math.Float64bits) *)
Definition c_15078_2 : float64 := fdiv (f_of_Z 150782) (f_of_Z 10).
Definition c_14956_1 : float64 := fdiv (f_of_Z 149561) (f_of_Z 10).
Definition c_30_6001 : float64 := fdiv (f_of_Z 306001) (f_of_Z 10000).
Definition c_365_25 : float64 := fdiv (f_of_Z 1461) (f_of_Z 4).
Definition c_14956 : float64 := f_of_Z 14956.

(* parseDVBTime, lines "var yt = ..." to "var m = ...": (y, m, d) handed to time.Date *)
Definition mjd_to_ymd_float (mjd : Z) : Z * Z * Z :=
  let fm := f_of_Z mjd in
  let yt := trunc (fdiv (fsub fm c_15078_2) c_365_25) in
  let yd := f_of_Z (trunc (fmul (f_of_Z yt) c_365_25)) in
  let mt := trunc (fdiv (fsub (fsub fm c_14956_1) yd) c_30_6001) in
  let md := f_of_Z (trunc (fmul (f_of_Z mt) c_30_6001)) in
  let d := trunc (fsub (fsub (fsub fm c_14956) yd) md) in
  let k := if orb (mt =? 14) (mt =? 15) then 1 else 0 in
  (1900 + yt + k, mt - 1 - k * 12, d).

Definition dvb_date_unix_float (mjd : Z) : Z :=
  let '(y, m, d) := mjd_to_ymd_float mjd in 86400 * go_date_days y m d.

(* the two float terms of writeDVBTime's mjd expression *)
Definition year_days_float (n : Z) : Z := trunc (fmul (f_of_Z n) c_365_25).
Definition month_days_float (n : Z) : Z := trunc (fmul (f_of_Z n) c_30_6001).

Definition ymd_to_mjd_float (y m d : Z) : Z :=
  let year := y - 1900 in
  let l := if m <=? 2 then 1 else 0 in
  14956 + d + year_days_float (year - l) + month_days_float (m + 1 + l * 12).

(* time.Duration.Hours / Minutes / Seconds: float64(d / unit) + float64(d % unit) / unit *)
Definition dur_split_float (ns unit : Z) : float64 :=
  fadd (f_of_Z (Z.quot ns unit)) (fdiv (f_of_Z (Z.rem ns unit)) (f_of_Z unit)).
Definition dur_hours_float (ns : Z) : Z := trunc (dur_split_float ns ns_hour) mod 256.
Definition dur_minutes_float (ns : Z) : Z := Z.rem (trunc (dur_split_float ns ns_minute)) 60 mod 256.
Definition dur_seconds_float (ns : Z) : Z := Z.rem (trunc (dur_split_float ns ns_second)) 60 mod 256.

End DvbFloat.
