(* data_pes.go: parsePESData / parsePESHeader / parsePESOptionalHeader / parseDSMTrickMode and
   writePESData / writePESHeader / writePESOptionalHeader / writeDSMTrickMode, control flow as in
   the source.  PTS/DTS, ESCR and Duration live in Model/Clock.v.  The length calculators
   (calcPESOptionalHeaderLength, calcPESOptionalHeaderDataLength), hasPESOptionalHeader and
   IsVideoStream are the definitions re-translated from the source on every run (Gen/Preds.v).
   No proofs in this file. *)
From Coq Require Import ZArith List Lia Bool.
Require Import Base.Bits Base.Iter Base.Wr Gen.Consts Gen.Types Gen.Preds Model.Clock.
Import ListNotations.
Open Scope Z_scope.
Open Scope iter_scope.

(* a nil pointer dereference in the Go code is a Panic of the model *)
Definition pneed {A} (o : option A) : res A := match o with Some a => Ok a | None => Panic end.

(* ---------------- parsing ---------------- *)

(* parseDSMTrickMode: control(3) then, by control: field_id(2) intra_slice_refresh(1) frequency_truncation(2) |
   field_id(2) reserved(3) | rep_cntrl(5) | reserved(5) *)
Definition parse_dsm_trick_mode (b : Z) : DSMTrickMode :=
  let c := bitsf [b] 0 3 in
  if orb (c =? C_TrickModeControlFastForward) (c =? C_TrickModeControlFastReverse) then
    {| DSMTrickMode_FieldID := bitsf [b] 3 2;
       DSMTrickMode_FrequencyTruncation := bitsf [b] 6 2;
       DSMTrickMode_IntraSliceRefresh := bitsf [b] 5 1;
       DSMTrickMode_RepeatControl := 0;
       DSMTrickMode_TrickModeControl := c |}
  else if c =? C_TrickModeControlFreezeFrame then
    {| DSMTrickMode_FieldID := bitsf [b] 3 2;
       DSMTrickMode_FrequencyTruncation := 0;
       DSMTrickMode_IntraSliceRefresh := 0;
       DSMTrickMode_RepeatControl := 0;
       DSMTrickMode_TrickModeControl := c |}
  else if orb (c =? C_TrickModeControlSlowMotion) (c =? C_TrickModeControlSlowReverse) then
    {| DSMTrickMode_FieldID := 0;
       DSMTrickMode_FrequencyTruncation := 0;
       DSMTrickMode_IntraSliceRefresh := 0;
       DSMTrickMode_RepeatControl := bitsf [b] 3 5;
       DSMTrickMode_TrickModeControl := c |}
  else
    {| DSMTrickMode_FieldID := 0;
       DSMTrickMode_FrequencyTruncation := 0;
       DSMTrickMode_IntraSliceRefresh := 0;
       DSMTrickMode_RepeatControl := 0;
       DSMTrickMode_TrickModeControl := c |}.

(* the PTS / DTS part, selected by PTS_DTS_flags: '10' PTS, '11' PTS then DTS, otherwise nothing *)
Definition parse_ptsdts (ind : Z) : IM (option ClockReference * option ClockReference) :=
  if ind =? C_PTSDTSIndicatorOnlyPTS then
    p <- parse_pts_or_dts ;; iret (Some p, None)
  else if ind =? C_PTSDTSIndicatorBothPresent then
    p <- parse_pts_or_dts ;; d <- parse_pts_or_dts ;; iret (Some p, Some d)
  else iret (None, None).

Definition parse_escr_opt (c : bool) : IM (option ClockReference) :=
  if c then e <- parse_escr ;; iret (Some e) else iret None.

(* ES_rate: marker(1) rate(22) marker(1) *)
Definition parse_es_rate (c : bool) : IM Z :=
  if c then bs <- next_bytes_nocopy 3 ;; iret (bitsf bs 1 22) else iret 0.

Definition parse_dsm_opt (c : bool) : IM (option DSMTrickMode) :=
  if c then b <- next_byte ;; iret (Some (parse_dsm_trick_mode b)) else iret None.

(* additional_copy_info: marker(1) info(7) *)
Definition parse_aci (c : bool) : IM Z :=
  if c then b <- next_byte ;; iret (bitsf [b] 1 7) else iret 0.

(* previous_PES_packet_CRC(16) *)
Definition parse_crc (c : bool) : IM Z :=
  if c then bs <- next_bytes_nocopy 2 ;; iret (bitsf bs 0 16) else iret 0.

(* what the PES extension contributes to the optional header *)
Record PesExt := mk_PesExt {
  pe_hasPD : bool; pe_hasPack : bool; pe_hasPSC : bool; pe_hasPSTD : bool; pe_hasExt2 : bool;
  pe_pd : list Z; pe_pack : Z;
  pe_psc : Z; pe_mpeg : Z; pe_osl : Z;
  pe_scale : Z; pe_size : Z;
  pe_e2len : Z; pe_e2data : list Z }.

Definition zero_PesExt : PesExt :=
  mk_PesExt false false false false false [] 0 0 0 0 0 0 0 [].

Definition parse_private_data (c : bool) : IM (list Z) :=
  if c then next_bytes 16 else iret [].
(* pack_field_length(8) then pack_header() of that many bytes, which is skipped, not parsed *)
Definition parse_pack_field (c : bool) : IM Z :=
  if c then b <- next_byte ;; iskip b ;;; iret b else iret 0.
(* program_packet_sequence_counter: marker(1) counter(7) marker(1) MPEG1_MPEG2_identifier(1) original_stuff_length(6) *)
Definition parse_psc (c : bool) : IM (Z * Z * Z) :=
  if c then bs <- next_bytes_nocopy 2 ;; iret (bitsf bs 1 7, bitsf bs 9 1, bitsf bs 10 6) else iret (0, 0, 0).
(* P-STD: '01' scale(1) size(13) *)
Definition parse_pstd (c : bool) : IM (Z * Z) :=
  if c then bs <- next_bytes_nocopy 2 ;; iret (bitsf bs 2 1, bitsf bs 3 13) else iret (0, 0).
(* PES_extension_2: marker(1) length(7) then length bytes *)
Definition parse_ext2 (c : bool) : IM (Z * list Z) :=
  if c then b <- next_byte ;; let l := bitsf [b] 1 7 in d <- next_bytes l ;; iret (l, d) else iret (0, []).

Definition parse_pes_extension (c : bool) : IM PesExt :=
  if c then
    b <- next_byte ;;
    let hasPD := bitb [b] 0 in
    let hasPack := bitb [b] 1 in
    let hasPSC := bitb [b] 2 in
    let hasPSTD := bitb [b] 3 in
    let hasExt2 := bitb [b] 7 in
    pd <- parse_private_data hasPD ;;
    pack <- parse_pack_field hasPack ;;
    '(psc, mpeg, osl) <- parse_psc hasPSC ;;
    '(scale, size) <- parse_pstd hasPSTD ;;
    '(e2len, e2data) <- parse_ext2 hasExt2 ;;
    iret (mk_PesExt hasPD hasPack hasPSC hasPSTD hasExt2 pd pack psc mpeg osl scale size e2len e2data)
  else iret zero_PesExt.

(* parsePESOptionalHeader: the header and dataStart = offset after the three fixed bytes + PES_header_data_length *)
Definition parse_pes_optional_header : IM (PESOptionalHeader * Z) :=
  b0 <- next_byte ;;
  b1 <- next_byte ;;
  b2 <- next_byte ;;
  off <- ioffset ;;
  let dataStart := off + b2 in
  let ind := bitsf [b1] 0 2 in
  let hasESCR := bitb [b1] 2 in
  let hasESRate := bitb [b1] 3 in
  let hasDSM := bitb [b1] 4 in
  let hasACI := bitb [b1] 5 in
  let hasCRC := bitb [b1] 6 in
  let hasExt := bitb [b1] 7 in
  '(pts, dts) <- parse_ptsdts ind ;;
  escr <- parse_escr_opt hasESCR ;;
  esrate <- parse_es_rate hasESRate ;;
  dsm <- parse_dsm_opt hasDSM ;;
  aci <- parse_aci hasACI ;;
  crc <- parse_crc hasCRC ;;
  e <- parse_pes_extension hasExt ;;
  iret ({| PESOptionalHeader_AdditionalCopyInfo := aci;
           PESOptionalHeader_CRC := crc;
           PESOptionalHeader_DataAlignmentIndicator := bitb [b0] 5;
           PESOptionalHeader_DSMTrickMode := dsm;
           PESOptionalHeader_DTS := dts;
           PESOptionalHeader_ESCR := escr;
           PESOptionalHeader_ESRate := esrate;
           PESOptionalHeader_Extension2Data := pe_e2data e;
           PESOptionalHeader_Extension2Length := pe_e2len e;
           PESOptionalHeader_HasAdditionalCopyInfo := hasACI;
           PESOptionalHeader_HasCRC := hasCRC;
           PESOptionalHeader_HasDSMTrickMode := hasDSM;
           PESOptionalHeader_HasESCR := hasESCR;
           PESOptionalHeader_HasESRate := hasESRate;
           PESOptionalHeader_HasExtension := hasExt;
           PESOptionalHeader_HasExtension2 := pe_hasExt2 e;
           PESOptionalHeader_HasOptionalFields := false;
           PESOptionalHeader_HasPackHeaderField := pe_hasPack e;
           PESOptionalHeader_HasPrivateData := pe_hasPD e;
           PESOptionalHeader_HasProgramPacketSequenceCounter := pe_hasPSC e;
           PESOptionalHeader_HasPSTDBuffer := pe_hasPSTD e;
           PESOptionalHeader_HeaderLength := b2;
           PESOptionalHeader_IsCopyrighted := bitb [b0] 6;
           PESOptionalHeader_IsOriginal := bitb [b0] 7;
           PESOptionalHeader_MarkerBits := bitsf [b0] 0 2;
           PESOptionalHeader_MPEG1OrMPEG2ID := pe_mpeg e;
           PESOptionalHeader_OriginalStuffingLength := pe_osl e;
           PESOptionalHeader_PacketSequenceCounter := pe_psc e;
           PESOptionalHeader_PackField := pe_pack e;
           PESOptionalHeader_Priority := bitb [b0] 4;
           PESOptionalHeader_PrivateData := pe_pd e;
           PESOptionalHeader_PSTDBufferScale := pe_scale e;
           PESOptionalHeader_PSTDBufferSize := pe_size e;
           PESOptionalHeader_PTS := pts;
           PESOptionalHeader_PTSDTSIndicator := ind;
           PESOptionalHeader_ScramblingControl := bitsf [b0] 2 2 |}, dataStart).

(* parsePESHeader: header, dataStart, dataEnd *)
Definition parse_pes_header : IM (PESHeader * Z * Z) :=
  sid <- next_byte ;;
  bs <- next_bytes_nocopy 2 ;;
  let plen := bitsf bs 0 16 in
  off <- ioffset ;;
  len <- ilength ;;
  let dataEnd := if plen >? 0 then off + plen else len in
  if hasPESOptionalHeader sid then
    '(oh, dataStart) <- parse_pes_optional_header ;;
    iret ({| PESHeader_OptionalHeader := Some oh; PESHeader_PacketLength := plen; PESHeader_StreamID := sid |},
          dataStart, dataEnd)
  else
    dataStart <- ioffset ;;
    iret ({| PESHeader_OptionalHeader := None; PESHeader_PacketLength := plen; PESHeader_StreamID := sid |},
          dataStart, dataEnd).

(* parsePESData: on an iterator over the whole concatenated payload of the unit *)
Definition parse_pes_data : IM PESData :=
  iseek 3 ;;;
  '(h, dataStart, dataEnd) <- parse_pes_header ;;
  if dataEnd <? dataStart then ierr E_generic else
  iseek dataStart ;;;
  d <- next_bytes (dataEnd - dataStart) ;;
  iret {| PESData_Data := d; PESData_Header := Some h |}.

Definition parse_pes_data_bytes (bs : list Z) : res PESData := run_iter parse_pes_data bs.

(* ---------------- writing ---------------- *)

(* writeDSMTrickMode *)
Definition enc_dsm_trick_mode (m : DSMTrickMode) : list witem :=
  let c := DSMTrickMode_TrickModeControl m in
  WBits 3 c ::
  (if orb (c =? C_TrickModeControlFastForward) (c =? C_TrickModeControlFastReverse) then
     [WBits 2 (DSMTrickMode_FieldID m); WBool (DSMTrickMode_IntraSliceRefresh m =? 1);
      WBits 2 (DSMTrickMode_FrequencyTruncation m)]
   else if c =? C_TrickModeControlFreezeFrame then
     [WBits 2 (DSMTrickMode_FieldID m); WBits 3 255]
   else if orb (c =? C_TrickModeControlSlowMotion) (c =? C_TrickModeControlSlowReverse) then
     [WBits 5 (DSMTrickMode_RepeatControl m)]
   else [WBits 5 255]).

(* the three fixed bytes of the optional header; the CRC flag is always written 0 *)
Definition enc_opt_fixed (h : PESOptionalHeader) : list witem :=
  [WBits 2 2;
   WBits 2 (PESOptionalHeader_ScramblingControl h);
   WBool (PESOptionalHeader_Priority h);
   WBool (PESOptionalHeader_DataAlignmentIndicator h);
   WBool (PESOptionalHeader_IsCopyrighted h);
   WBool (PESOptionalHeader_IsOriginal h);
   WBits 2 (PESOptionalHeader_PTSDTSIndicator h);
   WBool (PESOptionalHeader_HasESCR h);
   WBool (PESOptionalHeader_HasESRate h);
   WBool (PESOptionalHeader_HasDSMTrickMode h);
   WBool (PESOptionalHeader_HasAdditionalCopyInfo h);
   WBool false;
   WBool (PESOptionalHeader_HasExtension h);
   wu8 (calcPESOptionalHeaderDataLength h)].

Definition enc_ptsdts (h : PESOptionalHeader) : res (list witem * Z) :=
  res_bind (if PESOptionalHeader_PTSDTSIndicator h =? C_PTSDTSIndicatorOnlyPTS
            then res_map (fun c => (enc_pts_or_dts 2 c, C_ptsOrDTSByteLength)) (pneed (PESOptionalHeader_PTS h))
            else Ok ([], 0)) (fun '(i1, n1) =>
  res_bind (if PESOptionalHeader_PTSDTSIndicator h =? C_PTSDTSIndicatorBothPresent
            then res_bind (pneed (PESOptionalHeader_PTS h)) (fun p =>
                 res_bind (pneed (PESOptionalHeader_DTS h)) (fun d =>
                 Ok (enc_pts_or_dts 3 p ++ enc_pts_or_dts 1 d, C_ptsOrDTSByteLength + C_ptsOrDTSByteLength)))
            else Ok ([], 0)) (fun '(i2, n2) =>
  Ok (i1 ++ i2, n1 + n2))).

Definition enc_escr_opt (h : PESOptionalHeader) : res (list witem * Z) :=
  if PESOptionalHeader_HasESCR h
  then res_map (fun c => (enc_escr c, C_escrLength)) (pneed (PESOptionalHeader_ESCR h))
  else Ok ([], 0).

Definition enc_es_rate (h : PESOptionalHeader) : list witem * Z :=
  if PESOptionalHeader_HasESRate h
  then ([WBool true; WBits 22 (PESOptionalHeader_ESRate h); WBool true], 3)
  else ([], 0).

Definition enc_dsm_opt (h : PESOptionalHeader) : res (list witem * Z) :=
  if PESOptionalHeader_HasDSMTrickMode h
  then res_map (fun m => (enc_dsm_trick_mode m, C_dsmTrickModeLength)) (pneed (PESOptionalHeader_DSMTrickMode h))
  else Ok ([], 0).

Definition enc_aci (h : PESOptionalHeader) : list witem * Z :=
  if PESOptionalHeader_HasAdditionalCopyInfo h
  then ([WBool true; WBits 7 (PESOptionalHeader_AdditionalCopyInfo h)], 1)
  else ([], 0).

(* WriteBytesN(bs, 16, 0): the first 16 bytes, or all of them followed by zero bytes *)
Definition enc_private_data (pd : list Z) : list witem :=
  if 16 <=? Z.of_nat (length pd) then [WBytes (firstn 16 pd)]
  else WBytes pd :: repeat (wu8 0) (16 - length pd).

(* the extension: flags byte (pack_header_field_flag always 0, reserved '111'), then the parts *)
Definition enc_pes_extension (h : PESOptionalHeader) : list witem * Z :=
  if PESOptionalHeader_HasExtension h then
    let flags := [WBool (PESOptionalHeader_HasPrivateData h);
                  WBool false;
                  WBool (PESOptionalHeader_HasProgramPacketSequenceCounter h);
                  WBool (PESOptionalHeader_HasPSTDBuffer h);
                  WBits 3 255;
                  WBool (PESOptionalHeader_HasExtension2 h)] in
    let pd := if PESOptionalHeader_HasPrivateData h
              then (enc_private_data (PESOptionalHeader_PrivateData h), 16) else ([], 0) in
    let psc := if PESOptionalHeader_HasProgramPacketSequenceCounter h
               then ([WBool true; WBits 7 (PESOptionalHeader_PacketSequenceCounter h); WBool true;
                      WBits 1 (PESOptionalHeader_MPEG1OrMPEG2ID h);
                      WBits 6 (PESOptionalHeader_OriginalStuffingLength h)], 2) else ([], 0) in
    let pstd := if PESOptionalHeader_HasPSTDBuffer h
                then ([WBits 2 1; WBits 1 (PESOptionalHeader_PSTDBufferScale h);
                       WBits 13 (PESOptionalHeader_PSTDBufferSize h)], 2) else ([], 0) in
    let e2len := Z.of_nat (length (PESOptionalHeader_Extension2Data h)) in
    let e2 := if PESOptionalHeader_HasExtension2 h
              then ([WBool true; WBits 7 (e2len mod 256); WBytes (PESOptionalHeader_Extension2Data h)], 1 + e2len)
              else ([], 0) in
    (flags ++ fst pd ++ fst psc ++ fst pstd ++ fst e2, 1 + snd pd + snd psc + snd pstd + snd e2)
  else ([], 0).

(* writePESOptionalHeader (for a non-nil header): items and the bytesWritten it reports *)
Definition enc_pes_optional_header (h : PESOptionalHeader) : res (list witem * Z) :=
  res_bind (enc_ptsdts h) (fun '(ts, n1) =>
  res_bind (enc_escr_opt h) (fun '(es, n2) =>
  let '(er, n3) := enc_es_rate h in
  res_bind (enc_dsm_opt h) (fun '(dsm, n4) =>
  let '(aci, n5) := enc_aci h in
  let '(ext, n6) := enc_pes_extension h in
  Ok (enc_opt_fixed h ++ ts ++ es ++ er ++ dsm ++ aci ++ ext, 3 + n1 + n2 + n3 + n4 + n5 + n6)))).

(* the PES_packet_length field writePESHeader emits *)
Definition pes_packet_length (h : PESHeader) (payloadSize : Z) : Z :=
  if PESHeader_IsVideoStream h then 0 else
  let l := payloadSize + (if hasPESOptionalHeader (PESHeader_StreamID h)
                          then calcPESOptionalHeaderLength (PESHeader_OptionalHeader h) else 0) in
  if l >? 65535 then 0 else l.

(* writePESHeader: items and the byte count it returns *)
Definition enc_pes_header (h : PESHeader) (payloadSize : Z) : res (list witem * Z) :=
  let head := [WBits 24 1; wu8 (PESHeader_StreamID h); wu16 (pes_packet_length h payloadSize)] in
  if hasPESOptionalHeader (PESHeader_StreamID h) then
    res_bind (match PESHeader_OptionalHeader h with
              | None => Ok ([], 0)
              | Some oh => enc_pes_optional_header oh
              end) (fun '(oi, n) => Ok (head ++ oi, C_pesHeaderLength + n))
  else Ok (head, C_pesHeaderLength).

(* writePESData: items, totalBytesWritten, payloadBytesWritten; payloadLeft[:n] panics for n < 0 *)
Definition write_pes_data (h : PESHeader) (payloadLeft : list Z) (isPayloadStart : bool) (bytesAvailable : Z)
    : res (list witem * Z * Z) :=
  let plen := Z.of_nat (length payloadLeft) in
  res_bind (if isPayloadStart then enc_pes_header h plen else Ok ([], 0)) (fun '(hi, n) =>
  let pw0 := bytesAvailable - n in
  let pw := if pw0 >? plen then plen else pw0 in
  if pw <? 0 then Panic else
  Ok (hi ++ [WBytes (firstn (Z.to_nat pw) payloadLeft)], n + pw, pw)).
